#!/usr/bin/env python3
"""tools/benign_units.py [--only=dir/file.diff ...] : fast false-alarm sweep.  For every behaviour-preserving patch under seeded/benign/*/ the units that
   lower a function from a touched file are run (quick tier) against a scratch worktree with the patch applied.  Expected: every unit green
   (0 not as expected, 0 problems).  'BAD' = a contract fails on equivalent code (false alarm -> fix the contract/harness);
   'PROBLEM' = the unit cannot decide the restructured text (exit 2 at property level -> make the extraction robust).  Developer tool."""
import sys, os, json, subprocess, glob, re
sys.path.insert(0, '/verif')
from xvlib import engine as E
WT = os.environ.get('BENIGNWT', '/tmp/benignunits')
def sh(cmd, timeout=3600):
    p = subprocess.run(cmd, shell=True, stdout=subprocess.PIPE, stderr=subprocess.STDOUT, timeout=timeout)
    return p.returncode, p.stdout.decode(errors='replace')
file2units = {}
for d in sorted(glob.glob('/verif/units/*/unit.py')):
    n = os.path.basename(os.path.dirname(d))
    try: u = E.load_unit(n)
    except Exception: continue
    for s in u.get('sources', []) + u.get('consts', []): file2units.setdefault(s['file'], set()).add(n)
only = [a[7:] for a in sys.argv[1:] if a.startswith('--only=')]
if not os.path.exists(WT): rc, out = sh('git -C /repo worktree add --detach %s HEAD' % WT); assert rc == 0, out
else: sh('git -C %s checkout -q -- . && git -C %s checkout -q --detach $(git -C /repo rev-parse HEAD)' % (WT, WT))
rp = '/verif/seeded/benign/unit_results.json'
res = json.load(open(rp)) if os.path.exists(rp) else {}
for lj in sorted(glob.glob('/verif/seeded/benign/*/list.json')):
    d = os.path.dirname(lj)
    for e in json.load(open(lj)):
        key = os.path.basename(d) + '/' + e['file']
        if only and key not in only: continue
        diff = open(os.path.join(d, e['file']), errors='replace').read()
        files = re.findall(r'^\+\+\+ b/(\S+)', diff, flags=re.M)
        units = sorted(set(u for f in files for u in file2units.get(f, [])))
        rc, out = sh('git -C %s apply %s/%s' % (WT, d, e['file']))
        if rc != 0: res[key] = 'APPLY FAILED ' + out[-200:]; print(key, res[key], flush=True); continue
        r = {}
        for u in units:
            rcx, outx = sh('cd /verif && XV_REPO=%s ./xv unit %s' % (WT, u))
            last = outx.strip().splitlines()[-1] if outx.strip() else ''
            known = [f['obligation'] for f in json.load(open('/verif/known_findings.json'))['findings'] if f['status'] == 'known']
            bad = [l.strip()[:200] for l in outx.splitlines() if l.startswith('  BAD') and ' XASSERT ' not in l and not any(k in l for k in known)][:4]
            prob = [l[:300] for l in outx.splitlines() if l.startswith('PROBLEM')][:3]
            nbad = len([l for l in outx.splitlines() if l.startswith('  BAD')]); m = re.search(r'(\d+) not as expected, (\d+) problems$', last)
            if not m or m.group(2) != '0' or bad or int(m.group(1)) != nbad: r[u] = dict(last=last[-200:], bad=bad, problems=prob, tail=outx[-400:] if not (bad or prob) else '')
            else: r[u] = 'ok'
        sh('git -C %s checkout -q -- .' % WT)
        res[key] = r
        print(key, e.get('kind', '')[:60], '|', {k: (v if v == 'ok' else 'NOT OK') for k, v in r.items()}, flush=True)
        for u, v in r.items():
            if v != 'ok': print('     ', u, json.dumps(v)[:900], flush=True)
        json.dump(res, open(rp, 'w'), indent=1)
