#!/usr/bin/env python3
"""tools/mutsweep.py <unit> [--max N] [--jobs J] [--out file.json] [--ops a,b,..]
Generic mutation sweep (developer aid, finds contracts that are too weak): for every function a unit has under contract
(file + line range as extracted on this run) apply line-level mutation operators to a scratch copy of xenium/ (under a
mkdtemp directory, removed at the end), run the unit's quick tier against it (XV_REPO=scratch) and classify:
  killed     some named obligation / safety check / loop invariant / unwinding assertion failed that passes on the clean tree
  undecided  the run ended with problems only (extraction broke, C front end error = most likely does not compile as C++ either)
  survived   everything as on the clean tree  -> triage by hand: equivalent mutant, outside the property, or a weak contract
Nothing here is part of a MANIFEST command."""
import sys, os, re, json, shutil, subprocess, tempfile, hashlib
from concurrent.futures import ThreadPoolExecutor
V = os.path.dirname(os.path.dirname(os.path.abspath(__file__)))
sys.path.insert(0, V)
from xvlib import engine as E

ORDERS = ['memory_order_seq_cst', 'memory_order_acq_rel', 'memory_order_acquire', 'memory_order_release']
def mutants_of_line(line):
    """yield (operator, new_line)"""
    s = line.rstrip('\r\n'); eol = line[len(s):]
    code = s.split('//')[0]
    if not code.strip() or code.strip().startswith(('#', '*', '/*', 'assert', 'static_assert')) or 'XENIUM_VERIF_POINT' in code: return
    for o in ORDERS:
        if o in code: yield 'order:%s->relaxed' % o[13:], s.replace(o, 'memory_order_relaxed', 1) + eol
    for a, b in ((' <= ', ' < '), (' < ', ' <= '), (' >= ', ' > '), (' > ', ' >= '), (' == ', ' != '), (' != ', ' == ')):
        if a in code and 'template' not in code and 'operator' not in code and '->' not in code.split(a)[0][-3:]:
            yield 'rel:%s->%s' % (a.strip(), b.strip()), s.replace(a, b, 1) + eol
    for a, b in ((' & ', ' | '), (' | ', ' & '), (' << ', ' >> '), (' >> ', ' << '), (' ^ ', ' & ')):
        if a in code and 'template' not in code and 'operator' not in code and '<<=' not in code and 'std::c' not in code:
            yield 'bit:%s->%s' % (a.strip(), b.strip()), s.replace(a, b, 1) + eol
    if re.search(r'~\w', code) and 'operator' not in code and '~T' not in code and not re.search(r'~\w+\(\)', code): yield 'bit:drop~', re.sub(r'~(\w)', r'\1', s, 1) + eol
    if re.search(r'\bstd::move\((\w+)\)', code): yield 'move->copy', re.sub(r'\bstd::move\((\w+)\)', r'\1', s, 1) + eol
    if re.search(r'compare_exchange_(weak|strong)\(', code) and code.strip().startswith(('if (', 'while (', '} while (')) is False and code.strip().endswith(';'):
        pass
    if ' && ' in code: yield 'logic:&&->||', s.replace(' && ', ' || ', 1) + eol
    if ' || ' in code: yield 'logic:||->&&', s.replace(' || ', ' && ', 1) + eol
    m = re.search(r'\bif \((.*)\) \{\s*$', code)
    if m and 'constexpr' not in code: yield 'negate-if', s.replace('if (' + m.group(1) + ')', 'if (!(' + m.group(1) + '))', 1) + eol
    if re.search(r'\+ 1\b', code): yield 'arith:+1->+0', re.sub(r'\+ 1\b', '+ 0', s, 1) + eol
    if re.search(r'- 1\b', code) and '->' not in code: yield 'arith:-1->-0', re.sub(r'- 1\b', '- 0', s, 1) + eol
    if re.search(r'\breturn true;', code): yield 'ret:true->false', s.replace('return true;', 'return false;', 1) + eol
    if re.search(r'\breturn false;', code): yield 'ret:false->true', s.replace('return false;', 'return true;', 1) + eol
    if re.search(r'^\s*continue;\s*$', code): yield 'continue->break', s.replace('continue;', 'break;', 1) + eol
    if re.search(r'^\s*break;\s*$', code): yield 'break->continue', s.replace('break;', 'continue;', 1) + eol
    # delete a statement that is a call / store / assignment on one line (not a declaration, not a return)
    t = code.strip()
    if t.endswith(';') and not re.match(r'^(return|auto|const|static|using|typedef|else|break|continue|goto|throw|delete|case|default|[\w:<>]+\s+[\w]+\s*(=|;|\())', t) \
       and t.count('(') == t.count(')') and not t.startswith(('}', '{')):
        yield 'delete-stmt', re.match(r'\s*', s).group(0) + ';' + eol

def run_unit(unit, root, out, runs=None):
    cmd = [os.path.join(V, 'xv'), 'unit', unit, '--json', out] + sum([['--run', r] for r in (runs or [])], [])
    p = subprocess.run(cmd, env=dict(os.environ, XV_REPO=root), stdout=subprocess.PIPE, stderr=subprocess.STDOUT)
    if not os.path.exists(out): return None, p.stdout.decode(errors='replace')[-400:]
    return json.load(open(out)), ''
FAILK = ('OBL', 'LOOPBASE', 'LOOPSTEP', 'SAFETY', 'UNWIND', 'STATIC')
def failed(res): return set(r['name'] for r in res['records'] if r['kind'] in FAILK and r['status'] != 'SUCCESS') | set(r['name'] for r in res['records'] if r['kind'] == 'CANARY' and r['status'] != 'FAILURE')

def main():
    args = [a for a in sys.argv[1:] if not a.startswith('--')]; opts = dict(a[2:].split('=', 1) if '=' in a else (a[2:], '1') for a in sys.argv[1:] if a.startswith('--'))
    unit = args[0]; maxn = int(opts.get('max', 10 ** 6)); jobs = int(opts.get('jobs', 3)); ops = opts.get('ops'); only_fn = opts.get('fn')
    u = E.load_unit(unit); wd = tempfile.mkdtemp(prefix='mutsweep-')
    try:
        info = E.prepare(u, wd)
        ranges = {}
        for f in info['functions']:
            if only_fn and not re.search(only_fn, f['id']): continue
            ranges.setdefault(f['file'], set()).update(range(f['lines'][0], f['lines'][1] + 1))
        base, msg = run_unit(unit, E.REPO, os.path.join(wd, 'base.json'))
        if base is None: print('base run failed', msg); return 2
        base_failed = failed(base); base_problems = len(base['problems'])
        muts = []
        for rel, lines in sorted(ranges.items()):
            src = open(os.path.join(E.REPO, rel), newline='').read().splitlines(keepends=True)
            for ln in sorted(lines):
                for op, new in mutants_of_line(src[ln - 1]):
                    if ops and not any(op.startswith(o) for o in ops.split(',')): continue
                    if new != src[ln - 1]: muts.append(dict(file=rel, line=ln, op=op, old=src[ln - 1].strip(), new=new.strip()))
        # deterministic thinning
        if len(muts) > maxn:
            muts.sort(key=lambda m: hashlib.sha1(('%s:%d:%s' % (m['file'], m['line'], m['op'])).encode()).hexdigest()); muts = muts[:maxn]
            muts.sort(key=lambda m: (m['file'], m['line'], m['op']))
        print('%s: %d functions, %d mutants, base: %d failing records, %d problems' % (unit, len(info['functions']), len(muts), len(base_failed), base_problems), flush=True)
        def one(i):
            m = muts[i]; root = os.path.join(wd, 'm%d' % i); os.makedirs(root)
            shutil.copytree(os.path.join(E.REPO, 'xenium'), os.path.join(root, 'xenium'))
            p = os.path.join(root, m['file']); src = open(p, newline='').read().splitlines(keepends=True)
            old = src[m['line'] - 1]; eol = old[len(old.rstrip('\r\n')):]
            lead = re.match(r'\s*', old).group(0)
            src[m['line'] - 1] = lead + m['new'] + eol
            open(p, 'w', newline='').write(''.join(src))
            res, msg = run_unit(unit, root, os.path.join(root, 'out.json'))
            shutil.rmtree(root, ignore_errors=True)
            if res is None: m['result'] = 'undecided'; m['why'] = msg.strip().splitlines()[-1:] if msg.strip() else []
            else:
                f = sorted(failed(res) - base_failed)
                if f: m['result'] = 'killed'; m['by'] = f[:4]
                elif len(res['problems']) > base_problems: m['result'] = 'undecided'; m['why'] = [str(x)[:200] for x in res['problems'][:2]]
                else: m['result'] = 'survived'
            print('%-9s %s:%d %-22s %s  =>  %s   %s' % (m['result'], m['file'].split('/')[-1], m['line'], m['op'], m['old'][:70], m['new'][:70], ','.join(m.get('by', []))[:100]), flush=True)
            return m
        with ThreadPoolExecutor(max_workers=jobs) as ex: done = list(ex.map(one, range(len(muts))))
        summ = {k: sum(1 for m in done if m['result'] == k) for k in ('killed', 'survived', 'undecided')}
        print('SUMMARY', unit, summ)
        if opts.get('out'): json.dump(dict(unit=unit, summary=summ, mutants=done), open(opts['out'], 'w'), indent=1)
    finally:
        shutil.rmtree(wd, ignore_errors=True)
main()
