#!/usr/bin/env python3
"""tools/seed_import.py <json-spec-file>: copy seeds from seeded/_incoming/<id>/ into seeded/<seed-id>/ (patch.diff, demo files, meta.json)"""
import sys, os, json, shutil
spec = json.load(open(sys.argv[1]))
for s in spec:
    inc = '/verif/seeded/_incoming/' + s['from']; d = '/verif/seeded/' + s['id']; os.makedirs(d, exist_ok=True)
    shutil.copy(os.path.join(inc, s['patch']), d + '/patch.diff')
    for f in s.get('files', []): shutil.copy(os.path.join(inc, f), d + '/' + os.path.basename(f))
    meta = {k: s[k] for k in ('property', 'what', 'breaks', 'needs', 'demo_build', 'demo_run', 'check_properties', 'demo_timeout') if k in s}
    meta['source'] = 'independent sub-agent (given only the property text and a scratch worktree)'
    json.dump(meta, open(d + '/meta.json', 'w'), indent=1)
    print('imported', s['id'])
