#!/usr/bin/env python3
"""tools/seed_table.py : markdown table of the seeded changes (seeded/*/meta.json) and the obligations that caught them"""
import json, glob, os, re, sys
sys.path.insert(0, '/verif')
from xvlib import engine as E
names = set()
for d in sorted(glob.glob('/verif/units/*/unit.py')):
    try: u = E.load_unit(os.path.basename(os.path.dirname(d))); names.update(u.get('obligations', {}).keys())
    except Exception as e: pass
rows = []
for f in sorted(glob.glob('/verif/seeded/C*/meta.json')):
    m = json.load(open(f)); c = m.get('confirmed', {}); sid = f.split('/')[-2]
    obls = []; nf = False
    for pid, r in c.get('xv_checks_with_change', {}).items():
        for l in r['lines']:
            mm = re.match(r'VIOLATION property=(\S+) replay=\S+/([^/]+)\.json(.*)', l)
            if not mm: continue
            fn = mm.group(2); best = ''
            for n in names:
                if fn.startswith(n) and len(n) > len(best): best = n
            if not best: best = fn
            if best not in obls: obls.append(best)
            if 'no-failing-input-found' not in mm.group(3): nf = True
    rcs = {k: v['rc'] for k, v in c.get('xv_checks_with_change', {}).items()}
    rows.append('| %s | %s | %s | %s |' % (sid, m.get('what', '')[:140].replace('|', '/'), ', '.join(obls[:4]) or '—', ' '.join('%s:%s' % (k, {0: 'pass', 1: 'VIOLATION', 2: 'undecided'}.get(v, v)) for k, v in rcs.items()) + (' (native replay reproduces)' if nf else '')))
print('| seed | change | failing obligations (first few) | quick checks |\n|---|---|---|---|')
print('\n'.join(rows))
