#!/usr/bin/env python3
"""regenerate MANIFEST.json from props/*.py (claimed) and tools/not_applicable.json (reasons for the rest)"""
import json, os, glob
V = os.path.dirname(os.path.dirname(os.path.abspath(__file__)))
props = [json.loads(l) for l in open(os.path.join(V, 'properties.jsonl'))]
na = json.load(open(os.path.join(V, 'tools', 'not_applicable.json')))
hooks_commits = json.load(open(os.path.join(V, 'tools', 'hook_commits.json')))
checks = []; notapp = []; served = {}
for p in props:
    pid = p['id']; f = os.path.join(V, 'props', pid + '.py')
    if os.path.exists(f) and pid not in na.get('force', {}):
        g = {}; exec(open(f).read(), g); P = g['PROP']
        checks.append(dict(property_id=pid, quick_cmd='./xv check %s --tier quick' % pid, thorough_cmd='./xv check %s --tier thorough' % pid,
            evidence_file='/verif/evidence/%s.json' % pid, replay_cmd_template='./xv replay {path}', engine='xv',
            level_claimed=dict(category=P['level'], text=P.get('level_text', P.get('explanation', '')), design_ref=P.get('design_ref', 'DESIGN.md section 3, ' + pid)),
            level_note='; '.join(P.get('assumptions', [])) or 'see evidence file',
            technique=P.get('technique', 'contract-based deductive verification: function contracts on text extracted from /repo, lowered to C, discharged by cbmc (own VC encoding, loop invariants / shape-complete unwinding)')))
        for u in P['units']: served.setdefault(u, []).append(pid)
    else:
        notapp.append(dict(property_id=pid, reason=na['reasons'].get(pid, na['default'])))
m = dict(version=1, setup_cmd='true',
  hooks=dict(guard='MPOETER_XENIUM_VERIF', enable='native replay programs are compiled with -DMPOETER_XENIUM_VERIF -fno-access-control; verification extracts function text from /repo and needs no hook',
             baseline_off_cmd='cmake -G Ninja -B /repo/_build -S /repo && cmake --build /repo/_build --target gtest && ctest --test-dir /repo/_build -j8 --timeout 900',
             source_commits=hooks_commits, add_only=True),
  engines=[dict(name='xv', path='/verif/xv', serves_properties=sorted(set(c['property_id'] for c in checks)),
                kind_free_text='python driver: extracts function bodies from /repo, lowers them to C (xvlib/lower.py), attaches contracts/harnesses from units/, runs cbmc per function, replays counterexamples natively')],
  checks=checks, notes='see DESIGN.md; known_findings.json lists fixed and open findings', not_applicable=notapp)
json.dump(m, open(os.path.join(V, 'MANIFEST.json'), 'w'), indent=1)
print('claimed:', [c['property_id'] for c in checks]); print('not applicable:', [n['property_id'] for n in notapp])
