#!/usr/bin/env python3
"""tools/design_table.py : markdown table "as built" per property from evidence/*.json (run after refreshing the evidence)"""
import json, glob, collections
print('| property | level reported | units (runs) | functions under contract | obligations discharged / generated | run classes | canaries | known findings | wall (quick) |')
print('|---|---|---|---|---|---|---|---|---|')
for f in sorted(glob.glob('/verif/evidence/C*.json')):
    e = json.load(open(f)); c = e['coverage']
    units = collections.Counter(r['unit'] for r in c['runs'])
    cls = collections.Counter(r['classification'] for r in c['runs'])
    modes = collections.Counter(r['mode'] for r in c['runs'])
    print('| %s | %s | %s | %d | %d / %d | %s; modes %s | %d/%d | %s | %.0f s |' % (
        e['property_id'], e['level'], ', '.join('%s (%d)' % kv for kv in sorted(units.items())), len(c['functions_under_contract']),
        c['discharged'], c['obligations'], ', '.join('%s %d' % kv for kv in sorted(cls.items())), ', '.join('%s %d' % kv for kv in sorted(modes.items())),
        c['canaries']['reachable'], c['canaries']['placed'], '; '.join(k['obligation'] for k in c.get('known_findings', [])) or '—', e['wall_s']))
