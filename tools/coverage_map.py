#!/usr/bin/env python3
"""List the function bodies of /repo/xenium/**.hpp and whether some evidence file has them under contract.
Heuristic function finder (brace matching on comment-stripped text): a '{' that follows ')' [const|noexcept|override|-> T|: init-list]
and is not a control statement. Used as a development aid and for DESIGN.md §13; not part of any check."""
import json,glob,collections,re,os,sys
REPO=os.environ.get('XV_REPO','/repo')
def strip(t):
    out=[];i=0;n=len(t)
    while i<n:
        if t.startswith('//',i):
            j=t.find('\n',i); j=n if j<0 else j; out.append(' '*(j-i)); i=j
        elif t.startswith('/*',i):
            j=t.find('*/',i); j=n if j<0 else j+2; out.append(re.sub(r'[^\n]',' ',t[i:j])); i=j
        elif t[i]=='"':
            j=i+1
            while j<n and t[j]!='"':
                j+=2 if t[j]=='\\' else 1
            out.append('"'+' '*(j-i-1)+'"'); i=j+1
        else: out.append(t[i]); i+=1
    return ''.join(out)
CTRL={'if','for','while','switch','catch','do','else','try'}
def functions(path):
    t=strip(open(path,errors='replace').read().replace('\r',''))
    res=[];n=len(t)
    i=0
    while i<n:
        if t[i]=='{':
            # look back
            j=i-1
            while j>=0 and t[j].isspace(): j-=1
            head=t[max(0,j-400):j+1]
            m=re.search(r'\)\s*(const\s*)?(noexcept(\s*\([^{}]*\))?\s*)?(override\s*)?(->\s*[\w:<>,&*\s]+)?$',head)
            isfn=False;name=None
            if m or re.search(r'\)\s*(noexcept\s*)?:\s*[\w\s,(){}:<>.*&\->+\[\]"]+[)}]\s*$',head):
                # find matching '(' of the parameter list
                # walk back from the last ')' before init list
                k=j
                if not m:
                    mm=re.search(r'\)\s*(noexcept\s*)?:\s*[\w\s,(){}:<>.*&\->+\[\]"]+[)}]\s*$',head)
                    k=max(0,j-400)+mm.start()
                else:
                    k=max(0,j-400)+m.start()
                depth=0;p=k
                while p>=0:
                    if t[p]==')': depth+=1
                    elif t[p]=='(':
                        depth-=1
                        if depth==0: break
                    p-=1
                q=p-1
                while q>=0 and t[q].isspace(): q-=1
                e=q+1
                while q>=0 and (t[q].isalnum() or t[q] in '_~:<>=!+-*[]&|' ): q-=1
                name=t[q+1:e].strip()
                base=name.split('::')[-1]
                if name and base not in CTRL and not name.startswith('static_assert') and base not in ('alignas','decltype','sizeof','noexcept','__attribute__'):
                    isfn=True
            # match close
            depth=0;p=i
            while p<n:
                if t[p]=='{': depth+=1
                elif t[p]=='}':
                    depth-=1
                    if depth==0: break
                p+=1
            if isfn:
                l1=t.count('\n',0,i)+1; l2=t.count('\n',0,p)+1
                # signature start line
                res.append((name,t.count('\n',0,q+1)+1,l2))
                i=p+1; continue
        i+=1
    return res
def main():
    cov=collections.defaultdict(set); props=collections.defaultdict(lambda:collections.defaultdict(set))
    for f in sorted(glob.glob(os.path.join(os.path.dirname(__file__),'..','evidence','C*.json'))):
        e=json.load(open(f))
        for fn in e['coverage'].get('functions_under_contract',[]):
            for l in range(fn['lines'][0],fn['lines'][1]+1):
                cov[fn['file']].add(l); props[fn['file']][l].add(e['property_id'])
    only=sys.argv[1:] 
    tot=0;un=0
    for root,d,fs in sorted(os.walk(os.path.join(REPO,'xenium'))):
        for fn in sorted(fs):
            p=os.path.join(root,fn); rel=os.path.relpath(p,REPO)
            if only and not any(o in rel for o in only): continue
            fl=functions(p)
            if not fl: continue
            print('##',rel)
            for name,a,b in fl:
                c=[l for l in range(a,b+1) if l in cov[rel]]
                tot+=1
                if c:
                    ps=set()
                    for l in c: ps|=props[rel][l]
                    print(f'   ok  {a:4d}-{b:4d} {name}  [{",".join(sorted(ps))}]')
                else:
                    un+=1
                    print(f'   --  {a:4d}-{b:4d} {name}')
    print(f'{tot} function bodies, {un} without contract')
main()
