#!/usr/bin/env python3
import json,glob
for f in sorted(glob.glob('/verif/seeded/C*/meta.json')):
    m=json.load(open(f)); c=m.get('confirmed')
    if not c: print(f.split('/')[-2], 'NOT VERIFIED'); continue
    print('%-42s demo w/o:%s suite:%s demo with:%s checks:%s %s' % (f.split('/')[-2], c['demo_without_change']['rc'], c.get('suite_with_change',{}).get('passed'), c.get('demo_with_change',{}).get('rc'), [(k,v['rc']) for k,v in c.get('xv_checks_with_change',{}).items()], c.get('apply','')[:60]))
