#!/usr/bin/env python3
"""tools/design_seed_table.py: replace the seed table of DESIGN.md §11 by the output of tools/seed_table.py (confirmation records of seeded/*/meta.json)"""
import subprocess, re, sys
tab = subprocess.run([sys.executable, '/verif/tools/seed_table.py'], stdout=subprocess.PIPE).stdout.decode().strip()
s = open('/verif/DESIGN.md').read()
i = s.index('| seed | change | failing obligations (first few) | quick checks |')
j = s.index('\n\n', i)
s = s[:i] + tab + s[j:]
open('/verif/DESIGN.md', 'w').write(s)
print('rows:', tab.count('\n') - 1)
