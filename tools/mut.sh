#!/bin/bash
# tools/mut.sh <file-relative-to-repo> <sed-expr> <command...> : apply a sed mutation to /repo, run command, revert (dev aid)
f=$1; e=$2; shift 2
R=${XV_REPO:-/repo}
cd $R || exit 9
if ! git diff --quiet -- "$f"; then echo "file has local changes"; exit 9; fi
sed -i "$e" "$f"
if git diff --quiet -- "$f"; then echo "MUTATION DID NOT APPLY"; exit 9; fi
git diff -U0 -- "$f" | grep '^[-+]' | grep -v '^+++\|^---' | head -6
cd /verif; "$@"; rc=$?
cd $R; git checkout -q -- "$f"
exit $rc
