#!/usr/bin/env python3
"""tools/seed_verify.py <seeded/id> ... : confirm a seeded change in a scratch worktree (/tmp/seedverify):
   builds, existing test suite passes with it, demo fails with it and passes without it; then runs the property's
   xv checks against it (XV_REPO=worktree) and records everything in the seed's meta.json.  Developer tool, not a MANIFEST command."""
import sys, os, json, subprocess, shutil, time
WT = os.environ.get('SEEDWT', '/tmp/seedverify')
def sh(cmd, timeout=3600, **kw):
    p = subprocess.run(cmd, shell=True, stdout=subprocess.PIPE, stderr=subprocess.STDOUT, timeout=timeout, **kw)
    return p.returncode, p.stdout.decode(errors='replace')
def ensure_wt():
    if not os.path.exists(WT):
        rc, out = sh('git -C /repo worktree add --detach %s HEAD' % WT); assert rc == 0, out
        sh('cp -r /repo/3rdParty/gtest/. %s/3rdParty/gtest/' % WT)
    else:
        sh('git -C %s checkout -q -- . && git -C %s checkout -q --detach $(git -C /repo rev-parse HEAD)' % (WT, WT))
    if not os.path.exists(WT + '/_b/build.ninja'):
        rc, out = sh('cmake -G Ninja -S %s -B %s/_b -DCMAKE_BUILD_TYPE=RelWithDebInfo' % (WT, WT)); assert rc == 0, out
def build_and_test():
    rc, out = sh('cmake --build %s/_b --target gtest' % WT)
    if rc != 0: return False, 'BUILD FAILED\n' + out[-2000:]
    rc, out = sh('ctest --test-dir %s/_b --timeout 1800' % WT)
    return rc == 0, out[-600:]
def demo(meta, d):
    exe = WT + '_demo'
    rc, out = sh(meta['demo_build'].replace('{WT}', WT).replace('{DIR}', d).replace('{EXE}', exe), timeout=900)
    if rc != 0: return None, 'DEMO BUILD FAILED\n' + out[-1500:]
    try: rc, out = sh(meta.get('demo_run', '{EXE}').replace('{EXE}', exe).replace('{WT}', WT).replace('{DIR}', d), timeout=meta.get('demo_timeout', 600))
    except subprocess.TimeoutExpired: rc, out = 124, 'TIMEOUT'
    return rc, out[-1500:]
def main():
    skip_suite = '--no-suite' in sys.argv
    suite_only = '--suite-only' in sys.argv      # confirm build + suite + demo, keep the recorded xv results
    for d in [a for a in sys.argv[1:] if not a.startswith('--')]:
        d = os.path.abspath(d); meta = json.load(open(d + '/meta.json')); ensure_wt()
        res = {'at': time.strftime('%Y-%m-%d %H:%M'), 'repo_head': sh('git -C /repo rev-parse --short HEAD')[1].strip()}
        rc0, out0 = demo(meta, d); res['demo_without_change'] = dict(rc=rc0, tail=out0[-400:])
        rc, out = sh('git -C %s apply %s/patch.diff' % (WT, d))
        if rc != 0: res['apply'] = out; print(d, 'PATCH DOES NOT APPLY', out)
        else:
            if skip_suite and meta.get('confirmed', {}).get('suite_with_change'): res['suite_with_change'] = dict(meta['confirmed']['suite_with_change'], at_repo_head=meta['confirmed'].get('repo_head'))
            if not skip_suite:
                ok, tail = build_and_test(); res['suite_with_change'] = dict(passed=ok, tail=tail[-300:])
            rc1, out1 = demo(meta, d); res['demo_with_change'] = dict(rc=rc1, tail=out1[-600:])
            only = [x for x in os.environ.get('SEED_ONLY_PROPS', '').split(',') if x]      # re-run the checks of these properties only, keep the other records
            checks = dict(meta.get('confirmed', {}).get('xv_checks_with_change', {})) if (suite_only or only) else {}
            for pid in ([] if suite_only else [q for q in meta.get('check_properties', [meta['property']]) if not only or q in only]):
                rcx, outx = sh('cd /verif && XV_REPLAYS=%s_replays XV_REPO=%s ./xv check %s --tier quick --no-evidence' % (WT, WT, pid), timeout=3600)
                checks[pid] = dict(rc=rcx, lines=[l for l in outx.splitlines() if l.startswith(('VIOLATION', 'xv:'))][-6:])
            res['xv_checks_with_change'] = checks
            sh('git -C %s checkout -q -- .' % WT)
        meta['confirmed'] = res
        json.dump(meta, open(d + '/meta.json', 'w'), indent=1)
        print(d, json.dumps(res, indent=1)[:1500])
main()
