#!/usr/bin/env python3
"""tools/benign_verify.py <dir with list.json + *.diff> ... : false-alarm test.  Each patch is a behaviour-preserving change
   (written by an independent sub-agent that saw only the property texts).  It is applied to a scratch worktree and the
   property's quick check must exit 0 on it: exit 1 = false alarm (fix the machinery), exit 2 = the check cannot decide the
   restructured code (brittle extraction: make it robust).  Results go to <dir>/results.json.  Developer tool."""
import sys, os, json, subprocess
WT = os.environ.get('BENIGNWT', '/tmp/benignverify')
def sh(cmd, timeout=3600):
    p = subprocess.run(cmd, shell=True, stdout=subprocess.PIPE, stderr=subprocess.STDOUT, timeout=timeout)
    return p.returncode, p.stdout.decode(errors='replace')
def main():
    only = [a[7:] for a in sys.argv[1:] if a.startswith('--only=')]
    if not os.path.exists(WT):
        rc, out = sh('git -C /repo worktree add --detach %s HEAD' % WT); assert rc == 0, out
    else:
        sh('git -C %s checkout -q -- . && git -C %s checkout -q --detach $(git -C /repo rev-parse HEAD)' % (WT, WT))
    for d in [a for a in sys.argv[1:] if not a.startswith('--')]:
        d = os.path.abspath(d); lst = json.load(open(d + '/list.json'))
        rp = d + '/results.json'; results = json.load(open(rp)) if os.path.exists(rp) else {}
        for e in lst:
            f = e['file']
            if only and f not in only: continue
            rc, out = sh('git -C %s apply %s/%s' % (WT, d, f))
            if rc != 0: results[f] = dict(rc='apply-failed', out=out[-300:]); print(f, 'APPLY FAILED'); continue
            props = e.get('check_properties', [e['property']])
            r = {}
            for pid in props:
                rcx, outx = sh('cd /verif && XV_REPLAYS=%s_replays XV_REPO=%s ./xv check %s --tier quick --no-evidence' % (WT, WT, pid))
                r[pid] = dict(rc=rcx, lines=[l[:300] for l in outx.splitlines() if l.startswith(('VIOLATION', 'xv:', 'UNDECIDED', 'KNOWN'))][-8:])
            results[f] = dict(repo_head=sh('git -C /repo rev-parse --short HEAD')[1].strip(), kind=e.get('kind'), what=e.get('what'), checks=r)
            sh('git -C %s checkout -q -- .' % WT)
            json.dump(results, open(rp, 'w'), indent=1)
            print(f, {k: v['rc'] for k, v in r.items()}, flush=True)
main()
