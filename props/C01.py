HP_P = 'hp:slot,gops_k1,gops_k2,gops_k3,acq_k2,acq_k3,acq_int_k1,acq_int_k2,acq_int_k3,acq_int_k5,alloc_k1,alloc_k2,dyn_k1_b2,dyn_k2_b2'
PROP = dict(
  units=['he:g_ctor_K1,g_assign_K1,g_reset_swap_reclaim_K1,g_acquire_K1,g_acquire_if_equal_K1,int_acquire_K1,int_acquire_if_equal_K1,g_ctor_K2,g_assign_K2,g_reset_swap_reclaim_K2,g_acquire_K2,g_acquire_if_equal_K2,int_acquire_K2,int_acquire_if_equal_K2,g_ctor_K3,g_assign_K3,g_reset_swap_reclaim_K3,g_acquire_K3,g_acquire_if_equal_K3,int_acquire_K3,int_acquire_if_equal_K3,slots_alloc_K1,slots_alloc_K2,dyn_alloc_B0_K1,dyn_alloc_B1_K1,dyn_alloc_B2_K1,dyn_init_B1_K1,dyn_init_B2_K1,dyn_alloc_B1_K2,dyn_alloc_B2_K2,dyn_init_B1_K2,dyn_init_B2_K2', 'hpscan', HP_P, 'ebr', 'qsbr', 'lfrc', 'stampit_guard', 'stampq'],
  level='other',
  strict_obligations=True,
  obligations=['he.acquire.protects', 'he.acquire_if_equal.protects', 'he.acquire.era_stable', 'he.acquire.sync', 'he.sync.publish_then_fence', 'he.acquire.snapshot', 'he.acquire.exc_safe', 'he.acquire_if_equal.exc_safe', 'he.count.exact', 'he.guard_ops.others_intact', 'he.guard_ops.preserve_inv', 'he.dyn.*', 'he.alloc.*', 'hp.dynamic.*', 'hp.alloc.*',   # a slot that protects is never wiped or handed out twice, also when the dynamic strategy adds a block
              
               'hpscan.fence_first', 'hpscan.adopt_before_gather', 'hpscan.gather.all_slots', 'hpscan.gather.exact', 'hpscan.search_sorted', 'hpscan.spares_protected', 'hescan.spares_protected_interval', 'hpscan.skips_inactive', 'hpscan.retire.once_then_trigger',
               'hp.acquire.validated', 'hp.acquire.snapshot', 'hp.acquire_if_equal.iff', 'hp.sync.orders', 'hp.copy.shares', 'hp.ctor.protects', 'hp.guard_ops.preserve_inv',
               'ebr.enter.flag_then_fence_then_epoch', 'ebr.acquire.enter_before_load', 'ebr.nesting.balanced', 'ebr.free.three_epochs', 'ebr.free.index_consistent', 'ebr.free.exact',
               'ebr.advance.after_scan', 'ebr.advance.sync', 'ebr.scan.exact', 'ebr.scan.prefix_valid', 'ebr.orphans.slot', 'ebr.retire.slot', 'ebr.leave.release_store',
               'ebr.enter.invariant', 'ebr.enter.calls_pre', 'ebr.model.mod_lemma',
               'qsbr.acquire.enter_before_load', 'qsbr.leave.quiescent_only_at_zero', 'qsbr.leave.balanced', 'qsbr.enter.registers_then_counts', 'qsbr.free.on_reentry',
               'qsbr.advance.all_quiescent', 'qsbr.advance.keeps_invariant', 'qsbr.orphans.adopt_after_advance', 'qsbr.orphans.target_epoch', 'qsbr.sync.orders',
               'qsbr.guard.region_balance', 'qsbr.epochs.at_least_three',
               'lfrc.layout', 'lfrc.header.accessors', 'lfrc.acquire.inc_then_validate', 'lfrc.decrement.claims_once', 'lfrc.decrement.holds_reference', 'lfrc.reset.destroy_iff_claimed',
               'lfrc.new.reinit_count', 'lfrc.freelist.pop_owns', 'lfrc.sync.orders', 'lfrc.guard.algebra',
               'stamp.region.balanced', 'stamp.acquire.enter_before_load', 'stamp.retire.stamped_with_head', 'stamp.free.below_tail',
               'stampq.push.fresh_stamp', 'stampq.push.links', 'stampq.push.publish_order', 'stampq.remove.unlinks', 'stampq.remove.last_iff', 'stampq.remove.flags_own_stamp', 'stampq.tail_stamp.lower_bound',
               'stampq.update_tail.source', 'stampq.mid.*', 'stampq.cas.*', 'stampq.store.own_only', 'stampq.sync.*', 'stampq.encoding.flags', 'stampq.marks.tag_inc', 'stampq.ctor.empty_queue'],
  explanation='Per scheme a protect side (what a non-empty guard has established in shared state when acquire/acquire_if_equal/copy returns, INT mode with the source cell rewritten arbitrarily) '
              'and a reclaim side (under which observed condition delete_self may run: epoch distance, scan result, stamp <= tail, reference count claim), each as contracts on the extracted text. '
              'The step from these per-function facts to "no protected object is destroyed in any interleaving" is the published proof of each scheme and is an assumed lemma.',
  assumptions=['composition lemma per scheme: Michael 2004 (HP), Ramalhete & Correia 2017 (HE), Fraser 2004 / Hart et al. 2007 / Brown 2015 (EBR, DEBRA), Poeter & Traeff 2018 (stamp-it), Valois 1995 / Michael & Scott 1995 (LFRC)',
               'stamp_it thread_order_queue: its sequential specification (fresh stamps from one seq_cst counter, push links newest, remove unlinks and reports was-last, tail_stamp() <= every stamp in the list < head_stamp()) is proved for the real text from quiescent and from enumerated stalled-thread states (unit stampq) together with the commit-point discipline of every CAS/store; that its operations are linearizable w.r.t. this specification under arbitrary interleavings is the argument of the Stamp-it paper and assumed',
               'weak-memory part only as sync obligations (orders at least what the numbered comments require); INT mode sequentially consistent',
               'helper lists (retire_list, orphan, thread_block_list, delete_objects) are contract stubs in ebr/qsbr/lfrc and under contract in units rlist/tbl when present',
               'shapes: K in {1,2,3,5}, thread entries E <= 3, list nodes L <= 3'],
  trusted_base=[],
)
