HP_G = 'hp:slot,gops_k1,gops_k2,gops_k3,gops_k5,acq_k2,acq_k3,acq_int_k1,acq_int_k2,acq_int_k3,acq_int_k5'
EBR_G = 'ebr:g_ctor,g_copy,g_move,g_reset,g_dtor,g_assign_copy,g_assign_move,g_reclaim,region_guard,g_acquire,g_acquire_int,g_acquire_if_equal,g_acquire_if_equal_int'
QSBR_G = 'qsbr:region_guard,g_ctor,g_copy_ctor,g_move_ctor,g_copy_assign,g_move_assign,g_swap,g_reset,g_reclaim,g_acquire,g_acquire_int,g_aie,g_aie_int'
LFRC_G = 'lfrc:layout,hdr,g_ctor,g_copy_ctor,g_move_ctor,g_copy_assign,g_move_assign,g_swap,g_reset,g_reclaim,g_acquire,g_acquire_int,g_aie,g_aie_int'
STAMP_G = 'stampit_guard:region_guard,gp_ctor,gp_assign,gp_reset,gp_reclaim,gp_acquire,gp_acquire_int'
PROP = dict(
  units=['he:g_ctor_K1,g_assign_K1,g_reset_swap_reclaim_K1,g_acquire_K1,g_acquire_if_equal_K1,int_acquire_K1,int_acquire_if_equal_K1,g_ctor_K2,g_assign_K2,g_reset_swap_reclaim_K2,g_acquire_K2,g_acquire_if_equal_K2,int_acquire_K2,int_acquire_if_equal_K2,g_ctor_K3,g_assign_K3,g_reset_swap_reclaim_K3,g_acquire_K3,g_acquire_if_equal_K3,int_acquire_K3,int_acquire_if_equal_K3', 'mp', 'cptr', HP_G, EBR_G, QSBR_G, LFRC_G, STAMP_G],
  level='proof',
  strict_obligations=True,
  obligations=['he.ctor.protects', 'he.copy.shares', 'he.move.empties_source', 'he.self_assign.noop', 'he.reset.releases', 'he.reset.idempotent', 'he.swap.exchanges', 'he.reclaim.retires_then_empty', 'he.acquire.snapshot', 'he.acquire_if_equal.iff', 'he.count.exact', 'he.guard_ops.preserve_inv',
               'mp.*', 'cptr.*',
               'hp.slot.roundtrip', 'hp.ctor.protects', 'hp.copy.shares', 'hp.move.empties_source', 'hp.self_assign.noop', 'hp.reset.releases', 'hp.reset.idempotent', 'hp.swap.exchanges',
               'hp.reclaim.retires_and_resets', 'hp.guard_ops.preserve_inv', 'hp.guard_ops.empty_holds_no_slot', 'hp.acquire.snapshot', 'hp.acquire_if_equal.iff',
               'ebr.copy.shares', 'ebr.move.empties_source', 'ebr.nesting.balanced', 'ebr.acquire.snapshot', 'ebr.reclaim.retires_once',
               'qsbr.guard.algebra', 'qsbr.guard.region_balance', 'qsbr.acquire.snapshot', 'qsbr.acquire_if_equal.iff', 'qsbr.reclaim.retires_once',
               'lfrc.layout', 'lfrc.header.accessors', 'lfrc.guard.algebra', 'lfrc.acquire.snapshot', 'lfrc.acquire_if_equal.iff', 'lfrc.reclaim.once',
               'stamp.region.balanced', 'stamp.acquire.enter_before_load'],
  explanation='marked_ptr algebra for fully symbolic MarkBits/MaxUpperMarkBits and all 64-bit pointer/mark values (every constant extracted from the header), concurrent_ptr forwarding, '
              'and the guard_ptr smart-pointer algebra of every reclaimer (hazard_pointer, generic_epoch_based, quiescent_state_based, lock_free_ref_count, stamp_it; hazard_eras): '
              'copy/move/swap/assignment/reset/reclaim with ghost protection counts, self-assignment and double reset, and in INT mode the snapshot / acquire_if_equal-iff obligations with the '
              'source cell rewritten arbitrarily (mark-only changes included) between the atomic steps.',
  assumptions=['INT mode is sequentially consistent', 'hazard pointer slot shapes K in {1,2,3,5} (thorough 8)', 'std::atomic<marked_ptr> is trusted; its CAS compares object representations, shown equal to value equality by mp.eq.value / mp.repr.bijective',
               'retire-side callees (add_retired_node, scan, set_deleter) are contract stubs here and under contract in the reclaim-side units'],
  trusted_base=[],
)
