PROP = dict(
  units=['he', 'hp'],
  level='proof',
  strict_obligations=True,
  obligations=['he.slot.roundtrip', 'he.alloc.*', 'he.initialize.all_free', 'he.release.returns_slot', 'he.count.exact', 'he.guard_ops.*', 'he.acquire.exc_safe', 'he.acquire.null_holds_no_slot', 'he.acquire_if_equal.exc_safe', 'he.dyn.never_throws', 'he.dyn.new_block', 'he.ctor.protects', 'he.copy.shares', 'he.move.empties_source', 'he.reset.releases',
               'hp.slot.roundtrip', 'hp.initialize.all_free', 'hp.alloc.k_available', 'hp.alloc.exhausted_throws', 'hp.release.returns_slot', 'hp.guard_ops.preserve_inv',
               'hp.guard_ops.empty_holds_no_slot', 'hp.ctor.protects', 'hp.copy.shares', 'hp.move.empties_source', 'hp.reset.releases', 'hp.reset.idempotent', 'hp.swap.exchanges',
               'hp.dynamic.initialize.relinks_all', 'hp.dynamic.alloc.distinct', 'hp.dynamic.need_more.never_throws', 'hp.acquire_if_equal.iff', 'hp.acquire.validated'],
  explanation='Slot free-list invariant Inv_K (ghost chain positions; arbitrary subset held, arbitrary chain order) of the static and dynamic hazard-pointer strategies: K slots available, '
              'exhaustion throws with the state intact, every release returns the slot, a guard that protects nothing holds no slot, re-initialisation of an arbitrary left-over record relinks every slot of every block; '
              'all guard operations preserve the invariant on every exit including the exceptional one. Same for hazard_eras (unit he: shared slots with guard counts, era cache invariant).',
  assumptions=['shapes K in {1,2,3,5} (thorough 8), dynamic: 0..2 left-over blocks (thorough 3)', 'acquire_entry returns a control block with arbitrary slot contents; retire side is a stub here',
               'address model: hazard_pointer* <-> slot word through an explicit injective map (base + 8*index)'],
  trusted_base=[],
)
