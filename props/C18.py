PROP = dict(
  units=['hp'],
  level='proof',
  strict_obligations=True,
  obligations=['hp.slot.roundtrip', 'hp.initialize.all_free', 'hp.alloc.k_available', 'hp.alloc.exhausted_throws', 'hp.release.returns_slot', 'hp.guard_ops.preserve_inv',
               'hp.guard_ops.empty_holds_no_slot', 'hp.ctor.protects', 'hp.copy.shares', 'hp.move.empties_source', 'hp.reset.releases', 'hp.reset.idempotent', 'hp.swap.exchanges',
               'hp.dynamic.initialize.relinks_all', 'hp.dynamic.alloc.distinct', 'hp.dynamic.need_more.never_throws', 'hp.acquire_if_equal.iff', 'hp.acquire.validated'],
  explanation='Slot free-list invariant Inv_K (ghost chain positions; arbitrary subset held, arbitrary chain order) of the static and dynamic hazard-pointer strategies: K slots available, '
              'exhaustion throws with the state intact, every release returns the slot, a guard that protects nothing holds no slot, re-initialisation of an arbitrary left-over record relinks every slot of every block; '
              'all guard operations preserve the invariant on every exit including the exceptional one. (hazard_eras: unit he, added when present.)',
  assumptions=['shapes K in {1,2,3,5} (thorough 8), dynamic: 0..2 left-over blocks (thorough 3)', 'acquire_entry returns a control block with arbitrary slot contents; retire side is a stub here',
               'address model: hazard_pointer* <-> slot word through an explicit injective map (base + 8*index)'],
  trusted_base=[],
)
