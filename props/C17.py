PROP = dict(
  units=['he:dyn_init_B0_K1,dyn_init_B1_K1,dyn_init_B2_K1,dyn_init_B1_K2,dyn_init_B2_K2,slots_rel_init_K2,slots_rel_init_K3', 'tbl', 'hpscan:hp_balance,he_balance,hp_dtor,he_dtor,hp_scan,he_scan', 'ebr:acquire_cb_all,acquire_cb_n1,acquire_cb_int,scan_all,scan_all_int,scan_n1,scan_n2,scan_n2_int,scan_n3,dtor_none,dtor_eager,dtor_lazy,update_global_epoch,update_global_epoch_int',
         'qsbr:ensure,ensure_int,try_update,try_update_int,dtor,adopt', 'hp:init_k1,init_k2,init_k3,init_k5,dyn_k1_b2,dyn_k2_b2',
         'lfrc:tl_dtor,tl_push,tl_pop,fl_push,add_nodes,add_nodes_int', 'stampit_guard:dtor', 'rlist:orphan_dtor,ol_add,ol_adopt'],     # what an exiting thread hands over: lfrc's thread-local free list, stamp-it's local retire list, orphans
  level='other',
  strict_obligations=True,
  obligations=['he.initialize.all_free', 'lfrc.freelist.conserve', 'lfrc.freelist.push_links', 'stamp.dtor.hands_over_all', 'rlist.orphan.dtor.deletes_all', 'rlist.conserve',
               'tbl.*', 'hpscan.active_hps.balanced', 'hpscan.adopt_before_gather',   # nodes abandoned by exited threads are adopted before the hazard pointers are gathered (round-4 seed C17-hp-scan-adopts-after-gather)
                'hpscan.dtor.releases_record', 'hpscan.skips_inactive', 'hpscan.dtor.hands_over_all',
               'ebr.adopt.reinit', 'ebr.dtor.releases_record', 'ebr.dtor.hands_over_all', 'ebr.scan.exact', 'ebr.scan.prefix_valid', 'ebr.advance.after_scan', 'ebr.orphans.slot',
               'qsbr.adopt.reinit', 'qsbr.advance.all_quiescent', 'qsbr.dtor.hands_over_all', 'qsbr.dtor.releases_record', 'qsbr.orphans.target_epoch',
               'hp.initialize.all_free', 'hp.dynamic.initialize.relinks_all', 'hp.dynamic.alloc.distinct', 'hp.dynamic.need_more.never_throws'],
  explanation='Record reuse: re-initialisation on adoption of an ARBITRARY left-over record (epochs, list indices, scan state, hazard slots of every block), release of the record at thread exit, and "an exited thread never blocks": '
              'scans and epoch advances ignore entries that are not active / not in a critical region. Histories of generations are the composition of these contracts (assumed).',
  assumptions=['histories of thread generations: composition of the per-function contracts, not machine checked', 'thread_block_list (entry adoption without allocation) is a contract stub here and under contract in unit tbl when present',
               'shapes: E <= 3 entries, 0..2 left-over dynamic blocks'],
  trusted_base=[],
)
