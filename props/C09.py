PROP = dict(
  units=['hms', 'hmm'],
  level='other',
  strict_obligations=True,
  obligations=['hms.iter.*', 'hms.erase.unlinked_retired', 'hms.erase.commit', 'hmm.erase.iff_present', 'hmm.erase.commit', 'hms.sync.orders', 'hmm.sync.orders', 'hms.guard.raw_pinned', 'hmm.guard.raw_pinned', 'hms.find.position', 'hms.find.ensures_int', 'hmm.iter.*', 'hmm.order.total', 'hmm.find.position', 'hmm.find.requires', 'hmm.mem.safe'],
  explanation='Iterator contracts (operator++, erase(iterator), begin, copies) on the extracted text from every state other handles can leave behind (cur live and linked / marked but linked / '
              'marked and unlinked / successor or predecessor changed), no-skip and progress under one or unboundedly many interfering steps (INT), only guarded nodes dereferenced. '
              '"Live" for iteration means "still linked": the fast path may land on a marked but linked node (an erase in flight), which is linearizable by placing the erase at the unlink - therefore "erase(key) has unlinked its node when it returns" (hms.erase.unlinked_retired, hmm.erase.*) is an obligation of this property too.',
  assumptions=['guard_ptr contract as in C08', 'whole-traversal statements follow from the per-step contracts by induction (argued)', 'shapes as in C08'],
  trusted_base=[],
)
