PROP = dict(
  units=['kbq', 'kfq'],
  level='other',
  obligations=['kbq.slot.any_pointer', 'kfq.slot.any_pointer', 'kbq.pop_optional.same_as_try_pop', 'kfq.pop_optional.same_as_try_pop', 'kbq.idx.roundtrip', 'kbq.ctor.size', 'kbq.ctor.state', 'kbq.in_valid.spec', 'kbq.not_in_valid.spec', 'kbq.find_index.covers', 'kbq.find_index.result',
               'kbq.push.reject', 'kbq.push.stores', 'kbq.pop.empty', 'kbq.pop.oldest_segment', 'kbq.pop.k_oldest', 'kbq.inv.preserved', 'kbq.advance.by_k',
               'kbq.push.commit', 'kbq.push.commit_split_snapshot', 'kbq.committed.withdrawn', 'kbq.push.validate', 'kbq.pop.validate', 'kbq.sync.scan_acquire', 'kbq.sync.slot_release', 'kbq.dtor.each_once',
               'kfq.find_index.covers', 'kfq.find_index.result', 'kfq.push.stores', 'kfq.pop.empty', 'kfq.pop.oldest_segment', 'kfq.pop.k_oldest', 'kfq.inv.preserved',
               'kfq.advance_tail.seq', 'kfq.advance_head.seq', 'kfq.retire.once_empty', 'kfq.advance_head.deleted_first', 'kfq.advance.one_segment', 'kfq.push.commit',
               'kfq.committed.withdrawn', 'kfq.push.validate', 'kfq.pop.validate', 'kfq.advance_head.retire', 'kfq.advance_tail.links', 'kfq.sync.orders',
               'kfq.delete_remaining.each_once', 'kfq.dtor.each_once', 'kfq.dtor.segments_released'],
  explanation='Index/tag arithmetic of the bounded k-FIFO for every (k, num_segments) the constructor accepts (all 64-bit values), the region predicates against their circular-interval '
              'specification for all inputs, slot scan coverage for every random start, sequential k-relaxed refinement of push/pop from any quiescent invariant state on shapes (k, segments), '
              'and in INT mode the commit obligations: try_push returns true only for an item that is inside [head, tail] (or was taken), head/tail move by whole segments by CAS on the value read. '
              'random() is an arbitrary value in the proof (all outcomes). The concurrent k-relaxed linearizability is the assumed lemma (Kirsch, Lippautz, Payer 2013).',
  assumptions=['composition lemma: k-FIFO linearizability w.r.t. the k-out-of-order relaxation from the per-operation contracts and commit obligations',
               'shapes: k in {1,2,3} x segments {1,2,3} for the refinement (thorough k=4 / 4 segments), find_index k <= 8 (thorough 16)',
               'guard_ptr stubs (kfq) proved per reclaimer; marked_ptr word model (unit mp); no mark/tag wrap within one operation',
               'INT rely stated in the units: head and tail only move forward by whole segments, head leaves a segment only if its scan found it empty'],
  trusted_base=[],
)
