PROP = dict(
  units=['vhm_bs', 'vhm', 'cxxstatic:vhm'],
  level='other',
  obligations=['vhm.bs.*', 'vhm.emplace.iff_absent', 'vhm.emplace.pool', 'vhm.emplace.publish_order', 'vhm.grow.publish_order', 'vhm.emplace.retry_state', 'vhm.extract.iff_present', 'vhm.extract.pool',
               'vhm.erase.retires_only_removed', 'vhm.ops.unlock', 'vhm.ops.frame', 'vhm.remove.version_bumped', 'vhm.alloc_ext.pops_free', 'vhm.free_ext.own_bucket',
               'vhm.lock_bucket.acquired', 'vhm.grow.resize_lock', 'vhm.grow.conserves', 'vhm.get.validated', 'vhm.get.absent_validated', 'vhm.get.terminates',
               'vhm.get.seq_lookup', 'vhm.sync.release', 'vhm.sync.acquire', 'static.vhm.no_use_after_move'],
  explanation='bucket_state algebra for all 2^32 states; per-bucket map refinement of do_get_or_emplace / do_extract / erase / extract / do_grow / extension-item pool on the extracted text in '
              'two storage modes (trivial; non-trivial keys with symbolic, adversarially colliding hashes); the writer guarantee "every removal or move is published by a version bump / delete marker" '
              '(vhm.remove.version_bumped) is proved for the writers and is exactly the rely under which the lock-free reader try_get_value is verified in INT mode. Cross-bucket/thread linearizability is the assumed lemma.',
  assumptions=['composition across buckets, blocks and threads (linearizability) is a lemma, not machine checked',
               'supporting static fact (clang-tidy bugprone-use-after-move, unit cxxstatic): heuristic, covers std::move semantics dropped by the C lowering',
               'managed_ptr and trivial-key/non-trivial-value traits specialisations are not lowered (F13 shown natively for them); keys/values are 16-bit words standing for any type',
               'writers proved on a one-bucket block; do_grow with one old bucket into two new; extension chain <= 2 (thorough 3), pool 4',
               'no version wrap (2^27) within one try_get_value call; INT mode sequentially consistent'],
  trusted_base=[],
)
