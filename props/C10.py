PROP = dict(
  units=['vhm_bs', 'vhm', 'vhm_alloc', 'vhm_it:find,erase_b0,erase_b1,deref', 'cxxstatic:vhm'],    # find(key) and erase(find(key)) are map operations of the C10 statement; their contracts live in unit vhm_it
  level='other',
  obligations=['vhm.bs.*', 'vhm.emplace.iff_absent', 'vhm.emplace.pool', 'vhm.emplace.publish_order', 'vhm.grow.publish_order', 'vhm.emplace.retry_state', 'vhm.extract.iff_present', 'vhm.extract.pool',
               'vhm.erase.retires_only_removed', 'vhm.ops.unlock', 'vhm.ops.frame', 'vhm.remove.version_bumped', 'vhm.alloc_ext.pops_free', 'vhm.alloc.region', 'vhm.alloc.aligned', 'vhm.alloc.header', 'vhm.alloc.free_lists', 'vhm.free_ext.own_bucket',
               'vhm.lock_bucket.acquired', 'vhm.grow.resize_lock', 'vhm.grow.conserves', 'vhm.get.validated', 'vhm.get.absent_validated', 'vhm.get.terminates',
               'vhm.get.seq_lookup', 'vhm.acc.names_item', 'vhm.it.find.position', 'vhm.it.erase.exact', 'vhm.it.erase.version_bumped', 'vhm.it.deref.current', 'vhm.sync.release', 'vhm.sync.acquire', 'static.vhm.no_use_after_move'],
  explanation='bucket_state algebra for all 2^32 states; per-bucket map refinement of do_get_or_emplace / do_extract / erase / extract / do_grow / extension-item pool on the extracted text in '
              'all five storage modes, each with the real text of its vyukov_hash_map_traits specialisation (trivial; non-trivial key+value in a node with symbolic, adversarially colliding hashes; trivial key with the value in a node; managed_ptr value with a trivial key; managed_ptr value with the key in a node), including what erase (retires node and Value object) and extract (retires the node only) hand to the reclaimer; the writer guarantee "every removal or move is published by a version bump / delete marker" '
              '(vhm.remove.version_bumped) is proved for the writers and is exactly the rely under which the lock-free reader try_get_value is verified in INT mode. Cross-bucket/thread linearizability is the assumed lemma.',
  assumptions=['composition across buckets, blocks and threads (linearizability) is a lemma, not machine checked',
               'supporting static fact (clang-tidy bugprone-use-after-move, unit cxxstatic): heuristic, covers std::move semantics dropped by the C lowering',
               'keys/values are 16-bit words standing for any type; managed_ptr modes: Value objects under different keys are distinct and non-null',
               'the emplace / get_or_emplace / get_or_emplace_lazy wrappers only build lambdas around do_get_or_emplace and are not lowered (Factory/Callback are harness hooks); the destructor is not under contract',
               'allocate_block (unit vhm_alloc): every bucket_count 2^0..2^31 and base address, but only power-of-two sizeof(extension_bucket) (256/128/512) - other sizes undecided (modulo by a non-power-of-two constant timed out)',
               'writers proved on a one-bucket block; do_grow with one old bucket into two new; extension chain <= 2 (thorough 3), pool 4',
               'no version wrap (2^27) within one try_get_value call; INT mode sequentially consistent'],
  trusted_base=[],
)
