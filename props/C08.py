PROP = dict(
  units=['hms', 'hmm', 'cxxstatic:hmm,hms'],
  level='other',
  strict_obligations=True,
  obligations=['static.hmm.no_use_after_move', 'static.hms.no_use_after_move', 'hms.find.*', 'hms.contains.*', 'hms.find_key.*', 'hms.insert.*', 'hms.erase.*', 'hms.iter.erase.*',
               'hms.sync.orders', 'hmm.sync.orders', 'hmm.order.total', 'hmm.map_to_bucket.range', 'hmm.find.*', 'hmm.mem.safe', 'hmm.insert.*', 'hmm.erase.*', 'hmm.iter.erase.*'],
  explanation='Set/map refinement of find / contains / emplace / emplace_or_get / get_or_emplace(_lazy) / operator[] / erase(key) / erase(iterator) on the extracted text of both '
              'Harris-Michael containers, from ANY well-formed list (symbolic keys and hashes, arbitrary delete marks, unlinked marked nodes still pointing into the list), '
              'ordering predicates total (both memoize_hash modes), and in INT mode (unbounded legal interference, retry loops cut by invariants) the commit obligations: every CAS '
              'is a legal link/mark/unlink step on the value validated last. Concurrent linearizability from these guarantees is the assumed lemma.',
  assumptions=['supporting static fact (clang-tidy bugprone-use-after-move on instantiations of the real templates, unit cxxstatic): heuristic check, covers the value-category semantics (std::move) that the C lowering drops', 'composition lemma: Harris / Michael linearizability argument from the per-operation contracts and commit obligations',
               'guard_ptr operations are stubs by contract (proved per reclaimer in the reclaimer units)', 'operator>= on Key is a total order consistent with ==; the hash is a function of the key',
               'shapes: list length L <= 3 (thorough 5), buckets {1,2} (thorough 3); INT mode sequentially consistent'],
  trusted_base=[],
)
