PROP = dict(
  units=['ram', 'msq', 'nq', 'scq', 'cxxstatic:queues'],
  level='other',
  strict_obligations=True,
  obligations=['ram.idx.injective', 'ram.node_ctor.prefilled', 'ram.ctor.empty', 'ram.push.slot', 'ram.push.new_node', 'ram.push.frame', 'ram.push.fifo', 'ram.push.commit', 'ram.pop.commit', 'ram.sync.acquire', 'ram.int.ticket', 'ram.pop.slot', 'ram.pop.fifo', 'ram.pop.empty', 'ram.pop.next_node', 'ram.pop.invalidate', 'ram.pop.frame', 'ram.try_pop.forwards', 'ram.inv.preserved', 'ram.node.live_deref', 'msq.ctor.empty', 'msq.push.appends', 'msq.push.frame', 'msq.push.commit', 'msq.pop.takes_first', 'msq.pop.helps_tail', 'msq.pop.frame', 'msq.pop.commit', 'msq.sync.acquire', 'msq.node.live_deref',
               'static.queues.no_use_after_move', 'nq.sync.acquire', 'nq.scq.requires', 'nq.guard.protected', 'nq.node_ctor.inv', 'nq.inv.preserved', 'nq.push.appends', 'nq.push.rollback', 'nq.push.finalizes',
               'nq.push.publish_order', 'nq.push.hand_over', 'nq.pop.empty_iff', 'nq.pop.takes_first', 'nq.pop.empty_validated', 'nq.pop.hand_over',
               'nq.pop.threshold_reset', 'nq.pop.retire_once', 'nq.pop_optional.same_as_try_pop', 'nq.pop.destroy_before_release', 'nq.commit', 'nq.own.exactly_once',
               'scq.dequeue.retries_bounded', 'scq.sync.orders', 'scq.enqueue.appends', 'scq.enqueue.finalized_fails', 'scq.dequeue.takes_first', 'scq.dequeue.empty_iff', 'scq.inv.preserved',
               'scq.catchup.keeps_finalized', 'scq.finalize.sets', 'scq.enqueue.skips_overtaken', 'scq.dequeue.blocks_ticket'],
  explanation='Sequential FIFO refinement per operation from any invariant state (node/ring state symbolic), node hand-over and finalisation, commit-point validation in INT mode, '
              'on the extracted text of nikolaev_queue / nikolaev_scq (michael_scott_queue and ramalhete_queue units are added below when present). '
              'Linearizability of concurrent histories is the assumed composition lemma.',
  assumptions=['supporting static fact (clang-tidy bugprone-use-after-move on instantiations of the real templates, unit cxxstatic): heuristic check, covers the value-category semantics (std::move) that the C lowering drops', 'composition lemma: linearizability of Michael-Scott, Ramalhete/Correia (FAAArrayQueue) and Nikolaev (SCQ/LSCQ) queues from the per-operation contracts',
               'guard_ptr operations are stubs by contract (acquire = snapshot + protect, acquire_if_equal iff equal, reclaim = retire once), proved per reclaimer in the reclaimer units',
               'shapes: at most 2 linked nodes + 1 spare, SCQ capacity {1,2} (thorough 4)'],
  trusted_base=[],
)
