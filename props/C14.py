PROP = dict(
  units=['seqlock'],
  level='proof',
  obligations=['sl.ctor.initial_value', 'sl.copy.all_bytes', 'sl.copy.in_bounds', 'sl.copy.aligned', 'sl.lock.parity', 'sl.lock.acquire', 'sl.writer.guarantee',
               'sl.slot.writer', 'sl.slot.reader', 'sl.slot.disjoint', 'sl.store_load.roundtrip', 'sl.update.applies', 'sl.update.read_under_lock',
               'sl.load.untorn', 'sl.load.fresh', 'sl.load.readonly', 'sl.load.sync', 'sl.store.sync', 'sl.load.terminates', 'sl.env.mod_lemma'],
  explanation='Every function of seqlock (read_data, store_data, load, store, update, acquire_lock, release_lock, is_write_pending) under contract on the extracted text: '
              'byte-exact copy for each sizeof(T)/alignof(T)/slots shape, slot arithmetic for all 64-bit sequence values, store/update/load refinement, '
              'reader validation in INT mode under the rely that is proved as the writers guarantee (sl.writer.guarantee), so rely and guarantee close inside the unit.',
  assumptions=['INT mode is sequentially consistent; the weak-memory part only as sync obligations (sl.load.sync, sl.store.sync)',
               'no wrap of the 64-bit sequence counter; the seqlock object is 8-aligned; the update functor does not throw',
               'shapes: quick W/A/S in {12/4/2,16/8/2,16/4/3,20/4/3,24/8/1,33/1/2,64/8/8} and S in {1,2,3,4,8}; thorough every W in 9..64',
               'writer rely R3 (nobody else writes while _seq holds this thread\'s odd value) is the other writers\' guarantee; composition argued'],
  trusted_base=[],
)
