PROP = dict(
  units=['gca', 'fsca', 'cwsd'],
  level='other',
  obligations=['gca.fls.spec', 'gca.get_entry.in_bounds', 'gca.get_entry.injective', 'gca.put_get.roundtrip', 'gca.grow.preserves', 'gca.grow.capacity_doubled', 'gca.grow.alloc_failure_safe', 'gca.can_grow.spec', 'gca.get.current_capacity', 'gca.sync.capacity_publish',
               'fsca.index.in_bounds', 'fsca.put_get.roundtrip', 'fsca.can_grow.never', 'cwsd.size.spec',
               'cwsd.push.appends', 'cwsd.pop.newest', 'cwsd.steal.oldest', 'cwsd.steal.commit', 'cwsd.pop.last_item', 'cwsd.pop.restores_bottom', 'cwsd.sync.seq_cst'],
  explanation='Per-function contracts on the text extracted from /repo, discharged by cbmc for all inputs (loop in grow cut by an inductive invariant: unbounded). '
              'The step from these contracts to linearizability of concurrent histories is the published argument of the Chase-Lev deque and is an assumption.',
  assumptions=['composition lemma: Chase & Lev 2005 / Le et al. 2013 linearizability argument, not machine checked',
               'capacities 2^1..2^31 = max_capacity (default MaxCapacity; every capacity the container can reach)',
               'top <= bottom as 64-bit counters (no wrap of 2^64 pushes)'],
  trusted_base=[],
)
