PROP = dict(
  units=['lr', 'cxxstatic:lr'],
  level='other',
  obligations=['static.lr.no_use_after_move', 'lr.update.order', 'lr.update.mutex', 'lr.update.exclusion', 'lr.toggle.order', 'lr.toggle.drains', 'lr.wait.spins_until_empty',
               'lr.read.bracket', 'lr.indicator.counts', 'lr.sync.seq_cst', 'lr.read.wait_free', 'lr.ctor.init'],
  explanation='Per-function contracts on the extracted text of left_right (read, update, toggle_version_and_wait, wait_for_readers, read_indicator, read_guard, ctors), '
              'SEQ and INT mode (environment = readers arriving/departing, one tracked reader following the read() contract with an arbitrarily stale version); '
              'the writer/reader exclusion half of the Left-Right argument is itself an obligation (lr.update.exclusion); linearizability of reads is the assumed composition lemma.',
  assumptions=['supporting static fact (clang-tidy bugprone-use-after-move on instantiations of the real templates, unit cxxstatic): heuristic check, covers the value-category semantics (std::move) that the C lowering drops', 'composition lemma: Left-Right (Ramalhete & Correia 2015) linearizability argument from the checked ordering/exclusion obligations',
               'std::mutex / std::lock_guard semantics (held flag); the second writer is excluded by the mutex',
               'INT mode is sequentially consistent; weak-memory part only as sync obligations (orders at least as strong as the numbered comments)',
               'fewer than 2^62 readers inside read() at any time'],
  trusted_base=[],
)
