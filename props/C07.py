PROP = dict(
  units=['scq:enq_c1_f1,enq_c2_f1,deq_c1_f1,deq_c2_f1,enq_c1_f1_anygap,deq_c1_f1_anygap,enq_c2_f1_anygap,deq_c2_f1_anygap,catchup_f1,finalize', 'ram', 'msq', 'pqt', 'kbq:slot_word,pop_optional,dtor,push_null,push_k1_s123,push_k2_s123,pop_k2_s123,push_int,pop_int,init', 'kfq', 'vbq', 'nbq', 'nq'],
  level='other',
  strict_obligations=True,
  obligations=['kbq.slot.any_pointer', 'kfq.slot.any_pointer', 'kbq.pop_optional.same_as_try_pop', 'kfq.pop_optional.same_as_try_pop', 'scq.enqueue.finalized_fails', 'scq.enqueue.appends', 'scq.catchup.keeps_finalized', 'scq.finalize.sets',
               'ram.node_dtor.owned_only', 'ram.dtor.each_node_once', 'ram.push.accepts_once', 'ram.push.rollback', 'ram.push.throw_keeps_value', 'ram.pop.hands_over_once', 'ram.push.null_rejected', 'msq.push.owns', 'msq.pop.owns', 'msq.dtor.owns', 'msq.T.lifecycle', 'pqt.*', 'kbq.dtor.each_once', 'kbq.push.reject', 'kbq.push.stores', 'kfq.delete_remaining.each_once', 'kfq.dtor.each_once', 'kfq.dtor.segments_released', 'kfq.retire.once_empty', 'kfq.push.stores', 'kfq.push.validate', 'kbq.push.validate',
               'vbq.dtor.owns', 'vbq.cell.lifetime', 'vbq.push.accepted_owned', 'vbq.push.rejected_stays_with_caller', 'vbq.pop.destroys_once', 'vbq.pop.lambda_contract',
               'vbq.pop.commit', 'vbq.push.commit',
               'nbq.push.rejected_untouched', 'nbq.pop.destroy_before_release', 'nbq.own.exactly_once', 'nbq.dtor.owns', 'nbq.push.publish_order', 'nbq.inv.preserved',
               'nq.push.rollback', 'nq.pop.destroy_before_release', 'nq.pop_optional.same_as_try_pop', 'nbq.pop_optional.same_as_try_pop', 'nq.node.delete_once', 'nq.node.no_leak', 'nq.own.exactly_once', 'nq.node_dtor.owned_only', 'nq.dtor.owns', 'nq.push.publish_order'],
  level_text='Ownership obligations of every queue unit are discharged proofs (shape-complete / unbounded); the property is reported at level other because nikolaev_queue additionally relies on the SCQ finalization obligations (finalized rings with at most 2 burnt tail tickets: runs *_f1 classified bounded, not counted as discharged).',
  explanation='Ownership contracts (ghost owner / alive flags per element and per cell) on every destructor, push/pop construct-destroy pairing and roll-back path of the queues, '
              'from every representation-invariant state, on the extracted text.',
  assumptions=['placement new / ~T / reinterpret_cast<T&> are ghost primitives on an opaque element word', 'shapes as in C04-C06', 'sequential ownership; under interference the ownership obligations rest on the commit obligations (INT mode)'],
  trusted_base=[],
)
