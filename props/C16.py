# C16: every unwinding assertion of the selected runs is a termination obligation (unwind_is_obligation): the original loops of the
# real text, unwound completely with unwinding assertions, from every state of the (mid-operation) representation invariant of the
# unit, without interference (SOLO): the operation returns within the unit's step bound.  Plus the static loop_free facts and the
# dedicated SOLO runs of units that have them.
PROP = dict(
  units=['cwsd',
         'vbq:solo_push_w_n2,solo_pop_w_n2,solo_push_w_n4,solo_pop_w_n4,solo_push_w_n8,solo_pop_w_n8,dispatch',
         'seqlock:load_solo_w16a8s2,load_solo_w16a8s3,load_solo_w16a8s4,load_solo_w16a8s8',
         'lr:read_solo', 'vhm:get_solo_t2,get_solo_n2',
         'hms:find,emplace_or_get,erase,erase_it,iter_inc', 'hmm:find_b2_l3_m0,find_b2_l3_m1,inc_b2_l3_m0_fc,erase_it_b2_l3_m0_fc,insert_b2_l3_m0_fc,erase_key_b2_l3_m0_fc',
         'nq:push_c1,push_c2,pop_c1,pop_c2,push_race_c1', 'scq:enq_c1_f0,enq_c2_f0,deq_c1_f0,deq_c2_f0,enq_c1_f1_anygap,deq_c1_f1_anygap,deq_c1_f1_anygap_r0,deq_c1_f1_anygap_r2,enq_overtaken_c2,deq_stale_c2', 'nbq:push_c2,pop_c2',
         'hp:acq_k2,acq_k3', 'stampit_guard:local,global', 'stampq:push,remove,mid_push,mid_remove_1,mid_remove_2a,mid_remove_2b',
         'msq:push,pop_node,try_pop_e2e,pop_e2e', 'ram:push_e1,push_e2,pop_e1_r1,pop_e2_r0,pop_e2_r1', 'kbq:push_k1_s123,push_k2_s123,pop_k1_s123,pop_k2_s123,find_index_E_k3,find_index_N_k3',
         'kfq:push_k1,push_k2,pop_k1,pop_k2,advance_head_seq_k2,advance_tail_seq_k2', 'he:g_acquire_K2,g_acquire_if_equal_K2',
         # guard acquisition / release / reclaim of the epoch based schemes, QSBR and the hazard pointer / era scans: the SEQ runs of these units keep the original loops
         # (loops over the thread list and the retire lists, unwound completely for the shape) - their unwinding assertions are termination facts
         'ebr:g_acquire,g_acquire_if_equal,g_reset,g_reclaim,g_dtor,enter_none,enter_eager,enter_lazy,leave_none_always,leave_eager_always,leave_lazy_always,update_global_epoch,scan_all,scan_n1,scan_n2,add_retired',
         'qsbr:g_acquire,g_aie,g_reset,g_reclaim,enter,leave,quiescent,try_update,adopt,retire',
         'hpscan:hp_reclaim,he_reclaim,hp_scan,he_scan,hp_gather,he_gather',
         'lfrc:decrement_solo,g_acquire_solo,g_aie,g_reset,g_reclaim,add_nodes_solo,op_delete'],
  level='other',
  unwind_is_obligation=True,
  strict_obligations=True,
  obligations=['cwsd.try_push.loop_free', 'cwsd.try_pop.loop_free', 'cwsd.try_steal.loop_free', 'vbq.weak.terminates', 'vbq.pop_optional.dispatch', 'sl.load.terminates',
               'lr.read.wait_free', 'vhm.get.terminates', 'stamp.global.restart_progress', '*'],
  explanation='Solo termination on shape: for each listed lock-free operation the ORIGINAL loops of the extracted text are unwound completely with unwinding assertions from every state of '
              'the unit\'s (mid-operation) representation invariant - lagging tails, marked but linked nodes, claimed but unpublished cells, odd seqlock sequence, burnt SCQ tickets, suspended erasers - '
              'with no interference; every unwinding assertion is an obligation of this property. Loop-free functions are static facts (loop_free). Retry loops that are cut by invariants in INT mode '
              'carry no termination information and are not counted here.',
  assumptions=['reachable states are contained in the mid-operation invariants the units range over (argued per unit, not machine checked)',
               'guard acquisition stubs used by the data-structure units terminate: their own loops are under contract in the reclaimer units (hp, he, ebr, qsbr, lfrc, stampit_guard/stampq runs listed here; lfrc: dedicated *_solo runs with the original retry loops)',
               'qsbr ensure_has_control_block (first use of a thread: registers its control block) and lock_free_ref_count free_list::pop (operator new re-using a node) are cut by invariants only and contribute no termination fact',
               'stamp_it thread_order_queue push/remove: solo termination from quiescent queues of <= 3 blocks and from the enumerated stalled-pusher / stalled-remover states (unit stampq), not from arbitrary reachable states', 'shapes as in the owning units'],
  trusted_base=[],
)
