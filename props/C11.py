PROP = dict(
  units=['vhm_it'],
  level='proof',
  obligations=['vhm.it.find.position', 'vhm.it.begin.first', 'vhm.it.erase.exact', 'vhm.it.erase.version_bumped', 'vhm.it.erase.reader_protocol', 'vhm.it.reset.unlocks',
               'vhm.it.next_bucket.hand_over_hand', 'vhm.it.traverse.once', 'vhm.it.deref.current', 'vhm.it.exclusive', 'vhm.it.move.transfers', 'vhm.it.sync.lock_orders'],
  explanation='Iterator lock/position invariant II and the contracts of find, begin, operator++, erase(iterator&) (all three cases), reset, move_to_next_bucket, lock_bucket, '
              'move construction/assignment on the extracted text (trivial storage mode), from any bucket state satisfying the per-bucket invariant; exclusivity and the reader protocol '
              '(every modification step is published by a version-changing store) are checked by store monitors; lock acquisition in INT mode.',
  assumptions=['trivial key/value storage mode only; node-based traits and reclamation in erase(iterator&) are out of scope',
               'per-bucket representation invariant at entry (proved preserved by the writer operations in unit vhm)',
               'shapes: 2-4 buckets, extension chain <= 2 (thorough 3); whole-traversal run is bounded (thorough), the per-step successor contract is the proof',
               'INT mode is sequentially consistent; orders only as sync obligations'],
  trusted_base=[],
)
