PROP = dict(
  units=['rlist', 'tbl', 'hpscan', 'ebr', 'qsbr', 'lfrc', 'stampit_guard', 'stampq:global,global_int', 'hp:gops_k1,gops_k2'],
  level='other',
  strict_obligations=True,
  obligations=['rlist.*', 'tbl.retired.conserve', 'tbl.abandon.commit', 'hpscan.conserve', 'hescan.conserve', 'hpscan.dtor.hands_over_all', 'hpscan.retire.once_then_trigger',
               'ebr.conserve', 'ebr.dtor.hands_over_all', 'ebr.dtor.releases_record', 'ebr.reclaim.retires_once', 'ebr.orphans.slot', 'ebr.retire.slot', 'ebr.free.exact',
               'qsbr.conserve', 'qsbr.dtor.hands_over_all', 'qsbr.dtor.releases_record', 'qsbr.reclaim.retires_once', 'qsbr.retire.current_epoch', 'qsbr.orphans.target_epoch', 'qsbr.free.on_reentry',
               'lfrc.freelist.conserve', 'lfrc.reclaim.once', 'lfrc.reset.destroy_iff_claimed', 'lfrc.freelist.push_links', 'lfrc.freelist.pop_owns', 'lfrc.decrement.claims_once', 'lfrc.guard.algebra', 'lfrc.new.reinit_count', 'lfrc.header.accessors', 'qsbr.guard.region_balance', 'ebr.nesting.balanced', 'stamp.region.balanced',   # region / reference-count balance: an unbalanced thread never reaches a reclamation point again, a stale count keeps the object for ever or frees it twice (seeds C02-lfrc-local-pop-store, C02-qsbr-marked-null-region);   # a reference that a guard operation takes and never gives back keeps a retired object from ever being destroyed (round-4 seed)
              
               'stamp.conserve', 'stamp.dtor.hands_over_all', 'stamp.global.restart_progress', 'stamp.free.below_tail', 'stampq.global.conserve',
               'hp.reclaim.retires_and_resets'],
  explanation='Conservation contracts on every function that moves retired nodes (ghost per node: deleted counter, holder): multiset(in) = multiset(out lists) + deleted now, every node deleted at most once, '
              'thread_data destructors hand every pending node over exactly once. "Eventually destroyed" is liveness and is not decided; what is decided is that nothing is lost or duplicated on the way.',
  assumptions=['liveness ("eventually") is not decided', 'helper lists are contract stubs in these units (conservation contract) and under contract in units rlist/tbl/hpscan when present',
               'stamp_it thread_order_queue: add_to/steal_global_retired_nodes under contract (stampq.global.conserve); the ordering operations as in C01', 'shapes: lists <= 3 nodes (thorough 5), chunks <= 3'],
  trusted_base=[],
)
