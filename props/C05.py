PROP = dict(
  units=['vbq', 'utilpow', 'scq', 'nbq'],
  level='other',
  obligations=['nbq.pop_optional.same_as_try_pop', 'vbq.push_strong.full_iff', 'vbq.pop_strong.empty_iff', 'vbq.fifo', 'vbq.inv.preserved', 'vbq.weak.no_wrong_success', 'vbq.push.commit', 'vbq.pop.commit',
               'vbq.push_strong.full_instant', 'vbq.pop_strong.empty_instant', 'vbq.sync.cell_sequence', 'vbq.ctor.establishes',
               'utilpow.fls.spec', 'utilpow.ipot.spec', 'utilpow.npot.spec',
               'scq.dequeue.retries_bounded', 'scq.sync.orders', 'scq.remap.shift', 'scq.remap.bijective', 'scq.init.inv', 'scq.enqueue.appends', 'scq.enqueue.finalized_fails', 'scq.dequeue.takes_first',
               'scq.dequeue.empty_iff', 'scq.dequeue.blocks_ticket', 'scq.inv.preserved', 'scq.catchup.restores', 'scq.catchup.keeps_finalized', 'scq.enqueue.skips_overtaken',
               'nbq.ctor.capacity', 'nbq.ctor.rings', 'nbq.inv.preserved', 'nbq.push.full_iff', 'nbq.push.appends', 'nbq.push.publish_order', 'nbq.pop.empty_iff', 'nbq.pop.takes_first'],
  explanation='Ring invariants of vyukov_bounded_queue (all 64-bit positions = all wrap-arounds, ring sizes as shapes) and of the SCQ ring (builder+checker, symbolic cycles), '
              'capacity rounding and remap bijection for every power-of-two capacity up to 2^32, composition of the two SCQ rings in nikolaev_bounded_queue, commit-point '
              'validation in INT mode; each per-operation contract is proved on the extracted text from any invariant state. Concurrent linearizability is the assumed lemma.',
  assumptions=['composition lemma: linearizability of the Vyukov MPMC ring and of SCQ (Nikolaev, DISC 2019) from the per-operation contracts, not machine checked',
               'SCQ: safe-bit protocol and the 3n-1 threshold bound under contention are part of that lemma; finalizable rings checked with at most 2 burnt tail tickets (runs *_f1 are classified bounded)',
               'positions below 2^61 (SCQ) / termination start states below 2^62 (vbq weak ops)', 'ring shapes: vbq N in {2,4,8} (thorough 16,32), SCQ capacity {1,2} (thorough 4,8)'],
  trusted_base=[],
)
