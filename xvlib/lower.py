"""Mechanical C++ -> C lowering of function bodies extracted from /repo on every run.

Nothing here knows about a particular xenium function: every rewrite is a named rule driven by
the tables a unit passes in.  Each rule counts how often it fired; units state must-fire counts.
"""
import re, hashlib

class ExtractError(Exception):
    pass

# ----------------------------------------------------------------------------- text utilities
def read_source(path):
    with open(path, 'r', newline='') as f:
        s = f.read()
    return s.replace('\r\n', '\n').replace('\r', '\n')

def strip_comments(s):
    """remove // and /* */ comments, keep string/char literals and line structure"""
    out = []; i = 0; n = len(s)
    while i < n:
        if s.startswith('//', i):
            j = s.find('\n', i); j = n if j < 0 else j; i = j
        elif s.startswith('/*', i):
            j = s.find('*/', i); j = n - 2 if j < 0 else j
            out.append('\n' * s.count('\n', i, j + 2)); i = j + 2
        elif s[i] == '"' or s[i] == "'":
            q = s[i]; j = i + 1
            while j < n and s[j] != q:
                if s[j] == '\\': j += 1
                j += 1
            out.append(s[i:j + 1]); i = j + 1
        else:
            out.append(s[i]); i += 1
    return ''.join(out)

def match_brace(s, i, op='{', cl='}'):
    """s[i]==op ; return index of the matching close"""
    d = 0; n = len(s)
    while i < n:
        c = s[i]
        if c == op: d += 1
        elif c == cl:
            d -= 1
            if d == 0: return i
        elif c == '"' or c == "'":
            q = c; i += 1
            while i < n and s[i] != q:
                if s[i] == '\\': i += 1
                i += 1
        i += 1
    raise ExtractError('unbalanced ' + op)

def extract_function(src, sig_re, which=0):
    """src: comment-stripped text.  sig_re matches the signature up to (not including) the body's '{'
    (or the ctor-init ':').  Returns dict(head, init, body, start_line, end_line)."""
    ms = list(re.finditer(sig_re, src, re.S))
    if len(ms) <= which:
        raise ExtractError('signature not found: ' + sig_re)
    m = ms[which]
    i = m.end()
    j = i; seen_colon = False
    while j < len(src):
        c = src[j]
        if c == '(':
            j = match_brace(src, j, '(', ')')
        elif c == ':' and src[j:j + 2] != '::' and src[j - 1] != ':':
            seen_colon = True
        elif c == ';':
            raise ExtractError('declaration without body: ' + sig_re)
        elif c == '{':
            p = j - 1
            while p >= 0 and src[p].isspace(): p -= 1
            if seen_colon and (src[p].isalnum() or src[p] == '_'):
                j = match_brace(src, j)      # brace initialiser member{...}
            else:
                break
        j += 1
    if j >= len(src): raise ExtractError('no body after signature: ' + sig_re)
    between = src[i:j]; k = j
    e = match_brace(src, k)
    return dict(head=src[m.start():i], init=between, body=src[k:e + 1],
                start_line=src.count('\n', 0, m.start()) + 1, end_line=src.count('\n', 0, e) + 1)

# ---------------------------------------------------------------------------------------------------------------------
# alpha-renaming of locals: contracts (loop invariants, havoc lists, name-keyed lowering tables) name the locals of the real
# function.  A maintainer renaming a local must not turn into "extraction broke".  units/<unit>/pins.json records, per
# source function, the locals in declaration order as they were when the unit was written (./xv pin).  If the current text
# declares the same NUMBER of locals and only some names differ (a pure rename), the new names are mapped back to the pinned
# ones before lowering.  Anything else (locals added/removed) is left alone: the ordinary rules then decide or give up.
_NOT_A_TYPE = {'return', 'else', 'delete', 'new', 'goto', 'throw', 'case', 'typedef', 'using', 'sizeof', 'co_return', 'do', 'if', 'while', 'for', 'switch',
               'break', 'continue', 'default', 'assert', 'static_assert', 'namespace', 'struct', 'class', 'enum', 'union', 'operator', 'template', 'friend', 'public', 'private', 'protected'}
_DECL_RE = re.compile(r'(?:^|[;{}(])\s*((?:(?:const|constexpr|static|volatile|typename|unsigned|signed|long|short|mutable)\s+)*'
                      r'[A-Za-z_]\w*(?:::[A-Za-z_]\w*)*(?:<[^;{}()]*?>)?(?:::[A-Za-z_]\w*)*)(?:\s+const\b)?(?:\s+|\s*[&*]+\s*)(?:const\s+)?'
                      r'([A-Za-z_]\w*)\b\s*(?==[^=]|;|\{|\()')
def declared_locals(body):
    """names of the locals a C++ function body declares, in order (conservative text scan; duplicates kept once)"""
    out = []
    for m in _DECL_RE.finditer(body):
        ty = m.group(1).split()[-1] if m.group(1).split() else ''
        first = re.match(r'[A-Za-z_]\w*', m.group(1).strip())
        words = set(re.findall(r'[A-Za-z_]\w*', m.group(1)))
        if words & _NOT_A_TYPE: continue
        name = m.group(2)
        if name in _NOT_A_TYPE or name in ('const', 'volatile'): continue
        if name not in out: out.append(name)
    return out

def canonicalize_locals(body, pinned):
    """returns (body', renames) - see the comment above"""
    cur = declared_locals(body)
    if not pinned or cur == pinned or len(cur) != len(pinned): return body, []
    ren = [(c, p) for c, p in zip(cur, pinned) if c != p]
    toks = set(re.findall(r'(?<![\w.>])[A-Za-z_]\w*', body))      # free identifiers (member accesses .x / ->x do not count)
    for c, p in ren:
        if p in toks or c in pinned: return body, []          # the pinned name is still in use / names were permuted: not a pure rename
    for c, p in ren:
        body = re.sub(r'(?<![\w.>])%s\b' % re.escape(c), p, body)   # not a member access (.x / ->x)
    return body, ren

def extract_const(src, regex):
    # whitespace-tolerant: a literal blank in the unit's regex matches any run of white space (a reformatted definition
    # that is split over lines is still found); blanks inside character classes are left alone
    out = []; depth = 0; i = 0
    while i < len(regex):
        c = regex[i]
        if c == '\\' and i + 1 < len(regex): out.append(regex[i:i + 2]); i += 2; continue
        if c == '[': depth += 1
        elif c == ']' and depth: depth -= 1
        if c == ' ' and depth == 0: out.append(r'\s+')
        else: out.append(c)
        i += 1
    tolerant = ''.join(out).replace(r'\s+=\s+', r'\s*=\s*')
    m = re.search(tolerant, src, re.S) or re.search(regex, src, re.S)
    if not m: raise ExtractError('constant not found: ' + regex)
    return m.group(1).strip()

# ----------------------------------------------------------------------------- tokens
TOK = re.compile(r'\s+|[A-Za-z_]\w*|0[xX][0-9a-fA-F]+[uUlL]*|\d+[uUlL]*|"(?:\\.|[^"\\])*"|\'(?:\\.|[^\'\\])*\'|::|->|\+\+|--|<<=|>>=|<<|>>|<=|>=|==|!=|&&|\|\||[-+*/%&|^]=|.', re.S)
IDENT = re.compile(r'[A-Za-z_]\w*$')
def toks(s): return TOK.findall(s)

def _prev(t, i):
    i -= 1
    while i >= 0 and t[i].isspace(): i -= 1
    return i
def _next(t, i):
    i += 1
    while i < len(t) and t[i].isspace(): i += 1
    return i
def _match_fwd(t, i):
    op = t[i]; cl = {'(': ')', '[': ']', '{': '}'}[op]; d = 0
    while True:
        if t[i] == op: d += 1
        elif t[i] == cl:
            d -= 1
            if d == 0: return i
        i += 1
def _match_back(t, j):
    cl = t[j]; op = {')': '(', ']': '[', '}': '{'}[cl]; d = 0
    while True:
        if t[j] == cl: d += 1
        elif t[j] == op:
            d -= 1
            if d == 0: return j
        j -= 1
def _recv_start(t, i):
    """t[i] is '.' or '->'; walk back over the postfix chain; return index of its first token"""
    j = _prev(t, i)
    while True:
        if t[j] in (')', ']'):
            j = _match_back(t, j)
            k = _prev(t, j)
            if k >= 0 and (IDENT.match(t[k]) and t[k] not in ('return', 'if', 'while', 'for', 'switch') or t[k] in (')', ']')):
                j = k; continue
            return j
        elif IDENT.match(t[j]):
            k = _prev(t, j)
            if k >= 0 and t[k] in ('.', '->', '::'):
                j = _prev(t, k); continue
            if k >= 0 and t[k] == '*' :
                # unary deref directly in front of an identifier chain: "*this" style is handled by caller
                pass
            return j
        else:
            return _next(t, j)
def _split_args(t, i, j):
    args = []; cur = []; d = 0
    for k in range(i + 1, j):
        x = t[k]
        if x in '([{': d += 1
        if x in ')]}': d -= 1
        if x == ',' and d == 0: args.append(''.join(cur).strip()); cur = []
        else: cur.append(x)
    s = ''.join(cur).strip()
    if s or args: args.append(s)
    return args

ATOMIC = {'load': 'A_LOAD', 'store': 'A_STORE', 'exchange': 'A_XCHG', 'fetch_add': 'A_FADD', 'fetch_sub': 'A_FSUB',
          'fetch_or': 'A_FOR', 'fetch_and': 'A_FAND', 'fetch_xor': 'A_FXOR',
          'compare_exchange_strong': 'A_CAS', 'compare_exchange_weak': 'A_CASW'}

class Lowerer:
    def __init__(self, spec):
        self.spec = spec
        self.fired = {}
    def fire(self, rule, n=1):
        self.fired[rule] = self.fired.get(rule, 0) + n

    # -- rules ---------------------------------------------------------------
    def casts(self, s):
        pat = re.compile(r'\b(static_cast|reinterpret_cast|const_cast)\s*<')
        tymap = self.spec.get('types', {})
        while True:
            m = pat.search(s)
            if not m: return s
            i = m.end() - 1
            j = match_brace(s, i, '<', '>')
            ty = ' '.join(s[i + 1:j].split())
            k = s.index('(', j); e = match_brace(s, k, '(', ')')
            if ty in tymap: ty = tymap[ty]
            s = s[:m.start()] + '((' + ty + ')(' + s[k + 1:e] + '))' + s[e + 1:]
            self.fire('cast')

    def tsan_order(self, s):
        """TSAN_MEMORY_ORDER(tsan_order, normal_order) -> normal_order: the production (non-TSan) build is what is verified"""
        while True:
            m = re.search(r'\bTSAN_MEMORY_ORDER\s*\(', s)
            if not m: return s
            i = m.end() - 1; j = match_brace(s, i, '(', ')')
            args = []; cur = ''; d = 0
            for c in s[i + 1:j]:
                if c in '([': d += 1
                if c in ')]': d -= 1
                if c == ',' and d == 0: args.append(cur); cur = ''
                else: cur += c
            args.append(cur)
            if len(args) != 2: raise ExtractError('TSAN_MEMORY_ORDER with %d args' % len(args))
            s = s[:m.start()] + args[1].strip() + s[j + 1:]
            self.fire('tsan_order')

    def simple(self, s):
        s = self.tsan_order(s)
        n0 = len(re.findall(r'std::memory_order_\w+', s)); self.fire('memory_order', n0) if n0 else None
        s = re.sub(r'std::memory_order_(\w+)', r'mo_\1', s)
        s = re.sub(r'\bif\s+constexpr\b', 'if', s)
        s = re.sub(r'\bnullptr\b', '0', s)
        s = re.sub(r'\[\[\s*\w+(::\w+)?\s*\]\]', '', s)
        s = re.sub(r'\bstd::(size_t|uint64_t|uint32_t|uint16_t|uint8_t|int64_t|int32_t|uintptr_t|intptr_t|ptrdiff_t)\b', r'\1', s)
        if self.spec.get('track_moves'):
            # unit tracks value categories: std::move(x) -> XV_MOVE(x), std::forward<T>(x) -> XV_FORWARD(x) (macros defined by the unit)
            s = re.sub(r'\bstd::move\s*\(', 'XV_MOVE(', s)
            s = re.sub(r'\bstd::forward\s*(<[^<>()]*>)?\s*\(', 'XV_FORWARD(', s)
        else:
            s = re.sub(r'\bstd::(move|forward)\s*(<[^<>()]*>)?\s*\(', '(', s)
        s = re.sub(r'\bXENIUM_THREAD_FENCE\s*\(', 'A_FENCE(', s)
        s = re.sub(r'\bstd::atomic_thread_fence\s*\(', 'A_FENCE(', s)
        s = re.sub(r'\bXENIUM_(UN)?LIKELY\b', '', s)
        # verification hook points (guard MPOETER_XENIUM_VERIF, empty without it) are not part of the verified text
        s, nh = re.subn(r'\bXENIUM_VERIF_POINT\s*\(\s*"[^"]*"\s*\)\s*;', '', s)
        if nh: self.fire('verif_point', nh)
        s = re.sub(r'\bassert\s*\(', 'XV_XASSERT(', s)
        return s

    def subst(self, s, key):
        for item in self.spec.get(key, []):
            a, b = item[0], item[1]
            s, n = re.subn(a, b, s, flags=re.S)
            if n: self.fire('subst:' + (item[2] if len(item) > 2 else a), n)
        return s

    def index2(self, s):
        """NAME[e1][e2] -> MACRO(self, e1, e2)   (two-level arrays kept abstract by the unit)"""
        for name, macro in self.spec.get('index2', {}).items():
            while True:
                m = re.search(r'(?<![\w.>])(?:this->)?' + re.escape(name) + r'\s*\[', s)
                if not m: break
                i = m.end() - 1; j = match_brace(s, i, '[', ']')
                k = j + 1
                while s[k].isspace(): k += 1
                if s[k] != '[': raise ExtractError('index2: %s used with one index' % name)
                e = match_brace(s, k, '[', ']')
                s = s[:m.start()] + '%s(self, %s, %s)' % (macro, s[i + 1:j], s[k + 1:e]) + s[e + 1:]
                self.fire('index2:' + name)
        return s

    def methods(self, s):
        table = dict(ATOMIC); table.update(self.spec.get('methods', {}))
        deref = self.spec.get('deref', {})
        changed = True
        guard = 0
        while changed:
            changed = False; guard += 1
            if guard > 2000: raise ExtractError('method rewriting does not terminate')
            t = toks(s)
            for i, x in enumerate(t):
                if x in ('.', '->'):
                    k = _next(t, i)
                    if k < len(t) and t[k] in table:
                        p = _next(t, k)
                        if p < len(t) and t[p] == '(':
                            q = _match_fwd(t, p)
                            st = _recv_start(t, i)
                            recv = ''.join(t[st:i]).strip()
                            if x == '->':
                                recv = (deref[recv] + '(' + recv + ')') if recv in deref else recv
                                recv = '(*' + recv + ')'
                            args = _split_args(t, p, q)
                            name = table[t[k]]
                            if isinstance(name, dict):   # receiver-specific
                                key = ''.join(t[st:i]).strip()
                                name = name.get(key, name.get('*'))
                                if name is None: raise ExtractError('no method mapping for %s.%s' % (key, t[k]))
                            if name in ('A_CAS', 'A_CASW'): args[0] = '&(' + args[0] + ')'
                            new = name + '(' + ', '.join([recv] + args) + ')'
                            s = ''.join(t[:st]) + new + ''.join(t[q + 1:])
                            self.fire(name if name.startswith('A_') else 'method:' + t[k])
                            changed = True; break
        # operator-> on smart-pointer-like receivers (guards, marked_ptr): X->f  =>  DEREF(X)->f
        for recv, macro in deref.items():
            pat = re.compile(r'(?<![\w.>])' + re.escape(recv) + r'\s*->')
            s, n = pat.subn(macro + '(' + recv + ')->', s)
            if n: self.fire('deref:' + recv, n)
        return s

    def calls(self, s):
        """free / constructor-style / implicit-this calls:  name(args) -> NEW(args) or NEW(self, args)"""
        for name, new in self.spec.get('calls', {}).items():
            pat = re.compile(r'(?<![\w.>:])' + re.escape(name) + r'\s*\(')
            s, n = pat.subn(new + '(', s)
            if n: self.fire('call:' + name, n)
        for name, new in self.spec.get('self_calls', {}).items():
            pat = re.compile(r'(?<![\w.>:])(?:this->)?' + re.escape(name) + r'\s*\(\s*(\)?)')
            def rp(m): return new + '(self' + (')' if m.group(1) else ', ')
            s, n = pat.subn(rp, s)
            if n: self.fire('self_call:' + name, n)
        return s

    def references(self, s):
        refs = []
        def rp(m):
            name = m.group(2); refs.append(name); self.fire('reference')
            init = m.group(3).strip()
            # T& x = c ? a : b;  - a conditional is not an lvalue in C: take the address in both branches
            d = 0; q = -1; col = -1
            for i, ch in enumerate(init):
                if ch in '([{': d += 1
                elif ch in ')]}': d -= 1
                elif ch == '?' and d == 0 and q < 0: q = i
                elif ch == ':' and d == 0 and q >= 0 and col < 0 and init[i - 1:i + 2].count(':') == 1: col = i
            if q > 0 and col > q:
                return '__auto_type %s_p = (%s) ? &(%s) : &(%s);\n#define %s (*%s_p)\n' % (name, init[:q].strip(), init[q + 1:col].strip(), init[col + 1:].strip(), name, name)
            return '__auto_type %s_p = &(%s);\n#define %s (*%s_p)\n' % (name, init, name, name)
        s = re.sub(r'\b(const\s+)?(?:auto|[A-Za-z_][\w:]*(?:<[^;=()]*>)?)\s*&\s*(\w+)\s*=\s*([^;]+);', rp, s)
        self._refs = refs
        return s

    def decl_in_if(self, s):
        """C++17 `if (T x = e) ...` / `if (T x = e; c) ...` -> `T x = e; if (x) ...` / `T x = e; if (c) ...` (the name stays visible afterwards:
           a later redeclaration would be rejected by the C front end, i.e. undecided, never wrong)"""
        pat = re.compile(r'\bif\s*\(\s*((?:const\s+)?(?:auto|struct\s+\w+|[A-Za-z_][\w:]*(?:<[^;()]*>)?)\s*[*&]*\s*(?:const\s+)?)([A-Za-z_]\w*)\s*=(?!=)')
        pos = 0
        while True:
            m = pat.search(s, pos)
            if not m: return s
            if m.group(1).split()[0] in ('return', 'else', 'case') : pos = m.end(); continue
            i = s.index('(', m.start()); j = match_brace(s, i, '(', ')')
            inner = s[i + 1:j]
            d = 0; semi = -1
            for k, ch in enumerate(inner):
                if ch in '([{': d += 1
                elif ch in ')]}': d -= 1
                elif ch == ';' and d == 0: semi = k; break
            if semi >= 0: decl, cond = inner[:semi].strip(), inner[semi + 1:].strip()
            else: decl, cond = inner.strip(), m.group(2)
            s = s[:m.start()] + decl + '; if (' + cond + ')' + s[j + 1:]
            self.fire('decl_in_if'); pos = m.start() + len(decl) + 2

    def autos(self, s):
        s, n = re.subn(r'\b(?:const\s+)?auto(?:\s+const\b)?\s*\*?\s*(?:const\s+)?(?=\w+\s*(=|;|\{))', '__auto_type ', s)
        if n: self.fire('auto', n)
        return s

    def members(self, s):
        for mname in self.spec.get('members', []):
            s, n = re.subn(r'(?<![\w.>])%s\b' % re.escape(mname), 'self->' + mname, s)
            if n: self.fire('member:' + mname, n)
        s = s.replace('this->', 'self->').replace('self->self->', 'self->')
        s = re.sub(r'\*\s*this\b', '(*self)', s)
        s = re.sub(r'\bthis\b', 'self', s)
        return s

    def throws(self, s):
        def rp(m):
            self.fire('throw'); return '{ XV_THROW(%s); XV_RET; }' % re.sub(r'\W', '_', m.group(1))
        s = re.sub(r'\bthrow\s+([\w:]+)\s*\([^;]*\)\s*;', rp, s)
        for name in self.spec.get('may_throw', []):
            # after a statement containing a call to NAME: early exit when the callee threw
            pat = re.compile(r'([^;{}]*\b' + re.escape(name) + r'\s*\([^;]*;)')
            s, n = pat.subn(lambda m: m.group(1) + ' if (xv_threw) { XV_RET; }', s)
            if n: self.fire('may_throw:' + name, n)
        return s

    def ctor_init(self, init):
        """': a(x), b{y}, c()' -> 'self->a = x; ...' (only used for constructors)"""
        init = init.strip()
        if not init.startswith(':'): return ''
        init = init[1:]
        t = toks(init); out = []; i = 0
        while i < len(t):
            if IDENT.match(t[i]):
                name = t[i]; p = _next(t, i)
                if p < len(t) and t[p] in '({':
                    q = _match_fwd(t, p)
                    val = ''.join(t[p + 1:q]).strip()
                    out.append((name, val)); i = q + 1; continue
            i += 1
        self.fire('ctor_init', len(out))
        return out

    # -- loops ---------------------------------------------------------------
    def find_loops(self, s):
        """returns list of (kind, start_index_in_tokens) in order of appearance"""
        t = toks(s); loops = []
        i = 0
        pending_do = []
        depth_do = []
        while i < len(t):
            x = t[i]
            if x == 'for': loops.append(('for', i))
            elif x == 'do': loops.append(('do', i))
            elif x == 'while':
                # a 'while' closing a do-body is not a loop of its own
                p = _prev(t, i)
                is_do_tail = False
                if p >= 0 and t[p] == '}':
                    b = _match_back(t, p); q = _prev(t, b)
                    if q >= 0 and t[q] == 'do': is_do_tail = True
                if not is_do_tail: loops.append(('while', i))
            i += 1
        return t, loops

    def annotate_loop(self, s, ordinal, name):
        """Route D: keep the loop, insert the cbmc loop-contract clauses (macro XV_LOOP_CONTRACT_<name>) in place"""
        t, loops = self.find_loops(s)
        if ordinal >= len(loops): raise ExtractError('loop %d not found (have %d)' % (ordinal, len(loops)))
        kind, i = loops[ordinal]
        if kind == 'do': pos = i + 1
        else:
            p = _next(t, i); e = _match_fwd(t, p); pos = e + 1
        self.fire('cut_loop')
        return ''.join(t[:pos]) + ' XV_LOOP_CONTRACT(' + name + ') ' + ''.join(t[pos:])

    def cut_loop(self, s, ordinal, name):
        if self.spec.get('_route') == 'D': return self.annotate_loop(s, ordinal, name)
        t, loops = self.find_loops(s)
        if ordinal >= len(loops):
            # the loop the unit wants to cut is gone (somebody edited the function): nothing to cut, the obligations decide
            self.fire('cut_loop_missing:' + name)
            return s
        kind, i = loops[ordinal]
        def body_bounds(p):
            # p: index of first token of the body statement
            if t[p] != '{': raise ExtractError('loop body must be a block for cutting')
            return p, _match_fwd(t, p)
        def rewrite_body(b0, b1):
            # replace break/continue that belong to this loop (not nested in inner loops / switch)
            out = []; k = b0 + 1
            inner = 0; stack = []
            while k < b1:
                x = t[k]
                if x in ('for', 'while', 'do', 'switch'):
                    # find the statement extent of the inner construct and copy verbatim
                    if x == 'do':
                        p = _next(t, k); e = _match_fwd(t, p)
                        w = _next(t, e); p2 = _next(t, w); e2 = _match_fwd(t, p2)
                        out.extend(t[k:e2 + 1]); k = e2 + 1; continue
                    p = _next(t, k)
                    if t[p] == '(':
                        e = _match_fwd(t, p); b = _next(t, e)
                        if t[b] == '{':
                            e2 = _match_fwd(t, b); out.extend(t[k:e2 + 1]); k = e2 + 1; continue
                        elif x == 'while' and t[b] == ';':
                            out.extend(t[k:b + 1]); k = b + 1; continue
                        else:
                            raise ExtractError('inner loop without block body inside a cut loop')
                if x == 'break':
                    out.append('goto %s_brk' % name); k += 1; continue
                if x == 'continue':
                    out.append('goto %s_cont' % name); k += 1; continue
                out.append(x); k += 1
            return ''.join(out)
        pre = ''.join(t[:i])
        if kind == 'for':
            p = _next(t, i); e = _match_fwd(t, p)
            hdr = ''.join(t[p + 1:e])
            # split on top-level ';'
            parts = []; cur = []; d = 0
            for x in t[p + 1:e]:
                if x in '([{': d += 1
                if x in ')]}': d -= 1
                if x == ';' and d == 0: parts.append(''.join(cur).strip()); cur = []
                else: cur.append(x)
            parts.append(''.join(cur).strip())
            if len(parts) != 3: raise ExtractError('range-for cannot be cut: ' + hdr)
            init, cond, step = parts
            b0, b1 = body_bounds(_next(t, e))
            body = rewrite_body(b0, b1)
            new = ('{ %s;\n XV_LOOP_BASE(%s); XV_LOOP_HAVOC(%s); XV_LOOP_ASSUME(%s);\n if (%s) {\n%s\n %s_cont: ; %s;\n XV_LOOP_STEP(%s); XV_CUT_END(); }\n %s_brk: ; }'
                   % (init, name, name, name, cond or '1', body, name, step, name, name))
            post = ''.join(t[b1 + 1:])
        elif kind == 'while':
            p = _next(t, i); e = _match_fwd(t, p)
            cond = ''.join(t[p + 1:e])
            b0, b1 = body_bounds(_next(t, e))
            body = rewrite_body(b0, b1)
            new = ('{ XV_LOOP_BASE(%s); XV_LOOP_HAVOC(%s); XV_LOOP_ASSUME(%s);\n if (%s) {\n%s\n %s_cont: ;\n XV_LOOP_STEP(%s); XV_CUT_END(); }\n %s_brk: ; }'
                   % (name, name, name, cond, body, name, name, name))
            post = ''.join(t[b1 + 1:])
        else:  # do
            b0, b1 = body_bounds(_next(t, i))
            w = _next(t, b1); p = _next(t, w); e = _match_fwd(t, p)
            cond = ''.join(t[p + 1:e])
            semi = _next(t, e)
            body = rewrite_body(b0, b1)
            new = ('{ XV_LOOP_BASE(%s); XV_LOOP_HAVOC(%s); XV_LOOP_ASSUME(%s);\n {\n%s\n %s_cont: ;\n if (%s) { XV_LOOP_STEP(%s); XV_CUT_END(); } }\n %s_brk: ; }'
                   % (name, name, name, body, name, cond, name, name))
            post = ''.join(t[semi + 1:])
        self.fire('cut_loop')
        self._cut_bodies = getattr(self, '_cut_bodies', {})
        self._cut_bodies[name] = body + ' ;\n' + (cond or '') + ' ;\n' + (step if kind == 'for' else '') + ' ;'      # writes in the condition / step count too (a loop reshaped from do/while to for(;;) must not change what has to be havocked)
        return pre + new + post

    # -- driver --------------------------------------------------------------
    def lower_body(self, body, init=''):
        s = body
        if self.spec.get('py_pre'): s = self.spec['py_pre'](s, self)     # unit-local mechanical rule (callable(text, lowerer) -> text)
        s = self.subst(s, 'pre_subst')
        s = self.casts(s)
        s = self.simple(s)
        s = self.subst(s, 'subst')
        s = self.index2(s)
        s = self.methods(s)
        s = self.calls(s)
        # std::swap(a, b) that no unit rule (pre_subst / subst / calls) has claimed: a plain exchange of two lvalues of the same (word-modelled) type
        s, nsw = re.subn(r'\bstd::swap\s*\(', 'XV_STD_SWAP(', s)
        if nsw: self.fire('std_swap_builtin', nsw)
        s, nmc = re.subn(r'\b(?:std::)?memcmp\s*\(', 'XV_MEMCMP(', s)
        if nmc: self.fire('memcmp_builtin', nmc)
        s = self.throws(s)
        s = self.decl_in_if(s)
        s = self.references(s)
        s = self.autos(s)
        s = self.members(s)
        if self.spec.get('ctor'):
            items = self.ctor_init(init)
            ini = ''
            for name, val in items:
                v = val
                v = self.casts(v); v = self.simple(v)
                ini += ' XV_INIT_%s(self, %s);\n' % (name, v if v else '')
            s = '{\n' + ini + s.strip()[1:]
        # cut loops from the last to the first so ordinals stay valid
        cuts = self.spec.get('cut_loops', {})
        for ordinal in sorted(cuts, reverse=True):
            s = self.cut_loop(s, ordinal, cuts[ordinal])
        s = self.subst(s, 'post_subst')
        if self.spec.get('py_post'): s = self.spec['py_post'](s, self)
        if getattr(self, '_refs', None):
            k = s.rstrip().rfind('}')
            s = s[:k] + ''.join('#undef %s\n' % r for r in self._refs) + '}'
        return s

RESIDUAL = [r'::', r'\btemplate\b', r'\bauto\b', r'\bnew\b', r'\bdelete\b', r'\boperator\b', r'\bnoexcept\b',
            r'\bstatic_cast\b', r'\breinterpret_cast\b', r'\bconstexpr\b', r'\btypename\b', r'\bthrow\b', r'\bnullptr\b',
            r'\bstd\b', r'\bthis\b']

def residual_tokens(s):
    bad = []
    code = re.sub(r'"(?:\\.|[^"\\])*"', '""', s)
    for r in RESIDUAL:
        if re.search(r, code): bad.append(r)
    return bad

def _close_of(t, p):
    d = 0
    for q in range(p, len(t)):
        if t[q] in '([{': d += 1
        elif t[q] in ')]}':
            d -= 1
            if d == 0: return q
    return -1

def assigned_idents(body):
    """identifiers (and member names) syntactically written in a loop body: x = , x op=, ++x, x++, &x, ->m =, .m ="""
    t = [x for x in toks(body) if not x.isspace()]
    out = set()
    asg = {'=', '+=', '-=', '*=', '/=', '%=', '&=', '|=', '^=', '<<=', '>>=', '++', '--'}
    for i, x in enumerate(t):
        if x in asg:
            if i > 0 and IDENT.match(t[i - 1]): out.add(t[i - 1])
            if x in ('++', '--') and i + 1 < len(t) and IDENT.match(t[i + 1]): out.add(t[i + 1])
            if i > 0 and t[i - 1] == ']':
                # a[i] = ... : find the array name
                d = 0; j = i - 1
                while j >= 0:
                    if t[j] == ']': d += 1
                    elif t[j] == '[':
                        d -= 1
                        if d == 0: break
                    j -= 1
                if j > 0 and IDENT.match(t[j - 1]): out.add(t[j - 1])
        if x == '&' and i + 1 < len(t) and IDENT.match(t[i + 1]) and i > 0 and t[i - 1] in ('(', ','):
            out.add(t[i + 1])
        if x in ('A_STORE', 'A_CAS', 'A_CASW', 'A_XCHG', 'A_FADD', 'A_FSUB', 'A_FOR', 'A_FAND', 'A_FXOR') and i + 1 < len(t) and t[i + 1] == '(':
            d = 0; j = i + 1
            while j < len(t):
                if t[j] in '([{': d += 1
                elif t[j] in ')]}': d -= 1
                elif t[j] == ',' and d == 1: break
                if d == 0: break
                j += 1
            # A_STORE(NAME(args), ...): the object is whatever the accessor macro NAME addresses (the macro must be named in the havoc list); its arguments are index expressions, not written objects
            if j - (i + 2) >= 3 and IDENT.match(t[i + 2]) and t[i + 2].startswith('XV_') and t[i + 3] == '(' and t[j - 1] == ')' and _close_of(t, i + 3) == j - 1:   # harness accessor macros (XV_CELL, ...) only
                out.add(t[i + 2]); continue
            ids = [y for k, y in enumerate(t[i + 2:j], i + 2) if IDENT.match(y) and y != 'self' and not y.endswith('_t') and not (k + 1 < len(t) and t[k + 1] == '(')   # a macro/function applied to the object is not the object
                   and y not in ('unsigned', 'signed', 'int', 'long', 'short', 'char', 'struct', 'const', 'void', 'bool', '_Bool')]
            # the written object: every identifier that is not an index expression is over-approximated in
            out.update(ids)
    return out

def sha(s): return hashlib.sha256(s.encode()).hexdigest()[:16]
