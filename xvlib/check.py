"""property-level checks: run units, classify, replay, evidence, exit codes"""
import os, re, json, subprocess, time, shutil, tempfile, sys
from concurrent.futures import ThreadPoolExecutor
from . import engine as E

VERIF = E.VERIF

def load_prop(pid):
    path = os.path.join(VERIF, 'props', pid + '.py')
    if not os.path.exists(path): raise E.XvError('no check for ' + pid)
    g = {}
    with open(path) as f: exec(compile(f.read(), path, 'exec'), g)
    return g['PROP']

def name_matches(name, patterns):
    for p in patterns:
        if p.endswith('*'):
            if name.startswith(p[:-1]): return True
        elif name == p: return True
    return False

def load_findings():
    p = os.path.join(VERIF, 'known_findings.json')
    if not os.path.exists(p): return []
    return json.load(open(p))['findings']

def run_units(unit_names, tier, workroot, only_runs=None, timeout=None, verbose=False):
    """returns (records, unit_infos).  record = dict(unit, run, kind, name, status, ...)"""
    sel = {}
    names = []
    for n in unit_names:
        if ':' in n:
            n, rs = n.split(':', 1); sel.setdefault(n, set()).update(rs.split(','))
        if n not in names: names.append(n)
    units = [E.load_unit(n) for n in names]
    jobs = []; infos = {}
    for u in units:
        wd = os.path.join(workroot, u['name'])
        infos[u['name']] = E.prepare(u, wd)
        for run in u['runs']:
            if tier not in run.get('tiers', ['quick', 'thorough']): continue
            if only_runs and run['id'] not in only_runs: continue
            if u['name'] in sel and run['id'] not in sel[u['name']]: continue
            jobs.append((u, run, wd))
    results = []
    def work(job):
        u, run, wd = job
        to = timeout or run.get('timeout', 600 if tier == 'quick' else 3000)
        r = E.run_one(u, run, wd, to)
        if verbose: print('  [%s/%s] %s %.1fs' % (u['name'], run['id'], r['status'], r['wall']), file=sys.stderr, flush=True)
        return r
    with ThreadPoolExecutor(max_workers=E.WORKERS) as ex:
        outs = list(ex.map(work, jobs))
    return list(zip(jobs, outs)), infos, units

def static_records(infos):
    recs = []
    for uname, info in infos.items():
        for so in info.get('static_obligations', []):
            recs.append(dict(unit=uname, run='static', kind='OBL', name=so['name'], status='SUCCESS' if so['ok'] else 'FAILURE', prop_id=None,
                             loc={'function': so['function'], 'what': so['what']}, cls='unbounded', mode='STATIC'))
    return recs

def analyse(pairs):
    """flatten cbmc results into obligation records; raises XvError on anything inconclusive"""
    recs = []; problems = []
    for (u, run, wd), r in pairs:
        rid = '%s/%s' % (u['name'], run['id'])
        if r['status'] != 'ok':
            problems.append('%s: cbmc %s\n%s' % (rid, r['status'], r.get('log', '')[-1500:]))
            continue
        if 'ignoring' in r['log'] and 'forall' in r['log']:
            problems.append('%s: quantifier ignored by back end' % rid)
        seen_canaries = set()
        nobody = [x.get('property') for x in r['results'] if re.search(r'\.no[-_]body\.', x.get('property') or '')]
        if nobody:
            # a call that the unit's tables did not map to a stub or a lowered function: cbmc would treat it as an arbitrary
            # function.  Whatever fails after that is not evidence of anything: the run is undecided.
            problems.append('%s: extraction incomplete: call(s) without body %s (edited code calls a function the unit does not know)' % (rid, sorted(set(nobody))))
            continue
        for x in r['results']:
            kind, name = E.classify(x.get('description', ''), x.get('property', ''))
            rec = dict(unit=u['name'], run=run['id'], kind=kind, name=name, status=x['status'], prop_id=x.get('property'),
                       loc=x.get('sourceLocation', {}), cls=run.get('cls', 'bounded'), mode=run.get('mode', 'SEQ'))
            recs.append(rec)
            if kind == 'CANARY': seen_canaries.add(name)
    return recs, problems

def decide(pid, prop, recs, problems, units):
    """returns (violations, knowns, stats, errors)"""
    findings = load_findings()
    errors = list(problems)
    oblmeta = {}
    for u in units:
        for k, v in u.get('obligations', {}).items(): oblmeta[k] = v
    decl_canaries = set()
    for u in units:
        for c in u.get('canaries', []): decl_canaries.add((u['name'], c))
    # canaries
    placed = 0; reachable = 0
    seen = set()
    for r in recs:
        if r['kind'] == 'CANARY':
            placed += 1
            seen.add((r['unit'], r['name']))
            if r['status'] == 'FAILURE': reachable += 1
            else: errors.append('canary not reachable (vacuous harness?): %s/%s %s' % (r['unit'], r['run'], r['name']))
    failures = []
    total = 0; ok = 0; bounded_ok = 0
    named_seen = set()
    for u in units:
        for x in u['runs']:
            if x.get('unwind_obligation'): named_seen.add(x['unwind_obligation'])
    for r in recs:
        if r['kind'] == 'CANARY': continue
        if r['kind'] == 'UNWIND':
            if r['status'] != 'SUCCESS':
                run = [x for u in units if u['name'] == r['unit'] for x in u['runs'] if x['id'] == r['run']][0]
                if run.get('unwind_obligation') or prop.get('unwind_is_obligation'):
                    failures.append(dict(r, kind='OBL', name=run.get('unwind_obligation') or '%s.%s.terminates' % (r['unit'], r['run']))); total += 1
                else:
                    errors.append('unwinding assertion failed (shape bound too small or non-termination): %s/%s %s' % (r['unit'], r['run'], r['name']))
            elif prop.get('unwind_is_obligation') or any(x.get('unwind_obligation') for u in units if u['name'] == r['unit'] for x in u['runs'] if x['id'] == r['run']):
                total += 1
                if r['cls'] == 'bounded': bounded_ok += 1
                else: ok += 1
                named_seen.add('%s.%s.terminates' % (r['unit'], r['run']))
            continue
        if r['kind'] == 'DFCC':
            total += 1
            if r['status'] == 'SUCCESS': ok += 1
            else:
                uu = [x for x in units if x['name'] == r['unit']][0]
                tgt = list(uu.get('loop_obligation', {}).values())
                failures.append(dict(r, kind='OBL', name=tgt[0] if tgt else r['name'], via='route D ' + r['name']))
            continue
        if r['kind'] == 'MODEL':
            if r['status'] != 'SUCCESS': errors.append('model self-check failed: %s/%s %s' % (r['unit'], r['run'], r['name']))
            continue
        if r['kind'] == 'XASSERT':
            continue  # recorded as secondary class below
        if r['kind'] in ('LOOPBASE', 'LOOPSTEP'):
            # a loop invariant that stops holding is reported under the obligation the loop carries
            uu = [x for x in units if x['name'] == r['unit']][0]
            tgt = uu.get('loop_obligation', {}).get(r['name'])
            if tgt is None: errors.append('unit bug: loop %s of %s has no loop_obligation' % (r['name'], r['unit'])); continue
            total += 1
            if r['status'] == 'SUCCESS':
                if r['cls'] == 'bounded': bounded_ok += 1
                else: ok += 1
            else:
                failures.append(dict(r, kind='OBL', name=tgt, via='loop invariant %s %s' % (r['name'], r['kind'])))
            continue
        total += 1
        if r['kind'] == 'OBL': named_seen.add(r['name'])
        if r['status'] == 'SUCCESS':
            if r['cls'] == 'bounded': bounded_ok += 1
            else: ok += 1
        else:
            failures.append(r)
    xassert_fail = [r for r in recs if r['kind'] == 'XASSERT' and r['status'] != 'SUCCESS']
    # every obligation named by the property must have been generated at least once
    for name in prop.get('obligations', []):
        seen_all = set(named_seen) | set(f['name'] for f in failures)
        if not any(name_matches(n, [name]) for n in seen_all):
            errors.append('named obligation %s was not generated by any run' % name)
    violations = []; knowns = []
    for f in failures:
        oname = f['name'] if f['kind'] == 'OBL' else '%s.%s:%s' % (f['unit'], f['kind'].lower(), f['name'])
        f['oname'] = oname
        k = None
        for kf in findings:
            if kf.get('status') == 'known' and kf['property'] == pid and kf['obligation'] == oname and kf.get('run', f['run']) == f['run'] and kf.get('unit', f['unit']) == f['unit']:
                k = kf
        if k: knowns.append((f, k))
        else: violations.append(f)
    stats = dict(obligations=total, discharged=ok, discharged_bounded=bounded_ok, canaries_placed=placed, canaries_reachable=reachable,
                 internal_assertions_failed=len(xassert_fail), failures=len(failures))
    return violations, knowns, stats, errors, xassert_fail
