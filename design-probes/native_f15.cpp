#include <xenium/vyukov_hash_map.hpp>
#include <xenium/reclamation/generic_epoch_based.hpp>
#include <xenium/reclamation/hazard_pointer.hpp>
#include <cstdio>
#include <string>
template <class R> void run(const char* name){
  using M = xenium::vyukov_hash_map<std::string, std::string, xenium::policy::reclaimer<R>>;
  M m(8);
  m.emplace("foo", "FOO");
  printf("%s: erase(absent, no collision) ...", name); fflush(stdout);
  bool r = m.erase("nokey");
  printf(" = %d\n", r);
  typename M::accessor a; printf("%s: extract(absent) ...", name); fflush(stdout); r = m.extract("nokey2", a); printf(" = %d\n", r);
}
int main(){ run<xenium::reclamation::epoch_based<>>("epoch_based"); run<xenium::reclamation::hazard_pointer<>>("hazard_pointer"); }
