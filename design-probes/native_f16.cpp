#include <xenium/vyukov_hash_map.hpp>
#include <xenium/reclamation/generic_epoch_based.hpp>
#include <cstdio>
#include <string>
struct samehash { std::size_t operator()(const std::string&) const { return 7; } };
int main(){
  using R = xenium::reclamation::epoch_based<>;
  using M = xenium::vyukov_hash_map<std::string, int, xenium::policy::reclaimer<R>, xenium::policy::hash<samehash>>;
  M m(256);
  for (int i=0;i<5;i++) m.emplace("k"+std::to_string(i), i);     // 3 in the bucket array, 2 in the extension list, all with the same hash
  M::accessor a;
  for (int i=0;i<5;i++){ bool f=m.try_get_value("k"+std::to_string(i), a); printf("get k%d -> %d\n", i, f); fflush(stdout); }
  printf("get absent key ...\n"); fflush(stdout);
  bool f=m.try_get_value("absent", a); printf(" -> %d\n", f);
}
