#include <xenium/harris_michael_list_based_set.hpp>
#include <xenium/reclamation/generic_epoch_based.hpp>
#include <cstdio>
int main(){
  xenium::harris_michael_list_based_set<int, xenium::policy::reclaimer<xenium::reclamation::epoch_based<>>> s;
  for (int k : {10,20,30}) s.emplace(k);
  auto it = s.begin();
  printf("yield %d\n", *it);
  xenium::xv_hook = [&]{ s.emplace(15); };   // another handle inserts right after the current element while ++ is between its load and acquire_if_equal
  ++it;
  printf("yield %d   <- same key again? (10 was neither erased nor re-inserted)\n", *it);
  for (++it; it != s.end(); ++it) printf("yield %d\n", *it);
}
