#include <stdint.h>
#include <stddef.h>
#include <stdbool.h>
typedef uint64_t index_t; typedef int64_t indexdiff_t;
#ifndef CAP
#define CAP 2
#endif
#define N (2*CAP)
#ifndef RS
#define RS 0
#endif
#define indexes_per_cacheline 8
struct scq { index_t _head; int64_t _threshold; index_t _tail; uint64_t _data[N]; };
static inline indexdiff_t diff(index_t a, index_t b) { return (indexdiff_t)(a - b); }
static inline index_t remap_index(index_t idx, size_t remap_shift, size_t n) {
  idx >>= 1;
  return ((idx & (n - 1)) >> remap_shift) | ((idx * indexes_per_cacheline) & (n - 1));
}
#define finalized 1
#define index_inc 2
#define A_CAS(obj,exp,des) ((obj)==*(exp) ? ((obj)=(des),1) : (*(exp)=(obj),0))
static bool enqueue(struct scq* self, uint64_t value, size_t capacity, size_t remap_shift) {
  const size_t n = capacity * 2;
  const size_t is_safe_and_value_mask = 2 * n - 1;
  value ^= is_safe_and_value_mask;
  for (;;) {
    index_t tail = self->_tail; self->_tail += index_inc;
    const index_t tail_cycle = tail | is_safe_and_value_mask;
    const index_t tidx = remap_index(tail, remap_shift, n);
    uint64_t entry = self->_data[tidx];
  retry:;
    const uint64_t entry_cycle = entry | is_safe_and_value_mask;
    if (diff(entry_cycle, tail_cycle) < 0 &&
        (entry == entry_cycle ||
         (entry == (entry_cycle ^ n) && diff(self->_head, tail) <= 0))) {
      if (!A_CAS(self->_data[tidx], &entry, tail_cycle ^ value)) goto retry;
      const int64_t threshold = (int64_t)(n + capacity - 1);
      if (self->_threshold != threshold) self->_threshold = threshold;
      return true;
    }
  }
}
static void catchup(struct scq* self, uint64_t tail, uint64_t head) {
  while (!A_CAS(self->_tail, &tail, head)) {
    head = self->_head;
    if (diff(tail, head) >= 0) break;
  }
}
static bool dequeue(struct scq* self, uint64_t* value, size_t capacity, size_t remap_shift) {
  if (self->_threshold < 0) return false;
  const size_t n = capacity * 2;
  const size_t value_mask = n - 1;
  const size_t is_safe_and_value_mask = 2 * n - 1;
  for (;;) {
    const index_t head = self->_head; self->_head += index_inc;
    const index_t head_cycle = head | is_safe_and_value_mask;
    const index_t hidx = remap_index(head, remap_shift, n);
    size_t attempt = 0; uint64_t entry_cycle; uint64_t entry_new;
  retry:;
    uint64_t entry = self->_data[hidx];
    do {
      entry_cycle = entry | is_safe_and_value_mask;
      if (entry_cycle == head_cycle) {
        self->_data[hidx] |= value_mask;
        *value = entry & value_mask;
        __CPROVER_assert(*value < capacity, "xenium assert: value < capacity");
        return true;
      }
      if ((entry | n) != entry_cycle) {
        entry_new = entry & ~n;
        if (entry == entry_new) break;
      } else {
        index_t tail = self->_tail;
        if (diff(tail, head + index_inc) > 0 && ++attempt <= 0) goto retry;
        entry_new = head_cycle;
      }
    } while (diff(entry_cycle, head_cycle) < 0 && !A_CAS(self->_data[hidx], &entry, entry_new));
    {
      index_t tail = self->_tail;
      if (diff(tail, head + index_inc) <= 0) {
        catchup(self, tail, head + index_inc);
        self->_threshold -= 1;
        return false;
      }
      if (self->_threshold-- <= 0) return false;
    }
  }
}
/* ---------------- representation invariant as a *builder*: abstract (H, count, vals, junk) -> concrete ---------------- */
#define LOGN (CAP==1?1:CAP==2?2:CAP==4?3:CAP==8?4:5)
#define MASK (2*N-1)
uint64_t nondet_u64(void); _Bool nondet_bool(void); int64_t nondet_i64(void);
struct abs { index_t H; unsigned count; uint64_t vals[CAP]; };
static void build(struct scq* q, const struct abs* a){
  q->_head = a->H << 1; q->_tail = (a->H + a->count) << 1;
  for (unsigned d = 0; d < N; d++) {           /* the N consecutive positions starting at H cover every slot once */
    index_t p = a->H + d; index_t pos2 = p << 1;
    index_t slot = remap_index(pos2, RS, N);
    index_t cyc = pos2 | MASK;                  /* cycle(p) with all low bits set */
    if (d < a->count) {
      _Bool safe = nondet_bool();
      q->_data[slot] = (cyc & ~(uint64_t)MASK) | (safe ? N : 0) | a->vals[d];
    } else {
      /* free slot: an older cycle (or the initial all-ones), bottom value, any safe bit */
      uint64_t oc = nondet_u64();               /* older entry_cycle, all low bits set */
      __CPROVER_assume((oc & MASK) == MASK);
      __CPROVER_assume(oc == (uint64_t)-1 || (diff(oc, cyc) < 0 && diff(cyc, oc) <= ((int64_t)1<<40)));
      _Bool safe = nondet_bool();
      q->_data[slot] = safe ? oc : (oc ^ N);
    }
  }
  if (a->count > 0) q->_threshold = 3*CAP-1; else { q->_threshold = nondet_i64(); __CPROVER_assume(q->_threshold >= -1 && q->_threshold <= 3*CAP-1); }
}
/* checker: concrete state represents abstract (H', count', vals') -- same shape as build but as a predicate */
static _Bool represents(const struct scq* q, const struct abs* a){
  if (q->_head != (a->H << 1)) return 0;
  if (q->_tail != ((a->H + a->count) << 1)) return 0;
  for (unsigned d = 0; d < N; d++) {
    index_t p = a->H + d; index_t pos2 = p << 1; index_t slot = remap_index(pos2, RS, N); index_t cyc = pos2 | MASK;
    uint64_t e = q->_data[slot];
    if (d < a->count) { if ((e | MASK) != cyc) return 0; if ((e & (N-1)) != a->vals[d]) return 0; }
    else { uint64_t ec = e | MASK; if ((e & (N-1)) != N-1) return 0; if (!(ec == (uint64_t)-1 || diff(ec, cyc) < 0)) return 0; }
  }
  if (a->count > 0 ? q->_threshold != 3*CAP-1 : !(q->_threshold >= -1 && q->_threshold <= 3*CAP-1)) return 0;
  return 1;
}
void h_enq(void){
  struct abs a; struct scq q; a.H = nondet_u64(); __CPROVER_assume(a.H < ((uint64_t)1<<61)); a.count = nondet_u64() % (CAP+1);
  for (unsigned i=0;i<CAP;i++){ a.vals[i]=nondet_u64(); __CPROVER_assume(a.vals[i]<CAP); }
  __CPROVER_assume(a.count < CAP);   /* an index is enqueued only while it is outside the ring: at most CAP-1 inside */
  build(&q,&a);
  uint64_t v = nondet_u64(); __CPROVER_assume(v < CAP);
  bool ok = enqueue(&q, v, CAP, RS);
  __CPROVER_assert(ok, "scq.enqueue.succeeds");
  struct abs b = a; b.vals[b.count] = v; b.count++;
  __CPROVER_assert(represents(&q,&b), "scq.enqueue.appends (Inv preserved, abstract queue = old ++ [v])");
  __CPROVER_assert(0, "canary enq reachable");
}
void h_deq(void){
  struct abs a; struct scq q; a.H = nondet_u64(); __CPROVER_assume(a.H < ((uint64_t)1<<61)); a.count = nondet_u64() % (CAP+1);
  for (unsigned i=0;i<CAP;i++){ a.vals[i]=nondet_u64(); __CPROVER_assume(a.vals[i]<CAP); }
  build(&q,&a);
  uint64_t v; bool ok = dequeue(&q, &v, CAP, RS);
  __CPROVER_assert(ok == (a.count > 0), "scq.dequeue.empty_iff");
  if (ok) { __CPROVER_assert(v == a.vals[0], "scq.dequeue.takes_first");
    struct abs b; b.H = a.H+1; b.count = a.count-1; for (unsigned i=0;i+1<CAP;i++) b.vals[i]=a.vals[i+1];
    /* after removing the last element threshold stays 3cap-1: allowed by Inv for count==0 */
    __CPROVER_assert(represents(&q,&b), "scq.dequeue Inv preserved, abstract queue = tail(old)"); }
  else { /* empty: either nothing moved (threshold<0) or head==tail advanced by one */
    struct abs b0 = a; struct abs b1 = a; b1.H = a.H+1;
    __CPROVER_assert(represents(&q,&b0) || represents(&q,&b1), "scq.dequeue on empty keeps Inv (H=T)"); }
  __CPROVER_assert(!ok, "canary deq success reachable"); __CPROVER_assert(ok, "canary deq empty reachable");
}
