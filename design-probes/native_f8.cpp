#include <xenium/ramalhete_queue.hpp>
#include <xenium/reclamation/generic_epoch_based.hpp>
#include <cstdio>
#include <memory>
static int dtors[8];
struct E { int id; ~E(){ dtors[id]++; } };
int main(){
  using Q = xenium::ramalhete_queue<std::unique_ptr<E>, xenium::policy::reclaimer<xenium::reclamation::epoch_based<>>, xenium::policy::entries_per_node<2>>;
  auto* e0 = new E{0}; auto* e1 = new E{1};
  auto* n = new Q::node(e0);             // entries[0]=e0, push_idx=11
  n->entries[1].value.store(e1);  n->push_idx.store(22);   // node full
  // state reachable by: 2 producers hit the full node (push_idx += 22), both items consumed, 1 consumer hit drained node (pop_idx = 22+11)
  { std::unique_ptr<E> c0(e0), c1(e1); }   // consumers own and destroy them
  n->push_idx.store(22+22); n->pop_idx.store(22+11);
  delete n;
  printf("dtor counts: e0=%d e1=%d\n", dtors[0], dtors[1]);
}
