from lower import *
import sys
F='/repo/xenium/reclamation/impl/hazard_pointer.hpp'
h,b=extract(F, r'void hazard_pointer<Traits>::guard_ptr<T, MarkedPtr>::acquire\(const concurrent_ptr<T>& p, std::memory_order order\)\s*\{')
s,f=lower(b,{'get':'M_get','set_object':'hp_set_object','alloc_hazard_pointer':'td_alloc_hazard_pointer'},members=['hp'],
  subst=[(r'local_thread_data\.alloc_hazard_pointer\(\)','td_alloc_hazard_pointer()'),(r'\breset\(\);','guard_reset(self);'),
         (r'\bp\.load\(','CP_LOAD(p, ')])
print('void guard_acquire(struct guard* self, struct cptr* p, int order)\nCONTRACT_guard_acquire\n'+s)
print(f,file=sys.stderr)
h,b=extract(F, r'bool hazard_pointer<Traits>::guard_ptr<T, MarkedPtr>::acquire_if_equal\(const concurrent_ptr<T>& p,\s*const MarkedPtr& expected,\s*std::memory_order order\)\s*\{')
s,f=lower(b,{'get':'M_get','set_object':'hp_set_object'},members=['hp'],
  subst=[(r'local_thread_data\.alloc_hazard_pointer\(\)','td_alloc_hazard_pointer()'),(r'\breset\(\);','guard_reset(self);'),
         (r'\bp\.load\(','CP_LOAD(p, ')])
print('_Bool guard_acquire_if_equal(struct guard* self, struct cptr* p, mptr expected, int order)\nCONTRACT_guard_acquire_if_equal\n'+s)
print(f,file=sys.stderr)
