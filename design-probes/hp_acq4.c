#include <stdint.h>
#include <stddef.h>
#include <stdbool.h>
enum { mo_relaxed, mo_consume, mo_acquire, mo_release, mo_acq_rel, mo_seq_cst };
typedef uintptr_t mptr;
#define MARK_BITS 1
#define M_get(x) ((x) & ~(uintptr_t)1 & 0x0000FFFFFFFFFFFFul)   /* stand-in for the separately proved marked_ptr::get */
struct cptr { mptr _ptr; };
struct hp_slot { uintptr_t value; };
struct guard { mptr ptr; struct hp_slot* hp; };
/* ---------------- ghost / environment model ---------------- */
_Bool g_interference; unsigned g_clock;
unsigned g_pub_time; uintptr_t g_pub_obj; _Bool g_pub_fenced; struct hp_slot* g_pub_slot;
unsigned g_load_time; mptr g_load_val;
_Bool g_threw; _Bool g_slots_available;
struct hp_slot the_slot; struct guard G; struct cptr P;
mptr nondet_mptr(void);
static mptr CP_LOAD(struct cptr* p, int mo){
  if (g_interference) p->_ptr = nondet_mptr();          /* rely: other threads may store anything into p */
  g_clock++; g_load_time = g_clock; g_load_val = p->_ptr; return p->_ptr; }
static void hp_set_object_(struct hp_slot* s, uintptr_t obj){   /* contract of hazard_pointer::set_object (proved in its own unit) */
  s->value = obj; g_clock++; g_pub_time = g_clock; g_pub_obj = obj; g_pub_slot = s; g_pub_fenced = 1; }
#define hp_set_object(recv,obj) hp_set_object_(&(recv),obj)
static struct hp_slot* td_alloc_hazard_pointer(void){ if (!g_slots_available) { g_threw = 1; return 0; } g_slots_available = 0; the_slot.value = 1; return &the_slot; }
static void guard_reset(struct guard* self){ if (self->hp) { self->hp->value = 1 /*link*/; g_slots_available = 1; self->hp = 0; } self->ptr = 0; }
#define THROWS_CHECK if (g_threw) return
/* ---------------- contracts ---------------- */
#define GUARD_INV(g) ( ((g)->hp == 0 || (g)->hp == &the_slot) && (M_get((g)->ptr) != 0 ==> ((g)->hp != 0 && (g)->hp->value == M_get((g)->ptr))) )
#define CONTRACT_guard_acquire \
 __CPROVER_requires(self == &G && p == &P && g_clock < 1000000 && GUARD_INV(self) && !g_threw && (self->hp != 0 ==> !g_slots_available)) \
 __CPROVER_assigns(G.ptr, G.hp, P._ptr, g_clock, g_pub_time, g_pub_obj, g_pub_fenced, g_pub_slot, g_load_time, g_load_val, g_threw, g_slots_available, the_slot.value) \
 __CPROVER_ensures(g_threw || GUARD_INV(self)) \
 __CPROVER_ensures(g_threw || self->ptr == g_load_val)                              /* snapshot: the result is a value the source held during the call */ \
 __CPROVER_ensures(g_threw || M_get(self->ptr) == 0 || self->ptr == __CPROVER_old(self->ptr) || \
     (g_pub_slot == self->hp && g_pub_obj == M_get(self->ptr) && g_pub_fenced && g_pub_time < g_load_time))  /* validated after publication */
#define CONTRACT_guard_acquire_if_equal \
 __CPROVER_requires(self == &G && p == &P && g_clock < 1000000 && GUARD_INV(self) && !g_threw && (self->hp != 0 ==> !g_slots_available)) \
 __CPROVER_assigns(G.ptr, G.hp, P._ptr, g_clock, g_pub_time, g_pub_obj, g_pub_fenced, g_pub_slot, g_load_time, g_load_val, g_threw, g_slots_available, the_slot.value) \
 __CPROVER_ensures(g_threw || GUARD_INV(self)) \
 __CPROVER_ensures(g_threw || (__CPROVER_return_value ==> (self->ptr == expected && g_load_val == expected))) \
 __CPROVER_ensures(g_threw || (!__CPROVER_return_value ==> (self->ptr == 0 && self->hp == 0))) \
 __CPROVER_ensures(g_threw || !__CPROVER_return_value || M_get(self->ptr) == 0 || \
     (g_pub_slot == self->hp && g_pub_obj == M_get(self->ptr) && g_pub_fenced && g_pub_time < g_load_time))
#define LOOPINV0 LOOPINV
#define LOOPINV (g_clock < 2000000000 && !g_threw && p2 == g_load_val && (p2 != 0 ==> (self->hp == &the_slot && !g_slots_available)) && (self->hp == 0 || self->hp == &the_slot) && (self->hp != 0 ==> !g_slots_available))
#undef CONTRACT_guard_acquire
#define CONTRACT_guard_acquire
#undef CONTRACT_guard_acquire_if_equal
#define CONTRACT_guard_acquire_if_equal
#include "hp_lowered4.inc"
void h_acquire(void){ int order; struct guard* self=&G; struct cptr* p=&P;
  { _Bool b_; g_interference=b_; } g_clock=nondet_mptr(); G.ptr=nondet_mptr(); { _Bool b_; G.hp = b_? &the_slot : 0; } P._ptr=nondet_mptr(); { _Bool b_; g_slots_available=b_; } the_slot.value=nondet_mptr(); g_pub_time=nondet_mptr(); g_pub_obj=nondet_mptr(); g_load_time=nondet_mptr(); g_load_val=nondet_mptr();
  __CPROVER_assume(g_clock < 1000000 && GUARD_INV(self) && !g_threw && (self->hp != 0 ==> !g_slots_available));
  mptr old_ptr = G.ptr;
  guard_acquire(&G,&P,order);
  __CPROVER_assert(g_threw || GUARD_INV(self), "post: guard invariant");
  __CPROVER_assert(g_threw || self->ptr == g_load_val, "post: snapshot");
  __CPROVER_assert(g_threw || M_get(self->ptr) == 0 || self->ptr == old_ptr || (g_pub_slot == self->hp && g_pub_obj == M_get(self->ptr) && g_pub_fenced && g_pub_time < g_load_time), "post: validated after publication"); __CPROVER_assert(!(M_get(self->ptr)!=0 && self->ptr != old_ptr && !g_threw), "canary: protected new pointer path reachable");
}
void h_aie(void){ struct guard g; struct cptr p; mptr e; int order; guard_acquire_if_equal(&g,&p,e,order); }
