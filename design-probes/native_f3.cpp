#include <xenium/ramalhete_queue.hpp>
#include <xenium/reclamation/generic_epoch_based.hpp>
#include <cstdio>
int main(){
  xenium::ramalhete_queue<int*, xenium::policy::reclaimer<xenium::reclamation::epoch_based<>>, xenium::policy::entries_per_node<11>> q;
  int v[8]; for(int i=0;i<8;i++){v[i]=i; q.push(&v[i]);}
  int* r; int n=0; while(q.try_pop(r) && n<20){ printf("%d ", *r); n++; } puts("");
}
