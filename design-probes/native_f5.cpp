#include <xenium/kirsch_bounded_kfifo_queue.hpp>
#include <cstdio>
#include <vector>
int main(int argc,char**argv){
  unsigned long segs = 65537+3;
  xenium::kirsch_bounded_kfifo_queue<int*> q(1, segs);
  std::vector<int> v(segs+10);
  unsigned long n=0;
  for (; n<segs-1; n++) { v[n]=n; if(!q.try_push(&v[n])) { printf("push %lu rejected early\n", n); break; } if (n%10000==0) {printf("pushed %lu\n", n); fflush(stdout);} }
  printf("pushed %lu of capacity >= %lu\n", n, (segs-1)*1+0); fflush(stdout);
  int* r; unsigned long expect=0, bad=0; while(q.try_pop(r)) { if((unsigned long)*r!=expect) {bad++; if (bad<5) printf("pop got %d expected %lu\n", *r, expect);} expect++; }
  printf("popped %lu bad=%lu\n", expect, bad);
}
