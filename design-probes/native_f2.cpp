#include <xenium/vyukov_hash_map.hpp>
#include <xenium/reclamation/generic_epoch_based.hpp>
#include <cstdio>
struct idhash { std::size_t operator()(std::uint64_t k) const { return k; } };
int main(){
  using M = xenium::vyukov_hash_map<std::uint64_t, std::uint64_t, xenium::policy::reclaimer<xenium::reclamation::epoch_based<>>, xenium::policy::hash<idhash>>;
  M m(256);
  // keys colliding in bucket 0: multiples of 256
  for (std::uint64_t i=1;i<=5;i++) m.emplace(i*256, i);
  { auto it = m.find(5*256); if (it==m.end()) { puts("not found"); return 2; }
    printf("found %lu\n", (unsigned long)(*it).first);
    m.erase(it); puts("erased"); }
  M::accessor v; printf("contains 1280: %d\n", (int)m.try_get_value(5*256, v));
  return 0;
}
