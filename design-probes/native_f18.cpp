#include <xenium/nikolaev_queue.hpp>
#include <xenium/ramalhete_queue.hpp>
#include <xenium/michael_scott_queue.hpp>
#include <xenium/kirsch_kfifo_queue.hpp>
#include <xenium/kirsch_bounded_kfifo_queue.hpp>
#include <xenium/reclamation/generic_epoch_based.hpp>
#include <xenium/reclamation/hazard_pointer.hpp>
#include <cstdio>
#include <deque>
#include <random>
#include <memory>
#include <algorithm>
using R = xenium::reclamation::epoch_based<>;
template <class Q, class Push, class Pop> int fifo(const char* name, Q& q, Push push, Pop pop, int steps, unsigned seed, unsigned maxsize=~0u){
  std::deque<int> ref; std::mt19937 rng(seed); int next=1; 
  for (int s=0;s<steps;s++){
    bool dopush = (rng()%100) < (ref.size()<8 ? 60 : 45);
    if (dopush) { if (push(next)) ref.push_back(next); else if (ref.size()<maxsize) { printf("%s: push rejected at size %zu\n", name, ref.size()); return 1; } next++; }
    else { int v=-1; bool ok=pop(v); if (ok != !ref.empty()) { printf("%s: pop ok=%d but ref size %zu (step %d)\n", name, ok, ref.size(), s); return 1; }
      if (ok) { if (v!=ref.front()) { printf("%s: FIFO violated got %d expected %d (step %d)\n", name, v, ref.front(), s); return 1; } ref.pop_front(); } }
  }
  int v; while (!ref.empty()) { if(!pop(v) || v!=ref.front()) { printf("%s: drain mismatch\n", name); return 1;} ref.pop_front(); }
  if (pop(v)) { printf("%s: extra element\n", name); return 1; }
  printf("%s ok\n", name); return 0;
}
template <unsigned E> int nik(){ xenium::nikolaev_queue<int, xenium::policy::reclaimer<R>, xenium::policy::entries_per_node<E>> q;
  char n[64]; sprintf(n,"nikolaev_queue<E=%u>",E); return fifo(n,q,[&](int v){q.push(v);return true;},[&](int& v){return q.try_pop(v);},200000,E); }
template <unsigned E> int ram(){ xenium::ramalhete_queue<int*, xenium::policy::reclaimer<R>, xenium::policy::entries_per_node<E>> q; static int vals[400000]; 
  char n[64]; sprintf(n,"ramalhete_queue<E=%u>",E); return fifo(n,q,[&](int v){vals[v]=v; q.push(&vals[v]);return true;},[&](int& v){int* p; if(!q.try_pop(p)) return false; v=*p; return true;},200000,E); }
int msq(){ xenium::michael_scott_queue<int, xenium::policy::reclaimer<R>> q; return fifo("michael_scott",q,[&](int v){q.push(v);return true;},[&](int& v){return q.try_pop(v);},200000,1); }
// k-fifo: check each pop is among the k oldest and empty only if <k... (sequential: exactly when empty)
template <class Q, class Push> int kf(const char* name, Q& q, Push push, unsigned k, int steps, unsigned seed, unsigned cap){
  std::deque<int> ref; std::mt19937 rng(seed); int next=1; static int vals[400000];
  for (int s=0;s<steps;s++){
    if (rng()%2) { vals[next]=next; bool ok=push(&vals[next]); if (ok) ref.push_back(next); else if (ref.size() < cap) { printf("%s: push rejected at size %zu < %u\n", name, ref.size(), cap); return 1;} next++; }
    else { int* p; bool ok=q.try_pop(p); if (ok != !ref.empty()) { printf("%s: pop ok=%d ref size %zu step %d\n", name, ok, ref.size(), s); return 1; }
      if (ok) { auto it=std::find(ref.begin(), ref.end(), *p); if (it==ref.end()) { printf("%s: unknown element\n", name); return 1;} if ((unsigned)(it-ref.begin())>=k) { printf("%s: popped %zu-th oldest with k=%u\n", name, (size_t)(it-ref.begin())+1, k); return 1;} ref.erase(it);} }
  }
  printf("%s ok\n", name); return 0;
}
int main(){
  int bad=0;
  bad|=nik<1>(); bad|=nik<2>(); bad|=nik<4>(); bad|=nik<8>(); bad|=nik<16>();
  bad|=ram<1>(); bad|=ram<2>(); bad|=ram<3>(); bad|=ram<7>(); bad|=ram<12>(); bad|=ram<512>();
  bad|=msq();
  for (unsigned k : {1u,2u,3u,5u}) { xenium::kirsch_kfifo_queue<int*, xenium::policy::reclaimer<R>> q(k); char n[64]; sprintf(n,"kirsch_kfifo k=%u",k); bad|=kf(n,q,[&](int* p){q.push(p);return true;},k,200000,k,~0u); }
  for (unsigned k : {1u,2u,3u}) for (unsigned s : {1u,2u,3u,5u}) { xenium::kirsch_bounded_kfifo_queue<int*> q(k,s); char n[64]; sprintf(n,"kirsch_bounded k=%u segs=%u",k,s); bad|=kf(n,q,[&](int* p){return q.try_push(p);},k,200000,k*7+s,(s-1)*k+1); }
  return bad;
}
