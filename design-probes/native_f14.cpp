#include <xenium/vyukov_hash_map.hpp>
#include <xenium/reclamation/generic_epoch_based.hpp>
#include <cstdio>
#include <string>
struct samehash { std::size_t operator()(const std::string&) const { return 7; } };
static int dtors=0;
struct V { int x=0; V()=default; V(int x):x(x){} V(V&& o) noexcept : x(o.x){ o.x=-1; } V(const V&)=default; V& operator=(const V&)=default; ~V(){ if (x>=0) { dtors++; printf("  ~V(%d)\n", x);} } };
int main(){
  using R = xenium::reclamation::epoch_based<>;
  using M = xenium::vyukov_hash_map<std::string, V, xenium::policy::reclaimer<R>, xenium::policy::hash<samehash>>;
  M m(8);
  m.emplace("foo", V(1));
  puts("erase non-existing key \"bar\" (same hash as \"foo\")");
  bool r = m.erase("bar");
  printf("erase(bar)=%d\n", r);
  for (int i=0;i<2000;i++){ M::accessor a; m.try_get_value("zzz", a); }
  printf("dtors so far=%d (foo must still be alive: it is in the map)\n", dtors);
  M::accessor acc; bool f = m.try_get_value("foo", acc);
  printf("try_get_value(foo)=%d\n", f);
}
