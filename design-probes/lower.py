import re,sys
def strip_comments(s):
    out=[];i=0;n=len(s)
    while i<n:
        if s.startswith('//',i):
            j=s.find('\n',i); j=n if j<0 else j; i=j
        elif s.startswith('/*',i):
            j=s.find('*/',i); i=j+2
        elif s[i]=='"':
            j=i+1
            while s[j]!='"':
                if s[j]=='\\': j+=1
                j+=1
            out.append(s[i:j+1]); i=j+1
        else:
            out.append(s[i]); i+=1
    return ''.join(out)
def extract(path, sig_re):
    src=strip_comments(open(path).read())
    m=re.search(sig_re, src, re.S)
    if not m: raise SystemExit("EXTRACT-FAIL "+sig_re)
    i=src.find('{', m.end()-1)
    depth=0;j=i
    while True:
        c=src[j]
        if c=='{': depth+=1
        elif c=='}':
            depth-=1
            if depth==0: break
        j+=1
    return src[m.start():i], src[i:j+1]
TOK=re.compile(r'\s+|[A-Za-z_]\w*|0[xX][0-9a-fA-F]+[uUlL]*|\d+[uUlL]*|"(?:\\.|[^"\\])*"|::|->|\+\+|--|<<=|>>=|<<|>>|<=|>=|==|!=|&&|\|\||[-+*/%&|^]=|.')
def toks(s): return [t for t in TOK.findall(s)]
def match_paren(t,i,op='(',cl=')'):
    d=0
    while True:
        if t[i]==op: d+=1
        elif t[i]==cl:
            d-=1
            if d==0: return i
        i+=1
def prev_nonspace(t,i):
    i-=1
    while i>=0 and t[i].isspace(): i-=1
    return i
def next_nonspace(t,i):
    i+=1
    while i<len(t) and t[i].isspace(): i+=1
    return i
def recv_start(t,i):
    """t[i] is '.' or '->' ; walk back over postfix chain, return start index"""
    j=prev_nonspace(t,i)
    while True:
        if t[j] in (')',']'):
            op={')':'(',']':'['}[t[j]]; d=0
            while True:
                if t[j] in (')',']'): d+=1
                elif t[j] in ('(','['): 
                    d-=1
                    if d==0: break
                j-=1
            k=prev_nonspace(t,j)
            if k>=0 and (re.match(r'[A-Za-z_]\w*$',t[k]) or t[k] in (')',']')):
                j=k; continue
            return j
        elif re.match(r'[A-Za-z_]\w*$',t[j]):
            k=prev_nonspace(t,j)
            if k>=0 and t[k] in ('.','->','::'):
                j=prev_nonspace(t,k); continue
            return j
        else:
            return next_nonspace(t,j)
def split_args(t,i,j):
    """tokens between parens i..j exclusive -> list of arg strings"""
    args=[];cur=[];d=0
    for k in range(i+1,j):
        x=t[k]
        if x in '([{': d+=1
        if x in ')]}': d-=1
        if x==',' and d==0: args.append(''.join(cur).strip()); cur=[]
        else: cur.append(x)
    s=''.join(cur).strip()
    if s or args: args.append(s)
    return args
ATOMIC={'load':'A_LOAD','store':'A_STORE','exchange':'A_XCHG','fetch_add':'A_FADD','fetch_sub':'A_FSUB','fetch_or':'A_FOR',
        'compare_exchange_strong':'A_CAS','compare_exchange_weak':'A_CASW'}
def rewrite_methods(s, table, fired):
    changed=True
    while changed:
        changed=False
        t=toks(s)
        for i,x in enumerate(t):
            if x in ('.','->'):
                k=next_nonspace(t,i)
                if k<len(t) and t[k] in table:
                    p=next_nonspace(t,k)
                    if p<len(t) and t[p]=='(':
                        q=match_paren(t,p)
                        st=recv_start(t,i)
                        recv=''.join(t[st:i]).strip()
                        if x=='->': recv='(*'+recv+')'
                        args=split_args(t,p,q)
                        name=table[t[k]]
                        if name in ('A_CAS','A_CASW'): args[0]='&('+args[0]+')'
                        new=name+'('+', '.join([recv]+args)+')'
                        s=''.join(t[:st])+new+''.join(t[q+1:])
                        fired[t[k]]=fired.get(t[k],0)+1
                        changed=True;break
    return s
def casts(s,fired):
    pat=re.compile(r'\b(static_cast|reinterpret_cast|const_cast)\s*<')
    while True:
        m=pat.search(s)
        if not m: return s
        i=m.end()-1;d=0;j=i
        while True:
            if s[j]=='<': d+=1
            elif s[j]=='>':
                d-=1
                if d==0: break
            j+=1
        ty=s[i+1:j]
        k=s.index('(',j); d=0;e=k
        while True:
            if s[e]=='(': d+=1
            elif s[e]==')':
                d-=1
                if d==0: break
            e+=1
        s=s[:m.start()]+'(('+ty+')('+s[k+1:e]+'))'+s[e+1:]
        fired['cast']=fired.get('cast',0)+1
def lower(body, methods, members=(), subst=()):
    fired={}
    s=body
    s=casts(s,fired)
    s=re.sub(r'std::memory_order_(\w+)', r'mo_\1', s)
    s=re.sub(r'\bif\s+constexpr\b','if',s)
    s=re.sub(r'\bnullptr\b','0',s)
    for a,b in subst: s=re.sub(a,b,s)
    tbl=dict(ATOMIC); tbl.update(methods)
    s=rewrite_methods(s,tbl,fired)
    # references: auto& x = e;  -> pointer + macro
    refs=[]
    def refrepl(m):
        refs.append(m.group(1)); return '__auto_type %s_p = &(%s);\n#define %s (*%s_p)\n'%(m.group(1),m.group(2),m.group(1),m.group(1))
    s=re.sub(r'\bauto\s*&\s*(\w+)\s*=\s*([^;]+);', refrepl, s)
    s=re.sub(r'\b(const\s+)?auto\s*\*?\s*(?=\w+\s*=)', '__auto_type ', s)
    for mname in members:
        s=re.sub(r'(?<![\w.>])%s\b'%mname, 'self->'+mname, s)
    s=s.replace('this->','self->')
    if refs: s=s[:s.rstrip().rfind('}')]+''.join('#undef %s\n'%r for r in refs)+'}'
    return s,fired
if __name__=='__main__':
    pass
