#include <xenium/reclamation/hazard_eras.hpp>
#include <cstdio>
using R = xenium::reclamation::hazard_eras<>::with<xenium::policy::allocation_strategy<xenium::reclamation::he_allocation::static_strategy<1>>>;
struct N : R::enable_concurrent_ptr<N,0> { int x=0; };
int main(){
  using cp = R::concurrent_ptr<N,0>; using gp = cp::guard_ptr; using mp = cp::marked_ptr;
  cp a(new N), b(new N);
  gp g1; g1.acquire(a); 
  { gp g2(g1);
    printf("slot guards after copy: %lu\n", (unsigned long)g1.he->guards());
    { cp c(new N); gp t; t.acquire(c); c.store(nullptr); t.reclaim(); }   // advances the era clock
    mp exp = b.load();
    try { bool ok = g2.acquire_if_equal(b, exp); printf("acquire_if_equal=%d\n", ok); } catch (const std::exception& e) { printf("threw: %s\n", e.what()); }
    printf("slot guards after throw: %lu (g1 and g2 both still reference it: g2.he==g1.he %d)\n", (unsigned long)g1.he->guards(), g2.he==g1.he);
  } // g2 destroyed
  printf("after g2 destroyed: g1.get()=%p, its slot is_link=%d (1 = slot was returned to the free list => g1 unprotected)\n", (void*)g1.get(), (int)g1.he->is_link());
  g1.he = nullptr; g1.ptr.reset(); // avoid double release in this demo
}
