#include <xenium/seqlock.hpp>
#include <cstdio>
#include <cstring>
struct __attribute__((packed)) T12 { char c[12]; };
int main(){
  T12 a; memset(&a, 0x11, sizeof a);
  xenium::seqlock<T12> s(a);
  T12 b; memset(&b, 0x77, sizeof b); s.store(b);
  T12 r = s.load();
  for (unsigned i=0;i<sizeof r;i++) printf("%02x ", (unsigned char)r.c[i]); puts("");
  return memcmp(&r,&b,sizeof r)!=0;
}
