#include <stdint.h>
#include <stddef.h>
#include <stdbool.h>
#include <stdlib.h>
#ifndef L
#define L 3
#endif
typedef uintptr_t mptr;                 /* marked_ptr<node,1>: low... use bit 0 of an aligned pointer as stand-in for the proved marked_ptr algebra */
#define MP(p,m) ((mptr)(p) | (mptr)(m))
#define M_get(x) ((struct node*)((x) & ~(mptr)1))
#define M_mark(x) ((x) & 1)
struct cptr { mptr _ptr; };
struct node { int key; struct cptr next; _Bool retired; _Bool in_pool; };
struct guard { mptr ptr; };             /* epoch-style guard: contract-level model (per-reclaimer guard units prove this contract) */
struct find_info { struct cptr* prev; mptr next; struct guard cur; struct guard save; };
struct set { struct cptr head; };
/* guard contracts (sequential mode) */
static void guard_copy_ctor(struct guard* g, const struct guard* o){ g->ptr=o->ptr; }
static void guard_copy_assign(struct guard* g, const struct guard* o){ g->ptr=o->ptr; }
static void guard_reset(struct guard* g){ g->ptr=0; }
static void guard_dtor(struct guard* g){ g->ptr=0; }
static void guard_swap(struct guard* a, struct guard* b){ mptr t=a->ptr; a->ptr=b->ptr; b->ptr=t; }
static bool guard_acquire_if_equal(struct guard* g, struct cptr* p, mptr expected, int mo){ if (p->_ptr==expected){ g->ptr=expected; return true;} g->ptr=0; return false; }
static void guard_reclaim(struct guard* g){ struct node* n=M_get(g->ptr); __CPROVER_assert(n && !n->retired, "retire once"); n->retired=1; g->ptr=0; }
#define A_LOAD(x,mo) (x)
static bool A_CASW(mptr* obj, mptr* exp, mptr des, int s, int f){ if(*obj==*exp){*obj=des;return true;} *exp=*obj; return false; }
static bool find(struct set* self, const int* key, struct find_info* info)
{
  struct cptr* start = info->prev;
  struct guard start_guard; guard_copy_ctor(&start_guard, &info->save);
retry:
  info->prev = start;
  guard_copy_assign(&info->save, &start_guard);
  info->next = A_LOAD(info->prev->_ptr, 0);
  if (M_mark(info->next) != 0) {
    start = &self->head;
    guard_reset(&start_guard);
    goto retry;
  }
  for (;;) {
    if (!guard_acquire_if_equal(&info->cur, info->prev, info->next, 2)) {
      goto retry;
    }
    if (!(info->cur.ptr != 0)) {
      guard_dtor(&start_guard); return false;
    }
    info->next = A_LOAD(M_get(info->cur.ptr)->next._ptr, 0);
    if (M_mark(info->next) != 0) {
      info->next = MP(M_get(A_LOAD(M_get(info->cur.ptr)->next._ptr, 2)),0);
      mptr expected = MP(M_get(info->cur.ptr),0);
      if (!A_CASW(&info->prev->_ptr, &expected, info->next, 3, 0)) {
        goto retry;
      }
      guard_reclaim(&info->cur);
    } else {
      if (A_LOAD(info->prev->_ptr, 0) != MP(M_get(info->cur.ptr),0)) {
        goto retry;
      }
      const int* ckey = &M_get(info->cur.ptr)->key;
      if (!(*ckey < *key)) {
        guard_dtor(&start_guard); return !(*key < *ckey);
      }
      info->prev = &M_get(info->cur.ptr)->next;
      guard_swap(&info->save, &info->cur);
    }
  }
}
/* ---------- harness: arbitrary well-formed list of exactly n<=L nodes, strictly sorted, arbitrary delete marks (Inv_mid) ---------- */
struct node pool[L]; _Bool nondet_bool(void); int nondet_int(void); unsigned nondet_uint(void);
void h_find(void){
  struct set s; unsigned n = nondet_uint(); __CPROVER_assume(n<=L);
  _Bool marked[L];
  for (unsigned i=0;i<L;i++){ pool[i].key=nondet_int(); pool[i].retired=0; marked[i]=nondet_bool(); }
  for (unsigned i=0;i+1<L;i++) __CPROVER_assume(i+1>=n || pool[i].key < pool[i+1].key);
  s.head._ptr = n? MP(&pool[0],0):0;
  for (unsigned i=0;i<L;i++) if (i<n) pool[i].next._ptr = MP((i+1<n)? &pool[i+1]:0, marked[i]);
  int key = nondet_int();
  /* abstract view: live keys = unmarked nodes */
  _Bool present=0; for (unsigned i=0;i<L;i++) if (i<n && !marked[i] && pool[i].key==key) present=1;
  struct find_info info; info.prev=&s.head; info.next=0; info.cur.ptr=0; info.save.ptr=0;
  bool r = find(&s,&key,&info);
  __CPROVER_assert(r==present, "C08.find: returns true iff key is live in the set");
  /* post: all marked nodes with key < search position are unlinked+retired exactly once; live nodes untouched */
  for (unsigned i=0;i<L;i++) if (i<n) {
    __CPROVER_assert(!(pool[i].retired && !marked[i]), "C01/C02: only logically deleted nodes are retired");
  }
  if (r) __CPROVER_assert(M_get(info.cur.ptr)->key==key && !M_mark(M_get(info.cur.ptr)->next._ptr), "C08.find: cur is the live node with that key");
  __CPROVER_assert(!r || *(&info.prev->_ptr)==MP(M_get(info.cur.ptr),0), "prev links to cur");
}
