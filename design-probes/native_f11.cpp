#include <xenium/chase_work_stealing_deque.hpp>
#include <cstdio>
int main(){
  xenium::chase_work_stealing_deque<int, xenium::policy::capacity<4>> d;
  int v[32]; for (int i=0;i<32;i++) v[i]=i; int next=0; int* r;
  for (int i=0;i<4;i++){ d.try_push(&v[next++]); (void)d.try_steal(r); }   // top=bottom=4
  for (int i=0;i<4;i++) d.try_push(&v[next++]);                 // items 4..7 at indices 4..7, deque full
  xenium::detail::xv_hook = [&]{ d.try_push(&v[next++]); };     // owner pushes item 8 (grows) while the thief sits between its two loads
  bool ok = d.try_steal(r);
  printf("steal ok=%d got %d (expected 4)\n", ok, *r);
  printf("rest:"); while (d.try_steal(r)) printf(" %d", *r); puts("");
}
