#include <xenium/harris_michael_hash_map.hpp>
#include <xenium/reclamation/generic_epoch_based.hpp>
#include <cstdio>
struct h1 { std::size_t operator()(int k) const { // adversarial: hash decreasing in key, same bucket
   return (std::size_t)(100 - k) * 8; } };
int main(){
  using M = xenium::harris_michael_hash_map<int,int, xenium::policy::reclaimer<xenium::reclamation::epoch_based<>>, xenium::policy::buckets<8>, xenium::policy::hash<h1>, xenium::policy::memoize_hash<true>>;
  M m; for (int k=1;k<=5;k++) m.emplace(k, k);
  printf("order:"); for (auto it=m.begin(); it!=m.end(); ++it) printf(" %d", it->first); puts("");
  auto it = m.begin(); int first = it->first; 
  m.erase(first);            // same thread, other handle: erase element under the iterator
  ++it;
  printf("after erase(%d) under iterator, remaining yielded:", first);
  for (; it!=m.end(); ++it) printf(" %d", it->first); puts("");
  printf("actual content:"); for (auto j=m.begin(); j!=m.end(); ++j) printf(" %d", j->first); puts("");
}
