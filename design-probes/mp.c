#include <stdint.h>
#include <stddef.h>
typedef uintptr_t T;
static uintptr_t MarkBits, MaxUpper;
#define pointer_bits (64 - MarkBits)
#define lower_mark_bits (MarkBits < MaxUpper ? 0 : MarkBits - MaxUpper)
#define pointer_mask ((((uintptr_t)1 << pointer_bits) - 1) << lower_mark_bits)
static uintptr_t rotl(uintptr_t C, uintptr_t v){ if(C==0) return v; return (v >> (64 - C)) | (v << C);}
static uintptr_t rotr(uintptr_t C, uintptr_t v){ if(C==0) return v; return (v >> C) | (v << (64 - C));}
uintptr_t make_ptr(uintptr_t p, uintptr_t mark)
__CPROVER_requires(MarkBits>=1 && MarkBits<=32 && MaxUpper<=32 && MaxUpper >= 0)
__CPROVER_requires((p & ~pointer_mask)==0)
__CPROVER_ensures( (__CPROVER_return_value & pointer_mask) == p )
__CPROVER_ensures( (rotr(lower_mark_bits, __CPROVER_return_value) >> pointer_bits) == (mark & (((uintptr_t)1<<MarkBits)-1)) )
__CPROVER_assigns()
{
  uintptr_t ip = p;
  mark = rotl(lower_mark_bits, mark << pointer_bits);
  return ip | mark;
}
void h(void){ uintptr_t p, m; make_ptr(p,m); }
