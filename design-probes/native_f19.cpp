#include <xenium/vyukov_hash_map.hpp>
#include <xenium/harris_michael_hash_map.hpp>
#include <xenium/harris_michael_list_based_set.hpp>
#include <xenium/reclamation/generic_epoch_based.hpp>
#include <cstdio>
#include <map>
#include <set>
#include <random>
using R = xenium::reclamation::epoch_based<>;
struct h_id { std::size_t operator()(std::uint64_t k) const { return k; } };
struct h_const { std::size_t operator()(std::uint64_t) const { return 5; } };
struct h_mod4 { std::size_t operator()(std::uint64_t k) const { return (k%4)*256; } };
template <class H> int vy(const char* name, std::size_t cap, unsigned keys, unsigned seed){
  using M = xenium::vyukov_hash_map<std::uint64_t, std::uint64_t, xenium::policy::reclaimer<R>, xenium::policy::hash<H>>;
  M m(cap); std::map<std::uint64_t,std::uint64_t> ref; std::mt19937 rng(seed);
  for (int s=0;s<300000;s++){
    std::uint64_t k = rng()%keys, v = rng(); int op = rng()%6;
    if (op==0) { bool r=m.emplace(k,v); bool e=ref.emplace(k,v).second; if(r!=e){printf("%s: emplace(%lu)=%d exp %d step %d\n",name,(unsigned long)k,r,e,s);return 1;} }
    else if (op==1) { bool r=m.erase(k); bool e=ref.erase(k)>0; if(r!=e){printf("%s: erase(%lu)=%d exp %d step %d\n",name,(unsigned long)k,r,e,s);return 1;} }
    else if (op==2) { typename M::accessor a; bool r=m.extract(k,a); auto it=ref.find(k); bool e=it!=ref.end(); if(r!=e || (r && *a!=it->second)){printf("%s: extract mismatch step %d\n",name,s);return 1;} if(e) ref.erase(it); }
    else if (op==3) { typename M::accessor a; bool r=m.try_get_value(k,a); auto it=ref.find(k); bool e=it!=ref.end(); if(r!=e || (r && *a!=it->second)){printf("%s: try_get_value(%lu)=%d exp %d step %d\n",name,(unsigned long)k,r,e,s);return 1;} }
    else if (op==4) { auto r=m.get_or_emplace(k,v); auto e=ref.emplace(k,v); if(r.second!=e.second || *r.first!=e.first->second){printf("%s: get_or_emplace mismatch step %d\n",name,s);return 1;} }
    else if (s%50==0) { std::map<std::uint64_t,std::uint64_t> seen; for (auto it=m.begin(); it!=m.end(); ++it) { auto kv=*it; if(!seen.emplace(kv.first,kv.second).second){printf("%s: iteration yields key twice\n",name);return 1;} } if (seen!=ref){printf("%s: iteration content mismatch (%zu vs %zu) step %d\n",name,seen.size(),ref.size(),s);return 1;} }
  }
  printf("%s ok (final size %zu)\n", name, ref.size()); return 0;
}
struct sh_dec { std::size_t operator()(int k) const { return (std::size_t)(1000-k)*8; } };
struct sh_const { std::size_t operator()(int) const { return 3; } };
template <class M> int hm(const char* name, unsigned keys, unsigned seed){
  M m; std::map<int,int> ref; std::mt19937 rng(seed);
  for (int s=0;s<200000;s++){
    int k=rng()%keys, v=rng()%1000; int op=rng()%6;
    if (op==0){ bool r=m.emplace(k,v); bool e=ref.emplace(k,v).second; if(r!=e){printf("%s: emplace mismatch step %d\n",name,s);return 1;} }
    else if (op==1){ bool r=m.erase(k); bool e=ref.erase(k)>0; if(r!=e){printf("%s: erase(%d)=%d exp %d step %d\n",name,k,r,e,s);return 1;} }
    else if (op==2){ bool r=m.contains(k); bool e=ref.count(k)>0; if(r!=e){printf("%s: contains(%d)=%d exp %d step %d\n",name,k,r,e,s);return 1;} }
    else if (op==3){ auto it=m.find(k); auto e=ref.find(k); if((it!=m.end())!=(e!=ref.end()) || (e!=ref.end() && it->second!=e->second)){printf("%s: find mismatch step %d\n",name,s);return 1;} if (it!=m.end() && rng()%2){ m.erase(it); ref.erase(e);} }
    else if (op==4){ auto r=m.get_or_emplace(k,v); auto e=ref.emplace(k,v); if(r.second!=e.second || r.first->second!=e.first->second){printf("%s: get_or_emplace mismatch step %d\n",name,s);return 1;} }
    else if (s%20==0){ std::map<int,int> seen; for(auto it=m.begin(); it!=m.end(); ++it){ if(!seen.emplace(it->first,it->second).second){printf("%s: iteration duplicate\n",name);return 1;} } if(seen!=ref){printf("%s: iteration mismatch (%zu vs %zu) step %d\n",name,seen.size(),ref.size(),s);return 1;} }
  }
  printf("%s ok\n",name); return 0;
}
int main(){
  int bad=0;
  bad|=vy<h_id>("vyukov id cap1",1,40,1);
  bad|=vy<h_id>("vyukov id cap256",256,2000,2);
  bad|=vy<h_mod4>("vyukov mod4 cap256 (extensions)",256,24,3);
  bad|=vy<h_const>("vyukov const cap256 (extensions)",256,12,4);
  bad|=vy<h_const>("vyukov const cap1",1,30,5);
  using namespace xenium; using namespace xenium::policy;
  bad|=hm<harris_michael_hash_map<int,int,reclaimer<R>,buckets<1>>>("hm_map b1",20,1);
  bad|=hm<harris_michael_hash_map<int,int,reclaimer<R>,buckets<8>>>("hm_map b8",50,2);
  bad|=hm<harris_michael_hash_map<int,int,reclaimer<R>,buckets<8>,memoize_hash<true>>>("hm_map b8 memo",50,3);
  bad|=hm<harris_michael_hash_map<int,int,reclaimer<R>,buckets<8>,memoize_hash<true>,xenium::policy::hash<sh_dec>>>("hm_map b8 memo decreasing-hash",50,4);
  bad|=hm<harris_michael_hash_map<int,int,reclaimer<R>,buckets<4>,memoize_hash<true>,xenium::policy::hash<sh_const>>>("hm_map b4 memo const-hash",30,5);
  bad|=hm<harris_michael_hash_map<int,int,reclaimer<R>,buckets<4>,memoize_hash<false>,xenium::policy::hash<sh_const>>>("hm_map b4 nomemo const-hash",30,6);
  return bad;
}
