#include <stdint.h>
#include <stddef.h>
#include <stdbool.h>
#define mo_relaxed 0
#define mo_release 3
#define assert(x) __CPROVER_assert(x, "xenium assert: " #x)
typedef uintptr_t entry;
struct gca { size_t _buckets; size_t _capacity; };
static unsigned find_last_bit_set(size_t val){ unsigned r=0; for(; val!=0; val>>=1) ++r; return r; }
/* ghost memory: two tracked cells */
size_t gA_b, gA_o, gB_b, gB_o; entry gA_v, gB_v; _Bool gB_written;
size_t g_cap; size_t GJ; entry GJV;
entry nondet_entry(void);
static entry CELL_LOAD(struct gca* self, size_t b, size_t o){
  __CPROVER_assert(b < self->_buckets, "bucket in range");
  __CPROVER_assert(o < (b==0?1:((size_t)1<<(b-1))), "offset in bucket");
  if (b==gA_b && o==gA_o) return gA_v;
  if (b==gB_b && o==gB_o) return gB_v;
  return nondet_entry();
}
static void CELL_STORE(struct gca* self, size_t b, size_t o, entry v){
  __CPROVER_assert(b < self->_buckets, "bucket in range");
  __CPROVER_assert(o < (b==0?1:((size_t)1<<(b-1))), "offset in bucket");
  if (b==gA_b && o==gA_o) gA_v = v;
  if (b==gB_b && o==gB_o) { gB_v = v; gB_written=1; }
}
#define gca_capacity(s) ((s)->_capacity)
#define can_grow() (self->_capacity < ((size_t)1<<31))
static void slot(size_t idx, size_t capacity, size_t* b, size_t* o){ /* get_entry mapping (separately proved equal to real get_entry) */
  idx = idx & (capacity-1); size_t bucket = find_last_bit_set(idx); idx ^= (1 << bucket) >> 1; *b=bucket; *o=idx; }
void grow(struct gca* self, size_t bottom, size_t top)
{
  assert(can_grow());
  __auto_type capacity = gca_capacity(self);
  __auto_type mod_mask = capacity - 1;
  assert((capacity & mod_mask) == 0);
  self->_buckets++;
  __auto_type new_capacity = capacity * 2;
  __auto_type new_mod_mask = new_capacity - 1;
  __auto_type start = top;
  __auto_type start_mod = top & mod_mask;
  if (start_mod == (top & new_mod_mask)) {
    start += capacity - start_mod;
  }
  for (size_t i = start; i < bottom; i++)
  __CPROVER_assigns(i, gA_v, gB_v, gB_written)
  __CPROVER_loop_invariant(start <= i && i <= bottom)
  __CPROVER_loop_invariant(gA_v == GJV)
  __CPROVER_loop_invariant((i > start) ==> ((i-1) & capacity) != 0)
  __CPROVER_loop_invariant(((GJ & capacity) != 0 && GJ >= start && GJ < i) ==> gB_v == GJV)
  __CPROVER_decreases(bottom - i)
  {
    __auto_type oldI = i & mod_mask;
    __auto_type newI = i NEWI_OP new_mod_mask;
    if (oldI != newI) {
      __auto_type oldBit = find_last_bit_set(oldI);
      __auto_type newBit = find_last_bit_set(newI);
      __auto_type v = CELL_LOAD(self, oldBit, oldI ^ ((1 << (oldBit)) >> 1));
      CELL_STORE(self, newBit, newI ^ ((1 << (newBit)) >> 1), v);
    } else {
      break;
    }
  }
  self->_capacity = new_capacity;
}
void h(void){
  struct gca g; size_t top, bottom; unsigned c;
  __CPROVER_assume(c>=1 && c<=30); g._capacity=(size_t)1<<c; g._buckets=c+1; g_cap=g._capacity;
  __CPROVER_assume(bottom - top == g._capacity && bottom >= top);
  __CPROVER_assume(GJ>=top && GJ<bottom);
  slot(GJ, g._capacity, &gA_b,&gA_o); slot(GJ, 2*g._capacity, &gB_b,&gB_o);
  gA_v=GJV; if (gA_b==gB_b && gA_o==gB_o) gB_v=GJV;
  grow(&g,bottom,top);
  entry r = (gB_b==gA_b&&gB_o==gA_o)? gA_v : gB_v;
  __CPROVER_assert(r==GJV, "grow preserves element at every live index");
  __CPROVER_assert(g._capacity==2*g_cap, "capacity doubled");
}
