#include <xenium/chase_work_stealing_deque.hpp>
#include <cstdio>
#include <vector>
int main(){
  xenium::chase_work_stealing_deque<int, xenium::policy::capacity<128>> d;
  std::vector<int> v(1000); for (int i=0;i<1000;i++) v[i]=i;
  int next=0; int* r;
  // advance indices: push/steal 7 times
  for (int i=0;i<255;i++){ d.try_push(&v[next++]); if(!d.try_steal(r)) return 2; }
  // now top=bottom=7; fill 4 then push 5th to trigger grow
  for (int i=0;i<130;i++) d.try_push(&v[next++]);
  int expect=255, bad=0;
  while (d.try_steal(r)) { if (*r!=expect) { printf("steal got %d expected %d\n", *r, expect); bad=1;} expect++; }
  printf("drained up to %d (pushed %d) bad=%d\n", expect, next, bad);
  return bad;
}
