from lower import *
h,b=extract('/repo/xenium/detail/growing_circular_array.hpp', r'void growing_circular_array<T, MinCapacity, Buckets>::grow\(std::size_t bottom, std::size_t top\)\s*\{')
s,f=lower(b,{'capacity':'gca_capacity'},members=['_data','_buckets','_capacity'],subst=[(r'utils::',''),(r'\bstd::size_t\b','size_t'),(r'new entry\[capacity\]','gca_new_bucket(capacity)'),(r'self->self->','self->')])
print(s); print(f, file=sys.stderr)
