#include <xenium/reclamation/hazard_pointer.hpp>
#include <xenium/reclamation/hazard_eras.hpp>
#include <xenium/reclamation/generic_epoch_based.hpp>
#include <xenium/reclamation/quiescent_state_based.hpp>
#include <xenium/reclamation/stamp_it.hpp>
#include <xenium/reclamation/lock_free_ref_count.hpp>
#include <cstdio>
#include <random>
#include <vector>
#include <set>
#include <map>
#include <optional>
static std::set<void*> g_dead;   // addresses whose destructor ran
template <class R> struct node_t : R::template enable_concurrent_ptr<node_t<R>, 2> { int id; explicit node_t(int id):id(id){ g_dead.erase(this); } ~node_t() { g_dead.insert(this); } };
template <class R, int G> int run(const char* name, unsigned seed, int maxlive){
  using N = node_t<R>; using cp = typename R::template concurrent_ptr<N>; using gp = typename cp::guard_ptr; using mp = typename cp::marked_ptr;
  std::mt19937 rng(seed); g_dead.clear();
  constexpr int C=3; cp cells[C]; int nextid=0;
  std::vector<std::optional<gp>> g(G); for (auto& x : g) x.emplace();
  mp model[G]; // what each guard should hold
  std::set<N*> retired; int bad=0;
  auto live=[&]{ int n=0; for(int i=0;i<G;i++) if(model[i].get()) n++; return n; };
  auto check=[&](const char* op,int step){ for(int i=0;i<G;i++){ if (mp(*g[i])!=model[i]) { printf("%s: step %d after %s: guard %d holds %p/%lu expected %p/%lu\n",name,step,op,i,(void*)g[i]->get(),(unsigned long)g[i]->mark(),(void*)model[i].get(),(unsigned long)model[i].mark()); return 1;} if (model[i].get() && g_dead.count(model[i].get())) { printf("%s: step %d after %s: object protected by guard %d was destroyed\n",name,step,op,i); return 1; } } return 0; };
  for (int step=0; step<60000 && !bad; step++){
    int op=rng()%9, i=rng()%G, j=rng()%G, c=rng()%C; const char* on="";
    if (maxlive<100) for (int q=0;q<G;q++) if (!model[q].get() && !model[q].mark()) g[q]->reset();
    try {
    switch(op){
      case 0: { on="publish"; if (!cells[c].load().get()) { cells[c].store(mp(new N(nextid++), rng()%4)); } break; }
      case 1: { on="acquire"; mp cur=cells[c].load(); if (cur.get() && !model[i].get() && live()>=maxlive) break; g[i]->acquire(cells[c]); model[i]=cur; break; }
      case 2: { on="acquire_if_equal"; mp cur=cells[c].load(); mp exp = (rng()%2)? cur : mp(cur.get(), (cur.mark()+1)%4); if (cur.get() && !model[i].get() && live()>=maxlive) break; bool r=g[i]->acquire_if_equal(cells[c], exp); bool e=(cur==exp); if (r!=e){printf("%s: acquire_if_equal returned %d expected %d\n",name,r,e);bad=1;} model[i]= e? cur : mp(); break; }
      case 3: { on="copy-assign"; if (model[j].get() && !model[i].get() && live()>=maxlive) break; *g[i]=*g[j]; model[i]=model[j]; break; }
      case 4: { on="move-assign"; if (i==j) break; *g[i]=std::move(*g[j]); model[i]=model[j]; model[j]=mp(); break; }
      case 5: { on="reset"; g[i]->reset(); model[i]=mp(); if (rng()%2) g[i]->reset(); break; }
      case 6: { on="swap"; g[i]->swap(*g[j]); std::swap(model[i],model[j]); break; }
      case 7: { on="unlink+reclaim"; mp cur=cells[c].load(); if (!cur.get()) break; if (!model[i].get() && live()>=maxlive) break; g[i]->acquire(cells[c]); model[i]=cur; cells[c].store(nullptr); retired.insert(cur.get()); g[i]->reclaim(); model[i]=mp(); break; }
      case 8: { on="copy-ctor/dtor"; if (model[j].get() && live()>=maxlive) break; { gp tmp(*g[j]); if (mp(tmp)!=model[j]) {printf("%s: copy-ctor mismatch\n",name);bad=1;} gp tmp2(std::move(tmp)); if (mp(tmp)!=mp() || mp(tmp2)!=model[j]) {printf("%s: move-ctor mismatch\n",name);bad=1;} } break; }
    }
    } catch (const std::exception& e) { printf("%s: step %d op %s threw %s with %d live guards (max %d)\n", name, step, on, e.what(), live(), maxlive); bad=1; }
    if (!bad) bad=check(on,step);
    for (N* n : retired) { /* destroyed retired objects are fine only if no guard holds them: checked above */ (void)n; }
  }
  for (auto& x : g) x.reset();
  printf("%-34s %s\n", name, bad?"BAD":"ok"); return bad;
}
int main(){
  using namespace xenium::reclamation; using xenium::policy::allocation_strategy; int bad=0;
  bad|=run<hazard_pointer<>::with<allocation_strategy<hp_allocation::static_strategy<1>>>,4>("HP static1",1,1);
  bad|=run<hazard_pointer<>::with<allocation_strategy<hp_allocation::static_strategy<3>>>,5>("HP static3",2,3);
  bad|=run<hazard_pointer<>::with<allocation_strategy<hp_allocation::dynamic_strategy<1>>>,6>("HP dynamic1",3,100);
  bad|=run<hazard_eras<>::with<allocation_strategy<he_allocation::static_strategy<1>>>,4>("HE static1",4,1);
  bad|=run<hazard_eras<>::with<allocation_strategy<he_allocation::static_strategy<3>>>,5>("HE static3",5,3);
  bad|=run<hazard_eras<>::with<allocation_strategy<he_allocation::dynamic_strategy<1>>>,6>("HE dynamic1",6,100);
  bad|=run<epoch_based<>,5>("epoch_based",7,100);
  bad|=run<new_epoch_based<>,5>("new_epoch_based",8,100);
  bad|=run<debra<>,5>("debra",9,100);
  bad|=run<generic_epoch_based<>::with<xenium::policy::region_extension<region_extension::lazy>, xenium::policy::scan_frequency<2>, xenium::policy::abandon<abandon::always>>,5>("geb lazy/always/sf2",10,100);
  bad|=run<generic_epoch_based<>::with<xenium::policy::region_extension<region_extension::none>, xenium::policy::scan_frequency<0>, xenium::policy::abandon<abandon::when_exceeds_threshold<2>>, xenium::policy::scan<scan::one_thread>>,5>("geb none/thr2/sf0/one",11,100);
  bad|=run<quiescent_state_based,5>("qsbr",12,100);
  bad|=run<stamp_it,5>("stamp_it",13,100);
  bad|=run<lock_free_ref_count<>,5>("lfrc",14,100);
  bad|=run<lock_free_ref_count<>::with<xenium::policy::thread_local_free_list_size<2>, xenium::policy::insert_padding<true>>,5>("lfrc tlfl2 padded",15,100);
  return bad;
}
