// stamp_it: is reclamation re-entrant? (a retired object whose destructor uses a guard_ptr of the same reclaimer)
#include <xenium/reclamation/stamp_it.hpp>
#include <xenium/reclamation/hazard_pointer.hpp>
#include <xenium/reclamation/generic_epoch_based.hpp>
#include <xenium/reclamation/quiescent_state_based.hpp>
#include <xenium/reclamation/hazard_eras.hpp>
#include <cstdio>
template <class R> struct T {
  struct child : R::template enable_concurrent_ptr<child> { int v = 1; };
  static inline typename R::template concurrent_ptr<child> slot;
  static inline int destroyed = 0;
  struct parent : R::template enable_concurrent_ptr<parent> {
    ~parent() { ++destroyed; typename R::template concurrent_ptr<child>::guard_ptr g; g.acquire(slot, std::memory_order_acquire); }
  };
  static int run(const char* name) {
    slot.store(new child);
    const int N = 3;
    {
      typename R::region_guard rg;
      for (int i = 0; i < N; ++i) {
        typename R::template concurrent_ptr<parent> p(new parent);
        typename R::template concurrent_ptr<parent>::guard_ptr g; g.acquire(p, std::memory_order_acquire);
        p.store(nullptr); g.reclaim();
      }
    }
    for (int i = 0; i < 10; ++i) { typename R::region_guard rg; }   // give epoch schemes a chance
    std::printf("%s: %d parents retired, destructor ran %d times\n", name, N, destroyed);
    return destroyed > N;
  }
};
int main(int argc, char** argv) {
  int which = argc > 1 ? atoi(argv[1]) : 0;
  if (which == 0) return T<xenium::reclamation::stamp_it>::run("stamp_it");
  if (which == 1) return T<xenium::reclamation::hazard_pointer<>>::run("hazard_pointer");
  if (which == 2) return T<xenium::reclamation::epoch_based<>>::run("epoch_based");
  if (which == 3) return T<xenium::reclamation::quiescent_state_based>::run("qsbr");
  if (which == 4) return T<xenium::reclamation::hazard_eras<>>::run("hazard_eras");
  return 0;
}
