// does a deleter that uses a guard_ptr during thread exit leak a stamp_it control block per thread generation?
#include <xenium/reclamation/stamp_it.hpp>
#include <thread>
#include <cstdio>
#include <atomic>
using R = xenium::reclamation::stamp_it;
struct child : R::enable_concurrent_ptr<child> { int v = 1; };
R::concurrent_ptr<child> g_child_slot;
struct parent : R::enable_concurrent_ptr<parent> {
  ~parent() {
    // a destructor that uses the reclaimer: looks at another shared object through a guard
    R::concurrent_ptr<child>::guard_ptr g;
    g.acquire(g_child_slot, std::memory_order_acquire);
  }
};
static size_t count_blocks() {
  size_t n = 0;
  for (auto it = R::queue.global_thread_block_list.begin(); it != R::queue.global_thread_block_list.end(); ++it) ++n;
  return n;
}
static size_t count_active() {
  size_t n = 0;
  for (auto it = R::queue.global_thread_block_list.begin(); it != R::queue.global_thread_block_list.end(); ++it) if (it->is_active()) ++n;
  return n;
}
#include <optional>
int main() {
  g_child_slot.store(new child);
  for (int gen = 0; gen < 20; ++gen) {
    std::atomic<int> step{0};
    std::optional<R::region_guard> mrg; mrg.emplace();          // main is inside a region: the worker cannot reclaim when it leaves its own
    std::thread t([&] {
      {
        R::region_guard rg;
        R::concurrent_ptr<parent> p(new parent);
        R::concurrent_ptr<parent>::guard_ptr g; g.acquire(p, std::memory_order_acquire);
        p.store(nullptr);
        g.reclaim();
      }
      step.store(1);
      while (step.load() != 2) std::this_thread::yield();         // main has left its region: the node is reclaimable now, at thread exit
    });
    while (step.load() != 1) std::this_thread::yield();
    mrg.reset();
    step.store(2);
    t.join();
  }
  std::printf("20 thread generations: control blocks in list: %zu, still active: %zu\n", count_blocks(), count_active());
  return count_active() > 1 ? 1 : 0;
}
