#include <xenium/reclamation/hazard_pointer.hpp>
#include <cstdio>
using R = xenium::reclamation::hazard_pointer<>::with<xenium::policy::allocation_strategy<xenium::reclamation::hp_allocation::static_strategy<1>>>;
struct N : R::enable_concurrent_ptr<N,0> {};
int main(){
  using cp = R::concurrent_ptr<N,0>; using gp = cp::guard_ptr;
  cp p(new N);
  gp a, b;
  a = b;                       // both empty: nothing to protect
  gp c;
  try { c.acquire(p); printf("acquire ok\n"); }
  catch (const std::exception& e) { printf("K=1, zero protecting guards, acquire threw: %s\n", e.what()); }
  a.reset(); try { c.acquire(p); printf("after a.reset(): acquire ok\n"); } catch (...) { puts("still throws"); }
  c.reset(); delete p.load().get();
}
