#include <xenium/vyukov_hash_map.hpp>
#include <xenium/reclamation/generic_epoch_based.hpp>
#include <cstdio>
#include <string>
static int live=0;
struct V { int x; V(int x=0):x(x){live++;} V(const V& o):x(o.x){live++;} V(V&& o) noexcept :x(o.x){live++;} V& operator=(const V&)=default; ~V(){live--;} };
int main(){
  using R = xenium::reclamation::epoch_based<>;
  {
    using M = xenium::vyukov_hash_map<std::string, V, xenium::policy::reclaimer<R>>;
    M m(8);
    for (int i=0;i<4;i++) m.emplace("key"+std::to_string(i), V(i));
    { auto it = m.find("key1"); m.erase(it); }
    printf("after erase(iterator): live V = %d (3 expected once reclamation has run)\n", live);
  }
  // let the reclaimer make progress
  { using M2 = xenium::vyukov_hash_map<int,int, xenium::policy::reclaimer<R>>; M2 m2(8); for (int i=0;i<2000;i++){ M2::accessor a; m2.try_get_value(i,a);} }
  printf("after map destruction + 2000 critical sections: live V = %d (0 expected)\n", live);
}
