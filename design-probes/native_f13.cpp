#include <xenium/kirsch_bounded_kfifo_queue.hpp>
#include <cstdio>
using Q = xenium::kirsch_bounded_kfifo_queue<int*>;
static int v[64];
static void st(Q& q, const char* what){ auto h=q._head.load(), t=q._tail.load(); printf("%-28s head=%lu tail=%lu\n", what, (unsigned long)h.get(), (unsigned long)t.get()); }
int main(){
  for (int i=0;i<64;i++) v[i]=i;
  Q q(2, 4);                                   // k=2, 4 segments, 8 slots
  auto& R = xenium::utils::xv_rand_value; int* r;
  R=1; q.try_push(&v[1]); q.try_pop(r); st(q,"after push/pop A");     // tail -> 2
  xenium::xv_hook = [&]{                                             // runs while the pusher of X (id 10) sits between its tail re-check and its slot CAS
    R=1;
    for (int id : {2,3,4}) { q.try_push(&v[id]); bool ok=q.try_pop(r); printf("  other: push %d, pop -> %d\n", id, ok? *r : -1); st(q,"  other step"); }
  };
  R=0; bool ok = q.try_push(&v[10]); printf("push X(10) returned %d\n", ok); st(q,"after push X");
  R=1; ok=q.try_pop(r); printf("pop -> %s (X is stored; allowed: k-1 values may be missed)\n", ok? "value":"EMPTY"); st(q,"after pop");
  R=1; q.try_push(&v[20]);   // Y0  -> segment 0 slot 1
  R=1; q.try_push(&v[21]);   // Y0' -> segment 0 slot 0
  R=1; q.try_push(&v[22]);   // Y2  -> segment 2
  st(q,"after pushing 20,21,22");
  printf("values present, oldest first: 10 20 21 22 ; k=2 => a pop may return only 10 or 20\n");
  R=0; ok=q.try_pop(r); printf("pop -> %d\n", ok? *r : -1);
}
