#include <xenium/vyukov_hash_map.hpp>
#include <xenium/reclamation/generic_epoch_based.hpp>
#include <cstdio>
struct idhash { std::size_t operator()(std::uint64_t k) const { return k; } };
using M = xenium::vyukov_hash_map<std::uint64_t, std::uint64_t, xenium::policy::reclaimer<xenium::reclamation::epoch_based<>>, xenium::policy::hash<idhash>>;
static unsigned ver(M& m){ auto b = m.data_block.load().get(); return b->buckets()[0].state.load().version(); }
static unsigned locked(M& m){ auto b = m.data_block.load().get(); return b->buckets()[0].state.load().is_locked(); }
int main(){
  M m(256);
  for (std::uint64_t i=1;i<=5;i++) m.emplace(i*256, i);   // bucket 0: 3 array items + 2 extension items
  unsigned v0 = ver(m);
  { auto it = m.begin();            // first array item, bucket has extension -> erase case 2 (refill from extension)
    m.erase(it); it.reset(); }
  unsigned v1 = ver(m);
  { auto it = m.begin(); ++it; ++it; ++it;   // now on the remaining extension item -> erase case 1
    m.erase(it); it.reset(); }
  unsigned v2 = ver(m);
  { auto it = m.begin(); m.erase(it); it.reset(); }   // case 3
  unsigned v3 = ver(m);
  printf("version: start=%u after-case2=%u after-case1=%u after-case3=%u locked=%u\n", v0,v1,v2,v3,locked(m));
}
