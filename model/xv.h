/* xv.h - C model shared by all units: assertion classes, nondeterminism, loop-cut macros,
 * exceptions-as-flag, and the sequentially consistent model of std::atomic with an optional
 * environment step (INT mode) and optional per-unit event monitors.
 *
 * What this model drops (listed in every evidence file): std::atomic becomes a plain cell (atomicity by
 * construction of the sequential model); the memory order is kept as data and visible to monitors;
 * weak CAS may fail spuriously only when XV_INT is defined. */
#ifndef XV_H
#define XV_H
#include <stdint.h>
#include <stddef.h>
#include <stdbool.h>

#define XV_STR2(x) #x
#define XV_STR(x) XV_STR2(x)

/* obligation classes; the description prefix is what the driver parses */
#define XV_OBL(name, cond)      __CPROVER_assert((cond), "OBL:" name)
#define XV_CANARY(name)         __CPROVER_assert(0, "CANARY:" name)
#define XV_XASSERT(cond)        __CPROVER_assert((cond), "XASSERT:" #cond)
#define XV_ASSUME(cond)         __CPROVER_assume(cond)
#define XV_MODEL_ASSERT(name, cond) __CPROVER_assert((cond), "MODEL:" name)

/* loop cut (Route X).  The unit defines XV_INV_<name> (an expression) and XV_HAVOC_<name> (statements). */
#define XV_LOOP_BASE(n)   __CPROVER_assert((XV_INV_##n), "LOOPBASE:" #n)
#define XV_LOOP_HAVOC(n)  do { XV_HAVOC_##n; } while (0)
#define XV_LOOP_ASSUME(n) __CPROVER_assume(XV_INV_##n)
#define XV_LOOP_STEP(n)   __CPROVER_assert((XV_INV_##n), "LOOPSTEP:" #n)
#define XV_CUT_END()      __CPROVER_assume(0)
/* Route D (goto-instrument --dfcc --apply-loop-contracts): the loop is kept and the unit supplies the clauses */
#define XV_LOOP_CONTRACT(n) XV_LOOP_CONTRACT_##n

/* memory orders as data */
enum { mo_relaxed = 0, mo_consume = 1, mo_acquire = 2, mo_release = 3, mo_acq_rel = 4, mo_seq_cst = 5 };
#define XV_IS_ACQUIRE(o) ((o) == mo_acquire || (o) == mo_acq_rel || (o) == mo_seq_cst || (o) == mo_consume)
#define XV_IS_RELEASE(o) ((o) == mo_release || (o) == mo_acq_rel || (o) == mo_seq_cst)

/* nondeterminism */
_Bool nondet_bool(void);
unsigned char nondet_uchar(void);
unsigned nondet_uint(void);
int nondet_int(void);
uint16_t nondet_u16(void);
uint32_t nondet_u32(void);
uint64_t nondet_u64(void);
size_t nondet_size(void);
uintptr_t nondet_uptr(void);

/* exceptions: a flag + early return inserted by the lowering */
extern int xv_threw;
#define XV_THROW(id) do { xv_threw = XV_EXC_##id; } while (0)

/* global event clock for monitors */
extern uint64_t xv_clock;

/* environment step (INT mode): the unit defines xv_env() which rewrites shared cells subject to its rely */
#ifdef XV_INT
void xv_env(void);
#define XV_ENV() xv_env()
#define XV_SPURIOUS() nondet_bool()
#else
#define XV_ENV() ((void)0)
#define XV_SPURIOUS() 0
#endif

/* monitors: a unit may define these before including xv.h */
#ifndef XV_ON_LOAD
#define XV_ON_LOAD(addr, val, order) ((void)0)
#endif
#ifndef XV_ON_STORE
#define XV_ON_STORE(addr, val, order) ((void)0)
#endif
#ifndef XV_ON_RMW
#define XV_ON_RMW(addr, oldv, newv, order) ((void)0)
#endif
#ifndef XV_ON_CAS
#define XV_ON_CAS(addr, expected, desired, ok, order) ((void)0)
#endif
#ifndef XV_ON_FENCE
#define XV_ON_FENCE(order) ((void)0)
#endif

/* a.load() without an order argument lowers to A_LOAD(a): seq_cst */
#define XV_PICK2(_1, _2, N, ...) N
#define XV_PICK3(_1, _2, _3, N, ...) N
#define XV_PICK4(_1, _2, _3, _4, N, ...) N
#define A_LOAD(...)  XV_PICK2(__VA_ARGS__, XV_A_LOAD, XV_A_LOAD_SC)(__VA_ARGS__)
#define A_STORE(...) XV_PICK3(__VA_ARGS__, XV_A_STORE, XV_A_STORE_SC)(__VA_ARGS__)
#define A_XCHG(...)  XV_PICK3(__VA_ARGS__, XV_A_XCHG, XV_A_XCHG_SC)(__VA_ARGS__)
#define A_FADD(...)  XV_PICK3(__VA_ARGS__, XV_A_FADD, XV_A_FADD_SC)(__VA_ARGS__)
#define A_FSUB(...)  XV_PICK3(__VA_ARGS__, XV_A_FSUB, XV_A_FSUB_SC)(__VA_ARGS__)
#define A_FOR(...)   XV_PICK3(__VA_ARGS__, XV_A_FOR, XV_A_FOR_SC)(__VA_ARGS__)
#define A_FAND(...)  XV_PICK3(__VA_ARGS__, XV_A_FAND, XV_A_FAND_SC)(__VA_ARGS__)
#define XV_A_LOAD_SC(a)      XV_A_LOAD(a, mo_seq_cst)
#define XV_A_STORE_SC(a, v)  XV_A_STORE(a, v, mo_seq_cst)
#define XV_A_XCHG_SC(a, v)   XV_A_XCHG(a, v, mo_seq_cst)
#define XV_A_FADD_SC(a, v)   XV_A_FADD(a, v, mo_seq_cst)
#define XV_A_FSUB_SC(a, v)   XV_A_FSUB(a, v, mo_seq_cst)
#define XV_A_FOR_SC(a, v)    XV_A_FOR(a, v, mo_seq_cst)
#define XV_A_FAND_SC(a, v)   XV_A_FAND(a, v, mo_seq_cst)

/* No statement expressions with declarations here: cbmc type-checks the initialiser of an __auto_type
 * declaration twice, which makes such temporaries "redeclared".  Scratch globals are used instead; the
 * model is sequential, so reading the cell twice inside one macro is the same as reading it once. */
extern uint64_t xv_rmw_old; extern _Bool xv_cas_ok;
#define XV_A_LOAD(a, o)     (XV_ENV(), xv_clock++, XV_ON_LOAD(&(a), (a), (o)), (a))
#define XV_A_STORE(a, v, o) (XV_ENV(), (a) = (v), xv_clock++, XV_ON_STORE(&(a), (a), (o)), (void)0)
#define XV_OP_XCHG(o, v) (v)
#define XV_OP_ADD(o, v) ((o) + (v))
#define XV_OP_SUB(o, v) ((o) - (v))
#define XV_OP_OR(o, v)  ((o) | (v))
#define XV_OP_AND(o, v) ((o) & (v))
#define XV_A_RMW(op, a, v, o) (XV_ENV(), xv_rmw_old = (uint64_t)(a), (a) = op((a), (v)), xv_clock++, \
    XV_ON_RMW(&(a), (__typeof__(a))xv_rmw_old, (a), (o)), (__typeof__(a))xv_rmw_old)
#define XV_A_XCHG(a, v, o) XV_A_RMW(XV_OP_XCHG, a, v, o)
#define XV_A_FADD(a, v, o) XV_A_RMW(XV_OP_ADD, a, v, o)
#define XV_A_FSUB(a, v, o) XV_A_RMW(XV_OP_SUB, a, v, o)
#define XV_A_FOR(a, v, o)  XV_A_RMW(XV_OP_OR, a, v, o)
#define XV_A_FAND(a, v, o) XV_A_RMW(XV_OP_AND, a, v, o)

/* compare_exchange: (cell, &expected, desired [, success [, failure]]) */
#define A_CAS(...)  XV_PICK5(__VA_ARGS__, XV_A_CAS5, XV_A_CAS4, XV_A_CAS3)(0, __VA_ARGS__)
#define A_CASW(...) XV_PICK5(__VA_ARGS__, XV_A_CAS5, XV_A_CAS4, XV_A_CAS3)(1, __VA_ARGS__)
#define XV_PICK5(_1, _2, _3, _4, _5, N, ...) N
#define XV_A_CAS3(w, a, e, d)        XV_A_CAS(w, a, e, d, mo_seq_cst)
#define XV_A_CAS4(w, a, e, d, s)     XV_A_CAS(w, a, e, d, s)
#define XV_A_CAS5(w, a, e, d, s, f)  XV_A_CAS(w, a, e, d, s)
#define XV_A_CAS(w, a, e, d, s) (XV_ENV(), xv_cas_ok = ((a) == *(e)) && !((w) && XV_SPURIOUS()), xv_clock++, \
    XV_ON_CAS(&(a), *(e), (d), xv_cas_ok, (s)), \
    (xv_cas_ok ? (void)((a) = (d)) : (void)(*(e) = (a))), xv_cas_ok)

#define A_FENCE(o) do { xv_clock++; XV_ON_FENCE(o); } while (0)

/* std::memcmp (built-in lowering rule): byte-wise comparison; the loop is unwound by the run's global bound (its unwinding assertion makes a bound that is too small an error, never a pass) */
static inline int xv_memcmp(const void* a, const void* b, size_t n) {
  const unsigned char* x = (const unsigned char*)a; const unsigned char* y = (const unsigned char*)b;
  for (size_t i = 0; i < n; i++) if (x[i] != y[i]) return x[i] < y[i] ? -1 : 1;
  return 0;
}
#ifndef XV_MEMCMP
#define XV_MEMCMP(a, b, n) xv_memcmp((const void*)(a), (const void*)(b), (n))
#endif
/* std::swap of two word-modelled lvalues (built-in lowering rule) */
#define XV_STD_SWAP(a, b) do { __typeof__(a) xv_sw = (a); (a) = (b); (b) = xv_sw; } while (0)
#endif
