/* unit fsca - xenium::detail::fixed_size_circular_array (C12).  Contracts and harnesses only; the function bodies come from lowered.h */
#include <stdint.h>
#include <stddef.h>
extern int mon_order;
#define XV_ON_LOAD(addr, val, order) ((void)(mon_order = (order)))
#define XV_ON_STORE(addr, val, order) ((void)(mon_order = (order)))
#include "xv.h"
int mon_order;
int xv_threw; uint64_t xv_clock, xv_rmw_old; _Bool xv_cas_ok;
#define XV_EXC_std__runtime_error 7
typedef uintptr_t entry;            /* T* : an opaque word */
struct fsca { int dummy; };
size_t Capacity;                     /* template parameter: symbolic, restricted by the class' static_assert (extracted text) */
#define mask (XV_FSCA_MASK)

/* abstract cell array: one ghost-tracked cell, every other cell arbitrary */
size_t g_c; entry g_v, xv_scratch; unsigned cell_accesses;
static entry* xv_item(struct fsca* self, size_t i) {
  XV_OBL("fsca.index.in_bounds", i < Capacity);
  cell_accesses++;
  if (i == g_c) return &g_v;
  xv_scratch = nondet_uptr(); return &xv_scratch;
}
#define XV_ITEM(self, i) (*xv_item((self), (i)))
#include "lowered.h"

/* spec: congruence modulo Capacity. Every accepted Capacity is a power of two (obligation fsca.index.in_bounds, first clause), so x = y (mod Capacity) iff the
   low log2(Capacity) bits agree - stated without the division that cbmc cannot decide for a symbolic 64-bit divisor */
#define CONGRUENT(x, y) ((((x) ^ (y)) & (Capacity - 1)) == 0)
static void havoc_all(struct fsca* a) {
  Capacity = nondet_size(); XV_ASSUME(Capacity != 0);      /* T _items[0] is ill-formed */
  XV_ASSUME(XV_FSCA_STATIC_ASSERT);                        /* the instantiations the class accepts */
  { unsigned c = nondet_uint(); XV_ASSUME(c < 64); XV_OBL("fsca.index.in_bounds", (Capacity >> c) != 1 || Capacity == ((size_t)1 << c)); }   /* accepted => a power of two */
  XV_OBL("fsca.index.in_bounds", (Capacity & (Capacity - 1)) == 0);
  a->dummy = nondet_int(); g_c = nondet_size(); g_v = nondet_uptr(); xv_scratch = nondet_uptr(); cell_accesses = 0; xv_threw = 0; mon_order = -1;
}

void h_getput(void) {
  struct fsca a; havoc_all(&a);
  size_t i = nondet_size(), j = nondet_size(); entry v = nondet_uptr(), old_j = nondet_uptr();
  XV_ASSUME(g_c < Capacity && CONGRUENT(j, g_c));      /* the tracked cell is the one index j lives in: g_c = j mod Capacity */
  g_v = old_j;
  int o1 = nondet_int(), o2 = nondet_int();
  fsca_put(&a, i, v, o1);
  XV_OBL("fsca.put_get.roundtrip", mon_order == o1);
  entry r = fsca_get(&a, j, o2);
  XV_OBL("fsca.put_get.roundtrip", mon_order == o2);
  _Bool congruent = CONGRUENT(i, j);
  XV_OBL("fsca.put_get.roundtrip", r == (congruent ? v : old_j));
  XV_OBL("fsca.put_get.roundtrip", fsca_capacity(&a) == Capacity && cell_accesses == 2 && !xv_threw);
  if (congruent && i != j) XV_CANARY("fsca.same");
  if (!congruent) XV_CANARY("fsca.other");
}

void h_nogrow(void) {
  struct fsca a; havoc_all(&a);
  entry old = g_v;
  XV_OBL("fsca.can_grow.never", !fsca_can_grow(&a));
  fsca_grow(&a, nondet_size(), nondet_size());
  XV_OBL("fsca.can_grow.never", xv_threw == XV_EXC_std__runtime_error && g_v == old && cell_accesses == 0);
  if (xv_threw) XV_CANARY("fsca.grow_threw");
}
