F = 'xenium/detail/fixed_size_circular_array.hpp'
ITEMS = [(r'_items\[([^\]]+)\]', r'XV_ITEM(self, \1)', 'items_index')]
UNIT = dict(
  title='fixed_size_circular_array: the non-growing container of chase_work_stealing_deque (C12)',
  properties=['C12'],
  drops='template parameters T (T* is an opaque word) and Capacity (a symbolic value restricted by the class\' own static_assert, whose text is extracted); '
        'the cell array is abstract: one ghost-tracked cell for an arbitrary index, every other cell holds an arbitrary value; std::runtime_error is an exception id',
  consts=[
    dict(name='XV_FSCA_MASK', file=F, regex=r'static constexpr std::size_t mask = ([^;]+);'),
    dict(name='XV_FSCA_STATIC_ASSERT', file=F, regex=r'static_assert\((.*?),\s*"capacity has to be a power of two"\)'),
  ],
  sources=[
    dict(id='capacity', file=F, sig=r'std::size_t capacity\(\) const', c_sig='static size_t fsca_capacity(struct fsca* self)', must_fire={}),
    dict(id='get', file=F, sig=r'T\* get\(std::size_t idx, std::memory_order order\)', c_sig='static entry fsca_get(struct fsca* self, size_t idx, int order)',
         pre_subst=ITEMS, must_fire={'A_LOAD': 1}),
    dict(id='put', file=F, sig=r'void put\(std::size_t idx, T\* value, std::memory_order order\)', c_sig='static void fsca_put(struct fsca* self, size_t idx, entry value, int order)',
         pre_subst=ITEMS, must_fire={'A_STORE': 1}),
    dict(id='can_grow', file=F, sig=r'constexpr bool can_grow\(\) const', c_sig='static _Bool fsca_can_grow(struct fsca* self)', must_fire={}),
    dict(id='grow', file=F, sig=r'void grow\(std::size_t, std::size_t\)', c_sig='static void fsca_grow(struct fsca* self, size_t a, size_t b)', dflt='', must_fire={}),
  ],
  runs=[
    dict(id='getput', entry='h_getput', cls='unbounded'),
    dict(id='nogrow', entry='h_nogrow', cls='unbounded'),
  ],
  obligations={
    'fsca.index.in_bounds': dict(deciding=True, text='for every Capacity the static_assert accepts and every 64-bit index, get/put address a cell below Capacity'),
    'fsca.put_get.roundtrip': dict(deciding=True, text='get(j) after put(i, v) returns v iff i and j are congruent modulo Capacity, otherwise what the cell of j held; capacity() is Capacity; the memory order passed in is the one used'),
    'fsca.can_grow.never': dict(deciding=True, text='can_grow() is false; grow() throws and changes no cell (so try_push of a full deque over this container must fail without calling it)'),
  },
  canaries=['fsca.same', 'fsca.other', 'fsca.grow_threw'],
)
