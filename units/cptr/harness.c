/* unit cptr - reclamation::detail::concurrent_ptr (C15 part 1): every member forwards to the atomic.
 * Function bodies and default-argument constants come from lowered.h (extracted on this run). */
#include <stdint.h>
#include <stddef.h>
typedef uintptr_t mptr;                 /* marked_ptr: one pointer-sized word (unit mp) */
typedef mptr marked_ptr;                /* the class' member typedef, should a body declare a local of that type */
/* ---- event monitor of the atomic model: what the std::atomic<marked_ptr> sees ---- */
enum { EV_NONE = 0, EV_LOAD, EV_STORE, EV_CAS };
unsigned ev_count; int ev_kind; void* ev_addr; mptr ev_value; int ev_order;
int ev_weak, ev_nargs, ev_fail; mptr* ev_expected_obj; mptr ev_expected, ev_desired; _Bool ev_result, ev_spurious; mptr ev_cell_before;
static void mon_load(void* a, mptr v, int o)  { ev_count++; ev_kind = EV_LOAD;  ev_addr = a; ev_value = v; ev_order = o; }
static void mon_store(void* a, mptr v, int o) { ev_count++; ev_kind = EV_STORE; ev_addr = a; ev_value = v; ev_order = o; }
#define XV_ON_LOAD(addr, val, order)  mon_load((void*)(addr), (mptr)(val), (order))
#define XV_ON_STORE(addr, val, order) mon_store((void*)(addr), (mptr)(val), (order))
#include "xv.h"
int xv_threw; uint64_t xv_clock, xv_rmw_old; _Bool xv_cas_ok;

struct cptr { mptr _ptr; };             /* std::atomic<marked_ptr> _ptr */
struct guard { mptr ptr; };             /* detail::guard_ptr: one member, MarkedPtr ptr */
/* marked_ptr word contract (proved in unit mp for every MarkBits): the low in_mb bits are the mark, the rest the pointer; bool(p) <=> word != 0 */
unsigned in_mb;
#define MP_MASK ((((mptr)1) << in_mb) - 1)
#define MP_get(w) ((uintptr_t)((w) & ~MP_MASK))
#define MP_mark(w) ((uintptr_t)((w) & MP_MASK))
#define MP_BOOL(w) ((w) != 0)
#define MP_deref(w) MP_get(w)             /* the object a marked_ptr names is the one its pointer part points to (identified by address) */
unsigned g_get_calls;
static uintptr_t gp_get(const struct guard* self);
static mptr G_get(struct guard g) { g_get_calls++; return (mptr)gp_get(&g); }      /* T* -> marked_ptr: mark 0 */
#define XV_INIT__ptr(self, v) ((self)->_ptr = (v))
#define marked_ptr(...) ((mptr)(__VA_ARGS__ + 0))          /* default constructed marked_ptr == (nullptr, 0) == zero word: mp.reset.null */

/* ---- compare_exchange model replacing xv.h's (which drops the failure order and has no spurious failure in SEQ mode):
 *      nargs = number of arguments after the cell (expected, desired [, success [, failure]]) ---- */
static _Bool atomic_cas(int weak, mptr* cell, mptr* expected, mptr desired, int nargs, int success, int failure) {
  ev_count++; ev_kind = EV_CAS; ev_addr = cell; ev_weak = weak; ev_nargs = nargs; ev_order = success; ev_fail = failure;
  ev_expected_obj = expected; ev_expected = *expected; ev_desired = desired; ev_cell_before = *cell;
  ev_spurious = weak && nondet_bool();
  _Bool ok = (*cell == *expected) && !ev_spurious;
  if (ok) *cell = desired; else *expected = *cell;
  xv_clock++; ev_result = ok; return ok;
}
#undef XV_A_CAS3
#undef XV_A_CAS4
#undef XV_A_CAS5
#define XV_A_CAS3(w, a, e, d)        atomic_cas((w), &(a), (e), (d), 2, mo_seq_cst, -1)
#define XV_A_CAS4(w, a, e, d, s)     atomic_cas((w), &(a), (e), (d), 3, (s), -1)        /* failure order derived by the atomic */
#define XV_A_CAS5(w, a, e, d, s, f)  atomic_cas((w), &(a), (e), (d), 4, (s), (f))

/* harness inputs */
mptr in_cell, in_value, in_expected, in_desired; int in_order, in_success, in_failure; unsigned in_which;

#include "lowered.h"

static void reset_monitor(void) {
  ev_count = 0; ev_kind = EV_NONE; ev_addr = 0; ev_value = nondet_uptr(); ev_order = nondet_int(); ev_weak = nondet_int(); ev_nargs = nondet_int();
  ev_fail = nondet_int(); ev_expected_obj = 0; ev_expected = nondet_uptr(); ev_desired = nondet_uptr(); ev_result = nondet_bool(); g_get_calls = 0;
}
static int pick_order(void) { int o = nondet_int(); XV_ASSUME(o >= mo_relaxed && o <= mo_seq_cst); return o; }

void h_ctor(void) {
  struct cptr c; c._ptr = nondet_uptr(); reset_monitor();
  in_value = nondet_uptr();
  cp_ctor(&c, in_value);
  XV_OBL("cptr.ctor.init", c._ptr == in_value && ev_count == 0);
  XV_OBL("cptr.ctor.init", (XV_DFLT_CTOR) == 0);
  XV_CANARY("ctor.reached");
}

void h_load(void) {
  struct cptr c; in_cell = nondet_uptr(); c._ptr = in_cell; in_order = pick_order(); reset_monitor();
  mptr r = cp_load(&c, in_order);
  XV_OBL("cptr.load.forwards", ev_count == 1 && ev_kind == EV_LOAD && ev_addr == (void*)&c._ptr && ev_order == in_order);
  XV_OBL("cptr.load.forwards", r == in_cell && r == ev_value && c._ptr == in_cell);
  XV_OBL("cptr.defaults.seq_cst", (XV_DFLT_LOAD) == mo_seq_cst);
  XV_CANARY("load.reached");
}

void h_store(void) {
  struct cptr c; in_cell = nondet_uptr(); c._ptr = in_cell; in_value = nondet_uptr(); in_order = pick_order(); reset_monitor();
  cp_store(&c, in_value, in_order);
  XV_OBL("cptr.store.forwards", ev_count == 1 && ev_kind == EV_STORE && ev_addr == (void*)&c._ptr && ev_order == in_order && ev_value == in_value);
  XV_OBL("cptr.store.forwards", c._ptr == in_value);
  XV_OBL("cptr.defaults.seq_cst", (XV_DFLT_STORE) == mo_seq_cst);
  XV_CANARY("store.reached");
}

void h_store_guard(void) {
  struct cptr c; in_cell = nondet_uptr(); c._ptr = in_cell; in_value = nondet_uptr(); in_order = pick_order(); reset_monitor();
  struct guard g; g.ptr = in_value; in_mb = nondet_uint(); XV_ASSUME(in_mb <= 3);
  cp_store_guard(&c, g, in_order);
  XV_OBL("cptr.store_guard.forwards", ev_count == 1 && ev_kind == EV_STORE && ev_addr == (void*)&c._ptr && ev_order == in_order && ev_value == MP_get(in_value));
  XV_OBL("cptr.store_guard.forwards", c._ptr == MP_get(in_value) && g_get_calls == 1 && g.ptr == in_value);
  XV_OBL("cptr.defaults.seq_cst", (XV_DFLT_STORE_GUARD) == mo_seq_cst);
  XV_CANARY("store_guard.reached");
}

void h_gp_base(void) {
  struct guard g; g.ptr = nondet_uptr(); in_mb = nondet_uint(); XV_ASSUME(in_mb <= 3); mptr w = g.ptr;
  XV_OBL("gp.base.accessors", gp_get(&g) == MP_get(w) && gp_arrow(&g) == MP_get(w) && gp_mark(&g) == MP_mark(w) && gp_conv(&g) == w && gp_deref(&g) == MP_get(w));
  XV_OBL("gp.base.accessors", gp_bool(&g) == (MP_get(w) != 0 || MP_mark(w) != 0));
  XV_OBL("gp.base.accessors", g.ptr == w && (gp_get(&g) | gp_mark(&g)) == w);
  if (MP_get(w) == 0 && MP_mark(w) != 0) XV_CANARY("gp_base.marked_null");
  if (MP_get(w) != 0) XV_CANARY("gp_base.nonnull");
  if (w == 0) XV_CANARY("gp_base.null");
}

#define CAS_CANARY(n) do { if (r) XV_CANARY("cas." n ".ok"); else XV_CANARY("cas." n ".fail"); } while (0)
void h_cas(void) {
  struct cptr c; in_cell = nondet_uptr(); c._ptr = in_cell;
  in_expected = nondet_uptr(); in_desired = nondet_uptr(); in_success = pick_order(); in_failure = pick_order(); in_which = nondet_uint();
  XV_ASSUME(in_which < 8);
  mptr expected = in_expected; reset_monitor();
  _Bool r; _Bool weak = in_which < 4, four = (in_which & 2) != 0;
  switch (in_which) {
    case 0: r = cp_cew3(&c, &expected, in_desired, in_success); break;
    case 1: r = cp_cew3v(&c, &expected, in_desired, in_success); break;
    case 2: r = cp_cew4(&c, &expected, in_desired, in_success, in_failure); break;
    case 3: r = cp_cew4v(&c, &expected, in_desired, in_success, in_failure); break;
    case 4: r = cp_ces3(&c, &expected, in_desired, in_success); break;
    case 5: r = cp_ces3v(&c, &expected, in_desired, in_success); break;
    case 6: r = cp_ces4(&c, &expected, in_desired, in_success, in_failure); break;
    default: r = cp_ces4v(&c, &expected, in_desired, in_success, in_failure); break;
  }
  /* the event the atomic saw */
  XV_OBL("cptr.cas.forwards", ev_count == 1 && ev_kind == EV_CAS && ev_addr == (void*)&c._ptr);
  XV_OBL("cptr.cas.forwards", ev_weak == weak);
  XV_OBL("cptr.cas.forwards", ev_expected_obj == &expected && ev_expected == in_expected && ev_desired == in_desired && ev_cell_before == in_cell);
  XV_OBL("cptr.cas.forwards", ev_order == in_success);
  XV_OBL("cptr.cas.forwards", four ? (ev_nargs == 4 && ev_fail == in_failure) : (ev_nargs == 3));
  /* result and effect */
  XV_OBL("cptr.cas.result", r == ev_result);
  XV_OBL("cptr.cas.result", r ? (in_cell == in_expected && c._ptr == in_desired && expected == in_expected)
                              : (c._ptr == in_cell && expected == in_cell && (in_cell != in_expected || (weak && ev_spurious))));
  XV_OBL("cptr.cas.result", weak || r == (in_cell == in_expected));
  XV_OBL("cptr.defaults.seq_cst", (XV_DFLT_CEW) == mo_seq_cst && (XV_DFLT_CEW_V) == mo_seq_cst && (XV_DFLT_CES) == mo_seq_cst && (XV_DFLT_CES_V) == mo_seq_cst);
  switch (in_which) {
    case 0: CAS_CANARY("cew3"); break; case 1: CAS_CANARY("cew3v"); break; case 2: CAS_CANARY("cew4"); break; case 3: CAS_CANARY("cew4v"); break;
    case 4: CAS_CANARY("ces3"); break; case 5: CAS_CANARY("ces3v"); break; case 6: CAS_CANARY("ces4"); break; default: CAS_CANARY("ces4v"); break;
  }
  if (weak && !r && in_cell == in_expected) XV_CANARY("cas.weak.spurious");
  if (four && in_success != in_failure && in_cell != in_desired && in_cell != in_expected && in_expected != in_desired) XV_CANARY("cas.orders_differ");
}
