// native replay for unit cptr: the REAL concurrent_ptr instantiated over a recording mock of std::atomic<marked_ptr>
// (explicit specialisation for the program-defined type), so that values AND memory orders seen by the atomic can be compared
// with the arguments.  Inputs: in_cell in_value in_expected in_desired in_order in_success in_failure in_which (as in harness.c)
// exit 0: all obligations hold, 1: violation reproduced, 2: bad input
#include <xenium/marked_ptr.hpp>
#include <atomic>
#include <cstdio>
#include <cstdlib>
#include <cstring>
#include <string>
#include <map>
struct Foo {};
using MP = xenium::marked_ptr<Foo, 2>;
using W = uintptr_t;
static MP raw(W w) { MP x; x._ptr = reinterpret_cast<Foo*>(w); return x; }   // -fno-access-control
static W word(const MP& p) { return reinterpret_cast<W>(p._ptr); }

enum { EV_NONE, EV_LOAD, EV_STORE, EV_CAS };
static struct { unsigned count; int kind; const volatile void* addr; W value; int order, weak, nargs, fail; MP* expected_obj; W expected, desired, cell_before; bool result; } ev;
static unsigned get_calls;

template <> struct std::atomic<MP> {
  MP v;
  atomic(MP p) noexcept : v(p) {}
  MP load(std::memory_order o) const { ev.count++; ev.kind = EV_LOAD; ev.addr = this; ev.value = word(v); ev.order = int(o); return v; }
  MP load() const { ev.nargs = 0; return load(std::memory_order_seq_cst); }
  void store(MP p, std::memory_order o) { ev.count++; ev.kind = EV_STORE; ev.addr = this; ev.value = word(p); ev.order = int(o); v = p; }
  void store(MP p) { ev.nargs = 1; store(p, std::memory_order_seq_cst); }
  bool cas(int weak, int nargs, MP& e, MP d, int s, int f) {
    ev.count++; ev.kind = EV_CAS; ev.addr = this; ev.weak = weak; ev.nargs = nargs; ev.order = s; ev.fail = f; ev.expected_obj = &e;
    ev.expected = word(e); ev.desired = word(d); ev.cell_before = word(v);
    bool ok = word(v) == word(e); if (ok) v = d; else e = v; ev.result = ok; return ok;
  }
#define OVERLOADS(name, weak, cv) \
  bool name(MP& e, MP d) cv { return const_cast<atomic*>(this)->cas(weak, 2, e, d, int(std::memory_order_seq_cst), -1); } \
  bool name(MP& e, MP d, std::memory_order s) cv { return const_cast<atomic*>(this)->cas(weak, 3, e, d, int(s), -1); } \
  bool name(MP& e, MP d, std::memory_order s, std::memory_order f) cv { return const_cast<atomic*>(this)->cas(weak, 4, e, d, int(s), int(f)); }
  OVERLOADS(compare_exchange_weak, 1, ) OVERLOADS(compare_exchange_weak, 1, volatile)
  OVERLOADS(compare_exchange_strong, 0, ) OVERLOADS(compare_exchange_strong, 0, volatile)
};
#include <xenium/reclamation/detail/concurrent_ptr.hpp>

template <class T, class MarkedPtr> struct Guard { MarkedPtr v; MarkedPtr get() const { get_calls++; return v; } };
using CP = xenium::reclamation::detail::concurrent_ptr<Foo, 2, Guard>;
static_assert(std::is_same_v<CP::marked_ptr, MP>);

static std::map<std::string, unsigned long long> args;
static int bad = 0;
#define CHECK(name, cond, ...) do { if (!(cond)) { printf("VIOLATED %s: ", name); printf(__VA_ARGS__); printf("\n"); bad++; } } while (0)
static const char* mo[] = {"relaxed", "consume", "acquire", "release", "acq_rel", "seq_cst"};
static const char* mon(int o) { return o >= 0 && o <= 5 ? mo[o] : "(derived)"; }

int main(int argc, char** argv) {
  for (int i = 1; i < argc; ++i) { char* eq = strchr(argv[i], '='); if (!eq) continue; std::string k(argv[i], eq - argv[i]);
    args[k] = strtoull(eq + 1, 0, 0); }
  W cell = args["in_cell"], value = args["in_value"], expected = args["in_expected"], desired = args["in_desired"];
  int order = int(args["in_order"]), success = int(args["in_success"]), failure = int(args["in_failure"]); unsigned which = unsigned(args["in_which"]);
  if (order > 5 || success > 5 || failure > 5 || which > 7) { printf("bad input\n"); return 2; }
  auto O = [](int o) { return static_cast<std::memory_order>(o); };
  { CP c(raw(value)); CHECK("cptr.ctor.init", word(c._ptr.v) == value, "constructed with %#zx holds %#zx", (size_t)value, (size_t)word(c._ptr.v));
    CP d; CHECK("cptr.ctor.init", word(d._ptr.v) == 0, "default constructed holds %#zx", (size_t)word(d._ptr.v)); }
  { CP c(raw(cell)); ev = {}; MP r = c.load(O(order));
    CHECK("cptr.load.forwards", ev.count == 1 && ev.kind == EV_LOAD && ev.addr == &c._ptr && ev.order == order, "load(%s): atomic saw %u event(s), kind %d, order %s", mon(order), ev.count, ev.kind, mon(ev.order));
    CHECK("cptr.load.forwards", word(r) == cell && word(c._ptr.v) == cell, "load returned %#zx, cell %#zx", (size_t)word(r), (size_t)cell);
    ev = {}; (void)c.load(); CHECK("cptr.defaults.seq_cst", ev.order == int(std::memory_order_seq_cst) && ev.count == 1, "load() used %s", mon(ev.order)); }
  { CP c(raw(cell)); ev = {}; c.store(raw(value), O(order));
    CHECK("cptr.store.forwards", ev.count == 1 && ev.kind == EV_STORE && ev.addr == &c._ptr && ev.order == order && ev.value == value && word(c._ptr.v) == value,
          "store(%#zx, %s): atomic saw %u event(s), kind %d, value %#zx, order %s", (size_t)value, mon(order), ev.count, ev.kind, (size_t)ev.value, mon(ev.order));
    ev = {}; c.store(raw(value)); CHECK("cptr.defaults.seq_cst", ev.order == int(std::memory_order_seq_cst) && ev.count == 1, "store(v) used %s", mon(ev.order)); }
  { CP c(raw(cell)); Guard<Foo, MP> g{raw(value)}; ev = {}; get_calls = 0; c.store(g, O(order));
    CHECK("cptr.store_guard.forwards", ev.count == 1 && ev.kind == EV_STORE && ev.addr == &c._ptr && ev.order == order && ev.value == value && word(c._ptr.v) == value && get_calls == 1,
          "store(guard holding %#zx, %s): atomic saw %u event(s), kind %d, value %#zx, order %s, get() called %u time(s)", (size_t)value, mon(order), ev.count, ev.kind, (size_t)ev.value, mon(ev.order), get_calls);
    ev = {}; c.store(g); CHECK("cptr.defaults.seq_cst", ev.order == int(std::memory_order_seq_cst) && ev.count == 1, "store(guard) used %s", mon(ev.order)); }
  { CP c(raw(cell)); volatile CP& vc = c; MP e = raw(expected); ev = {}; bool r; bool weak = which < 4, four = (which & 2) != 0;
    switch (which) {
      case 0: r = c.compare_exchange_weak(e, raw(desired), O(success)); break;
      case 1: r = vc.compare_exchange_weak(e, raw(desired), O(success)); break;
      case 2: r = c.compare_exchange_weak(e, raw(desired), O(success), O(failure)); break;
      case 3: r = vc.compare_exchange_weak(e, raw(desired), O(success), O(failure)); break;
      case 4: r = c.compare_exchange_strong(e, raw(desired), O(success)); break;
      case 5: r = vc.compare_exchange_strong(e, raw(desired), O(success)); break;
      case 6: r = c.compare_exchange_strong(e, raw(desired), O(success), O(failure)); break;
      default: r = vc.compare_exchange_strong(e, raw(desired), O(success), O(failure)); break;
    }
    CHECK("cptr.cas.forwards", ev.count == 1 && ev.kind == EV_CAS && ev.addr == &c._ptr, "overload %u: atomic saw %u event(s), kind %d", which, ev.count, ev.kind);
    CHECK("cptr.cas.forwards", ev.weak == (weak ? 1 : 0), "overload %u: %s requested, atomic saw %s", which, weak ? "weak" : "strong", ev.weak ? "weak" : "strong");
    CHECK("cptr.cas.forwards", ev.expected_obj == &e && ev.expected == expected && ev.desired == desired && ev.cell_before == cell,
          "overload %u: atomic saw expected %#zx (object %s), desired %#zx; arguments were %#zx, %#zx", which, (size_t)ev.expected, ev.expected_obj == &e ? "same" : "a copy", (size_t)ev.desired, (size_t)expected, (size_t)desired);
    CHECK("cptr.cas.forwards", ev.order == success, "overload %u: success order %s given, atomic saw %s", which, mon(success), mon(ev.order));
    CHECK("cptr.cas.forwards", four ? (ev.nargs == 4 && ev.fail == failure) : ev.nargs == 3, "overload %u: atomic was called with %d arguments, failure order %s (given: %s)", which, ev.nargs, mon(ev.fail), four ? mon(failure) : "none");
    CHECK("cptr.cas.result", r == ev.result, "result %d, atomic returned %d", (int)r, (int)ev.result);
    CHECK("cptr.cas.result", r ? (word(c._ptr.v) == desired && word(e) == expected) : (word(c._ptr.v) == cell && word(e) == cell), "after %s: cell %#zx expected %#zx", r ? "success" : "failure", (size_t)word(c._ptr.v), (size_t)word(e));
    MP e2 = raw(expected);
    ev = {}; (void)c.compare_exchange_weak(e2, raw(desired)); CHECK("cptr.defaults.seq_cst", ev.order == int(std::memory_order_seq_cst) && ev.nargs == 3, "compare_exchange_weak(e, d) used %s", mon(ev.order));
    ev = {}; (void)vc.compare_exchange_weak(e2, raw(desired)); CHECK("cptr.defaults.seq_cst", ev.order == int(std::memory_order_seq_cst) && ev.nargs == 3, "volatile compare_exchange_weak(e, d) used %s", mon(ev.order));
    ev = {}; (void)c.compare_exchange_strong(e2, raw(desired)); CHECK("cptr.defaults.seq_cst", ev.order == int(std::memory_order_seq_cst) && ev.nargs == 3, "compare_exchange_strong(e, d) used %s", mon(ev.order));
    ev = {}; (void)vc.compare_exchange_strong(e2, raw(desired)); CHECK("cptr.defaults.seq_cst", ev.order == int(std::memory_order_seq_cst) && ev.nargs == 3, "volatile compare_exchange_strong(e, d) used %s", mon(ev.order));
  }
  printf("concurrent_ptr over the recording atomic: %d check(s) violated\n", bad);
  return bad ? 1 : 0;
}
