CP = 'xenium/reclamation/detail/concurrent_ptr.hpp'
GPF = 'xenium/reclamation/detail/guard_ptr.hpp'
GPM = {'get': 'MP_get', 'mark': 'MP_mark'}      # marked_ptr members a guard accessor may use
MO = [(r'std::memory_order_', 'mo_')]
def K(name, regex): return dict(name=name, file=CP, regex=regex, subst=MO)
EXP = [(r'\bexpected\b', '(*expected_p)', 'expected_ref')]
A3 = r'\(marked_ptr\s*&?\s*expected,\s*marked_ptr desired,\s*std::memory_order order = std::memory_order_\w+\)'
A4 = r'\(marked_ptr\s*&?\s*expected,\s*marked_ptr desired,\s*std::memory_order success,\s*std::memory_order failure\)'
D3 = r'\(marked_ptr\s*&?\s*expected,\s*marked_ptr desired,\s*std::memory_order order = (std::memory_order_\w+)\)'

def byval(s, lw):
    # `expected` is a reference parameter in the pinned text (c_sig: pointer to the caller's object).  If the current text takes it BY VALUE the function works on a
    # private copy: the lowering says exactly that, and the contract (failure reloads the CALLER's expected) decides
    if not re.search(r'marked_ptr\s*&\s*expected', lw.spec.get('_cxx_head', 'marked_ptr& expected')):
        lw.fire('expected_by_value')
        k = s.index('{'); e = s.rindex('}')
        return s[:k] + '{ mptr xv_byval_expected = (*expected_p); { mptr* expected_p = &xv_byval_expected; ' + s[k:e + 1] + ' } }'
    return s
import re
def CAS(id, name, args, which, rule):
    c_args = 'int order' if args is A3 else 'int success, int failure'
    return dict(id=id, file=CP, sig=r'bool ' + name + args, which=which, members=['_ptr'], subst=EXP, py_post=byval,
                c_sig='static _Bool cp_%s(struct cptr* self, mptr* expected_p, mptr desired, %s)' % (id, c_args),
                must_fire={'subst:expected_ref': 1, 'member:_ptr': 1})   # weak/strong is decided by the obligation (ev_weak), not by the rule count

UNIT = dict(
  title='concurrent_ptr: every member forwards to the underlying std::atomic<marked_ptr> with the same arguments and orders (C15 part 1)',
  properties=['C15'],
  drops='templates; marked_ptr is a 64-bit word (unit mp: == is equality of the single pointer-sized member, so the atomic\'s bitwise compare is value equality, '
        'default constructed marked_ptr is the zero word); std::atomic<marked_ptr> is the plain-cell model of xv.h with monitors, compare_exchange replaced by a '
        'harness model that also records weak/strong, the number of arguments and the failure order (xv.h drops it) and lets the weak form fail spuriously; '
        'guard_ptr is its base class detail::guard_ptr (one marked_ptr member) with the real accessors; marked_ptr get()/mark()/bool follow the contract proved in unit mp on a word with XV_MB low mark bits; by-reference `expected` becomes a pointer; volatile/const qualifiers, [[nodiscard]], default arguments '
        '(extracted as constants and checked by cptr.defaults.seq_cst) are dropped',
  assumptions=[               'std::atomic<marked_ptr> itself (lock-free 8-byte CAS comparing object representations) is trusted'],
  consts=[
    K('XV_DFLT_CTOR', r'concurrent_ptr\(const marked_ptr& p = ([^)]*\))\) noexcept'),
    K('XV_DFLT_LOAD', r'marked_ptr load\(std::memory_order order = (std::memory_order_\w+)\) const'),
    K('XV_DFLT_STORE', r'void store\(const marked_ptr& src, std::memory_order order = (std::memory_order_\w+)\)'),
    K('XV_DFLT_STORE_GUARD', r'void store\(const guard_ptr& src, std::memory_order order = (std::memory_order_\w+)\)'),
    K('XV_DFLT_CEW', r'bool compare_exchange_weak' + D3 + r'\s*\{'),
    K('XV_DFLT_CEW_V', r'bool compare_exchange_weak' + D3 + r'\s*volatile\s*\{'),
    K('XV_DFLT_CES', r'bool compare_exchange_strong' + D3 + r'\s*\{'),
    K('XV_DFLT_CES_V', r'bool compare_exchange_strong' + D3 + r'\s*volatile\s*\{'),
  ],
  sources=[
    # accessors of reclamation::detail::guard_ptr (the base of every reclaimer's guard_ptr): real text over the marked_ptr word contract of unit mp
    dict(id='gp_get', file=GPF, sig=r'T\* get\(\) const noexcept', c_sig='static uintptr_t gp_get(const struct guard* self)', members=['ptr'], methods=GPM, must_fire={'method:get': 1}),
    dict(id='gp_mark', file=GPF, sig=r'uintptr_t mark\(\) const noexcept', c_sig='static uintptr_t gp_mark(const struct guard* self)', members=['ptr'], methods=GPM, must_fire={'method:mark': 1}),
    dict(id='gp_conv', file=GPF, sig=r'operator MarkedPtr\(\) const noexcept', c_sig='static mptr gp_conv(const struct guard* self)', members=['ptr'], methods=GPM, must_fire={'member:ptr': 1}),
    dict(id='gp_bool', file=GPF, sig=r'explicit operator bool\(\) const noexcept', c_sig='static _Bool gp_bool(const struct guard* self)', members=['ptr'], methods=GPM, must_fire={'member:ptr': 1}),
    dict(id='gp_arrow', file=GPF, sig=r'T\* operator->\(\) const noexcept', c_sig='static uintptr_t gp_arrow(const struct guard* self)', members=['ptr'], methods=GPM, must_fire={'method:get': 1}),
    dict(id='gp_deref', file=GPF, sig=r'T& operator\*\(\) const noexcept', c_sig='static uintptr_t gp_deref(const struct guard* self)', members=['ptr'], methods=GPM, pre_subst=[(r'return \*ptr;', 'return MP_deref(ptr);', 'mp_deref')], must_fire={'subst:mp_deref': 1}),
    dict(id='ctor', file=CP, sig=r'concurrent_ptr\(const marked_ptr& p = marked_ptr\(\)\) noexcept', ctor=True,
         c_sig='static void cp_ctor(struct cptr* self, mptr p)', must_fire={'ctor_init': 1}),
    dict(id='load', file=CP, sig=r'marked_ptr load\(std::memory_order order = std::memory_order_\w+\) const', members=['_ptr'],
         c_sig='static mptr cp_load(struct cptr* self, int order)', must_fire={'member:_ptr': 1}),
    dict(id='store', file=CP, sig=r'void store\(const marked_ptr& src, std::memory_order order = std::memory_order_\w+\)', members=['_ptr'],
         c_sig='static void cp_store(struct cptr* self, mptr src, int order)', must_fire={'member:_ptr': 1}),
    dict(id='store_guard', file=CP, sig=r'void store\(const guard_ptr& src, std::memory_order order = std::memory_order_\w+\)', members=['_ptr'],
         methods={'get': 'G_get'},   # G_get = the real guard_ptr::get (gp_get), counted
         c_sig='static void cp_store_guard(struct cptr* self, struct guard src, int order)', must_fire={'member:_ptr': 1}),
    CAS('cew3', 'compare_exchange_weak', A3, 0, 'A_CASW'), CAS('cew3v', 'compare_exchange_weak', A3, 1, 'A_CASW'),
    CAS('cew4', 'compare_exchange_weak', A4, 0, 'A_CASW'), CAS('cew4v', 'compare_exchange_weak', A4, 1, 'A_CASW'),
    CAS('ces3', 'compare_exchange_strong', A3, 0, 'A_CAS'), CAS('ces3v', 'compare_exchange_strong', A3, 1, 'A_CAS'),
    CAS('ces4', 'compare_exchange_strong', A4, 0, 'A_CAS'), CAS('ces4v', 'compare_exchange_strong', A4, 1, 'A_CAS'),
  ],
  runs=[
    dict(id='ctor', entry='h_ctor', cls='unbounded'),
    dict(id='load', entry='h_load', cls='unbounded'),
    dict(id='store', entry='h_store', cls='unbounded'),
    dict(id='store_guard', entry='h_store_guard', cls='unbounded'),
    dict(id='gp_base', entry='h_gp_base', cls='unbounded', note='accessors of the guard_ptr base class, every word, mark widths 0..3'),
    dict(id='cas', entry='h_cas', cls='unbounded', note='all eight compare_exchange overloads (nondeterministic choice), all cell/expected/desired words, all orders'),
  ],
  obligations={
    'cptr.ctor.init': dict(deciding=True, text='concurrent_ptr(p) initialises the atomic with p; the default argument is the default constructed marked_ptr'),
    'cptr.load.forwards': dict(deciding=True, text='load(o) performs exactly one atomic load of _ptr with order o and returns its value; nothing is written'),
    'cptr.store.forwards': dict(deciding=True, text='store(v, o) performs exactly one atomic store of v to _ptr with order o'),
    'cptr.store_guard.forwards': dict(deciding=True, text='store(guard, o) performs exactly one atomic store of guard.get() - the pointer the guard holds, mark bits cleared - with order o (get() called once)'),
    'gp.base.accessors': dict(deciding=True, text='guard_ptr::get()/operator-> return the pointer part of the guarded marked_ptr, mark() its mark, the conversion the marked_ptr itself, operator bool is true iff pointer or mark is non-zero, operator* names the object get() points to; none of them changes the guard'),
    'cptr.cas.forwards': dict(deciding=True, text='each compare_exchange_weak/strong overload performs exactly one compare_exchange of the same strength on _ptr with the caller\'s expected object (by reference), desired value, and the given order(s): one order for the 3-argument forms (the atomic derives the failure order), success and failure in this sequence for the 4-argument forms'),
    'cptr.cas.result': dict(deciding=True, text='the result is the atomic\'s result; on success _ptr == desired and expected is unchanged; on failure _ptr is unchanged and expected holds the value of _ptr'),
    'cptr.defaults.seq_cst': dict(deciding=True, text='every defaulted memory order argument is std::memory_order_seq_cst, as for std::atomic'),
  },
  replays={k: dict(src='replay_cptr.cpp') for k in ['cptr.ctor.init', 'cptr.load.forwards', 'cptr.store.forwards', 'cptr.store_guard.forwards', 'cptr.cas.forwards', 'cptr.cas.result', 'cptr.defaults.seq_cst']},
  canaries=['gp_base.marked_null', 'gp_base.nonnull', 'gp_base.null', 'ctor.reached', 'load.reached', 'store.reached', 'store_guard.reached',
            'cas.cew3.ok', 'cas.cew3.fail', 'cas.cew3v.ok', 'cas.cew3v.fail', 'cas.cew4.ok', 'cas.cew4.fail', 'cas.cew4v.ok', 'cas.cew4v.fail',
            'cas.ces3.ok', 'cas.ces3.fail', 'cas.ces3v.ok', 'cas.ces3v.fail', 'cas.ces4.ok', 'cas.ces4.fail', 'cas.ces4v.ok', 'cas.ces4v.fail',
            'cas.weak.spurious', 'cas.orders_differ'],
)
