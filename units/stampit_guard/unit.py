import re
F = 'xenium/reclamation/impl/stamp_it.hpp'
GP = r'stamp_it::guard_ptr<T, MarkedPtr>::'

TD_MEMBERS = ['control_block', 'region_entries', 'number_of_retired_nodes', 'first_retired_node', 'prev_retired_node']
Q_METHODS = {'push': 'Q_push', 'remove': 'Q_remove', 'head_stamp': 'Q_head_stamp', 'tail_stamp': 'Q_tail_stamp',
             'add_to_global_retired_nodes': 'Q_add_global', 'steal_global_retired_nodes': 'Q_steal_global',
             'acquire_control_block': 'Q_acquire_control_block', 'delete_self': 'N_delete_self', 'abandon': 'CB_abandon'}
TYPES = [(r'\bdeletable_object_with_stamp\b', 'struct node', 'node_type'), (r'\bstd::size_t\b', 'size_t', 'size_t')]
TD = dict(members=TD_MEMBERS, methods=Q_METHODS, subst=TYPES,
          self_calls={'ensure_has_control_block': 'sg_ensure_has_control_block', 'process_global_nodes': 'SG_process_global_nodes',
                      'process_local_nodes': 'SG_process_local_nodes'})

def drop_lambda(s, lw):
    """unit-local rule: the lambda `auto process_chunk_nodes = [&tail_stamp, &lowest_stamp](... chunk) {...};` is lowered as a
    function of its own (source 'process_chunk_nodes': the same text, by-reference captures become pointer parameters);
    here its definition is removed from the enclosing function and the call passes the addresses of the captured variables."""
    m = re.search(r'auto\s+process_chunk_nodes\s*=\s*\[\s*&tail_stamp\s*,\s*&lowest_stamp\s*\]\s*\([^)]*\)\s*', s)
    if not m: return s
    from xvlib import lower as L
    e = L.match_brace(s, m.end())
    k = e + 1
    while s[k].isspace(): k += 1
    assert s[k] == ';'
    lw.fire('lambda_hoisted')
    s = s[:m.start()] + s[k + 1:]
    s, n = re.subn(r'\bprocess_chunk_nodes\s*\(', 'sg_process_chunk_nodes(&tail_stamp, &lowest_stamp, ', s)
    lw.fire('lambda_call', n)
    return s

def p_ref(s, lw):
    s, n = re.subn(r'\bp\b', '(*p_p)', s); lw.fire('subst:p_ref', n); return s

GMETH = {'enter_region': 'TD_enter_region', 'leave_region': 'TD_leave_region', 'add_retired_node': 'TD_add_retired_node',
         'reset': 'MP_reset', 'get': 'MP_get', 'set_deleter': 'X_set_deleter'}
G = dict(methods=GMETH, self_calls={'reset': 'gp_reset'})

UW = ['h_dtor.0:7', 'h_dtor.1:7', 'havoc_td.0:7', 'havoc_heap.0:7', 'build_chain.0:4', 'chain_reach.0:4', 'reach_list.0:8', 'h_local.0:7', 'h_local.1:7',
      'sg_process_local_nodes.0:7', 'sg_process_chunk_nodes.0:3', 'sg_process_global_nodes.0:2', 'sg_process_global_nodes.1:4',
      'sg_process_global_nodes.2:2', 'sg_process_global_nodes.3:2']
UNIT = dict(
  title='stamp_it: guard_ptr operations, thread_data enter/leave_region and destructor, retire side (add_retired_node, process_local_nodes, process_global_nodes)',
  properties=['C01', 'C02'],
  drops='templates (a marked_ptr is one word; its operator bool / == are word comparisons as in marked_ptr.hpp; a concurrent_ptr is an atomic word); '
        'thread_local local_thread_data() is one global object; deletable_object_with_stamp is struct node {next, next_chunk, stamp} with a ghost deletion counter '
        '(delete_self() counts and then havocs the node: any later read of it yields arbitrary values); the lambda process_chunk_nodes is lowered as a '
        'separate function with its by-reference captures as pointer parameters (rule drop_lambda in unit.py); set_deleter dropped; '
        'WITH_PERF_COUNTER undefined',
  assumptions=[
    'TRUSTED thread_order_queue (stamp_it.hpp:53-524): push(block) gives the block a stamp greater than all earlier ones; remove(block) takes it out and returns whether it was the tail-most; '
    'tail_stamp() <= stamp of every block still in the list and is monotone; head_stamp() is the current head stamp; steal_global_retired_nodes()/add_to_global_retired_nodes() hand chunk lists over without loss; '
    'acquire_control_block() returns a non-null block; thread_control_block::abandon() (thread_block_list entry) releases the block.  These are contract stubs in harness.c, not verified.',
    'composition (a node retired with stamp s is unreachable for every thread whose block has stamp > s) is the Stamp-it paper\'s argument, not checked here',
  ],
  consts=[
    dict(name='try_reclaim_threshold', file=F, regex=r'static const std::size_t try_reclaim_threshold = ([^;]+);'),
    dict(name='max_remaining_retired_nodes', file=F, regex=r'static const std::size_t max_remaining_retired_nodes = ([^;]+);'),
  ],
  sources=[
    dict(TD, id='ensure_has_control_block', file=F, sig=r'void ensure_has_control_block\(\)',
         c_sig='static void sg_ensure_has_control_block(struct thread_data* self)',
         must_fire={'method:acquire_control_block': 1}),
    dict(TD, id='enter_region', file=F, sig=r'void enter_region\(\)', c_sig='static void sg_enter_region(struct thread_data* self)',
         must_fire={'method:push': 1, 'self_call:ensure_has_control_block': 1, 'member:region_entries': 1}),
    dict(TD, id='leave_region', file=F, sig=r'void leave_region\(\)', c_sig='static void sg_leave_region(struct thread_data* self)',
         must_fire={'method:remove': 1, 'self_call:process_global_nodes': 1, 'self_call:process_local_nodes': 1,
                    'method:add_to_global_retired_nodes': 1, 'member:region_entries': 1}),
    dict(TD, id='add_retired_node', file=F, sig=r'void add_retired_node\(deletable_object_with_stamp\* p\)',
         c_sig='static void sg_add_retired_node(struct thread_data* self, struct node* p)',
         must_fire={'method:head_stamp': 1, 'self_call:process_local_nodes': 1}),
    dict(TD, id='dtor', file=F, sig=r'~thread_data\(\)', c_sig='static void sg_thread_data_dtor(struct thread_data* self)',
         must_fire={'method:abandon': 1, 'self_call:process_local_nodes': 1, 'method:add_to_global_retired_nodes': 1, 'member:control_block': 3}),
    dict(TD, id='process_local_nodes', file=F, sig=r'void process_local_nodes\(\)',
         c_sig='static void sg_process_local_nodes(struct thread_data* self)',
         must_fire={'method:tail_stamp': 1, 'method:delete_self': 1}),
    dict(id='process_chunk_nodes', file=F, sig=r'auto process_chunk_nodes = \[&tail_stamp, &lowest_stamp\]\(deletable_object_with_stamp\* chunk\)',
         c_sig='static struct node* sg_process_chunk_nodes(size_t* tail_stamp_p, size_t* lowest_stamp_p, struct node* chunk)',
         methods=Q_METHODS, calls={'std::min': 'XV_MIN'},
         subst=TYPES + [(r'\btail_stamp\b', '(*tail_stamp_p)', 'capture_tail_stamp'), (r'\blowest_stamp\b', '(*lowest_stamp_p)', 'capture_lowest_stamp')],
         must_fire={'method:delete_self': 1, 'subst:capture_tail_stamp': 1, 'subst:capture_lowest_stamp': 2, 'call:std::min': 1}),
    dict(TD, id='process_global_nodes', file=F, sig=r'void process_global_nodes\(\)',
         c_sig='static void sg_process_global_nodes(struct thread_data* self)',
         py_pre=drop_lambda,
         subst=TYPES + [(r'std::numeric_limits<stamp_t>::max\(\)', 'SIZE_MAX', 'stamp_max')],
         post_subst=[(r'\brestart:', 'restart: ; XV_RESTART_ENTRY();', 'restart_label'), (r'goto restart;', '{ XV_RESTART_BACK(); goto restart; }', 'restart_goto')],
         must_fire={'lambda_hoisted': 1, 'lambda_call': 1, 'method:tail_stamp': 2, 'method:steal_global_retired_nodes': 1,
                    'method:add_to_global_retired_nodes': 1, 'subst:stamp_max': 1, 'subst:restart_label': 1, 'subst:restart_goto': 1}),
    # ---- guard_ptr
    dict(G, id='gp_ctor', file=F, sig=GP + r'guard_ptr\(const MarkedPtr& p\) noexcept', ctor=True,
         c_sig='static void gp_ctor(struct guard* self, mptr p)', must_fire={'ctor_init': 1, 'method:enter_region': 1}),
    dict(G, id='gp_copy_ctor', file=F, sig=GP + r'guard_ptr\(const guard_ptr& p\) noexcept', ctor=True, py_post=p_ref,
         c_sig='static void gp_copy_ctor(struct guard* self, struct guard* p_p)', must_fire={'ctor_init': 1, 'subst:p_ref': 1}),
    dict(G, id='gp_move_ctor', file=F, sig=GP + r'guard_ptr\(guard_ptr&& p\) noexcept', ctor=True, py_post=p_ref,
         c_sig='static void gp_move_ctor(struct guard* self, struct guard* p_p)', must_fire={'ctor_init': 1, 'subst:p_ref': 2, 'method:reset': 1}),
    dict(G, id='gp_copy_assign', file=F, sig=GP + r'operator=\(const guard_ptr& p\) noexcept', py_post=p_ref,
         post_subst=[(r'return \(\*self\);', 'return self;', 'ret_self')],
         c_sig='static struct guard* gp_copy_assign(struct guard* self, struct guard* p_p)',
         must_fire={'subst:ret_self': 2, 'self_call:reset': 1, 'method:enter_region': 1}),
    dict(G, id='gp_move_assign', file=F, sig=GP + r'operator=\(guard_ptr&& p\) noexcept', py_post=p_ref,
         post_subst=[(r'return \(\*self\);', 'return self;', 'ret_self')],
         c_sig='static struct guard* gp_move_assign(struct guard* self, struct guard* p_p)',
         must_fire={'subst:ret_self': 2, 'self_call:reset': 1, 'method:reset': 1}),
    dict(G, id='gp_acquire', file=F, sig=GP + r'acquire\(const concurrent_ptr<T>& p, std::memory_order order\) noexcept', py_post=p_ref,
         c_sig='static void gp_acquire(struct guard* self, mptr* p_p, int order)',
         must_fire={'A_LOAD': 2, 'self_call:reset': 1, 'method:enter_region': 1, 'method:leave_region': 1}),
    dict(G, id='gp_acquire_if_equal', file=F,
         sig=GP + r'acquire_if_equal\(const concurrent_ptr<T>& p,\s*const MarkedPtr& expected,\s*std::memory_order order\) noexcept', py_post=p_ref,
         c_sig='static _Bool gp_acquire_if_equal(struct guard* self, mptr* p_p, mptr expected, int order)',
         must_fire={'A_LOAD': 2, 'self_call:reset': 1, 'method:enter_region': 1, 'method:leave_region': 1, 'method:reset': 1}),
    dict(G, id='rg_ctor', file=F, sig=r'inline stamp_it::region_guard::region_guard\(\) noexcept', c_sig='static void sg_rg_ctor(void)', must_fire={'method:enter_region': 1}),
    dict(G, id='rg_dtor', file=F, sig=r'inline stamp_it::region_guard::~region_guard\(\)', c_sig='static void sg_rg_dtor(void)', must_fire={'method:leave_region': 1}),
    dict(G, id='gp_reset', file=F, sig=GP + r'reset\(\) noexcept',
         c_sig='static void gp_reset(struct guard* self)', must_fire={'method:leave_region': 1, 'method:reset': 1}),
    dict(G, id='gp_reclaim', file=F, sig=GP + r'reclaim\(Deleter d\) noexcept',
         c_sig='static void gp_reclaim(struct guard* self, int d)',
         must_fire={'method:add_retired_node': 1, 'self_call:reset': 1, 'method:get': 1, 'method:set_deleter': 1}),
  ],
  runs=[
    dict(id='enter', entry='h_enter', defs={'XV_STUB_PROCESS': 1}, unwindset=UW, cls='unbounded'),
    dict(id='leave', entry='h_leave', defs={'XV_STUB_PROCESS': 1}, unwindset=UW, cls='unbounded', note='process_local/global_nodes replaced by their contracts'),
    dict(id='add_retired', entry='h_add_retired', defs={'XV_STUB_PROCESS': 1}, unwindset=UW, cls='unbounded', note='local list abstract: first node, last node, length'),
    dict(id='dtor', entry='h_dtor', defs={'LL': 3}, unwindset=UW, cls='shape-complete',
         note='~thread_data with the real process_local_nodes: local list of 0..3 nodes, arbitrary stamps, arbitrary tail stamp (any prefix is freed); with and without control block'),
    dict(id='local', entry='h_local', defs={'LL': 3}, unwindset=UW, cls='shape-complete', note='local list of 0..3 nodes, arbitrary stamps'),
    dict(id='local5', entry='h_local', defs={'LL': 5}, unwindset=UW, tiers=['thorough'], cls='shape-complete', note='local list of 0..5 nodes'),
    dict(id='global', entry='h_global', unwindset=UW, cls='shape-complete',
         note='chain of up to 3 chunks (local list + two global chunks) of up to 2 nodes, arbitrary stamps; the goto-restart loop is cut by invariant RESTART (any number of passes), tail stamp re-read arbitrarily (monotone)'),
    dict(id='gp_ctor', entry='h_gp_ctor', unwindset=UW, cls='unbounded'),
    dict(id='gp_assign', entry='h_gp_assign', unwindset=UW, cls='unbounded'),
    dict(id='gp_reset', entry='h_gp_reset', unwindset=UW, cls='unbounded'),
    dict(id='region_guard', entry='h_region_guard', unwindset=UW, cls='unbounded'),
    dict(id='gp_reclaim', entry='h_gp_reclaim', unwindset=UW, cls='unbounded'),
    dict(id='gp_acquire', entry='h_gp_acquire', unwindset=UW, cls='unbounded'),
    dict(id='gp_acquire_int', entry='h_gp_acquire', mode='INT', unwindset=UW, cls='unbounded', note='other threads store arbitrary values into p between the two loads'),
  ],
  obligations={
    'stamp.region.balanced': dict(deciding=True, text='region_entries changes by exactly (number of non-empty guards after) - (before) on every path of every guard operation and never underflows; enter_region pushes the control block only on 0->1, leave_region removes it only on 1->0'),
    'stamp.acquire.enter_before_load': dict(deciding=True, text='acquire/acquire_if_equal: the pointer kept is the value of the last load of p, with the caller\'s order, and that load ran with region_entries >= 1 (enter_region, if needed, before it)'),
    'stamp.retire.stamped_with_head': dict(deciding=True, text='add_retired_node stamps the node with the value of head_stamp() read during the call (exactly one read)'),
    'stamp.free.below_tail': dict(deciding=True, text='delete_self() only on nodes whose stamp is <= a tail_stamp() value read earlier in the same call (the code\'s comparison is stamp <= tail_stamp)'),
    'stamp.global.restart_progress': dict(deciding=True, text='process_global_nodes jumps back to restart only after a pass that deleted at least one node (so the number of passes is bounded by the number of nodes)'),
    'stamp.dtor.hands_over_all': dict(deciding=True, text='C02 at thread exit: ~thread_data releases the control block exactly once and every node of the local retire list is either deleted exactly once (stamp <= tail stamp read) or handed to add_to_global_retired_nodes exactly once as the whole remaining chain starting at first_retired_node - also when a single node remains; a thread without control block does nothing'),
    'stamp.conserve': dict(deciding=True, text='C02: add_retired_node / process_local_nodes / process_global_nodes (including the goto-restart chunk loop) / leave_region conserve the multiset of retired nodes: every node is deleted exactly once or kept exactly once (local list or the chunk list handed back); nodes outside are untouched; list bookkeeping (first/prev/count) stays exact'),
  },
  loop_obligation={'RESTART': 'stamp.conserve'},
  replays={'stamp.dtor.hands_over_all': dict(src='replay_retire.cpp'), 'stamp.conserve': dict(src='replay_retire.cpp'), 'stamp.free.below_tail': dict(src='replay_retire.cpp')},
  canaries=['region_guard.done', 'add_retired.append', 'add_retired.first', 'add_retired.threshold', 'dtor.all_deleted', 'dtor.deleted', 'dtor.empty_list', 'dtor.handed_over', 'dtor.no_control_block', 'dtor.single_node_left', 'dtor.whole_list_handed_over', 'enter.first_block', 'enter.nested', 'enter.outermost', 'global.all_deleted', 'global.deleted', 'global.kept', 'global.nothing', 'global.restart_taken', 'global.three_chunks_back', 'gp_acquire.entered', 'gp_acquire.first_load_failed', 'gp_acquire.if_equal', 'gp_acquire.kept_region', 'gp_acquire.plain', 'gp_acquire_int.second_load_failed', 'gp_copy_assign.done', 'gp_copy_assign.self', 'gp_copy_ctor.done', 'gp_ctor.nonnull', 'gp_ctor.null', 'gp_move_assign.done', 'gp_move_assign.self', 'gp_move_ctor.done', 'gp_reclaim.done', 'gp_reset.nonnull', 'gp_reset.null', 'leave.hand_over', 'leave.keep_local', 'leave.nested', 'leave.was_last', 'local.all_deleted', 'local.deleted', 'local.empty', 'local.kept', 'local.prefix'],
)
