// native replay for stamp.conserve / stamp.free.below_tail: the real stamp_it::thread_data::process_local_nodes /
// process_global_nodes from /repo on the node lists cbmc found.
//   process_local_nodes : in_len (0..6 nodes in the local list), in_s0..in_s5 stamps, in_tail (value of the queue's tail stamp)
//   ~thread_data        : in_dtor=1, in_len, in_s*, in_tail (the thread owns a control block; after the destructor every node must be deleted or in the global list)
//   process_global_nodes: in_g0,in_g1,in_g2 (nodes per chunk, chunk c = nodes 2c,2c+1), in_s0..in_s5, in_tail
// exit 0 holds, 1 violation reproduced, 2 cannot represent
#include <xenium/reclamation/stamp_it.hpp>
#include <cstdio>
#include <cstdlib>
#include <cstring>
#include <map>
#include <string>
using namespace xenium::reclamation;
static std::map<std::string, unsigned long long> args;
static int deleted[6];
struct mynode : stamp_it::deletable_object_with_stamp {
  int id; explicit mynode(int i) : id(i) {}
  void delete_self() override { deleted[id]++; this->next = reinterpret_cast<stamp_it::deletable_object_with_stamp*>(0x10); this->next_chunk = this->next; }   // freed: poison the links (kept allocated so that the check below can look)
};
int main(int argc, char** argv) {
  for (int i = 1; i < argc; ++i) { char* eq = strchr(argv[i], '='); if (!eq) continue; args[std::string(argv[i], eq - argv[i])] = strtoull(eq + 1, 0, 0); }
  size_t tail = args["in_tail"]; size_t st[6]; char nm[8];
  for (int i = 0; i < 6; ++i) { snprintf(nm, sizeof nm, "in_s%d", i); st[i] = args[nm]; }
  mynode* n[6]; for (int i = 0; i < 6; ++i) { n[i] = new mynode(i); n[i]->stamp = st[i]; }
  stamp_it::queue.tail->stamp.store(tail);
  stamp_it::thread_data td;
  int bad = 0;
  #define CHECK(c, ...) do { if (!(c)) { printf("VIOLATION: " __VA_ARGS__); printf("\n"); bad++; } } while (0)
  if (args["in_dtor"]) {
    unsigned len = (unsigned)args["in_len"]; if (len > 6) return 2;
    {
      stamp_it::thread_data t2;
      t2.control_block = stamp_it::queue.acquire_control_block();
      for (unsigned i = 0; i < len; ++i) n[i]->next = i + 1 < len ? n[i + 1] : nullptr;
      t2.first_retired_node = len ? n[0] : nullptr; t2.prev_retired_node = len ? &n[len - 1]->next : &t2.first_retired_node; t2.number_of_retired_nodes = len;
    }   // ~thread_data runs here
    int kept[6] = {};
    for (auto* c = stamp_it::queue.global_retired_nodes.load(); c; c = c->next_chunk) {
      int guard = 0;
      for (auto* x = c; x; x = x->next) { if (x == reinterpret_cast<stamp_it::deletable_object_with_stamp*>(0x10) || ++guard > 8) { CHECK(false, "freed node reachable from the global list"); break; }
        kept[static_cast<mynode*>(x)->id]++; }
    }
    for (unsigned i = 0; i < 6; ++i) {
      if (i < len) { CHECK(deleted[i] + kept[i] == 1, "node %u of the exiting thread: deleted %d times, handed to the global list %d times", i, deleted[i], kept[i]);
                     CHECK(!deleted[i] || st[i] <= tail, "node %u deleted with stamp %zu > tail stamp %zu", i, st[i], tail); }
      else CHECK(deleted[i] == 0 && kept[i] == 0, "foreign node %u touched", i);
    }
    printf("~thread_data: %d violations\n", bad);
  } else if (args.count("in_g0") || args.count("in_g1") || args.count("in_g2")) {
    unsigned g[3] = {(unsigned)args["in_g0"], (unsigned)args["in_g1"], (unsigned)args["in_g2"]};
    if (g[0] > 2 || g[1] > 2 || g[2] > 2) return 2;
    bool used[6] = {};
    stamp_it::deletable_object_with_stamp* head = nullptr; stamp_it::deletable_object_with_stamp** link = &head;
    for (unsigned c = 0; c < 3; ++c) { if (!g[c]) continue; used[2 * c] = true; n[2 * c]->next = g[c] > 1 ? n[2 * c + 1] : nullptr; if (g[c] > 1) used[2 * c + 1] = true;
      *link = n[2 * c]; link = &n[2 * c]->next_chunk; }
    stamp_it::queue.global_retired_nodes.store(head);
    td.process_global_nodes();
    int kept[6] = {};
    for (auto* c = stamp_it::queue.global_retired_nodes.load(); c; c = c->next_chunk) {
      int guard = 0;
      for (auto* x = c; x; x = x->next) { if (x == reinterpret_cast<stamp_it::deletable_object_with_stamp*>(0x10) || ++guard > 8) { CHECK(false, "freed node reachable from the global list"); break; }
        kept[static_cast<mynode*>(x)->id]++; }
    }
    for (int i = 0; i < 6; ++i) {
      if (used[i]) { CHECK(deleted[i] + kept[i] == 1, "node %d: deleted %d times, kept %d times", i, deleted[i], kept[i]); CHECK(!deleted[i] || st[i] <= tail, "node %d deleted with stamp %zu > tail stamp %zu", i, st[i], tail); }
      else CHECK(deleted[i] == 0 && kept[i] == 0, "foreign node %d touched", i);
    }
    printf("process_global_nodes: %d violations\n", bad);
  } else {
    unsigned len = (unsigned)args["in_len"]; if (len > 6) return 2;
    for (unsigned i = 0; i < len; ++i) n[i]->next = i + 1 < len ? n[i + 1] : nullptr;
    td.first_retired_node = len ? n[0] : nullptr; td.prev_retired_node = len ? &n[len - 1]->next : &td.first_retired_node; td.number_of_retired_nodes = len;
    td.process_local_nodes();
    int kept[6] = {}; size_t cnt = 0; int guard = 0;
    for (auto* x = td.first_retired_node; x; x = x->next) { if (x == reinterpret_cast<stamp_it::deletable_object_with_stamp*>(0x10) || ++guard > 8) { CHECK(false, "freed node left in the local list"); break; } kept[static_cast<mynode*>(x)->id]++; cnt++; }
    for (unsigned i = 0; i < 6; ++i) {
      if (i < len) { CHECK(deleted[i] + kept[i] == 1, "node %u: deleted %d times, kept %d times", i, deleted[i], kept[i]); CHECK(!deleted[i] || st[i] <= tail, "node %u deleted with stamp %zu > tail stamp %zu", i, st[i], tail); }
      else CHECK(deleted[i] == 0 && kept[i] == 0, "foreign node %u touched", i);
    }
    CHECK(td.number_of_retired_nodes == cnt, "number_of_retired_nodes %zu != length %zu", td.number_of_retired_nodes, cnt);
    CHECK(*td.prev_retired_node == nullptr && (cnt != 0 || td.prev_retired_node == &td.first_retired_node), "prev_retired_node does not address the list end");
    td.first_retired_node = nullptr; td.number_of_retired_nodes = 0;
    printf("process_local_nodes: %d violations\n", bad);
  }
  return bad ? 1 : 0;
}
