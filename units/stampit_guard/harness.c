/* unit stampit_guard - stamp_it: guard_ptr operations, enter/leave_region, retire side.  thread_order_queue is TRUSTED (contract stubs).
 * Function bodies come from lowered.h (generated from /repo on every run). */
#include <stdint.h>
#include <stddef.h>
static void mon_load(void* addr, uint64_t v, int o);
#define XV_ON_LOAD(addr, val, order) mon_load((void*)(addr), (uint64_t)(val), (order))
#include "xv.h"
int xv_threw; uint64_t xv_clock, xv_rmw_old; _Bool xv_cas_ok;

typedef uintptr_t mptr;             /* marked_ptr<T,N>: one word; operator bool and ==/!= compare the word (marked_ptr.hpp:88,100) */
typedef size_t stamp_t;
struct node { struct node* next; struct node* next_chunk; stamp_t stamp; unsigned deleted; };
struct thread_data { uintptr_t control_block; unsigned region_entries; size_t number_of_retired_nodes;
                     struct node* first_retired_node; struct node** prev_retired_node; };
struct guard { mptr ptr; };
int queue;                           /* stamp_it::queue: only ever a receiver of stubbed calls */
struct thread_data xv_td;            /* local_thread_data() */
#define local_thread_data() xv_td
#define XV_MIN(a, b) ((a) < (b) ? (a) : (b))

/* ================= TRUSTED thread_order_queue: contract stubs ================= */
unsigned q_push_n, q_remove_n; uintptr_t q_push_block, q_remove_block; unsigned q_push_re, q_remove_re; uint64_t q_push_clk;
_Bool in_was_last;
static void q_push(uintptr_t block) { q_push_n++; q_push_block = block; q_push_re = xv_td.region_entries; q_push_clk = ++xv_clock; }
static _Bool q_remove(uintptr_t block) { q_remove_n++; q_remove_block = block; q_remove_re = xv_td.region_entries; return in_was_last; }
#define Q_push(q, b) q_push(b)
#define Q_remove(q, b) q_remove(b)
unsigned q_acq_n;
static uintptr_t q_acquire_control_block(void) { uintptr_t b = nondet_uptr(); XV_ASSUME(b != 0); q_acq_n++; return b; }
#define Q_acquire_control_block(q) q_acquire_control_block()
unsigned cb_abandon_n; uintptr_t cb_abandon_block;     /* thread_control_block::abandon(): the entry goes back to the global block list */
static void cb_abandon(void);
#define CB_abandon(x) cb_abandon()
unsigned q_head_reads; stamp_t q_head_val;
static stamp_t q_head_stamp(void) { q_head_reads++; q_head_val = nondet_size(); return q_head_val; }
#define Q_head_stamp(q) q_head_stamp()
unsigned q_tail_reads; stamp_t q_tail_max;      /* tail stamp: monotone */
size_t in_tail, in_s0, in_s1, in_s2, in_s3, in_s4, in_s5; unsigned in_g0, in_g1, in_g2;   /* inputs for the native replay */
static stamp_t q_tail_stamp(void) { stamp_t v = nondet_size(); XV_ASSUME(v >= q_tail_max); q_tail_max = v; q_tail_reads++; if (q_tail_reads == 1) in_tail = v; return v; }
#define Q_tail_stamp(q) q_tail_stamp()
struct node* q_global_head; unsigned q_steal_n;
static struct node* q_steal_global(void) { struct node* r = q_global_head; q_global_head = 0; q_steal_n++; return r; }
#define Q_steal_global(q) q_steal_global()
unsigned q_add_n; struct node* q_add_first; struct node* q_add_last; _Bool q_add_bad;
static void q_add2(struct node* first, struct node* last) {
  if (first == 0 || last == 0) { q_add_bad = 1; return; }      /* the queue's own precondition (assert at :171) */
  q_add_n++; q_add_first = first; q_add_last = last;
  last->next_chunk = 0;                                           /* = the previous global head; nothing else is there in this harness */
}
static void q_add1(struct node* chunk) { q_add2(chunk, chunk); }  /* :168 */
#define Q_add_global(q, ...) XV_PICK2(__VA_ARGS__, q_add2, q_add1)(__VA_ARGS__)

/* delete_self(): count, check the stamp against the tail stamps read so far, then poison the node */
/* freed or never-initialised memory: every such pointer leads to the poison node (a list end with an arbitrary stamp);
 * deleting it or finding it in a list is a violation.  (Arbitrary integers cast to pointers would say the same but make symbolic execution explode.) */
struct node poison; _Bool del_bad_stamp, del_poison; unsigned del_count, del_at_restart;
static struct node* junk(void) { return nondet_bool() ? &poison : 0; }
static void n_delete_self(struct node* n) {
  if (n == &poison) { del_poison = 1; return; }
  if (!(q_tail_reads >= 1 && n->stamp <= q_tail_max)) del_bad_stamp = 1;
  n->deleted++; del_count++;
  n->next = &poison; n->next_chunk = &poison; n->stamp = nondet_size();   /* freed: whoever reads these fields lands on the poison node */
}
#define N_delete_self(x) n_delete_self(&(x))

/* ================= glue, switchable between contract stubs and the real text ================= */
static void sg_process_local_nodes(struct thread_data* self);
static void sg_process_global_nodes(struct thread_data* self);
static void sg_enter_region(struct thread_data* self);
static void sg_leave_region(struct thread_data* self);
static void sg_add_retired_node(struct thread_data* self, struct node* p);
static void gp_reset(struct guard* self);
unsigned st_local_n, st_global_n; size_t in_local_left; struct node* in_local_first;
static void stub_process_local_nodes(struct thread_data* td) {
  /* contract (proved by run local): deletes a prefix; the rest is a well-formed list of number_of_retired_nodes nodes */
  st_local_n++; td->number_of_retired_nodes = in_local_left; td->first_retired_node = in_local_first;
  XV_ASSUME((in_local_left == 0) == (in_local_first == 0));
  if (in_local_first == 0) td->prev_retired_node = &td->first_retired_node;
}
static void stub_process_global_nodes(struct thread_data* td) {
  st_global_n++; td->number_of_retired_nodes = 0; td->first_retired_node = 0; td->prev_retired_node = &td->first_retired_node;
}
#ifdef XV_STUB_PROCESS
#define SG_process_local_nodes(self) stub_process_local_nodes(self)
#define SG_process_global_nodes(self) stub_process_global_nodes(self)
#else
#define SG_process_local_nodes(self) sg_process_local_nodes(self)
#define SG_process_global_nodes(self) sg_process_global_nodes(self)
#endif
/* guard operations see the contract of enter/leave_region/add_retired_node (proved by runs enter, leave, add_retired) */
unsigned td_enter_n, td_leave_n, td_add_n; _Bool td_leave_bad; uint64_t td_enter_clk; struct node* td_add_node; unsigned td_add_re;
static void stub_enter_region(struct thread_data* td) { td->region_entries++; td_enter_n++; td_enter_clk = ++xv_clock; }
static void stub_leave_region(struct thread_data* td) { if (td->region_entries == 0) td_leave_bad = 1; td->region_entries--; td_leave_n++; }
static void stub_add_retired_node(struct thread_data* td, struct node* n) { td_add_n++; td_add_node = n; td_add_re = td->region_entries; }
#define TD_enter_region(td) stub_enter_region(&(td))
#define TD_leave_region(td) stub_leave_region(&(td))
#define TD_add_retired_node(td, n) stub_add_retired_node(&(td), (n))
#define MP_reset(x) ((x) = 0)
#define PTR_MASK (~(uintptr_t)0x3)                 /* marked_ptr::get(): strips the mark bits (here: 2) */
#define MP_get(x) ((struct node*)((x) & PTR_MASK))
#define X_set_deleter(x, d) ((void)0)
#define XV_INIT_base(self, v) ((self)->ptr = (v))
#define MarkedPtr(g) ((g).ptr)                     /* guard_ptr::operator MarkedPtr() */
static void gp_ctor(struct guard* self, mptr p);
#define XV_INIT_guard_ptr(self, v) gp_ctor((self), (v))   /* delegating constructor */

/* monitor: every load of the concurrent_ptr p records the region count at that moment */
mptr* mon_p; unsigned ld_n; unsigned ld_re; uint64_t ld_clk, ld_val; int ld_order;
static void mon_load(void* addr, uint64_t v, int o) {
  if (addr == (void*)mon_p) { ld_n++; ld_re = xv_td.region_entries; ld_clk = xv_clock; ld_val = v; ld_order = o; }
}
#ifdef XV_INT
void xv_env(void) { if (mon_p) *mon_p = nondet_uptr(); }      /* other threads store anything into p at any time */
#endif

/* hooks of the restart-loop cut (definitions of the helpers further down) */
static _Bool j_conserved(struct node* head, struct node* last); static _Bool td_list_empty(void);
static void havoc_heap(void); static struct node* build_chain(void); static void pick_j(void);
extern unsigned g_n[3]; extern _Bool restart_seen; extern size_t in_tail;
#define XV_INV_RESTART (cur_chunk != 0 && j_conserved(cur_chunk, 0) && q_tail_reads >= 1 && tail_stamp <= q_tail_max && !del_bad_stamp && !del_poison \
                        && q_add_n == 0 && !q_add_bad && td_list_empty() && q_steal_n == 1)
#define XV_RESTART_ENTRY() do { if (!restart_seen) { restart_seen = 1; \
    __CPROVER_assert(XV_INV_RESTART, "LOOPBASE:RESTART"); \
    havoc_heap(); XV_ASSUME(g_n[0] + g_n[1] + g_n[2] > 0); cur_chunk = build_chain(); pick_j(); \
    tail_stamp = nondet_size(); q_tail_max = nondet_size(); q_tail_reads = nondet_uint(); __CPROVER_assume(q_tail_reads < 0x7fffffffu); \
    __CPROVER_assume(XV_INV_RESTART); del_count = 0; in_tail = tail_stamp; } } while (0)
#define XV_RESTART_BACK() do { __CPROVER_assert(XV_INV_RESTART, "LOOPSTEP:RESTART"); XV_CANARY("global.restart_taken"); \
    XV_OBL("stamp.global.restart_progress", del_count >= 1); /* a pass that restarts has deleted a node: at most (#nodes) restarts */ \
    __CPROVER_assume(0); } while (0)


#include "lowered.h"

static void cb_abandon(void) { cb_abandon_n++; cb_abandon_block = xv_td.control_block; }

/* ================= state ================= */
#ifndef NN
#define NN 6
#endif
/* six separate objects, not an array: cbmc keeps pointer offsets exact per object, so interior pointers (struct node**) stay cheap */
struct node xv_n0, xv_n1, xv_n2, xv_n3, xv_n4, xv_n5;
static struct node* ND(unsigned i) { return i == 0 ? &xv_n0 : i == 1 ? &xv_n1 : i == 2 ? &xv_n2 : i == 3 ? &xv_n3 : i == 4 ? &xv_n4 : &xv_n5; }
unsigned in_dtor;
static void reset_ghost(void) {
  xv_clock = 1; xv_threw = 0;
  cb_abandon_n = 0; cb_abandon_block = 0; in_dtor = 0;
  q_push_n = q_remove_n = q_acq_n = q_head_reads = q_tail_reads = q_steal_n = q_add_n = 0; q_tail_max = 0; q_add_bad = 0; q_add_first = q_add_last = 0;
  q_push_block = q_remove_block = 0; q_push_re = q_remove_re = 0; q_push_clk = 0; q_global_head = 0; del_bad_stamp = 0; del_poison = 0; del_count = 0; del_at_restart = 0;
  poison.next = 0; poison.next_chunk = 0; poison.stamp = nondet_size(); poison.deleted = 0;
  st_local_n = st_global_n = 0; td_enter_n = td_leave_n = td_add_n = 0; td_leave_bad = 0; td_enter_clk = 0; td_add_node = 0;
  ld_n = 0; ld_re = 0; ld_clk = 0; ld_val = 0; mon_p = 0;
  in_was_last = nondet_bool(); in_local_left = nondet_size(); in_local_first = nondet_bool() ? ND(0) : 0;
}
static void record_stamps(void);
static void havoc_td(void) {
  xv_td.control_block = nondet_uptr(); xv_td.region_entries = nondet_uint(); xv_td.number_of_retired_nodes = nondet_size();
  xv_td.first_retired_node = nondet_bool() ? ND(NN - 1) : junk(); xv_td.prev_retired_node = nondet_bool() ? &ND(NN - 1)->next : &xv_td.first_retired_node;
  for (int i = 0; i < NN; ++i) { ND(i)->next = junk(); ND(i)->next_chunk = junk(); ND(i)->stamp = nondet_size(); ND(i)->deleted = 0; }
  reset_ghost();
}

static void record_stamps(void) { in_s0 = ND(0)->stamp; in_s1 = ND(1)->stamp; in_s2 = ND(2)->stamp; in_s3 = ND(3)->stamp; in_s4 = ND(4)->stamp; in_s5 = ND(5)->stamp; }

/* ================= enter_region / leave_region ================= */
void h_enter(void) {
  havoc_td();
  unsigned re = xv_td.region_entries; uintptr_t cb = xv_td.control_block;
  XV_ASSUME(re < 0xffffffffu);
  XV_ASSUME(re == 0 || cb != 0);                   /* inside a region the thread has its control block */
  struct node* f = xv_td.first_retired_node; struct node** pr = xv_td.prev_retired_node; size_t nr = xv_td.number_of_retired_nodes;
  sg_enter_region(&xv_td);
  XV_OBL("stamp.region.balanced", xv_td.region_entries == re + 1);
  XV_OBL("stamp.region.balanced", q_push_n == (re == 0 ? 1u : 0u) && q_remove_n == 0);                 /* push only on 0 -> 1 */
  if (re == 0) {
    XV_OBL("stamp.region.balanced", q_push_block == xv_td.control_block && xv_td.control_block != 0 && q_push_re == 1);
    XV_OBL("stamp.region.balanced", cb != 0 ? (xv_td.control_block == cb && q_acq_n == 0) : q_acq_n == 1);
    if (cb == 0) XV_CANARY("enter.first_block"); else XV_CANARY("enter.outermost");
  } else { XV_OBL("stamp.region.balanced", xv_td.control_block == cb && q_acq_n == 0); XV_CANARY("enter.nested"); }
  XV_OBL("stamp.region.balanced", xv_td.first_retired_node == f && xv_td.prev_retired_node == pr && xv_td.number_of_retired_nodes == nr && q_add_n == 0);
}
void h_leave(void) {
  havoc_td();
  unsigned re = xv_td.region_entries; uintptr_t cb = xv_td.control_block;
  XV_ASSUME(re >= 1 && cb != 0);
  struct node* f = xv_td.first_retired_node; struct node** pr = xv_td.prev_retired_node; size_t nr = xv_td.number_of_retired_nodes;
  sg_leave_region(&xv_td);
  XV_OBL("stamp.region.balanced", xv_td.region_entries == re - 1 && xv_td.control_block == cb);
  XV_OBL("stamp.region.balanced", q_remove_n == (re == 1 ? 1u : 0u) && q_push_n == 0);                 /* remove only on 1 -> 0 */
  if (re == 1) {
    XV_OBL("stamp.region.balanced", q_remove_block == cb && q_remove_re == 0);
    if (in_was_last) {
      XV_OBL("stamp.conserve", st_global_n == 1 && st_local_n == 0 && q_add_n == 0);
      XV_CANARY("leave.was_last");
    } else {
      XV_OBL("stamp.conserve", st_global_n == 0 && st_local_n == 1 && !q_add_bad);
      if (in_local_left > max_remaining_retired_nodes) {
        /* the whole remaining local list becomes one global chunk, the local list is empty */
        XV_OBL("stamp.conserve", q_add_n == 1 && q_add_first == in_local_first && q_add_last == in_local_first);
        XV_OBL("stamp.conserve", xv_td.first_retired_node == 0 && xv_td.prev_retired_node == &xv_td.first_retired_node && xv_td.number_of_retired_nodes == 0);
        XV_CANARY("leave.hand_over");
      } else {
        XV_OBL("stamp.conserve", q_add_n == 0 && xv_td.first_retired_node == in_local_first && xv_td.number_of_retired_nodes == in_local_left);
        XV_CANARY("leave.keep_local");
      }
    }
  } else {
    XV_OBL("stamp.conserve", st_global_n == 0 && st_local_n == 0 && q_add_n == 0 && xv_td.first_retired_node == f && xv_td.prev_retired_node == pr && xv_td.number_of_retired_nodes == nr);
    XV_CANARY("leave.nested");
  }
}

/* ================= add_retired_node ================= */
/* the local list is abstract: its first node F and its last node T (node 0); P (node 1) is the node being retired */
void h_add_retired(void) {
  havoc_td();
  struct node* T = ND(0); struct node* P = ND(1);
  _Bool empty = nondet_bool(); size_t nr = xv_td.number_of_retired_nodes;
  XV_ASSUME(nr < (size_t)-1 && (nr == 0) == empty);
  struct node* F = xv_td.first_retired_node;
  if (empty) { xv_td.first_retired_node = 0; F = 0; xv_td.prev_retired_node = &xv_td.first_retired_node; }
  else { XV_ASSUME(F != 0 && F != P); T->next = 0; xv_td.prev_retired_node = &T->next; }
  P->next = 0; P->next_chunk = 0;                  /* a freshly retired node (deletable_object_with_stamp's initialisers) */
  struct node t0 = *T;
  XV_ASSUME(xv_td.region_entries >= 1);
  sg_add_retired_node(&xv_td, P);
  XV_OBL("stamp.retire.stamped_with_head", q_head_reads == 1 && P->stamp == q_head_val);
  _Bool over = (nr + 1 > try_reclaim_threshold);
  XV_OBL("stamp.conserve", st_local_n == (over ? 1u : 0u) && st_global_n == 0 && q_add_n == 0 && P->deleted == 0 && T->deleted == 0);
  if (!over) {
    XV_OBL("stamp.conserve", xv_td.number_of_retired_nodes == nr + 1 && xv_td.prev_retired_node == &P->next && P->next == 0);
    XV_OBL("stamp.conserve", empty ? xv_td.first_retired_node == P : (xv_td.first_retired_node == F && T->next == P && T->stamp == t0.stamp));
    if (empty) XV_CANARY("add_retired.first"); else XV_CANARY("add_retired.append");
  } else XV_CANARY("add_retired.threshold");
  XV_OBL("stamp.region.balanced", q_push_n == 0 && q_remove_n == 0);
}

/* ================= process_local_nodes (shape: list of 0..LL nodes) ================= */
#ifndef LL
#define LL 3
#endif
unsigned in_len; unsigned in_j;
_Bool reach_poison;
static unsigned reach_list(struct node* first, struct node* target, unsigned bound) {
  unsigned c = 0; struct node* n = first;
  for (unsigned i = 0; i < bound && n != 0; ++i) { if (n == &poison) { reach_poison = 1; break; } if (n == target) c++; n = n->next; }
  return c;
}
void h_local(void) {
  havoc_td();
  in_len = nondet_uint(); in_j = nondet_uint(); XV_ASSUME(in_len <= LL && in_j < NN);
  for (unsigned i = 0; i < LL; ++i) if (i < in_len) ND(i)->next = (i + 1 < in_len) ? ND(i + 1) : 0;
  xv_td.first_retired_node = in_len ? ND(0) : 0;
  xv_td.prev_retired_node = in_len ? &ND(in_len - 1)->next : &xv_td.first_retired_node;
  xv_td.number_of_retired_nodes = in_len;
  struct node j0 = (*ND(in_j)); unsigned re = xv_td.region_entries; record_stamps();
  sg_process_local_nodes(&xv_td);
  unsigned ndel = 0; for (unsigned i = 0; i < NN; ++i) ndel += ND(i)->deleted;
  unsigned r = reach_list(xv_td.first_retired_node, ND(in_j), LL + 1);
  XV_OBL("stamp.free.below_tail", !del_bad_stamp && !del_poison && q_tail_reads == 1);
  XV_OBL("stamp.conserve", !reach_poison);                                        /* no freed node is left in the list */
  if (in_j < in_len) {
    XV_OBL("stamp.conserve", ND(in_j)->deleted + r == 1);                       /* deleted once or kept once */
    if (ND(in_j)->deleted) XV_OBL("stamp.free.below_tail", j0.stamp <= q_tail_max);
    else XV_OBL("stamp.conserve", ND(in_j)->stamp == j0.stamp && ND(in_j)->next == j0.next);
    if (ND(in_j)->deleted) XV_CANARY("local.deleted"); else XV_CANARY("local.kept");
  } else {
    XV_OBL("stamp.conserve", ND(in_j)->deleted == 0 && r == 0 && ND(in_j)->stamp == j0.stamp && ND(in_j)->next == j0.next && ND(in_j)->next_chunk == j0.next_chunk);
  }
  XV_OBL("stamp.conserve", xv_td.number_of_retired_nodes == in_len - ndel);
  XV_OBL("stamp.conserve", xv_td.first_retired_node == (ndel < in_len ? ND(ndel) : 0));
  XV_OBL("stamp.conserve", xv_td.prev_retired_node == (ndel < in_len ? &ND(in_len - 1)->next : &xv_td.first_retired_node) && *xv_td.prev_retired_node == 0);
  XV_OBL("stamp.region.balanced", xv_td.region_entries == re && q_push_n == 0 && q_remove_n == 0 && q_add_n == 0 && q_steal_n == 0);
  if (in_len == LL && ndel == LL) XV_CANARY("local.all_deleted");
  if (in_len == 0) XV_CANARY("local.empty");
  if (ndel > 0 && ndel < in_len) XV_CANARY("local.prefix");
}

/* ================= ~thread_data (thread exit) ================= */
void h_dtor(void) {
  havoc_td();
  in_len = nondet_uint(); in_j = nondet_uint(); XV_ASSUME(in_len <= LL && in_j < NN);
  for (unsigned i = 0; i < LL; ++i) if (i < in_len) ND(i)->next = (i + 1 < in_len) ? ND(i + 1) : 0;
  xv_td.first_retired_node = in_len ? ND(0) : 0;
  xv_td.prev_retired_node = in_len ? &ND(in_len - 1)->next : &xv_td.first_retired_node;
  xv_td.number_of_retired_nodes = in_len;
  xv_td.region_entries = 0;                                   /* the destructor's own assert: no region is open at thread exit */
  uintptr_t cb = xv_td.control_block; struct node j0 = (*ND(in_j)); record_stamps(); in_dtor = 1;
  sg_thread_data_dtor(&xv_td);
  unsigned ndel = 0; for (unsigned i = 0; i < NN; ++i) ndel += ND(i)->deleted;
  unsigned handed = q_add_n ? reach_list(q_add_first, ND(in_j), LL + 1) : 0;
  if (cb == 0) {
    XV_OBL("stamp.dtor.hands_over_all", cb_abandon_n == 0 && ndel == 0 && q_add_n == 0 && q_tail_reads == 0 && xv_td.control_block == 0);
    XV_OBL("stamp.dtor.hands_over_all", xv_td.first_retired_node == (in_len ? ND(0) : 0) && xv_td.number_of_retired_nodes == in_len && ND(in_j)->next == j0.next && ND(in_j)->stamp == j0.stamp);
    XV_CANARY("dtor.no_control_block");
  } else {
    XV_OBL("stamp.dtor.hands_over_all", cb_abandon_n == 1 && cb_abandon_block == cb && xv_td.control_block == 0);     /* released exactly once */
    XV_OBL("stamp.dtor.hands_over_all", !del_bad_stamp && !del_poison && !reach_poison && !q_add_bad && q_tail_reads <= 1);   /* handing everything over without a reclaim attempt is allowed */
    XV_OBL("stamp.dtor.hands_over_all", ndel <= in_len && q_add_n == (ndel < in_len ? 1u : 0u));                         /* anything left => one hand-over */
    if (q_add_n) XV_OBL("stamp.dtor.hands_over_all", q_add_first == ND(ndel) && q_add_last == q_add_first);             /* the whole remaining chain, from its first node */
    if (in_j < in_len) {
      XV_OBL("stamp.dtor.hands_over_all", ND(in_j)->deleted + handed == 1);                                             /* deleted once or handed over once: nothing lost */
      if (ND(in_j)->deleted) { XV_OBL("stamp.dtor.hands_over_all", j0.stamp <= q_tail_max); XV_CANARY("dtor.deleted"); }
      else { XV_OBL("stamp.dtor.hands_over_all", ND(in_j)->stamp == j0.stamp); XV_CANARY("dtor.handed_over"); }
    } else {
      XV_OBL("stamp.dtor.hands_over_all", ND(in_j)->deleted == 0 && handed == 0 && ND(in_j)->stamp == j0.stamp && ND(in_j)->next == j0.next);
    }
    XV_OBL("stamp.region.balanced", q_push_n == 0 && q_remove_n == 0 && xv_td.region_entries == 0);
    if (in_len - ndel == 1 && in_len == LL) XV_CANARY("dtor.single_node_left");
    if (in_len > 0 && ndel == in_len) XV_CANARY("dtor.all_deleted");
    if (in_len == 0) XV_CANARY("dtor.empty_list");
    if (ndel == 0 && in_len == LL) XV_CANARY("dtor.whole_list_handed_over");
  }
}

/* ================= process_global_nodes ================= */
/* Shape: a chain of up to 3 chunks (linked by next_chunk) of up to 2 nodes each (linked by next); chunk c lives in (*ND(2c)), (*ND(2c+1))
 * (node identity is irrelevant to the code: it never compares or indexes nodes).  The goto-restart loop is cut at the label by the
 * unit-local hooks XV_RESTART_ENTRY / XV_RESTART_BACK (post_subst in unit.py) exactly like Route X cuts a while loop:
 * first arrival: assert INV, havoc, assume INV;  back edge: assert INV, stop. */
#ifndef G_MAX0
#define G_MAX0 2
#define G_MAX1 2
#define G_MAX2 2
#endif
unsigned g_n[3]; _Bool j_used; struct node j0; _Bool restart_seen;
static struct node* build_chain(void) {
  struct node* head = 0; struct node** link = &head;
  for (unsigned c = 0; c < 3; ++c) {
    if (g_n[c] == 0) continue;
    ND(2 * c)->next = g_n[c] > 1 ? ND(2 * c + 1) : 0; if (g_n[c] > 1) ND(2 * c + 1)->next = 0;
    *link = ND(2 * c); link = &ND(2 * c)->next_chunk;
  }
  *link = 0;
  return head;
}
static _Bool j_in_chain(void) { return (in_j & 1) < g_n[in_j >> 1]; }
_Bool walk_ok; unsigned walk_chunks;
static unsigned chain_reach(struct node* head, struct node* last, struct node* target) {
  /* number of occurrences of target; walk_ok = at most 3 chunks of at most 2 nodes, every chunk non-empty, ends at `last` if given */
  unsigned r = 0; struct node* c = head; walk_ok = 1; walk_chunks = 0;
  for (unsigned k = 0; k < 3 && c != 0; ++k) {
    walk_chunks++;
    if (c == &poison || c->next == &poison) { walk_ok = 0; break; }
    if (c == target) r++;
    if (c->next != 0) { if (c->next == target) r++; if (c->next->next != 0) walk_ok = 0; }
    if (last != 0 && c == last) { if (c->next_chunk != 0) walk_ok = 0; c = 0; } else c = c->next_chunk;
  }
  if (c != 0) walk_ok = 0;
  return r;
}
static _Bool j_conserved(struct node* head, struct node* last) {
  unsigned r = chain_reach(head, last, ND(in_j));
  if (!walk_ok) return 0;
  if (j_used) return ND(in_j)->deleted + r == 1 && (ND(in_j)->deleted || ND(in_j)->stamp == j0.stamp);
  return ND(in_j)->deleted == 0 && r == 0 && ND(in_j)->stamp == j0.stamp && ND(in_j)->next == j0.next && ND(in_j)->next_chunk == j0.next_chunk;
}
static _Bool td_list_empty(void) { return xv_td.first_retired_node == 0 && xv_td.prev_retired_node == &xv_td.first_retired_node; }
static void havoc_heap(void) {
  for (int i = 0; i < NN; ++i) { ND(i)->next = junk(); ND(i)->next_chunk = junk(); ND(i)->stamp = nondet_size(); ND(i)->deleted = 0; }
  g_n[0] = nondet_uint(); g_n[1] = nondet_uint(); g_n[2] = nondet_uint(); in_j = nondet_uint();
  XV_ASSUME(g_n[0] <= G_MAX0 && g_n[1] <= G_MAX1 && g_n[2] <= G_MAX2 && in_j < 6);
  in_g0 = g_n[0]; in_g1 = g_n[1]; in_g2 = g_n[2]; record_stamps();
}
static void pick_j(void) {
  if (j_in_chain()) j_used = 1; else { j_used = nondet_bool(); ND(in_j)->deleted = j_used ? 1 : 0; }
  j0 = (*ND(in_j));
}
void h_global(void) {
  havoc_td(); havoc_heap();
  /* chunk 0 is the thread's local list, chunks 1 and 2 are what steal_global_retired_nodes() returns */
  unsigned nl = g_n[0]; g_n[0] = 0; q_global_head = build_chain(); g_n[0] = nl;
  xv_td.first_retired_node = nl ? ND(0) : 0; if (nl) { ND(0)->next = nl > 1 ? ND(1) : 0; if (nl > 1) ND(1)->next = 0; }
  xv_td.prev_retired_node = nl ? &ND(nl - 1)->next : &xv_td.first_retired_node;
  xv_td.number_of_retired_nodes = nl;
  j_used = j_in_chain(); j0 = (*ND(in_j)); restart_seen = 0;
  unsigned re = xv_td.region_entries; _Bool nothing = (g_n[0] + g_n[1] + g_n[2] == 0);
  sg_process_global_nodes(&xv_td);
  XV_OBL("stamp.free.below_tail", !del_bad_stamp && !del_poison);
  XV_OBL("stamp.conserve", q_add_n <= 1 && !q_add_bad && q_steal_n == 1);
  XV_OBL("stamp.conserve", j_conserved(q_add_n ? q_add_first : 0, q_add_last));       /* deleted once, or kept once in what was handed back */
  XV_OBL("stamp.conserve", td_list_empty() && (xv_td.number_of_retired_nodes == 0 || (!restart_seen && nl == 0)));
  XV_OBL("stamp.region.balanced", xv_td.region_entries == re && q_push_n == 0 && q_remove_n == 0);
  if (!restart_seen) { XV_OBL("stamp.conserve", nothing && q_add_n == 0 && q_tail_reads == 1); XV_CANARY("global.nothing"); }
  else {
    if (j_used && ND(in_j)->deleted) XV_CANARY("global.deleted");
    if (j_used && !ND(in_j)->deleted) XV_CANARY("global.kept");
    if (q_add_n && walk_chunks == 3) XV_CANARY("global.three_chunks_back");
    if (q_add_n == 0) XV_CANARY("global.all_deleted");
  }
}
/* the number of retired nodes left in thread_data after process_global_nodes: stays whatever it was when the local list was already empty */

/* ================= guard_ptr operations ================= */
#define NZ(x) ((x) != 0 ? 1u : 0u)
static void guard_pre(struct guard* g, struct guard* o) {
  havoc_td();
  g->ptr = nondet_uptr(); o->ptr = nondet_uptr();
  /* invariant: every non-empty guard of this thread holds one region entry */
  XV_ASSUME(xv_td.region_entries >= NZ(g->ptr) + NZ(o->ptr) && xv_td.region_entries < 0xfffffff0u);
}
#define BALANCED(re0, before, after) (xv_td.region_entries - (re0) == (after) - (before) && !td_leave_bad)
void h_gp_ctor(void) {
  struct guard g, o; guard_pre(&g, &o); unsigned re = xv_td.region_entries; unsigned b = NZ(o.ptr);
  unsigned kind = nondet_uint(); mptr p = nondet_uptr(); mptr o0 = o.ptr;
  if (kind == 0) { gp_ctor(&g, p); XV_OBL("stamp.region.balanced", g.ptr == p && o.ptr == o0 && BALANCED(re, b, b + NZ(p)));
                   if (p) XV_CANARY("gp_ctor.nonnull"); else XV_CANARY("gp_ctor.null"); }
  else if (kind == 1) { gp_copy_ctor(&g, &o); XV_OBL("stamp.region.balanced", g.ptr == o0 && o.ptr == o0 && BALANCED(re, b, 2 * b)); XV_CANARY("gp_copy_ctor.done"); }
  else { gp_move_ctor(&g, &o); XV_OBL("stamp.region.balanced", g.ptr == o0 && o.ptr == 0 && BALANCED(re, b, b) && td_enter_n == 0 && td_leave_n == 0); XV_CANARY("gp_move_ctor.done"); }
}
void h_gp_assign(void) {
  struct guard g, o; guard_pre(&g, &o); unsigned re = xv_td.region_entries; unsigned b = NZ(g.ptr) + NZ(o.ptr);
  mptr g0 = g.ptr, o0 = o.ptr; unsigned kind = nondet_uint();
  if (kind == 0) { struct guard* r = gp_copy_assign(&g, &o);
    XV_OBL("stamp.region.balanced", r == &g && g.ptr == o0 && o.ptr == o0 && BALANCED(re, b, 2 * NZ(o0))); XV_CANARY("gp_copy_assign.done"); }
  else if (kind == 1) { struct guard* r = gp_move_assign(&g, &o);
    XV_OBL("stamp.region.balanced", r == &g && g.ptr == o0 && o.ptr == 0 && BALANCED(re, b, NZ(o0))); XV_CANARY("gp_move_assign.done"); }
  else if (kind == 2) { XV_ASSUME(xv_td.region_entries >= NZ(g.ptr)); struct guard* r = gp_copy_assign(&g, &g);
    XV_OBL("stamp.region.balanced", r == &g && g.ptr == g0 && BALANCED(re, 0, 0) && td_enter_n == 0 && td_leave_n == 0); XV_CANARY("gp_copy_assign.self"); }
  else { struct guard* r = gp_move_assign(&g, &g);
    XV_OBL("stamp.region.balanced", r == &g && g.ptr == g0 && BALANCED(re, 0, 0) && td_enter_n == 0 && td_leave_n == 0); XV_CANARY("gp_move_assign.self"); }
}
void h_region_guard(void) {
  struct guard g, o; guard_pre(&g, &o); unsigned re = xv_td.region_entries;
  sg_rg_ctor();
  XV_OBL("stamp.region.balanced", xv_td.region_entries == re + 1 && td_enter_n == 1 && td_leave_n == 0);
  sg_rg_dtor();
  XV_OBL("stamp.region.balanced", xv_td.region_entries == re && td_enter_n == 1 && td_leave_n == 1 && !td_leave_bad && g.ptr == g.ptr);
  XV_CANARY("region_guard.done");
}
void h_gp_reset(void) {
  struct guard g, o; guard_pre(&g, &o); unsigned re = xv_td.region_entries; mptr g0 = g.ptr;
  gp_reset(&g);
  XV_OBL("stamp.region.balanced", g.ptr == 0 && BALANCED(re, NZ(g0), 0) && td_leave_n == NZ(g0) && td_enter_n == 0);
  if (g0) XV_CANARY("gp_reset.nonnull"); else XV_CANARY("gp_reset.null");
}
void h_gp_reclaim(void) {
  struct guard g, o; guard_pre(&g, &o); unsigned re = xv_td.region_entries; mptr g0 = g.ptr;
  XV_ASSUME((g0 & PTR_MASK) != 0);                 /* reclaim dereferences the pointer: the guard holds an object */
  gp_reclaim(&g, 0);
  XV_OBL("stamp.region.balanced", g.ptr == 0 && BALANCED(re, 1, 0) && td_leave_n == 1 && td_enter_n == 0);
  XV_OBL("stamp.conserve", td_add_n == 1 && td_add_node == (struct node*)(g0 & PTR_MASK) && td_add_re == re);   /* retired exactly once, while still inside the region */
  XV_CANARY("gp_reclaim.done");
}
void h_gp_acquire(void) {
  struct guard g, o; guard_pre(&g, &o); unsigned re = xv_td.region_entries; mptr g0 = g.ptr;
  mptr cell = nondet_uptr(); int order = nondet_int(); mon_p = &cell; mptr o0 = o.ptr;
  _Bool eq = nondet_bool(); mptr expected = nondet_uptr(); _Bool res = 0; mptr cell0 = cell;
  if (eq) res = gp_acquire_if_equal(&g, &cell, expected, order); else gp_acquire(&g, &cell, order);
  mon_p = 0;
  XV_OBL("stamp.region.balanced", BALANCED(re, NZ(g0), NZ(g.ptr)));
  XV_OBL("stamp.region.balanced", td_enter_n <= 1 && td_leave_n <= 1);
  if (g.ptr != 0) {
    /* the value kept is the one returned by the last load, and that load ran inside the region (entered before it, if it had to be entered) */
    XV_OBL("stamp.acquire.enter_before_load", ld_n == 2 && g.ptr == (mptr)ld_val && ld_re >= 1 && ld_order == order);
    XV_OBL("stamp.acquire.enter_before_load", g0 != 0 ? td_enter_n == 0 : (td_enter_n == 1 && td_enter_clk < ld_clk));
    if (eq) XV_OBL("stamp.acquire.enter_before_load", res && g.ptr == expected);
    if (g0 == 0) XV_CANARY("gp_acquire.entered"); else XV_CANARY("gp_acquire.kept_region");
  } else {
    if (eq) XV_OBL("stamp.acquire.enter_before_load", res == (expected == 0 && ld_val == 0));
#ifdef XV_INT
    if (ld_n == 2) XV_CANARY("gp_acquire_int.second_load_failed");
#endif
    if (ld_n == 1) XV_CANARY("gp_acquire.first_load_failed");
  }
#ifndef XV_INT
  if (!eq) XV_OBL("stamp.acquire.enter_before_load", g.ptr == cell0);
  else XV_OBL("stamp.acquire.enter_before_load", res == (cell0 == expected) && g.ptr == ((cell0 == expected) ? cell0 : 0));
#endif
  XV_OBL("stamp.region.balanced", o.ptr == o0 && td_add_n == 0);
  if (eq) XV_CANARY("gp_acquire.if_equal"); else XV_CANARY("gp_acquire.plain");
}
