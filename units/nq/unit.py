import re
from xvlib import lower as L
Q = 'xenium/nikolaev_queue.hpp'
S = 'xenium/detail/nikolaev_scq.hpp'
U = 'xenium/utils.hpp'

def lift_lambdas(text, lw):
    """unit-local mechanical rule (same as unit nbq): a lambda expression in argument position is replaced by XV_CLOSURE_<k>(caps);
    the lambda bodies are extracted as functions of their own"""
    pat = re.compile(r'(?<=[(,])\s*\[([^\[\]]*)\]\s*\(([^()]*)\)\s*(->\s*[\w:<>]+\s*)?\{')
    k = 0
    while True:
        m = pat.search(text)
        if not m: return text
        b = m.end() - 1; e = L.match_brace(text, b)
        text = text[:m.start()] + ' XV_CLOSURE_%d(%s)' % (k, m.group(1).strip()) + text[e + 1:]
        lw.fire('lambda'); k += 1

PRE = [(r'\.(?:template )?dequeue<false, pop_retries>\(', '.dequeue_np(', 'tpl_dequeue'),
       (r'\.(?:template )?enqueue<false, false>\(', '.enqueue_ff(', 'tpl_enqueue_ff'),
       (r'\.(?:template )?enqueue<false, true>\(', '.enqueue_ft(', 'tpl_enqueue_ft'),
       (r'reinterpret_cast<T&>\(([^()]*)\)\.~T\(\);', r'XV_DESTROY(\1);', 'dtor_call'),
       (r'\bdata\.~T\(\);', 'XV_DESTROY(data);', 'dtor_call_ref'),
       (r'T& data = reinterpret_cast<T&>\(([^()]*)\);', r'T& data = \1;', 'storage_ref'),
       (r'new \(&(\w+\[\w+\])\) T\(std::move\((\w+)\)\);', r'XV_CONSTRUCT_MOVE(\1, \2);', 'placement_new'),
       (r'(\w+) = std::move\((\w+)\);', r'XV_MOVE_ASSIGN(\1, \2);', 'move_assign'),
       (r'new node\(std::move\((\w+)\)\)', r'XV_NEW_NODE_V(\1)', 'new_node_v'),
       (r'new node\(\)', 'XV_NEW_NODE()', 'new_node'),
       (r'\bdelete (\w+);', r'XV_DELETE_NODE(\1);', 'delete_node'),
       (r'\bguard_ptr n;', 'guard_ptr n = 0;', 'guard_default'),
       (r'marked_ptr expected\{nullptr\};', 'marked_ptr expected = 0;', 'brace_init')]
REFALIAS = [(r'__auto_type data_p = &\(([^;]*)\);\n#define data \(\*data_p\)', r'#define data (\1)', 'ref_alias')]   # T& data = <cell lvalue>: alias the lvalue instead of taking a pointer
RINGM = {'dequeue_np': 'RING_dequeue', 'enqueue_ff': 'RING_enqueue_ff', 'enqueue_ft': 'RING_enqueue_ft', 'finalize': 'RING_finalize',
         'set_threshold': 'RING_set_threshold'}
NODE = dict(file=Q, pre_subst=PRE, post_subst=REFALIAS, methods=RINGM, members=['_storage', '_allocated_queue', '_free_queue', '_next'],
            subst=[(r'\bvalue\b', '(*value_p)', 'value_ref')])
CTORPOST = [(r'detail::nikolaev_scq::', '', 'ns'), (r'\b(\w+)_tag\{\}', r'XV_TAG_\1', 'tag'), (r'new storage_t\[([^\]]*)\]', r'\1', 'new_array')]
QUEUE = dict(file=Q, pre_subst=PRE, post_subst=REFALIAS, members=['_tail', '_head'],
             methods=dict(RINGM, acquire='G_acquire', reclaim='G_reclaim', try_push='NODE_try_push', steal_init_value='NODE_steal_init_value', get='MP_get'),
             deref={'n': 'GDEREF', 'next': 'NDEREF', 'h': 'NDEREF'})
UNIT = dict(
  title='nikolaev_queue: node constructors / try_push / steal_init_value / ~node, queue push / try_pop / do_pop / constructor / destructor (C04, C07)',
  properties=['C04', 'C07'],
  drops='templates (T = a word with ghost alive/moved flags; entries_per_node = CAP; reclaimer = guard stub); the nikolaev_scq members are the abstract '
        'FIFO-of-indices contract proved in unit scq; node pointers / marked_ptr / guard_ptr are small integer handles into a pool of 3 nodes (0 = null); '
        'guard_ptr: acquire = load + protect, reclaim = retire once + reset, destructor at scope exit dropped; new node / delete run the real (lowered) node '
        'constructor / destructor on a pool slot; lambdas passed to do_pop are lifted to functions; enable_concurrent_ptr base class dropped',
  assumptions=['stub nikolaev_scq: sequential contract of unit scq, including scq.finalized.stable (fails on the unrepaired tree)',
               'stub guard_ptr: contract of the reclaimer units (acquire returns a protected snapshot of the cell; reclaim retires the node once)',
               'SEQ: queue states with at most 2 linked nodes (+1 freshly allocated); linearizability under interleaving is the lemma of C04'],
  consts=[dict(name='XV_POP_OPTIONAL_TARGET', file=Q, regex=r'::pop\(\) -> std::optional<value_type> \{\s*return (\w+)\(\s*\[\]\(auto& v\)'), dict(name='indexes_per_cacheline', file=S, regex=r'static constexpr std::size_t indexes_per_cacheline = ([^;]+);',
               subst=[(r'cacheline_size / sizeof\(index_t\)', '64 / sizeof(uint64_t)')]),
          dict(name='remap_shift', file=Q, regex=r'static constexpr unsigned remap_shift = ([^;]+);', subst=[(r'detail::nikolaev_scq::', '')])],
  ctypes={'value_type': 'T'},      # for helpers that are followed automatically
  sources=[
    dict(id='is_power_of_two', file=U, sig=r'constexpr bool is_power_of_two\(T val\)', c_sig='static _Bool is_power_of_two(uint64_t val)', must_fire={}),
    dict(id='find_last_bit_set', file=U, sig=r'constexpr unsigned find_last_bit_set\(T val\)', c_sig='static unsigned find_last_bit_set(uint64_t val)', must_fire={}),
    dict(id='calc_remap_shift', file=S, sig=r'static constexpr std::size_t calc_remap_shift\(std::size_t capacity\)',
         c_sig='static size_t calc_remap_shift(size_t capacity)', subst=[(r'utils::', '', 'utils_ns')], must_fire={'subst:utils_ns': 2}),
    # ---- node
    dict(NODE, id='node_ctor', sig=r'\bnode\(\)(?=\s*:)', ctor=True, c_sig='static void nq_node_ctor(struct node* self)', post_subst=CTORPOST + REFALIAS,
         must_fire={'ctor_init': 3, 'subst:ns': 2, 'subst:tag': 2, 'subst:new_array': 1}),
    dict(NODE, id='node_ctor_value', sig=r'explicit node\(value_type&& value\)', ctor=True, c_sig='static void nq_node_ctor_value(struct node* self, T* value_p)',
         post_subst=CTORPOST + REFALIAS, must_fire={'ctor_init': 3, 'subst:ns': 2, 'subst:tag': 2, 'subst:new_array': 1, 'subst:placement_new': 1, 'subst:value_ref': 1}),
    dict(NODE, id='node_dtor', sig=r'~node\(\) override', c_sig='static void nq_node_dtor(struct node* self)',
         must_fire={'subst:tpl_dequeue': 1, 'subst:dtor_call': 1, 'method:dequeue_np': 1}),
    dict(NODE, id='steal_init_value', sig=r'void steal_init_value\(value_type& value\)', c_sig='static void nq_node_steal_init_value(struct node* self, T* value_p)',
         must_fire={'subst:tpl_dequeue': 1, 'subst:tpl_enqueue_ff': 1, 'subst:storage_ref': 1, 'subst:move_assign': 1, 'subst:dtor_call_ref': 1, 'reference': 1, 'subst:ref_alias': 1,
                    'method:dequeue_np': 1, 'method:enqueue_ff': 1, 'subst:value_ref': 1}),
    dict(NODE, id='node_try_push', sig=r'bool try_push\(value_type&& value\)', c_sig='static _Bool nq_node_try_push(struct node* self, T* value_p)',
         must_fire={'subst:tpl_dequeue': 1, 'subst:tpl_enqueue_ff': 1, 'subst:tpl_enqueue_ft': 1, 'subst:placement_new': 1, 'subst:storage_ref': 1,
                    'subst:move_assign': 1, 'subst:dtor_call_ref': 1, 'reference': 1, 'subst:ref_alias': 1, 'method:finalize': 1,
                    'method:dequeue_np': 1, 'method:enqueue_ff': 1, 'method:enqueue_ft': 1, 'subst:value_ref': 2}),
    # ---- queue
    dict(QUEUE, id='ctor', sig=r'nikolaev_queue<T, Policies\.\.\.>::nikolaev_queue\(\)', c_sig='static void nq_ctor(struct nq* self)',
         must_fire={'subst:new_node': 1, 'A_STORE': 2}),
    dict(QUEUE, id='dtor', sig=r'nikolaev_queue<T, Policies\.\.\.>::~nikolaev_queue\(\)', c_sig='static void nq_dtor(struct nq* self)',
         must_fire={'subst:delete_node': 1, 'A_LOAD': 2, 'method:get': 2, 'deref:h': 1}),
    dict(QUEUE, id='push', sig=r'void nikolaev_queue<T, Policies\.\.\.>::push\(value_type value\)', c_sig='static void nq_push(struct nq* self, T value)',
         must_fire={'subst:guard_default': 1, 'subst:new_node_v': 1, 'subst:delete_node': 1, 'subst:brace_init': 1, 'method:acquire': 1, 'method:try_push': 1,
                    'method:steal_init_value': 1, 'A_LOAD': 2, 'A_CASW': 1, 'A_CAS': 2, 'deref:n': 3}),
    dict(id='try_pop_success', file=Q, sig=r'\[&result\]\(auto& v\)', c_sig='static _Bool nq_try_pop_success(T* result_p, T* v_p)', pre_subst=PRE,
         subst=[(r'\bresult\b', '(*result_p)', 'result_ref'), (r'\bv\b', '(*v_p)', 'v_ref')],
         must_fire={'subst:move_assign': 1, 'subst:result_ref': 1, 'subst:v_ref': 1}),
    dict(id='try_pop_empty', file=Q, sig=r'\[\]\(\)(?=\s*\{)', c_sig='static _Bool nq_try_pop_empty(void)', must_fire={}),
    # pop(): the std::optional flavour - its two lambdas, extracted as functions (std::optional<value_type> is a {present, value} pair; constructing it from std::move(v) is XV_OPT_FROM_MOVED)
    dict(id='pop_success', file=Q, sig=r'\[\]\(auto& v\) -> std::optional<value_type> ', c_sig='static struct xv_opt nq_pop_success(T* v_p)',
         pre_subst=[(r'return std::move\((\w+)\);', r'return XV_OPT_FROM_MOVED(\1);', 'opt_from_moved')], subst=[(r'\bv\b', '(*v_p)', 'v_ref')], must_fire={'subst:opt_from_moved': 1, 'subst:v_ref': 1}),
    dict(id='pop_empty', file=Q, sig=r'\[\]\(\) -> std::optional<value_type> ', c_sig='static struct xv_opt nq_pop_empty(void)', pre_subst=[(r'std::nullopt', 'XV_NULLOPT', 'nullopt')], must_fire={'subst:nullopt': 1}),
    dict(QUEUE, id='do_pop', sig=r'auto nikolaev_queue<T, Policies\.\.\.>::do_pop\(SuccessFunc successFunc, EmptyFunc emptyFunc\)',
         c_sig='static _Bool nq_do_pop(struct nq* self, T* successFunc, int emptyFunc)',
         calls={'successFunc': 'XV_CALL_SUCCESS', 'emptyFunc': 'XV_CALL_EMPTY'},
         must_fire={'subst:guard_default': 1, 'subst:tpl_dequeue': 2, 'subst:tpl_enqueue_ff': 1, 'subst:storage_ref': 1, 'subst:dtor_call_ref': 1, 'reference': 1, 'subst:ref_alias': 1,
                    'method:acquire': 1, 'method:reclaim': 1, 'method:set_threshold': 1, 'method:dequeue_np': 2, 'method:enqueue_ff': 1,
                    'A_LOAD': 2, 'A_CASW': 1, 'call:successFunc': 1, 'call:emptyFunc': 1}),
    # the same two functions once more with the retry loop cut by an invariant, for the INT (interference) runs
    dict(QUEUE, id='do_pop_int', sig=r'auto nikolaev_queue<T, Policies\.\.\.>::do_pop\(SuccessFunc successFunc, EmptyFunc emptyFunc\)',
         c_sig='static _Bool nq_do_pop_int(struct nq* self, T* successFunc, int emptyFunc)',
         calls={'successFunc': 'XV_CALL_SUCCESS', 'emptyFunc': 'XV_CALL_EMPTY'}, cut_loops={0: 'POP'},
         must_fire={'cut_loop': 1, 'A_LOAD': 2, 'A_CASW': 1, 'method:acquire': 1, 'method:reclaim': 1}),
    dict(QUEUE, id='push_int', sig=r'void nikolaev_queue<T, Policies\.\.\.>::push\(value_type value\)', c_sig='static void nq_push_int(struct nq* self, T value)',
         cut_loops={0: 'PUSH'}, must_fire={'cut_loop': 1, 'A_LOAD': 2, 'A_CASW': 1, 'A_CAS': 2, 'method:acquire': 1}),
    dict(id='try_pop', file=Q, sig=r'bool nikolaev_queue<T, Policies\.\.\.>::try_pop\(value_type& result\)',
         c_sig='static _Bool nq_try_pop(struct nq* self, T* result_p)', py_pre=lift_lambdas,
         subst=[(r'\bresult\b', '(*result_p)', 'result_ref')], self_calls={'do_pop': 'nq_do_pop'},
         must_fire={'lambda': 2, 'subst:result_ref': 1, 'self_call:do_pop': 1}),
  ],
  runs=[dict(id='pop_optional', entry='h_pop_optional', cls='unbounded', note='the functors of pop() against those of try_pop, every element value')] + [dict(id='%s_c%d' % (op, c), entry='h_' + op, defs={'CAP': c}, unwind=3 * c + 2, unwindset=['nq_push.0:4', 'nq_do_pop.0:4', 'nq_dtor.0:4', 'nq_node_dtor.0:%d' % (c + 2)], tiers=tiers, cls='shape-complete',
            note=note)
        for op, note in (('node_ctor', 'both node constructors'), ('node_try_push', 'from ANY node state of Inv_N incl. finalized'), ('steal', 'fresh private node'),
                         ('node_dtor', 'from ANY node state'), ('push', 'queue of 1 or 2 nodes in any Inv_N state, tail possibly lagging'),
                         ('pop', 'queue of 1 or 2 nodes in any Inv_N state'), ('push_race', 'one full/finalized node; a competing producer links its node between our allocation and our link CAS (interference injected at that point)'), ('ctor', ''), ('dtor', 'queue of 1 or 2 nodes'))
        for c, tiers in ((1, ['quick', 'thorough']), (2, ['quick', 'thorough']), (4, ['thorough']))
  ] + [
    dict(id='pop_int_c2', entry='h_pop_int', mode='INT', defs={'CAP': 2}, unwind=8, cls='unbounded',
         note='[INT] retry loop cut by invariant (any well-formed queue of <= 2 nodes, symbolic node contents); other threads may link / swing _tail / swing _head + retire between any two atomic accesses'),
    dict(id='push_int_c2', entry='h_push_int', mode='INT', defs={'CAP': 2}, unwind=8, cls='unbounded', note='[INT] as pop_int_c2'),
  ],
  obligations={
    'nq.pop_optional.same_as_try_pop': dict(deciding=True, text='pop() forwards to the same do_pop as try_pop; its success functor moves the element out of the cell exactly as try_pop does (the optional holds the value, the cell is left moved-from and alive for do_pop to destroy), its empty functor yields an empty optional'),
    'nq.sync.acquire': dict(deciding=True, text='sync precondition [INT runs]: the guard acquisitions of _tail / _head and the loads of a node\'s _next are acquire-or-stronger (they are how a node linked by another thread\'s release CAS is reached); the release side is part of nq.commit'),
    'nq.scq.requires': dict(deciding=True, text='every ring operation is called with (entries_per_node, remap_shift), an index < entries_per_node that is outside that ring; enqueue<false,false> only on the never-finalized free ring; set_threshold(3*entries_per_node-1)'),
    'nq.guard.protected': dict(deciding=True, text='a node is dereferenced only through the guard that currently protects it (or while it is still private / in the destructor), never after reclaim or delete'),
    'nq.node_ctor.inv': dict(deciding=True, text='node(): empty allocated ring, full free ring, no live cell; node(value): cell 0 holds the value, allocated = [0], free = [1..)'),
    'nq.inv.preserved': dict(deciding=True, text='every node keeps Inv_N (allocated ++ free is a permutation of the cell indices, alive iff allocated); the list stays well formed, successors only behind finalized nodes, _tail = last node after push'),
    'nq.push.appends': dict(deciding=True, text='push: abstract content (values node after node from head) becomes old ++ [v]; node::try_push succeeds iff the node has a free cell and is not finalized and then appends to that node'),
    'nq.push.rollback': dict(deciding=True, text='C07: node::try_push that fails (full, or finalized after the cell was constructed) and steal_init_value leave the value with the caller (same value, not moved-from) and no live cell behind; the index is released only after the cell is destroyed'),
    'nq.push.finalizes': dict(deciding=True, text='try_push on a node without a free cell finalizes its allocated ring and constructs nothing'),
    'nq.push.publish_order': dict(deciding=True, text='try_push: free-ring dequeue, placement-new, then allocated-ring enqueue'),
    'nq.push.hand_over': dict(deciding=True, text='when the tail node is full or finalized, push links exactly one new node behind it (holding the value), swings _tail to it and leaves the old node finalized'),
    'nq.pop.empty_iff': dict(deciding=True, text='try_pop returns false iff no node holds a value; result untouched'),
    'nq.pop.takes_first': dict(deciding=True, text='try_pop returns the first value of the abstract content and removes exactly it'),
    'nq.pop.destroy_before_release': dict(deciding=True, text='the popped cell is moved out, destroyed, and only then its index goes back to the free ring'),
    'nq.pop.empty_validated': dict(deciding=True, text='try_pop reports empty only if _next of the head node was null when read after the dequeue on that node had failed'),
    'nq.pop.hand_over': dict(deciding=True, text='do_pop unlinks and retires the head node exactly when it is empty and has a successor; never deletes, never retires the last node or a node holding values'),
    'nq.pop.threshold_reset': dict(deciding=True, text='before a node is declared drained its allocated ring threshold is reset to 3*entries_per_node-1 and dequeue is tried once more'),
    'nq.pop.retire_once': dict(deciding=True, text='reclaim is called on the protected node, once, after _head has been swung away from it'),
    'nq.node.delete_once': dict(deciding=True, text='delete only on a live node that was never published (push) or in the queue destructor, once; push and pop never delete a linked node'),
    'nq.commit': dict(deciding=True, text='every CAS on _head/_tail expects the node the guard protects (acquired before) and installs the successor read from that node after the acquire (or the node just allocated), release order; the link CAS is on the protected node\'s _next, expects null and installs the new node'),
    'nq.node.no_leak': dict(deciding=True, text='after push every live node is linked in the list: a private node that lost the link race has been deleted'),
    'nq.own.exactly_once': dict(deciding=True, text='C07: placement-new only into raw cells, ~T only on live cells, each element moved out at most once; per operation the number of constructions / destructions / move-outs is exactly what the operation specifies'),
    'nq.node_dtor.owned_only': dict(deciding=True, text='~node destroys exactly the cells whose index is in the allocated ring, once each (also on a finalized ring)'),
    'nq.ctor.inv': dict(deciding=True, text='nikolaev_queue(): one empty, not finalized node, _head == _tail'),
    'nq.dtor.owns': dict(deciding=True, text='~nikolaev_queue deletes every linked node once and thereby destroys exactly the values still stored'),
  },
  replays={k: dict(src='replay_nq.cpp') for k in ('nq.push.appends', 'nq.push.rollback', 'nq.push.hand_over', 'nq.pop.empty_iff', 'nq.pop.takes_first', 'nq.pop.hand_over', 'nq.own.exactly_once', 'nq.dtor.owns', 'nq.node_dtor.owned_only', 'nq.inv.preserved')},
  loop_obligation={'POP': 'nq.inv.preserved', 'PUSH': 'nq.push.rollback'},
  canaries=['pop_optional.reached', 'pop_int.took', 'pop_int.empty', 'commit.cas_checked', 'push_int.returned', 'push_int.linked', 'node_ctor.value', 'node_ctor.empty', 'node_push.stored', 'node_push.full', 'node_push.rolled_back', 'steal.done', 'node_dtor.full', 'node_dtor.empty',
            'node_dtor.finalized', 'push.in_tail_node', 'push.new_node', 'push.rolled_back_then_new_node', 'push.helped_tail', 'push_race.third_node', 'push_race.into_competitor_node', 'pop.took', 'pop.empty', 'pop.node_drained',
            'ctor.done', 'dtor.two_nodes', 'dtor.one_node'],
)
