// native replay for unit nq: builds the queue state described by the in_* inputs on the REAL nikolaev_queue (node rings re-initialised and
// filled in the requested order, second node linked by hand, first node finalized; -fno-access-control), runs the real push / try_pop /
// destructor / node::try_push / ~node and compares with the FIFO specification; elements are life-cycle tracked.
// exit 0 = holds, 1 = violation reproduced, 2 = cannot represent
#include <xenium/nikolaev_queue.hpp>
#include <xenium/reclamation/generic_epoch_based.hpp>
#include <cstdio>
#include <cstdlib>
#include <cstring>
#include <deque>
#include <map>
#include <new>
#include <set>
#include <string>
static std::map<std::string, unsigned long long> args;
static unsigned long long arg(const std::string& k, unsigned long long d = 0) { auto it = args.find(k); return it == args.end() ? d : it->second; }
static unsigned long long arr1(const char* n, unsigned i) { return arg(std::string(n) + "[" + std::to_string(i) + "]"); }
static unsigned long long arr2(const char* n, unsigned i, unsigned j) { return arg(std::string(n) + "[" + std::to_string(i) + "][" + std::to_string(j) + "]"); }
static std::set<const void*> live; static int errors = 0;
struct Tracked {
  unsigned long long v; bool moved = false;
  explicit Tracked(unsigned long long x = 0) : v(x) { reg(); }
  Tracked(Tracked&& o) noexcept : v(o.v) { if (o.moved) { printf("moved from a moved-from element\n"); errors++; } o.moved = true; reg(); }
  Tracked& operator=(Tracked&& o) noexcept { if (!live.count(this)) { printf("assignment to a dead object\n"); errors++; } if (o.moved) { printf("element moved out twice\n"); errors++; } v = o.v; moved = false; o.moved = true; return *this; }
  ~Tracked() { if (!live.erase(this)) { printf("destructor on raw / already destroyed storage\n"); errors++; } }
  void reg() { if (!live.insert(this).second) { printf("constructed over a live element\n"); errors++; } }
};
using scq = xenium::detail::nikolaev_scq;
template <unsigned CAP> int run() {
  using queue_t = xenium::nikolaev_queue<Tracked, xenium::policy::reclaimer<xenium::reclamation::epoch_based<>>, xenium::policy::entries_per_node<CAP>>;
  using node_t = typename queue_t::node;
  unsigned op = arg("in_op"), L = arg("in_L", 1); bool lag = arg("in_lag");
  if (op >= 3) L = 1;
  std::deque<unsigned long long> spec;
  auto fill = [&](node_t* n, unsigned s) -> bool {
    unsigned na = arr1("in_na", s); if (na > CAP) return false;
    std::set<unsigned long long> seen; for (unsigned i = 0; i < CAP; i++) if (arr2("in_perm", s, i) >= CAP || !seen.insert(arr2("in_perm", s, i)).second) return false;
    n->_allocated_queue.~scq(); new (&n->_allocated_queue) scq(CAP, queue_t::remap_shift, scq::empty_tag{});
    n->_free_queue.~scq(); new (&n->_free_queue) scq(CAP, queue_t::remap_shift, scq::empty_tag{});
    for (unsigned i = 0; i < CAP; i++) {
      unsigned long long idx = arr2("in_perm", s, i);
      if (i < na) { new (&n->_storage[idx]) Tracked(arr2("in_cellv", s, idx)); n->_allocated_queue.template enqueue<false, false>(idx, CAP, queue_t::remap_shift); spec.push_back(arr2("in_cellv", s, idx)); }
      else n->_free_queue.template enqueue<false, false>(idx, CAP, queue_t::remap_shift);
    }
    if (arr1("in_fin", s)) n->_allocated_queue.finalize();
    return true;
  };
  if (op >= 3) {            // node-level operations on a stand-alone node
    node_t* n = new node_t();
    if (!fill(n, 0)) { printf("inputs are not a node state\n"); return 2; }
    unsigned na = arr1("in_na", 0); bool fin = arr1("in_fin", 0);
    if (op == 3) {
      Tracked val(arg("in_v")); bool r = n->try_push(std::move(val)); bool expect = na < CAP && !fin;
      if (r != expect) { printf("node::try_push returned %d (%u of %u cells used, finalized=%d)\n", r, na, CAP, fin); errors++; }
      if (!r && (val.moved || val.v != arg("in_v"))) { printf("rejected value was not given back to the caller\n"); errors++; }
      if (r && !val.moved) { printf("accepted value was not moved\n"); errors++; }
      if (live.size() != na + (r ? 1 : 0) + 1) { printf("%zu live elements, expected %u\n", live.size(), na + (r ? 1 : 0) + 1); errors++; }
    }
    delete n;
    if (!live.empty()) { printf("%zu element(s) still alive after ~node (leak)\n", live.size()); errors++; }
    return errors ? 1 : 0;
  }
  alignas(queue_t) static unsigned char mem[sizeof(queue_t)];
  queue_t* q = new (mem) queue_t();
  node_t* n0 = q->_head.load().get();
  if (!fill(n0, 0)) { printf("inputs are not a queue state\n"); return 2; }
  if (L == 2) {
    node_t* n1 = new node_t(); if (!fill(n1, 1)) return 2;
    n0->_allocated_queue.finalize(); n0->_next.store(n1); if (!lag) q->_tail.store(n1);
  }
  if (op == 0) { unsigned long long v = arg("in_v"); q->push(Tracked(v)); spec.push_back(v); }
  else if (op == 1) {
    Tracked res(777); bool r = q->try_pop(res);
    if (r != !spec.empty()) { printf("try_pop returned %d with %zu elements stored\n", r, spec.size()); errors++; }
    if (r) { if (res.v != spec.front()) { printf("try_pop delivered %llu, the oldest element is %llu\n", res.v, spec.front()); errors++; } spec.pop_front(); }
    else if (res.v != 777) { printf("failed try_pop changed result\n"); errors++; }
  }
  if (op != 2) {
    Tracked res(0);
    for (size_t i = 0; i < spec.size(); i++) { if (!q->try_pop(res)) { printf("element %zu of %zu missing (lost)\n", i, spec.size()); errors++; break; } if (res.v != spec[i]) { printf("drain position %zu: got %llu, expected %llu\n", i, res.v, spec[i]); errors++; } }
    if (q->try_pop(res)) { printf("extra element %llu\n", res.v); errors++; }
    for (unsigned long long v : spec) q->push(Tracked(v));
  }
  q->~queue_t();
  // retired nodes are destroyed by the reclaimer later; force it by leaving a few critical regions
  for (int i = 0; i < 1000 && !live.empty(); i++) { typename xenium::reclamation::epoch_based<>::region_guard g; }
  if (!live.empty()) { printf("%zu element(s) still alive after the destructor (leak, or held by a retired node)\n", live.size()); errors++; }
  return errors ? 1 : 0;
}
int main(int argc, char** argv) {
  for (int i = 1; i < argc; ++i) {
    char* eq = strchr(argv[i], '='); if (!eq) continue;
    std::string k(argv[i], eq - argv[i]), v(eq + 1), nk;
    for (size_t p = 0; p < k.size(); p++) { if (k[p] == 'l' && p > 0 && isdigit(k[p - 1]) && p + 1 < k.size() && k[p + 1] == ']') continue; nk += k[p]; }
    if (v == "TRUE") args[nk] = 1; else if (v == "FALSE") args[nk] = 0; else if (v[0] == '{') continue; else args[nk] = strtoull(v.c_str(), 0, 0);
  }
  int rc;
  switch (arg("in_cap", 2)) { case 1: rc = run<1>(); break; case 2: rc = run<2>(); break; case 4: rc = run<4>(); break; default: printf("entries_per_node not instantiated\n"); return 2; }
  printf(rc == 1 ? "VIOLATION reproduced on the real nikolaev_queue\n" : rc == 0 ? "contract holds on the real nikolaev_queue\n" : "cannot represent\n");
  return rc;
}
