/* unit nq - nikolaev_queue (C04 node hand-over / finalisation / reclamation, C07 ownership).  Function bodies: lowered.h.
 * Rings: contract stub of unit scq.  Guards: contract stub (acquire = snapshot + protect, reclaim = retire once). */
#include <stdint.h>
#include <stddef.h>
static void mon_cas(void* addr, uint64_t e, uint64_t d, _Bool ok, int o);
static void mon_load(void* addr, uint64_t v, int o);
#define XV_ON_CAS(addr, e, d, ok, order) mon_cas((void*)(addr), (uint64_t)(e), (uint64_t)(d), (ok), (order))
#define XV_ON_LOAD(addr, val, order) mon_load((void*)(addr), (uint64_t)(val), (order))
#include "xv.h"
int xv_threw; uint64_t xv_clock, xv_rmw_old; _Bool xv_cas_ok;
#ifndef CAP
#define CAP 2
#endif
#define NP 3                       /* node pool: at most 2 linked nodes + 1 freshly allocated */
#define entries_per_node CAP
#define RING_REQ_OBL "nq.scq.requires"
size_t xv_expected_rs; unsigned short xv_ev;
#include "../scq/ring_stub.h"

typedef uintptr_t marked_ptr; typedef uintptr_t guard_ptr;     /* node handles: 0 = null, k+1 = NODE(k) */
typedef struct { uint32_t v; _Bool alive; _Bool moved; _Bool cell; unsigned char nc, nd, nm; } T;   /* cell: storage cell of a node; nc/nd/nm: ghost counters of placement-new / ~T / move-out on this cell */
struct node { T _storage[CAP]; struct ring _allocated_queue; struct ring _free_queue; marked_ptr _next;
              size_t xv_storage_words; _Bool xv_live; unsigned xv_deleted, xv_retired; };
struct nq { marked_ptr _tail; marked_ptr _head; };
struct node node0, node1, node2; struct nq* g_self; _Bool g_in_dtor;   /* three separate objects: a write through a node handle touches one of them */
static struct node* node_at(uintptr_t h) { return h == 1 ? &node0 : h == 2 ? &node1 : &node2; }   /* handle -> node (case split, no pointer arithmetic on a symbolic handle) */
#define NODE(k) (*node_at((uintptr_t)(k) + 1))
unsigned g_ext_moved_out, g_ext_assigned;
unsigned short g_t_construct, g_t_destroy, g_t_moveout;

/* ---- element model */
/* placement new T(std::move(s)) into raw cell c / c.~T() / d = std::move(s): lvalue macros (no pointers into the cell arrays) */
#define XV_CONSTRUCT_MOVE(c, s) do { \
  XV_OBL("nq.own.exactly_once", (c).cell && !(c).alive); XV_OBL("nq.own.exactly_once", (s).alive && !(s).moved); \
  (c).v = (s).v; (c).alive = 1; (c).moved = 0; (s).moved = 1; if (!(s).cell) g_ext_moved_out++; (c).nc++; g_t_construct = ++xv_ev; } while (0)
#define XV_DESTROY(c) do { XV_OBL("nq.own.exactly_once", (c).cell && (c).alive); (c).alive = 0; (c).nd++; g_t_destroy = ++xv_ev; } while (0)
#define XV_MOVE_ASSIGN(d, s) do { \
  XV_OBL("nq.own.exactly_once", (s).alive && !(s).moved); XV_OBL("nq.own.exactly_once", (d).alive); \
  (d).v = (s).v; (d).moved = 0; (s).moved = 1; if ((s).cell) { (s).nm++; g_t_moveout = ++xv_ev; } if (!(d).cell) g_ext_assigned++; } while (0)
/* ---- rings */
uint64_t g_deq_clock; _Bool g_deq_ok;                 /* atomic-event time and result of the last ring dequeue */
#define RING_dequeue(r, out, cap, rs) (g_deq_clock = xv_clock, g_deq_ok = ring_dequeue(&(r), &(out), (cap), (rs)))
#define RING_enqueue_ff(r, v, cap, rs) ring_enqueue(&(r), (v), (cap), (rs), 0)
#define RING_enqueue_ft(r, v, cap, rs) ring_enqueue(&(r), (v), (cap), (rs), 1)
#define RING_finalize(r) ring_finalize(&(r))
#define RING_set_threshold(r, v) ring_set_threshold(&(r), (v))
#define XV_INIT__storage(self, n) ((self)->xv_storage_words = (n))
#define XV_INIT__allocated_queue(self, cap, rs, tag) ring_ctor(&(self)->_allocated_queue, (cap), (rs), (tag))
#define XV_INIT__free_queue(self, cap, rs, tag) ring_ctor(&(self)->_free_queue, (cap), (rs), (tag))
/* ---- guards and node handles */
guard_ptr g_protected; uint64_t g_acq_clock; unsigned g_acquires; marked_ptr g_new_node;
static struct node* gderef(guard_ptr n) {
  XV_OBL("nq.guard.protected", n != 0 && n <= NP && n == g_protected && node_at(n)->xv_live);   /* only a protected, not yet freed node is accessed */
  return node_at(n);
}
static struct node* nderef(marked_ptr p) {
  XV_OBL("nq.guard.protected", p != 0 && p <= NP && node_at(p)->xv_live);                        /* private (unpublished) node or destructor */
  return node_at(p);
}
#define GDEREF(n) gderef(n)
#define NDEREF(p) nderef(p)
#define MP_get(p) (p)
_Bool sync_weak_acquire;     /* sticky: a guard acquisition of _head/_tail or a load of a node's _next used an order weaker than acquire (sync precondition nq.sync.acquire) */
#define G_acquire(n, cell, mo) ((n) = A_LOAD(cell, mo), g_protected = (n), g_acq_clock = xv_clock, g_acquires++, sync_weak_acquire = sync_weak_acquire || !XV_IS_ACQUIRE(mo), (void)0)
static void g_reclaim(guard_ptr* n) {
  XV_OBL("nq.pop.retire_once", *n != 0 && *n == g_protected && node_at(*n)->xv_live && node_at(*n)->xv_retired == 0);
  XV_OBL("nq.pop.retire_once", g_self->_head != *n);      /* _head has been swung away (a lagging _tail may still name the node: the producer that linked its successor still protects it) */
  node_at(*n)->xv_retired++; *n = 0; g_protected = 0;
}
#define G_reclaim(n) g_reclaim(&(n))
static void nq_node_ctor(struct node* self); static void nq_node_ctor_value(struct node* self, T* value_p); static void nq_node_dtor(struct node* self);
_Bool g_race_armed, g_reserve1; unsigned g_deletes;   /* g_reserve1: pool slot 1 belongs to the competing producer (INT runs) */
static marked_ptr new_node(T* value) {
  if (g_race_armed) { g_race_armed = 0; node0._next = 2; node0._allocated_queue.a.fin = 1; }   /* h_push_race: a competing producer links its node first */
  unsigned k = NP; for (unsigned i = 0; i < NP; i++) if (k == NP && !NODE(i).xv_live && NODE(i).xv_retired == 0 && !(i == 1 && g_reserve1)) k = i;
  XV_ASSUME(k < NP);                      /* pool shape: one spare node */
  NODE(k)._next = 0; NODE(k).xv_live = 1; NODE(k).xv_deleted = 0; NODE(k).xv_retired = 0;
  for (unsigned i = 0; i < CAP; i++) NODE(k)._storage[i].alive = 0;
  if (value) nq_node_ctor_value(&NODE(k), value); else nq_node_ctor(&NODE(k));
  g_new_node = k + 1;
  return k + 1;
}
static void delete_node(marked_ptr h) {
  XV_OBL("nq.node.delete_once", h != 0 && h <= NP && node_at(h)->xv_live && node_at(h)->xv_retired == 0);
  if (!g_in_dtor) {                       /* outside the queue destructor only a never-published node may be deleted */
    XV_OBL("nq.node.delete_once", g_self->_head != h && g_self->_tail != h);
    for (unsigned i = 0; i < NP; i++) XV_OBL("nq.node.delete_once", !(NODE(i).xv_live && NODE(i)._next == h));
  }
  nq_node_dtor(node_at(h));
  node_at(h)->xv_live = 0; node_at(h)->xv_deleted++; g_deletes++;
}
#define XV_NEW_NODE() new_node(0)
#define XV_NEW_NODE_V(v) new_node(&(v))
#define XV_DELETE_NODE(h) delete_node(h)
#define NODE_try_push(node, v) nq_node_try_push(&(node), &(v))
#define NODE_steal_init_value(node, v) nq_node_steal_init_value(&(node), &(v))
#define XV_CLOSURE_0(cap) (cap)
#define XV_CLOSURE_1() 0
#define XV_CALL_SUCCESS(d) nq_try_pop_success(successFunc, &(d))
#define XV_CALL_EMPTY() nq_try_pop_empty()

/* ---- monitors */
unsigned mon_cas_count; uint64_t mon_next_val, mon_next_clock; _Bool mon_commit_on; int mon_next_order;
static void mon_load(void* addr, uint64_t v, int o) {
  if (addr == (void*)&node0._next || addr == (void*)&node1._next || addr == (void*)&node2._next) { mon_next_val = v; mon_next_clock = xv_clock; mon_next_order = o; }
}
static void mon_cas(void* addr, uint64_t e, uint64_t d, _Bool ok, int o) {
  mon_cas_count++;
  if (!mon_commit_on) return;
  XV_CANARY("commit.cas_checked");
  if (addr == (void*)&g_self->_tail || addr == (void*)&g_self->_head) {
    /* head/tail are swung only from the node the guard protects (the value read when the guard was acquired) to the successor read from that node afterwards */
    XV_OBL("nq.commit", e == g_protected && g_protected != 0 && g_acq_clock < xv_clock && XV_IS_RELEASE(o));
    XV_OBL("nq.commit", d != 0 && (d == mon_next_val ? mon_next_clock > g_acq_clock : d == g_new_node));
    /* the successor that is installed was obtained by an acquire load (the relaxed loads of _next are null tests only) */
    if (d == mon_next_val && d != g_new_node) XV_OBL("nq.sync.acquire", XV_IS_ACQUIRE(mon_next_order) && !sync_weak_acquire);
  } else {
    /* link CAS: on the protected node's _next, expected null, desired = the node just allocated */
    XV_OBL("nq.commit", g_protected != 0 && addr == (void*)&node_at(g_protected)->_next && e == 0 && d == g_new_node && d != 0 && XV_IS_RELEASE(o));
  }
}
/* ---- INT runs: the retry loops of push / do_pop are cut by an invariant (any well-formed queue state), and between any two atomic
 * accesses other threads act (xv_env): link the competitor's node behind node0, swing _tail forward, swing _head forward and retire node0 */
struct nq; static void havoc_int_state(struct nq* q); static _Bool int_wf(struct nq* q); uint32_t g_int_v;
#define XV_INV_POP (int_wf(self))
#define XV_HAVOC_POP n = nondet_uptr(); havoc_int_state(self)   /* re-creates every node and _head/_tail: idx next expected _head _allocated_queue _free_queue _storage GDEREF */
#define XV_INV_PUSH (int_wf(self) && value.alive && !value.moved && !value.cell && value.v == g_int_v)
#define XV_HAVOC_PUSH n = nondet_uptr(); havoc_int_state(self); value.v = g_int_v; value.moved = 0; value.alive = 1; value.cell = 0   /* _tail _next next expected GDEREF NDEREF */
/* ---- pop(): std::optional<value_type> = {present, value}; std::optional<T>(std::move(v)) move-constructs the value from v ---- */
struct xv_opt { _Bool present; T val; };
#define XV_NULLOPT ((struct xv_opt){0})
unsigned g_opt_moves;
static struct xv_opt xv_opt_from_moved(T* s) {
  XV_OBL("nq.own.exactly_once", s->alive && !s->moved);                    /* an element is moved out at most once */
  struct xv_opt o; o.present = 1; o.val = (T){ .v = s->v, .alive = 1, .moved = 0, .cell = 0, .nc = 0, .nd = 0, .nm = 0, }; s->moved = 1; g_opt_moves++; return o;
}
#define XV_OPT_FROM_MOVED(x) xv_opt_from_moved(&(x))
#include "lowered.h"

/* ---------------------------------------------------------------- node-level state: Inv_N = allocated ++ free is a permutation of
 * [0,CAP), a cell is alive iff its index is in the allocated ring; the allocated ring may be finalized */
unsigned in_cap, in_op; uint64_t in_v; unsigned in_L; _Bool in_lag; unsigned in_na[2]; _Bool in_fin[2]; uint64_t in_perm[2][CAP]; uint64_t in_cellv[2][CAP];
static void havoc_node(unsigned k, unsigned s) {     /* NODE(k) from input set s */
  struct node* n = &NODE(k);
  in_na[s] = nondet_uint(); XV_ASSUME(in_na[s] <= CAP); in_fin[s] = nondet_bool();
  for (unsigned i = 0; i < CAP; i++) { in_perm[s][i] = nondet_u64(); XV_ASSUME(in_perm[s][i] < CAP); in_cellv[s][i] = nondet_u32(); }
  for (unsigned i = 0; i < CAP; i++) for (unsigned j = 0; j < i; j++) XV_ASSUME(in_perm[s][i] != in_perm[s][j]);
  havoc_ring_abs(&n->_allocated_queue); havoc_ring_abs(&n->_free_queue);
  n->_allocated_queue.a.fin = in_fin[s]; n->_free_queue.a.fin = 0;
  n->_allocated_queue.a.cnt = in_na[s]; n->_free_queue.a.cnt = CAP - in_na[s];
  for (unsigned i = 0; i < CAP; i++) {
    if (i < in_na[s]) n->_allocated_queue.a.vals[i] = in_perm[s][i]; else n->_free_queue.a.vals[i - in_na[s]] = in_perm[s][i];
    n->_storage[i].v = in_cellv[s][i]; n->_storage[i].moved = nondet_bool(); n->_storage[i].alive = 0;
  }
  for (unsigned i = 0; i < in_na[s]; i++) { n->_storage[in_perm[s][i]].alive = 1; n->_storage[in_perm[s][i]].moved = 0; }
  n->_next = 0; n->xv_live = 1; n->xv_deleted = 0; n->xv_retired = 0; n->xv_storage_words = CAP;
}
static void reset_ghost(void) {
  for (unsigned k = 0; k < NP; k++) for (unsigned i = 0; i < CAP; i++) { NODE(k)._storage[i].nd = 0; NODE(k)._storage[i].nc = 0; NODE(k)._storage[i].nm = 0; NODE(k)._storage[i].cell = 1; }
  g_ext_moved_out = 0; g_ext_assigned = 0; xv_ev = 0; g_t_construct = 0; g_t_destroy = 0; g_t_moveout = 0; g_protected = 0; g_acquires = 0; g_in_dtor = 0; g_new_node = 0; g_race_armed = 0; g_reserve1 = 0; g_deletes = 0; mon_cas_count = 0; mon_next_val = nondet_u64(); mon_next_clock = 0; g_deq_clock = 0; g_deq_ok = 0; mon_commit_on = 0; xv_clock = 0;
  xv_expected_rs = calc_remap_shift(CAP); in_cap = CAP;
}
static void havoc_dead(unsigned k) {
  NODE(k).xv_live = 0; NODE(k).xv_deleted = 0; NODE(k).xv_retired = 0; NODE(k)._next = nondet_uptr();
  for (unsigned i = 0; i < CAP; i++) { NODE(k)._storage[i].alive = 0; NODE(k)._storage[i].v = nondet_u32(); NODE(k)._storage[i].moved = nondet_bool(); }
  havoc_ring_abs(&NODE(k)._allocated_queue); havoc_ring_abs(&NODE(k)._free_queue);
}
static _Bool inv_node(struct node* n) {
  struct ring_abs* A = &n->_allocated_queue.a; struct ring_abs* F = &n->_free_queue.a;
  if (A->cnt + F->cnt != CAP || F->fin) return 0;
  for (unsigned i = 0; i < CAP; i++) {
    unsigned na = 0, nf = 0;
    for (unsigned k = 0; k < CAP; k++) { if (k < A->cnt && A->vals[k] == i) na++; if (k < F->cnt && F->vals[k] == i) nf++; }
    if (na + nf != 1) return 0;
    if (n->_storage[i].alive != (na == 1)) return 0;
  }
  return n->xv_storage_words == CAP;
}
enum { g_constructed, g_destroyed, g_movedout };
static unsigned total(int which) { unsigned s = 0; for (unsigned k = 0; k < NP; k++) for (unsigned i = 0; i < CAP; i++) s += which == g_constructed ? NODE(k)._storage[i].nc : which == g_destroyed ? NODE(k)._storage[i].nd : NODE(k)._storage[i].nm; return s; }

/* ---- node constructors */
void h_node_ctor(void) {
  reset_ghost(); for (unsigned k = 0; k < NP; k++) havoc_dead(k);
  T value; value.v = in_v = nondet_u32(); value.alive = 1; value.moved = 0; value.cell = 0; _Bool with_value = nondet_bool();
  marked_ptr h = with_value ? new_node(&value) : new_node(0);
  struct node* n = node_at(h);
  XV_OBL("nq.node_ctor.inv", inv_node(n) && n->_next == 0 && !n->_allocated_queue.a.fin);
  if (with_value) {
    XV_OBL("nq.node_ctor.inv", n->_allocated_queue.a.cnt == 1 && n->_storage[n->_allocated_queue.a.vals[0]].v == in_v && value.moved);
    XV_OBL("nq.own.exactly_once", total(g_constructed) == 1 && total(g_destroyed) == 0 && g_ext_moved_out == 1);
    XV_CANARY("node_ctor.value");
  } else {
    XV_OBL("nq.node_ctor.inv", n->_allocated_queue.a.cnt == 0 && !value.moved && total(g_constructed) == 0);
    XV_CANARY("node_ctor.empty");
  }
}

/* ---- node::try_push, all four outcomes */
void h_node_try_push(void) {
  reset_ghost(); havoc_node(0, 0); havoc_dead(1); havoc_dead(2); in_op = 3;
  struct node* n = &NODE(0); struct ring_abs* A = &n->_allocated_queue.a; struct ring_abs* F = &n->_free_queue.a;
  T value; value.v = in_v = nondet_u32(); value.alive = 1; value.moved = 0; value.cell = 0;
  _Bool r = nq_node_try_push(n, &value);
  _Bool full = in_na[0] == CAP;
  XV_OBL("nq.push.appends", r == (!full && !in_fin[0]));
  XV_OBL("nq.inv.preserved", inv_node(n));
  for (unsigned i = 0; i < CAP; i++) if (i < in_na[0]) XV_OBL("nq.push.appends", A->vals[i] == in_perm[0][i] && n->_storage[in_perm[0][i]].v == in_cellv[0][in_perm[0][i]]);
  if (r) {
    unsigned e = (unsigned)in_perm[0][in_na[0]];
    XV_OBL("nq.push.appends", A->cnt == in_na[0] + 1 && A->vals[in_na[0]] == e && n->_storage[e].v == in_v && value.moved && !A->fin);
    XV_OBL("nq.own.exactly_once", total(g_constructed) == 1 && NODE(0)._storage[e].nc == 1 && total(g_destroyed) == 0 && total(g_movedout) == 0 && g_ext_moved_out == 1);
    XV_OBL("nq.push.publish_order", n->_free_queue.t_deq < g_t_construct && g_t_construct < n->_allocated_queue.t_enq);
    XV_CANARY("node_push.stored");
  } else {
    /* C07: a rejected value is back with the caller, nothing of it stays in the node */
    XV_OBL("nq.push.rollback", value.v == in_v && !value.moved && value.alive && A->cnt == in_na[0]);
    XV_OBL("nq.push.rollback", total(g_constructed) == total(g_destroyed) && g_ext_moved_out == g_ext_assigned);
    if (full) { XV_OBL("nq.push.finalizes", A->fin && total(g_constructed) == 0 && g_ext_moved_out == 0); XV_CANARY("node_push.full"); }
    else {
      XV_OBL("nq.push.rollback", A->fin && total(g_constructed) == 1 && total(g_movedout) == 1);
      XV_OBL("nq.push.rollback", g_t_moveout < g_t_destroy && g_t_destroy < n->_free_queue.t_enq);     /* the index is released only after the cell is dead */
      XV_CANARY("node_push.rolled_back");
    }
  }
}

/* ---- steal_init_value on a freshly constructed private node */
void h_steal(void) {
  reset_ghost(); for (unsigned k = 0; k < NP; k++) havoc_dead(k);
  T value; value.v = in_v = nondet_u32(); value.alive = 1; value.moved = 0; value.cell = 0;
  marked_ptr h = new_node(&value);
  nq_node_steal_init_value(node_at(h), &value);
  XV_OBL("nq.push.rollback", value.v == in_v && !value.moved && value.alive);
  XV_OBL("nq.push.rollback", inv_node(node_at(h)) && node_at(h)->_allocated_queue.a.cnt == 0);
  XV_OBL("nq.own.exactly_once", total(g_constructed) == 1 && total(g_destroyed) == 1 && total(g_movedout) == 1);
  g_self = 0; g_in_dtor = 1; delete_node(h);                              /* `delete next` afterwards destroys nothing */
  XV_OBL("nq.node_dtor.owned_only", total(g_destroyed) == 1);
  XV_CANARY("steal.done");
}

/* ---- ~node from any node state */
void h_node_dtor(void) {
  reset_ghost(); havoc_node(0, 0); havoc_dead(1); havoc_dead(2); in_op = 4;
  nq_node_dtor(&NODE(0));
  for (unsigned i = 0; i < CAP; i++) {
    _Bool was = 0; for (unsigned k = 0; k < CAP; k++) if (k < in_na[0] && in_perm[0][k] == i) was = 1;
    XV_OBL("nq.node_dtor.owned_only", NODE(0)._storage[i].nd == (was ? 1 : 0) && !NODE(0)._storage[i].alive && NODE(0)._storage[i].nc == 0 && NODE(0)._storage[i].nm == 0);
  }
  XV_OBL("nq.node_dtor.owned_only", NODE(0)._allocated_queue.a.cnt == 0);
  if (in_na[0] == CAP) XV_CANARY("node_dtor.full"); if (in_na[0] == 0) XV_CANARY("node_dtor.empty"); if (in_fin[0]) XV_CANARY("node_dtor.finalized");
}

/* ---------------------------------------------------------------- queue-level state: head -> NODE(0) (-> NODE(1)); a node that has a
 * successor is finalized; _tail is the last node or lags by one */
static void havoc_queue(struct nq* q) {
  reset_ghost(); g_self = q;
  in_L = nondet_uint(); XV_ASSUME(in_L == 1 || in_L == 2); in_lag = nondet_bool();
  havoc_node(0, 0); havoc_dead(2);
  if (in_L == 2) { havoc_node(1, 1); NODE(0)._next = 2; XV_ASSUME(in_fin[0]); } else { havoc_dead(1); in_na[1] = 0; in_lag = 0; }
  q->_head = 1; q->_tail = (in_L == 2 && !in_lag) ? 2 : 1;
}
static unsigned content(struct nq* q, uint64_t* out) {          /* abstract queue: values of the allocated indices, node after node from head */
  unsigned len = 0; marked_ptr h = q->_head;
  for (unsigned s = 0; s < NP; s++) {
    if (h == 0 || h > NP) break;
    struct node* n = node_at(h); struct ring_abs* A = &n->_allocated_queue.a;
    for (unsigned i = 0; i < CAP; i++) if (i < A->cnt) { out[len] = n->_storage[A->vals[i]].v; len++; }
    h = n->_next;
  }
  return len;
}
static unsigned live_nodes(void) { return (node0.xv_live ? 1 : 0) + (node1.xv_live ? 1 : 0) + (node2.xv_live ? 1 : 0); }
static unsigned list_len(struct nq* q) { unsigned l = 0; marked_ptr h = q->_head; for (unsigned s = 0; s < NP; s++) { if (h == 0 || h > NP) break; l++; h = node_at(h)->_next; } return l; }
static _Bool inv_queue(struct nq* q) {          /* list well-formed, every linked node satisfies Inv_N, tail = last node */
  marked_ptr h = q->_head, last = 0;
  for (unsigned s = 0; s < NP; s++) {
    if (h == 0) break;
    if (h > NP || !node_at(h)->xv_live || node_at(h)->xv_retired || !inv_node(node_at(h))) return 0;
    if (node_at(h)->_next != 0 && !node_at(h)->_allocated_queue.a.fin) return 0;
    last = h; h = node_at(h)->_next;
  }
  return h == 0 && last != 0 && q->_tail == last;
}

void h_push(void) {
  struct nq q; havoc_queue(&q); in_op = 0;
  uint64_t before[NP * CAP + 1], after[NP * CAP + 1]; unsigned nb = content(&q, before);
  T value; value.v = in_v = nondet_u32(); value.alive = 1; value.moved = 0; value.cell = 0;
  mon_commit_on = 1;
  nq_push(&q, value);
  unsigned na = content(&q, after);
  XV_OBL("nq.push.appends", na == nb + 1 && after[nb] == in_v);
  for (unsigned i = 0; i < NP * CAP; i++) if (i < nb) XV_OBL("nq.push.appends", after[i] == before[i]);
  XV_OBL("nq.inv.preserved", inv_queue(&q) && q._head == 1);
  XV_OBL("nq.own.exactly_once", total(g_constructed) == total(g_destroyed) + 1 && total(g_destroyed) == total(g_movedout));
  unsigned last = in_L - 1; _Bool fits = in_na[last] < CAP && !in_fin[last];
  if (fits) { XV_OBL("nq.push.appends", !NODE(in_L).xv_live && !node2.xv_live && q._tail == in_L); XV_CANARY("push.in_tail_node"); }
  else {          /* the first spare pool slot (handle in_L + 1) is the new node */
    XV_OBL("nq.push.hand_over", NODE(in_L).xv_live && NODE(last)._next == in_L + 1 && q._tail == in_L + 1 && NODE(last)._allocated_queue.a.fin && NODE(in_L)._allocated_queue.a.cnt == 1
                                && NODE(in_L)._next == 0 && !NODE(in_L)._allocated_queue.a.fin);
    XV_CANARY("push.new_node");
    if (in_fin[last] && in_na[last] < CAP) XV_CANARY("push.rolled_back_then_new_node");
  }
  if (in_lag) XV_CANARY("push.helped_tail");
  XV_OBL("nq.node.delete_once", node0.xv_deleted + node1.xv_deleted + node2.xv_deleted == 0 && node0.xv_retired + node1.xv_retired + node2.xv_retired == 0);
  XV_OBL("nq.node.no_leak", live_nodes() == list_len(&q));
}

/* push that loses the link race: our try_push on the tail node fails, and while we allocate our node a competing producer links ITS node
 * (node1, any Inv_N state) behind the tail node.  Our link CAS fails: the value must be taken back out of our private node
 * (steal_init_value), the private node deleted, and the push retried (help _tail forward, then push into / behind the competitor's node). */
void h_push_race(void) {
  struct nq q; havoc_queue(&q); in_op = 0; XV_ASSUME(in_L == 1 && (in_na[0] == CAP || in_fin[0]));
  havoc_node(1, 1); XV_ASSUME(!in_fin[1]);              /* the competitor's node, not yet linked */
  uint64_t before[NP * CAP + 1], after[NP * CAP + 1]; unsigned nb = content(&q, before);
  { struct ring_abs* A = &node1._allocated_queue.a; for (unsigned i = 0; i < CAP; i++) if (i < A->cnt) { before[nb] = node1._storage[A->vals[i]].v; nb++; } }
  T value; value.v = in_v = nondet_u32(); value.alive = 1; value.moved = 0; value.cell = 0;
  g_race_armed = 1; mon_commit_on = 1;
  nq_push(&q, value);
  unsigned na = content(&q, after);
  XV_OBL("nq.push.appends", !g_race_armed && na == nb + 1 && after[nb] == in_v);
  for (unsigned i = 0; i < NP * CAP; i++) if (i < nb) XV_OBL("nq.push.appends", after[i] == before[i]);
  XV_OBL("nq.inv.preserved", inv_queue(&q) && q._head == 1);
  XV_OBL("nq.push.rollback", total(g_constructed) == total(g_destroyed) + 1 && total(g_destroyed) == total(g_movedout) && total(g_destroyed) >= 1);
  XV_OBL("nq.node.delete_once", node0.xv_deleted == 0 && node1.xv_deleted == 0 && node0.xv_retired + node1.xv_retired + node2.xv_retired == 0);
  XV_OBL("nq.node.no_leak", live_nodes() == list_len(&q));
  if (node2.xv_live) { XV_OBL("nq.push.hand_over", node1._next == 3 && q._tail == 3 && g_deletes == 1); XV_CANARY("push_race.third_node"); }
  else { XV_OBL("nq.push.hand_over", q._tail == 2 && g_deletes == 1); XV_CANARY("push_race.into_competitor_node"); }
}

void h_pop(void) {
  struct nq q; havoc_queue(&q); in_op = 1;
  uint64_t before[NP * CAP + 1], after[NP * CAP + 1]; unsigned nb = content(&q, before);
  T result; result.v = nondet_u32(); result.alive = 1; result.cell = 0; result.moved = nondet_bool(); uint64_t r0 = result.v; _Bool m0 = result.moved;
  mon_commit_on = 1;
  _Bool r = nq_try_pop(&q, &result);
  unsigned na = content(&q, after);
  XV_OBL("nq.pop.empty_iff", r == (nb > 0));
  if (r) {
    XV_OBL("nq.pop.takes_first", result.v == before[0] && !result.moved && na == nb - 1);
    for (unsigned i = 0; i < NP * CAP; i++) if (i + 1 < nb) XV_OBL("nq.pop.takes_first", after[i] == before[i + 1]);
    XV_OBL("nq.own.exactly_once", total(g_destroyed) == 1 && total(g_movedout) == 1 && total(g_constructed) == 0 && g_ext_assigned == 1);
    XV_OBL("nq.pop.destroy_before_release", g_t_moveout < g_t_destroy && g_t_destroy < node_at(q._head)->_free_queue.t_enq && node_at(q._head)->_free_queue.n_enq == 1);
    XV_CANARY("pop.took");
  } else {
    XV_OBL("nq.pop.empty_iff", result.v == r0 && result.moved == m0 && na == 0 && total(g_destroyed) == 0 && total(g_movedout) == 0);
    /* "empty" only if _next of the head node was null when read AFTER the dequeue on that node had failed */
    XV_OBL("nq.pop.empty_validated", !g_deq_ok && mon_next_val == 0 && mon_next_clock > g_deq_clock);
    XV_CANARY("pop.empty");
  }
  /* hand-over: an empty head node that has a successor is unlinked and retired exactly once; a node that still holds values, and the last node, never */
  _Bool skip0 = in_L == 2 && in_na[0] == 0;
  XV_OBL("nq.pop.hand_over", q._head == (skip0 ? 2 : 1) && NODE(0).xv_retired == (skip0 ? 1 : 0) && NODE(1).xv_retired == 0);
  XV_OBL("nq.pop.hand_over", NODE(0).xv_deleted + NODE(1).xv_deleted + NODE(2).xv_deleted == 0 && !NODE(2).xv_live);
  if (skip0) { XV_OBL("nq.pop.threshold_reset", NODE(0)._allocated_queue.th_set == 3 * CAP - 1 && NODE(0)._allocated_queue.n_deq == 2); XV_CANARY("pop.node_drained"); }
  /* remaining list is well formed (the tail may still lag: pop never moves _tail) */
  { struct node* hn = node_at(q._head); XV_OBL("nq.inv.preserved", inv_node(hn) && (in_L == 2 ? inv_node(&NODE(1)) : 1) && q._tail == ((in_L == 2 && !in_lag) ? 2 : 1)); }
}

void h_ctor(void) {
  struct nq q; reset_ghost(); g_self = &q; for (unsigned k = 0; k < NP; k++) havoc_dead(k);
  q._head = nondet_uptr(); q._tail = nondet_uptr();
  nq_ctor(&q);
  uint64_t c[NP * CAP + 1];
  XV_OBL("nq.ctor.inv", inv_queue(&q) && q._head == q._tail && content(&q, c) == 0 && !node_at(q._head)->_allocated_queue.a.fin);
  XV_CANARY("ctor.done");
}

void h_dtor(void) {
  struct nq q; havoc_queue(&q); in_op = 2; g_in_dtor = 1;
  nq_dtor(&q);
  for (unsigned k = 0; k < 2; k++) for (unsigned i = 0; i < CAP; i++) {
    _Bool was = 0; if (k < in_L) for (unsigned j = 0; j < CAP; j++) if (j < in_na[k] && in_perm[k][j] == i) was = 1;
    XV_OBL("nq.dtor.owns", NODE(k)._storage[i].nd == (was ? 1 : 0) && !NODE(k)._storage[i].alive);
  }
  XV_OBL("nq.dtor.owns", NODE(0).xv_deleted == 1 && NODE(1).xv_deleted == (in_L == 2 ? 1 : 0) && NODE(2).xv_deleted == 0 && total(g_constructed) == 0 && total(g_movedout) == 0);
  if (in_L == 2) XV_CANARY("dtor.two_nodes"); else XV_CANARY("dtor.one_node");
}


/* ---------------------------------------------------------------- INT */
static _Bool int_wf(struct nq* q) {
  if (!(node0.xv_live && inv_node(&node0) && (q->_head == 1 || q->_head == 2) && (q->_tail == 1 || q->_tail == 2))) return 0;
  if (!(node0._next == 0 || node0._next == 2)) return 0;
  if ((q->_head == 2 || q->_tail == 2) && node0._next != 2) return 0;                 /* head/tail only move along the list */
  if (node0._next == 2 && !(node1.xv_live && node0._allocated_queue.a.fin)) return 0; /* successors only behind finalized nodes */
  if (node1.xv_live && !(inv_node(&node1) && node1._next == 0 && node1.xv_retired == 0)) return 0;
  if (node0.xv_retired > (q->_head == 2 ? 1 : 0)) return 0;
  return !node2.xv_live && node2.xv_retired == 0;
}
static void havoc_int_state(struct nq* q) {
  reset_ghost(); g_self = q; mon_commit_on = 1; g_reserve1 = 1;
  havoc_node(0, 0); havoc_dead(2);
  if (nondet_bool()) havoc_node(1, 1); else havoc_dead(1);
  node0._next = nondet_bool() ? 2 : 0; q->_head = nondet_bool() ? 2 : 1; q->_tail = nondet_bool() ? 2 : 1; node0.xv_retired = nondet_bool() ? 1 : 0;
}
#ifdef XV_INT
_Bool env_on;
void xv_env(void) {
  if (!env_on) return;
  if (nondet_bool() && node0._next == 0 && node1.xv_live) { node0._next = 2; node0._allocated_queue.a.fin = 1; }   /* a competing producer links its node */
  if (nondet_bool() && node0._next == 2) g_self->_tail = 2;                                                       /* ... or helps _tail forward */
  if (nondet_bool() && node0._next == 2 && g_self->_head == 1) { g_self->_head = 2; node0.xv_retired++; }         /* a consumer unlinks and retires node0 */
}
#endif
void h_pop_int(void) {
#ifdef XV_INT
  struct nq q; havoc_queue(&q); in_op = 1;
  T result; result.v = nondet_u32(); result.alive = 1; result.cell = 0; result.moved = nondet_bool();
  mon_commit_on = 1; env_on = 1; sync_weak_acquire = 0;
  _Bool r = nq_do_pop_int(&q, &result, 0);
  env_on = 0;
  XV_OBL("nq.sync.acquire", !sync_weak_acquire);
  /* whatever the others did: a value is delivered iff exactly one cell was moved out and destroyed in this (last) iteration */
  XV_OBL("nq.own.exactly_once", r ? (total(g_destroyed) == 1 && total(g_movedout) == 1 && !result.moved) : (total(g_destroyed) == 0 && total(g_movedout) == 0));
  XV_OBL("nq.pop.retire_once", node0.xv_retired <= 1 && node1.xv_retired == 0);
  if (r) XV_CANARY("pop_int.took"); else XV_CANARY("pop_int.empty");
#endif
}
void h_push_int(void) {
#ifdef XV_INT
  struct nq q; havoc_queue(&q); in_op = 0;
  T value; value.v = g_int_v = nondet_u32(); value.alive = 1; value.moved = 0; value.cell = 0;
  mon_commit_on = 1; env_on = 1; g_reserve1 = 1; sync_weak_acquire = 0;
  nq_push_int(&q, value);
  env_on = 0;
  XV_OBL("nq.sync.acquire", !sync_weak_acquire);
  XV_OBL("nq.own.exactly_once", total(g_constructed) == total(g_destroyed) + 1);     /* the value sits in exactly one cell */
  XV_OBL("nq.node.delete_once", node0.xv_deleted == 0 && node1.xv_deleted == 0);
  XV_CANARY("push_int.returned"); if (node2.xv_live) XV_CANARY("push_int.linked");
#endif
}

/* pop(): the functors it passes to do_pop (extracted text) against the ones of try_pop; XV_POP_OPTIONAL_TARGET is the callee named in pop()'s body */
#define do_pop 7701
void h_pop_optional(void) {
  T c1; c1.v = nondet_u32(); c1.alive = 1; c1.moved = 0; c1.cell = 0; c1.nc = c1.nd = c1.nm = 0;
  T c2 = c1, res = c1; res.v = nondet_u32();
  g_opt_moves = 0;
  XV_OBL("nq.pop_optional.same_as_try_pop", XV_POP_OPTIONAL_TARGET == 7701);
  struct xv_opt a = nq_pop_success(&c1);
  _Bool ok = nq_try_pop_success(&res, &c2);
  XV_OBL("nq.pop_optional.same_as_try_pop", ok && a.present && a.val.v == res.v && a.val.v == c2.v && a.val.alive && !a.val.moved && g_opt_moves == 1);
  XV_OBL("nq.pop_optional.same_as_try_pop", c1.moved && c1.alive && c2.moved && c2.alive && c1.v == c2.v);      /* moved-from, not destroyed: do_pop runs ~T() on the cell afterwards */
  struct xv_opt e = nq_pop_empty();
  XV_OBL("nq.pop_optional.same_as_try_pop", !e.present && !nq_try_pop_empty());
  XV_CANARY("pop_optional.reached");
}
#undef do_pop
