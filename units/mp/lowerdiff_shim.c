/* lowering differential, C side of unit mp: the lowered text of marked_ptr<T, MarkBits, MaxUpperMarkBits> (primary template and the
 * MarkBits == 0 specialisation), of its constant expressions and of utils::rotate<C>, compiled natively.
 * As in the unit's harness.c the template parameters MarkBits / MaxUpperMarkBits are run-time globals read by the extracted
 * constant expressions, T is an incomplete struct, and the same template-selection glue is used (rotate<0> specialisation for C == 0).
 * No function body of the library here: they all come from lowered.h. */
#include <stdint.h>
#include <stddef.h>
#include <stdbool.h>
#define XV_XASSERT(c) ((void)0)

typedef struct xv_T T;               /* the template parameter T: incomplete, only T* is used */
struct mp { T* _ptr; };              /* the single data member */
uintptr_t MarkBits, MaxUpperMarkBits; /* template parameters, set by ld_mp_config */

/* glue for the lowering - identical to units/mp/harness.c, except that static_assert is not an obligation here */
#define XV_STATIC_ASSERT(c) ((void)0)
#define XV_INIT__ptr(self, v) ((self)->_ptr = (v))
#define make_ptr(p, m) mp_make_ptr(self, (p), (m))
static uintptr_t rot_left(uintptr_t C, uintptr_t v); static uintptr_t rot_right(uintptr_t C, uintptr_t v);
static uintptr_t rot0_left(uintptr_t v); static uintptr_t rot0_right(uintptr_t v);
#define XV_ROTATE_left(C, v)  ((C) == 0 ? rot0_left(v)  : rot_left((C), (v)))
#define XV_ROTATE_right(C, v) ((C) == 0 ? rot0_right(v) : rot_right((C), (v)))
#define XENIUM_MAX_UPPER_MARK_BITS XV_DEFAULT_MAX_UPPER
#define MP_GET(x) mp_get(&(x))
#define MP_MARK(x) mp_mark(&(x))
#define MP0_GET(x) mp0_get(&(x))
#define MP0_MARK(x) mp0_mark(&(x))

#include "lowered.h"

typedef uintptr_t W;
void ld_mp_config(W mb, W mu) { MarkBits = mb; MaxUpperMarkBits = mu; }
/* the extracted constant expressions under the current configuration */
W ld_mp_const(int i) {
  switch (i) {
    case 0: return pointer_bits;
    case 1: return MarkMask;
    case 2: return lower_mark_bits;
    case 3: return upper_mark_bits;
    case 4: return pointer_mask;
    case 5: return number_of_mark_bits;
    case 6: return XV_SPEC0_NUMBER_OF_MARK_BITS;
    case 7: return XV_TPL_DEFAULT_MAX_UPPER;
    case 8: return (W)XV_DEFAULT_P;
    case 9: return XV_DEFAULT_MARK;
    case 10: return (W)XV_SPEC0_DEFAULT_P;
    default: return ~(W)0;
  }
}
static struct mp raw(W w) { struct mp x; x._ptr = (T*)w; return x; }

/* primary template */
W ld_mp_make_ptr(W p, W mark) { struct mp x = raw(0); return (W)mp_make_ptr(&x, (T*)p, mark); }
W ld_mp_ctor(W p, W mark, W before) { struct mp x = raw(before); mp_ctor(&x, (T*)p, mark); return (W)x._ptr; }
W ld_mp_reset(W w) { struct mp x = raw(w); mp_reset(&x); return (W)x._ptr; }
W ld_mp_mark(W w) { struct mp x = raw(w); return mp_mark(&x); }
W ld_mp_get(W w) { struct mp x = raw(w); return (W)mp_get(&x); }
int ld_mp_bool(W w) { struct mp x = raw(w); return mp_bool(&x); }
W ld_mp_arrow(W w) { struct mp x = raw(w); return (W)mp_arrow(&x); }
W ld_mp_star(W w) { struct mp x = raw(w); return (W)mp_star(&x); }
int ld_mp_eq(W a, W b) { return mp_eq(raw(a), raw(b)); }
int ld_mp_ne(W a, W b) { return mp_ne(raw(a), raw(b)); }
/* MarkBits == 0 specialisation */
W ld_mp0_ctor(W p, W before) { struct mp x = raw(before); mp0_ctor(&x, (T*)p); return (W)x._ptr; }
W ld_mp0_reset(W w) { struct mp x = raw(w); mp0_reset(&x); return (W)x._ptr; }
W ld_mp0_mark(W w) { struct mp x = raw(w); return mp0_mark(&x); }
W ld_mp0_get(W w) { struct mp x = raw(w); return (W)mp0_get(&x); }
int ld_mp0_bool(W w) { struct mp x = raw(w); return mp0_bool(&x); }
W ld_mp0_arrow(W w) { struct mp x = raw(w); return (W)mp0_arrow(&x); }
W ld_mp0_star(W w) { struct mp x = raw(w); return (W)mp0_star(&x); }
int ld_mp0_eq(W a, W b) { return mp0_eq(raw(a), raw(b)); }
int ld_mp0_ne(W a, W b) { return mp0_ne(raw(a), raw(b)); }
/* utils::rotate<C>, specialisation selected as the lowered callers select it */
W ld_rotate_left(W C, W v) { return XV_ROTATE_left(C, v); }
W ld_rotate_right(W C, W v) { return XV_ROTATE_right(C, v); }
