MP = 'xenium/marked_ptr.hpp'
UT = 'xenium/utils.hpp'
CAST = [(r'static_cast<(\w+)>\(([^()]*)\)', r'((\1)(\2))'), (r'reinterpret_cast<(\w+)>\(([^()]*)\)', r'((\1)(\2))'), (r'\bnullptr\b', '0')]
def K(name, regex, file=MP): return dict(name=name, file=file, regex=regex, subst=CAST)
ROT = [(r'utils::rotate<(\w+)>::(left|right)\(', r'XV_ROTATE_\2(\1, ', 'rotate')]
SA = [(r'static_assert\(([^,;]+),\s*"[^"]*"\);', r'XV_STATIC_ASSERT(\1);', 'static_assert')]
SPEC0 = r'class marked_ptr<T, 0, MaxUpperMarkBits> \{.*?'

TD = {'XV_TRACE_SMALL': 1}   # counterexample extraction only: MaxUpperMarkBits <= 33, the range replay_mp.cpp instantiates
VM = {'get': 'MP_GET', 'mark': 'MP_MARK'}; VM0 = {'get': 'MP0_GET', 'mark': 'MP0_MARK'}   # only fire if == were written in terms of get()/mark()
def F(id, sig, c_sig, which=0, **kw):
    d = dict(id=id, file=MP, sig=sig, which=which, c_sig=c_sig, members=['_ptr'])
    d.update(kw); d.setdefault('must_fire', {})
    return d

UNIT = dict(
  title='marked_ptr<T, MarkBits, MaxUpperMarkBits>: round trip, equality, reset/bool, utils::rotate (C15 part 1)',
  properties=['C15'],
  drops='template parameters: T is an incomplete struct (T* a real 64-bit C pointer), MarkBits / MaxUpperMarkBits are symbolic globals read by the '
        'extracted constant expressions (pointer_bits, lower_mark_bits, pointer_mask ... become #defines with the header\'s own text); '
        '`if constexpr` becomes `if`; selection between utils::rotate<C> and the rotate<0> specialisation and between the primary template and the '
        'MarkBits==0 specialisation is done by the harness (C == 0 / MarkBits == 0), static_assert becomes an obligation (mp.static_asserts.hold); '
        'noexcept, [[nodiscard]], const, default arguments (extracted as constants and used by the harness) are dropped; operator* returns the address instead of a reference',
  assumptions=['sizeof(T*) == 8 in the cbmc model as in the class\' static_assert (x86-64 data model)'],
  consts=[
    K('pointer_bits', r'static constexpr uintptr_t pointer_bits = ([^;]+);'),
    K('MarkMask', r'static constexpr uintptr_t MarkMask = ([^;]+);'),
    K('lower_mark_bits', r'static constexpr uintptr_t lower_mark_bits = ([^;]+);'),
    K('upper_mark_bits', r'static constexpr uintptr_t upper_mark_bits = ([^;]+);'),
    K('pointer_mask', r'static constexpr uintptr_t pointer_mask = ([^;]+);'),
    K('number_of_mark_bits', r'static constexpr uintptr_t number_of_mark_bits = ([^;]+);'),
    K('XV_SPEC0_NUMBER_OF_MARK_BITS', SPEC0 + r'static constexpr uintptr_t number_of_mark_bits = ([^;]+);'),
    K('XV_SA_POSITIVE', r'static_assert\((MarkBits [^,]+), "should never happen - compiler'),
    K('XV_SA_MAXBITS', r'static_assert\((MarkBits [^,]+), "MarkBits must not be greater'),
    K('XV_SA_PTR64', r'static_assert\((sizeof\(T\*\) [^,]+), "marked_ptr requires 64bit'),
    K('XV_PRE_MAKE_PTR', r'T\* make_ptr\(T\* p, uintptr_t mark\) noexcept \{\s*assert\((.*?)\s*&&\s*"bits reserved'),
    K('XV_DEFAULT_P', r'marked_ptr\(T\* p = (\w+), uintptr_t mark = \w+\) noexcept'),
    K('XV_DEFAULT_MARK', r'marked_ptr\(T\* p = \w+, uintptr_t mark = (\w+)\) noexcept'),
    K('XV_SPEC0_DEFAULT_P', r'marked_ptr\(T\* p = (\w+)\) noexcept'),
    K('XV_DEFAULT_MAX_UPPER', r'#\s*define XENIUM_MAX_UPPER_MARK_BITS (\d+)'),
    K('XV_TPL_DEFAULT_MAX_UPPER', r'template <class T, uintptr_t MarkBits, uintptr_t MaxUpperMarkBits = (\w+)>\s*class marked_ptr'),
  ],
  sources=[
    dict(id='rotate.left', file=UT, sig=r'static uintptr_t left\(uintptr_t v\)', which=0, subst=SA,
         c_sig='static uintptr_t rot_left(uintptr_t C, uintptr_t v)', must_fire={'subst:static_assert': 1}),
    dict(id='rotate.right', file=UT, sig=r'static uintptr_t right\(uintptr_t v\)', which=0, subst=SA,
         c_sig='static uintptr_t rot_right(uintptr_t C, uintptr_t v)', must_fire={'subst:static_assert': 1}),
    dict(id='rotate0.left', file=UT, sig=r'static uintptr_t left\(uintptr_t v\)', which=1,
         c_sig='static uintptr_t rot0_left(uintptr_t v)', must_fire={}),
    dict(id='rotate0.right', file=UT, sig=r'static uintptr_t right\(uintptr_t v\)', which=1,
         c_sig='static uintptr_t rot0_right(uintptr_t v)', must_fire={}),
    # ---- primary template
    F('make_ptr', r'T\* make_ptr\(T\* p, uintptr_t mark\) noexcept', 'static T* mp_make_ptr(struct mp* self, T* p, uintptr_t mark)',
      subst=ROT, must_fire={'subst:rotate': 1, 'cast': 3}),
    F('ctor', r'marked_ptr\(T\* p = \w+, uintptr_t mark = \w+\) noexcept', 'static void mp_ctor(struct mp* self, T* p, uintptr_t mark)',
      ctor=True, must_fire={'ctor_init': 1}),
    F('reset', r'void reset\(\) noexcept', 'static void mp_reset(struct mp* self)', must_fire={'member:_ptr': 1}),
    F('mark', r'uintptr_t mark\(\) const noexcept', 'static uintptr_t mp_mark(const struct mp* self)', subst=ROT,
      must_fire={'subst:rotate': 1, 'cast': 1, 'member:_ptr': 1}),
    F('get', r'T\* get\(\) const noexcept', 'static T* mp_get(const struct mp* self)', must_fire={'cast': 2, 'member:_ptr': 1}),
    F('bool', r'explicit operator bool\(\) const noexcept', 'static _Bool mp_bool(const struct mp* self)', self_calls={'get': 'mp_get', 'mark': 'mp_mark'}, must_fire={'member:_ptr': 1}),
    F('arrow', r'T\* operator->\(\) const noexcept', 'static T* mp_arrow(const struct mp* self)', self_calls={'get': 'mp_get'},
      must_fire={'self_call:get': 1}),
    F('star', r'T& operator\*\(\) const noexcept', 'static T* mp_star(const struct mp* self)', self_calls={'get': 'mp_get'},
      subst=[(r'return \*', 'return &*', 'ref_return')], must_fire={'self_call:get': 1, 'subst:ref_return': 1}),
    F('eq', r'inline friend bool operator==\(const marked_ptr& l, const marked_ptr& r\)', 'static _Bool mp_eq(struct mp l, struct mp r)', members=[], methods=VM),
    F('ne', r'inline friend bool operator!=\(const marked_ptr& l, const marked_ptr& r\)', 'static _Bool mp_ne(struct mp l, struct mp r)', members=[], methods=VM),
    # ---- MarkBits == 0 specialisation
    F('ctor0', r'marked_ptr\(T\* p = \w+\) noexcept', 'static void mp0_ctor(struct mp* self, T* p)', must_fire={'member:_ptr': 1}),
    F('reset0', r'void reset\(\) noexcept', 'static void mp0_reset(struct mp* self)', which=1, must_fire={'member:_ptr': 1}),
    F('mark0', r'uintptr_t mark\(\) const noexcept', 'static uintptr_t mp0_mark(const struct mp* self)', which=1),
    F('get0', r'T\* get\(\) const noexcept', 'static T* mp0_get(const struct mp* self)', which=1, must_fire={'member:_ptr': 1}),
    F('bool0', r'explicit operator bool\(\) const noexcept', 'static _Bool mp0_bool(const struct mp* self)', which=1, self_calls={'get': 'mp0_get', 'mark': 'mp0_mark'}, must_fire={'member:_ptr': 1}),
    F('arrow0', r'T\* operator->\(\) const noexcept', 'static T* mp0_arrow(const struct mp* self)', which=1, self_calls={'get': 'mp0_get'},
      must_fire={'self_call:get': 1}),
    F('star0', r'T& operator\*\(\) const noexcept', 'static T* mp0_star(const struct mp* self)', which=1, self_calls={'get': 'mp0_get'},
      subst=[(r'return \*', 'return &*', 'ref_return')], must_fire={'self_call:get': 1, 'subst:ref_return': 1}),
    F('eq0', r'inline friend bool operator==\(const marked_ptr& l, const marked_ptr& r\)', 'static _Bool mp0_eq(struct mp l, struct mp r)', which=1, members=[], methods=VM0),
    F('ne0', r'inline friend bool operator!=\(const marked_ptr& l, const marked_ptr& r\)', 'static _Bool mp0_ne(struct mp l, struct mp r)', which=1, members=[], methods=VM0),
  ],
  runs=[
    dict(id='consts', entry='h_consts', cls='unbounded', trace_defs=TD, note='MarkBits 1..32 (the static_asserts), MaxUpperMarkBits any 64-bit value'),
    dict(id='roundtrip', entry='h_roundtrip', cls='unbounded', trace_defs=TD, note='symbolic MarkBits/MaxUpperMarkBits, all 64-bit p (reserved bits clear) and m'),
    dict(id='eq', entry='h_eq', cls='unbounded', trace_defs=TD),
    dict(id='repr', entry='h_repr', cls='unbounded', trace_defs=TD, note='from ANY 64-bit representation word'),
    dict(id='repr_eq', entry='h_repr_eq', cls='unbounded', trace_defs=TD, note='== on ANY two representation words'),
    dict(id='reset', entry='h_reset', cls='unbounded', trace_defs=TD),
    dict(id='rotate', entry='h_rotate', cls='unbounded', note='C symbolic in 0..63'),
    dict(id='spec0', entry='h_spec0', cls='unbounded', trace_defs=TD, note='MarkBits == 0 specialisation'),
  ],
  obligations={
    'mp.consts.layout': dict(deciding=True, text='for all MarkBits 1..32 and every MaxUpperMarkBits: upper = min(MarkBits, MaxUpper), lower = MarkBits - upper, pointer_bits = 64 - MarkBits, pointer_mask = bits [lower, lower+pointer_bits), MarkMask = 2^MarkBits-1, number_of_mark_bits = MarkBits (0 in the specialisation)'),
    'mp.ctor.precondition': dict(deciding=True, text='the constructor\'s own assert accepts exactly the canonical pointers: top upper_mark_bits and low lower_mark_bits bits clear'),
    'mp.static_asserts.hold': dict(deciding=True, text='no static_assert of the instantiated code (rotate<C>: C > 0) is violated for any configuration the class admits'),
    'mp.get.roundtrip': dict(deciding=True, text='marked_ptr(p, m).get() == p (also operator-> and operator*) for every canonical p and every 64-bit m'),
    'mp.mark.roundtrip': dict(deciding=True, text='marked_ptr(p, m).mark() == m mod 2^MarkBits'),
    'mp.eq.value': dict(deciding=True, text='a == b iff get and mark are both equal; != is the negation; holds for constructed values and for any two representation words'),
    'mp.repr.bijective': dict(deciding=True, text='every 64-bit representation word w decomposes into a canonical get() and a mark() < 2^MarkBits from which the constructor rebuilds exactly w'),
    'mp.reset.null': dict(deciding=True, text='reset() from any state gives get() == nullptr, mark() == 0, equal to the default constructed value; operator bool is false exactly for (nullptr, mark 0) - it tests the whole word, a marked null pointer is true'),
    'mp.rotate.inverse': dict(deciding=True, text='rotate<C>::right(rotate<C>::left(v)) == v == left(right(v)) for every C in 0..63 and every v; left moves bit i to bit (i+C) mod 64'),
    'mp.spec0.roundtrip': dict(deciding=True, text='MarkBits == 0: get() == p for EVERY 64-bit p, mark() == 0, == is pointer equality, reset gives nullptr, bool iff p != nullptr'),
  },
  replays={k: dict(src='replay_mp.cpp', cxxflags=['-O0', '-g0']) for k in ['mp.consts.layout', 'mp.rotate.inverse', 'mp.get.roundtrip', 'mp.mark.roundtrip', 'mp.eq.value', 'mp.reset.null', 'mp.ctor.precondition', 'mp.repr.bijective', 'mp.spec0.roundtrip']},
  canaries=['consts.split', 'consts.all_upper', 'consts.all_lower', 'consts.huge_maxupper',
            'roundtrip.split', 'roundtrip.all_upper', 'roundtrip.all_lower', 'roundtrip.mb32', 'roundtrip.mark_trimmed', 'roundtrip.default_maxupper',
            'eq.same', 'eq.ptr_differs', 'eq.mark_differs', 'eq.mark_congruent', 'repr.reached', 'repr.equal', 'repr.differ', 'reset.reached', 'reset.marked_null', 'reset.null',
            'rotate.c0', 'rotate.c63', 'rotate.mid', 'spec0.reached', 'spec0.high_bits'],
)
