/* unit mp - marked_ptr<T, MarkBits, MaxUpperMarkBits> and utils::rotate<C> (C15 part 1).
 * Only declarations, template-selection glue, specification functions and harnesses; every function body and every
 * constant expression comes from lowered.h (extracted from xenium/marked_ptr.hpp and xenium/utils.hpp on this run). */
#include "xv.h"
int xv_threw; uint64_t xv_clock, xv_rmw_old; _Bool xv_cas_ok;

typedef struct xv_T T;               /* the template parameter T: incomplete, only T* is used */
struct mp { T* _ptr; };              /* the single data member */

/* template parameters: symbolic, read by the extracted constant expressions */
uintptr_t MarkBits, MaxUpperMarkBits;

/* glue for the lowering */
#define XV_STATIC_ASSERT(c) XV_OBL("mp.static_asserts.hold", c)
#define XV_INIT__ptr(self, v) ((self)->_ptr = (v))
#define make_ptr(p, m) mp_make_ptr(self, (p), (m))
/* utils::rotate<C>: the compiler picks the rotate<0> specialisation for C == 0, the primary template otherwise */
static uintptr_t rot_left(uintptr_t C, uintptr_t v); static uintptr_t rot_right(uintptr_t C, uintptr_t v);
static uintptr_t rot0_left(uintptr_t v); static uintptr_t rot0_right(uintptr_t v);
#define XV_ROTATE_left(C, v)  ((C) == 0 ? rot0_left(v)  : rot_left((C), (v)))
#define XV_ROTATE_right(C, v) ((C) == 0 ? rot0_right(v) : rot_right((C), (v)))
#define XENIUM_MAX_UPPER_MARK_BITS XV_DEFAULT_MAX_UPPER
#define MP_GET(x) mp_get(&(x))
#define MP_MARK(x) mp_mark(&(x))
#define MP0_GET(x) mp0_get(&(x))
#define MP0_MARK(x) mp0_mark(&(x))

/* harness inputs (native replay reads these) */
uintptr_t in_mb, in_mu, in_p, in_m, in_p2, in_m2, in_w, in_w2, in_c, in_v;

#include "lowered.h"

/* ---------------- specification, written without the class' constants ---------------- */
static uintptr_t spec_upper(uintptr_t mb, uintptr_t mu) { return mb < mu ? mb : mu; }              /* min(MarkBits, MaxUpper) */
static uintptr_t spec_lower(uintptr_t mb, uintptr_t mu) { return mb - spec_upper(mb, mu); }
static uintptr_t spec_low_ones(uintptr_t n) { return n >= 64 ? ~(uintptr_t)0 : (((uintptr_t)1 << n) - 1); }  /* n low bits set */
/* reserved bits: the top `upper` bits and the low `lower` bits */
static uintptr_t spec_reserved(uintptr_t mb, uintptr_t mu) {
  uintptr_t up = spec_upper(mb, mu), lo = spec_lower(mb, mu);
  return ~spec_low_ones(64 - up) | spec_low_ones(lo);
}
static _Bool spec_canonical(uintptr_t p, uintptr_t mb, uintptr_t mu) { return (p & spec_reserved(mb, mu)) == 0; }

/* configuration admitted by the class' own static_asserts; MaxUpperMarkBits is not constrained by the class */
static void pick_config(void) {
  in_mb = nondet_uptr(); in_mu = nondet_uptr();
  MarkBits = in_mb; MaxUpperMarkBits = in_mu;
  XV_ASSUME(XV_SA_POSITIVE); XV_ASSUME(XV_SA_MAXBITS);
  XV_OBL("mp.static_asserts.hold", XV_SA_PTR64);
#ifdef XV_TRACE_SMALL
  XV_ASSUME(MaxUpperMarkBits <= 33);   /* counterexample extraction only: the replay program instantiates MaxUpper 0..33 (33 behaves like every larger value) */
#endif
}

/* ---------------- constants ---------------- */
void h_consts(void) {
  pick_config();
  uintptr_t mb = MarkBits, mu = MaxUpperMarkBits;
  XV_OBL("mp.consts.layout", mb >= 1 && mb <= 32);
  XV_OBL("mp.consts.layout", upper_mark_bits == spec_upper(mb, mu) && lower_mark_bits == spec_lower(mb, mu));
  XV_OBL("mp.consts.layout", upper_mark_bits <= mu && upper_mark_bits + lower_mark_bits == mb);
  XV_OBL("mp.consts.layout", pointer_bits == 64 - mb && number_of_mark_bits == mb);
  XV_OBL("mp.consts.layout", MarkMask == spec_low_ones(mb));
  XV_OBL("mp.consts.layout", pointer_mask == (uintptr_t)~spec_reserved(mb, mu));
  XV_OBL("mp.consts.layout", XV_SPEC0_NUMBER_OF_MARK_BITS == 0);
  XV_OBL("mp.consts.layout", XV_TPL_DEFAULT_MAX_UPPER == 16);   /* documented: "defaults to 16" (the bits a 48-bit address leaves free) */
  in_p = nondet_uptr(); { T* p = (T*)in_p;
    XV_OBL("mp.ctor.precondition", (XV_PRE_MAKE_PTR) == spec_canonical(in_p, mb, mu)); }
  if (upper_mark_bits > 0 && lower_mark_bits > 0) XV_CANARY("consts.split");
  if (lower_mark_bits == 0) XV_CANARY("consts.all_upper");
  if (upper_mark_bits == 0) XV_CANARY("consts.all_lower");
  if (mu > 64) XV_CANARY("consts.huge_maxupper");
}

/* ---------------- round trip ---------------- */
void h_roundtrip(void) {
  pick_config();
  in_p = nondet_uptr(); in_m = nondet_uptr();
  T* p = (T*)in_p; uintptr_t mark = in_m;
  XV_ASSUME(XV_PRE_MAKE_PTR);                 /* the class' own precondition (its assert), tied to the specification by mp.ctor.precondition */
  struct mp x; x._ptr = (T*)nondet_uptr();
  mp_ctor(&x, p, mark);
  XV_OBL("mp.get.roundtrip", mp_get(&x) == p);
  XV_OBL("mp.get.roundtrip", mp_arrow(&x) == p && mp_star(&x) == p);
  XV_OBL("mp.mark.roundtrip", mp_mark(&x) == (in_m & spec_low_ones(MarkBits)));
  XV_OBL("mp.mark.roundtrip", ((uintptr_t)x._ptr & (uintptr_t)~spec_reserved(MarkBits, MaxUpperMarkBits)) == in_p);  /* the mark lives in the reserved bits only */
  if (upper_mark_bits > 0 && lower_mark_bits > 0 && in_p != 0 && mp_mark(&x) != 0) XV_CANARY("roundtrip.split");
  if (lower_mark_bits == 0 && in_p != 0 && mp_mark(&x) != 0) XV_CANARY("roundtrip.all_upper");
  if (upper_mark_bits == 0 && in_p != 0 && mp_mark(&x) != 0) XV_CANARY("roundtrip.all_lower");
  if (MarkBits == 32 && mp_mark(&x) == 0xffffffffu) XV_CANARY("roundtrip.mb32");
  if ((in_m >> 32) != 0 && mp_mark(&x) != 0) XV_CANARY("roundtrip.mark_trimmed");
  if (MaxUpperMarkBits == XV_TPL_DEFAULT_MAX_UPPER && MarkBits == 18) XV_CANARY("roundtrip.default_maxupper");
}

/* ---------------- equality of constructed values ---------------- */
void h_eq(void) {
  pick_config();
  in_p = nondet_uptr(); in_m = nondet_uptr(); in_p2 = nondet_uptr(); in_m2 = nondet_uptr();
  struct mp a, b; a._ptr = (T*)nondet_uptr(); b._ptr = (T*)nondet_uptr();
  { T* p = (T*)in_p;  XV_ASSUME(XV_PRE_MAKE_PTR); }
  { T* p = (T*)in_p2; XV_ASSUME(XV_PRE_MAKE_PTR); }
  mp_ctor(&a, (T*)in_p, in_m); mp_ctor(&b, (T*)in_p2, in_m2);
  uintptr_t mm = spec_low_ones(MarkBits);
  _Bool same = in_p == in_p2 && (in_m & mm) == (in_m2 & mm);
  XV_OBL("mp.eq.value", mp_eq(a, b) == same);
  XV_OBL("mp.eq.value", mp_ne(a, b) == !same);
  XV_OBL("mp.eq.value", mp_eq(a, a) && !mp_ne(a, a) && mp_eq(b, a) == mp_eq(a, b));
  if (same) XV_CANARY("eq.same");
  if (in_p != in_p2 && (in_m & mm) == (in_m2 & mm)) XV_CANARY("eq.ptr_differs");
  if (in_p == in_p2 && (in_m & mm) != (in_m2 & mm)) XV_CANARY("eq.mark_differs");
  if (same && in_m != in_m2) XV_CANARY("eq.mark_congruent");
}

/* ---------------- any representation word (what a load from an atomic / a copy may hold) ---------------- */
void h_repr(void) {
  pick_config();
  in_w = nondet_uptr();
  struct mp a, c; a._ptr = (T*)in_w; c._ptr = (T*)nondet_uptr();
  T* p = mp_get(&a); uintptr_t m = mp_mark(&a);
  XV_OBL("mp.repr.bijective", XV_PRE_MAKE_PTR);                         /* get() is canonical */
  XV_OBL("mp.repr.bijective", m <= spec_low_ones(MarkBits));
  mp_ctor(&c, p, m);
  XV_OBL("mp.repr.bijective", (uintptr_t)c._ptr == in_w && mp_eq(c, a));
  XV_OBL("mp.reset.null", mp_bool(&a) == (mp_get(&a) != 0 || mp_mark(&a) != 0));
  XV_CANARY("repr.reached");
}
void h_repr_eq(void) {
  pick_config();
  in_w = nondet_uptr(); in_w2 = nondet_uptr();
  struct mp a, b; a._ptr = (T*)in_w; b._ptr = (T*)in_w2;
  _Bool same = mp_get(&a) == mp_get(&b) && mp_mark(&a) == mp_mark(&b);
  XV_OBL("mp.eq.value", mp_eq(a, b) == same);
  XV_OBL("mp.eq.value", mp_ne(a, b) == !same);
  if (same) XV_CANARY("repr.equal"); else XV_CANARY("repr.differ");
}

/* ---------------- reset / bool ---------------- */
void h_reset(void) {
  pick_config();
  in_p = nondet_uptr(); in_m = nondet_uptr(); in_w = nondet_uptr();
  struct mp x, d, y; x._ptr = (T*)in_w;                /* any state */
  d._ptr = (T*)nondet_uptr(); y._ptr = (T*)nondet_uptr();
  mp_reset(&x);
  XV_OBL("mp.reset.null", mp_get(&x) == 0 && mp_mark(&x) == 0 && !mp_bool(&x));
  mp_ctor(&d, (T*)(XV_DEFAULT_P), (XV_DEFAULT_MARK));   /* the default arguments of the constructor */
  XV_OBL("mp.reset.null", mp_eq(x, d) && !mp_ne(x, d) && mp_get(&d) == 0 && mp_mark(&d) == 0);
  { T* p = (T*)in_p; XV_ASSUME(XV_PRE_MAKE_PTR); }
  mp_ctor(&y, (T*)in_p, in_m);
  _Bool null0 = in_p == 0 && (in_m & spec_low_ones(MarkBits)) == 0;
  XV_OBL("mp.reset.null", mp_bool(&y) == !null0);
  XV_OBL("mp.reset.null", mp_eq(y, x) == null0);
  XV_CANARY("reset.reached");
  if (in_p == 0 && !null0) XV_CANARY("reset.marked_null");
  if (null0 && in_m != 0) XV_CANARY("reset.null");
}

/* ---------------- utils::rotate<C> ---------------- */
void h_rotate(void) {
  in_c = nondet_uptr(); in_v = nondet_uptr();
  uintptr_t C = in_c, v = in_v; XV_ASSUME(C <= 63);
  uintptr_t l = XV_ROTATE_left(C, v), r = XV_ROTATE_right(C, v);
  XV_OBL("mp.rotate.inverse", XV_ROTATE_right(C, l) == v);
  XV_OBL("mp.rotate.inverse", XV_ROTATE_left(C, r) == v);
  unsigned i = nondet_uint(); XV_ASSUME(i < 64);
  XV_OBL("mp.rotate.inverse", ((l >> ((i + C) & 63)) & 1) == ((v >> i) & 1));
  XV_OBL("mp.rotate.inverse", ((r >> i) & 1) == ((v >> ((i + C) & 63)) & 1));
  if (C == 0 && v != 0) XV_CANARY("rotate.c0");
  if (C == 63 && v != 0) XV_CANARY("rotate.c63");
  if (C > 0 && C < 63 && l != v) XV_CANARY("rotate.mid");
}

/* ---------------- MarkBits == 0 specialisation ---------------- */
void h_spec0(void) {
  in_mb = 0; in_mu = nondet_uptr(); MarkBits = 0; MaxUpperMarkBits = in_mu;
  in_p = nondet_uptr(); in_p2 = nondet_uptr(); in_w = nondet_uptr();
  struct mp a, b, x, d; a._ptr = (T*)nondet_uptr(); b._ptr = (T*)nondet_uptr(); x._ptr = (T*)in_w; d._ptr = (T*)nondet_uptr();
  mp0_ctor(&a, (T*)in_p); mp0_ctor(&b, (T*)in_p2);
  XV_OBL("mp.spec0.roundtrip", mp0_get(&a) == (T*)in_p && mp0_arrow(&a) == (T*)in_p && mp0_star(&a) == (T*)in_p && mp0_mark(&a) == 0);
  XV_OBL("mp.spec0.roundtrip", mp0_eq(a, b) == (in_p == in_p2) && mp0_ne(a, b) == (in_p != in_p2));
  XV_OBL("mp.spec0.roundtrip", mp0_bool(&a) == (in_p != 0));
  mp0_reset(&x); mp0_ctor(&d, (T*)(XV_SPEC0_DEFAULT_P));
  XV_OBL("mp.spec0.roundtrip", mp0_get(&x) == 0 && mp0_mark(&x) == 0 && !mp0_bool(&x) && mp0_eq(x, d));
  XV_CANARY("spec0.reached");
  if ((in_p >> 48) != 0 && (in_p & 7) != 0) XV_CANARY("spec0.high_bits");
}
