// native replay for unit mp: evaluates the obligations of the harness on the REAL xenium::marked_ptr / utils::rotate
// for the configuration and inputs cbmc found.   in_mb=MarkBits in_mu=MaxUpperMarkBits in_p in_m in_p2 in_m2 in_w in_w2 in_c in_v
// exit 0: everything holds, 1: a violation was reproduced (printed), 2: configuration not instantiated here
#include <xenium/marked_ptr.hpp>
#include <cstdio>
#include <cstdlib>
#include <cstring>
#include <string>
#include <map>
#include <utility>
struct Foo; // incomplete, like T in the harness
static std::map<std::string, unsigned long long> args;
using W = uintptr_t;
static int bad = 0;
#define CHECK(name, cond, ...) do { if (!(cond)) { printf("VIOLATED %s: ", name); printf(__VA_ARGS__); printf("\n"); bad++; } } while (0)

static W low_ones(W n) { return n >= 64 ? ~W(0) : ((W(1) << n) - 1); }
static W reserved(W mb, W mu) { W up = mb < mu ? mb : mu, lo = mb - up; return ~low_ones(64 - up) | low_ones(lo); }

template <W MB, W MU> int run() {
  using MP = xenium::marked_ptr<Foo, MB, MU>;
  W p = args["in_p"], m = args["in_m"], p2 = args["in_p2"], m2 = args["in_m2"], w = args["in_w"], w2 = args["in_w2"];
  if constexpr (MB == 0) {
    MP a(reinterpret_cast<Foo*>(p)), b(reinterpret_cast<Foo*>(p2)), x, d;
    x._ptr = reinterpret_cast<Foo*>(w);
    CHECK("mp.spec0.roundtrip", reinterpret_cast<W>(a.get()) == p && a.mark() == 0, "get()=%#zx mark()=%zu for p=%#zx", (size_t)a.get(), (size_t)a.mark(), (size_t)p);
    CHECK("mp.spec0.roundtrip", (a == b) == (p == p2) && (a != b) == (p != p2), "== / != on %#zx, %#zx", (size_t)p, (size_t)p2);
    CHECK("mp.spec0.roundtrip", static_cast<bool>(a) == (p != 0), "bool for p=%#zx", (size_t)p);
    x.reset();
    CHECK("mp.spec0.roundtrip", x.get() == nullptr && x.mark() == 0 && !x && x == d, "reset");
    CHECK("mp.consts.layout", MP::number_of_mark_bits == 0, "number_of_mark_bits");
  } else {
    const W rsv = reserved(MB, MU), mm = low_ones(MB);
    // constants (private members: compiled with -fno-access-control)
    CHECK("mp.consts.layout", MP::pointer_mask == W(~rsv) && MP::pointer_bits == 64 - MB && MP::MarkMask == mm && MP::number_of_mark_bits == MB &&
          MP::upper_mark_bits == (MB < MU ? MB : MU) && MP::lower_mark_bits + MP::upper_mark_bits == MB,
          "pointer_mask=%#zx (spec %#zx) pointer_bits=%zu lower=%zu upper=%zu", (size_t)MP::pointer_mask, (size_t)W(~rsv), (size_t)MP::pointer_bits, (size_t)MP::lower_mark_bits, (size_t)MP::upper_mark_bits);
    bool canon = (p & rsv) == 0, canon2 = (p2 & rsv) == 0;
    CHECK("mp.ctor.precondition", ((p & ~MP::pointer_mask) == 0) == canon, "the class' assert %s p=%#zx, the specification says %s", canon ? "rejects" : "accepts", (size_t)p, canon ? "canonical" : "not canonical");
    if (bad) return 1;   // constructing would only trip the assert
    if (canon) {
      MP x(reinterpret_cast<Foo*>(p), m);
      CHECK("mp.get.roundtrip", reinterpret_cast<W>(x.get()) == p, "marked_ptr<%zu,%zu>(%#zx, %#zx).get() = %#zx", (size_t)MB, (size_t)MU, (size_t)p, (size_t)m, (size_t)x.get());
      CHECK("mp.get.roundtrip", reinterpret_cast<W>(x.operator->()) == p, "operator->");
      CHECK("mp.mark.roundtrip", x.mark() == (m & mm), "marked_ptr<%zu,%zu>(%#zx, %#zx).mark() = %#zx, expected %#zx", (size_t)MB, (size_t)MU, (size_t)p, (size_t)m, (size_t)x.mark(), (size_t)(m & mm));
      CHECK("mp.mark.roundtrip", (reinterpret_cast<W>(x._ptr) & ~rsv) == p, "representation %#zx changes pointer bits", (size_t)x._ptr);
      bool null0 = p == 0 && (m & mm) == 0;
      CHECK("mp.reset.null", static_cast<bool>(x) == !null0, "operator bool = %d for (p=%#zx, mark=%#zx)", (int)static_cast<bool>(x), (size_t)p, (size_t)(m & mm));
      MP r; r._ptr = reinterpret_cast<Foo*>(w); r.reset();
      CHECK("mp.reset.null", (x == r) == null0, "== with a reset pointer");
      if (canon2) {
        MP y(reinterpret_cast<Foo*>(p2), m2);
        bool same = p == p2 && (m & mm) == (m2 & mm);
        CHECK("mp.eq.value", (x == y) == same, "(%#zx,%#zx) == (%#zx,%#zx) gives %d, expected %d", (size_t)p, (size_t)m, (size_t)p2, (size_t)m2, (int)(x == y), (int)same);
        CHECK("mp.eq.value", (x != y) == !same, "(%#zx,%#zx) != (%#zx,%#zx) gives %d, expected %d", (size_t)p, (size_t)m, (size_t)p2, (size_t)m2, (int)(x != y), (int)!same);
      }
    }
    { // reset from any state, default construction
      MP x, d; x._ptr = reinterpret_cast<Foo*>(w); x.reset();
      CHECK("mp.reset.null", x.get() == nullptr && x.mark() == 0 && !x && x == d && !(x != d), "after reset(): get()=%#zx mark()=%#zx", (size_t)x.get(), (size_t)x.mark());
      CHECK("mp.reset.null", d.get() == nullptr && d.mark() == 0, "default constructed: get()=%#zx mark()=%#zx", (size_t)d.get(), (size_t)d.mark());
    }
    { // any representation word
      MP a, b; a._ptr = reinterpret_cast<Foo*>(w); b._ptr = reinterpret_cast<Foo*>(w2);
      W g = reinterpret_cast<W>(a.get()), k = a.mark();
      CHECK("mp.repr.bijective", (g & rsv) == 0 && k <= mm, "word %#zx: get()=%#zx mark()=%#zx", (size_t)w, (size_t)g, (size_t)k);
      if ((g & ~MP::pointer_mask) == 0) {
        MP c(a.get(), k);
        CHECK("mp.repr.bijective", reinterpret_cast<W>(c._ptr) == w && c == a, "word %#zx rebuilt from (get, mark) = (%#zx, %#zx) is %#zx", (size_t)w, (size_t)g, (size_t)k, (size_t)c._ptr);
      }
      bool same = a.get() == b.get() && a.mark() == b.mark();
      CHECK("mp.eq.value", (a == b) == same && (a != b) == !same, "words %#zx, %#zx: == gives %d, (get,mark) equal: %d", (size_t)w, (size_t)w2, (int)(a == b), (int)same);
      CHECK("mp.reset.null", static_cast<bool>(a) == (a.get() != nullptr || a.mark() != 0), "operator bool on word %#zx", (size_t)w);
    }
  }
  return bad ? 1 : 0;
}

template <W C> int rot() {
  W v = args["in_v"];
  W l = xenium::utils::rotate<C>::left(v), r = xenium::utils::rotate<C>::right(v);
  CHECK("mp.rotate.inverse", xenium::utils::rotate<C>::right(l) == v && xenium::utils::rotate<C>::left(r) == v, "rotate<%zu>: v=%#zx left=%#zx right=%#zx", (size_t)C, (size_t)v, (size_t)l, (size_t)r);
  for (unsigned i = 0; i < 64; ++i)
    CHECK("mp.rotate.inverse", ((l >> ((i + C) & 63)) & 1) == ((v >> i) & 1) && ((r >> i) & 1) == ((v >> ((i + C) & 63)) & 1), "rotate<%zu> bit %u of %#zx", (size_t)C, i, (size_t)v);
  return bad ? 1 : 0;
}

constexpr W NMU = 34;   // MaxUpperMarkBits 0..33; every value > 32 >= MarkBits behaves like 33 (lower_mark_bits == 0)
template <size_t... I> int dispatch(size_t idx, std::index_sequence<I...>) {
  using fn = int (*)();
  static const fn table[] = { &run<I / NMU, I % NMU>... };
  return table[idx]();
}
template <size_t... I> int dispatch_rot(size_t c, std::index_sequence<I...>) {
  using fn = int (*)();
  static const fn table[] = { &rot<I>... };
  return table[c]();
}
int main(int argc, char** argv) {
  for (int i = 1; i < argc; ++i) { char* eq = strchr(argv[i], '='); if (!eq) continue; std::string k(argv[i], eq - argv[i]);
    args[k] = strtoull(eq + 1, 0, 0); }
  W mb = args["in_mb"], mu = args["in_mu"], c = args["in_c"];
  if (mb > 32) { printf("MarkBits %zu is rejected by the class' static_assert\n", (size_t)mb); return 2; }
  if (mu >= NMU) { printf("MaxUpperMarkBits %zu replayed as %zu (identical instantiation: lower_mark_bits == 0)\n", (size_t)mu, (size_t)(NMU - 1)); mu = NMU - 1; }
  if (c > 63) { printf("rotate count %zu not instantiated\n", (size_t)c); return 2; }
  int r1 = dispatch(mb * NMU + mu, std::make_index_sequence<33 * NMU>{});
  int r2 = dispatch_rot(c, std::make_index_sequence<64>{});
  printf("marked_ptr<T, %zu, %zu>, rotate<%zu>: %d check(s) violated\n", (size_t)mb, (size_t)mu, (size_t)c, bad);
  return (r1 || r2) ? 1 : 0;
}
