// native replay for unit mp: evaluates the obligations of the harness on the REAL xenium::marked_ptr / utils::rotate
// for the configuration and inputs cbmc found.   in_mb=MarkBits in_mu=MaxUpperMarkBits in_p in_m in_p2 in_m2 in_w in_w2 in_c in_v
// exit 0: everything holds, 1: a violation was reproduced (printed), 2: configuration not instantiated here
// The constructor's precondition is the class' own assert: it is evaluated by running the real constructor in a forked child (abort = rejected).
// All 33 x 34 (MarkBits 0..32, MaxUpperMarkBits 0..33) instantiations are compiled; per instantiation only thin wrappers
// around the real members are generated, the checks themselves are written once over a table of function pointers.
#include <xenium/marked_ptr.hpp>
#include <cstdio>
#include <cstdlib>
#include <cstring>
#include <string>
#include <map>
#include <utility>
#include <unistd.h>
#include <sys/wait.h>
struct Foo; // incomplete, like T in the harness
static std::map<std::string, unsigned long long> args;
using W = uintptr_t;
static int bad = 0;
#define CHECK(name, cond, ...) do { if (!(cond)) { printf("VIOLATED %s: ", name); printf(__VA_ARGS__); printf("\n"); bad++; } } while (0)
#define Z(x) ((size_t)(x))

struct Ops {
  W (*make)(W p, W m); W (*dflt)(); W (*get)(W raw); W (*arrow)(W raw); W (*mark)(W raw); W (*reset)(W raw);
  bool (*eq)(W, W); bool (*ne)(W, W); bool (*boolean)(W);
  W pointer_mask, pointer_bits, mark_mask, nmb, lower, upper;
};
template <W MB, W MU> struct Inst {
  using MP = xenium::marked_ptr<Foo, MB, MU>;
  static MP raw(W w) { MP x; x._ptr = reinterpret_cast<Foo*>(w); return x; }      // -fno-access-control
  static W make(W p, W m) { if constexpr (MB == 0) { (void)m; MP x(reinterpret_cast<Foo*>(p)); return reinterpret_cast<W>(x._ptr); }
                            else { MP x(reinterpret_cast<Foo*>(p), m); return reinterpret_cast<W>(x._ptr); } }
  static W dflt() { MP x; return reinterpret_cast<W>(x._ptr); }
  static W get(W w) { return reinterpret_cast<W>(raw(w).get()); }
  static W arrow(W w) { return reinterpret_cast<W>(raw(w).operator->()); }
  static W mark(W w) { return raw(w).mark(); }
  static W reset(W w) { MP x = raw(w); x.reset(); return reinterpret_cast<W>(x._ptr); }
  static bool eq(W a, W b) { return raw(a) == raw(b); }
  static bool ne(W a, W b) { return raw(a) != raw(b); }
  static bool boolean(W a) { return static_cast<bool>(raw(a)); }
  static Ops ops() {
    Ops o{make, dflt, get, arrow, mark, reset, eq, ne, boolean, 0, 0, 0, MP::number_of_mark_bits, 0, 0};
    if constexpr (MB != 0) { o.pointer_mask = MP::pointer_mask; o.pointer_bits = MP::pointer_bits; o.mark_mask = MP::MarkMask; o.lower = MP::lower_mark_bits; o.upper = MP::upper_mark_bits; }
    return o;
  }
};

static W low_ones(W n) { return n >= 64 ? ~W(0) : ((W(1) << n) - 1); }
static W reserved(W mb, W mu) { W up = mb < mu ? mb : mu, lo = mb - up; return ~low_ones(64 - up) | low_ones(lo); }

// does the class' own precondition (the assert in make_ptr) accept p?  Evaluated by running the REAL constructor in a child process.
static bool accepts(const Ops& o, W p, W m) {
  fflush(stdout);
  pid_t c = fork();
  if (c == 0) { if (!freopen("/dev/null", "w", stderr)) _exit(3); (void)o.make(p, m); _exit(0); }
  int st = 0; waitpid(c, &st, 0);
  return WIFEXITED(st) && WEXITSTATUS(st) == 0;
}

static int run(const Ops& o, W MB, W MU) {
  W p = args["in_p"], m = args["in_m"], p2 = args["in_p2"], m2 = args["in_m2"], w = args["in_w"], w2 = args["in_w2"];
  if (MB == 0) {
    W a = o.make(p, 0), b = o.make(p2, 0);
    CHECK("mp.spec0.roundtrip", o.get(a) == p && o.arrow(a) == p && o.mark(a) == 0, "get()=%#zx mark()=%zu for p=%#zx", Z(o.get(a)), Z(o.mark(a)), Z(p));
    CHECK("mp.spec0.roundtrip", o.eq(a, b) == (p == p2) && o.ne(a, b) == (p != p2), "== / != on %#zx, %#zx", Z(p), Z(p2));
    CHECK("mp.spec0.roundtrip", o.boolean(a) == (p != 0), "bool for p=%#zx", Z(p));
    W x = o.reset(w);
    CHECK("mp.spec0.roundtrip", o.get(x) == 0 && o.mark(x) == 0 && !o.boolean(x) && o.eq(x, o.dflt()), "reset");
    CHECK("mp.consts.layout", o.nmb == 0, "number_of_mark_bits");
    return bad ? 1 : 0;
  }
  const W rsv = reserved(MB, MU), mm = low_ones(MB);
  CHECK("mp.consts.layout", o.pointer_mask == W(~rsv) && o.pointer_bits == 64 - MB && o.mark_mask == mm && o.nmb == MB && o.upper == (MB < MU ? MB : MU) && o.lower + o.upper == MB,
        "pointer_mask=%#zx (spec %#zx) pointer_bits=%zu lower=%zu upper=%zu", Z(o.pointer_mask), Z(W(~rsv)), Z(o.pointer_bits), Z(o.lower), Z(o.upper));
  bool canon = (p & rsv) == 0, canon2 = (p2 & rsv) == 0;
  bool acc = accepts(o, p, m), acc2 = accepts(o, p2, m2);
  CHECK("mp.ctor.precondition", acc == canon, "the class' assert %s p=%#zx, the specification says %s",
        acc ? "accepts" : "rejects", Z(p), canon ? "canonical" : "not canonical");
  CHECK("mp.ctor.precondition", acc2 == canon2, "the class' assert %s p=%#zx, the specification says %s",
        acc2 ? "accepts" : "rejects", Z(p2), canon2 ? "canonical" : "not canonical");
  if (acc) {       // whatever the class accepts must round-trip
    W x = o.make(p, m);
    CHECK("mp.get.roundtrip", o.get(x) == p, "marked_ptr<T,%zu,%zu>(%#zx, %#zx).get() = %#zx", Z(MB), Z(MU), Z(p), Z(m), Z(o.get(x)));
    CHECK("mp.get.roundtrip", o.arrow(x) == p, "operator-> = %#zx", Z(o.arrow(x)));
    CHECK("mp.mark.roundtrip", o.mark(x) == (m & mm), "marked_ptr<T,%zu,%zu>(%#zx, %#zx).mark() = %#zx, expected %#zx", Z(MB), Z(MU), Z(p), Z(m), Z(o.mark(x)), Z(m & mm));
    CHECK("mp.mark.roundtrip", (x & ~rsv) == p, "representation %#zx changes pointer bits of %#zx", Z(x), Z(p));
    bool null0 = p == 0 && (m & mm) == 0;
    CHECK("mp.reset.null", o.boolean(x) == !null0, "operator bool = %d for (p=%#zx, mark=%#zx)", (int)o.boolean(x), Z(p), Z(m & mm));
    CHECK("mp.reset.null", o.eq(x, o.reset(w)) == null0, "== with a reset pointer");
    if (acc2) {
      W y = o.make(p2, m2);
      bool same = p == p2 && (m & mm) == (m2 & mm);
      CHECK("mp.eq.value", o.eq(x, y) == same, "(%#zx,%#zx) == (%#zx,%#zx) gives %d, expected %d", Z(p), Z(m), Z(p2), Z(m2), (int)o.eq(x, y), (int)same);
      CHECK("mp.eq.value", o.ne(x, y) == !same, "(%#zx,%#zx) != (%#zx,%#zx) gives %d, expected %d", Z(p), Z(m), Z(p2), Z(m2), (int)o.ne(x, y), (int)!same);
    }
  }
  { // reset from any state, default construction
    W x = o.reset(w), d = o.dflt();
    CHECK("mp.reset.null", o.get(x) == 0 && o.mark(x) == 0 && !o.boolean(x) && o.eq(x, d) && !o.ne(x, d), "after reset(): get()=%#zx mark()=%#zx", Z(o.get(x)), Z(o.mark(x)));
    CHECK("mp.reset.null", o.get(d) == 0 && o.mark(d) == 0, "default constructed: get()=%#zx mark()=%#zx", Z(o.get(d)), Z(o.mark(d)));
  }
  { // any representation word
    W g = o.get(w), k = o.mark(w);
    CHECK("mp.repr.bijective", (g & rsv) == 0 && k <= mm, "word %#zx: get()=%#zx mark()=%#zx", Z(w), Z(g), Z(k));
    bool accg = accepts(o, g, k);
    CHECK("mp.repr.bijective", accg, "get() = %#zx of word %#zx is rejected by the constructor's assert", Z(g), Z(w));
    if (accg) {
      W c = o.make(g, k);
      CHECK("mp.repr.bijective", c == w && o.eq(c, w), "word %#zx rebuilt from (get, mark) = (%#zx, %#zx) is %#zx", Z(w), Z(g), Z(k), Z(c));
    }
    bool same = o.get(w) == o.get(w2) && o.mark(w) == o.mark(w2);
    CHECK("mp.eq.value", o.eq(w, w2) == same && o.ne(w, w2) == !same, "words %#zx, %#zx: == gives %d, (get,mark) equal: %d", Z(w), Z(w2), (int)o.eq(w, w2), (int)same);
    CHECK("mp.reset.null", o.boolean(w) == (o.get(w) != 0 || o.mark(w) != 0), "operator bool on word %#zx", Z(w));
  }
  return bad ? 1 : 0;
}

struct Rot { W (*left)(W); W (*right)(W); };
static int rot(const Rot& f, W C) {
  W v = args["in_v"], l = f.left(v), r = f.right(v);
  CHECK("mp.rotate.inverse", f.right(l) == v && f.left(r) == v, "rotate<%zu>: v=%#zx left=%#zx right=%#zx right(left)=%#zx left(right)=%#zx", Z(C), Z(v), Z(l), Z(r), Z(f.right(l)), Z(f.left(r)));
  for (unsigned i = 0; i < 64; ++i)
    CHECK("mp.rotate.inverse", ((l >> ((i + C) & 63)) & 1) == ((v >> i) & 1) && ((r >> i) & 1) == ((v >> ((i + C) & 63)) & 1), "rotate<%zu> bit %u of %#zx", Z(C), i, Z(v));
  return bad ? 1 : 0;
}

constexpr W NMU = 34;   // MaxUpperMarkBits 0..33; every value > 32 >= MarkBits behaves like 33 (lower_mark_bits == 0)
template <size_t... I> Ops pick(size_t idx, std::index_sequence<I...>) {
  using fn = Ops (*)();
  static const fn table[] = { &Inst<I / NMU, I % NMU>::ops... };
  return table[idx]();
}
template <size_t... I> Rot pick_rot(size_t c, std::index_sequence<I...>) {
  static const Rot table[] = { Rot{&xenium::utils::rotate<I>::left, &xenium::utils::rotate<I>::right}... };
  return table[c];
}
int main(int argc, char** argv) {
  for (int i = 1; i < argc; ++i) { char* eq = strchr(argv[i], '='); if (!eq) continue; std::string k(argv[i], eq - argv[i]);
    args[k] = strtoull(eq + 1, 0, 0); }
  W mb = args["in_mb"], mu = args["in_mu"], c = args["in_c"];
  if (mb > 32) { printf("MarkBits %zu is rejected by the class' static_assert\n", Z(mb)); return 2; }
  if (mu >= NMU) { printf("MaxUpperMarkBits %zu replayed as %zu (same instantiation: lower_mark_bits == 0)\n", Z(mu), Z(NMU - 1)); mu = NMU - 1; }
  if (c > 63) { printf("rotate count %zu not instantiated\n", Z(c)); return 2; }
  int r1 = run(pick(mb * NMU + mu, std::make_index_sequence<33 * NMU>{}), mb, mu);
  int r2 = rot(pick_rot(c, std::make_index_sequence<64>{}), c);
  printf("marked_ptr<T, %zu, %zu>, rotate<%zu>: %d check(s) violated\n", Z(mb), Z(mu), Z(c), bad);
  return (r1 || r2) ? 1 : 0;
}
