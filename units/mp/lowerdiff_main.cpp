// lowering differential, C++ side of unit mp: the real xenium::marked_ptr<T, MarkBits, MaxUpperMarkBits> (private members reached with
// -fno-access-control) and utils::rotate<C> against the natively compiled lowered text.
// Template parameters: the C side reads MarkBits / MaxUpperMarkBits from run-time globals (ld_mp_config), this side instantiates the class for
// a representative grid of (MarkBits, MaxUpperMarkBits) and calls the matching instantiation through a table of function pointers.
// The asserts of the real class are compiled out (NDEBUG) as XV_XASSERT is on the C side: both sides are compared on ALL words, canonical or not.
#define NDEBUG
#include <xenium/marked_ptr.hpp>
#include <type_traits>
#include <utility>
#include "ld_common.hpp"
using W = std::uintptr_t;
extern "C" {
void ld_mp_config(W mb, W mu);
W ld_mp_const(int i);
W ld_mp_make_ptr(W p, W mark); W ld_mp_ctor(W p, W mark, W before); W ld_mp_reset(W w); W ld_mp_mark(W w); W ld_mp_get(W w);
int ld_mp_bool(W w); W ld_mp_arrow(W w); W ld_mp_star(W w); int ld_mp_eq(W a, W b); int ld_mp_ne(W a, W b);
W ld_mp0_ctor(W p, W before); W ld_mp0_reset(W w); W ld_mp0_mark(W w); W ld_mp0_get(W w);
int ld_mp0_bool(W w); W ld_mp0_arrow(W w); W ld_mp0_star(W w); int ld_mp0_eq(W a, W b); int ld_mp0_ne(W a, W b);
W ld_rotate_left(W C, W v); W ld_rotate_right(W C, W v);
}
struct Foo { int x; };

struct Ops {
  W mb, mu;
  W (*make_ptr)(W, W); W (*ctor)(W, W, W); W (*dflt)(); W (*reset)(W); W (*mark)(W); W (*get)(W); bool (*boolean)(W); W (*arrow)(W); W (*star)(W);
  bool (*eq)(W, W); bool (*ne)(W, W);
  W consts[6];
};
template <W MB, W MU> struct Inst {
  using MP = xenium::marked_ptr<Foo, MB, MU>;
  static Foo* P(W w) { return reinterpret_cast<Foo*>(w); }
  static W U(Foo* p) { return reinterpret_cast<W>(p); }
  static MP raw(W w) { MP x; x._ptr = P(w); return x; }
  static W make_ptr(W p, W m) { if constexpr (MB != 0) { MP x; return U(x.make_ptr(P(p), m)); } else { (void)p; (void)m; return 0; } }
  static W ctor(W p, W m, W before) {                    // placement new over storage holding `before`
    alignas(MP) unsigned char buf[sizeof(MP)]; *reinterpret_cast<W*>(buf) = before;
    MP* x; if constexpr (MB != 0) x = new (buf) MP(P(p), m); else { (void)m; x = new (buf) MP(P(p)); }
    return U(x->_ptr);
  }
  static W dflt() { MP x; return U(x._ptr); }
  static W reset(W w) { MP x = raw(w); x.reset(); return U(x._ptr); }
  static W mark(W w) { return raw(w).mark(); }
  static W get(W w) { return U(raw(w).get()); }
  static bool boolean(W w) { return static_cast<bool>(raw(w)); }
  static W arrow(W w) { return U(raw(w).operator->()); }
  static W star(W w) { return U(&raw(w).operator*()); }
  static bool eq(W a, W b) { return raw(a) == raw(b); }
  static bool ne(W a, W b) { return raw(a) != raw(b); }
  static Ops ops() {
    Ops o{MB, MU, make_ptr, ctor, dflt, reset, mark, get, boolean, arrow, star, eq, ne, {0, 0, 0, 0, 0, MP::number_of_mark_bits}};
    if constexpr (MB != 0) { o.consts[0] = MP::pointer_bits; o.consts[1] = MP::MarkMask; o.consts[2] = MP::lower_mark_bits; o.consts[3] = MP::upper_mark_bits; o.consts[4] = MP::pointer_mask; }
    return o;
  }
};
template <W MB, W... MU> static void add_mb(std::vector<Ops>& v) { (v.push_back(Inst<MB, MU>::ops()), ...); }
template <W... MB> static void add_all(std::vector<Ops>& v) { (add_mb<MB, 0, 1, 2, 8, 15, 16, 17, 20, 32, 33, 64>(v), ...); }

// the default of the template parameter MaxUpperMarkBits, found by comparing types
template <W... K> static W real_default_max_upper(std::integer_sequence<W, K...>) {
  W r = ~W(0); ((std::is_same_v<xenium::marked_ptr<Foo, 5>, xenium::marked_ptr<Foo, 5, K>> ? (void)(r = K) : (void)0), ...); return r;
}
struct Rot { W (*left)(W); W (*right)(W); };
template <W... C> static std::vector<Rot> rotations(std::integer_sequence<W, C...>) {
  return {Rot{&xenium::utils::rotate<C>::left, &xenium::utils::rotate<C>::right}...};
}

static const char* U = "mp";
static const std::uint64_t PER_CFG = 2500;     // random cases per function and configuration (x 132 configurations)

int main() {
  std::vector<Ops> cfgs, cfgs0;
  add_all<1, 2, 3, 7, 8, 15, 16, 17, 18, 24, 31, 32>(cfgs);
  add_all<0>(cfgs0);
  const auto bnd = ld::boundary(64);
  ld::rng g(40);
  auto& rc = ld::rep(U, "constants"); rc.fixed = true;
  auto &rmk = ld::rep(U, "make_ptr"), &rct = ld::rep(U, "ctor"), &rrs = ld::rep(U, "reset"), &rma = ld::rep(U, "mark"), &rge = ld::rep(U, "get"),
       &rbo = ld::rep(U, "bool"), &rar = ld::rep(U, "arrow"), &rst = ld::rep(U, "star"), &req = ld::rep(U, "eq"), &rne = ld::rep(U, "ne");

  for (const Ops& o : cfgs) {
    ld_mp_config(o.mb, o.mu);
    static const char* cn[6] = {"pointer_bits", "MarkMask", "lower_mark_bits", "upper_mark_bits", "pointer_mask", "number_of_mark_bits"};
    for (int i = 0; i < 6; ++i) rc.check(o.consts[i] == ld_mp_const(i), "<%zu,%zu> %s real=%#zx lowered=%#zx", o.mb, o.mu, cn[i], o.consts[i], ld_mp_const(i));
    { W a = o.dflt(), b = ld_mp_ctor(ld_mp_const(8), ld_mp_const(9), ~W(0));     // default arguments of the constructor
      rc.check(a == b, "<%zu,%zu> default constructed real=%#zx lowered ctor(default p, default mark)=%#zx", o.mb, o.mu, a, b); }
    const W pmask = o.consts[4];
    auto word = [&](W w) {
      { W a = o.reset(w), b = ld_mp_reset(w); rrs.check(a == b, "<%zu,%zu> word=%#zx real=%#zx lowered=%#zx", o.mb, o.mu, w, a, b); }
      { W a = o.mark(w), b = ld_mp_mark(w); rma.check(a == b, "<%zu,%zu> word=%#zx real=%#zx lowered=%#zx", o.mb, o.mu, w, a, b); }
      { W a = o.get(w), b = ld_mp_get(w); rge.check(a == b, "<%zu,%zu> word=%#zx real=%#zx lowered=%#zx", o.mb, o.mu, w, a, b); }
      { bool a = o.boolean(w); int b = ld_mp_bool(w); rbo.check(a == (b != 0), "<%zu,%zu> word=%#zx real=%d lowered=%d", o.mb, o.mu, w, (int)a, b); }
      { W a = o.arrow(w), b = ld_mp_arrow(w); rar.check(a == b, "<%zu,%zu> word=%#zx real=%#zx lowered=%#zx", o.mb, o.mu, w, a, b); }
      { W a = o.star(w), b = ld_mp_star(w); rst.check(a == b, "<%zu,%zu> word=%#zx real=%#zx lowered=%#zx", o.mb, o.mu, w, a, b); }
    };
    auto make = [&](W p, W m) {
      { W a = o.make_ptr(p, m), b = ld_mp_make_ptr(p, m); rmk.check(a == b, "<%zu,%zu> p=%#zx mark=%#zx real=%#zx lowered=%#zx", o.mb, o.mu, p, m, a, b); }
      { W before = g.next(); W a = o.ctor(p, m, before), b = ld_mp_ctor(p, m, before); rct.check(a == b, "<%zu,%zu> p=%#zx mark=%#zx real=%#zx lowered=%#zx", o.mb, o.mu, p, m, a, b); }
    };
    auto pair = [&](W x, W y) {
      { bool a = o.eq(x, y); int b = ld_mp_eq(x, y); req.check(a == (b != 0), "<%zu,%zu> l=%#zx r=%#zx real=%d lowered=%d", o.mb, o.mu, x, y, (int)a, b); }
      { bool a = o.ne(x, y); int b = ld_mp_ne(x, y); rne.check(a == (b != 0), "<%zu,%zu> l=%#zx r=%#zx real=%d lowered=%d", o.mb, o.mu, x, y, (int)a, b); }
    };
    for (W w : bnd) { word(w); word(w & pmask); word(w | ~pmask); }
    for (W p : bnd) for (W m : bnd) { make(p & pmask, m); if ((p & ~pmask) != 0 && (m & 7) == 1) make(p, m); }
    for (W x : bnd) { pair(x, x); pair(x, x + 1); pair(x, ~x); pair(x, x ^ (W(1) << 63)); }
    for (std::uint64_t i = 0; i < PER_CFG; ++i) {
      word(g.val());
      W p = g.val(), m = g.val();
      make(g.below(8) ? (p & pmask) : p, g.below(2) ? m : (m & (2 * o.consts[1] + 1)));      // mostly canonical pointers; marks around MarkMask
      W x = g.val(); pair(x, g.below(3) == 0 ? x : (g.below(2) ? x ^ (W(1) << g.below(64)) : g.val()));
    }
  }

  // MarkBits == 0 specialisation
  auto &r0c = ld::rep(U, "ctor0"), &r0r = ld::rep(U, "reset0"), &r0m = ld::rep(U, "mark0"), &r0g = ld::rep(U, "get0"), &r0b = ld::rep(U, "bool0"),
       &r0a = ld::rep(U, "arrow0"), &r0s = ld::rep(U, "star0"), &r0e = ld::rep(U, "eq0"), &r0n = ld::rep(U, "ne0");
  for (const Ops& o : cfgs0) {
    ld_mp_config(o.mb, o.mu);
    rc.check(o.consts[5] == ld_mp_const(6), "<0,%zu> number_of_mark_bits real=%zu lowered=%zu", o.mu, o.consts[5], ld_mp_const(6));
    { W a = o.dflt(), b = ld_mp0_ctor(ld_mp_const(10), ~W(0)); rc.check(a == b, "<0,%zu> default constructed real=%#zx lowered=%#zx", o.mu, a, b); }
    auto word = [&](W w) {
      { W before = g.next(); W a = o.ctor(w, 0, before), b = ld_mp0_ctor(w, before); r0c.check(a == b, "<0,%zu> p=%#zx real=%#zx lowered=%#zx", o.mu, w, a, b); }
      { W a = o.reset(w), b = ld_mp0_reset(w); r0r.check(a == b, "<0,%zu> word=%#zx real=%#zx lowered=%#zx", o.mu, w, a, b); }
      { W a = o.mark(w), b = ld_mp0_mark(w); r0m.check(a == b, "<0,%zu> word=%#zx real=%#zx lowered=%#zx", o.mu, w, a, b); }
      { W a = o.get(w), b = ld_mp0_get(w); r0g.check(a == b, "<0,%zu> word=%#zx real=%#zx lowered=%#zx", o.mu, w, a, b); }
      { bool a = o.boolean(w); int b = ld_mp0_bool(w); r0b.check(a == (b != 0), "<0,%zu> word=%#zx real=%d lowered=%d", o.mu, w, (int)a, b); }
      { W a = o.arrow(w), b = ld_mp0_arrow(w); r0a.check(a == b, "<0,%zu> word=%#zx real=%#zx lowered=%#zx", o.mu, w, a, b); }
      { W a = o.star(w), b = ld_mp0_star(w); r0s.check(a == b, "<0,%zu> word=%#zx real=%#zx lowered=%#zx", o.mu, w, a, b); }
    };
    auto pair = [&](W x, W y) {
      { bool a = o.eq(x, y); int b = ld_mp0_eq(x, y); r0e.check(a == (b != 0), "<0,%zu> l=%#zx r=%#zx real=%d lowered=%d", o.mu, x, y, (int)a, b); }
      { bool a = o.ne(x, y); int b = ld_mp0_ne(x, y); r0n.check(a == (b != 0), "<0,%zu> l=%#zx r=%#zx real=%d lowered=%d", o.mu, x, y, (int)a, b); }
    };
    for (W w : bnd) { word(w); pair(w, w); pair(w, w + 1); pair(w, ~w); }
    for (std::uint64_t i = 0; i < 10000; ++i) { word(g.val()); W x = g.val(); pair(x, g.below(3) == 0 ? x : (g.below(2) ? x ^ (W(1) << g.below(64)) : g.val())); }
  }
  { W a = real_default_max_upper(std::make_integer_sequence<W, 65>{}), b = ld_mp_const(7);
    rc.check(a == b, "default of template parameter MaxUpperMarkBits real=%zu lowered=%zu", a, b); }

  // utils::rotate<C>::left/right for every C in 0..63 (C == 0 is the explicit specialisation)
  auto &rl = ld::rep(U, "rotate.left"), &rr = ld::rep(U, "rotate.right");
  const auto rots = rotations(std::make_integer_sequence<W, 64>{});
  for (W C = 0; C < 64; ++C) {
    auto one = [&](W v) {
      { W a = rots[C].left(v), b = ld_rotate_left(C, v); rl.check(a == b, "C=%zu v=%#zx real=%#zx lowered=%#zx", C, v, a, b); }
      { W a = rots[C].right(v), b = ld_rotate_right(C, v); rr.check(a == b, "C=%zu v=%#zx real=%#zx lowered=%#zx", C, v, a, b); }
    };
    for (W v : bnd) one(v);
    for (std::uint64_t i = 0; i < 2000; ++i) one(g.val());
  }
  return ld::result();
}
