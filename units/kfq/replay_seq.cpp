// native replay for the SEQ obligations of unit kfq (kfq.push.stores / kfq.pop.empty / kfq.pop.oldest_segment / kfq.pop.k_oldest / kfq.inv.preserved): builds the quiescent
// state cbmc found on the real kirsch_kfifo_queue (k, L linked segments, head at position hp, tail at tp, slot occupancy bit i*k+j; ages = segment order) and runs the real
// push / try_pop 200 times from that state (random() takes whatever values it takes).
// args: in_k in_L in_hp in_tp in_occ op(0 = push, 1 = pop)    exit 0 holds, 1 violated, 2 cannot represent
#include <xenium/kirsch_kfifo_queue.hpp>
#include <xenium/reclamation/quiescent_state_based.hpp>
#include <cstdio>
#include <cstdlib>
#include <cstring>
#include <map>
#include <string>
#include <vector>
using Q = xenium::kirsch_kfifo_queue<int*, xenium::policy::reclaimer<xenium::reclamation::quiescent_state_based>>;
int main(int argc, char** argv) {
  std::map<std::string, unsigned long long> a;
  for (int i = 1; i < argc; ++i) { char* eq = strchr(argv[i], '='); if (eq) a[std::string(argv[i], eq - argv[i])] = strtoull(eq + 1, nullptr, 0); }
  std::uint64_t k = a["in_k"], L = a["in_L"], hp = a["in_hp"], tp = a["in_tp"], occ = a["in_occ"]; int op = (int)a["op"];
  if (k == 0 || k > 8 || L == 0 || L > 3 || hp > tp || tp >= L || tp + 2 < L) { printf("cannot represent k=%llu L=%llu hp=%llu tp=%llu\n", (unsigned long long)k, (unsigned long long)L, (unsigned long long)hp, (unsigned long long)tp); return 2; }
  static int items[64], fresh; int bad = 0;
  for (int rep = 0; rep < 200 && !bad; rep++) {
    Q q(k);
    std::vector<Q::segment*> seg(L);
    seg[0] = q.head_.load().get();
    for (std::uint64_t i = 1; i < L; i++) { seg[i] = q.alloc_segment(); seg[i - 1]->next.store(Q::marked_ptr(seg[i], 3)); }
    std::uint64_t n = 0;
    for (std::uint64_t i = 0; i < L; i++) {
      seg[i]->deleted.store(i < hp);
      for (std::uint64_t j = 0; j < k; j++) { bool nn = (occ >> (i * k + j)) & 1; n += nn; seg[i]->items()[j].value.store(Q::marked_value(nn ? &items[i * k + j] : nullptr, 2));
        if (nn && (i < hp || i > tp)) { printf("inputs are not a quiescent state (value outside [head, tail])\n"); return 2; }
        if (!nn && i > hp && i < tp) { printf("inputs are not a quiescent state (hole strictly between head and tail)\n"); return 2; } }
    }
    q.head_.store(Q::marked_ptr(seg[hp], 5)); q.tail_.store(Q::marked_ptr(seg[tp], 7));
    auto item_at = [&](Q::segment* s, std::uint64_t j) { return s->items()[j].value.load().get(); };
    if (op == 0) {
      q.push(&fresh);
      Q::segment* t = q.tail_.load().get(); std::uint64_t found = 0, others_changed = 0;
      for (std::uint64_t j = 0; j < k; j++) if (item_at(t, j) == &fresh) found++;
      for (std::uint64_t i = 0; i < L; i++) for (std::uint64_t j = 0; j < k; j++) { int* exp = ((occ >> (i * k + j)) & 1) ? &items[i * k + j] : nullptr; int* got = item_at(seg[i], j); if (got != exp && got != &fresh) others_changed++; }
      if (found != 1) { printf("VIOLATION: after push the value is stored %llu times in the segment tail_ points to\n", (unsigned long long)found); bad = 1; }
      if (others_changed) { printf("VIOLATION: push modified %llu other slots\n", (unsigned long long)others_changed); bad = 1; }
      if (q.head_.load().get() != seg[hp]) { printf("VIOLATION: push moved head_\n"); bad = 1; }
    } else {
      int* res = nullptr; bool r = q.try_pop(res);
      if (r != (n != 0)) { printf("VIOLATION: try_pop returned %d with %llu values stored and nothing running concurrently\n", r, (unsigned long long)n); bad = 1; }
      if (r) {
        std::uint64_t ci = L, cj = 0, changed = 0;
        for (std::uint64_t i = 0; i < L; i++) for (std::uint64_t j = 0; j < k; j++) { int* exp = ((occ >> (i * k + j)) & 1) ? &items[i * k + j] : nullptr; if (item_at(seg[i], j) != exp) { changed++; ci = i; cj = j; } }
        if (!(changed == 1 && res == &items[ci * k + cj] && item_at(seg[ci], cj) == nullptr)) { printf("VIOLATION: successful try_pop did not empty exactly the slot of the returned value\n"); bad = 1; }
        else { std::uint64_t older = 0; for (std::uint64_t i = 0; i < ci; i++) for (std::uint64_t j = 0; j < k; j++) older += (occ >> (i * k + j)) & 1;
               if (older) { printf("VIOLATION: try_pop took a value of segment %llu although %llu values sit in older segments\n", (unsigned long long)ci, (unsigned long long)older); bad = 1; } }
      }
    }
    // clean up: the items are not heap objects; segments behind head_ are ours (the destructor starts at head_); segments retired by try_pop belong to the reclaimer
    for (Q::segment* s = q.head_.load().get(); s; s = s->next.load().get()) for (std::uint64_t j = 0; j < k; j++) s->items()[j].value.store(nullptr);
    for (std::uint64_t i = 0; i < hp; i++) { for (std::uint64_t j = 0; j < k; j++) seg[i]->items()[j].value.store(nullptr); Q::release_segment(seg[i]); }
  }
  printf("%s from k=%llu, %llu segments, head at %llu, tail at %llu, occupancy 0x%llx: %s\n", op ? "try_pop" : "push", (unsigned long long)k, (unsigned long long)L, (unsigned long long)hp,
         (unsigned long long)tp, (unsigned long long)occ, bad ? "violated" : "holds (200 runs)");
  return bad;
}
