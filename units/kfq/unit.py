F = 'xenium/kirsch_kfifo_queue.hpp'
CLS = r'kirsch_kfifo_queue<T, Policies\.\.\.>::'
QT = ['quick', 'thorough']; TT = ['thorough']
# every marked_ptr / guard_ptr / marked_value of this class is a marked_ptr<_,16>: one 64-bit word (48 pointer bits, 16 mark bits on top);
# a segment pointer is (pool index + 1); X-> on such a word goes through SEGP(X)
DEREF = {n: 'SEGP' for n in ['segment', 'tail_old', 'head_old', 'tail_current', '(*head_current_p)', 'seg', 'result']}
COMMON = dict(members=['k_', 'head_', 'tail_'],
              methods={'get': 'MV_get', 'mark': 'MV_mark', 'items': 'SEG_items', 'acquire': 'GP_acquire', 'reclaim': 'GP_reclaim', 'delete_remaining_items': 'SEG_delete_remaining_items'},
              deref=DEREF,
              subst=[(r'\b(const )?marked_ptr (\w+)\(([^;]*)\);', r'\1marked_ptr \2 = MV_make(\3);', 'mp_ctor'),
                     (r'\b(const )?marked_value (\w+)\(([^;]*)\);', r'\1marked_value \2 = MV_make(\3);', 'mv_ctor'),
                     (r'\bguard_ptr (\w+);', r'guard_ptr \1 = 0;', 'guard_default'), (r'\bmarked_value (\w+);', r'marked_value \1 = 0;', 'mv_default'),
                     (r'\btraits::', 'TR_', 'traits'), (r'\butils::random\(\)', 'xv_random()', 'random'), (r'\(void\*\)0x100', '0x100', 'voidp'),
                     (r'find_index<true>\((\w+), idx, old_value\)', r'CALL_find_index_E(self, \1, &idx, &old_value)', 'find_index_call'),
                     (r'find_index<false>\((\w+), idx, old_value\)', r'CALL_find_index_N(self, \1, &idx, &old_value)', 'find_index_call'),
                     (r'\badvance_head\(head_old, tail_old\)', 'CALL_advance_head(self, &head_old, tail_old)', 'advance_head_call')],
              self_calls={'committed': 'CALL_committed', 'advance_tail': 'CALL_advance_tail', 'alloc_segment': 'XV_ALLOC_SEGMENT'},
              calls={'release_segment': 'XV_RELEASE_SEGMENT'})
def src(id, sig, c_sig, **kw):
    d = dict(COMMON); d.update(id=id, file=F, sig=sig, c_sig=c_sig)
    if 'subst' in kw: kw['subst'] = COMMON['subst'] + kw['subst']
    d.update(kw); return d
FI_SUBST = [(r'\bvalue_index\b', '(*value_index_p)', 'ref_value_index'), (r'\bold\b', '(*old_p)', 'ref_old')]
FI_SIG = r'bool ' + CLS + r'find_index\(marked_ptr segment,\s*uint64_t& value_index,\s*marked_value& old\) const noexcept'
EXEMPT = ['tail_old', 'head_old', 'idx', 'old_value', 'found_idx', 'new_value']
UNIT = dict(
  title='kirsch_kfifo_queue (unbounded): slot scan, committed, advance_head/advance_tail, push, try_pop, constructor, destructor, delete_remaining_items (C06, C07)',
  properties=['C06', 'C07'],
  drops='templates (value_type / raw_value_type = opaque non-null word below 2^48); marked_ptr, guard_ptr and marked_value are marked_ptr<_,16>: one 64-bit word with the contract of unit mp; '
        'segments live in a pool, a segment pointer is pool index + 1; guard_ptr operations are stubs (acquire = snapshot + protect, reclaim = retire); alloc_segment (operator new + placement new) and '
        'release_segment (~segment + operator delete) are stubs over ghost allocated/released counters, the assertion loop of ~segment becomes the precondition "all items null" of release; find_index<Empty> lowered twice; '
        'the lambdas try_pop passes to do_pop are extracted as functions; by-reference parameters are pointers; the lambdas of pop() (std::optional flavour of the same do_pop) are extracted too (run pop_optional)',
  assumptions=['marked_ptr<_,16> make/get/mark: contract of unit mp (C15)',
               'guard_ptr acquire/reclaim: contract of the reclaimer units (C01/C15): acquire returns the value of one atomic load of the cell and protects it, reclaim retires the protected node and resets the guard',
               'pointer_queue_traits get_raw/release/store/delete_value: ownership stubs (text covered by the C07 traits unit)',
               'operator new does not fail (alloc_segment has no failure path of its own); 16-bit marks do not wrap during one operation',
               '[INT] rely of kfq.push.commit: head moves forward one segment at a time, a segment is marked deleted before head leaves it and only by a thread that found it empty while it was head, '
               'a head CAS prepared before the item was inserted can still succeed until the head word changes, the inserted item only ever changes by being taken'],
  consts=[dict(name='XV_POP_OPTIONAL_TARGET', file=F, regex=r'::pop\(\) -> std::optional<value_type> \{\s*return (\w+)\(\s*\[\]\(auto& v\)'), dict(name='XV_SLOT_MARK_BITS', file=F, regex=r'using marked_value = xenium::marked_ptr<std::remove_pointer_t<raw_value_type>,\s*(\d+)>;'), dict(name='XV_MAX_UPPER_MARK_BITS', file='xenium/marked_ptr.hpp', regex=r'#\s*define XENIUM_MAX_UPPER_MARK_BITS (\d+)'), ],
  sources=[
    src('find_index_E', FI_SIG, 'static _Bool kfq_find_index_E(struct kfq* self, marked_ptr segment, uint64_t* value_index_p, marked_value* old_p)',
        subst=FI_SUBST + [(r'\bEmpty\b', '1', 'Empty')], must_fire={'A_LOAD': 1, 'subst:Empty': 2, 'subst:random': 1, 'method:items': 1, 'deref': 1}),
    src('find_index_N', FI_SIG, 'static _Bool kfq_find_index_N(struct kfq* self, marked_ptr segment, uint64_t* value_index_p, marked_value* old_p)',
        subst=FI_SUBST + [(r'\bEmpty\b', '0', 'Empty')], must_fire={'A_LOAD': 1, 'subst:Empty': 2, 'subst:random': 1, 'method:items': 1, 'deref': 1}),
    src('committed', r'bool ' + CLS + r'committed\(marked_ptr segment, marked_value value, uint64_t index\) noexcept',
        'static _Bool kfq_committed(struct kfq* self, marked_ptr segment, marked_value value, uint64_t index)',
        must_fire={'A_LOAD': 4, 'A_CAS': 4, 'method:items': 4, 'subst:mp_ctor': 1, 'subst:mv_ctor': 1}),
    src('advance_head', r'void ' + CLS + r'advance_head\(guard_ptr& head_current, marked_ptr tail_current\) noexcept',
        'static void kfq_advance_head(struct kfq* self, guard_ptr* head_current_p, marked_ptr tail_current)',
        subst=[(r'\bhead_current\b', '(*head_current_p)', 'ref_head_current')],
        must_fire={'A_LOAD': 4, 'A_STORE': 1, 'A_CAS': 2, 'method:reclaim': 1, 'subst:mp_ctor': 2}),
    src('advance_tail', r'void ' + CLS + r'advance_tail\(marked_ptr tail_current\) noexcept', 'static void kfq_advance_tail(struct kfq* self, marked_ptr tail_current)',
        must_fire={'A_LOAD': 2, 'A_CAS': 3, 'self_call:alloc_segment': 1, 'call:release_segment': 1, 'subst:mp_ctor': 3}),
    src('push', r'void ' + CLS + r'push\(value_type value\)', 'static void kfq_push(struct kfq* self, value_type value)',
        must_fire={'A_LOAD': 1, 'A_CAS': 1, 'throw': 1, 'method:acquire': 1, 'subst:find_index_call': 1, 'self_call:committed': 1, 'self_call:advance_tail': 1}),
    src('push_cut', r'void ' + CLS + r'push\(value_type value\)', 'static void kfq_push_cut(struct kfq* self, value_type value)', cut_loops={0: 'PUSH'}, havoc_exempt=EXEMPT,
        must_fire={'A_LOAD': 1, 'A_CAS': 1, 'cut_loop': 1}),
    src('pop_success', r'\[&result\]\(auto& v\)', 'static _Bool kfq_pop_success(value_type* result_p, marked_value* v_p)', deref={},
        subst=[(r'\bresult\b', '(*result_p)', 'ref_result'), (r'\bv\b', '(*v_p)', 'ref_v')], must_fire={'subst:traits': 1, 'method:get': 1}),
    src('pop_empty', r'\[\]\(\) (?=\{ return false)', 'static _Bool kfq_pop_empty(void)', must_fire={}),
    # pop(): the std::optional flavour of try_pop - the two lambdas it passes to do_pop, extracted as functions (std::optional<value_type> is a {present, value} pair)
    src('opt_success', r'\[\]\(auto& v\) (?=\{ return traits::get)', 'static value_type kfq_opt_success(marked_value* v_p)', deref={},
        subst=[(r'\bv\b', '(*v_p)', 'ref_v')], must_fire={'subst:traits': 1, 'method:get': 1}),
    src('opt_empty', r'\[\]\(\) -> std::optional<value_type> ', 'static struct xv_opt kfq_opt_empty(void)', pre_subst=[(r'std::nullopt', 'XV_NULLOPT', 'nullopt')], must_fire={'subst:nullopt': 1}),
    src('do_pop', r'auto ' + CLS + r'do_pop\(SuccessFunc successFunc, EmptyFunc emptyFunc\)', 'static _Bool kfq_do_pop(struct kfq* self, value_type* result_p)',
        calls={'successFunc': 'XV_SUCCESSFUNC', 'emptyFunc': 'XV_EMPTYFUNC', 'release_segment': 'XV_RELEASE_SEGMENT'},
        must_fire={'A_LOAD': 3, 'A_CAS': 1, 'method:acquire': 1, 'subst:find_index_call': 1, 'subst:advance_head_call': 1, 'self_call:advance_tail': 1, 'call:successFunc': 1, 'call:emptyFunc': 1}),
    src('do_pop_cut', r'auto ' + CLS + r'do_pop\(SuccessFunc successFunc, EmptyFunc emptyFunc\)', 'static _Bool kfq_do_pop_cut(struct kfq* self, value_type* result_p)',
        calls={'successFunc': 'XV_SUCCESSFUNC', 'emptyFunc': 'XV_EMPTYFUNC', 'release_segment': 'XV_RELEASE_SEGMENT'}, cut_loops={0: 'POP'}, havoc_exempt=EXEMPT,
        must_fire={'A_LOAD': 3, 'A_CAS': 1, 'cut_loop': 1}),
    src('ctor', CLS + r'kirsch_kfifo_queue\(uint64_t k\)', 'static void kfq_ctor(struct kfq* self, uint64_t k)', ctor=True, must_fire={'ctor_init': 1, 'A_STORE': 2, 'self_call:alloc_segment': 1}),
    src('dtor', CLS + r'~kirsch_kfifo_queue\(\)', 'static void kfq_dtor(struct kfq* self)', must_fire={'A_LOAD': 2, 'method:delete_remaining_items': 1, 'call:release_segment': 1}),
    dict(id='delete_remaining_items', file=F, sig=r'void delete_remaining_items\(\)', c_sig='static void seg_delete_remaining_items(struct segment* self)',
         members=['k'], self_calls={'items': 'SEGI'}, methods={'get': 'MV_get'}, subst=[(r'\btraits::', 'TR_', 'traits')],
         must_fire={'A_LOAD': 1, 'A_STORE': 1, 'self_call:items': 2, 'subst:traits': 1}),
    dict(id='segment_dtor', file=F, sig=r'~segment\(\) override', c_sig='static void seg_dtor(struct segment* self)',
         members=['k'], self_calls={'items': 'SEGI'}, methods={'get': 'MV_get'}, must_fire={'A_LOAD': 1, 'self_call:items': 1}),
  ],
  runs=[dict(id='slot_word', entry='h_slot_word', cls='unbounded', note='static fact about the slot word type'), dict(id='pop_optional', entry='h_pop_optional', cls='unbounded', note='the functors of pop(), all slot words')] + [dict(id='find_index_%s_k%d' % (v, K), entry='h_find_index_' + v, cls='shape-complete', tiers=QT if K <= 8 else TT,
             defs={'KMAX': K, 'KLO': K}, unwind=max(K, 4) + 1, note='k = %d' % K) for K in range(1, 17) for v in 'EN'] + [
    dict(id='%s_k%d' % (op, K), entry='h_' + op, cls='shape-complete', tiers=QT if K <= 3 else TT, defs={'KMAX': K, 'KLO': K, 'XV_STUB': 1}, unwind=max(K, 4) + 1,
         unwindset=['kfq_push.1:3', 'kfq_do_pop.0:5'], flags=['--object-bits', '10'], timeout=1500, note='k = %d, 1..3 linked segments; callees = SEQ contract stubs' % K)
    for op in ('push', 'pop') for K in (1, 2, 3, 4)] + [
    dict(id='%s_k%d' % (op, K), entry='h_' + op, cls='shape-complete', tiers=QT if K <= 3 else TT, defs={'KMAX': K, 'KLO': K}, unwind=max(K, 4) + 1,
         flags=['--object-bits', '10'], timeout=1500, note='k = %d, 1..3 linked segments; real text' % K)
    for op in ('committed_seq', 'advance_tail_seq', 'advance_head_seq') for K in (1, 2, 3, 4)] + [
    dict(id='push_null', entry='h_push_null', cls='shape-complete', unwind=5),
    dict(id='ctor', entry='h_ctor', cls='shape-complete', unwind=5),
    dict(id='delete_remaining', entry='h_delete_remaining', cls='shape-complete', unwind=5, solver=['--sat-solver', 'cadical']),
  ] + [dict(id='dtor_k%d' % K, entry='h_dtor', cls='shape-complete', tiers=QT if K <= 3 else TT, defs={'KMAX': K, 'KLO': K, 'XV_STUB': 1}, unwind=max(K, 4) + 1, unwindset=['kfq_dtor.0:5'],
             solver=['--sat-solver', 'cadical'], note='k = %d; delete_remaining_items = contract stub' % K) for K in (1, 2, 3, 4)] + [
    dict(id='committed_int', entry='h_committed_int', mode='INT', cls='shape-complete', unwind=5, flags=['--object-bits', '10'],
         note='k in 1..3; environment = transitive closure of the other threads\' moves (rely in assumptions)'),
    dict(id='push_int', entry='h_push_int', mode='INT', cls='shape-complete', defs={'KMAX': 2, 'XV_STUB': 2}, unwind=5, flags=['--object-bits', '10'], note='retry loop cut, arbitrary environment, callees = recording stubs'),
    dict(id='pop_int', entry='h_pop_int', mode='INT', cls='shape-complete', defs={'KMAX': 2, 'XV_STUB': 2}, unwind=5, flags=['--object-bits', '10'], note='retry loop cut, arbitrary environment, callees = recording stubs'),
    dict(id='advance_head_int', entry='h_advance_head_int', mode='INT', cls='shape-complete', defs={'KMAX': 2}, unwind=5, flags=['--object-bits', '10'], note='arbitrary environment, real text'),
    dict(id='advance_tail_int', entry='h_advance_tail_int', mode='INT', cls='shape-complete', defs={'KMAX': 2}, unwind=5, flags=['--object-bits', '10'], note='arbitrary environment, real text'),
  ],
  obligations={
    'kfq.pop_optional.same_as_try_pop': dict(deciding=True, text='pop() forwards to the same do_pop as try_pop; its success functor hands out traits::get of exactly the pointer try_pop would store (once), its empty functor an empty optional: pop() returns a value iff try_pop would succeed, and the same one'),
    'kfq.slot.any_pointer': dict(deciding=True, text='the version tag of a slot (marked_value) fits into the upper mark bits of marked_ptr (MarkBits <= XENIUM_MAX_UPPER_MARK_BITS): no low bit of the stored pointer is used, so every pointer value - whatever its alignment, e.g. a char* - round-trips through the queue'),
    'kfq.find_index.covers': dict(deciding=True, text='for every random start the probes of find_index are pairwise distinct slots 0..k-1 of the segment, and all k are probed before false is returned'),
    'kfq.find_index.result': dict(deciding=True, text='find_index returns true with index and value of a matching slot, false only if no slot of the segment matches'),
    'kfq.push.stores': dict(deciding=True, text='[SEQ] push never fails: exactly one empty slot of the segment tail_ points to afterwards receives (value, mark+1), ownership is taken exactly once, at most one segment is allocated; a null value throws before anything is touched'),
    'kfq.pop.empty': dict(deciding=True, text='[SEQ] try_pop reports empty <=> no value is stored; then no slot and no result is modified'),
    'kfq.pop.oldest_segment': dict(deciding=True, text='[SEQ] a successful try_pop empties exactly one slot (null, mark+1), returns its value once, and the slot lies in the oldest non-empty segment'),
    'kfq.pop.k_oldest': dict(deciding=True, text='[SEQ] fewer than k stored values are older than the value try_pop returns'),
    'kfq.inv.preserved': dict(deciding=True, text='[SEQ] constructor state and every operation keep the representation invariant (chain, head before tail, tail last or last-but-one, empty outside [head,tail], full strictly inside, deleted only at/behind head, ages increase segment-wise)'),
    'kfq.committed.seq': dict(deciding=False, text='[SEQ] contract of committed used by push: slot holds the value, segment not marked deleted => true, head_ mark +1 iff the segment is the head segment, nothing else changes'),
    'kfq.advance_tail.seq': dict(deciding=True, text='[SEQ] advance_tail moves tail_ by exactly one segment: to the existing successor, or to one freshly allocated empty segment linked behind the old tail; nothing else changes'),
    'kfq.advance_head.seq': dict(deciding=True, text='[SEQ] advance_head on an empty head segment: no successor => nothing changes; otherwise tail_ is moved on first if it pointed to the head segment, the segment is marked deleted, head_ moves by one segment, the segment is retired once, the guard is reset'),
    'kfq.push.commit': dict(deciding=True, text='[INT] committed (hence push) returns true only if a consumer took the value or the item is in its slot in a segment head_ has not left and no head advance that missed it can still succeed'),
    'kfq.committed.withdrawn': dict(deciding=True, text='[INT] committed returns false only after its own CAS removed the item (never when a consumer took it)'),
    'kfq.push.validate': dict(deciding=True, text='[INT] push returns only after a slot CAS that expected the word find_index read in the guarded tail segment, after re-reading an unchanged tail_, and committed(segment, new word, idx) agreed; ownership is released once'),
    'kfq.pop.validate': dict(deciding=True, text='[INT] do_pop: slot CAS expects the word find_index read in the guarded head segment after re-reading an unchanged head_; tail_ is moved on first when head_ and tail_ point to the same segment; empty needs no match, same segment and unchanged tail_'),
    'kfq.advance_head.retire': dict(deciding=True, text='[INT] advance_head writes nothing unless head_ equals the guard; marks the segment deleted before the head CAS; CAS from the guard word to (successor, mark+1); retires the segment and resets the guard iff that CAS succeeded'),
    'kfq.advance_tail.links': dict(deciding=True, text='[INT] advance_tail does nothing unless tail_ equals its argument; a fresh segment is linked by a CAS on next from the null word read and then never released, or released exactly once; tail_ is only CASed from the argument to the successor'),
    'kfq.sync.orders': dict(deciding=True, text='sync preconditions: push slot CAS release, pop slot CAS acquire, guard acquires of tail_/head_ and the tail_ load of do_pop acquire, head_ load of committed acquire, next loads and head_/tail_/next CAS of advance_head/advance_tail acquire resp. release-or-stronger'),
    'kfq.retire.once_empty': dict(deciding=True, text='a segment is retired exactly once, after it was marked deleted and unlinked from head_, and it holds no value; release_segment only gets live, empty segments'),
    'kfq.advance_head.deleted_first': dict(deciding=True, text='whenever head_ leaves a segment that segment has already been marked deleted'),
    'kfq.advance.one_segment': dict(deciding=True, text='head_ and tail_ are only changed by CAS from the word read to the successor of that segment (head_ also: same segment, mark+1)'),
    'kfq.mem.valid': dict(deciding=False, text='only allocated, not yet released segments are dereferenced'),
    'kfq.delete_remaining.each_once': dict(deciding=True, text='delete_remaining_items passes every non-null item to delete_value exactly once and leaves all slots null (C07)'),
    'kfq.dtor.each_once': dict(deciding=True, text='the destructor destroys every value still inside exactly once (C07)'),
    'kfq.dtor.segments_released': dict(deciding=True, text='the destructor releases every segment reachable from head_ exactly once, after emptying it'),
  },
  canaries=['slot_word.reached', 'pop_optional.reached', 'find_index.found', 'find_index.found_last', 'find_index.none', 'push.allocated', 'push.helped_tail', 'push.bumped_head', 'push.plain', 'push.null', 'pop.empty', 'pop.not_the_oldest',
            'pop.advanced_head', 'pop.advanced_tail', 'pop.allocated', 'committed_seq.at_head', 'committed_seq.behind_tail', 'advance_tail_seq.helped', 'advance_tail_seq.allocated', 'advance_head_seq.no_successor', 'advance_head_seq.moved_tail_too', 'advance_head_seq.plain', 'committed.taken', 'committed.at_head', 'committed.ahead', 'committed.deleted_but_head', 'committed.withdrawn', 'push_int.returned', 'pop_int.moved_tail', 'pop_int.true', 'pop_int.empty', 'advance_head_int.retired', 'advance_head_int.lost_race', 'advance_head_int.nothing', 'advance_head_int.moved_tail', 'advance_tail_int.linked', 'advance_tail_int.released_fresh', 'advance_tail_int.helped', 'advance_tail_int.nothing', 'ctor.reached', 'dri.tracked', 'dri.not_stored', 'dtor.tracked', 'dtor.not_stored', 'dtor.three_segments'],
  replays={'kfq.push.stores': dict(src='replay_seq.cpp', fixed={'op': 0}), 'kfq.pop.empty': dict(src='replay_seq.cpp', fixed={'op': 1}),
           'kfq.pop.oldest_segment': dict(src='replay_seq.cpp', fixed={'op': 1}), 'kfq.pop.k_oldest': dict(src='replay_seq.cpp', fixed={'op': 1})},
  loop_obligation={'PUSH': 'kfq.push.validate', 'POP': 'kfq.pop.validate'},
)
