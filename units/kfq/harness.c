/* unit kfq - kirsch_kfifo_queue, the unbounded k-FIFO queue (C06, ownership part of C07).  Contracts, stubs, ghost state, harnesses only;
 * every function body under contract comes from lowered.h (extracted from the repository on each run). */
#include <stdint.h>
#include <stddef.h>
static void mon_load(void* addr, uint64_t v, int o);
static void mon_cas(void* addr, uint64_t e, uint64_t d, _Bool ok, int o);
static void mon_store(void* addr, uint64_t v, int o);
#define XV_ON_LOAD(addr, val, order) mon_load((void*)(addr), (uint64_t)(val), (order))
#define XV_ON_CAS(addr, e, d, ok, order) mon_cas((void*)(addr), (uint64_t)(e), (uint64_t)(d), (ok), (order))
#define XV_ON_STORE(addr, val, order) mon_store((void*)(addr), (uint64_t)(val), (order))
#include "xv.h"
int xv_threw; uint64_t xv_clock, xv_rmw_old; _Bool xv_cas_ok;
#define XV_EXC_std__invalid_argument 1
#define XENIUM_VERIF_POINT(id) ((void)0)

/* ---- shapes: k = K (a run covers k in KLO..KMAX by dispatch), at most LMAX-1 linked segments + one free pool slot ---- */
#ifndef KMAX
#define KMAX 3
#endif
#ifndef KLO
#define KLO 1
#endif
#define LMAX 4

/* ---- types ---- */
typedef uint64_t marked_ptr, guard_ptr, marked_value;    /* marked_ptr<_,16>: 48 pointer bits, 16 mark bits on top (contract of unit mp) */
typedef uintptr_t value_type, raw_value_type;
#define PTR_BITS 48
#define PTR_MASK ((((uint64_t)1) << PTR_BITS) - 1)
static uint64_t MV_make(uint64_t p, uint64_t mark) { return p | (mark << PTR_BITS); }
static uint64_t MV_get(uint64_t v) { return v & PTR_MASK; }
static uint64_t MV_mark(uint64_t v) { return v >> PTR_BITS; }
struct entry { marked_value value; };
struct segment { _Bool deleted; uint64_t k; marked_ptr next; struct entry items[KMAX]; };
struct kfq { size_t k_; marked_ptr head_; marked_ptr tail_; };
#define XV_INIT_k_(self, v) ((self)->k_ = (v))

/* ---- segment pool, allocation ghost state.  pointer word of pool slot i is i+1 ---- */
struct segment g_segs[LMAX]; _Bool g_alloc[LMAX]; unsigned char g_retired[LMAX], g_released[LMAX]; unsigned g_allocs;
_Bool g_mem_ok = 1, g_retire_ok = 1, g_release_ok = 1, g_pre_ok = 1;
static struct segment* segp(uint64_t w) {
  uint64_t p = MV_get(w);
  if (!(p >= 1 && p <= LMAX && g_alloc[p - 1] && !g_released[p - 1])) { g_mem_ok = 0; p = 1; }      /* kfq.mem.valid: only live segments are dereferenced */
  return &g_segs[p - 1];
}
#define SEGP(w) segp(w)
#define SEG_items(s) ((s).items)
#define SEGI(s) ((s)->items)
static _Bool seg_all_null(struct segment* s) { _Bool r = 1; for (unsigned i = 0; i < KMAX; i++) if (i < s->k && MV_get(s->items[i].value) != 0) r = 0; return r; }
/* alloc_segment(): operator new + segment(k_) + k_ value-initialised entries: a fresh segment, deleted = false, next = null, all items null */
static uint64_t xv_alloc_segment(struct kfq* self) {
  unsigned i = 0; while (i < LMAX && g_alloc[i]) i++;              /* the lowest free pool slot */
  XV_ASSUME(i < LMAX);                                             /* the pool of the shape is large enough (see canaries *.allocated) */
  g_alloc[i] = 1; g_released[i] = 0; g_retired[i] = 0; g_allocs++;
  g_segs[i].deleted = 0; g_segs[i].k = self->k_; g_segs[i].next = 0;
  for (unsigned j = 0; j < KMAX; j++) g_segs[i].items[j].value = 0;
  return i + 1;
}
#define XV_ALLOC_SEGMENT(self) xv_alloc_segment(self)
/* release_segment(seg): seg->~segment() (asserts that all items are null) + operator delete */
static void seg_dtor(struct segment* self);
static void xv_release_segment(uint64_t seg) {
  uint64_t p = MV_get(seg);
  if (!(p >= 1 && p <= LMAX && g_alloc[p - 1] && !g_released[p - 1] && seg_all_null(&g_segs[p - 1]))) { g_release_ok = 0; return; }
  seg_dtor(&g_segs[p - 1]);
  g_released[p - 1] = 1;
}
#define XV_RELEASE_SEGMENT(seg) xv_release_segment(seg)

/* ---- guard_ptr: acquire = one atomic load of the cell + protect; reclaim = retire the protected segment, reset the guard ---- */
struct kfq* mon_q;
#define GP_acquire(g, cell, o) ((g) = A_LOAD(cell, o))
static void gp_reclaim(guard_ptr* g) {
  uint64_t p = MV_get(*g);
  /* kfq.retire.once_empty: a segment is retired once, after it was marked deleted and unlinked from head_, and holds no value (it would be lost) */
  if (!(p >= 1 && p <= LMAX && g_alloc[p - 1] && !g_released[p - 1] && g_retired[p - 1] == 0 && g_segs[p - 1].deleted && seg_all_null(&g_segs[p - 1]) && MV_get(mon_q->head_) != p)) g_retire_ok = 0;
  if (p >= 1 && p <= LMAX && g_retired[p - 1] < 2) g_retired[p - 1]++;
  *g = 0;
}
#define GP_reclaim(g) gp_reclaim(&(g))

/* ---- utils::random(), pointer_queue_traits ---- */
static uint64_t xv_random(void) { return nondet_u64(); }
unsigned g_released_values, g_stored; raw_value_type g_track; _Bool g_del_once, g_del_twice;
static raw_value_type TR_get_raw(value_type v) { return v; }
static void TR_release(value_type v) { g_released_values++; }
#define TR_store(target, raw) do { (target) = (raw); g_stored++; } while (0)
static void TR_delete_value(raw_value_type raw) { if (raw != 0 && raw == g_track) { if (g_del_once) g_del_twice = 1; g_del_once = 1; } }
static void seg_delete_remaining_items(struct segment* self);

/* ---- pop(): std::optional<value_type> is a {present, value} pair; traits::get(raw) wraps the raw pointer into a value_type (counted) ---- */
struct xv_opt { _Bool present; value_type v; };
#define XV_NULLOPT ((struct xv_opt){0, 0})
unsigned g_got;
static value_type TR_get(raw_value_type raw) { g_got++; return raw; }
static value_type kfq_opt_success(marked_value* v_p);
static struct xv_opt kfq_opt_empty(void);
/* ---- do_pop is instantiated with the two lambdas of try_pop ---- */
static _Bool kfq_pop_success(value_type* result_p, marked_value* v_p);
static _Bool kfq_pop_empty(void);
#define XV_SUCCESSFUNC(v) kfq_pop_success(result_p, &(v))
#define XV_EMPTYFUNC() kfq_pop_empty()

/* ---- callees of push / do_pop / the destructor: the real text (XV_STUB undefined), SEQ contract stubs (XV_STUB == 1; the contracts are proved for the real
 * text by the runs find_index_*, committed_seq, advance_tail_seq, advance_head_seq, delete_remaining), or INT recording stubs (XV_STUB == 2) ---- */
#if XV_STUB == 1
static _Bool st_find_index_E(struct kfq* self, uint64_t seg, uint64_t* idx_p, uint64_t* old_p);
static _Bool st_find_index_N(struct kfq* self, uint64_t seg, uint64_t* idx_p, uint64_t* old_p);
static _Bool st_committed(struct kfq* self, uint64_t seg, uint64_t v, uint64_t idx);
static void st_advance_tail(struct kfq* self, uint64_t t);
static void st_advance_head(struct kfq* self, uint64_t* h, uint64_t t);
static void st_delete_remaining_items(struct segment* s);
#define CALL_find_index_E st_find_index_E
#define CALL_find_index_N st_find_index_N
#define CALL_committed st_committed
#define CALL_advance_tail st_advance_tail
#define CALL_advance_head st_advance_head
#define SEG_delete_remaining_items(s) st_delete_remaining_items(&(s))
#elif XV_STUB == 2
static _Bool rec_find_index_E(struct kfq* self, uint64_t seg, uint64_t* idx_p, uint64_t* old_p);
static _Bool rec_find_index_N(struct kfq* self, uint64_t seg, uint64_t* idx_p, uint64_t* old_p);
static _Bool rec_committed(struct kfq* self, uint64_t seg, uint64_t v, uint64_t idx);
static void rec_advance_tail(struct kfq* self, uint64_t t);
static void rec_advance_head(struct kfq* self, uint64_t* h, uint64_t t);
#define CALL_find_index_E rec_find_index_E
#define CALL_find_index_N rec_find_index_N
#define CALL_committed rec_committed
#define CALL_advance_tail rec_advance_tail
#define CALL_advance_head rec_advance_head
#define SEG_delete_remaining_items(s) seg_delete_remaining_items(&(s))
#else
#define CALL_find_index_E kfq_find_index_E
#define CALL_find_index_N kfq_find_index_N
#define CALL_committed kfq_committed
#define CALL_advance_tail kfq_advance_tail
#define CALL_advance_head kfq_advance_head
#define SEG_delete_remaining_items(s) seg_delete_remaining_items(&(s))
#endif
static void iter_reset(struct kfq* self);
#define XV_INV_PUSH 1
#define XV_HAVOC_PUSH iter_reset(self); tail_old = nondet_u64() /* havocs head_ tail_ next value deleted: SEGP SEG_items */
#define XV_INV_POP 1
#define XV_HAVOC_POP iter_reset(self); head_old = nondet_u64() /* havocs head_ tail_ next value deleted: SEGP SEG_items */

/* ---- monitors ---- */
#define NPROBE 16
_Bool mon_probes_on, mon_log_on, mon_scan_weak, mon_adv_ok = 1, mon_deleted_first = 1, mon_plain_store_ht;
unsigned mon_nprobe; uint64_t mon_probe[NPROBE]; struct segment* mon_seg;
unsigned mon_slot_cas_n, mon_head_cas_n, mon_tail_cas_n, mon_next_cas_n, mon_head_loads, mon_tail_loads, mon_deleted_stores;
uint64_t mon_slot_cas_e, mon_slot_cas_d, mon_slot_cas_clock, mon_slot_cas_seg, mon_slot_cas_idx; int mon_slot_cas_order; _Bool mon_slot_cas_ok;
uint64_t mon_head_first, mon_head_last, mon_head_last_clock, mon_tail_first, mon_tail_last, mon_tail_last_clock;
uint64_t mon_head_cas_e, mon_head_cas_d, mon_head_cas_clock, mon_tail_cas_e, mon_tail_cas_d, mon_tail_cas_clock, mon_next_cas_e, mon_next_cas_d, mon_next_cas_seg, mon_deleted_clock, mon_deleted_seg;
_Bool mon_head_cas_ok, mon_tail_cas_ok, mon_next_cas_ok, mon_next_load_weak; int mon_head_cas_order, mon_tail_cas_order, mon_next_cas_order, mon_head_first_order, mon_tail_first_order;
static void env_own_cas(void* addr, uint64_t e, uint64_t d, _Bool ok);
static void mon_load(void* addr, uint64_t v, int o) {
  if (mon_probes_on && __CPROVER_same_object(addr, g_segs)) {
    for (unsigned j = 0; j < KMAX; j++) if (addr == (void*)&mon_seg->items[j].value) { if (mon_nprobe < NPROBE) mon_probe[mon_nprobe] = j; mon_nprobe++; }
  }
  if (!mon_log_on) return;
  for (unsigned i = 0; i < LMAX; i++) if (addr == (void*)&g_segs[i].next && !XV_IS_ACQUIRE(o)) mon_next_load_weak = 1;
  if (addr == (void*)&mon_q->tail_ && !mon_tail_loads) mon_tail_first_order = o;
  if (addr == (void*)&mon_q->head_ && !mon_head_loads) mon_head_first_order = o;
  if (addr == (void*)&mon_q->tail_) { if (!mon_tail_loads) mon_tail_first = v; mon_tail_last = v; mon_tail_last_clock = xv_clock; mon_tail_loads++; }
  if (addr == (void*)&mon_q->head_) { if (!mon_head_loads) mon_head_first = v; mon_head_last = v; mon_head_last_clock = xv_clock; mon_head_loads++; }
}
static void mon_store(void* addr, uint64_t v, int o) {
  if (addr == (void*)&mon_q->head_ || addr == (void*)&mon_q->tail_) mon_plain_store_ht = 1;
  if (!mon_log_on) return;
  for (unsigned i = 0; i < LMAX; i++) if (addr == (void*)&g_segs[i].deleted) { mon_deleted_stores++; mon_deleted_clock = xv_clock; mon_deleted_seg = i + 1; }
}
/* kfq.advance.one_segment: head_/tail_ change only by CAS from the word read to the successor segment of that word's segment (head_ also: same segment, mark+1, in committed);
 * kfq.advance_head.deleted_first: when head_ leaves a segment, that segment is already marked deleted */
static void mon_cas(void* addr, uint64_t e, uint64_t d, _Bool ok, int o) {
#ifdef XV_INT
  env_own_cas(addr, e, d, ok);
#endif
  if (addr == (void*)&mon_q->head_ || addr == (void*)&mon_q->tail_) {
    uint64_t pe = MV_get(e), nx = (pe >= 1 && pe <= LMAX) ? MV_get(g_segs[pe - 1].next) : 0;
    _Bool moved = MV_get(d) == nx && nx != 0, bumped = addr == (void*)&mon_q->head_ && MV_get(d) == pe && MV_mark(d) == ((MV_mark(e) + 1) & 0xffff);
    if (!(moved || bumped)) mon_adv_ok = 0;
    if (addr == (void*)&mon_q->head_ && ok && MV_get(d) != pe && !(pe >= 1 && pe <= LMAX && g_segs[pe - 1].deleted)) mon_deleted_first = 0;
  }
  if (!mon_log_on) return;
  if (addr == (void*)&mon_q->head_) { mon_head_cas_n++; mon_head_cas_e = e; mon_head_cas_d = d; mon_head_cas_ok = ok; mon_head_cas_order = o; mon_head_cas_clock = xv_clock; }
  else if (addr == (void*)&mon_q->tail_) { mon_tail_cas_n++; mon_tail_cas_e = e; mon_tail_cas_d = d; mon_tail_cas_ok = ok; mon_tail_cas_order = o; mon_tail_cas_clock = xv_clock; }
  else for (unsigned i = 0; i < LMAX; i++) {
    if (addr == (void*)&g_segs[i].next) { mon_next_cas_n++; mon_next_cas_e = e; mon_next_cas_d = d; mon_next_cas_ok = ok; mon_next_cas_order = o; mon_next_cas_seg = i + 1; }
    for (unsigned j = 0; j < KMAX; j++) if (addr == (void*)&g_segs[i].items[j].value) { mon_slot_cas_n++; mon_slot_cas_e = e; mon_slot_cas_d = d; mon_slot_cas_ok = ok; mon_slot_cas_order = o; mon_slot_cas_clock = xv_clock; mon_slot_cas_seg = i + 1; mon_slot_cas_idx = j; }
  }
}
static void mon_reset(struct kfq* q) {
  mon_q = q; mon_probes_on = 0; mon_log_on = 0; mon_scan_weak = 0; mon_adv_ok = 1; mon_deleted_first = 1; mon_plain_store_ht = 0; mon_nprobe = 0;
  mon_slot_cas_n = 0; mon_head_cas_n = 0; mon_tail_cas_n = 0; mon_next_cas_n = 0; mon_head_loads = 0; mon_tail_loads = 0; mon_deleted_stores = 0; mon_next_load_weak = 0;
  g_released_values = 0; g_stored = 0; g_del_once = 0; g_del_twice = 0; g_allocs = 0; g_mem_ok = 1; g_retire_ok = 1; g_release_ok = 1; g_pre_ok = 1; xv_threw = 0; xv_clock = 0;
}

#include "lowered.h"

uint64_t in_k, in_L, in_hp, in_tp, in_occ, in_value; value_type in_res0;
#define FOR_K(call) do { in_k = nondet_u64(); for (unsigned k_ = KLO; k_ <= KMAX; k_++) if (in_k == k_) { call; } } while (0)

/* =====================================================================================================
 * find_index: the k probes are pairwise distinct slots 0..k-1 of the segment; finds a matching slot iff there is one
 * ===================================================================================================== */
static void find_index_case(uint64_t k, _Bool empty) {
  struct kfq q; q.k_ = k; q.head_ = nondet_u64(); q.tail_ = nondet_u64(); mon_reset(&q); mon_probes_on = 1;
  for (unsigned i = 0; i < LMAX; i++) { g_alloc[i] = 1; g_released[i] = 0; }
  uint64_t p = nondet_u64(), mk = nondet_u64(); XV_ASSUME(p >= 1 && p <= LMAX && mk <= 0xffff);
  struct segment* s = &g_segs[p - 1]; mon_seg = s;
  s->k = k; s->deleted = nondet_bool(); s->next = nondet_u64(); for (unsigned j = 0; j < KMAX; j++) s->items[j].value = nondet_u64();
  uint64_t idx = nondet_u64(), idx0 = idx; marked_value old = nondet_u64();
  _Bool r = empty ? kfq_find_index_E(&q, MV_make(p, mk), &idx, &old) : kfq_find_index_N(&q, MV_make(p, mk), &idx, &old);
  unsigned n = mon_nprobe, a = nondet_uint(), b = nondet_uint();
  XV_OBL("kfq.find_index.covers", n >= 1 && n <= k && g_mem_ok);
  if (a < n) XV_OBL("kfq.find_index.covers", mon_probe[a] < k);
  if (a < b && b < n) XV_OBL("kfq.find_index.covers", mon_probe[a] != mon_probe[b]);
  if (!r) XV_OBL("kfq.find_index.covers", n == k);
  if (r) {
    XV_OBL("kfq.find_index.result", idx < k && old == s->items[idx].value && (MV_get(old) == 0) == empty);
    XV_CANARY("find_index.found");
    if (n == k) XV_CANARY("find_index.found_last");
  } else {
    uint64_t j = nondet_u64(); XV_ASSUME(j < k);
    XV_OBL("kfq.find_index.result", idx == idx0 && (MV_get(s->items[j].value) == 0) != empty);
    XV_CANARY("find_index.none");
  }
}
void h_find_index_E(void) { FOR_K(find_index_case(k_, 1)); }
void h_find_index_N(void) { FOR_K(find_index_case(k_, 0)); }

/* =====================================================================================================
 * quiescent states: a chain of L <= LMAX-1 segments in pool slots 0..L-1; head at hp, tail at tp (the last segment, or the one before it when a
 * freshly linked segment has not been published in tail_ yet); slots < hp are retired segments that have not been freed yet
 * ===================================================================================================== */
typedef uint16_t age_t;      /* ghost insertion order: only compared, at most LMAX*KMAX+1 distinct values are ever needed, so a small domain loses nothing */
age_t g_age[LMAX][KMAX], g_next_age;
static void havoc_state(struct kfq* q, uint64_t k) {
  q->k_ = k;
  in_L = nondet_u64(); in_hp = nondet_u64(); in_tp = nondet_u64(); XV_ASSUME(in_L >= 1 && in_L <= LMAX - 1 && in_hp <= in_tp && in_tp < in_L && in_tp + 2 >= in_L);
  uint64_t hm = nondet_u64(), tm = nondet_u64(); XV_ASSUME(hm <= 0xffff && tm <= 0xffff);
  q->head_ = MV_make(in_hp + 1, hm); q->tail_ = MV_make(in_tp + 1, tm);
  in_occ = 0;
  for (unsigned i = 0; i < LMAX; i++) {
    g_alloc[i] = i < in_L; g_released[i] = 0; g_retired[i] = (i < in_hp) ? 1 : 0;
    g_segs[i].k = (i < in_L) ? k : nondet_u64(); g_segs[i].deleted = nondet_bool();
    uint64_t nm = nondet_u64(), np = nondet_u64(); XV_ASSUME(nm <= 0xffff);
    g_segs[i].next = (i < in_L) ? MV_make(i + 1 < in_L ? i + 2 : 0, nm) : np;
    for (unsigned j = 0; j < KMAX; j++) { g_segs[i].items[j].value = nondet_u64(); g_age[i][j] = nondet_u16(); if (i < in_L && j < k && MV_get(g_segs[i].items[j].value) != 0) in_occ |= ((uint64_t)1) << (i * KMAX + j); }
  }
  g_next_age = nondet_u16(); XV_ASSUME(g_next_age < 60000);
}
/* representation invariant over pool slots 0..L-1 (L = number of allocated slots, a prefix).  Branch-free. */
static _Bool inv_shape(struct kfq* q, uint64_t k, uint64_t* Lp, uint64_t* hpp, uint64_t* tpp) {
  uint64_t L = 0; _Bool ok = 1;
  for (unsigned i = 0; i < LMAX; i++) { if (g_alloc[i]) { ok &= (L == i); L++; } }
  uint64_t hp = MV_get(q->head_) - 1, tp = MV_get(q->tail_) - 1;
  ok &= (q->k_ == k) & (L >= 1) & (hp <= tp) & (tp < L) & (tp + 2 >= L);
  for (unsigned i = 0; i < LMAX; i++) if (i < L) {
    struct segment* s = &g_segs[i];
    ok &= (s->k == k) & (g_released[i] == 0) & (MV_get(s->next) == (i + 1 < L ? i + 2 : 0));
    ok &= (i < hp) ? (s->deleted & (g_retired[i] == 1)) : (g_retired[i] == 0);
    ok &= !(i > hp) | !s->deleted;                      /* only a former/current head segment is ever marked deleted ... */
    ok &= !((i == hp) & s->deleted) | (tp > hp);        /* ... and the current head only after tail has moved on */
    for (unsigned j = 0; j < KMAX; j++) if (j < k) {
      _Bool nn = MV_get(s->items[j].value) != 0;
      ok &= !(((i < hp) | (i > tp)) & nn) & !((i > hp) & (i < tp) & !nn);
      ok &= MV_get(s->items[j].value) != 0x100;        /* stored values are object pointers; 0x100 is excluded by a debugging assertion in do_pop */
    }
  }
  *Lp = L; *hpp = hp; *tpp = tp;
  return ok;
}
/* ghost ages: distinct, below g_next_age, increasing from segment to segment */
static _Bool inv_ages(uint64_t k, uint64_t L) {
  _Bool ok = 1;
  for (unsigned i = 0; i < LMAX; i++) if (i < L) for (unsigned j = 0; j < KMAX; j++) if (j < k) {
    _Bool nn = MV_get(g_segs[i].items[j].value) != 0;
    ok &= !nn | (g_age[i][j] < g_next_age);
    for (unsigned i2 = i; i2 < LMAX; i2++) if (i2 < L) for (unsigned j2 = 0; j2 < KMAX; j2++) if (j2 < k && (i2 > i || j2 > j)) {
      _Bool both = nn & (MV_get(g_segs[i2].items[j2].value) != 0);
      ok &= !both | ((g_age[i][j] != g_age[i2][j2]) & (!(i < i2) | (g_age[i][j] < g_age[i2][j2])));
    }
  }
  return ok;
}
static _Bool inv(struct kfq* q, uint64_t k, uint64_t* Lp, uint64_t* hpp, uint64_t* tpp) { _Bool a = inv_shape(q, k, Lp, hpp, tpp); return a & inv_ages(k, *Lp); }
static unsigned count(uint64_t k, uint64_t L) { unsigned n = 0; for (unsigned i = 0; i < LMAX; i++) for (unsigned j = 0; j < KMAX; j++) if (i < L && j < k && MV_get(g_segs[i].items[j].value) != 0) n++; return n; }

/* ---- SEQ contracts of the callees (no interference; call-site preconditions hold in every state satisfying inv) ---- */
static uint64_t any_mark(void) { uint64_t m = nondet_u64(); XV_ASSUME(m <= 0xffff); return m; }
/* committed(seg, value, index): requires items[index] == value and seg not marked deleted (inv: the tail segment never is);
 * ensures: true; if seg is the head segment the mark of head_ is incremented; nothing else changes */
static _Bool committed_pre(struct kfq* q, uint64_t seg, uint64_t v, uint64_t idx) {
  struct segment* s = SEGP(seg);
  return idx < s->k && idx < KMAX && s->items[idx].value == v && !s->deleted;
}
/* advance_tail(t): requires t == tail_;  ensures: tail_ points to the successor of t's segment - the existing one, or a freshly allocated empty segment linked behind it; nothing else changes */
/* advance_head(&h, t): requires h == head_, t == tail_, the head segment is empty;  ensures: if head is also the tail segment and has no successor nothing changes; otherwise
 * (tail_ is first moved to the successor if it still points to the head segment) the head segment is marked deleted, head_ points to its successor, the old head segment is
 * retired once and the guard is reset */
#if XV_STUB == 1
static _Bool st_find_index(struct kfq* self, uint64_t seg, uint64_t* idx_p, uint64_t* old_p, _Bool empty) {
  struct segment* s = SEGP(seg); uint64_t k = s->k; _Bool r = nondet_bool();
  if (r) { uint64_t i = nondet_u64(); XV_ASSUME(i < k && i < KMAX && (MV_get(s->items[i].value) == 0) == empty); *idx_p = i; *old_p = s->items[i].value; }
  else { for (unsigned j = 0; j < KMAX; j++) if (j < k) XV_ASSUME((MV_get(s->items[j].value) == 0) != empty); *old_p = nondet_u64(); }
  return r;
}
static _Bool st_find_index_E(struct kfq* self, uint64_t seg, uint64_t* idx_p, uint64_t* old_p) { return st_find_index(self, seg, idx_p, old_p, 1); }
static _Bool st_find_index_N(struct kfq* self, uint64_t seg, uint64_t* idx_p, uint64_t* old_p) { return st_find_index(self, seg, idx_p, old_p, 0); }
static _Bool st_committed(struct kfq* self, uint64_t seg, uint64_t v, uint64_t idx) {
  if (!committed_pre(self, seg, v, idx)) g_pre_ok = 0;
  if (MV_get(seg) == MV_get(self->head_)) self->head_ = MV_make(MV_get(self->head_), MV_mark(self->head_) + 1);
  return 1;
}
static void st_advance_tail(struct kfq* self, uint64_t t) {
  if (t != self->tail_) g_pre_ok = 0;
  struct segment* s = SEGP(t);
  if (MV_get(s->next) != 0) self->tail_ = MV_make(MV_get(s->next), any_mark());
  else { uint64_t n = xv_alloc_segment(self); s->next = MV_make(n, any_mark()); self->tail_ = MV_make(n, any_mark()); }
}
static void st_advance_head(struct kfq* self, uint64_t* h, uint64_t t) {
  if (!(*h == self->head_ && t == self->tail_ && seg_all_null(SEGP(*h)))) g_pre_ok = 0;
  struct segment* hs = SEGP(*h); uint64_t nx = MV_get(hs->next);
  if (MV_get(*h) == MV_get(t)) { if (nx == 0) return; self->tail_ = MV_make(nx, any_mark()); }
  hs->deleted = 1; self->head_ = MV_make(nx, any_mark());
  gp_reclaim(h);
}
static void st_delete_remaining_items(struct segment* s) {
  for (unsigned j = 0; j < KMAX; j++) if (j < s->k) { TR_delete_value(MV_get(s->items[j].value)); s->items[j].value = 0; }
}
#endif

/* proofs of the three contracts for the real text */
struct segment o_segs[LMAX];
static void snapshot(void) { for (unsigned i = 0; i < LMAX; i++) o_segs[i] = g_segs[i]; }
static _Bool seg_eq(unsigned i, _Bool ignore_next, _Bool ignore_deleted) {
  _Bool r = (g_segs[i].k == o_segs[i].k) & (ignore_next | (g_segs[i].next == o_segs[i].next)) & (ignore_deleted | (g_segs[i].deleted == o_segs[i].deleted));
  for (unsigned j = 0; j < KMAX; j++) r &= g_segs[i].items[j].value == o_segs[i].items[j].value;
  return r;
}
static void committed_seq_case(uint64_t k) {
  struct kfq q; havoc_state(&q, k); mon_reset(&q); uint64_t L, hp, tp;
  XV_ASSUME(inv_shape(&q, k, &L, &hp, &tp));
  uint64_t sp = nondet_u64(), sm = any_mark(), idx = nondet_u64(); XV_ASSUME(sp >= 1 && sp <= L);
  marked_ptr seg = MV_make(sp, sm); XV_ASSUME(idx < k);
  marked_value v = g_segs[sp - 1].items[idx].value;
  XV_ASSUME(committed_pre(&q, seg, v, idx));
  snapshot(); marked_ptr head0 = q.head_, tail0 = q.tail_;
  _Bool r = kfq_committed(&q, seg, v, idx);
  XV_OBL("kfq.committed.seq", r && q.tail_ == tail0 && g_mem_ok);
  XV_OBL("kfq.committed.seq", q.head_ == (sp == MV_get(head0) ? MV_make(MV_get(head0), MV_mark(head0) + 1) : head0));
  unsigned i = nondet_uint(); if (i < LMAX) XV_OBL("kfq.committed.seq", seg_eq(i, 0, 0));
  XV_OBL("kfq.advance.one_segment", mon_adv_ok && !mon_plain_store_ht);
  if (sp == MV_get(head0)) XV_CANARY("committed_seq.at_head"); else XV_CANARY("committed_seq.behind_tail");
}
void h_committed_seq(void) { FOR_K(committed_seq_case(k_)); }
static void advance_tail_seq_case(uint64_t k) {
  struct kfq q; havoc_state(&q, k); mon_reset(&q); uint64_t L, hp, tp;
  XV_ASSUME(inv_shape(&q, k, &L, &hp, &tp));
  snapshot(); marked_ptr head0 = q.head_, tail0 = q.tail_;
  kfq_advance_tail(&q, tail0);
  _Bool had_next = tp + 1 < L;
  XV_OBL("kfq.advance_tail.seq", q.head_ == head0 && MV_get(q.tail_) == tp + 2 && g_allocs == (had_next ? 0 : 1) && g_mem_ok && g_release_ok);
  unsigned i = nondet_uint();
  if (i < L) XV_OBL("kfq.advance_tail.seq", seg_eq(i, !had_next && i == tp, 0) && (had_next || i != tp || MV_get(g_segs[i].next) == tp + 2));
  if (!had_next) XV_OBL("kfq.advance_tail.seq", g_alloc[tp + 1] && !g_released[tp + 1] && g_segs[tp + 1].k == k && !g_segs[tp + 1].deleted && MV_get(g_segs[tp + 1].next) == 0 && seg_all_null(&g_segs[tp + 1]));
  XV_OBL("kfq.advance.one_segment", mon_adv_ok && !mon_plain_store_ht);
  if (had_next) XV_CANARY("advance_tail_seq.helped"); else XV_CANARY("advance_tail_seq.allocated");
}
void h_advance_tail_seq(void) { FOR_K(advance_tail_seq_case(k_)); }
static void advance_head_seq_case(uint64_t k) {
  struct kfq q; havoc_state(&q, k); mon_reset(&q); uint64_t L, hp, tp;
  XV_ASSUME(inv_shape(&q, k, &L, &hp, &tp));
  XV_ASSUME(seg_all_null(&g_segs[hp]));
  snapshot(); marked_ptr head0 = q.head_, tail0 = q.tail_; guard_ptr g = head0;
  kfq_advance_head(&q, &g, tail0);
  _Bool stuck = hp == tp && hp + 1 == L;
  if (stuck) {
    XV_OBL("kfq.advance_head.seq", q.head_ == head0 && q.tail_ == tail0 && g == head0 && g_retired[hp] == 0);
    unsigned i = nondet_uint(); if (i < L) XV_OBL("kfq.advance_head.seq", seg_eq(i, 0, 0));
    XV_CANARY("advance_head_seq.no_successor");
  } else {
    XV_OBL("kfq.advance_head.seq", MV_get(q.head_) == hp + 2 && (hp == tp ? MV_get(q.tail_) == tp + 2 : q.tail_ == tail0) && g == 0);
    XV_OBL("kfq.advance_head.seq", g_segs[hp].deleted && g_retired[hp] == 1 && g_retire_ok);
    unsigned i = nondet_uint(); if (i < L) XV_OBL("kfq.advance_head.seq", seg_eq(i, 0, i == hp) && g_retired[i] == ((i <= hp) ? 1 : 0));
    if (hp == tp) XV_CANARY("advance_head_seq.moved_tail_too"); else XV_CANARY("advance_head_seq.plain");
  }
  XV_OBL("kfq.advance_head.deleted_first", mon_deleted_first);
  XV_OBL("kfq.advance.one_segment", mon_adv_ok && !mon_plain_store_ht);
  XV_OBL("kfq.mem.valid", g_mem_ok && g_release_ok && g_allocs == 0);
}
void h_advance_head_seq(void) { FOR_K(advance_head_seq_case(k_)); }

/* ---- SEQ: push never fails; the value lands in exactly one empty slot of the (possibly advanced / freshly allocated) tail segment ---- */
static void push_case(uint64_t k) {
  struct kfq q; havoc_state(&q, k); mon_reset(&q); uint64_t L, hp, tp, L2, hp2, tp2;
  XV_ASSUME(inv(&q, k, &L, &hp, &tp));
  in_value = nondet_u64(); XV_ASSUME(in_value != 0 && in_value <= PTR_MASK && in_value != 0x100);
  snapshot(); marked_ptr head0 = q.head_, tail0 = q.tail_;
  kfq_push(&q, in_value);
  XV_OBL("kfq.push.stores", !xv_threw && g_released_values == 1);
  unsigned changed = 0, ci = 0, cj = 0;
  for (unsigned i = 0; i < LMAX; i++) for (unsigned j = 0; j < KMAX; j++) if (j < k && g_alloc[i] && (i >= L ? g_segs[i].items[j].value != 0 : g_segs[i].items[j].value != o_segs[i].items[j].value)) { changed++; ci = i; cj = j; }
  marked_value before = ci < L ? o_segs[ci].items[cj].value : 0;
  XV_OBL("kfq.push.stores", changed == 1 && MV_get(before) == 0 && g_segs[ci].items[cj].value == MV_make(in_value, MV_mark(before) + 1));
  XV_OBL("kfq.push.stores", MV_get(q.tail_) == ci + 1);                           /* it sits in the segment tail_ now points to */
  XV_OBL("kfq.push.stores", g_allocs <= 1 && MV_get(q.head_) == MV_get(head0));
  g_age[ci][cj] = g_next_age; g_next_age++;
  XV_OBL("kfq.inv.preserved", inv(&q, k, &L2, &hp2, &tp2) && hp2 == hp && tp2 >= tp && L2 == L + g_allocs);
  XV_OBL("kfq.advance.one_segment", mon_adv_ok && !mon_plain_store_ht);
  XV_OBL("kfq.mem.valid", g_mem_ok && g_retire_ok && g_release_ok && g_pre_ok);
  if (g_allocs == 1) XV_CANARY("push.allocated");
  if (tp2 > tp && g_allocs == 0) XV_CANARY("push.helped_tail");
  if (q.head_ != head0) XV_CANARY("push.bumped_head");
  if (tp2 == tp && tp > hp) XV_CANARY("push.plain");
}
void h_push(void) { FOR_K(push_case(k_)); }
void h_push_null(void) {
  struct kfq q; in_k = nondet_u64(); XV_ASSUME(in_k >= 1 && in_k <= KMAX); havoc_state(&q, in_k); mon_reset(&q); mon_log_on = 1;
  kfq_push(&q, 0);
  XV_OBL("kfq.push.stores", xv_threw == XV_EXC_std__invalid_argument && g_released_values == 0 && mon_slot_cas_n == 0 && mon_head_cas_n == 0 && mon_tail_cas_n == 0 && mon_next_cas_n == 0 && g_allocs == 0);
  XV_CANARY("push.null");
}

/* ---- SEQ: try_pop ---- */
static void pop_case(uint64_t k) {
  struct kfq q; havoc_state(&q, k); mon_reset(&q); uint64_t L, hp, tp, L2, hp2, tp2;
  XV_ASSUME(inv(&q, k, &L, &hp, &tp));
  unsigned n = count(k, L);
  in_res0 = nondet_uptr(); value_type res = in_res0;
  snapshot();
  _Bool r = kfq_do_pop(&q, &res);
  unsigned changed = 0, ci = 0, cj = 0;
  for (unsigned i = 0; i < LMAX; i++) for (unsigned j = 0; j < KMAX; j++) if (j < k && i < L && g_segs[i].items[j].value != o_segs[i].items[j].value) { changed++; ci = i; cj = j; }
  XV_OBL("kfq.pop.empty", r == (n != 0));
  if (!r) {
    XV_OBL("kfq.pop.empty", changed == 0 && res == in_res0 && g_stored == 0);
    XV_CANARY("pop.empty");
  } else {
    marked_value before = o_segs[ci].items[cj].value;
    XV_OBL("kfq.pop.oldest_segment", changed == 1 && MV_get(before) != 0 && g_segs[ci].items[cj].value == MV_make(0, MV_mark(before) + 1) && res == MV_get(before) && g_stored == 1);
    unsigned older = 0;
    for (unsigned i = 0; i < LMAX; i++) for (unsigned j = 0; j < KMAX; j++) if (i < L && j < k && MV_get(o_segs[i].items[j].value) != 0) {
      XV_OBL("kfq.pop.oldest_segment", i >= ci);
      if (g_age[i][j] < g_age[ci][cj]) older++;
    }
    XV_OBL("kfq.pop.k_oldest", older < k);
    if (older > 0 || k == 1) XV_CANARY("pop.not_the_oldest");
  }
  XV_OBL("kfq.inv.preserved", inv(&q, k, &L2, &hp2, &tp2) && hp2 >= hp && tp2 >= tp);
  /* every segment head_ has left was marked deleted first, was empty, and has been retired exactly once (inv: retired == 1 below hp) */
  XV_OBL("kfq.retire.once_empty", g_retire_ok && g_release_ok);
  XV_OBL("kfq.advance_head.deleted_first", mon_deleted_first);
  XV_OBL("kfq.advance.one_segment", mon_adv_ok && !mon_plain_store_ht);
  XV_OBL("kfq.mem.valid", g_mem_ok && g_pre_ok);
  if (hp2 > hp) XV_CANARY("pop.advanced_head");
  if (tp2 > tp) XV_CANARY("pop.advanced_tail");
  if (g_allocs) XV_CANARY("pop.allocated");
}
void h_pop(void) { FOR_K(pop_case(k_)); }

/* ---- constructor: one empty segment, head_ == tail_ == it; satisfies inv ---- */
static void ctor_case(uint64_t k) {
  struct kfq q; q.k_ = nondet_size(); q.head_ = nondet_u64(); q.tail_ = nondet_u64(); mon_reset(&q);
  for (unsigned i = 0; i < LMAX; i++) { g_alloc[i] = 0; g_released[i] = 0; g_retired[i] = 0; g_segs[i].k = nondet_u64(); g_segs[i].deleted = nondet_bool(); g_segs[i].next = nondet_u64(); for (unsigned j = 0; j < KMAX; j++) { g_segs[i].items[j].value = nondet_u64(); g_age[i][j] = nondet_u16(); } }
  g_next_age = nondet_u16(); XV_ASSUME(g_next_age < 60000);
  kfq_ctor(&q, k);
  uint64_t L, hp, tp;
  XV_OBL("kfq.inv.preserved", inv(&q, k, &L, &hp, &tp) && L == 1 && q.head_ == q.tail_ && MV_mark(q.head_) == 0 && g_allocs == 1 && count(k, 1) == 0);
  XV_CANARY("ctor.reached");
}
void h_ctor(void) { FOR_K(ctor_case(k_)); }

/* ---- C07: delete_remaining_items, destructor ---- */
static void dri_case(uint64_t k) {
  struct kfq q; havoc_state(&q, k); mon_reset(&q);
  struct segment* s = &g_segs[0]; s->k = k;
  g_track = nondet_uptr(); XV_ASSUME(g_track != 0);
  _Bool stored = nondet_bool(); uint64_t jt = nondet_u64(); XV_ASSUME(jt < k);
  for (unsigned j = 0; j < KMAX; j++) if (j < k) XV_ASSUME((MV_get(s->items[j].value) == g_track) == (stored && j == jt));
  seg_delete_remaining_items(s);
  XV_OBL("kfq.delete_remaining.each_once", g_del_once == stored && !g_del_twice && seg_all_null(s));
  if (stored) XV_CANARY("dri.tracked"); else XV_CANARY("dri.not_stored");
}
void h_delete_remaining(void) { FOR_K(dri_case(k_)); }
static void dtor_case(uint64_t k) {
  struct kfq q; havoc_state(&q, k); mon_reset(&q); uint64_t L, hp, tp;
  XV_ASSUME(inv_shape(&q, k, &L, &hp, &tp));
  g_track = nondet_uptr(); XV_ASSUME(g_track != 0);
  _Bool stored = nondet_bool(); uint64_t it = nondet_u64(), jt = nondet_u64(); XV_ASSUME(it < L && jt < k);
  for (unsigned i = 0; i < LMAX; i++) for (unsigned j = 0; j < KMAX; j++) if (i < L && j < k) XV_ASSUME((MV_get(g_segs[i].items[j].value) == g_track) == (stored && i == it && j == jt));
  kfq_dtor(&q);
  /* every value still inside is destroyed exactly once; every segment reachable from head_ is released exactly once, empty (~segment's assertion); the retired ones are left to the reclaimer */
  XV_OBL("kfq.dtor.each_once", g_del_once == stored && !g_del_twice);
  unsigned s = nondet_uint();
  if (s < L) XV_OBL("kfq.dtor.segments_released", g_released[s] == (s >= hp ? 1 : 0) && g_release_ok && g_mem_ok);
  if (stored) XV_CANARY("dtor.tracked"); else XV_CANARY("dtor.not_stored");
  if (L == 3 && hp == 0) XV_CANARY("dtor.three_segments");
}
void h_dtor(void) { FOR_K(dtor_case(k_)); }

/* =====================================================================================================
 * INT: committed() while other threads keep working  (kfq.push.commit, kfq.committed.withdrawn)
 *
 * Ghost view of the other threads (the rely, stated in unit.py).  P = pool slot 0 is the segment the pusher inserted into (slot e_idx, word e_item), O = pool slot 1
 * stands for any other segment.  e_rel: where head_ is relative to P - 2: before P (P still ahead in the chain), 1: head_ points to P, 0: head_ has left P (P unlinked).
 * e_taken: a consumer replaced the word.  e_can_adv: an advance_head that scanned P before the item was inserted is pending; it may mark P deleted and its head CAS
 * succeeds if the head word is still the one it read.  A segment is marked deleted only by a thread that found it empty while it was the head segment, and before head_
 * leaves it.  One environment step is the transitive closure of such moves.
 * ===================================================================================================== */
#ifdef XV_INT
_Bool e_on, e_arbitrary, e_taken, e_withdrawn, e_can_adv; unsigned char e_rel; uint64_t e_hmark, e_idx; marked_value e_item; struct kfq* e_q;
#define E_MARK_BOUND 0x7fff       /* 16-bit marks do not wrap during one call */
static void env_own_cas(void* addr, uint64_t e, uint64_t d, _Bool ok) {
  if (!e_on || e_arbitrary || !ok) return;
  if (addr == (void*)&e_q->head_) { e_hmark = MV_mark(d); if (!e_taken && !e_withdrawn) e_can_adv = 0; }
  if (addr == (void*)&g_segs[0].items[e_idx].value) e_withdrawn = 1;
}
static uint64_t env_ptr(_Bool may_be_null) { uint64_t p = nondet_u64(); XV_ASSUME(p <= LMAX - 1 && (may_be_null || p >= 1)); return p; }
void xv_env(void) {
  if (!e_on) return;
  struct kfq* q = e_q;
  if (e_arbitrary) {            /* validation runs: no rely beyond "pointers in shared cells point to live segments (the guards' job)"; pool slot LMAX-1 is never published by others */
    q->head_ = MV_make(env_ptr(0), any_mark()); q->tail_ = MV_make(env_ptr(0), any_mark());
    for (unsigned i = 0; i < LMAX - 1; i++) { g_segs[i].next = MV_make(env_ptr(1), any_mark()); if (nondet_bool()) g_segs[i].deleted = 1; for (unsigned j = 0; j < KMAX; j++) g_segs[i].items[j].value = nondet_u64(); }
    return;
  }
  unsigned char nrel = nondet_uchar(); uint64_t nm = nondet_u64(); _Bool ntaken = nondet_bool(), ncan = nondet_bool(), ndel = nondet_bool();
  _Bool present = !e_taken && !e_withdrawn, del = g_segs[0].deleted;
  XV_ASSUME(nrel <= e_rel && nm >= e_hmark && nm < E_MARK_BOUND && (nrel == e_rel || nm > e_hmark));
  XV_ASSUME((!e_taken || ntaken) && (!del || ndel) && (nrel != 0 || ndel) && (nrel != 2 || !ndel));
  _Bool hchanged = nrel != e_rel || nm != e_hmark;
  if (present && !ntaken) {
    XV_ASSUME(!(e_rel == 2 && nrel == 0));                            /* head cannot pass through P while the item sits there ... */
    XV_ASSUME(!(e_rel == 1 && nrel == 0) || e_can_adv);               /* ... and leaves P only by an advance prepared before the insertion */
    XV_ASSUME(!(ndel && !del) || (e_rel == 1 && e_can_adv));          /* only that thread can mark P deleted */
    XV_ASSUME(ncan == (hchanged ? 0 : e_can_adv));
  } else {
    XV_ASSUME(!(ndel && !del) || e_rel == 1 || (e_rel == 2 && nrel <= 1));      /* marked deleted only while/after being head */
  }
  e_rel = nrel; e_hmark = nm; e_can_adv = ncan; g_segs[0].deleted = ndel;
  q->head_ = MV_make(nrel == 1 ? 1 : 2, nm);
  if (present && ntaken) { marked_value nv = nondet_u64(); XV_ASSUME(nv != e_item); g_segs[0].items[e_idx].value = nv; e_taken = 1; }
  else if (!present) { marked_value nv = nondet_u64(); XV_ASSUME(nv != e_item); g_segs[0].items[e_idx].value = nv; }
}
static void committed_int_case(uint64_t k) {
  struct kfq q; q.k_ = k; mon_reset(&q); mon_log_on = 1; e_q = &q; e_arbitrary = 0; e_withdrawn = 0;
  for (unsigned i = 0; i < LMAX; i++) { g_alloc[i] = 1; g_released[i] = 0; g_retired[i] = 0; g_segs[i].k = k; g_segs[i].next = nondet_u64(); g_segs[i].deleted = nondet_bool(); for (unsigned j = 0; j < KMAX; j++) g_segs[i].items[j].value = nondet_u64(); }
  e_rel = nondet_uchar(); e_hmark = nondet_u64(); e_taken = nondet_bool(); e_can_adv = nondet_bool();
  XV_ASSUME(e_rel <= 2 && e_hmark < E_MARK_BOUND && (e_rel != 0 || g_segs[0].deleted) && (e_rel != 2 || !g_segs[0].deleted));
  q.head_ = MV_make(e_rel == 1 ? 1 : 2, e_hmark); q.tail_ = nondet_u64();
  uint64_t v = nondet_u64(), m = nondet_u64(), sm = any_mark(); e_idx = nondet_u64();
  XV_ASSUME(e_idx < k && v != 0 && v <= PTR_MASK && m <= 0xffff);
  e_item = MV_make(v, m);
  if (e_taken) XV_ASSUME(g_segs[0].items[e_idx].value != e_item); else g_segs[0].items[e_idx].value = e_item;
  e_on = 1;
  _Bool r = kfq_committed(&q, MV_make(1, sm), e_item, e_idx);
  e_on = 0;
  XV_OBL("kfq.committed.withdrawn", !(e_taken && e_withdrawn));
  if (r) {
    XV_OBL("kfq.push.commit", e_taken || (!e_withdrawn && g_segs[0].items[e_idx].value == e_item && e_rel != 0 && !(e_rel == 1 && e_can_adv)));
    if (e_taken) XV_CANARY("committed.taken"); else if (e_rel == 1) XV_CANARY("committed.at_head"); else XV_CANARY("committed.ahead");
    if (!e_taken && g_segs[0].deleted) XV_CANARY("committed.deleted_but_head");
  } else {
    XV_OBL("kfq.committed.withdrawn", e_withdrawn && !e_taken && g_segs[0].items[e_idx].value == MV_make(0, m + 1));
    XV_CANARY("committed.withdrawn");
  }
  XV_OBL("kfq.advance.one_segment", !mon_plain_store_ht && g_mem_ok);
  if (mon_head_loads) XV_OBL("kfq.sync.orders", XV_IS_ACQUIRE(mon_head_first_order));      /* (6) pairs with the release CAS of advance_head */
}
#endif
void h_committed_int(void) {
#ifdef XV_INT
  FOR_K(committed_int_case(k_));
#endif
}

/* =====================================================================================================
 * INT: push / do_pop / advance_head / advance_tail validate what they read (arbitrary environment; push and do_pop: loop cut, callees = recording stubs)
 * ===================================================================================================== */
#if defined(XV_INT) && XV_STUB == 2
unsigned rec_fi_n, rec_cm_n, rec_at_n, rec_ah_n; uint64_t rec_fi_seg, rec_fi_idx, rec_fi_old, rec_fi_clock, rec_cm_seg, rec_cm_v, rec_cm_idx, rec_cm_clock, rec_at_t, rec_at_clock, rec_ah_h, rec_ah_t, rec_ah_clock;
_Bool rec_fi_ret, rec_cm_ret;
static _Bool rec_find_index(struct kfq* self, uint64_t seg, uint64_t* idx_p, uint64_t* old_p, _Bool empty) {
  xv_env();
  rec_fi_n++; rec_fi_seg = seg; rec_fi_ret = nondet_bool(); rec_fi_idx = nondet_u64(); rec_fi_old = nondet_u64(); rec_fi_clock = ++xv_clock;
  XV_ASSUME(rec_fi_idx < self->k_ && rec_fi_idx < KMAX);
  if (rec_fi_ret) { XV_ASSUME((MV_get(rec_fi_old) == 0) == empty && MV_get(rec_fi_old) != 0x100); *idx_p = rec_fi_idx; }
  *old_p = rec_fi_old;
  xv_env();
  return rec_fi_ret;
}
static _Bool rec_find_index_E(struct kfq* self, uint64_t seg, uint64_t* idx_p, uint64_t* old_p) { return rec_find_index(self, seg, idx_p, old_p, 1); }
static _Bool rec_find_index_N(struct kfq* self, uint64_t seg, uint64_t* idx_p, uint64_t* old_p) { return rec_find_index(self, seg, idx_p, old_p, 0); }
static _Bool rec_committed(struct kfq* self, uint64_t seg, uint64_t v, uint64_t idx) { xv_env(); rec_cm_n++; rec_cm_seg = seg; rec_cm_v = v; rec_cm_idx = idx; rec_cm_ret = nondet_bool(); rec_cm_clock = ++xv_clock; return rec_cm_ret; }
static void rec_advance_tail(struct kfq* self, uint64_t t) { xv_env(); rec_at_n++; rec_at_t = t; rec_at_clock = ++xv_clock; xv_env(); }
static void rec_advance_head(struct kfq* self, uint64_t* h, uint64_t t) { xv_env(); rec_ah_n++; rec_ah_h = *h; rec_ah_t = t; rec_ah_clock = ++xv_clock; if (nondet_bool()) *h = 0; xv_env(); }
#endif
static void pool_all_live(uint64_t k) {
  for (unsigned i = 0; i < LMAX; i++) { g_alloc[i] = i < LMAX - 1; g_released[i] = 0; g_retired[i] = 0; g_segs[i].k = k; g_segs[i].next = MV_make(nondet_u64() % LMAX, any_mark()); g_segs[i].deleted = nondet_bool(); for (unsigned j = 0; j < KMAX; j++) g_segs[i].items[j].value = nondet_u64(); }
}
static void iter_reset(struct kfq* self) {
#if defined(XV_INT)
  uint64_t k = self->k_; mon_reset(self); mon_log_on = 1; self->k_ = k;
  e_on = 1; xv_env();
#if XV_STUB == 2
  rec_fi_n = 0; rec_cm_n = 0; rec_at_n = 0; rec_ah_n = 0;
#endif
#endif
}
#if defined(XV_INT) && XV_STUB == 2
static void push_int_case(uint64_t k) {
  struct kfq q; q.k_ = k; pool_all_live(k); e_q = &q; e_arbitrary = 1; iter_reset(&q);
  in_value = nondet_u64(); XV_ASSUME(in_value != 0 && in_value <= PTR_MASK);
  kfq_push_cut(&q, in_value);
  e_on = 0;
  /* reached only on return: the value was stored by a CAS that expected the word find_index read in the segment the guard protects, after re-reading an unchanged tail_, and committed() agreed */
  marked_value nv = MV_make(in_value, MV_mark(rec_fi_old) + 1);
  XV_OBL("kfq.push.validate", rec_fi_n == 1 && rec_fi_ret && rec_fi_seg == mon_tail_first && mon_tail_loads == 2 && mon_tail_last == mon_tail_first && mon_tail_last_clock > rec_fi_clock);
  XV_OBL("kfq.push.validate", mon_slot_cas_n == 1 && mon_slot_cas_ok && mon_slot_cas_seg == MV_get(mon_tail_first) && mon_slot_cas_idx == rec_fi_idx && mon_slot_cas_e == rec_fi_old && mon_slot_cas_d == nv && mon_slot_cas_clock > mon_tail_last_clock);
  XV_OBL("kfq.push.validate", rec_cm_n == 1 && rec_cm_ret && rec_cm_seg == mon_tail_first && rec_cm_v == nv && rec_cm_idx == rec_fi_idx && rec_cm_clock > mon_slot_cas_clock);
  XV_OBL("kfq.push.validate", g_released_values == 1 && rec_at_n == 0 && mon_head_cas_n == 0 && mon_tail_cas_n == 0 && g_mem_ok);
  XV_OBL("kfq.sync.orders", XV_IS_RELEASE(mon_slot_cas_order) && XV_IS_ACQUIRE(mon_tail_first_order));
  XV_CANARY("push_int.returned");
}
static void pop_int_case(uint64_t k) {
  struct kfq q; q.k_ = k; pool_all_live(k); e_q = &q; e_arbitrary = 1; iter_reset(&q);
  in_res0 = nondet_uptr(); value_type res = in_res0;
  _Bool r = kfq_do_pop_cut(&q, &res);
  e_on = 0;
  XV_OBL("kfq.pop.validate", rec_fi_n == 1 && rec_fi_seg == mon_head_first && mon_head_loads == 2 && mon_head_last == mon_head_first && mon_head_last_clock > rec_fi_clock && g_mem_ok);
  if (r) {
    XV_OBL("kfq.pop.validate", rec_fi_ret && mon_slot_cas_n == 1 && mon_slot_cas_ok && mon_slot_cas_seg == MV_get(mon_head_first) && mon_slot_cas_idx == rec_fi_idx && mon_slot_cas_e == rec_fi_old && mon_slot_cas_d == MV_make(0, MV_mark(rec_fi_old) + 1) && mon_slot_cas_clock > mon_head_last_clock);
    XV_OBL("kfq.pop.validate", res == MV_get(rec_fi_old) && g_stored == 1 && rec_ah_n == 0);
    /* a consumer that takes from the segment tail_ still points to first moves tail_ on */
    if (MV_get(mon_head_first) == MV_get(mon_tail_first)) { XV_OBL("kfq.pop.validate", rec_at_n == 1 && rec_at_t == mon_tail_first && rec_at_clock < mon_slot_cas_clock); XV_CANARY("pop_int.moved_tail"); }
    else XV_OBL("kfq.pop.validate", rec_at_n == 0);
    XV_OBL("kfq.sync.orders", XV_IS_ACQUIRE(mon_slot_cas_order) && XV_IS_ACQUIRE(mon_head_first_order) && XV_IS_ACQUIRE(mon_tail_first_order));
    XV_CANARY("pop_int.true");
  } else {
    XV_OBL("kfq.pop.validate", !rec_fi_ret && MV_get(mon_head_first) == MV_get(mon_tail_first) && mon_tail_loads == 2 && mon_tail_last == mon_tail_first && mon_tail_last_clock > mon_head_last_clock);
    XV_OBL("kfq.pop.validate", res == in_res0 && g_stored == 0 && mon_slot_cas_n == 0 && rec_ah_n == 0 && rec_at_n == 0);
    XV_CANARY("pop_int.empty");
  }
}
#endif
void h_push_int(void) {
#if defined(XV_INT) && XV_STUB == 2
  FOR_K(push_int_case(k_));
#endif
}
void h_pop_int(void) {
#if defined(XV_INT) && XV_STUB == 2
  FOR_K(pop_int_case(k_));
#endif
}
#ifdef XV_INT
/* advance_head under arbitrary interference: nothing is written unless head_ still equals the guard; the segment is marked deleted before the head CAS; the CAS goes from the guard's
 * word to (successor read from the guard's segment, mark+1); the segment is retired iff that CAS succeeded */
static void advance_head_int_case(uint64_t k) {
  struct kfq q; q.k_ = k; pool_all_live(k); e_q = &q; e_arbitrary = 1; iter_reset(&q);
  guard_ptr g = MV_make(env_ptr(0), any_mark()), g0 = g; marked_ptr t = MV_make(env_ptr(0), any_mark());
  unsigned char r0 = g_retired[MV_get(g0) - 1];
  g_retire_ok = 1;
  kfq_advance_head(&q, &g, t);
  e_on = 0;
  if (mon_head_cas_n) {
    XV_OBL("kfq.advance_head.retire", mon_head_cas_n == 1 && mon_head_cas_e == g0 && MV_mark(mon_head_cas_d) == ((MV_mark(g0) + 1) & 0xffff) && mon_head_loads == 1 && mon_head_last == g0);
    XV_OBL("kfq.advance_head.retire", mon_deleted_stores == 1 && mon_deleted_seg == MV_get(g0) && mon_deleted_clock < mon_head_cas_clock);
    XV_OBL("kfq.advance_head.retire", (g_retired[MV_get(g0) - 1] == r0 + 1) == mon_head_cas_ok && (g == 0) == mon_head_cas_ok);
    XV_OBL("kfq.sync.orders", XV_IS_RELEASE(mon_head_cas_order));
    if (mon_head_cas_ok) XV_CANARY("advance_head_int.retired"); else XV_CANARY("advance_head_int.lost_race");
  } else {
    XV_OBL("kfq.advance_head.retire", mon_deleted_stores == 0 && g_retired[MV_get(g0) - 1] == r0 && g == g0 && mon_tail_cas_n == 0);
    XV_CANARY("advance_head_int.nothing");
  }
  if (mon_tail_cas_n) {
    XV_OBL("kfq.advance_head.retire", mon_tail_cas_n == 1 && MV_get(g0) == MV_get(t) && mon_tail_cas_e == t && mon_tail_loads == 1 && mon_tail_last == t && MV_get(mon_tail_cas_d) != 0);
    XV_OBL("kfq.sync.orders", XV_IS_RELEASE(mon_tail_cas_order));
    XV_CANARY("advance_head_int.moved_tail");
  }
  XV_OBL("kfq.advance_head.retire", g_allocs == 0 && mon_slot_cas_n == 0 && mon_next_cas_n == 0 && g_mem_ok && g_release_ok && !mon_plain_store_ht);
  XV_OBL("kfq.sync.orders", !mon_next_load_weak);
}
/* advance_tail under arbitrary interference: nothing happens unless tail_ still equals the word passed in; a fresh segment is either linked (next CAS from the null word read) and never
 * released, or released exactly once; tail_ is only CASed from the word passed in to the successor */
static void advance_tail_int_case(uint64_t k) {
  struct kfq q; q.k_ = k; pool_all_live(k); e_q = &q; e_arbitrary = 1; iter_reset(&q);
  marked_ptr t = MV_make(env_ptr(0), any_mark());
  kfq_advance_tail(&q, t);
  e_on = 0;
  XV_OBL("kfq.advance_tail.links", mon_tail_loads == 1 && (mon_tail_last == t || (mon_tail_cas_n == 0 && mon_next_cas_n == 0 && g_allocs == 0)));
  XV_OBL("kfq.sync.orders", !mon_next_load_weak);
  XV_OBL("kfq.advance_tail.links", g_allocs <= 1 && mon_head_cas_n == 0 && mon_slot_cas_n == 0 && mon_deleted_stores == 0 && g_mem_ok && g_release_ok && !mon_plain_store_ht);
  if (g_allocs) {
    uint64_t fresh = LMAX;       /* the lowest free pool slot was LMAX-1 */
    XV_OBL("kfq.advance_tail.links", mon_next_cas_n == 1 && mon_next_cas_seg == MV_get(t) && MV_get(mon_next_cas_e) == 0 && MV_get(mon_next_cas_d) == fresh);
    XV_OBL("kfq.advance_tail.links", g_released[fresh - 1] == (mon_next_cas_ok ? 0 : 1));
    XV_OBL("kfq.advance_tail.links", mon_next_cas_ok ? (mon_tail_cas_n == 1 && mon_tail_cas_e == t && MV_get(mon_tail_cas_d) == fresh) : mon_tail_cas_n == 0);
    XV_OBL("kfq.sync.orders", XV_IS_RELEASE(mon_next_cas_order) && (!mon_tail_cas_n || XV_IS_RELEASE(mon_tail_cas_order)));
    if (mon_next_cas_ok) XV_CANARY("advance_tail_int.linked"); else XV_CANARY("advance_tail_int.released_fresh");
  } else if (mon_tail_cas_n) {
    XV_OBL("kfq.advance_tail.links", mon_tail_cas_n == 1 && mon_tail_cas_e == t && MV_get(mon_tail_cas_d) != 0 && mon_next_cas_n == 0);
    XV_OBL("kfq.sync.orders", XV_IS_RELEASE(mon_tail_cas_order));
    XV_CANARY("advance_tail_int.helped");
  } else XV_CANARY("advance_tail_int.nothing");
}
#endif
void h_advance_head_int(void) {
#ifdef XV_INT
  FOR_K(advance_head_int_case(k_));
#endif
}
void h_advance_tail_int(void) {
#ifdef XV_INT
  FOR_K(advance_tail_int_case(k_));
#endif
}

/* static fact: the slot word keeps all pointer bits (see obligation kfq.slot.any_pointer) */
void h_slot_word(void) {
  XV_OBL("kfq.slot.any_pointer", XV_SLOT_MARK_BITS <= XV_MAX_UPPER_MARK_BITS);
  XV_CANARY("slot_word.reached");
}

/* pop(): the functors it passes to do_pop (extracted text) against the ones of try_pop; XV_POP_OPTIONAL_TARGET is the callee named in pop()'s body */
#define do_pop 7701    /* only for the comparison below: the name of the callee in pop()'s body */
void h_pop_optional(void) {
  marked_value v = nondet_u64(), v0 = v; value_type res = nondet_uptr();
  g_got = 0; g_stored = 0;
  XV_OBL("kfq.pop_optional.same_as_try_pop", XV_POP_OPTIONAL_TARGET == 7701);      /* pop() forwards to do_pop */
  value_type a = kfq_opt_success(&v);
  _Bool ok = kfq_pop_success(&res, &v);
  XV_OBL("kfq.pop_optional.same_as_try_pop", ok && a == res && a == MV_get(v0) && v == v0 && g_got == 1 && g_stored == 1);
  struct xv_opt e = kfq_opt_empty();
  XV_OBL("kfq.pop_optional.same_as_try_pop", !e.present && !kfq_pop_empty());
  XV_CANARY("pop_optional.reached");
}
#undef do_pop
