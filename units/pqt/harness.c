/* unit pqt - detail::pointer_queue_traits, the three variants (C07).  Contracts and harnesses only; bodies come from lowered.h */
#include "xv.h"
#include <string.h>
int xv_threw; uint64_t xv_clock, xv_rmw_old; _Bool xv_cas_ok;
typedef uintptr_t raw_type;                       /* raw_type is a pointer type in all three variants (void**, T*, T*) */
uintptr_t XV_IGNORE;                              /* std::ignore */
#define MARK63 ((uintptr_t)1 << 63)

/* ---- trivially copyable T, sizeof(T) = XV_TSIZE < sizeof(void*) ---- */
#ifndef XV_TSIZE
#define XV_TSIZE 4
#endif
typedef struct { unsigned char b[XV_TSIZE]; } tc_value;
typedef struct { _Bool has; tc_value v; } tc_opt;
#define TC_SOME(x) ((tc_opt){1, (x)})
#define TC_NONE ((tc_opt){0})
#define tc_store_ref(t, v) tc_store(&(t), (v))
static void tc_store(tc_value* target_p, raw_type val);
/* ---- raw pointer ---- */
typedef struct { _Bool has; raw_type v; } rp_opt;
#define RP_SOME(x) ((rp_opt){1, (x)})
#define RP_NONE ((rp_opt){0, 0})
/* ---- std::unique_ptr<T>: contract stubs of the standard semantics, with a ghost destroy count for a tracked pointee ---- */
typedef struct { raw_type p; } up_t;
typedef struct { _Bool has; up_t v; } up_opt;
#define UP_SOME(x) ((up_opt){1, (x)})
#define UP_NONE ((up_opt){0, {0}})
raw_type g_P;                                      /* the tracked pointee */
unsigned g_destroyed_P, g_destroyed_other, g_ctor;
static void up_delete(raw_type p) { if (p != 0) { if (p == g_P) g_destroyed_P++; else g_destroyed_other++; } }   /* default_delete */
#define UP_get(u) ((u).p)
static raw_type up_release_fn(up_t* u) { raw_type r = u->p; u->p = 0; return r; }
#define UP_release(u) up_release_fn(&(u))
static void up_reset_fn(up_t* u, raw_type v) { raw_type old = u->p; u->p = v; up_delete(old); }
#define UP_reset(u, v) up_reset_fn(&(u), (v))
static up_t UP_ctor(raw_type v) { up_t u = { v }; g_ctor++; return u; }
/* a unique_ptr that lives exactly for this statement: constructor, then destructor at the end of the enclosing scope */
#define UP_SCOPED(name, v) do { up_t name = UP_ctor(v); up_delete(name.p); } while (0)
#include "lowered.h"

static void reset(void) { g_P = nondet_uptr(); g_destroyed_P = 0; g_destroyed_other = 0; g_ctor = 0; XV_ASSUME(g_P != 0 && (g_P & MARK63) == 0); }

void h_tc(void) {
  reset();
  tc_value v, v0, t; for (unsigned i = 0; i < XV_TSIZE; i++) { v.b[i] = nondet_uchar(); t.b[i] = nondet_uchar(); } v0 = v;
  raw_type raw = tc_get_raw(&v);
  XV_OBL("pqt.tc.roundtrip", memcmp(&v, &v0, sizeof v) == 0);
  XV_OBL("pqt.tc.raw_fits", (raw >> (8 * XV_TSIZE)) == 0 && (raw & MARK63) == 0);
  tc_store(&t, raw);
  XV_OBL("pqt.tc.roundtrip", memcmp(&t, &v0, sizeof v) == 0);
  tc_opt o = tc_get(raw);
  XV_OBL("pqt.tc.roundtrip", o.has && memcmp(&o.v, &v0, sizeof v) == 0);
  tc_release(&v); tc_delete_value(raw);
  XV_OBL("pqt.tc.no_ownership", memcmp(&v, &v0, sizeof v) == 0 && g_destroyed_P == 0 && g_destroyed_other == 0 && g_ctor == 0);
  if (raw == 0) XV_CANARY("tc.zero_value_is_null"); else XV_CANARY("tc.nonzero");
}
void h_rp(void) {
  reset();
  raw_type p = nondet_uptr(), t = nondet_uptr();
  XV_OBL("pqt.rp.identity", rp_get_raw(p) == p);
  rp_store(&t, p);
  XV_OBL("pqt.rp.identity", t == p);
  rp_opt o = rp_get(p);
  XV_OBL("pqt.rp.identity", o.has && o.v == p);
  rp_release(p); rp_delete_value(p);
  XV_OBL("pqt.rp.identity", g_destroyed_P == 0 && g_destroyed_other == 0 && g_ctor == 0);
  XV_CANARY("rp.reached");
}
void h_up_get_raw(void) {
  reset();
  up_t u; u.p = nondet_bool() ? g_P : 0;
  raw_type p0 = u.p;
  raw_type r = up_get_raw(&u);
  XV_OBL("pqt.up.get_raw_observes", r == p0 && u.p == p0 && g_destroyed_P == 0 && g_destroyed_other == 0 && g_ctor == 0);
  if (p0) XV_CANARY("up_get_raw.owning"); else XV_CANARY("up_get_raw.empty");
}
void h_up_release(void) {
  reset();
  up_t u; u.p = nondet_bool() ? g_P : 0;
  up_release(&u);
  XV_OBL("pqt.up.release_transfers", u.p == 0 && g_destroyed_P == 0 && g_destroyed_other == 0 && g_ctor == 0);
  XV_CANARY("up_release.reached");
}
void h_up_store(void) {
  reset();
  up_t t; t.p = nondet_uptr(); XV_ASSUME(t.p != g_P);          /* the target owns something else (or nothing) */
  raw_type old = t.p;
  up_store(&t, g_P);
  XV_OBL("pqt.up.store_owns", t.p == g_P && g_destroyed_P == 0 && g_destroyed_other == (old != 0 ? 1u : 0u) && g_ctor == 0);
  if (old) XV_CANARY("up_store.replaces"); else XV_CANARY("up_store.into_empty");
}
void h_up_get(void) {
  reset();
  up_opt o = up_get(g_P);
  XV_OBL("pqt.up.get_one_owner", o.has && o.v.p == g_P && g_ctor == 1 && g_destroyed_P == 0 && g_destroyed_other == 0);
  XV_CANARY("up_get.reached");
}
void h_up_delete_value(void) {
  reset();
  raw_type v = nondet_bool() ? g_P : 0;
  up_delete_value(v);
  XV_OBL("pqt.up.delete_once", g_destroyed_P == (v ? 1u : 0u) && g_destroyed_other == 0);
  if (v) XV_CANARY("up_delete_value.value"); else XV_CANARY("up_delete_value.null");
}
