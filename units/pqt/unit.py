F = 'xenium/detail/pointer_queue_traits.hpp'
REF = [(r'\bval\b', '(*val_p)', 'ref_param')]
TGT = [(r'\btarget\b', '(*target_p)', 'ref_param')]
STD = [(r'\bstd::memcpy\b', 'memcpy', 'memcpy'), (r'\bstd::ignore\s*=', 'XV_IGNORE =', 'ignore')]
UPM = {'get': 'UP_get', 'release': 'UP_release', 'reset': 'UP_reset'}
UNIT = dict(
  title='pointer_queue_traits: the three variants (trivially copyable, raw pointer, unique_ptr): get_raw / release / store / get / delete_value (C07)',
  properties=['C07'],
  drops='templates: value_type is a byte array of XV_TSIZE bytes (trivially copyable variant), a word (raw pointer) or a one-word struct (unique_ptr); '
        'std::unique_ptr member functions and its destructor are contract stubs of the standard library semantics working on a ghost owner/destroy count; '
        'std::optional<value_type> is a struct {has, value}; by-reference parameters become pointers; little-endian byte order as in the header (its TODO)',
  assumptions=['std::unique_ptr: get() observes, release() gives up ownership without destroying, reset(p) destroys the old pointee and owns p, '
               'the destructor destroys the pointee if any (standard library semantics, not proved)',
               'std::memcpy: cbmc built-in model'],
  consts=[],
  sources=[
    # --- trivially copyable, sizeof(T) < sizeof(void*)
    dict(id='tc_get_raw', file=F, sig=r'static raw_type get_raw\(value_type& val\)', which=0, c_sig='static raw_type tc_get_raw(tc_value* val_p)',
         subst=REF + STD, types={'void*': 'void*'}, pre_subst=[(r'\bsizeof\(value_type\)', 'sizeof(tc_value)', 'sizeof')], must_fire={'subst:memcpy': 1, 'subst:ref_param': 1}),
    dict(id='tc_release', file=F, sig=r'static void release\(value_type&\)', which=0, c_sig='static void tc_release(tc_value* val_p)', must_fire={}),
    dict(id='tc_store', file=F, sig=r'static void store\(value_type& target, raw_type val\)', which=0, c_sig='static void tc_store(tc_value* target_p, raw_type val)',
         subst=TGT + STD, pre_subst=[(r'\bsizeof\(value_type\)', 'sizeof(tc_value)', 'sizeof')], must_fire={'subst:memcpy': 1, 'subst:ref_param': 1}),
    dict(id='tc_get', file=F, sig=r'static std::optional<value_type> get\(raw_type val\)', which=0, c_sig='static tc_opt tc_get(raw_type val)',
         pre_subst=[(r'\bvalue_type res;', 'tc_value res;', 'local_decl'), (r'\breturn res;', 'return TC_SOME(res);', 'optional_conv')],
         calls={'store': 'tc_store_ref'}, dflt='TC_NONE', must_fire={'call:store': 1, 'subst:optional_conv': 1}),
    dict(id='tc_delete_value', file=F, sig=r'static void delete_value\(raw_type\)', which=0, c_sig='static void tc_delete_value(raw_type unnamed)', must_fire={}),
    # --- raw pointer T*
    dict(id='rp_get_raw', file=F, sig=r'static raw_type get_raw\(T\* val\)', c_sig='static raw_type rp_get_raw(raw_type val)', must_fire={}),
    dict(id='rp_release', file=F, sig=r'static void release\(value_type\)', c_sig='static void rp_release(raw_type unnamed)', must_fire={}),
    dict(id='rp_store', file=F, sig=r'static void store\(value_type& target, raw_type val\)', which=1, c_sig='static void rp_store(raw_type* target_p, raw_type val)',
         subst=TGT, must_fire={'subst:ref_param': 1}),
    dict(id='rp_get', file=F, sig=r'static std::optional<value_type> get\(raw_type val\)', which=1, c_sig='static rp_opt rp_get(raw_type val)',
         pre_subst=[(r'\breturn val;', 'return RP_SOME(val);', 'optional_conv')], dflt='RP_NONE', must_fire={'subst:optional_conv': 1}),
    dict(id='rp_delete_value', file=F, sig=r'static void delete_value\(raw_type\)', which=1, c_sig='static void rp_delete_value(raw_type unnamed)', must_fire={}),
    # --- std::unique_ptr<T>
    dict(id='up_get_raw', file=F, sig=r'static raw_type get_raw\(value_type& val\)', which=1, c_sig='static raw_type up_get_raw(up_t* val_p)',
         subst=REF, methods=UPM, must_fire={'method:get': 1, 'subst:ref_param': 1}),
    dict(id='up_release', file=F, sig=r'static void release\(value_type& val\)', c_sig='static void up_release(up_t* val_p)',
         subst=REF + STD, methods=UPM, must_fire={'method:release': 1, 'subst:ref_param': 1, 'subst:ignore': 1}),
    dict(id='up_store', file=F, sig=r'static void store\(value_type& target, raw_type val\)', which=2, c_sig='static void up_store(up_t* target_p, raw_type val)',
         subst=TGT, methods=UPM, must_fire={'method:reset': 1, 'subst:ref_param': 1}),
    dict(id='up_get', file=F, sig=r'static std::optional<value_type> get\(raw_type val\)', which=2, c_sig='static up_opt up_get(raw_type val)',
         pre_subst=[(r'\breturn value_type\((\w+)\);', r'return UP_SOME(UP_ctor(\1));', 'optional_conv')], dflt='UP_NONE', must_fire={'subst:optional_conv': 1}),
    dict(id='up_delete_value', file=F, sig=r'static void delete_value\(raw_type v\)', c_sig='static void up_delete_value(raw_type v)',
         pre_subst=[(r'std::unique_ptr<T> (\w+)\{(\w+)\};', r'UP_SCOPED(\1, \2);', 'scoped_unique_ptr')], must_fire={'subst:scoped_unique_ptr': 1}),
  ],
  runs=[dict(id='tc%d' % n, entry='h_tc', defs={'XV_TSIZE': n}, cls='shape-complete', note='sizeof(T) = %d, all byte values' % n) for n in (1, 2, 3, 4, 7)] + [
    dict(id='rp', entry='h_rp', cls='unbounded'),
    dict(id='up_get_raw', entry='h_up_get_raw', cls='unbounded'),
    dict(id='up_release', entry='h_up_release', cls='unbounded'),
    dict(id='up_store', entry='h_up_store', cls='unbounded'),
    dict(id='up_get', entry='h_up_get', cls='unbounded'),
    dict(id='up_delete_value', entry='h_up_delete_value', cls='unbounded'),
  ],
  obligations={
    'pqt.tc.roundtrip': dict(deciding=True, text='trivially copyable T: get(get_raw(v)) and store(t, get_raw(v)) reproduce v byte for byte; get_raw does not modify v'),
    'pqt.tc.raw_fits': dict(deciding=True, text='trivially copyable T: get_raw(v) uses only the low 8*sizeof(T) <= 56 bits, so the mark bit 63 of marked_value stays free'),
    'pqt.tc.no_ownership': dict(deciding=True, text='trivially copyable T: release and delete_value have no effect'),
    'pqt.rp.identity': dict(deciding=True, text='raw pointer: get_raw, store and get pass the pointer through unchanged; release and delete_value destroy nothing (the queue never owns the pointee)'),
    'pqt.up.get_raw_observes': dict(deciding=True, text='unique_ptr: get_raw returns the pointee, the unique_ptr still owns it, nothing destroyed'),
    'pqt.up.release_transfers': dict(deciding=True, text='unique_ptr: release leaves the caller object empty without destroying the pointee (ownership is now with whoever holds the raw value)'),
    'pqt.up.store_owns': dict(deciding=True, text='unique_ptr: store(target, raw) makes target the owner of raw; the previous pointee of target is destroyed exactly once, raw is not destroyed'),
    'pqt.up.get_one_owner': dict(deciding=True, text='unique_ptr: get(raw) returns an engaged optional holding exactly one unique_ptr that owns raw; nothing destroyed'),
    'pqt.up.delete_once': dict(deciding=True, text='unique_ptr: delete_value(raw) destroys the pointee exactly once; delete_value(nullptr) destroys nothing'),
  },
  canaries=['rp.reached', 'tc.nonzero', 'tc.zero_value_is_null', 'up_delete_value.null', 'up_delete_value.value', 'up_get.reached', 'up_get_raw.empty', 'up_get_raw.owning', 'up_release.reached', 'up_store.into_empty', 'up_store.replaces'],
)
