import os, re
IMPL = 'xenium/reclamation/impl/generic_epoch_based.hpp'
DECL = 'xenium/reclamation/generic_epoch_based.hpp'

# ---------------------------------------------------------------- guard_ptr / region_guard (protect side)
GM = {'enter_critical': 'TD_enter_critical', 'leave_critical': 'TD_leave_critical', 'add_retired_node': 'TD_add_retired_node',
      'enter_region': 'TD_enter_region', 'leave_region': 'TD_leave_region', 'reset': 'MP_reset', 'get': 'MP_get',
      'set_deleter': 'OBJ_set_deleter'}
GREF = [(r'\bp\.ptr\b', 'p->ptr', 'guard_ref')]                       # const guard_ptr& p / guard_ptr&& p  -> pointer parameter
GRET = [(r'return \(\*self\);', 'return self;', 'return_self'), (r'&p == self', 'p == self', 'addr_of_ref')]
GP = r'generic_epoch_based<Traits>::guard_ptr<T, MarkedPtr>::'
def G(**kw):
    d = dict(file=IMPL, methods=GM, self_calls={'reset': 'g_reset'}); d.update(kw); return d

# ---------------------------------------------------------------- thread_data (both sides)
TDM = ['critical_entries_since_update', 'nested_critical_entries', 'region_entries', 'scan_strategy', 'control_block',
       'local_epoch_idx', 'retire_lists']
TDSUB = [(r'Traits::region_extension_type', 'XV_REGION_EXT', 'traits_region_extension'),
         (r'region_extension::(\w+)', r'RE_\1', 'region_extension_enum'),
         (r'Traits::scan_frequency', 'XV_SCAN_FREQ', 'traits_scan_frequency'),
         (r'Traits::abandon_strategy::apply', 'ABANDON_apply', 'traits_abandon'),
         (r'detail::delete_objects', 'DELETE_OBJECTS', 'delete_objects'),
         (r'\bconstexpr\b', 'const', 'constexpr'),
         (r'std::min<int>', 'XV_MIN_INT', 'min_int')]
TDMETH = {'empty': 'RL_empty', 'steal': 'RL_steal', 'push': 'RL_push', 'size': 'RL_size', 'add': 'OL_add', 'adopt': 'OL_adopt',
          'release_entry': 'TBL_release_entry', 'acquire_entry': 'TBL_acquire_entry', 'scan': 'SCAN_scan', 'reset': 'SCAN_reset',
          'begin': 'TBL_begin', 'end': 'TBL_end'}
TDCALLS = {n: 'td_' + n for n in ['enter_region', 'leave_region', 'enter_critical', 'leave_critical', 'ensure_has_control_block',
                                   'acquire_control_block', 'set_critical_region_flag', 'clear_critical_region_flag', 'do_enter_critical',
                                   'update_local_epoch', 'update_global_epoch', 'add_retired_node', 'reclaim_orphans', 'adopt_orphans']}
def TD(**kw):
    d = dict(file=IMPL, members=TDM, subst=TDSUB, methods=TDMETH, self_calls=TDCALLS); d.update(kw); return d

def _repo_text():
    p = os.path.join(os.environ.get('XV_REPO', '/repo'), IMPL)
    return open(p, newline='').read() if os.path.exists(p) else ''
REPAIRED = 'adopt_orphans' in _repo_text()      # the repaired tree (fix_orphans.diff) splits reclaim_orphans; both texts are handled

ABSUB = [(r'\bretire_list\b', '(*retire_list_p)', 'list_ref'), (r'\borphans\b', '(*orphans_p)', 'orphans_ref'), (r'\bThreshold\b', 'XV_THRESHOLD', 'threshold')]

SOURCES = [
    # ---- region_guard, guard_ptr
    G(id='rg_ctor', sig=r'generic_epoch_based<Traits>::region_guard::region_guard\(\) noexcept', c_sig='static void rg_ctor(void)',
      must_fire={'method:enter_region': 1}),
    G(id='rg_dtor', sig=r'generic_epoch_based<Traits>::region_guard::~region_guard\(\) noexcept', c_sig='static void rg_dtor(void)',
      must_fire={'method:leave_region': 1}),
    G(id='g_ctor', sig=GP + r'guard_ptr\(const MarkedPtr& p\) noexcept', c_sig='static void g_ctor(struct guard* self, mptr p)', ctor=True,
      must_fire={'ctor_init': 1, 'method:enter_critical': 1}),
    G(id='g_copy', sig=GP + r'guard_ptr\(const guard_ptr& p\) noexcept', c_sig='static void g_copy(struct guard* self, const struct guard* p)', ctor=True,
      must_fire={'ctor_init': 1}),
    G(id='g_move', sig=GP + r'guard_ptr\(guard_ptr&& p\) noexcept', c_sig='static void g_move(struct guard* self, struct guard* p)', ctor=True,
      post_subst=GREF, must_fire={'ctor_init': 1, 'method:reset': 1, 'subst:guard_ref': 2}),
    G(id='g_reset', sig=GP + r'reset\(\) noexcept', c_sig='static void g_reset(struct guard* self)',
      must_fire={'method:leave_critical': 1, 'method:reset': 1}),
    G(id='g_assign_copy', sig=GP + r'operator=\(const guard_ptr& p\) noexcept -> guard_ptr&',
      c_sig='static struct guard* g_assign_copy(struct guard* self, const struct guard* p)', post_subst=GREF + GRET,
      must_fire={'self_call:reset': 1, 'method:enter_critical': 1, 'subst:guard_ref': 1, 'subst:return_self': 2, 'subst:addr_of_ref': 1}),
    G(id='g_assign_move', sig=GP + r'operator=\(guard_ptr&& p\) noexcept -> guard_ptr&',
      c_sig='static struct guard* g_assign_move(struct guard* self, struct guard* p)', post_subst=GREF + GRET,
      must_fire={'self_call:reset': 1, 'method:reset': 1, 'subst:guard_ref': 2, 'subst:return_self': 2, 'subst:addr_of_ref': 1}),
    G(id='g_acquire', sig=GP + r'acquire\(const concurrent_ptr<T>& p,\s*std::memory_order order\) noexcept',
      c_sig='static void g_acquire(struct guard* self, mptr* p_p, int order)', subst=[(r'\bp\b', '(*p_p)', 'src_ref')],
      must_fire={'A_LOAD': 2, 'self_call:reset': 1, 'method:enter_critical': 1, 'method:leave_critical': 1, 'subst:src_ref': 2}),
    G(id='g_acquire_if_equal', sig=GP + r'acquire_if_equal\(const concurrent_ptr<T>& p,\s*const MarkedPtr& expected,\s*std::memory_order order\) noexcept',
      c_sig='static _Bool g_acquire_if_equal(struct guard* self, mptr* p_p, mptr expected, int order)', subst=[(r'\bp\b', '(*p_p)', 'src_ref')],
      must_fire={'A_LOAD': 2, 'self_call:reset': 1, 'method:enter_critical': 1, 'method:leave_critical': 1, 'method:reset': 1, 'subst:src_ref': 2}),
    G(id='g_reclaim', sig=GP + r'reclaim\(Deleter d\) noexcept', c_sig='static void g_reclaim(struct guard* self, deleter_t d)',
      deref={'this->ptr': 'GDEREF'},
      must_fire={'method:set_deleter': 1, 'method:add_retired_node': 1, 'method:get': 1, 'self_call:reset': 1}),
    # ---- thread_data
    TD(id='td_dtor', sig=r'~thread_data\(\)', c_sig='static void td_dtor(struct td* self)',
       must_fire={'method:empty': 1, 'method:add': 1, 'method:steal': 1, 'method:release_entry': 1, 'A_LOAD': 1}),
    TD(id='enter_region', sig=r'void enter_region\(\)', c_sig='static void td_enter_region(struct td* self)',
       must_fire={'self_call:ensure_has_control_block': 1, 'self_call:set_critical_region_flag': 1, 'subst:traits_region_extension': 2}),
    TD(id='leave_region', sig=r'void leave_region\(\)', c_sig='static void td_leave_region(struct td* self)',
       must_fire={'self_call:clear_critical_region_flag': 1, 'subst:traits_region_extension': 1}),
    TD(id='enter_critical', sig=r'void enter_critical\(\)', c_sig='static void td_enter_critical(struct td* self)',
       must_fire={'self_call:enter_region': 1, 'self_call:do_enter_critical': 1}),
    TD(id='leave_critical', sig=r'void leave_critical\(\)', c_sig='static void td_leave_critical(struct td* self)',
       must_fire={'self_call:clear_critical_region_flag': 1, 'self_call:leave_region': 1, 'subst:traits_region_extension': 1}),
    TD(id='ensure_has_control_block', sig=r'void ensure_has_control_block\(\)', c_sig='static void td_ensure_has_control_block(struct td* self)',
       must_fire={'self_call:acquire_control_block': 1}),
    TD(id='acquire_control_block', sig=r'XENIUM_NOINLINE void acquire_control_block\(\)', c_sig='static void td_acquire_control_block(struct td* self)',
       must_fire={'method:acquire_entry': 1, 'A_LOAD': 2, 'A_STORE': 1, 'method:reset': 1}),
    TD(id='set_critical_region_flag', sig=r'void set_critical_region_flag\(\)', c_sig='static void td_set_critical_region_flag(struct td* self)',
       must_fire={'A_STORE': 1, 'A_LOAD': 1}),
    TD(id='clear_critical_region_flag', sig=r'void clear_critical_region_flag\(\)', c_sig='static void td_clear_critical_region_flag(struct td* self)',
       must_fire={'A_STORE': 1, 'A_LOAD': 1, 'subst:traits_abandon': 1}),
    TD(id='do_enter_critical', sig=r'void do_enter_critical\(\)', c_sig='static void td_do_enter_critical(struct td* self)',
       must_fire={'A_LOAD': 4, 'self_call:set_critical_region_flag': 2, 'self_call:update_local_epoch': 2, 'self_call:update_global_epoch': 1,
                  'method:scan': 1, 'subst:traits_scan_frequency': 1, 'subst:traits_region_extension': 2}),
    TD(id='update_local_epoch', sig=r'void update_local_epoch\(epoch_t new_epoch\)', c_sig='static void td_update_local_epoch(struct td* self, epoch_t new_epoch)',
       must_fire={'A_LOAD': 1, 'A_STORE': 1, 'method:steal': 1, 'subst:delete_objects': 1, 'subst:min_int': 1, 'method:reset': 1}),
    TD(id='update_global_epoch', sig=r'epoch_t update_global_epoch\(epoch_t curr_epoch, epoch_t new_epoch\)',
       c_sig='static epoch_t td_update_global_epoch(struct td* self, epoch_t curr_epoch, epoch_t new_epoch)',
       must_fire={'A_LOAD': 1, 'A_CAS': 1, 'A_FENCE': 1}),
    TD(id='add_retired_node', sig=r'void add_retired_node\(detail::deletable_object\* p\)', c_sig='static void td_add_retired_node(struct td* self, chain_t p)',
       must_fire={'method:push': 1}),
    # ---- abandon strategies
    dict(id='abandon_never', file=IMPL, sig=r'static void apply\(retire_list&, detail::orphan_list<>&\)',
         c_sig='static void abandon_never_apply(struct rlist* retire_list_p, struct olist* orphans_p)', must_fire={}),
    dict(id='abandon_always', file=IMPL, sig=r'static void apply\(retire_list& retire_list, detail::orphan_list<>& orphans\)', which=0,
         c_sig='static void abandon_always_apply(struct rlist* retire_list_p, struct olist* orphans_p)', subst=ABSUB, methods=TDMETH,
         must_fire={'method:empty': 1, 'method:add': 1, 'method:steal': 1}),
    dict(id='abandon_threshold', file=IMPL, sig=r'static void apply\(retire_list& retire_list, detail::orphan_list<>& orphans\)', which=1,
         c_sig='static void abandon_threshold_apply(struct rlist* retire_list_p, struct olist* orphans_p)', subst=ABSUB, methods=TDMETH,
         must_fire={'method:size': 1, 'method:add': 1, 'method:steal': 1, 'subst:threshold': 1}),
    # ---- scan strategies
    dict(id='scan_all_pred', file=IMPL, sig=r'auto prevents_update = \[epoch\]\(const typename Reclaimer::thread_control_block& data\) -> bool',
         c_sig='static _Bool scan_all_prevents_update(epoch_t epoch, struct tcb* data_p)',
         subst=[(r'\bdata\b', '(*data_p)', 'data_ref'), (r'\bconstexpr\b', 'const', 'constexpr')], must_fire={'A_LOAD': 2, 'subst:data_ref': 2}),
    dict(id='scan_all', file=IMPL, sig=r'bool scan\(typename Reclaimer::epoch_t epoch\)', which=0,
         c_sig='static _Bool scan_all_scan(struct scan_all* self, epoch_t epoch)',
         pre_subst=[(r'auto prevents_update = \[epoch\].*?\};', '', 'lambda_definition')],      # the lambda body is source scan_all_pred
         subst=[(r'std::any_of', 'XV_ANY_OF', 'any_of'), (r'Reclaimer::', '', 'reclaimer')], methods=TDMETH,
         must_fire={'subst:lambda_definition': 1, 'subst:any_of': 1, 'method:begin': 1, 'method:end': 1}),
    dict(id='scan_n', file=IMPL, sig=r'bool scan\(typename Reclaimer::epoch_t epoch\)', which=1,
         c_sig='static _Bool scan_n_scan(struct scan_n* self, epoch_t epoch)', members=['thread_iterator'],
         subst=[(r'\+\+thread_iterator', 'IT_INC(thread_iterator)', 'iterator_inc'), (r'Reclaimer::', '', 'reclaimer'), (r'\bN\b', 'XV_SCAN_N', 'N'),
                (r'\bconstexpr\b', 'const', 'constexpr')], methods=TDMETH,
         must_fire={'A_LOAD': 2, 'subst:iterator_inc': 1, 'method:end': 1, 'subst:N': 1}),
    dict(id='scan_n_reset', file=IMPL, sig=r'void reset\(\)', which=1, c_sig='static void scan_n_reset(struct scan_n* self)', members=['thread_iterator'],
         subst=[(r'Reclaimer::', '', 'reclaimer')], methods=TDMETH, must_fire={'method:begin': 1}),
    dict(id='scan_all_reset', file=IMPL, sig=r'void reset\(\)', which=0, c_sig='static void scan_all_reset(struct scan_all* self)', must_fire={}),
]
if REPAIRED:
    SOURCES.append(TD(id='adopt_orphans', sig=r'detail::retired_nodes<> adopt_orphans\(epoch_t epoch\)',
                      c_sig='static struct rnodes td_adopt_orphans(struct td* self, epoch_t epoch)', dflt='xv_no_nodes',
                      must_fire={'method:adopt': 1}))
else:
    SOURCES.append(TD(id='reclaim_orphans', sig=r'void reclaim_orphans\(epoch_t epoch\)', c_sig='static void td_reclaim_orphans(struct td* self, epoch_t epoch)',
                      must_fire={'method:adopt': 1, 'subst:delete_objects': 1}))

UNIT = dict(
  title='generic_epoch_based (epoch_based / new_epoch_based / debra): guard_ptr, region_guard, thread_data, scan and abandon strategies (C01, C02, C17)',
  properties=['C01', 'C02', 'C17'],
  drops='',
  assumptions=[],
  consts=[dict(name='number_epochs', file=DECL, regex=r'static constexpr epoch_t number_epochs = ([^;]+);', subst=[(r'^(.*)$', r'(epoch_t)\1')])],
  sources=SOURCES,
  runs=[],
  obligations={},
  canaries=[],
)
