import os, re
IMPL = 'xenium/reclamation/impl/generic_epoch_based.hpp'
DECL = 'xenium/reclamation/generic_epoch_based.hpp'

# ---------------------------------------------------------------- guard_ptr / region_guard (protect side)
GM = {'enter_critical': 'TD_enter_critical', 'leave_critical': 'TD_leave_critical', 'add_retired_node': 'TD_add_retired_node',
      'enter_region': 'TD_enter_region', 'leave_region': 'TD_leave_region', 'reset': 'MP_reset', 'get': 'MP_get',
      'set_deleter': 'OBJ_set_deleter'}
GREF = [(r'\bp\.ptr\b', 'p->ptr', 'guard_ref')]                       # const guard_ptr& p / guard_ptr&& p  -> pointer parameter
GRET = [(r'return \(\*self\);', 'return self;', 'return_self'), (r'&p == self', 'p == self', 'addr_of_ref')]
GP = r'generic_epoch_based<Traits>::guard_ptr<T, MarkedPtr>::'
def G(**kw):
    d = dict(file=IMPL, methods=GM, self_calls={'reset': 'g_reset'}); d.update(kw); return d

# ---------------------------------------------------------------- thread_data (both sides)
TDM = ['critical_entries_since_update', 'nested_critical_entries', 'region_entries', 'scan_strategy', 'control_block',
       'local_epoch_idx', 'retire_lists']
TDSUB = [(r'Traits::region_extension_type', 'XV_REGION_EXT', 'traits_region_extension'),
         (r'region_extension::(\w+)', r'RE_\1', 'region_extension_enum'),
         (r'Traits::scan_frequency', 'XV_SCAN_FREQ', 'traits_scan_frequency'),
         (r'Traits::abandon_strategy::apply', 'ABANDON_apply', 'traits_abandon'),
         (r'detail::delete_objects', 'DELETE_OBJECTS', 'delete_objects'),
         (r'\bconstexpr\b', 'const', 'constexpr'),
         (r'std::min<int>', 'XV_MIN_INT', 'min_int'), (r'std::min<epoch_t>', 'XV_MIN_EPOCH', 'min_epoch'),
         (r'(\((?:[^()]|\([^()]*\))*\)|\b\w+) % number_epochs', r'XV_MOD_NE(\1)', 'mod_number_epochs')]
TDMETH = {'empty': 'RL_empty', 'steal': 'RL_steal', 'push': 'RL_push', 'size': 'RL_size', 'add': 'OL_add', 'adopt': 'OL_adopt',
          'release_entry': 'TBL_release_entry', 'acquire_entry': 'TBL_acquire_entry', 'scan': 'SCAN_scan', 'reset': 'SCAN_reset',
          'begin': 'TBL_begin', 'end': 'TBL_end'}
TDCALLS = {n: 'td_' + n for n in ['enter_region', 'leave_region', 'enter_critical', 'leave_critical', 'ensure_has_control_block',
                                   'acquire_control_block', 'set_critical_region_flag', 'clear_critical_region_flag', 'do_enter_critical',
                                   'update_local_epoch', 'update_global_epoch', 'add_retired_node', 'reclaim_orphans', 'adopt_orphans']}
def TD(**kw):
    d = dict(file=IMPL, members=TDM, subst=TDSUB, methods=TDMETH, self_calls=TDCALLS); d.update(kw); return d

def _repo_text():
    p = os.path.join(os.environ.get('XV_REPO', '/repo'), IMPL)
    return open(p, newline='').read() if os.path.exists(p) else ''
_T = _repo_text()
# the unit handles the current text and the repaired texts (fix_*.diff): the repairs change which rules fire
FIX_ORPHANS = 'adopt_orphans' in _T                  # fix_orphans.diff: reclaim_orphans becomes adopt_orphans, called before the CAS
FIX_DISTANCE = 'std::min<epoch_t>' in _T             # fix_epoch_distance.diff
FIX_LAZY = _T.count('region_extension::lazy') > 1    # fix_lazy_region.diff: leave_region tests the flag for region_extension::lazy

ABSUB = [(r'\bretire_list\b', '(*retire_list_p)', 'list_ref'), (r'\borphans\b', '(*orphans_p)', 'orphans_ref'), (r'\bThreshold\b', 'XV_THRESHOLD', 'threshold')]

SOURCES = [
    # ---- region_guard, guard_ptr
    G(id='rg_ctor', sig=r'generic_epoch_based<Traits>::region_guard::region_guard\(\) noexcept', c_sig='static void rg_ctor(void)',
      must_fire={'method:enter_region': 1}),
    G(id='rg_dtor', sig=r'generic_epoch_based<Traits>::region_guard::~region_guard\(\) noexcept', c_sig='static void rg_dtor(void)',
      must_fire={'method:leave_region': 1}),
    G(id='g_ctor', sig=GP + r'guard_ptr\(const MarkedPtr& p\) noexcept', c_sig='static void g_ctor(struct guard* self, mptr p)', ctor=True,
      must_fire={'ctor_init': 1, 'method:enter_critical': 1}),
    G(id='g_copy', sig=GP + r'guard_ptr\(const guard_ptr& p\) noexcept', c_sig='static void g_copy(struct guard* self, const struct guard* p)', ctor=True,
      must_fire={'ctor_init': 1}),
    G(id='g_move', sig=GP + r'guard_ptr\(guard_ptr&& p\) noexcept', c_sig='static void g_move(struct guard* self, struct guard* p)', ctor=True,
      post_subst=GREF, must_fire={'ctor_init': 1, 'method:reset': 1, 'subst:guard_ref': 2}),
    G(id='g_reset', sig=GP + r'reset\(\) noexcept', c_sig='static void g_reset(struct guard* self)',
      must_fire={'method:leave_critical': 1, 'method:reset': 1}),
    G(id='g_assign_copy', sig=GP + r'operator=\(const guard_ptr& p\) noexcept -> guard_ptr&',
      c_sig='static struct guard* g_assign_copy(struct guard* self, const struct guard* p)', post_subst=GREF + GRET,
      must_fire={'self_call:reset': 1, 'method:enter_critical': 1, 'subst:guard_ref': 1, 'subst:return_self': 2, 'subst:addr_of_ref': 1}),
    G(id='g_assign_move', sig=GP + r'operator=\(guard_ptr&& p\) noexcept -> guard_ptr&',
      c_sig='static struct guard* g_assign_move(struct guard* self, struct guard* p)', post_subst=GREF + GRET,
      must_fire={'self_call:reset': 1, 'method:reset': 1, 'subst:guard_ref': 2, 'subst:return_self': 2, 'subst:addr_of_ref': 1}),
    G(id='g_acquire', sig=GP + r'acquire\(const concurrent_ptr<T>& p,\s*std::memory_order order\) noexcept',
      c_sig='static void g_acquire(struct guard* self, mptr* p_p, int order)', subst=[(r'\bp\b', '(*p_p)', 'src_ref')],
      must_fire={'A_LOAD': 2, 'self_call:reset': 1, 'method:enter_critical': 1, 'method:leave_critical': 1, 'subst:src_ref': 2}),
    G(id='g_acquire_if_equal', sig=GP + r'acquire_if_equal\(const concurrent_ptr<T>& p,\s*const MarkedPtr& expected,\s*std::memory_order order\) noexcept',
      c_sig='static _Bool g_acquire_if_equal(struct guard* self, mptr* p_p, mptr expected, int order)', subst=[(r'\bp\b', '(*p_p)', 'src_ref')],
      must_fire={'A_LOAD': 2, 'self_call:reset': 1, 'method:enter_critical': 1, 'method:leave_critical': 1, 'method:reset': 1, 'subst:src_ref': 2}),
    G(id='g_reclaim', sig=GP + r'reclaim\(Deleter d\) noexcept', c_sig='static void g_reclaim(struct guard* self, deleter_t d)',
      deref={'this->ptr': 'GDEREF'},
      must_fire={'method:set_deleter': 1, 'method:add_retired_node': 1, 'method:get': 1, 'self_call:reset': 1}),
    dict(id='g_dtor', file='xenium/reclamation/detail/guard_ptr.hpp', sig=r'~guard_ptr\(\)', c_sig='static void g_dtor(struct guard* self)',
         pre_subst=[(r'self\(\)\.reset\(\)', 'g_reset(self)', 'crtp_self_reset')], must_fire={'subst:crtp_self_reset': 1}),   # CRTP: Derived::reset
    # ---- thread_data
    TD(id='td_dtor', sig=r'~thread_data\(\)', c_sig='static void td_dtor(struct td* self)',
       must_fire={'method:empty': 1, 'method:add': 1, 'method:steal': 1, 'method:release_entry': 1, 'A_LOAD': 1}),
    TD(id='enter_region', sig=r'void enter_region\(\)', c_sig='static void td_enter_region(struct td* self)',
       must_fire={'self_call:ensure_has_control_block': 1, 'self_call:set_critical_region_flag': 1, 'subst:traits_region_extension': 2}),
    TD(id='leave_region', sig=r'void leave_region\(\)', c_sig='static void td_leave_region(struct td* self)',
       must_fire={'self_call:clear_critical_region_flag': 1, 'subst:traits_region_extension': 2 if FIX_LAZY else 1, 'A_LOAD': 1 if FIX_LAZY else 0}),
    TD(id='enter_critical', sig=r'void enter_critical\(\)', c_sig='static void td_enter_critical(struct td* self)',
       self_calls=dict(TDCALLS, do_enter_critical='CALL_do_enter_critical'),
       must_fire={'self_call:enter_region': 1, 'self_call:do_enter_critical': 1}),
    TD(id='leave_critical', sig=r'void leave_critical\(\)', c_sig='static void td_leave_critical(struct td* self)',
       must_fire={'self_call:clear_critical_region_flag': 1, 'self_call:leave_region': 1, 'subst:traits_region_extension': 1}),
    TD(id='ensure_has_control_block', sig=r'void ensure_has_control_block\(\)', c_sig='static void td_ensure_has_control_block(struct td* self)',
       must_fire={'self_call:acquire_control_block': 1}),
    TD(id='acquire_control_block', sig=r'XENIUM_NOINLINE void acquire_control_block\(\)', c_sig='static void td_acquire_control_block(struct td* self)',
       must_fire={'method:acquire_entry': 1, 'A_LOAD': 2, 'A_STORE': 1, 'method:reset': 1, 'subst:mod_number_epochs': 1}),
    TD(id='set_critical_region_flag', sig=r'void set_critical_region_flag\(\)', c_sig='static void td_set_critical_region_flag(struct td* self)',
       must_fire={'A_STORE': 1, 'A_LOAD': 1}),
    TD(id='clear_critical_region_flag', sig=r'void clear_critical_region_flag\(\)', c_sig='static void td_clear_critical_region_flag(struct td* self)',
       must_fire={'A_STORE': 1, 'A_LOAD': 1, 'subst:traits_abandon': 1}),
    TD(id='do_enter_critical', sig=r'void do_enter_critical\(\)', c_sig='static void td_do_enter_critical(struct td* self)',
       self_calls=dict(TDCALLS, update_local_epoch='CALL_update_local_epoch', update_global_epoch='CALL_update_global_epoch'),
       must_fire={'A_LOAD': 4, 'self_call:set_critical_region_flag': 2, 'self_call:update_local_epoch': 2, 'self_call:update_global_epoch': 1,
                  'method:scan': 1, 'subst:traits_scan_frequency': 1, 'subst:traits_region_extension': 2}),
    TD(id='update_local_epoch', sig=r'void update_local_epoch\(epoch_t new_epoch\)', c_sig='static void td_update_local_epoch(struct td* self, epoch_t new_epoch)',
       must_fire={'A_LOAD': 1, 'A_STORE': 1, 'method:steal': 1, 'subst:delete_objects': 1, ('subst:min_epoch' if FIX_DISTANCE else 'subst:min_int'): 1, 'method:reset': 1, 'subst:mod_number_epochs': 1}),
    TD(id='update_global_epoch', sig=r'epoch_t update_global_epoch\(epoch_t curr_epoch, epoch_t new_epoch\)',
       c_sig='static epoch_t td_update_global_epoch(struct td* self, epoch_t curr_epoch, epoch_t new_epoch)',
       must_fire={'A_LOAD': 1, 'A_CAS': 1, 'A_FENCE': 1}),
    TD(id='add_retired_node', sig=r'void add_retired_node\(detail::deletable_object\* p\)', c_sig='static void td_add_retired_node(struct td* self, chain_t p)',
       must_fire={'method:push': 1}),
    # ---- abandon strategies
    dict(id='abandon_never', file=IMPL, sig=r'static void apply\(retire_list&, detail::orphan_list<>&\)',
         c_sig='static void abandon_never_apply(struct rlist* retire_list_p, struct olist* orphans_p)', must_fire={}),
    dict(id='abandon_always', file=IMPL, sig=r'static void apply\(retire_list& retire_list, detail::orphan_list<>& orphans\)', which=0,
         c_sig='static void abandon_always_apply(struct rlist* retire_list_p, struct olist* orphans_p)', subst=ABSUB, methods=TDMETH,
         must_fire={'method:empty': 1, 'method:add': 1, 'method:steal': 1}),
    dict(id='abandon_threshold', file=IMPL, sig=r'static void apply\(retire_list& retire_list, detail::orphan_list<>& orphans\)', which=1,
         c_sig='static void abandon_threshold_apply(struct rlist* retire_list_p, struct olist* orphans_p)', subst=ABSUB, methods=TDMETH,
         must_fire={'method:size': 1, 'method:add': 1, 'method:steal': 1, 'subst:threshold': 1}),
    # ---- scan strategies
    dict(id='scan_all_pred', file=IMPL, sig=r'auto prevents_update = \[epoch\]\(const typename Reclaimer::thread_control_block& data\) -> bool',
         c_sig='static _Bool scan_all_prevents_update(epoch_t epoch, struct tcb* data_p)',
         subst=[(r'\bdata\b', '(*data_p)', 'data_ref'), (r'\bconstexpr\b', 'const', 'constexpr')], must_fire={'A_LOAD': 2, 'subst:data_ref': 2}),
    dict(id='scan_all', file=IMPL, sig=r'bool scan\(typename Reclaimer::epoch_t epoch\)', which=0,
         c_sig='static _Bool scan_all_scan(struct scan_all* self, epoch_t epoch)',
         pre_subst=[(r'auto prevents_update = \[epoch\].*?\};', '', 'lambda_definition')],      # the lambda body is source scan_all_pred
         subst=[(r'std::any_of', 'XV_ANY_OF', 'any_of'), (r'Reclaimer::', '', 'reclaimer')], methods=TDMETH,
         must_fire={'subst:lambda_definition': 1, 'subst:any_of': 1, 'method:begin': 1, 'method:end': 1}),
    dict(id='scan_n', file=IMPL, sig=r'bool scan\(typename Reclaimer::epoch_t epoch\)', which=1,
         c_sig='static _Bool scan_n_scan(struct scan_n* self, epoch_t epoch)', members=['thread_iterator'],
         subst=[(r'\+\+thread_iterator', 'IT_INC(thread_iterator)', 'iterator_inc'), (r'Reclaimer::', '', 'reclaimer'), (r'\bN\b', 'XV_SCAN_N', 'N'),
                (r'\bconstexpr\b', 'const', 'constexpr')], methods=TDMETH,
         must_fire={'A_LOAD': 2, 'subst:iterator_inc': 1, 'method:end': 1, 'subst:N': 1}),
    dict(id='scan_n_reset', file=IMPL, sig=r'void reset\(\)', which=1, c_sig='static void scan_n_reset(struct scan_n* self)', members=['thread_iterator'],
         subst=[(r'Reclaimer::', '', 'reclaimer')], methods=TDMETH, must_fire={'method:begin': 1}),
    dict(id='scan_all_reset', file=IMPL, sig=r'void reset\(\)', which=0, c_sig='static void scan_all_reset(struct scan_all* self)', must_fire={}),
]
if FIX_ORPHANS:
    SOURCES.append(TD(id='adopt_orphans', sig=r'detail::retired_nodes<> adopt_orphans\(epoch_t epoch\)',
                      c_sig='static struct rnodes td_adopt_orphans(struct td* self, epoch_t epoch)', dflt='xv_no_nodes',
                      pre_subst=[(r'detail::retired_nodes<> nodes\{([^;]*), nullptr\};', r'struct rnodes nodes = {\1, 0};', 'aggregate_init'),
                                 # the loop that walks the adopted chain to its last node: stub CHAIN_last (a chain is abstracted to its node set)
                                 (r'for \(auto\* p = nodes\.first; p != nullptr; p = p->next\) \{\s*nodes\.last = p;\s*\}', 'nodes.last = CHAIN_last(nodes.first);', 'walk_to_last')],
                      must_fire={'method:adopt': 1, 'subst:aggregate_init': 1, 'subst:walk_to_last': 1, 'subst:mod_number_epochs': 1}))
else:
    SOURCES.append(TD(id='reclaim_orphans', sig=r'void reclaim_orphans\(epoch_t epoch\)', c_sig='static void td_reclaim_orphans(struct td* self, epoch_t epoch)',
                      must_fire={'method:adopt': 1, 'subst:delete_objects': 1, 'subst:mod_number_epochs': 1}))


RE = {'none': 0, 'eager': 1, 'lazy': 2}
AB = {'never': 0, 'always': 1, 'threshold': 2}
SC = {'all': dict(XV_SCAN=0), 'n1': dict(XV_SCAN=1, XV_SCAN_N=1), 'n2': dict(XV_SCAN=1, XV_SCAN_N=2), 'n3': dict(XV_SCAN=1, XV_SCAN_N=3)}
UNW = 4     # every loop of the lowered text and of the harness runs over a shape: number_epochs (3) slots, E <= 3 entries, N <= 3 scan steps
def R(id, entry, mode='SEQ', defs=None, tiers=('quick', 'thorough'), note='', cls='shape-complete', **kw):
    return dict(id=id, entry=entry, mode=mode, defs=defs or {}, tiers=list(tiers), cls=cls, unwind=UNW, note=note, **kw)
RUNS = []
# guard level: no loops, fully symbolic -> unbounded
for op in ['ctor', 'copy', 'move', 'reset', 'dtor', 'assign_copy', 'assign_move', 'reclaim']:
    RUNS.append(R('g_' + op, 'h_g_' + op, cls='unbounded'))
RUNS.append(R('region_guard', 'h_region_guard', cls='unbounded'))
for op in ['acquire', 'acquire_if_equal']:
    RUNS.append(R('g_' + op, 'h_g_' + op, cls='unbounded'))
    RUNS.append(R('g_' + op + '_int', 'h_g_' + op, mode='INT', cls='unbounded', note='other threads store arbitrary values to the source between the loads'))
# thread_data level
for re_, rv in RE.items():
    RUNS.append(R('enter_' + re_, 'h_enter_critical', defs=dict(XV_REGION_EXT=rv, XV_STUB_DO_ENTER=1),
                  note='do_enter_critical by contract (its precondition is checked at the call, ebr.enter.calls_pre)'))
    for sc, sd in SC.items():
        if sc == 'n3': continue
        RUNS.append(R('do_enter_%s_%s' % (re_, sc), 'h_do_enter', mode='INT', defs=dict(sd, XV_REGION_EXT=rv, XV_STUB_UPDATE=1),
                      tiers=('quick', 'thorough') if sc != 'n2' else ('thorough',),
                      note='update_local_epoch / update_global_epoch by their exact contracts; the global epoch grows and the records of other threads change whenever they are read'))
    RUNS.append(R('do_enter_%s_all_seq' % re_, 'h_do_enter', defs=dict(SC['all'], XV_REGION_EXT=rv, XV_STUB_UPDATE=1), tiers=('thorough',)))
    for ab, av in AB.items():
        RUNS.append(R('leave_%s_%s' % (re_, ab), 'h_leave_critical', defs=dict(XV_REGION_EXT=rv, XV_ABANDON=av)))
    RUNS.append(R('enter_region_%s' % re_, 'h_enter_region', defs=dict(XV_REGION_EXT=rv)))
    RUNS.append(R('leave_region_%s' % re_, 'h_leave_region', defs=dict(XV_REGION_EXT=rv, XV_ABANDON=1)))
    RUNS.append(R('leave_region_%s_threshold' % re_, 'h_leave_region', defs=dict(XV_REGION_EXT=rv, XV_ABANDON=2), tiers=('thorough',)))
RUNS.append(R('set_flag', 'h_set_flag'))
RUNS.append(R('mod_lemma', 'h_mod_lemma', cls='unbounded', note='facts about % number_epochs that the ghost remainders of the other runs rely on'))
for sc in ['all', 'n1']:
    RUNS.append(R('update_local_epoch_' + sc, 'h_update_local_epoch', defs=SC[sc], note='all 64-bit old/new epochs with new > old',
                  unwind_obligation='ebr.free.exact'))     # the loop running more than number_epochs times IS a violation of ebr.free.exact
    RUNS.append(R('acquire_cb_' + sc, 'h_acquire_cb', defs=SC[sc]))
RUNS.append(R('acquire_cb_int', 'h_acquire_cb', mode='INT', defs=SC['n1']))
RUNS.append(R('update_global_epoch', 'h_update_global_epoch'))
RUNS.append(R('update_global_epoch_int', 'h_update_global_epoch', mode='INT',
              note='other threads abandon/adopt orphans, advance the epoch (at most to e+1 while this thread is in its critical region at e) and change their records'))
for sc in ['all', 'n1', 'n2', 'n3']:
    RUNS.append(R('scan_' + sc, 'h_scan', defs=SC[sc]))
    RUNS.append(R('scan_%s_int' % sc, 'h_scan', mode='INT', defs=SC[sc], tiers=('quick', 'thorough') if sc in ('all', 'n2') else ('thorough',)))
for re_, rv in RE.items():
    RUNS.append(R('dtor_' + re_, 'h_dtor', defs=dict(XV_REGION_EXT=rv)))
RUNS.append(R('add_retired', 'h_add_retired'))

UNIT = dict(
  title='generic_epoch_based (epoch_based / new_epoch_based / debra): guard_ptr, region_guard, thread_data, scan and abandon strategies (C01, C02, C17)',
  properties=['C01', 'C02', 'C17'],
  drops='templates: Traits::region_extension_type, scan strategy (all_threads / n_threads<N>; one_thread = n_threads<1>), abandon strategy are -D shapes of a run; '
        'Traits::scan_frequency and when_exceeds_threshold<Threshold> are symbolic values; marked_ptr / concurrent_ptr are opaque words; '
        'a chain of deletable_objects is abstracted to the set of its nodes (32 ghost nodes, any distribution over the 3+3 lists - covers L <= 3 and more); '
        'thread_local local_thread_data and the inline static members are C globals; the lambda of all_threads::scan is lowered as a function of its own '
        'and std::any_of is a stub; the thread list is an array of E <= 3 records linked in order; guard level and thread_data level are verified separately '
        '(guard functions against a counting stub of enter_critical/leave_critical/add_retired_node whose contract the thread_data runs prove; '
        'enter_critical with do_enter_critical by contract, do_enter_critical with update_local_epoch/update_global_epoch by their exact contracts - each contract is proved '
        'for the real text by its own run and the precondition is checked at the call site); '
        '`x % number_epochs` is lowered to XV_MOD_NE(x), which looks x up among ghost (value, remainder) anchors +-3: remainders are ghost values constrained only by '
        'facts proved for the real % in run mod_lemma (SAT cannot do the modular reasoning on 64-bit divisions); a value that is not found is reported by ebr.conserve; '
        'repaired tree only: the loop that walks the adopted orphan chain to its last node is the stub CHAIN_last',
  assumptions=[
    'stub retire_list/counting_retire_list push/steal/empty/size: conservation contract (unit rlist)',
    'stub orphan_list add/adopt: add splices the whole chain in, adopt takes everything, both atomic (unit rlist)',
    'stub delete_objects: delete_self on each node of the chain exactly once, argument nulled (unit rlist)',
    'stub thread_block_list acquire_entry/release_entry/begin/end/iterator++: acquire returns an exclusively owned record, new or left over with arbitrary epoch; iteration visits every record (unit tbl)',
    'std::any_of(first, last, pred) is true iff pred holds for some element',
    'a record handed out by acquire_entry has is_in_critical_region == false: new records are constructed so, released records satisfy it by ebr.dtor.releases_record',
    'the 64-bit global epoch does not wrap around (2^64 is not a multiple of number_epochs)',
    'TSAN_MEMORY_ORDER picks the non-TSan order',
    'composition (published EBR argument, not proved here): a thread inside a critical region whose record shows local epoch e has all its guards acquired at global epoch >= e; '
    'every node retired with tag t was unlinked before, so only threads whose critical region began at epoch <= t+1 can still hold it; hence freeing at epoch >= t+3 is safe',
    'INT rely: the global epoch only grows and cannot pass e+1 while this thread is inside a critical region that loaded e; orphans are added by threads whose local epoch is <= the global epoch',
    'thread exit: ~thread_data runs when no guard_ptr / region_guard of the thread is alive',
    'when_exceeds_threshold<0> is excluded (it would pass an empty chain to orphan_list::add)',
  ],
  consts=[dict(name='number_epochs', file=DECL, regex=r'static constexpr epoch_t number_epochs = ([^;]+);', subst=[(r'^(.*)$', r'(epoch_t)\1')])],
  sources=SOURCES,
  runs=RUNS,
  obligations={
    'ebr.enter.flag_then_fence_then_epoch': dict(deciding=True, text='when the in-critical flag is newly set: store(flag,true) precedes a seq_cst fence which precedes an acquire-or-stronger load of the global epoch, and on exit local_epoch is that loaded epoch or the loaded epoch + 1 and never exceeds the global epoch'),
    'ebr.acquire.enter_before_load': dict(deciding=True, text='[INT] acquire / acquire_if_equal: enter_critical precedes the load of the source whose value is kept, and no leave_critical follows it'),
    'ebr.acquire.snapshot': dict(deciding=True, text='[INT] a non-empty result is the value of the last load of the source, loaded with the requested order; acquire_if_equal returns true iff that snapshot equals expected, false leaves the guard empty'),
    'ebr.nesting.balanced': dict(deciding=True, text='every guard / region operation on every path (constructor from marked_ptr, copy/move construction, copy/move assignment, acquire, acquire_if_equal, reset, reclaim, destructor; inputs range over all marked_ptr words, marked null included): nested_critical_entries changes by exactly (guards with bool(ptr) after) - (before), i.e. enter_critical once per null->non-null transition, leave_critical once per non-null->null; the counters move by exactly one; the flag is cleared exactly when the relevant counter reaches 0 (never while a guard is left)'),
    'ebr.copy.shares': dict(deciding=True, text='constructor from a marked_ptr, copy construction and copy assignment (self-assignment included) give the target the source value, leave the source untouched and take one more critical entry iff the value is non-null'),
    'ebr.move.empties_source': dict(deciding=True, text='move construction / move assignment transfer the value and the critical entry, the source becomes empty; self-move is a no-op'),
    'ebr.reclaim.retires_once': dict(deciding=True, text='reclaim(d): set_deleter(d) on the guarded object, then add_retired_node exactly once for that object while still inside the critical region, then the guard is reset'),
    'ebr.leave.release_store': dict(deciding=True, text='sync: the store that clears the in-critical flag is release-or-stronger'),
    'ebr.free.three_epochs': dict(deciding=True, text='a node of a local retire list is passed to delete_objects only if new_epoch - tag >= 3 (tag = local epoch at retirement), for all 64-bit epochs'),
    'ebr.free.exact': dict(deciding=True, text='update_local_epoch frees exactly the lists of the epochs new, new-1, ... new-min(d,number_epochs)+1 (d = new - old) and stores the local epoch once'),
    'ebr.free.index_consistent': dict(deciding=True, text='after update_local_epoch: local_epoch == new_epoch, local_epoch_idx == new_epoch % number_epochs and every kept list i holds only nodes with tag = i (mod number_epochs) not older than number_epochs-1 epochs, for all 64-bit epoch distances'),
    'ebr.retire.slot': dict(deciding=True, text='add_retired_node puts the node into the list of slot local_epoch % number_epochs'),
    'ebr.advance.after_scan': dict(deciding=True, text='CAS(global, e -> e+1) only after a scan for that same e returned true, and scan returns true only if every entry was observed outside a critical region or with local_epoch == e (entries outside a critical region never block)'),
    'ebr.advance.sync': dict(deciding=True, text='sync: an acquire fence separates the scan loads from the CAS on the global epoch; the CAS is release-or-stronger'),
    'ebr.scan.exact': dict(deciding=True, text='all_threads::scan returns true iff no entry is in a critical region at another epoch, and writes nothing'),
    'ebr.scan.prefix_valid': dict(deciding=True, text='n_threads<N>::scan: returns true iff the iterator reached the end; advances by at most N; every entry before the iterator was validated for the current local epoch since the last reset(); reset() on every change of the local epoch'),
    'ebr.orphans.slot': dict(deciding=True, text='abandon strategies and ~thread_data move whole lists into the orphan slot with the same index; an orphan is freed only by the thread whose CAS advanced the epoch to n, after that CAS, and only if n - tag >= 3 - also when other threads abandon nodes concurrently [INT]'),
    'ebr.conserve': dict(deciding=True, text='C02: every function conserves the multiset of retired nodes (lists after + deleted now = lists before), no node in two lists, none deleted twice; frames: nothing else is written'),
    'ebr.dtor.hands_over_all': dict(deciding=True, text='~thread_data leaves all retire lists of the thread empty, deletes nothing, and every node is in the orphan slot of its list index'),
    'ebr.dtor.releases_record': dict(deciding=True, text='C17: ~thread_data releases the record exactly once with is_in_critical_region == false, so it never blocks a scan'),
    'ebr.adopt.reinit': dict(deciding=True, text='C17: acquire_control_block on an arbitrary left-over record: local_epoch == a freshly loaded global epoch, local_epoch_idx == local_epoch % number_epochs, scan strategy reset, flag false, retire lists empty; records are acquired only when the thread has none'),
    'ebr.model.mod_lemma': dict(deciding=False, text='model self-check: (x+-j) % number_epochs = ((x % number_epochs) +- j) mod number_epochs for j <= 3 without wrap-around; small values'),
    'ebr.enter.calls_pre': dict(deciding=True, text='enter_critical calls do_enter_critical exactly on the 0 -> 1 transition of nested_critical_entries and in a state that satisfies the precondition assumed by the do_enter_critical runs'),
    'ebr.enter.invariant': dict(deciding=True, text='the thread_data representation invariant (counters vs flag per region_extension, epoch index, tags of all lists, local epoch <= global epoch) is preserved by every operation'),
  },
  replays={'ebr.free.three_epochs': dict(src='replay_update_local_epoch.cpp'), 'ebr.free.index_consistent': dict(src='replay_update_local_epoch.cpp'),
           'ebr.free.exact': dict(src='replay_update_local_epoch.cpp'), 'ebr.orphans.slot': dict(src='replay_update_global_epoch.cpp')},
  canaries=sorted(set(re.findall(r'XV_CANARY\("([^"]+)"\)', ''.join(open(os.path.join(os.path.dirname(os.path.abspath(__file__)) if '__file__' in globals() else '/verif/units/ebr', f)).read() for f in ('harness_guard.h', 'harness_td.h'))))),
)
