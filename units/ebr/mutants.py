#!/usr/bin/env python3
"""mutation runner for unit ebr (dev aid, not run by xv). Needs the repaired worktree: git -C /repo worktree add --detach /tmp/wt-eb HEAD; apply fix_*.diff there; results go to /tmp/eb (mkdir).
Works on /tmp/wt-eb (tools/mut.sh refuses files with local changes, and the
baseline for mutation is the repaired tree).  usage: mutate.py <name>... | all"""
import os, subprocess, sys, re, json, time
WT = '/tmp/wt-eb'
IMPL = 'xenium/reclamation/impl/generic_epoch_based.hpp'
DECL = 'xenium/reclamation/generic_epoch_based.hpp'
G = ['g_ctor', 'g_copy', 'g_move', 'g_reset', 'g_assign_copy', 'g_assign_move', 'g_reclaim', 'region_guard', 'g_acquire', 'g_acquire_int', 'g_acquire_if_equal', 'g_acquire_if_equal_int']
ENTER = ['enter_none', 'enter_eager', 'enter_lazy']
DOE = ['do_enter_none_all', 'do_enter_eager_n1', 'do_enter_lazy_all']
LEAVE = ['leave_none_never', 'leave_none_always', 'leave_eager_always', 'leave_lazy_threshold', 'leave_region_eager', 'leave_region_lazy', 'leave_region_none', 'enter_region_eager', 'enter_region_lazy', 'enter_region_none']
SCAN = ['scan_all', 'scan_all_int', 'scan_n1', 'scan_n2', 'scan_n2_int', 'scan_n3']
M = [
 # name, file, old, new, nth (0-based occurrence), runs
 ('acq_enter_when_nonnull', IMPL, '  if (!this->ptr) {\n    local_thread_data.enter_critical();\n  }\n  // (1)', '  if (this->ptr) {\n    local_thread_data.enter_critical();\n  }\n  // (1)', 0, G),
 ('acq_no_leave_on_null', IMPL, '  if (!this->ptr) {\n    local_thread_data.leave_critical();\n  }\n}', '  if (!this->ptr) {\n  }\n}', 0, G),
 ('acq_load_before_enter', IMPL, '  if (!this->ptr) {\n    local_thread_data.enter_critical();\n  }\n  // (1) - this load operation potentially synchronizes-with any release operation on p.\n  this->ptr = p.load(order);\n', '  auto was_empty = !this->ptr;\n  this->ptr = p.load(order);\n  if (was_empty) {\n    local_thread_data.enter_critical();\n  }\n', 0, G),
 ('acq_second_load_relaxed', IMPL, '  // (1) - this load operation potentially synchronizes-with any release operation on p.\n  this->ptr = p.load(order);', '  this->ptr = p.load(std::memory_order_relaxed);', 0, G),
 ('aie_no_revalidation', IMPL, '  if (!this->ptr || this->ptr != expected) {', '  if (!this->ptr) {', 0, G),
 ('aie_no_reset_on_mismatch', IMPL, '    local_thread_data.leave_critical();\n    this->ptr.reset();\n  }\n\n  return this->ptr == expected;', '    local_thread_data.leave_critical();\n  }\n\n  return this->ptr == expected;', 0, G),
 ('aie_returns_first_snapshot', IMPL, '  return this->ptr == expected;\n}', '  return actual == expected;\n}', 0, G),
 ('assign_copy_no_reset', IMPL, '  reset();\n  this->ptr = p.ptr;', '  this->ptr = p.ptr;', 0, G),
 ('assign_copy_no_enter', IMPL, '  this->ptr = p.ptr;\n  if (this->ptr) {\n    local_thread_data.enter_critical();\n  }', '  this->ptr = p.ptr;\n  if (this->ptr) {\n  }', 0, G),
 ('assign_copy_no_self_check', IMPL, '  if (&p == this) {\n    return *this;\n  }\n\n  reset();\n  this->ptr = p.ptr;', '  if (false && &p == this) {\n    return *this;\n  }\n\n  reset();\n  this->ptr = p.ptr;', 0, G),
 ('assign_move_keeps_source', IMPL, '  this->ptr = std::move(p.ptr);\n  p.ptr.reset();', '  this->ptr = std::move(p.ptr);\n  p.ptr = p.ptr;', 0, G),
 ('assign_move_no_reset', IMPL, '  reset();\n  this->ptr = std::move(p.ptr);', '  this->ptr = std::move(p.ptr);', 0, G),
 ('move_ctor_enters', IMPL, 'guard_ptr(guard_ptr&& p) noexcept : base(p.ptr) {\n  p.ptr.reset();', 'guard_ptr(guard_ptr&& p) noexcept : base(p.ptr) {\n  p.ptr.reset();\n  if (this->ptr) { local_thread_data.enter_critical(); }', 0, G),
 ('reset_keeps_ptr', IMPL, '    local_thread_data.leave_critical();\n  }\n  this->ptr.reset();\n}', '    local_thread_data.leave_critical();\n  }\n}', 0, G),
 ('reclaim_after_leave', IMPL, '  local_thread_data.add_retired_node(this->ptr.get());\n  reset();', '  auto* xv_obj = this->ptr.get();\n  reset();\n  local_thread_data.add_retired_node(xv_obj);', 0, G),
 ('reclaim_no_set_deleter', IMPL, '  this->ptr->set_deleter(std::move(d));\n', '', 0, G),
 ('region_guard_dtor_enters', IMPL, '::~region_guard() noexcept {\n  local_thread_data.leave_region();', '::~region_guard() noexcept {\n  local_thread_data.enter_region();', 0, G),
 ('ctor_tests_get_not_bool', IMPL, 'guard_ptr(const MarkedPtr& p) noexcept : base(p) {\n  if (this->ptr) {', 'guard_ptr(const MarkedPtr& p) noexcept : base(p) {\n  if (this->ptr.get() != nullptr) {', 0, G + ['g_dtor']),
 ('reset_tests_get_not_bool', IMPL, '::reset() noexcept {\n  if (this->ptr) {', '::reset() noexcept {\n  if (this->ptr.get() != nullptr) {', 0, G + ['g_dtor']),
 ('acquire_tests_get_not_bool', IMPL, '  if (!this->ptr) {\n    local_thread_data.enter_critical();\n  }\n  // (1)', '  if (this->ptr.get() == nullptr) {\n    local_thread_data.enter_critical();\n  }\n  // (1)', 0, G),
 ('assign_copy_tests_get_not_bool', IMPL, '  this->ptr = p.ptr;\n  if (this->ptr) {', '  this->ptr = p.ptr;\n  if (this->ptr.get() != nullptr) {', 0, G),
 # thread_data protect side
 ('flag_no_fence', IMPL, '    XENIUM_THREAD_FENCE(std::memory_order_seq_cst);\n', '', 0, ['set_flag'] + DOE + ENTER + ['enter_region_eager']),
 ('flag_fence_before_store', IMPL, '    control_block->is_in_critical_region.store(true, std::memory_order_relaxed);\n    // (3) - this seq_cst-fence enforces a total order with itself, and\n    //       synchronizes-with the acquire-fence (6)\n    XENIUM_THREAD_FENCE(std::memory_order_seq_cst);', '    XENIUM_THREAD_FENCE(std::memory_order_seq_cst);\n    control_block->is_in_critical_region.store(true, std::memory_order_relaxed);', 0, ['set_flag'] + DOE + ['enter_eager', 'enter_region_eager']),
 ('flag_fence_acq_rel', IMPL, '    XENIUM_THREAD_FENCE(std::memory_order_seq_cst);', '    XENIUM_THREAD_FENCE(std::memory_order_acq_rel);', 0, ['set_flag'] + DOE + ['enter_eager', 'enter_region_eager']),
 ('epoch_load_relaxed', IMPL, '    auto epoch = global_epoch.load(std::memory_order_acquire);', '    auto epoch = global_epoch.load(std::memory_order_relaxed);', 0, DOE),
 ('epoch_load_before_flag', IMPL, '  void do_enter_critical() {\n', '  void do_enter_critical() {\n    auto epoch = global_epoch.load(std::memory_order_acquire);\n', 0, DOE),  # plus removal below handled by second edit
 ('leave_no_decrement', IMPL, '    if (--nested_critical_entries == 0 && Traits', '    if (nested_critical_entries == 0 && Traits', 0, LEAVE),
 ('leave_clears_at_one', IMPL, '    if (--nested_critical_entries == 0 && Traits', '    if (--nested_critical_entries == 1 && Traits', 0, LEAVE),
 ('clear_flag_relaxed', IMPL, '    control_block->is_in_critical_region.store(false, std::memory_order_release);', '    control_block->is_in_critical_region.store(false, std::memory_order_relaxed);', 0, LEAVE),
 ('enter_always_do_enter', IMPL, '    if (++nested_critical_entries == 1) {', '    if (++nested_critical_entries >= 1) {', 0, ENTER),
 ('enter_region_eager_second', IMPL, '++region_entries == 1) {', '++region_entries == 2) {', 0, ENTER + LEAVE),
 ('leave_region_post_decrement', IMPL, '--region_entries == 0) {', 'region_entries-- == 0) {', 0, LEAVE),
 ('lazy_always_sets_flag', IMPL, '      if (!control_block->is_in_critical_region.load(std::memory_order_relaxed)) {\n        set_critical_region_flag();\n      }', '      {\n        control_block->is_in_critical_region.store(true, std::memory_order_relaxed);\n      }', 0, DOE),
 ('new_epoch_branch_no_update', IMPL, '      critical_entries_since_update = 0;\n      update_local_epoch(epoch);\n    } else if', '      critical_entries_since_update = 0;\n    } else if', 0, DOE),
 # reclaim side
 ('distance_two', IMPL, '    for (int i = diff - 1; i >= 0; --i) {', '    for (int i = diff; i >= 0; --i) {', 0, ['update_local_epoch_all']),
 ('free_next_epoch_list', IMPL, '      epoch_idx = (new_epoch - i) % number_epochs;', '      epoch_idx = (new_epoch + i) % number_epochs;', 0, ['update_local_epoch_all']),
 ('number_epochs_two', DECL, 'static constexpr epoch_t number_epochs = 3;', 'static constexpr epoch_t number_epochs = 2;', 0, ['update_local_epoch_all', 'update_global_epoch', 'do_enter_none_all']),
 ('ule_no_scan_reset', IMPL, '    local_epoch_idx = epoch_idx;\n\n    scan_strategy.reset();', '    local_epoch_idx = epoch_idx;\n', 0, ['update_local_epoch_n1', 'update_local_epoch_all']),
 ('ule_idx_not_stored', IMPL, '    local_epoch_idx = epoch_idx;\n', '', 0, ['update_local_epoch_all']),
 ('ule_min_two', IMPL, 'std::min<epoch_t>(number_epochs, new_epoch - old_epoch)', 'std::min<epoch_t>(number_epochs - 1, new_epoch - old_epoch)', 0, ['update_local_epoch_all']),
 ('ule_delete_twice', IMPL, '      detail::delete_objects(nodes.first);\n    }\n    local_epoch_idx', '      auto* xv_again = nodes.first;\n      detail::delete_objects(nodes.first);\n      detail::delete_objects(xv_again);\n    }\n    local_epoch_idx', 0, ['update_local_epoch_all']),
 ('cas_relaxed', IMPL, 'curr_epoch, new_epoch, std::memory_order_release, std::memory_order_relaxed);', 'curr_epoch, new_epoch, std::memory_order_relaxed, std::memory_order_relaxed);', 0, ['update_global_epoch', 'update_global_epoch_int']),
 ('no_acquire_fence', IMPL, '      XENIUM_THREAD_FENCE(std::memory_order_acquire);\n', '', 0, ['update_global_epoch', 'update_global_epoch_int']),
 ('cas_without_scan_result', IMPL, '      if (scan_strategy.scan(epoch)) {', '      scan_strategy.scan(epoch);\n      {', 0, DOE),
 ('cas_without_scan', IMPL, '      if (scan_strategy.scan(epoch)) {', '      if (true) {', 0, DOE),
 ('advance_by_two', IMPL, 'epoch = update_global_epoch(epoch, epoch + 1);', 'epoch = update_global_epoch(epoch, epoch + 2);', 0, DOE),
 ('scan_all_ignores_lagging', IMPL, 'data.local_epoch.load(memory_order) != epoch;', 'data.local_epoch.load(memory_order) > epoch;', 0, SCAN + DOE),
 ('scan_all_ignores_flag', IMPL, 'return data.is_in_critical_region.load(memory_order) && data.local_epoch.load(memory_order) != epoch;', 'return !data.is_in_critical_region.load(memory_order) && data.local_epoch.load(memory_order) != epoch;', 0, SCAN + DOE),
 ('scan_n_no_epoch_check', IMPL, '              thread_iterator->local_epoch.load(memory_order) == epoch) {', '              thread_iterator->local_epoch.load(memory_order) >= epoch) {', 0, SCAN + DOE),
 ('scan_n_true_after_first', IMPL, '            if (++thread_iterator == Reclaimer::global_thread_block_list.end()) {', '            if (++thread_iterator == Reclaimer::global_thread_block_list.end() || true) {', 0, SCAN + DOE),
 ('scan_n_skips_entry', IMPL, '        for (unsigned i = 0; i < N; ++i) {\n', '        for (unsigned i = 0; i < N; ++i) {\n          if (i == 1) { ++thread_iterator; if (thread_iterator == Reclaimer::global_thread_block_list.end()) return true; }\n', 0, SCAN),
 ('orphans_deleted_on_cas_failure', IMPL, '        orphans[new_epoch % number_epochs].add(orphaned_nodes);', '        detail::delete_objects(orphaned_nodes.first);', 0, ['update_global_epoch', 'update_global_epoch_int']),
 ('orphans_dropped_on_cas_failure', IMPL, '        orphans[new_epoch % number_epochs].add(orphaned_nodes);', '        ;', 0, ['update_global_epoch', 'update_global_epoch_int']),
 ('orphans_wrong_slot', IMPL, '  detail::retired_nodes<> adopt_orphans(epoch_t epoch) {\n    auto idx = epoch % number_epochs;', '  detail::retired_nodes<> adopt_orphans(epoch_t epoch) {\n    auto idx = (epoch + 1) % number_epochs;', 0, ['update_global_epoch', 'update_global_epoch_int']),
 ('orphans_deleted_before_cas', IMPL, '      auto orphaned_nodes = adopt_orphans(new_epoch);\n', '      auto orphaned_nodes = adopt_orphans(new_epoch);\n      detail::delete_objects(orphaned_nodes.first);\n', 0, ['update_global_epoch', 'update_global_epoch_int']),
 ('abandon_always_drops', IMPL, '      if (!retire_list.empty()) {\n        orphans.add(retire_list.steal());', '      if (!retire_list.empty()) {\n        retire_list.steal();', 0, LEAVE),
 ('abandon_threshold_drops', IMPL, '      if (retire_list.size() >= Threshold) {\n        orphans.add(retire_list.steal());', '      if (retire_list.size() >= Threshold) {\n        retire_list.steal();', 0, LEAVE),
 ('abandon_wrong_slot', IMPL, '      Traits::abandon_strategy::apply(retire_lists[i], orphans[i]);', '      Traits::abandon_strategy::apply(retire_lists[i], orphans[0]);', 0, LEAVE),
 ('dtor_wrong_slot', IMPL, '        orphans[i].add(retire_lists[i].steal());\n      }\n    }\n\n    assert', '        orphans[0].add(retire_lists[i].steal());\n      }\n    }\n\n    assert', 0, ['dtor_none', 'dtor_eager', 'dtor_lazy']),
 ('dtor_skips_last_list', IMPL, '    for (unsigned i = 0; i < number_epochs; ++i) {\n      if (!retire_lists[i].empty()) {', '    for (unsigned i = 0; i + 1 < number_epochs; ++i) {\n      if (!retire_lists[i].empty()) {', 0, ['dtor_none', 'dtor_eager']),
 ('dtor_no_release', IMPL, '    global_thread_block_list.release_entry(control_block);\n', '', 0, ['dtor_none']),
 ('dtor_deletes', IMPL, '        orphans[i].add(retire_lists[i].steal());\n      }\n    }\n\n    assert', '        auto xv_n = retire_lists[i].steal();\n        detail::delete_objects(xv_n.first);\n      }\n    }\n\n    assert', 0, ['dtor_none']),
 ('acb_no_epoch_store', IMPL, '    control_block->local_epoch.store(epoch, std::memory_order_relaxed);\n    local_epoch_idx', '    local_epoch_idx', 0, ['acquire_cb_all', 'acquire_cb_n1', 'acquire_cb_int'] + ENTER),
 ('acb_no_idx', IMPL, '    local_epoch_idx = epoch % number_epochs;\n    scan_strategy.reset();\n  }', '    scan_strategy.reset();\n  }', 0, ['acquire_cb_all', 'acquire_cb_n1'] + ENTER),
 ('acb_no_scan_reset', IMPL, '    local_epoch_idx = epoch % number_epochs;\n    scan_strategy.reset();\n  }', '    local_epoch_idx = epoch % number_epochs;\n  }', 0, ['acquire_cb_all', 'acquire_cb_n1']),
 ('acb_epoch_plus_one', IMPL, '    control_block->local_epoch.store(epoch, std::memory_order_relaxed);\n    local_epoch_idx', '    control_block->local_epoch.store(epoch + 1, std::memory_order_relaxed);\n    local_epoch_idx', 0, ['acquire_cb_all', 'acquire_cb_int']),
 ('retire_slot_zero', IMPL, 'retire_lists[local_epoch_idx].push(p);', 'retire_lists[0].push(p);', 0, ['add_retired']),
 ('ensure_always_acquires', IMPL, '    if (XENIUM_UNLIKELY(control_block == nullptr)) {', '    if (XENIUM_UNLIKELY(control_block != nullptr)) {', 0, ENTER + ['enter_region_none']),
 # benign
 ('BENIGN_rename_local', IMPL, '    auto epoch = global_epoch.load(std::memory_order_relaxed);\n    control_block->local_epoch.store(epoch, std::memory_order_relaxed);\n    local_epoch_idx = epoch % number_epochs;', '    auto ep = global_epoch.load(std::memory_order_relaxed);\n    control_block->local_epoch.store(ep, std::memory_order_relaxed);\n    local_epoch_idx = ep % number_epochs;', 0, ['acquire_cb_all', 'acquire_cb_int'] + ENTER),
 ('BENIGN_swap_independent', IMPL, '    local_epoch_idx = epoch % number_epochs;\n    scan_strategy.reset();\n  }', '    scan_strategy.reset();\n    local_epoch_idx = epoch % number_epochs;\n  }', 0, ['acquire_cb_all', 'acquire_cb_n1'] + ENTER),
 ('BENIGN_cas_acq_rel', IMPL, 'curr_epoch, new_epoch, std::memory_order_release, std::memory_order_relaxed);', 'curr_epoch, new_epoch, std::memory_order_acq_rel, std::memory_order_relaxed);', 0, ['update_global_epoch', 'update_global_epoch_int']),
 ('BENIGN_swap_counter_reset', IMPL, '      critical_entries_since_update = 0;\n      update_local_epoch(epoch);\n    } else if', '      update_local_epoch(epoch);\n      critical_entries_since_update = 0;\n    } else if', 0, DOE),
 ('BENIGN_flag_store_release', IMPL, '    control_block->is_in_critical_region.store(true, std::memory_order_relaxed);', '    control_block->is_in_critical_region.store(true, std::memory_order_release);', 0, ['set_flag'] + DOE),
]
EXTRA = {'epoch_load_before_flag': [('    // (5) - this acquire-load synchronizes-with the release-CAS (7)\n    auto epoch = global_epoch.load(std::memory_order_acquire);\n', '')]}
def run(m):
    name, rel, old, new, nth, runs = m
    path = os.path.join(WT, rel); orig = open(path, newline='').read()
    if orig.count(old) < nth + 1: return name, 'MUTATION DID NOT APPLY', []
    parts = orig.split(old); s = old.join(parts[:nth + 1]) + new + old.join(parts[nth + 1:])
    for a, b in EXTRA.get(name, []):
        if s.count(a) != 1: return name, 'MUTATION DID NOT APPLY (extra)', []
        s = s.replace(a, b)
    open(path, 'w', newline='').write(s)
    try:
        cmd = ['./xv', 'unit', 'ebr'] + sum([['--run', r] for r in runs], [])
        p = subprocess.run(cmd, cwd='/verif', env=dict(os.environ, XV_REPO=WT, XV_WORKERS=os.environ.get('XV_WORKERS', '3')), stdout=subprocess.PIPE, stderr=subprocess.STDOUT, timeout=2400)
        out = p.stdout.decode()
    finally:
        open(path, 'w', newline='').write(orig)
    bad = sorted(set(re.findall(r'BAD\s+(\w+)\s+\w+\s+(\S+)', out)))
    probs = re.findall(r'^(?:PROBLEM|xv: UNDECIDED).*$', out, re.M)
    last = out.strip().splitlines()[-1] if out.strip() else ''
    return name, last, bad + [('PROBLEM', x[:160]) for x in probs]
if __name__ == '__main__':
    sel = sys.argv[1:]
    res = {}
    if os.path.exists('/tmp/eb/mut_results.json'): res = json.load(open('/tmp/eb/mut_results.json'))
    for m in M:
        if sel != ['all'] and m[0] not in sel: continue
        t0 = time.time(); name, last, bad = run(m)
        res[name] = dict(last=last, bad=bad)
        print('%-32s %5.0fs  %s  %s' % (name, time.time() - t0, last, '; '.join('%s:%s' % (k, v) for k, v in bad)), flush=True)
        json.dump(res, open('/tmp/eb/mut_results.json', 'w'), indent=1)
