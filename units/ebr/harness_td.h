/* ---- thread_data / scan / abandon harnesses (protect side of enter/leave, reclaim side, conservation, record reuse) ---- */
#define MAX_EPOCH (UINT64_MAX - 8)      /* assumption: the 64-bit global epoch does not wrap around */
#define MAX_CNT 1000000u                /* assumption: fewer than 10^6 simultaneously live guards / region_guards per thread */

/* ---------------- environment (INT): what other threads may do between two atomic accesses of this thread ----------------
 * Environment steps are applied exactly where they can be observed: the global epoch is advanced right before it is loaded / CASed
 * (mon_load, xv_env for the real update_global_epoch, the stubs), the records of other threads are rewritten right before the scan
 * reads them (mon_load), the orphan lists right before add/adopt (ol_add, ol_adopt).  Steps compose, so this loses nothing. */
_Bool env_ge_on, env_ge_generic, env_ent_on, env_orph_on; epoch_t env_ge_cap; chain_t env_added, env_removed;
static epoch_t mk_dist(unsigned* rem); static unsigned rem_add(unsigned r, unsigned k); static chain_t all_nodes(void);
#ifdef XV_INT
static void env_ge_step(void) {       /* the global epoch only grows; while this thread is in a critical region that loaded e it cannot pass e+1 (env_ge_cap) */
  if (!env_ge_on) return;
  unsigned rd; epoch_t dl = mk_dist(&rd); if (global_epoch <= env_ge_cap && dl <= env_ge_cap - global_epoch) { global_epoch += dl; ge_rem = rem_add(ge_rem, rd); }
}
static _Bool env_ent_step(void* a) {  /* records of other threads: anything, whenever they are read */
  if (!env_ent_on) return 0;
  for (unsigned i = 0; i < XV_E; i++) {
    if (a == (void*)&oth[i].is_in_critical_region) { oth[i].is_in_critical_region = nondet_bool(); return 1; }
    if (a == (void*)&oth[i].local_epoch) { oth[i].local_epoch = nondet_u64(); return 1; }
  }
  return 0;
}
static void env_orph_step(void) {     /* other threads abandon nodes retired at a local epoch t <= global into slot t % number_epochs, or adopt a whole slot */
  if (!env_orph_on) return;
  unsigned s = nondet_uint(); XV_ASSUME(s < NE);
  if (nondet_bool()) { env_removed |= orphans[s].set; orphans[s].set = 0; }
  chain_t add = nondet_u32(); add &= ~(all_nodes() | env_removed | env_added);
  if ((add & g_bit) && !(g_rt == s && g_tag <= global_epoch)) add &= ~g_bit;
  orphans[s].set |= add; env_added |= add;
}
static void env_td(void) { if (env_ge_generic) env_ge_step(); }
#else
#define env_ge_step() ((void)0)
#define env_orph_step() ((void)0)
#endif

/* ---------------- state, invariants ---------------- */
/* Remainders modulo number_epochs.  The harness (and, through XV_MOD_NE, the lowered text) never divides a symbolic 64-bit value (SAT cannot
 * cope with the modular reasoning that follows).  Instead every epoch e of a harness carries a ghost remainder rem(e); ghost remainders are
 * arbitrary values < number_epochs constrained only by facts that the true function e % number_epochs satisfies (proved by run mod_lemma):
 *   rem(e + j) = (rem(e) + j) % NE for small j,  rem(d) = d % NE for d < 16.   The true remainders are therefore among the assignments
 * considered.  The lowered `x % number_epochs` looks x up among the registered anchors (value, remainder) +- small offsets; a value that is
 * not found sets mod_unknown, which ebr.conserve reports.
 * g_rt = rem(g_tag); le_rem = rem(own local epoch) in the pre-state; ge_rem = rem(global_epoch), maintained by environment and CAS monitor;
 * ge_acq_rem / ge_first_rem = ge_rem at the first acquire load / first load of the global epoch (declared in harness.c) */
unsigned g_kind; epoch_t mid_epoch; unsigned mid_rem; _Bool want_mid;
static epoch_t mk_dist(unsigned* rem) {      /* an arbitrary distance with its ghost remainder */
  epoch_t d = nondet_u64(); unsigned r = nondet_uint(); XV_ASSUME(r < NE); if (d < 16) XV_ASSUME(r == (unsigned)d % (unsigned)NE); *rem = r; return d; }
static unsigned rem_add(unsigned r, unsigned k) { return (r + k) % (unsigned)NE; }
/* `x % number_epochs` of the lowered text */
struct anchor { _Bool on; epoch_t val; unsigned rem; } anchors[5]; _Bool mod_unknown;
static void set_anchor(unsigned i, epoch_t v, unsigned r) { anchors[i].on = 1; anchors[i].val = v; anchors[i].rem = r; }
static _Bool try_anchor(unsigned i, epoch_t x, epoch_t* out) {
  if (!anchors[i].on) return 0;
  epoch_t v = anchors[i].val; unsigned r = anchors[i].rem;
#define XV_TRY(j) if (v <= MAX_EPOCH && x == v + (j)) { *out = rem_add(r, (j)); return 1; } if (v >= (j) && x == v - (j)) { *out = rem_add(r, (unsigned)NE * 2 - (j)); return 1; }
  XV_TRY(0u) XV_TRY(1u) XV_TRY(2u) XV_TRY(3u)
#undef XV_TRY
  return 0;
}
epoch_t xv_mod_ne(epoch_t x) {
  epoch_t out = 0;
  if (ge_acq_seen) set_anchor(3, ge_acq_val, ge_acq_rem);
  if (n_ge_load) set_anchor(4, ge_first_val, ge_first_rem);
  /* most specific anchor first: the epoch passed to the function under contract (2), the value loaded from the global epoch (4, 3), then the pre-state epochs */
  if (try_anchor(2, x, &out) || try_anchor(4, x, &out) || try_anchor(3, x, &out) || try_anchor(0, x, &out) || try_anchor(1, x, &out)) return out;
  mod_unknown = 1; return x % NE;
}
/* the facts about % that the ghost remainders rely on */
void h_mod_lemma(void) {
  epoch_t x = nondet_u64(); unsigned j = nondet_uint(); XV_ASSUME(j <= 3);
  if (x <= MAX_EPOCH) XV_OBL("ebr.model.mod_lemma", (x + j) % NE == rem_add((unsigned)(x % NE), j));
  if (x >= j) XV_OBL("ebr.model.mod_lemma", (x - j) % NE == rem_add((unsigned)(x % NE), (unsigned)NE * 2 - j));
  if (x < 16) XV_OBL("ebr.model.mod_lemma", x % NE == (epoch_t)((unsigned)x % (unsigned)NE));
  XV_OBL("ebr.model.mod_lemma", NE * 2 >= 3 && x % NE < NE);
  XV_CANARY("mod_lemma.reached");
}
unsigned n_do_enter; _Bool do_enter_pre_ok; uint64_t do_enter_clk;
struct snap { chain_t rl[XV_MAXNE], ol[XV_MAXNE], del; struct tcb oth[XV_E]; epoch_t ge; struct td td; _Bool has_cb; struct tcb cb; struct tcb* head; } pre;
static unsigned pos_of(struct tcb* p) { for (unsigned i = 0; i < XV_E; i++) if (i < n_ent && p == seq(i)) return i; return n_ent; }
static void reset_monitors(void) {
  xv_clock = 1; mod_unknown = 0; anchors[0].on = anchors[1].on = anchors[2].on = anchors[3].on = anchors[4].on = 0; mon_src = 0; in_scan = scan_done = scan_ret = 0; n_scan = n_scan_reset = 0; trk_flag_seen = trk_ep_seen = 0; last_scan_load_clk = 0;
  n_flag_true = n_flag_false = 0; n_sc_fence = n_acq_fence = 0; sc_fence_clk = acq_fence_clk = 0; n_ge_load = 0; ge_acq_seen = 0; n_le_store = 0; n_other_store = n_ge_store = 0;
  n_cas = 0; cas_ok = 0; adv_bad_delta = adv_no_scan = adv_trk_unchecked = adv_bad_sync = 0; expect_scan = 0;
  n_delete_calls = n_steal = n_ol_add = n_ol_adopt = n_push = 0; del_twice = stub_pre_violated = 0; deleted_in_call = 0; in_flight = 0; last_delete_clk = 0;
  n_acquire = n_release = 0; rel_entry = 0; env_added = env_removed = 0; env_ge_on = env_ge_generic = env_ent_on = env_orph_on = 0; n_do_enter = 0; do_enter_pre_ok = 1;
}
static void havoc_world(_Bool with_cb) {
  n_ent = nondet_uint(); XV_ASSUME(n_ent >= 1 && n_ent <= XV_E);
  own = nondet_uint(); XV_ASSUME(own < n_ent);
  for (unsigned i = 0; i < XV_E; i++) {
    oth[i].is_in_critical_region = nondet_bool(); oth[i].local_epoch = nondet_u64(); oth[i].state = nondet_int(); XV_ASSUME(oth[i].state >= ST_FREE && oth[i].state <= ST_ACTIVE); oth[i].next_entry = 0;
  }
  own_cb.is_in_critical_region = nondet_bool(); own_cb.local_epoch = nondet_u64(); own_cb.state = nondet_int(); XV_ASSUME(own_cb.state >= ST_FREE && own_cb.state <= ST_ACTIVE); own_cb.next_entry = 0;
  for (unsigned i = 0; i < XV_E; i++) if (i + 1 < n_ent) seq(i)->next_entry = seq(i + 1);
  global_thread_block_list.head = seq(0);
  deleted_mask = nondet_u32();
  for (unsigned i = 0; i < XV_MAXNE; i++) {
    orphans[i].set = i < NE ? nondet_u32() : 0; ltd.retire_lists[i].set = i < NE ? nondet_u32() : 0;
  }
  unsigned k = nondet_uint(); XV_ASSUME(k < 32); g_bit = (chain_t)1 << k;
  ltd.critical_entries_since_update = nondet_uint(); ltd.nested_critical_entries = nondet_uint(); ltd.region_entries = nondet_uint();
  ltd.local_epoch_idx = nondet_u64();
  ltd.control_block = with_cb ? &own_cb : 0; acq_entry = &own_cb;
  /* epochs: own local epoch le0 <= global epoch = le0 + dg; the tag of the tracked node is built relative to them (g_kind), so that every remainder is known by construction */
  epoch_t le0 = mk_dist(&le_rem); XV_ASSUME(le0 <= MAX_EPOCH);
  unsigned rd1 = 0, rd2; epoch_t d1 = 0, d2 = mk_dist(&rd2); if (want_mid) d1 = mk_dist(&rd1); XV_ASSUME(d1 <= MAX_EPOCH - le0 && d2 <= MAX_EPOCH - le0 - d1);
  mid_epoch = le0 + d1; mid_rem = rem_add(le_rem, rd1);               /* le0 <= mid_epoch <= global_epoch: the new epoch of h_update_local_epoch */
  global_epoch = mid_epoch + d2; ge_rem = rem_add(mid_rem, rd2);
  if (with_cb) own_cb.local_epoch = le0;
  g_kind = nondet_uint(); XV_ASSUME(g_kind <= 3 && g_kind != 2);
  if (g_kind == 0) { unsigned kk = nondet_uint(); XV_ASSUME(kk < NE && kk <= le0); g_tag = le0 - kk; g_rt = rem_add(le_rem, (unsigned)NE - kk); }          /* le0 - k, k < number_epochs */
  else if (g_kind == 1) { unsigned rt2; epoch_t dt = mk_dist(&rt2); XV_ASSUME(dt <= global_epoch); g_tag = global_epoch - dt; g_rt = rem_add(ge_rem, (unsigned)NE - rt2); }   /* anything <= global */
  else { unsigned jj = nondet_uint(); XV_ASSUME(jj <= 3 && le0 + jj <= MAX_EPOCH); g_tag = le0 + jj; g_rt = rem_add(le_rem, jj); }                    /* le0 + j, j <= 3 */
#if XV_SCAN == 1
  { unsigned it = nondet_uint(); XV_ASSUME(it < n_ent); ltd.scan_strategy.thread_iterator = seq(it); }
#else
  ltd.scan_strategy.unused = nondet_int();
#endif
  unsigned t = nondet_uint(); XV_ASSUME(t < n_ent); trk = seq(t); trk_flag_addr = &trk->is_in_critical_region; trk_le_addr = &trk->local_epoch;
  own_flag_addr = with_cb ? (void*)&own_cb.is_in_critical_region : (void*)0; own_le_addr = with_cb ? (void*)&own_cb.local_epoch : (void*)0;
#if XV_SCAN == 1
  trk_prevalid = pos_of(trk) < pos_of(ltd.scan_strategy.thread_iterator);   /* invariant of n_threads: the entries before the iterator were validated for the current local epoch since the last reset() */
#else
  trk_prevalid = 0;
#endif
  in_scan_freq = nondet_size(); in_threshold = nondet_size(); XV_ASSUME(in_threshold >= 1);
  reset_monitors();
  set_anchor(0, le0, le_rem); set_anchor(1, global_epoch, ge_rem);
}
static _Bool disjoint_all(void) {
  chain_t acc = deleted_mask;
  for (unsigned i = 0; i < XV_MAXNE; i++) { if (acc & ltd.retire_lists[i].set) return 0; acc |= ltd.retire_lists[i].set; if (acc & orphans[i].set) return 0; acc |= orphans[i].set; }
  return 1;
}
static _Bool lists_empty(void) { for (unsigned i = 0; i < XV_MAXNE; i++) if (ltd.retire_lists[i].set) return 0; return 1; }
/* where the tracked node is, its tag fits: local list s holds nodes retired at the unique epoch t = s (mod number_epochs) with LE-number_epochs < t <= LE;
 * orphan slot s holds nodes retired at some t = s (mod number_epochs), t <= global epoch */
static _Bool inv_tag_local(epoch_t le) {   /* le: the local epoch the lists are judged against */
  for (unsigned s = 0; s < XV_MAXNE; s++) if (ltd.retire_lists[s].set & g_bit) { if (!(s < NE && g_rt == s && g_tag <= le && le - g_tag <= NE - 1)) return 0; }
  return 1;
}
static _Bool inv_tag_orphan(void) {
  for (unsigned s = 0; s < XV_MAXNE; s++) if (orphans[s].set & g_bit) { if (!(s < NE && g_rt == s && g_tag <= global_epoch)) return 0; }
  return 1;
}
static _Bool inv_region(void) {
  struct tcb* cb = ltd.control_block; unsigned n = ltd.nested_critical_entries, r = ltd.region_entries; _Bool f = cb->is_in_critical_region;
  if (n > MAX_CNT || r > MAX_CNT) return 0;
  if (XV_REGION_EXT == RE_none) return f == (n >= 1);
  if (XV_REGION_EXT == RE_eager) return n <= r && f == (r >= 1);
  return n <= r && (n >= 1 ? f : 1) && (f ? r >= 1 : 1);
}
/* without loss of generality: a tag in a local list is le0 - k (k < number_epochs), a tag in an orphan slot is <= global (g_kind 1 or 3) */
static _Bool wlog_kind(void) {
  for (unsigned s = 0; s < XV_MAXNE; s++) { if ((ltd.retire_lists[s].set & g_bit) && g_kind != 0) return 0; if ((orphans[s].set & g_bit) && g_kind != 1 && g_kind != 3) return 0; }
  return 1;
}
static _Bool inv_td_r(unsigned lrem) {   /* lrem: ghost remainder of the current own local epoch */
  struct tcb* cb = ltd.control_block;
  if (!disjoint_all() || !inv_tag_orphan()) return 0;
  if (cb == 0) return lists_empty() && ltd.nested_critical_entries == 0 && ltd.region_entries == 0;
  if (cb->state != ST_ACTIVE || cb->local_epoch > global_epoch || ltd.local_epoch_idx != lrem) return 0;
#if XV_SCAN == 1
  if (ltd.scan_strategy.thread_iterator == 0) return 0;
#endif
  return inv_region() && inv_tag_local(cb->local_epoch);
}
#define inv_td() inv_td_r(le_rem)
#define inv_td_pre() (inv_td_r(le_rem) && wlog_kind())
/* ---------------- contract stubs of update_local_epoch / update_global_epoch for the enter_critical runs (-DXV_STUB_UPDATE) ----------------
 * exact contracts, proved for the real text by the runs update_local_epoch_* (ebr.free.exact, ebr.free.index_consistent, ebr.scan.prefix_valid)
 * and update_global_epoch (ebr.advance.*, ebr.conserve, ebr.orphans.slot) */
static _Bool ule_frees(unsigned s, unsigned rn, epoch_t d) { return d >= NE || (epoch_t)((rn + (unsigned)NE - s) % (unsigned)NE) < d; }
static void stub_update_local_epoch(struct td* self, epoch_t new_epoch) {
  struct tcb* cb = self->control_block; epoch_t old = cb->local_epoch; unsigned rn = 0;
  if (ge_acq_seen && new_epoch == ge_acq_val) rn = ge_acq_rem; else if (ge_acq_seen && new_epoch == ge_acq_val + 1) rn = rem_add(ge_acq_rem, 1); else stub_pre_violated = 1;
  if (!(new_epoch > old)) stub_pre_violated = 1;                     /* requires: a newer epoch */
  cb->local_epoch = new_epoch; n_le_store++; le_store_val = new_epoch; xv_clock++;
  for (unsigned s = 0; s < NE; s++) if (ule_frees(s, rn, new_epoch - old)) { struct rnodes n = rl_steal(&self->retire_lists[s]); delete_objects(&n.first); }
  self->local_epoch_idx = rn;
  scan_reset_wrap(&self->scan_strategy);
}
static epoch_t stub_update_global_epoch(struct td* self, epoch_t curr_epoch, epoch_t new_epoch) {
  struct tcb* cb = self->control_block;
  if (!(new_epoch == curr_epoch + 1 && cb->is_in_critical_region && cb->local_epoch == curr_epoch)) stub_pre_violated = 1;   /* requires (call site of do_enter_critical) */
  xv_clock++; mon_load(&global_epoch, global_epoch, mo_relaxed);       /* (mon_load applies the environment step) */
  if (global_epoch == curr_epoch) {
    xv_clock++; mon_fence(mo_acquire);
    env_ge_step(); _Bool ok = global_epoch == curr_epoch; xv_clock++; mon_cas(&global_epoch, curr_epoch, new_epoch, ok, mo_release);
    if (ok) { global_epoch = new_epoch; chain_t c = ol_adopt(&orphans[ge_rem]); delete_objects(&c); }    /* ge_rem is now new_epoch % NE */
  }
  return new_epoch;
}
static void take_snap(void) {
  for (unsigned i = 0; i < XV_MAXNE; i++) { pre.rl[i] = ltd.retire_lists[i].set; pre.ol[i] = orphans[i].set; }
  for (unsigned i = 0; i < XV_E; i++) pre.oth[i] = oth[i];
  pre.head = global_thread_block_list.head;
  pre.del = deleted_mask; pre.ge = global_epoch; pre.td = ltd; pre.has_cb = ltd.control_block != 0; pre.cb = own_cb;
}
static chain_t pre_all(void) { chain_t u = pre.del; for (unsigned i = 0; i < XV_MAXNE; i++) u |= pre.rl[i] | pre.ol[i]; return u; }
/* C02: the multiset of retired nodes is conserved: (lists now) + (deleted now) = (lists before) + (deleted before), up to what the environment added/took;
 * no node in two places, none deleted twice, stub preconditions respected */
static _Bool conserved(void) { return !del_twice && !mod_unknown && in_flight == 0 && disjoint_all() && (all_nodes() | env_removed) == (pre_all() | env_added) && (all_nodes() & env_removed) == 0; }
static _Bool others_unchanged(void) {
  for (unsigned i = 0; i < XV_E; i++) {
    if (oth[i].is_in_critical_region != pre.oth[i].is_in_critical_region || oth[i].local_epoch != pre.oth[i].local_epoch || oth[i].state != pre.oth[i].state || oth[i].next_entry != pre.oth[i].next_entry) return 0; }
  return own_cb.next_entry == pre.cb.next_entry && global_thread_block_list.head == pre.head && (ltd.control_block != 0 || pre.has_cb || (own_cb.is_in_critical_region == pre.cb.is_in_critical_region && own_cb.local_epoch == pre.cb.local_epoch && own_cb.state == pre.cb.state));
}
static _Bool lists_unchanged(void) { for (unsigned i = 0; i < XV_MAXNE; i++) if (ltd.retire_lists[i].set != pre.rl[i] || orphans[i].set != pre.ol[i]) return 0; return deleted_mask == pre.del; }
#define G_DELETED_NOW ((deleted_mask & g_bit) && !(pre.del & g_bit))
static _Bool scan_at_begin(void) {
#if XV_SCAN == 1
  return ltd.scan_strategy.thread_iterator == global_thread_block_list.head;
#else
  return 1;
#endif
}

/* ---------------- set_critical_region_flag ---------------- */
void h_set_flag(void) {
  havoc_world(1); XV_ASSUME(disjoint_all()); struct tcb* cb = ltd.control_block; cb->is_in_critical_region = 0; take_snap();
  td_set_critical_region_flag(&ltd);
  XV_OBL("ebr.enter.flag_then_fence_then_epoch", cb->is_in_critical_region && n_flag_true == 1 && n_flag_false == 0 && n_sc_fence == 1 && flag_true_clk < sc_fence_clk);
  XV_OBL("ebr.conserve", lists_unchanged() && others_unchanged() && n_other_store == 0 && global_epoch == pre.ge && cb->local_epoch == pre.cb.local_epoch);
  XV_CANARY("set_flag.done");
}

/* ---------------- do_enter_critical (real scan strategy; update_local_epoch / update_global_epoch by contract or real) ---------------- */
/* the states in which enter_critical calls do_enter_critical (checked at that call site by h_enter_critical) */
static _Bool pre_do_enter(unsigned lrem) {
  struct tcb* cb = ltd.control_block; if (cb == 0) return 0;
  _Bool f = cb->is_in_critical_region; unsigned r = ltd.region_entries;
  if (!disjoint_all() || !inv_tag_orphan() || cb->state != ST_ACTIVE || cb->local_epoch > global_epoch || ltd.local_epoch_idx != lrem || !inv_tag_local(cb->local_epoch)) return 0;
#if XV_SCAN == 1
  if (ltd.scan_strategy.thread_iterator == 0) return 0;
#endif
  if (ltd.nested_critical_entries != 1 || r > MAX_CNT) return 0;
  if (XV_REGION_EXT == RE_none) return !f;
  if (XV_REGION_EXT == RE_eager) return f && r >= 1;
  return r >= 1;
}
void h_do_enter(void) {
  havoc_world(1); XV_ASSUME(pre_do_enter(le_rem) && wlog_kind());
  take_snap(); expect_scan = 1; struct tcb* cb = ltd.control_block;
  _Bool f0 = pre.cb.is_in_critical_region; epoch_t le0 = pre.cb.local_epoch;
#ifdef XV_INT
  env_ge_on = 1; env_ent_on = 1; env_ge_cap = MAX_EPOCH;
#endif
  td_do_enter_critical(&ltd);
  env_ge_on = env_ent_on = 0;
  XV_OBL("ebr.nesting.balanced", ltd.control_block == cb && ltd.nested_critical_entries == 1 && ltd.region_entries == pre.td.region_entries);
  XV_OBL("ebr.nesting.balanced", cb->is_in_critical_region && n_flag_false == 0 && n_flag_true == (f0 ? 0u : 1u));
  if (!f0) {
    XV_OBL("ebr.enter.flag_then_fence_then_epoch", n_sc_fence >= 1 && flag_true_clk < sc_fence_clk && ge_acq_seen && sc_fence_clk < ge_acq_clk);
#if XV_REGION_EXT != 1
    XV_CANARY("do_enter.flag_newly_set");
#endif
  }
#if XV_REGION_EXT != 0
  if (f0) XV_CANARY("do_enter.flag_was_set");
#endif
  XV_OBL("ebr.enter.flag_then_fence_then_epoch", ge_acq_seen && ge_acq_clk == ge_first_clk && (cb->local_epoch == ge_acq_val || cb->local_epoch == ge_acq_val + 1) && cb->local_epoch <= global_epoch);
  if (cb->local_epoch == ge_acq_val + 1) { XV_OBL("ebr.enter.flag_then_fence_then_epoch", n_scan == 1 && scan_ret && le0 == ge_acq_val); XV_CANARY("do_enter.advanced"); }
#ifndef XV_INT
  XV_OBL("ebr.enter.flag_then_fence_then_epoch", cb->local_epoch == global_epoch);
#endif
  unsigned lrem1 = cb->local_epoch == ge_acq_val ? ge_acq_rem : rem_add(ge_acq_rem, 1);   /* remainder of the new local epoch */
  /* reclaim side */
  XV_OBL("ebr.advance.after_scan", n_cas <= 1 && !adv_bad_delta && !adv_no_scan && !adv_trk_unchecked && (n_cas == 0 || cas_exp == ge_acq_val) && n_ge_store == 0);
  XV_OBL("ebr.advance.after_scan", n_scan <= 1 && (n_scan == 0 || (scan_arg == le0 && le0 == ge_acq_val)));     /* a scan validates entries against the (unchanged) local epoch */
  XV_OBL("ebr.advance.sync", !adv_bad_sync);
  XV_OBL("ebr.free.three_epochs", !G_DELETED_NOW || cb->local_epoch - g_tag >= XV_GRACE);
  XV_OBL("ebr.free.three_epochs", ltd.local_epoch_idx == lrem1 && inv_tag_local(cb->local_epoch));
  XV_OBL("ebr.orphans.slot", inv_tag_orphan());
  XV_OBL("ebr.conserve", conserved() && !stub_pre_violated && n_acquire == 0 && n_release == 0);
#ifndef XV_INT
  XV_OBL("ebr.conserve", others_unchanged() && n_other_store == 0);
#endif
#if XV_SCAN == 1
  XV_OBL("ebr.scan.prefix_valid", ltd.scan_strategy.thread_iterator != 0 && (pos_of(trk) < pos_of(ltd.scan_strategy.thread_iterator) ? trk_ok(cb->local_epoch) : 1));
  XV_OBL("ebr.scan.prefix_valid", cb->local_epoch != le0 ? scan_at_begin() : 1);   /* reset() whenever the local epoch changed */
#endif
  XV_OBL("ebr.enter.invariant", inv_td_r(lrem1));
  if (n_cas == 1 && cas_ok) XV_CANARY("do_enter.cas_ok");
  if (G_DELETED_NOW) XV_CANARY("do_enter.freed_tracked");
  if (n_scan && !scan_ret) XV_CANARY("do_enter.scan_failed");
  if (n_scan == 0 && cb->local_epoch == le0) XV_CANARY("do_enter.no_scan_this_time");
#ifdef XV_INT
  if (n_cas == 1 && !cas_ok) XV_CANARY("do_enter.cas_lost");
  if (n_scan == 1 && scan_ret && n_cas == 0) XV_CANARY("do_enter.epoch_already_advanced");
#endif
}

/* ---------------- enter_critical (real enter_region, ensure_has_control_block, acquire_control_block, set_critical_region_flag; do_enter_critical by contract) ---------------- */
static void stub_do_enter_critical(struct td* self) {
  n_do_enter++; do_enter_clk = ++xv_clock;
  if (!pre_do_enter(n_acquire ? ge_first_rem : le_rem)) do_enter_pre_ok = 0;       /* requires (assumed by h_do_enter) */
  /* ensures (h_do_enter): in a critical region, counters untouched; epochs and lists as the contract allows - not used at this level */
  self->control_block->is_in_critical_region = 1; self->critical_entries_since_update = nondet_uint();
}
void h_enter_critical(void) {
  _Bool with_cb = nondet_bool(); havoc_world(with_cb);
  if (!with_cb) { acq_entry->is_in_critical_region = 0; acq_entry->state = ST_FREE; }   /* a record is only ever released with the flag cleared (h_dtor) */
  XV_ASSUME(inv_td_pre()); XV_ASSUME(ltd.nested_critical_entries < MAX_CNT && ltd.region_entries < MAX_CNT);
  take_snap();
  unsigned n0 = ltd.nested_critical_entries, r0 = ltd.region_entries; _Bool f0 = with_cb && pre.cb.is_in_critical_region;
  td_enter_critical(&ltd);
  struct tcb* cb = ltd.control_block;
  XV_OBL("ebr.nesting.balanced", cb != 0 && ltd.nested_critical_entries == n0 + 1 && ltd.region_entries == (XV_REGION_EXT == RE_none ? r0 : r0 + 1));
  XV_OBL("ebr.nesting.balanced", cb->is_in_critical_region && n_flag_false == 0 && n_do_enter == (n0 == 0 ? 1u : 0u));
  XV_OBL("ebr.enter.calls_pre", do_enter_pre_ok);
  /* eager: the flag is set (store, then seq_cst fence) by enter_region before do_enter_critical loads the epoch */
  XV_OBL("ebr.enter.flag_then_fence_then_epoch", n_flag_true == ((XV_REGION_EXT == RE_eager && !f0) ? 1u : 0u)
                                                 && (n_flag_true ? (n_sc_fence == 1 && flag_true_clk < sc_fence_clk && n_do_enter == 1 && sc_fence_clk < do_enter_clk) : 1));
  XV_OBL("ebr.adopt.reinit", n_acquire == (with_cb ? 0u : 1u) && n_release == 0 && (with_cb ? n_ge_load == 0 && n_le_store == 0 : 1));
  XV_OBL("ebr.conserve", lists_unchanged() && others_unchanged() && n_other_store == 0 && n_cas == 0 && global_epoch == pre.ge && !mod_unknown);
  if (n0) { XV_OBL("ebr.nesting.balanced", n_ge_load == 0 && n_le_store == 0 && cb->local_epoch == pre.cb.local_epoch && ltd.local_epoch_idx == pre.td.local_epoch_idx); XV_CANARY("enter.nested"); }
  else XV_CANARY("enter.outermost");
  if (!with_cb) XV_CANARY("enter.first_use");
}

/* ---------------- leave_critical (real clear_critical_region_flag, leave_region, abandon strategy) ---------------- */
static _Bool check_abandon(_Bool cleared) {
  _Bool any_moved = 0;
  for (unsigned i = 0; i < NE; i++) {
    _Bool moved = cleared && XV_ABANDON != 0 && pre.rl[i] != 0 && (XV_ABANDON == 1 || (size_t)__builtin_popcount(pre.rl[i]) >= in_threshold);
    /* a list is abandoned as a whole into the orphan slot with the same index, or not at all */
    XV_OBL("ebr.orphans.slot", moved ? (ltd.retire_lists[i].set == 0 && orphans[i].set == (pre.ol[i] | pre.rl[i])) : (ltd.retire_lists[i].set == pre.rl[i] && orphans[i].set == pre.ol[i]));
    if (moved) any_moved = 1;
  }
  XV_OBL("ebr.orphans.slot", inv_tag_orphan() && inv_tag_local(ltd.control_block->local_epoch));
  XV_OBL("ebr.conserve", conserved() && !stub_pre_violated && deleted_mask == pre.del && n_delete_calls == 0);
  return any_moved;
}
void h_leave_critical(void) {
  havoc_world(1); XV_ASSUME(inv_td_pre()); XV_ASSUME(ltd.nested_critical_entries >= 1); take_snap();
  unsigned n0 = ltd.nested_critical_entries, r0 = ltd.region_entries; struct tcb* cb = ltd.control_block;
  td_leave_critical(&ltd);
  _Bool clear = XV_REGION_EXT == RE_none ? (n0 == 1) : (r0 == 1);
  XV_OBL("ebr.nesting.balanced", ltd.nested_critical_entries == n0 - 1 && ltd.region_entries == (XV_REGION_EXT == RE_none ? r0 : r0 - 1) && ltd.control_block == cb);
  /* the flag is cleared exactly when the relevant counter reaches 0, never while a guard is left, and by a release store */
  XV_OBL("ebr.nesting.balanced", cb->is_in_critical_region == !clear && n_flag_false == (clear ? 1u : 0u) && n_flag_true == 0 && (clear ? ltd.nested_critical_entries == 0 : 1));
  if (clear) XV_OBL("ebr.leave.release_store", XV_IS_RELEASE(flag_false_order));
  _Bool moved = check_abandon(clear);
#if XV_ABANDON != 0
  if (moved) XV_CANARY("abandon.moved");
#endif
  XV_OBL("ebr.conserve", others_unchanged() && n_other_store == 0 && global_epoch == pre.ge && cb->local_epoch == pre.cb.local_epoch && n_cas == 0 && n_release == 0);
  XV_OBL("ebr.enter.invariant", inv_td());
  if (clear) XV_CANARY("leave.cleared"); else XV_CANARY("leave.stays");
}

/* ---------------- enter_region / leave_region (region_guard) ---------------- */
void h_enter_region(void) {
  _Bool with_cb = nondet_bool(); havoc_world(with_cb);
  if (!with_cb) { acq_entry->is_in_critical_region = 0; acq_entry->state = ST_FREE; }
  XV_ASSUME(inv_td_pre()); XV_ASSUME(ltd.region_entries < MAX_CNT); take_snap();
  unsigned n0 = ltd.nested_critical_entries, r0 = ltd.region_entries; _Bool f0 = with_cb && pre.cb.is_in_critical_region;
  td_enter_region(&ltd);
  struct tcb* cb = ltd.control_block;
  XV_OBL("ebr.nesting.balanced", cb != 0 && ltd.nested_critical_entries == n0 && ltd.region_entries == (XV_REGION_EXT == RE_none ? r0 : r0 + 1));
  _Bool set = XV_REGION_EXT == RE_eager && r0 == 0;
  XV_OBL("ebr.nesting.balanced", cb->is_in_critical_region == (f0 || set) && n_flag_true == (set ? 1u : 0u) && n_flag_false == 0);
  if (set) XV_OBL("ebr.enter.flag_then_fence_then_epoch", n_sc_fence == 1 && flag_true_clk < sc_fence_clk);
#if XV_REGION_EXT == 1
  if (set) XV_CANARY("enter_region.eager_sets_flag");
#endif
  XV_OBL("ebr.conserve", lists_unchanged() && others_unchanged() && n_other_store == 0 && global_epoch == pre.ge && n_cas == 0);
  XV_OBL("ebr.adopt.reinit", n_acquire == (with_cb ? 0u : 1u) && (with_cb ? cb->local_epoch == pre.cb.local_epoch && n_le_store == 0 : 1));
  XV_OBL("ebr.enter.invariant", inv_td_r(with_cb ? le_rem : ge_first_rem));
  if (!with_cb) XV_CANARY("enter_region.first_use"); else XV_CANARY("enter_region.has_cb");
}
void h_leave_region(void) {
  havoc_world(1); XV_ASSUME(inv_td_pre());
  /* the region_guard being destroyed holds one region entry of its own (guards hold the others) */
  if (XV_REGION_EXT != RE_none) XV_ASSUME(ltd.region_entries >= ltd.nested_critical_entries + 1);
  take_snap();
  unsigned n0 = ltd.nested_critical_entries, r0 = ltd.region_entries; struct tcb* cb = ltd.control_block; _Bool f0 = cb->is_in_critical_region;
  td_leave_region(&ltd);
  _Bool clear = XV_REGION_EXT != RE_none && r0 == 1;
  XV_OBL("ebr.nesting.balanced", ltd.nested_critical_entries == n0 && ltd.region_entries == (XV_REGION_EXT == RE_none ? r0 : r0 - 1));
  /* lazy: a region in which no guard_ptr was acquired never entered the critical region: there is nothing to clear (a redundant store of false and
   * applying the abandon strategy are both harmless and both accepted) */
  _Bool nothing_to_clear = clear && !f0;
  if (nothing_to_clear && n_flag_false == 0) clear = 0;
  XV_OBL("ebr.nesting.balanced", cb->is_in_critical_region == (f0 && !clear) && n_flag_false == (clear ? 1u : 0u) && n_flag_true == 0 && (clear ? n0 == 0 : 1));
  if (clear) XV_OBL("ebr.leave.release_store", XV_IS_RELEASE(flag_false_order));
  _Bool moved = check_abandon(clear);
#if XV_ABANDON != 0 && XV_REGION_EXT != 0
  if (moved) XV_CANARY("abandon.moved");
#endif
  XV_OBL("ebr.conserve", others_unchanged() && n_other_store == 0 && global_epoch == pre.ge && cb->local_epoch == pre.cb.local_epoch && n_cas == 0);
  XV_OBL("ebr.enter.invariant", inv_td());
#if XV_REGION_EXT != 0
  if (clear) XV_CANARY("leave_region.cleared");
#endif
  if (!clear) XV_CANARY("leave_region.stays");
#if XV_REGION_EXT == 2
  if (nothing_to_clear) XV_CANARY("leave_region.lazy_without_guard");
#endif
}

/* ---------------- update_local_epoch ---------------- */
epoch_t in_old_epoch, in_new_epoch, in_tag; unsigned in_slot;
void h_update_local_epoch(void) {
  want_mid = 1; havoc_world(1); XV_ASSUME(inv_td_pre()); take_snap();
  struct tcb* cb = ltd.control_block; in_old_epoch = cb->local_epoch; unsigned rn = mid_rem; in_new_epoch = mid_epoch; XV_ASSUME(in_new_epoch > in_old_epoch); in_tag = g_tag; set_anchor(2, in_new_epoch, rn);       /* a newer global epoch was observed */
  in_slot = NE; for (unsigned s = 0; s < NE; s++) if (pre.rl[s] & g_bit) in_slot = s;
  td_update_local_epoch(&ltd, in_new_epoch);
  XV_OBL("ebr.free.three_epochs", !G_DELETED_NOW || (in_slot < NE && in_new_epoch - g_tag >= XV_GRACE));
  XV_OBL("ebr.free.index_consistent", cb->local_epoch == in_new_epoch && ltd.local_epoch_idx == rn);
  /* a list that is kept holds nodes that are younger than number_epochs epochs and sits in the slot of its tag */
  XV_OBL("ebr.free.index_consistent", inv_tag_local(in_new_epoch));
  XV_OBL("ebr.conserve", conserved() && !stub_pre_violated);
  for (unsigned s = 0; s < NE; s++) {
    XV_OBL("ebr.conserve", orphans[s].set == pre.ol[s] && (ltd.retire_lists[s].set == pre.rl[s] || (ltd.retire_lists[s].set == 0 && (deleted_mask & pre.rl[s]) == pre.rl[s])));
    /* exact effect (this is the contract the stub of the enter_critical runs implements): the lists of the epochs new, new-1, .. new-min(d,NE)+1 are freed */
    XV_OBL("ebr.free.exact", ltd.retire_lists[s].set == (ule_frees(s, rn, in_new_epoch - in_old_epoch) ? 0 : pre.rl[s]));
  }
  XV_OBL("ebr.free.exact", n_le_store == 1 && n_ge_load == 0);
  XV_OBL("ebr.conserve", others_unchanged() && n_other_store == 0 && global_epoch == pre.ge && n_cas == 0 && cb->is_in_critical_region == pre.cb.is_in_critical_region
                         && ltd.nested_critical_entries == pre.td.nested_critical_entries && ltd.region_entries == pre.td.region_entries);
  XV_OBL("ebr.scan.prefix_valid", scan_at_begin() && n_scan_reset == 1);
  if (in_slot < NE && G_DELETED_NOW) XV_CANARY("ule.freed_tracked");
  if (in_slot < NE && !G_DELETED_NOW) XV_CANARY("ule.kept_tracked");
  if (in_new_epoch - in_old_epoch >= NE) XV_CANARY("ule.missed_epochs");
  if (in_new_epoch - in_old_epoch > 0x7fffffffu) XV_CANARY("ule.distance_above_int_max");
}

/* ---------------- update_global_epoch (+ reclaim_orphans) ---------------- */
epoch_t in_global, in_curr;
void h_update_global_epoch(void) {
  havoc_world(1); XV_ASSUME(inv_td_pre()); struct tcb* cb = ltd.control_block;
  /* call site: in a critical region, local epoch e == curr_epoch was loaded from the global epoch after the flag/fence; new_epoch = e + 1 */
  XV_ASSUME(cb->is_in_critical_region && global_epoch <= cb->local_epoch + 1);
  in_curr = cb->local_epoch; in_global = global_epoch; in_tag = g_tag;
  in_slot = NE; for (unsigned s = 0; s < NE; s++) if (orphans[s].set & g_bit) in_slot = s;
  take_snap();
#ifdef XV_INT
  env_ge_on = 1; env_ge_generic = 1; env_orph_on = 1; env_ge_cap = in_curr + 1;
#endif
  epoch_t r = td_update_global_epoch(&ltd, in_curr, in_curr + 1);
  env_ge_on = env_ge_generic = env_orph_on = 0;
  XV_OBL("ebr.advance.after_scan", r == in_curr + 1 && n_cas <= 1 && !adv_bad_delta && (n_cas == 0 || cas_exp == in_curr) && n_ge_store == 0 && global_epoch >= r);
  XV_OBL("ebr.advance.sync", !adv_bad_sync && (n_cas == 0 || (n_acq_fence >= 1 && acq_fence_clk < cas_clk)));
  /* orphans are freed only by the thread whose CAS advanced the epoch, only after that CAS, and only if they are three epochs old */
  XV_OBL("ebr.orphans.slot", deleted_mask == pre.del || (n_cas == 1 && cas_ok && cas_deleted_before == 0));
  XV_OBL("ebr.orphans.slot", !G_DELETED_NOW || (in_curr + 1) - g_tag >= XV_GRACE);
  XV_OBL("ebr.orphans.slot", inv_tag_orphan());
  XV_OBL("ebr.conserve", conserved() && !stub_pre_violated);
  for (unsigned s = 0; s < NE; s++) XV_OBL("ebr.conserve", ltd.retire_lists[s].set == pre.rl[s]);
#ifndef XV_INT
  XV_OBL("ebr.advance.after_scan", global_epoch == (in_global == in_curr ? in_curr + 1 : in_global) && (n_cas == 1) == (in_global == in_curr));
  for (unsigned s = 0; s < NE; s++) XV_OBL("ebr.conserve", orphans[s].set == ((n_cas == 1 && cas_ok && s == rem_add(le_rem, 1)) ? 0 : pre.ol[s]));
  XV_OBL("ebr.conserve", others_unchanged() && n_other_store == 0 && deleted_mask == (pre.del | ((n_cas == 1 && cas_ok) ? pre.ol[rem_add(le_rem, 1)] : 0)));
#endif
  XV_OBL("ebr.conserve", cb->local_epoch == in_curr && cb->is_in_critical_region && ltd.local_epoch_idx == pre.td.local_epoch_idx);
  if (n_cas == 1 && cas_ok) XV_CANARY("uge.advanced");
#ifdef XV_INT
  if (n_cas == 1 && !cas_ok) XV_CANARY("uge.cas_lost");
#endif
  if (n_cas == 0) XV_CANARY("uge.stale");
  if (G_DELETED_NOW) XV_CANARY("uge.freed_tracked_orphan");
#ifdef XV_INT
  if (env_added & g_bit) XV_CANARY("uge.env_abandoned_tracked");
#endif
}

/* ---------------- scan strategies ---------------- */
void h_scan(void) {
  havoc_world(1); XV_ASSUME(disjoint_all()); take_snap(); epoch_t e = nondet_u64();
#ifdef XV_INT
  env_ent_on = 1;
#endif
  unsigned p0 = 0;
#if XV_SCAN == 1
  p0 = pos_of(ltd.scan_strategy.thread_iterator);
#endif
  _Bool r = scan_wrap(&ltd.scan_strategy, e);
  env_ent_on = 0;
  /* true only if every entry was seen outside a critical region or at epoch e (the tracked entry stands for every entry) */
  XV_OBL("ebr.advance.after_scan", !r || trk_ok(e));
  XV_OBL("ebr.conserve", n_other_store == 0 && n_cas == 0 && lists_unchanged() && global_epoch == pre.ge);
#if XV_SCAN == 1
  unsigned p1 = pos_of(ltd.scan_strategy.thread_iterator);
  XV_OBL("ebr.scan.prefix_valid", r == (ltd.scan_strategy.thread_iterator == 0) && p1 >= p0 && p1 <= p0 + XV_SCAN_N && (pos_of(trk) < p1 ? trk_ok(e) : 1));
  if (r) XV_CANARY("scan.n.true"); else XV_CANARY("scan.n.false");
  if (!r && p1 > p0) XV_CANARY("scan.n.partial");
#else
#ifndef XV_INT
  _Bool blocked = 0; for (unsigned i = 0; i < XV_E; i++) if (i < n_ent && seq(i)->is_in_critical_region && seq(i)->local_epoch != e) blocked = 1;
  XV_OBL("ebr.scan.exact", r == !blocked && others_unchanged());     /* entries outside a critical region (e.g. of exited threads) never block */
#endif
  if (r) XV_CANARY("scan.all.true"); else XV_CANARY("scan.all.false");
#endif
  if (r && !trk->is_in_critical_region && trk->local_epoch != e) XV_CANARY("scan.ignores_inactive_entry");
}

/* ---------------- acquire_control_block on an arbitrary left-over record ---------------- */
void h_acquire_cb(void) {
  havoc_world(0); XV_ASSUME(inv_td_pre()); acq_entry->is_in_critical_region = 0; acq_entry->state = ST_FREE; take_snap();
#ifdef XV_INT
  env_ge_on = 1; env_ge_cap = MAX_EPOCH;
#endif
  td_acquire_control_block(&ltd);
  env_ge_on = 0;
  struct tcb* cb = ltd.control_block;
  XV_OBL("ebr.adopt.reinit", cb == acq_entry && n_acquire == 1 && !cb->is_in_critical_region && n_flag_true == 0);
  XV_OBL("ebr.adopt.reinit", n_ge_load == 1 && cb->local_epoch == ge_first_val && cb->local_epoch <= global_epoch && ltd.local_epoch_idx == ge_first_rem);
  XV_OBL("ebr.adopt.reinit", scan_at_begin() && n_scan_reset == 1 && lists_empty());
  XV_OBL("ebr.conserve", lists_unchanged() && others_unchanged() && n_other_store == 0 && n_cas == 0);
  XV_OBL("ebr.enter.invariant", inv_td_r(ge_first_rem));
  XV_CANARY("acquire_cb.done");
}

/* ---------------- ~thread_data ---------------- */
void h_dtor(void) {
  _Bool with_cb = nondet_bool(); havoc_world(with_cb); XV_ASSUME(inv_td_pre());
  /* thread exit: no guard_ptr / region_guard of the thread is alive */
  XV_ASSUME(ltd.nested_critical_entries == 0 && ltd.region_entries == 0);
  if (with_cb && XV_REGION_EXT == RE_lazy) XV_ASSUME(!ltd.control_block->is_in_critical_region);
  take_snap(); struct tcb* cb = ltd.control_block;
  td_dtor(&ltd);
  XV_OBL("ebr.dtor.hands_over_all", ltd.control_block == 0 && lists_empty() && deleted_mask == pre.del && n_delete_calls == 0);
  for (unsigned s = 0; s < NE; s++) XV_OBL("ebr.orphans.slot", orphans[s].set == (pre.ol[s] | pre.rl[s]));
  XV_OBL("ebr.orphans.slot", inv_tag_orphan());
  XV_OBL("ebr.conserve", conserved() && !stub_pre_violated);
  if (with_cb) {
    /* C17: the record is released exactly once, outside a critical region: scans ignore it from now on */
    XV_OBL("ebr.dtor.releases_record", n_release == 1 && rel_entry == cb && !rel_flag && !cb->is_in_critical_region && cb->state == ST_FREE && n_flag_true == 0);
    XV_CANARY("dtor.released");
    if (pre.rl[0] | pre.rl[1] | pre.rl[2]) XV_CANARY("dtor.handed_over");
  } else { XV_OBL("ebr.dtor.releases_record", n_release == 0); XV_CANARY("dtor.never_used"); }
  XV_OBL("ebr.conserve", n_other_store == 0 && n_cas == 0 && global_epoch == pre.ge);
  XV_OBL("ebr.enter.invariant", inv_td());
}

/* ---------------- add_retired_node ---------------- */
void h_add_retired(void) {
  havoc_world(1); XV_ASSUME(inv_td_pre()); struct tcb* cb = ltd.control_block;
  XV_ASSUME(cb->is_in_critical_region);                       /* called from guard_ptr::reclaim, i.e. inside a critical region */
  XV_ASSUME((all_nodes() & g_bit) == 0); g_tag = cb->local_epoch; g_rt = le_rem;   /* the tracked node is the one being retired now: its tag is the current local epoch */
  take_snap();
  td_add_retired_node(&ltd, g_bit);
  XV_OBL("ebr.retire.slot", (ltd.retire_lists[le_rem].set & g_bit) != 0 && n_push == 1 && inv_tag_local(cb->local_epoch));
  XV_OBL("ebr.conserve", !stub_pre_violated && disjoint_all() && all_nodes() == (pre_all() | g_bit) && deleted_mask == pre.del);
  for (unsigned s = 0; s < NE; s++) XV_OBL("ebr.conserve", orphans[s].set == pre.ol[s] && (ltd.retire_lists[s].set & ~g_bit) == pre.rl[s]);
  XV_OBL("ebr.enter.invariant", inv_td());
  XV_CANARY("add_retired.done");
}

static void env_orph_hook(void) { env_orph_step(); }
