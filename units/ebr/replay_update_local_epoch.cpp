// native replay for ebr.free.three_epochs / ebr.free.index_consistent / ebr.free.exact: runs the real thread_data::update_local_epoch
// of /repo on the state cbmc found (in_old_epoch, in_new_epoch, in_tag, in_slot).  exit 0 holds, 1 violation reproduced, 2 cannot represent.
#include <xenium/reclamation/generic_epoch_based.hpp>
#include <cstdio>
#include <cstdlib>
#include <cstring>
#include <map>
#include <string>
using namespace xenium;
using R = reclamation::generic_epoch_based<>::with<policy::scan_frequency<1000000>, policy::region_extension<reclamation::region_extension::none>>;
static int deleted[4];
struct node : R::enable_concurrent_ptr<node> { int id = 0; ~node() { deleted[id]++; } };
using cptr = R::concurrent_ptr<node>;
static cptr Q;
static std::map<std::string, unsigned long long> args;
int main(int argc, char** argv) {
  for (int i = 1; i < argc; ++i) { char* eq = strchr(argv[i], '='); if (!eq) continue; args[std::string(argv[i], eq - argv[i])] = strtoull(eq + 1, 0, 0); }
  if (!args.count("in_old_epoch") || !args.count("in_new_epoch")) { printf("inputs in_old_epoch / in_new_epoch missing\n"); return 2; }
  size_t old_e = args["in_old_epoch"], new_e = args["in_new_epoch"], tag = args["in_tag"]; unsigned slot = args.count("in_slot") ? (unsigned)args["in_slot"] : 3;
  if (!(new_e > old_e)) { printf("inconsistent inputs\n"); return 2; }
  const size_t NE = R::number_epochs;
  Q.store(new node());
  { cptr::guard_ptr g; g.acquire(Q); }                    // the thread gets its control block
  auto& td = R::local_thread_data;
  R::global_epoch.store(new_e);
  td.control_block->local_epoch.store(old_e);
  td.local_epoch_idx = old_e % NE;
  node* n[3];
  for (unsigned s = 0; s < NE && s < 3; ++s) { n[s] = new node(); n[s]->id = (int)s; td.retire_lists[s].push((reclamation::detail::deletable_object*)n[s]); }   /* C-style cast: private base; std::default_delete is an empty deleter, set_deleter is a no-op */   // one node per slot: tag = the epoch of that slot
  bool tracked = slot < NE && tag <= old_e && old_e - tag < NE && tag % NE == slot;      // the tracked node of the harness is the node of slot in_slot
  td.update_local_epoch(new_e);
  int bad = 0;
  if (td.local_epoch_idx != new_e % NE) { printf("local_epoch_idx = %zu after update_local_epoch(%zu), expected %zu\n", (size_t)td.local_epoch_idx, new_e, new_e % NE); bad++; }
  if (td.control_block->local_epoch.load() != new_e) { printf("local_epoch not updated\n"); bad++; }
  for (unsigned s = 0; s < NE && s < 3; ++s) {
    size_t t = old_e - ((old_e % NE + NE - s) % NE);      // tag of slot s (may underflow for epochs < NE: then the slot would be empty in reality)
    if (t > old_e) continue;
    bool should_free = new_e - t >= 3;
    if (deleted[s] > 1) { printf("node of slot %u deleted %d times\n", s, deleted[s]); bad++; }
    if (deleted[s] == 1 && !should_free) { printf("node retired at epoch %zu (slot %u) freed at epoch %zu: distance %zu < 3\n", t, s, new_e, new_e - t); bad++; }
    if (deleted[s] == 0 && new_e - t >= NE) { printf("node retired at epoch %zu (slot %u) kept at epoch %zu although its slot is re-used\n", t, s, new_e); bad++; }
  }
  printf("update_local_epoch(%zu) from %zu: %d problem(s)%s\n", new_e, old_e, bad, tracked ? " (tracked node = node of in_slot)" : "");
  fflush(stdout);
  _Exit(bad ? 1 : 0);                                      // skip thread exit: the lists are in an arbitrary state
}
