// Native demonstration of the finding behind ebr.orphans.slot [INT] (C01 / C17):
// update_global_epoch() advances the global epoch with a CAS and only THEN adopts orphans[new_epoch % 3] and deletes them at once
// (reclaim_orphans).  A thread that already observed the new epoch can retire a node (tag = new epoch, list new_epoch % 3) and hand it
// over to exactly that orphan slot (thread exit, or abandon policy) between the CAS and the adoption.  The adopter then destroys a node that
// was retired zero epochs ago while another thread still holds a guard_ptr to it.
// The schedule point between the CAS and reclaim_orphans is injected through XENIUM_LIKELY (used only in `if (XENIUM_LIKELY(success))`);
// the xenium sources are unmodified.  exit 0: property holds, 1: violation reproduced.
#include <xenium/detail/port.hpp>
#undef XENIUM_LIKELY
static void verif_point();
#define XENIUM_LIKELY(x) (verif_point(), (x))
#include <xenium/reclamation/generic_epoch_based.hpp>
#include <atomic>
#include <cstdio>
#include <thread>

using namespace xenium;
using R = reclamation::generic_epoch_based<>::with<policy::scan_frequency<0>, policy::scan<reclamation::scan::all_threads>,
                                                   policy::region_extension<reclamation::region_extension::none>>;
static std::atomic<bool> destroyed{false};
struct node : R::enable_concurrent_ptr<node> { ~node() { destroyed.store(true); } };
using cptr = R::concurrent_ptr<node>;
using gptr = cptr::guard_ptr;
static cptr P;
static std::atomic<int> stage{0};
static bool armed = false;

static void thread_b() {            // runs to completion between A's CAS and A's reclaim_orphans
  gptr g; g.acquire(P);             // enters its critical region in the NEW epoch
  P.store(nullptr);                 // unlink
  g.reclaim();                      // retire: tag = new epoch
}                                   // thread exit: ~thread_data hands the retire lists over to the global orphan lists
static void verif_point() {
  if (!armed) return;
  armed = false;
  std::thread b(thread_b); b.join();
}
int main() {
  P.store(new node());
  bool violated = false;
  std::thread c([&] {               // reader: holds a guard_ptr to the node during the whole experiment
    gptr g; g.acquire(P);
    stage.store(1);
    while (stage.load() != 2) std::this_thread::yield();
    violated = destroyed.load();    // still guarded here
    if (violated) g = gptr{};       // (object is gone; do not touch it)
    g.reset();
  });
  while (stage.load() != 1) std::this_thread::yield();
  armed = true;
  { gptr a; a.acquire(P); }         // thread A: scan succeeds (reader is at the current epoch), CAS e -> e+1, [B runs], reclaim_orphans(e+1)
  stage.store(2);
  c.join();
  if (violated) { printf("VIOLATION: node destroyed while a guard_ptr of another thread still protects it (orphan adopted after the epoch update was retired in the new epoch)\n"); return 1; }
  printf("ok: node not destroyed while guarded\n");
  return 0;
}
