/* ---- guard_ptr / region_guard harnesses (protect side, guard algebra).  thread_data is the counting stub gs_*:
 * enter_critical / leave_critical are proved against the real text in harness_td.h ---- */
/* "the guard holds a critical entry" is the code's own notion bool(ptr): the whole marked_ptr word != 0 - true also for a MARKED NULL value
 * (nullptr, mark != 0).  All inputs range over all words (nondet_uptr), marked null included (canaries *.marked_null). */
#define NZ(w) ((w) != 0 ? 1u : 0u)
#define MARKED_NULL(w) ((w) != 0 && MP_get(w) == 0)
_Bool env_src_on;
#ifdef XV_INT
static void env_td(void);
void xv_env(void) { if (env_src_on && mon_src) *mon_src = nondet_uptr(); env_td(); }   /* env_td: generic global-epoch step for the real update_global_epoch */   /* other threads may store anything to the source at any time */
#endif
unsigned g_base;
static void g_setup(struct guard* a, struct guard* b) {
  a->ptr = nondet_uptr(); b->ptr = nondet_uptr(); g_base = nondet_uint(); XV_ASSUME(g_base < 1000);
  nest = g_base + NZ(a->ptr) + NZ(b->ptr);            /* guard invariant: every non-empty guard of the thread holds one critical entry */
  gs_enter = gs_leave = gs_add = gs_setdel = gs_enter_region = gs_leave_region = 0; gs_underflow = 0; xv_clock = 1;
  gs_enter_clk = gs_leave_clk = gs_add_clk = gs_setdel_clk = 0; mon_src = 0; mon_src_loads = 0; n_other_store = 0; n_cas = 0;
}
/* counters balanced: one enter per null->non-null, one leave per non-null->null, never both for a guard that stays non-null, no underflow */
#define BALANCED(old_a, new_a, old_b, new_b) \
  (!gs_underflow && nest == g_base + NZ(new_a) + NZ(new_b) && gs_enter <= 1 && gs_leave <= 1 \
   && gs_enter + NZ(old_a) + NZ(old_b) - gs_leave == NZ(new_a) + NZ(new_b))

void h_g_ctor(void) {
  struct guard g, o; g_setup(&g, &o); mptr o0 = o.ptr; g.ptr = 0; nest = g_base + NZ(o0);
  mptr p = nondet_uptr();
  g_ctor(&g, p);
  XV_OBL("ebr.copy.shares", g.ptr == p && o.ptr == o0);
  XV_OBL("ebr.nesting.balanced", BALANCED(0, g.ptr, o0, o.ptr) && gs_enter == NZ(p) && gs_leave == 0);
  if (p) XV_CANARY("g_ctor.nonnull"); else XV_CANARY("g_ctor.null");
  if (MARKED_NULL(p)) XV_CANARY("g_ctor.marked_null");
}
void h_g_copy(void) {
  struct guard g, s; g_setup(&g, &s); mptr s0 = s.ptr; g.ptr = 0; nest = g_base + NZ(s0);
  g_copy(&g, &s);
  XV_OBL("ebr.copy.shares", g.ptr == s0 && s.ptr == s0);
  XV_OBL("ebr.nesting.balanced", BALANCED(0, g.ptr, s0, s.ptr) && gs_enter == NZ(s0) && gs_leave == 0);
  if (s0) XV_CANARY("g_copy.nonnull"); else XV_CANARY("g_copy.null");
  if (MARKED_NULL(s0)) XV_CANARY("g_copy.marked_null");
}
void h_g_move(void) {
  struct guard g, s; g_setup(&g, &s); mptr s0 = s.ptr; g.ptr = 0; nest = g_base + NZ(s0);
  g_move(&g, &s);
  XV_OBL("ebr.move.empties_source", g.ptr == s0 && s.ptr == 0);
  XV_OBL("ebr.nesting.balanced", BALANCED(0, g.ptr, s0, s.ptr) && gs_enter == 0 && gs_leave == 0);
  if (s0) XV_CANARY("g_move.nonnull"); else XV_CANARY("g_move.null");
}
void h_g_reset(void) {
  struct guard g, o; g_setup(&g, &o); mptr g0 = g.ptr, o0 = o.ptr;
  g_reset(&g);
  XV_OBL("ebr.nesting.balanced", g.ptr == 0 && o.ptr == o0 && BALANCED(g0, 0, o0, o0) && gs_enter == 0 && gs_leave == NZ(g0));
  if (g0) XV_CANARY("g_reset.nonnull"); else XV_CANARY("g_reset.null");
  if (MARKED_NULL(g0)) XV_CANARY("g_reset.marked_null");
}
void h_g_dtor(void) {          /* detail::guard_ptr::~guard_ptr() { self().reset(); } */
  struct guard g, o; g_setup(&g, &o); mptr g0 = g.ptr, o0 = o.ptr;
  g_dtor(&g);
  XV_OBL("ebr.nesting.balanced", o.ptr == o0 && !gs_underflow && nest == g_base + NZ(o0) && gs_enter == 0 && gs_leave == NZ(g0));
  if (g0) XV_CANARY("g_dtor.nonnull"); else XV_CANARY("g_dtor.null");
  if (MARKED_NULL(g0)) XV_CANARY("g_dtor.marked_null");
}
void h_g_assign_copy(void) {
  struct guard g, s; g_setup(&g, &s); mptr g0 = g.ptr, s0 = s.ptr;
  _Bool alias = nondet_bool(); struct guard* sp = &s;
  if (alias) { sp = &g; nest = g_base + NZ(g0); s0 = g0; }
  struct guard* r = g_assign_copy(&g, sp);
  XV_OBL("ebr.copy.shares", r == &g && g.ptr == s0 && sp->ptr == s0);
  if (alias) { XV_OBL("ebr.nesting.balanced", nest == g_base + NZ(g0) && gs_enter == 0 && gs_leave == 0); XV_CANARY("g_assign_copy.self"); }
  else {
    XV_OBL("ebr.nesting.balanced", BALANCED(g0, g.ptr, s0, s.ptr) && gs_leave == NZ(g0) && gs_enter == NZ(s0));
    /* the source keeps its own critical entry while the target leaves and re-enters: the counter never drops to 0 in between */
    if (g0 && s0) { XV_OBL("ebr.nesting.balanced", gs_leave_clk < gs_enter_clk); XV_CANARY("g_assign_copy.both"); }
    if (MARKED_NULL(s0)) XV_CANARY("g_assign_copy.marked_null");
    if (!g0 && s0) XV_CANARY("g_assign_copy.into_empty");
    if (g0 && !s0) XV_CANARY("g_assign_copy.from_empty");
  }
}
void h_g_assign_move(void) {
  struct guard g, s; g_setup(&g, &s); mptr g0 = g.ptr, s0 = s.ptr;
  _Bool alias = nondet_bool(); struct guard* sp = &s;
  if (alias) { sp = &g; nest = g_base + NZ(g0); }
  struct guard* r = g_assign_move(&g, sp);
  if (alias) { XV_OBL("ebr.move.empties_source", r == &g && g.ptr == g0 && nest == g_base + NZ(g0) && gs_enter == 0 && gs_leave == 0); XV_CANARY("g_assign_move.self"); }
  else {
    XV_OBL("ebr.move.empties_source", r == &g && g.ptr == s0 && s.ptr == 0);
    XV_OBL("ebr.nesting.balanced", BALANCED(g0, g.ptr, s0, s.ptr) && gs_leave == NZ(g0) && gs_enter == 0);
    if (g0 && s0) XV_CANARY("g_assign_move.both");
    if (MARKED_NULL(s0)) XV_CANARY("g_assign_move.marked_null");
    if (!g0 && s0) XV_CANARY("g_assign_move.into_empty");
  }
}
void h_g_acquire(void) {
  struct guard g, o; g_setup(&g, &o); mptr g0 = g.ptr, o0 = o.ptr;
  mptr src = nondet_uptr(), src0 = src; int order = nondet_int(); XV_ASSUME(order >= mo_relaxed && order <= mo_seq_cst);
  mon_src = &src; env_src_on = 1;
  g_acquire(&g, &src, order);
  env_src_on = 0;
  if (g.ptr != 0) {
    if (MARKED_NULL(g.ptr)) XV_CANARY("g_acquire.marked_null");
    XV_OBL("ebr.acquire.snapshot", mon_src_loads == 2 && g.ptr == mon_src_last && mon_src_last_order == order);
    if (g0) { XV_OBL("ebr.acquire.enter_before_load", gs_enter == 0 && gs_leave == 0); XV_CANARY("g_acquire.stays_in_region"); }
    else { XV_OBL("ebr.acquire.enter_before_load", gs_enter == 1 && gs_leave == 0 && gs_enter_clk < mon_src_last_clk); XV_CANARY("g_acquire.entered"); }
  } else {
    if (mon_src_loads == 1) XV_CANARY("g_acquire.null_first");
    if (MARKED_NULL(g0)) XV_CANARY("g_acquire.was_marked_null");
#ifdef XV_INT
    else XV_CANARY("g_acquire.null_second");
#endif
  }
#ifndef XV_INT
  XV_OBL("ebr.acquire.snapshot", g.ptr == src0);
#endif
  XV_OBL("ebr.nesting.balanced", BALANCED(g0, g.ptr, o0, o.ptr) && o.ptr == o0 && n_other_store == 0);
}
void h_g_acquire_if_equal(void) {
  struct guard g, o; g_setup(&g, &o); mptr g0 = g.ptr, o0 = o.ptr;
  mptr src = nondet_uptr(), src0 = src, expected = nondet_uptr(); int order = nondet_int(); XV_ASSUME(order >= mo_relaxed && order <= mo_seq_cst);
  mon_src = &src; env_src_on = 1;
  _Bool r = g_acquire_if_equal(&g, &src, expected, order);
  env_src_on = 0;
  XV_OBL("ebr.acquire.snapshot", r == (mon_src_last == expected));                /* true <=> the last snapshot equals expected */
  XV_OBL("ebr.acquire.snapshot", r ? g.ptr == expected : g.ptr == 0);              /* false => guard empty */
  if (g.ptr != 0) {
    XV_OBL("ebr.acquire.snapshot", mon_src_loads == 2 && g.ptr == mon_src_last && mon_src_last_order == order);
    if (g0) { XV_OBL("ebr.acquire.enter_before_load", gs_enter == 0 && gs_leave == 0); XV_CANARY("g_aie.stays_in_region"); }
    else { XV_OBL("ebr.acquire.enter_before_load", gs_enter == 1 && gs_leave == 0 && gs_enter_clk < mon_src_last_clk); XV_CANARY("g_aie.entered"); }
  } else if (r) XV_CANARY("g_aie.true_null");
  else if (mon_src_loads == 1) XV_CANARY("g_aie.false_first");
#ifdef XV_INT
  else XV_CANARY("g_aie.false_second");
#endif
#ifndef XV_INT
  XV_OBL("ebr.acquire.snapshot", r == (src0 == expected) && g.ptr == (r ? src0 : 0));
#endif
  XV_OBL("ebr.nesting.balanced", BALANCED(g0, g.ptr, o0, o.ptr) && o.ptr == o0 && n_other_store == 0);
}
void h_g_reclaim(void) {
  struct guard g, o; g_setup(&g, &o); mptr g0 = g.ptr, o0 = o.ptr; deleter_t d = nondet_uint();
  XV_ASSUME(MP_get(g0) != 0);                    /* precondition of reclaim: the guard holds an object */
  g_reclaim(&g, d);
  XV_OBL("ebr.reclaim.retires_once", gs_setdel == 1 && gs_setdel_obj == MP_get(g0) && gs_setdel_d == d && gs_add == 1 && gs_add_arg == MP_get(g0)
                                     && gs_setdel_clk < gs_add_clk);
  XV_OBL("ebr.reclaim.retires_once", gs_add_clk < gs_leave_clk && gs_add_nest >= 1);   /* retired while still inside the critical region */
  XV_OBL("ebr.nesting.balanced", g.ptr == 0 && o.ptr == o0 && BALANCED(g0, 0, o0, o0) && gs_leave == 1 && gs_enter == 0);
  XV_CANARY("g_reclaim.done");
}
void h_region_guard(void) {
  struct guard g, o; g_setup(&g, &o);
  if (nondet_bool()) { rg_ctor(); XV_OBL("ebr.nesting.balanced", gs_enter_region == 1 && gs_leave_region == 0 && gs_enter == 0 && gs_leave == 0); XV_CANARY("rg.ctor"); }
  else { rg_dtor(); XV_OBL("ebr.nesting.balanced", gs_enter_region == 0 && gs_leave_region == 1 && gs_enter == 0 && gs_leave == 0); XV_CANARY("rg.dtor"); }
}
