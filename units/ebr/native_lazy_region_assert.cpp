// Native demonstration of the internal assertion that fails in run leave_region_lazy (secondary class, no effect on C01/C02/C17 with NDEBUG):
// region_extension::lazy: a region_guard in whose scope no guard_ptr was acquired never sets is_in_critical_region, but leave_region() calls
// clear_critical_region_flag() as soon as region_entries drops to 0, and that function asserts that the flag is set.
// exit 0: no assertion failure, 1: assertion failed (SIGABRT caught).
#undef NDEBUG
#include <xenium/reclamation/generic_epoch_based.hpp>
#include <csignal>
#include <cstdio>
#include <cstdlib>
using namespace xenium;
using R = reclamation::generic_epoch_based<>::with<policy::region_extension<reclamation::region_extension::lazy>>;
static void on_abort(int) { const char m[] = "VIOLATION: assert(control_block->is_in_critical_region) failed in clear_critical_region_flag for an empty lazy region_guard\n"; (void)!write(1, m, sizeof m - 1); _exit(1); }
#include <unistd.h>
int main() {
  signal(SIGABRT, on_abort);
  { R::region_guard rg; }          // no guard_ptr inside
  printf("ok: empty lazy region_guard left without assertion failure\n");
  return 0;
}
