/* unit ebr - generic_epoch_based (epoch_based / new_epoch_based / debra): C01 protect + reclaim side, C02 conservation, C17.
 * Only declarations, contract stubs, ghost state, invariants and harness functions; all function bodies come from lowered.h */
#include <stdint.h>
#include <stddef.h>
static void mon_load(void* a, uint64_t v, int o);
static void mon_store(void* a, uint64_t v, int o);
static void mon_cas(void* a, uint64_t e, uint64_t d, _Bool ok, int o);
static void mon_fence(int o);
#define XV_ON_LOAD(addr, val, order) mon_load((void*)(addr), (uint64_t)(val), (order))
#define XV_ON_STORE(addr, val, order) mon_store((void*)(addr), (uint64_t)(val), (order))
#define XV_ON_CAS(addr, e, d, ok, order) mon_cas((void*)(addr), (uint64_t)(e), (uint64_t)(d), (ok), (order))
#define XV_ON_FENCE(order) mon_fence(order)
#include "xv.h"
int xv_threw; uint64_t xv_clock, xv_rmw_old; _Bool xv_cas_ok;

/* ---------------- configuration (defs of a run) ---------------- */
enum { RE_none = 0, RE_eager = 1, RE_lazy = 2 };          /* enum class region_extension */
#ifndef XV_REGION_EXT
#define XV_REGION_EXT RE_eager                            /* Traits::region_extension_type */
#endif
#ifndef XV_SCAN
#define XV_SCAN 0                                         /* 0: scan::all_threads   1: scan::n_threads<XV_SCAN_N> (one_thread = n_threads<1>) */
#endif
#ifndef XV_SCAN_N
#define XV_SCAN_N 1
#endif
#ifndef XV_ABANDON
#define XV_ABANDON 0                                      /* 0 never, 1 always, 2 when_exceeds_threshold<in_threshold> */
#endif
#ifndef XV_E
#define XV_E 3                                            /* entries in the global thread list */
#endif
#define XV_MAXNE 3                                        /* array shape; number_epochs itself is read from the header */
#define XV_GRACE 3                                        /* what the algorithm needs: a node retired with tag t may be freed at epoch n only if n - t >= 3 */
#define TSAN_MEMORY_ORDER(tsan_order, normal_order) normal_order   /* port.hpp, non-TSan branch */
#define XV_MIN_INT(a, b) ((int)(a) < (int)(b) ? (int)(a) : (int)(b))   /* std::min<int> */
#define XV_MIN_EPOCH(a, b) ((epoch_t)(a) < (epoch_t)(b) ? (epoch_t)(a) : (epoch_t)(b))   /* std::min<epoch_t> (repaired tree) */
#define CHAIN_last(c) (c)                                 /* last node of a non-empty chain (repaired tree); chain = node set */
size_t in_scan_freq;                                      /* Traits::scan_frequency: symbolic */
size_t in_threshold;                                      /* when_exceeds_threshold<Threshold>: symbolic, >= 1 */
#define XV_SCAN_FREQ in_scan_freq
#define XV_THRESHOLD in_threshold

/* ---------------- types ---------------- */
typedef uint64_t epoch_t;                                 /* using epoch_t = size_t */
typedef uintptr_t mptr;                                   /* marked_ptr word; 0 <=> (nullptr, mark 0); operator bool / == on the whole word */
typedef uint32_t chain_t;                                 /* deletable_object* as head of a chain: abstracted to the SET of ghost nodes of the chain (bit k = node k); nullptr = 0 */
typedef unsigned deleter_t;
struct guard { mptr ptr; };
struct rnodes { chain_t first; chain_t last; };           /* retired_nodes<> */
struct rlist { chain_t set; };                            /* retire_list<> / counting_retire_list<> */
struct olist { chain_t set; };                            /* orphan_list<> */
enum { ST_FREE = 0, ST_INACTIVE = 1, ST_ACTIVE = 2 };
struct tcb { _Bool is_in_critical_region; epoch_t local_epoch; struct tcb* next_entry; int state; };
struct tbl { struct tcb* head; };
struct scan_all { int unused; };
struct scan_n { struct tcb* thread_iterator; };
#if XV_SCAN == 0
typedef struct scan_all scan_t;
#else
typedef struct scan_n scan_t;
#endif
struct td { unsigned critical_entries_since_update, nested_critical_entries, region_entries; scan_t scan_strategy;
            struct tcb* control_block; epoch_t local_epoch_idx; struct rlist retire_lists[XV_MAXNE]; };
static const struct rnodes xv_no_nodes = {0, 0};

/* ---------------- shared state ---------------- */
epoch_t global_epoch;
struct tbl global_thread_block_list;
struct olist orphans[XV_MAXNE];
struct td ltd;
#define local_thread_data ltd
/* the thread list: n_ent <= XV_E records; the record of this thread (own_cb) sits at position own, the others (oth[]) keep their order */
struct tcb own_cb, oth[XV_E]; unsigned n_ent; unsigned own;
static struct tcb* seq(unsigned i) { return i == own ? &own_cb : &oth[i < own ? i : i - 1]; }

/* ================= guard level: thread_data is a stub that counts ================= */
#define MARK_MASK ((mptr)3)
#define MP_get(w) ((w) & ~MARK_MASK)
#define MP_reset(x) ((x) = 0)
#define MarkedPtr(g) ((g)->ptr)                            /* detail::guard_ptr::operator MarkedPtr() */
#define XV_INIT_base(self, v) ((self)->ptr = (v))          /* detail::guard_ptr(const MarkedPtr& p) : ptr(p) */
#define XV_INIT_guard_ptr(self, v) g_ctor((self), (v))     /* delegating constructor */
static void g_ctor(struct guard* self, mptr p);
static void g_reset(struct guard* self);
static void g_dtor(struct guard* self);
unsigned nest;                                             /* model of nested_critical_entries for the guard level */
unsigned gs_enter, gs_leave, gs_add, gs_setdel, gs_enter_region, gs_leave_region; _Bool gs_underflow;
uint64_t gs_enter_clk, gs_leave_clk, gs_add_clk, gs_setdel_clk; unsigned gs_add_nest;
uintptr_t gs_add_arg, gs_setdel_obj, gs_deref_arg; deleter_t gs_setdel_d;
static void gs_enter_critical(void) { gs_enter++; nest++; gs_enter_clk = xv_clock++; }
static void gs_leave_critical(void) { gs_leave++; if (nest == 0) gs_underflow = 1; nest--; gs_leave_clk = xv_clock++; }
static void gs_add_retired_node(uintptr_t o) { gs_add++; gs_add_arg = o; gs_add_nest = nest; gs_add_clk = xv_clock++; }
struct obj { int unused; } the_obj;
static struct obj* gderef(mptr m) { gs_deref_arg = MP_get(m); return &the_obj; }    /* marked_ptr::operator-> == get() */
static void obj_set_deleter(struct obj* o, deleter_t d) { gs_setdel++; gs_setdel_obj = gs_deref_arg; gs_setdel_d = d; gs_setdel_clk = xv_clock++; }
#define GDEREF(m) gderef(m)
#define OBJ_set_deleter(o, d) obj_set_deleter(&(o), (d))
#define TD_enter_critical(td) gs_enter_critical()
#define TD_leave_critical(td) gs_leave_critical()
#define TD_add_retired_node(td, o) gs_add_retired_node(o)
#define TD_enter_region(td) ((void)gs_enter_region++)
#define TD_leave_region(td) ((void)gs_leave_region++)

/* ================= thread_data level ================= */
/* ---- ghost: retired nodes ---- */
chain_t deleted_mask;                 /* nodes whose delete_self has run */
chain_t g_bit; epoch_t g_tag;         /* the tracked node and the local epoch of its retiring thread at the time it was retired */
unsigned n_delete_calls, n_steal, n_ol_add, n_ol_adopt, n_push; _Bool del_twice, stub_pre_violated;
chain_t deleted_in_call; uint64_t last_delete_clk;
chain_t in_flight;                    /* chains taken out of a list by steal/adopt and not yet deleted or put into a list */
#ifdef XV_INT
void xv_env(void);
#endif
/* retire_list / counting_retire_list (contracts proved in unit rlist): push adds the node, steal returns the whole chain and leaves the
 * list empty, size() = number of nodes, empty() <=> no nodes */
static _Bool rl_empty(struct rlist* l) { return l->set == 0; }
static struct rnodes rl_steal(struct rlist* l) { struct rnodes r; r.first = l->set; r.last = l->set; in_flight |= l->set; l->set = 0; n_steal++; return r; }
static chain_t all_nodes(void);
static void rl_push(struct rlist* l, chain_t node) {
  if (node == 0 || (node & (node - 1)) != 0 || (node & all_nodes()) != 0) stub_pre_violated = 1;   /* one node, in no list, not deleted */
  l->set |= node; n_push++;
}
static size_t rl_size(struct rlist* l) { return (size_t)__builtin_popcount(l->set); }
/* orphan_list: add splices a non-empty chain in, adopt takes everything; both are atomic accesses (environment step in INT mode) */
static void env_orph_hook(void);
static void ol_add(struct olist* o, struct rnodes n) {
  env_orph_hook(); xv_clock++;
  if (n.first == 0 || (n.first & o->set) != 0) stub_pre_violated = 1;
  o->set |= n.first; in_flight &= ~n.first; n_ol_add++;
}
static chain_t ol_adopt(struct olist* o) { env_orph_hook(); xv_clock++; chain_t r = o->set; o->set = 0; in_flight |= r; n_ol_adopt++; return r; }
/* delete_objects(list): delete_self on every node of the chain, exactly once each; list = nullptr */
static void delete_objects(chain_t* list) {
  if ((*list & deleted_mask) != 0) del_twice = 1;
  deleted_mask |= *list; deleted_in_call |= *list; in_flight &= ~*list; *list = 0; n_delete_calls++; last_delete_clk = xv_clock++;
}
#define RL_empty(l) rl_empty(&(l))
#define RL_steal(l) rl_steal(&(l))
#define RL_push(l, n) rl_push(&(l), (n))
#define RL_size(l) rl_size(&(l))
#define OL_add(o, n) ol_add(&(o), (n))
#define OL_adopt(o) ol_adopt(&(o))
#define DELETE_OBJECTS(x) delete_objects(&(x))
static chain_t all_nodes(void) {
  chain_t u = deleted_mask | in_flight;
  for (unsigned i = 0; i < XV_MAXNE; i++) u |= ltd.retire_lists[i].set | orphans[i].set;
  return u;
}
/* thread_block_list (contracts proved in unit tbl): iteration visits every entry once; acquire_entry returns an exclusively owned
 * active record that is either new or an ARBITRARY left-over one; release_entry frees an active record */
struct tcb* acq_entry; unsigned n_acquire, n_release; struct tcb* rel_entry; _Bool rel_flag;
void* own_flag_addr; void* own_le_addr; void* trk_flag_addr; void* trk_le_addr;   /* addresses the monitors compare against (kept as values: no dereference in the monitors) */
static struct tcb* tbl_acquire_entry(void) { n_acquire++; acq_entry->state = ST_ACTIVE; own_flag_addr = &acq_entry->is_in_critical_region; own_le_addr = &acq_entry->local_epoch; return acq_entry; }
static void tbl_release_entry(struct tcb* e) { if (e->state != ST_ACTIVE) stub_pre_violated = 1; e->state = ST_FREE; n_release++; rel_entry = e; rel_flag = e->is_in_critical_region; }
#define TBL_acquire_entry(l) tbl_acquire_entry()
#define TBL_release_entry(l, e) tbl_release_entry(e)
#define TBL_begin(l) ((l).head)
#define TBL_end(l) ((struct tcb*)0)
#define IT_INC(it) ((it) = (it)->next_entry)               /* iterator::operator++ */
/* std::any_of(first, last, pred): true iff pred holds for some element; the lambda captures epoch by value */
static _Bool scan_all_prevents_update(epoch_t epoch, struct tcb* data_p);
static _Bool xv_any_of(struct tcb* b, struct tcb* e, epoch_t captured_epoch) {
  for (struct tcb* it = b; it != e; it = it->next_entry) if (scan_all_prevents_update(captured_epoch, it)) return 1;
  return 0;
}
#define XV_ANY_OF(b, e, pred) xv_any_of((b), (e), epoch)
/* abandon strategy dispatch (Traits::abandon_strategy) */
static void abandon_never_apply(struct rlist*, struct olist*);
static void abandon_always_apply(struct rlist*, struct olist*);
static void abandon_threshold_apply(struct rlist*, struct olist*);
#if XV_ABANDON == 0
#define ABANDON_apply(l, o) abandon_never_apply(&(l), &(o))
#elif XV_ABANDON == 1
#define ABANDON_apply(l, o) abandon_always_apply(&(l), &(o))
#else
#define ABANDON_apply(l, o) abandon_threshold_apply(&(l), &(o))
#endif
/* scan strategy dispatch (Traits::scan_strategy::type<generic_epoch_based>) with ghost bracket */
static _Bool scan_all_scan(struct scan_all* self, epoch_t epoch);
static _Bool scan_n_scan(struct scan_n* self, epoch_t epoch);
static void scan_all_reset(struct scan_all* self);
static void scan_n_reset(struct scan_n* self);
struct tcb* trk; _Bool trk_prevalid;                       /* an arbitrary entry of the thread list */
_Bool in_scan, scan_done, scan_ret; epoch_t scan_arg; unsigned n_scan, n_scan_reset; uint64_t scan_end_clk;
static _Bool scan_wrap(scan_t* s, epoch_t e) {
  in_scan = 1; scan_arg = e; n_scan++;
#if XV_SCAN == 0
  _Bool r = scan_all_scan(s, e);
#else
  _Bool r = scan_n_scan(s, e);
#endif
  in_scan = 0; scan_done = 1; scan_ret = r; scan_end_clk = xv_clock; return r;
}
static void scan_reset_wrap(scan_t* s) {
  n_scan_reset++; trk_prevalid = 0;      /* reset(): the validated prefix is empty again */
#if XV_SCAN == 0
  scan_all_reset(s);
#else
  scan_n_reset(s);
#endif
}
#define SCAN_scan(s, e) scan_wrap(&(s), (e))
#define SCAN_reset(s) scan_reset_wrap(&(s))

/* prototypes of the lowered thread_data functions (they call each other) */
static void td_dtor(struct td* self);
static void td_enter_region(struct td* self);
static void td_leave_region(struct td* self);
static void td_enter_critical(struct td* self);
static void td_leave_critical(struct td* self);
static void td_ensure_has_control_block(struct td* self);
static void td_acquire_control_block(struct td* self);
static void td_set_critical_region_flag(struct td* self);
static void td_clear_critical_region_flag(struct td* self);
static void td_do_enter_critical(struct td* self);
static void td_update_local_epoch(struct td* self, epoch_t new_epoch);
static epoch_t td_update_global_epoch(struct td* self, epoch_t curr_epoch, epoch_t new_epoch);
static void td_add_retired_node(struct td* self, chain_t p);
static void td_reclaim_orphans(struct td* self, epoch_t epoch);
static struct rnodes td_adopt_orphans(struct td* self, epoch_t epoch);

static void stub_update_local_epoch(struct td* self, epoch_t new_epoch);
static epoch_t stub_update_global_epoch(struct td* self, epoch_t curr_epoch, epoch_t new_epoch);
static void stub_do_enter_critical(struct td* self);
#ifdef XV_STUB_DO_ENTER
#define CALL_do_enter_critical stub_do_enter_critical
#else
#define CALL_do_enter_critical td_do_enter_critical
#endif
#ifdef XV_STUB_UPDATE
#define CALL_update_local_epoch stub_update_local_epoch
#define CALL_update_global_epoch stub_update_global_epoch
#else
#define CALL_update_local_epoch td_update_local_epoch
#define CALL_update_global_epoch td_update_global_epoch
#endif
epoch_t xv_mod_ne(epoch_t x);
#define XV_MOD_NE(x) xv_mod_ne(x)                          /* x % number_epochs, see harness_td.h */
/* ---------------- monitors ---------------- */
unsigned g_rt, le_rem, ge_rem, ge_acq_rem, ge_first_rem;   /* ghost remainders modulo number_epochs, see harness_td.h */
mptr* mon_src; unsigned mon_src_loads; mptr mon_src_last; int mon_src_last_order; uint64_t mon_src_last_clk;
_Bool trk_flag_seen, trk_flag_val, trk_ep_seen; epoch_t trk_ep_val; uint64_t last_scan_load_clk;
unsigned n_flag_true, n_flag_false; uint64_t flag_true_clk, flag_false_clk; int flag_true_order, flag_false_order;
unsigned n_sc_fence, n_acq_fence; uint64_t sc_fence_clk, acq_fence_clk;
unsigned n_ge_load; uint64_t ge_first_clk; int ge_first_order; epoch_t ge_first_val; uint64_t ge_acq_clk; epoch_t ge_acq_val; _Bool ge_acq_seen;
unsigned n_le_store; epoch_t le_store_val; unsigned n_other_store, n_ge_store;
unsigned n_cas; _Bool cas_ok; epoch_t cas_exp, cas_des; int cas_order; uint64_t cas_clk; chain_t cas_deleted_before;
_Bool expect_scan;                                         /* this harness runs the scan: a CAS must be justified by it */
_Bool adv_bad_delta, adv_no_scan, adv_trk_unchecked, adv_bad_sync;
#include "lowered.h"
_Static_assert(number_epochs >= 2 && number_epochs <= XV_MAXNE, "array shape XV_MAXNE too small for number_epochs");
#define NE number_epochs
static _Bool trk_ok(epoch_t e) {
  return trk_prevalid || (trk_flag_seen && (!trk_flag_val || (trk_ep_seen && trk_ep_val == e)));
}
#ifdef XV_INT
static void env_ge_step(void); static _Bool env_ent_step(void* a);
#endif
static void mon_load(void* a, uint64_t v, int o) {
#ifdef XV_INT
  /* targeted environment steps: the cell is rewritten right before it is read (the macro reads the cell after this monitor) */
  if (a == (void*)&global_epoch) { env_ge_step(); v = global_epoch; }
  else if (in_scan && env_ent_step(a)) { if (a == trk_flag_addr) v = trk->is_in_critical_region; if (a == trk_le_addr) v = trk->local_epoch; }
#endif
  if (mon_src && a == (void*)mon_src) { mon_src_loads++; mon_src_last = (mptr)v; mon_src_last_order = o; mon_src_last_clk = xv_clock; }
  if (a == (void*)&global_epoch) {
    if (n_ge_load == 0) { ge_first_clk = xv_clock; ge_first_order = o; ge_first_val = v; ge_first_rem = ge_rem; }
    if (XV_IS_ACQUIRE(o) && !ge_acq_seen) { ge_acq_seen = 1; ge_acq_clk = xv_clock; ge_acq_val = v; ge_acq_rem = ge_rem; }
    n_ge_load++;
  }
  if (in_scan) {
    last_scan_load_clk = xv_clock;
    if (a == trk_flag_addr) { trk_flag_seen = 1; trk_flag_val = (_Bool)v; trk_ep_seen = 0; }
    if (a == trk_le_addr) { trk_ep_seen = 1; trk_ep_val = v; }
  }
}
static void mon_store(void* a, uint64_t v, int o) {
  if (a == own_flag_addr) {
    if (v) { n_flag_true++; flag_true_clk = xv_clock; flag_true_order = o; } else { n_flag_false++; flag_false_clk = xv_clock; flag_false_order = o; }
  } else if (a == own_le_addr) { n_le_store++; le_store_val = v; }
  else if (a == (void*)&global_epoch) n_ge_store++;
  else n_other_store++;
}
static void mon_cas(void* a, uint64_t e, uint64_t d, _Bool ok, int o) {
  if (a == (void*)&global_epoch) {
    n_cas++; cas_ok = ok; cas_exp = e; cas_des = d; cas_order = o; cas_clk = xv_clock; cas_deleted_before = deleted_in_call;
    if (d != e + 1) adv_bad_delta = 1;
    if (expect_scan) {
      if (!(scan_done && scan_ret && scan_arg == e)) adv_no_scan = 1;
      if (!trk_ok(e)) adv_trk_unchecked = 1;
      if (!(n_acq_fence >= 1 && acq_fence_clk > last_scan_load_clk)) adv_bad_sync = 1;
    }
    if (!XV_IS_RELEASE(o)) adv_bad_sync = 1;
    if (ok) ge_rem = (ge_rem + 1) % (unsigned)number_epochs;     /* only meaningful for d == e + 1, which adv_bad_delta checks */
  } else n_other_store++;
}
static void mon_fence(int o) {
  if (o == mo_seq_cst) { n_sc_fence++; sc_fence_clk = xv_clock; }
  if (XV_IS_ACQUIRE(o)) { n_acq_fence++; acq_fence_clk = xv_clock; }
}

#include "harness_guard.h"
#include "harness_td.h"
