// native replay for ebr.orphans.slot [INT] on update_global_epoch: this thread is in a critical region at epoch in_curr, the global epoch is
// in_global; the tracked orphan (tag in_tag) is either already in its slot (in_slot < 3) or is abandoned by another thread as soon as its tag
// is <= the global epoch - which, for tag == in_curr + 1, is the moment right after this thread's CAS (schedule point injected through
// XENIUM_LIKELY, the sources are unmodified).  exit 0 holds, 1 violation reproduced, 2 cannot represent.
#include <xenium/detail/port.hpp>
#undef XENIUM_LIKELY
static void verif_point();
#define XENIUM_LIKELY(x) (verif_point(), (x))
#include <xenium/reclamation/generic_epoch_based.hpp>
#include <cstdio>
#include <cstdlib>
#include <cstring>
#include <map>
#include <string>
using namespace xenium;
using R = reclamation::generic_epoch_based<>::with<policy::scan_frequency<1000000>, policy::region_extension<reclamation::region_extension::none>>;
static int deleted_cnt;
struct node : R::enable_concurrent_ptr<node> { ~node() { deleted_cnt++; } };
using cptr = R::concurrent_ptr<node>;
static cptr Q;
static std::map<std::string, unsigned long long> args;
static node* orphan; static size_t tag; static bool pending;
static void abandon_now() {          // what another thread's ~thread_data / abandon policy does with a list of slot tag % 3
  auto* o = (reclamation::detail::deletable_object*)orphan;      /* C-style cast: private base */
  reclamation::detail::retired_nodes<> r{o, o}; o->next = nullptr;
  R::orphans[tag % R::number_epochs].add(r); pending = false;
}
static void verif_point() { if (pending && tag <= R::global_epoch.load()) abandon_now(); }
int main(int argc, char** argv) {
  for (int i = 1; i < argc; ++i) { char* eq = strchr(argv[i], '='); if (!eq) continue; args[std::string(argv[i], eq - argv[i])] = strtoull(eq + 1, 0, 0); }
  if (!args.count("in_curr") || !args.count("in_tag")) { printf("inputs in_curr / in_tag missing\n"); return 2; }
  size_t curr = args["in_curr"], global = args.count("in_global") ? args["in_global"] : curr; tag = args["in_tag"];
  unsigned slot = args.count("in_slot") ? (unsigned)args["in_slot"] : 3;
  if (global < curr || global > curr + 1 || tag > curr + 1) { printf("inputs outside the rely (global in {curr, curr+1}, tag <= curr+1)\n"); return 2; }
  Q.store(new node());
  cptr::guard_ptr g; g.acquire(Q);                         // control block, inside a critical region
  auto& td = R::local_thread_data;
  R::global_epoch.store(global);
  td.control_block->local_epoch.store(curr); td.local_epoch_idx = curr % R::number_epochs;
  orphan = new node(); deleted_cnt = 0; pending = true;
  if (slot < 3) { if (tag > global) { printf("inconsistent inputs\n"); return 2; } abandon_now(); }
  td.update_global_epoch(curr, curr + 1);
  int bad = 0;
  if (deleted_cnt > 1) { printf("orphan deleted twice\n"); bad++; }
  if (deleted_cnt == 1 && (curr + 1) - tag < 3) { printf("orphan retired at epoch %zu destroyed by the thread that advanced the epoch to %zu: distance %zu < 3\n", tag, curr + 1, curr + 1 - tag); bad++; }
  printf("update_global_epoch(%zu -> %zu), global was %zu, orphan tag %zu: %s, %d problem(s)\n", curr, curr + 1, global, tag, deleted_cnt ? "destroyed" : "kept", bad);
  fflush(stdout);
  _Exit(bad ? 1 : 0);
}
