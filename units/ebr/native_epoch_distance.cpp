// Native demonstration of the finding behind ebr.free.index_consistent (C01):
// update_local_epoch() computes  diff = std::min<int>(number_epochs, static_cast<int>(new_epoch - old_epoch)).  epoch_t is 64 bit; when a
// thread has been outside critical regions while the global epoch advanced by d with (int)d <= 0 (first at d = 2^31), diff is <= 0, the loop
// is skipped and local_epoch_idx keeps its old value although local_epoch was set to new_epoch.  From then on the thread files retired nodes
// under the wrong slot and frees them after only 1 or 2 further epochs instead of 3 - while a reader that entered its critical region one
// epoch later legitimately still uses the node.
// The long idle period is simulated by setting global_epoch directly (-fno-access-control); everything else is the unmodified library.
// exit 0: property holds, 1: violation reproduced.
#include <xenium/reclamation/generic_epoch_based.hpp>
#include <atomic>
#include <cstdio>
#include <thread>

using namespace xenium;
using R = reclamation::generic_epoch_based<>::with<policy::scan_frequency<0>, policy::scan<reclamation::scan::all_threads>,
                                                   policy::region_extension<reclamation::region_extension::none>>;
static std::atomic<bool> destroyed{false};
struct node : R::enable_concurrent_ptr<node> { bool tracked = false; ~node() { if (tracked) destroyed.store(true); } };
using cptr = R::concurrent_ptr<node>;
using gptr = cptr::guard_ptr;
static cptr P, Q;
static std::atomic<int> stage{0};

int main(int argc, char** argv) {
  unsigned long long dist = (1ull << 31) + 2;                 // epochs that passed while the writer thread was idle
  for (int i = 1; i < argc; ++i) { unsigned long long v; if (sscanf(argv[i], "in_dist=%llu", &v) == 1) dist = v; }
  node* x = new node(); x->tracked = true; P.store(x); Q.store(new node());
  { gptr g; g.acquire(Q); }                                   // writer W gets its control block: local_epoch = 0, local_epoch_idx = 0
  R::global_epoch.store(R::global_epoch.load() + dist);       // ... W is idle for `dist` epochs
  const auto E = R::global_epoch.load();
  gptr w; w.acquire(P);                                       // W enters: update_local_epoch(E); W stays in its critical region and holds x
  printf("epoch %zu: W.local_epoch_idx = %zu, epoch %% 3 = %zu\n", (size_t)E, (size_t)R::local_thread_data.local_epoch_idx, (size_t)(E % 3));
  bool violated = false;
  std::thread r([&] {                                         // reader: advances the epoch to E+1 (W is at E) and takes a guard to x in epoch E+1
    gptr g; g.acquire(P);
    stage.store(1);
    while (stage.load() != 2) std::this_thread::yield();
    violated = destroyed.load();                              // x is still guarded here
    g.reset();
  });
  while (stage.load() != 1) std::this_thread::yield();
  P.store(nullptr);                                           // W unlinks x ...
  w.reclaim();                                                // ... and retires it at local epoch E; leaves its critical region
  { gptr g; g.acquire(Q); }                                   // W observes E+1
  { gptr g; g.acquire(Q); }                                   // W scans (reader is at E+1), advances to E+2 and frees the list of slot (E+2) % 3
  printf("global epoch now %zu (x was retired at %zu)\n", (size_t)R::global_epoch.load(), (size_t)E);
  stage.store(2);
  r.join();
  if (violated) { printf("VIOLATION: node retired at epoch E destroyed at epoch E+2 while a guard_ptr taken at epoch E+1 still protects it\n"); return 1; }
  printf("ok: node not destroyed while guarded\n");
  return 0;
}
