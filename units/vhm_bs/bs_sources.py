# shared by units vhm_bs and vhm (exec'd from their unit.py): extraction tables for vyukov_hash_map::bucket_state
# and the layout constants, all read from the headers on every run.
IMPL = 'xenium/impl/vyukov_hash_map.hpp'
HDR = 'xenium/vyukov_hash_map.hpp'
UTILS = 'xenium/utils.hpp'

BS_CONSTS = [
  dict(name='bucket_item_count', file=HDR, regex=r'static constexpr std::uint32_t bucket_item_count = ([^;]+);'),
  dict(name='item_counter_bits', file=IMPL, regex=r'static constexpr std::size_t item_counter_bits = ([^;]+);',
       subst=[(r'utils::find_last_bit_set', 'real_find_last_bit_set')]),
  dict(name='item_count_shift', file=IMPL, regex=r'static constexpr std::size_t item_count_shift = ([^;]+);'),
  dict(name='delete_marker_shift', file=IMPL, regex=r'static constexpr std::size_t delete_marker_shift = ([^;]+);'),
  dict(name='version_shift', file=IMPL, regex=r'static constexpr std::size_t version_shift = ([^;]+);'),
  dict(name='bs_lock', file=IMPL, regex=r'static constexpr std::uint32_t lock = ([^;]+);'),
  dict(name='version_inc', file=IMPL, regex=r'static constexpr std::uint32_t version_inc = ([^;]+);'),
  dict(name='item_count_inc', file=IMPL, regex=r'static constexpr std::uint32_t item_count_inc = ([^;]+);'),
  dict(name='item_count_mask', file=IMPL, regex=r'static constexpr std::uint32_t item_count_mask = ([^;]+);'),
]

_BS = dict(file=IMPL, members=[],
           calls={'bucket_state': 'BS_MK'},
           methods={'item_count': 'BS_item_count', 'delete_marker': 'BS_delete_marker'},
           self_calls={'item_count': 'bs_item_count', 'delete_marker': 'bs_delete_marker'},
           pre_subst=[(r'\bbucket_state (\w+)\(([^;]*)\);', r'bstate_t \1 = BS_MK(\2);', 'ctor_decl')],
           subst=[(r'\block\b', 'bs_lock', 'lock_const')],
           post_subst=[(r'\bself\b', 'value', 'this_value')])   # bucket_state is passed by value: `this` is the word itself

def _bs(id, sig, ret, args='', **kw):
    d = dict(_BS); d.update(id='bs_' + id, sig=sig, c_sig='static %s bs_%s(bstate_t value%s)' % (ret, id, args)); d.update(kw)
    return d

BS_SOURCES = [
  dict(id='find_last_bit_set', file=UTILS, sig=r'constexpr unsigned find_last_bit_set\(T val\)',
       c_sig='static unsigned real_find_last_bit_set(uint64_t val)', must_fire={}),
  _bs('item_count', r'std::uint32_t item_count\(\) const noexcept', 'uint32_t', must_fire={}),
  _bs('delete_marker', r'std::uint32_t delete_marker\(\) const noexcept', 'uint32_t', must_fire={}),
  _bs('version', r'std::uint32_t version\(\) const noexcept', 'uint32_t', must_fire={}),
  _bs('is_locked', r'bool is_locked\(\) const noexcept', '_Bool', must_fire={'subst:lock_const': 1}),
  _bs('locked', r'bucket_state locked\(\) const noexcept', 'bstate_t', must_fire={'call:bucket_state': 1, 'subst:lock_const': 1}),
  _bs('clear_lock', r'bucket_state clear_lock\(\) const', 'bstate_t', must_fire={'call:bucket_state': 1, 'subst:lock_const': 2}),
  _bs('new_version', r'bucket_state new_version\(\) const noexcept', 'bstate_t', must_fire={'call:bucket_state': 1}),
  _bs('inc_item_count', r'bucket_state inc_item_count\(\) const', 'bstate_t',
      must_fire={'subst:ctor_decl': 1, 'method:item_count': 1, 'self_call:item_count': 2}),
  _bs('dec_item_count', r'bucket_state dec_item_count\(\) const', 'bstate_t',
      must_fire={'subst:ctor_decl': 1, 'method:item_count': 1, 'self_call:item_count': 2}),
  _bs('set_delete_marker', r'bucket_state set_delete_marker\(std::uint32_t marker\) const', 'bstate_t', ', uint32_t marker',
      must_fire={'subst:ctor_decl': 1, 'method:delete_marker': 1, 'self_call:delete_marker': 1}),
]

