/* C view of vyukov_hash_map::bucket_state shared by units vhm_bs and vhm; include BEFORE "lowered.h".
 * bucket_state has a single data member `std::uint32_t value`; it is modelled as that word and passed by value
 * (`this->value` is the parameter `value`). */
#ifndef BS_PRELUDE_H
#define BS_PRELUDE_H
typedef uint32_t bstate_t;
#define BS_MK(x) ((bstate_t)(x))           /* the private constructor bucket_state(std::uint32_t) */
static unsigned real_find_last_bit_set(uint64_t val);
static uint32_t bs_item_count(bstate_t value);
static uint32_t bs_delete_marker(bstate_t value);
static uint32_t bs_version(bstate_t value);
static _Bool bs_is_locked(bstate_t value);
static bstate_t bs_locked(bstate_t value);
static bstate_t bs_clear_lock(bstate_t value);
static bstate_t bs_new_version(bstate_t value);
static bstate_t bs_inc_item_count(bstate_t value);
static bstate_t bs_dec_item_count(bstate_t value);
static bstate_t bs_set_delete_marker(bstate_t value, uint32_t marker);
#define BS_item_count(s) bs_item_count((s))
#define BS_delete_marker(s) bs_delete_marker((s))
#define BS_version(s) bs_version((s))
#define BS_is_locked(s) bs_is_locked((s))
#define BS_locked(s) bs_locked((s))
#define BS_clear_lock(s) bs_clear_lock((s))
#define BS_new_version(s) bs_new_version((s))
#define BS_inc_item_count(s) bs_inc_item_count((s))
#define BS_dec_item_count(s) bs_dec_item_count((s))
#define BS_set_delete_marker(s, m) bs_set_delete_marker((s), (m))
#endif
