/* C view of vyukov_hash_map::bucket_state shared by units vhm_bs and vhm; include BEFORE "lowered.h".
 * bucket_state has a single data member `std::uint32_t value`; it is modelled as that word. */
#ifndef BS_PRELUDE_H
#define BS_PRELUDE_H
typedef uint32_t bstate_t;
struct bsv { uint32_t value; };            /* `this` of a bucket_state member function */
#define BS_MK(x) ((bstate_t)(x))           /* the private constructor bucket_state(std::uint32_t) */
static unsigned real_find_last_bit_set(uint64_t val);
static uint32_t bs_item_count(const struct bsv* self);
static uint32_t bs_delete_marker(const struct bsv* self);
static uint32_t bs_version(const struct bsv* self);
static _Bool bs_is_locked(const struct bsv* self);
static bstate_t bs_locked(const struct bsv* self);
static bstate_t bs_clear_lock(const struct bsv* self);
static bstate_t bs_new_version(const struct bsv* self);
static bstate_t bs_inc_item_count(const struct bsv* self);
static bstate_t bs_dec_item_count(const struct bsv* self);
static bstate_t bs_set_delete_marker(const struct bsv* self, uint32_t marker);
#define BS_THIS(s) (&(struct bsv){ (s) })
#define BS_item_count(s) bs_item_count(BS_THIS(s))
#define BS_delete_marker(s) bs_delete_marker(BS_THIS(s))
#define BS_version(s) bs_version(BS_THIS(s))
#define BS_is_locked(s) bs_is_locked(BS_THIS(s))
#define BS_locked(s) bs_locked(BS_THIS(s))
#define BS_clear_lock(s) bs_clear_lock(BS_THIS(s))
#define BS_new_version(s) bs_new_version(BS_THIS(s))
#define BS_inc_item_count(s) bs_inc_item_count(BS_THIS(s))
#define BS_dec_item_count(s) bs_dec_item_count(BS_THIS(s))
#define BS_set_delete_marker(s, m) bs_set_delete_marker(BS_THIS(s), (m))
#endif
