/* lowering differential, C side of unit vhm_bs: the lowered text of vyukov_hash_map::bucket_state (and the layout constants
 * extracted from the headers) compiled natively.  Declarations are the unit's own bs_prelude.h; no function body here. */
#include <stdint.h>
#include <stddef.h>
#include <stdbool.h>
#define XV_XASSERT(c) ((void)0)
#include "bs_prelude.h"
#include "lowered.h"

uint32_t ld_item_count(uint32_t s) { return bs_item_count(s); }
uint32_t ld_delete_marker(uint32_t s) { return bs_delete_marker(s); }
uint32_t ld_version(uint32_t s) { return bs_version(s); }
int ld_is_locked(uint32_t s) { return bs_is_locked(s); }
uint32_t ld_locked(uint32_t s) { return bs_locked(s); }
uint32_t ld_clear_lock(uint32_t s) { return bs_clear_lock(s); }
uint32_t ld_new_version(uint32_t s) { return bs_new_version(s); }
uint32_t ld_inc_item_count(uint32_t s) { return bs_inc_item_count(s); }
uint32_t ld_dec_item_count(uint32_t s) { return bs_dec_item_count(s); }
uint32_t ld_set_delete_marker(uint32_t s, uint32_t m) { return bs_set_delete_marker(s, m); }
/* the extracted constant expressions, as the lowered text sees them (index = order of BS_CONSTS in bs_sources.py) */
uint64_t ld_const(int i) {
  switch (i) {
    case 0: return bucket_item_count;
    case 1: return item_counter_bits;
    case 2: return item_count_shift;
    case 3: return delete_marker_shift;
    case 4: return version_shift;
    case 5: return bs_lock;
    case 6: return (uint32_t)version_inc;        /* the header declares these four as std::uint32_t */
    case 7: return (uint32_t)item_count_inc;
    case 8: return (uint32_t)item_count_mask;
    default: return ~(uint64_t)0;
  }
}
