// lowering differential, C++ side of unit vhm_bs: the real private nested struct vyukov_hash_map<K,V,...>::bucket_state
// (reached with -fno-access-control) against the natively compiled lowered text, on the 32-bit state word.
// The asserts of the real methods are compiled out (NDEBUG), as XV_XASSERT is on the C side: both sides are compared on ALL words.
#define NDEBUG
#include <xenium/vyukov_hash_map.hpp>
#include <xenium/reclamation/generic_epoch_based.hpp>
#include "ld_common.hpp"
extern "C" {
std::uint32_t ld_item_count(std::uint32_t), ld_delete_marker(std::uint32_t), ld_version(std::uint32_t), ld_locked(std::uint32_t),
    ld_clear_lock(std::uint32_t), ld_new_version(std::uint32_t), ld_inc_item_count(std::uint32_t), ld_dec_item_count(std::uint32_t),
    ld_set_delete_marker(std::uint32_t, std::uint32_t);
int ld_is_locked(std::uint32_t);
std::uint64_t ld_const(int);
}
using u32 = std::uint32_t; using u64 = std::uint64_t;
using R = xenium::reclamation::epoch_based<>;
using M1 = xenium::vyukov_hash_map<std::uint64_t, std::uint64_t, xenium::policy::reclaimer<R>>;
using M2 = xenium::vyukov_hash_map<int, int, xenium::policy::reclaimer<R>>;     // a second instantiation: bucket_state must not depend on Key/Value

template <class M, class F, class G> static void unary(const char* name, unsigned salt, F real, G low) {
  using BS = typename M::bucket_state;
  ld::report& r = ld::rep("vhm_bs", name); ld::rng g(salt);
  auto one = [&](u32 s) { BS b(s); u64 a = real(b), c = low(s); r.check(a == c, "state=%#x real=%#" PRIx64 " lowered=%#" PRIx64, s, a, c); };
  for (u64 v : ld::boundary(32)) one((u32)v);
  for (u64 i = 0; i < ld::N_RANDOM; ++i) one((u32)g.val(32));
}

template <class M> static void all(bool first) {
  using BS = typename M::bucket_state;
  const unsigned off = first ? 0 : 100;   // other random inputs for the second instantiation
  if (first) {
    ld::report& r = ld::rep("vhm_bs", "constants");
    const u64 real[9] = {M::bucket_item_count, BS::item_counter_bits, BS::item_count_shift, BS::delete_marker_shift, BS::version_shift,
                         BS::lock, BS::version_inc, BS::item_count_inc, BS::item_count_mask};
    static const char* nm[9] = {"bucket_item_count", "item_counter_bits", "item_count_shift", "delete_marker_shift", "version_shift", "lock",
                                "version_inc", "item_count_inc", "item_count_mask"};
    for (int i = 0; i < 9; ++i) r.check(real[i] == ld_const(i), "%s real=%" PRIu64 " lowered=%" PRIu64, nm[i], real[i], ld_const(i));
    BS z; r.check(z.value == 0, "default state %#x", z.value);
    r.fixed = true;   // constants: no inputs to vary
  }
  unary<M>("item_count", off + 11, [](BS b) { return (u64)b.item_count(); }, [](u32 s) { return (u64)ld_item_count(s); });
  unary<M>("delete_marker", off + 12, [](BS b) { return (u64)b.delete_marker(); }, [](u32 s) { return (u64)ld_delete_marker(s); });
  unary<M>("version", off + 13, [](BS b) { return (u64)b.version(); }, [](u32 s) { return (u64)ld_version(s); });
  unary<M>("is_locked", off + 14, [](BS b) { return (u64)b.is_locked(); }, [](u32 s) { return (u64)(ld_is_locked(s) != 0); });
  unary<M>("locked", off + 15, [](BS b) { return (u64)b.locked().value; }, [](u32 s) { return (u64)ld_locked(s); });
  unary<M>("clear_lock", off + 16, [](BS b) { return (u64)b.clear_lock().value; }, [](u32 s) { return (u64)ld_clear_lock(s); });
  unary<M>("new_version", off + 17, [](BS b) { return (u64)b.new_version().value; }, [](u32 s) { return (u64)ld_new_version(s); });
  unary<M>("inc_item_count", off + 18, [](BS b) { return (u64)b.inc_item_count().value; }, [](u32 s) { return (u64)ld_inc_item_count(s); });
  unary<M>("dec_item_count", off + 19, [](BS b) { return (u64)b.dec_item_count().value; }, [](u32 s) { return (u64)ld_dec_item_count(s); });
  {
    // marker << delete_marker_shift: every 32-bit marker (the shift amount is a small constant)
    ld::report& r = ld::rep("vhm_bs", "set_delete_marker"); ld::rng g(off + 20);
    auto one = [&](u32 s, u32 m) { BS b(s); u32 a = b.set_delete_marker(m).value, c = ld_set_delete_marker(s, m);
                                   r.check(a == c, "state=%#x marker=%#x real=%#x lowered=%#x", s, m, a, c); };
    const auto bnd = ld::boundary(32);
    for (u64 s : bnd) for (u64 m : bnd) one((u32)s, (u32)m);
    for (u64 i = 0; i < ld::N_RANDOM; ++i) one((u32)g.val(32), g.below(2) ? (u32)g.below(8) : (u32)g.val(32));
  }
}

int main() {
  all<M1>(true);
  all<M2>(false);
  return ld::result();
}
