/* unit vhm_bs - vyukov_hash_map::bucket_state (C10/C11).  Contracts and harnesses only; bodies come from lowered.h */
#include "xv.h"
int xv_threw; uint64_t xv_clock, xv_rmw_old; _Bool xv_cas_ok;
#include "bs_prelude.h"
uint32_t in_s, in_m;
#include "lowered.h"

#define VERSION_BITS (32 - version_shift)
/* all fields of s except the ones named are equal to those of r */
static _Bool same_lock(bstate_t a, bstate_t b) { return BS_is_locked(a) == BS_is_locked(b); }
static _Bool same_ic(bstate_t a, bstate_t b) { return BS_item_count(a) == BS_item_count(b); }
static _Bool same_dm(bstate_t a, bstate_t b) { return BS_delete_marker(a) == BS_delete_marker(b); }
static _Bool same_ver(bstate_t a, bstate_t b) { return BS_version(a) == BS_version(b); }

void h_layout(void) {
  XV_OBL("vhm.bs.layout.fits", item_counter_bits >= 1 && bucket_item_count <= item_count_mask);
  XV_OBL("vhm.bs.layout.fits", item_count_shift == 1 && bs_lock == 1 && delete_marker_shift == item_count_shift + item_counter_bits
                               && version_shift == delete_marker_shift + item_counter_bits && version_shift < 32);
  XV_OBL("vhm.bs.layout.fits", item_count_inc == ((uint32_t)1 << item_count_shift) && version_inc == ((uint32_t)1 << version_shift)
                               && item_count_mask == (((uint32_t)1 << item_counter_bits) - 1));
  bstate_t z = 0;    /* bucket_state() = default with `std::uint32_t value{}` */
  XV_OBL("vhm.bs.layout.fits", !BS_is_locked(z) && BS_item_count(z) == 0 && BS_delete_marker(z) == 0 && BS_version(z) == 0);
  XV_CANARY("bs.layout");
}

void h_fields(void) {
  in_s = nondet_u32(); uint32_t t = nondet_u32();
  /* injective */
  if (same_lock(in_s, t) && same_ic(in_s, t) && same_dm(in_s, t) && same_ver(in_s, t)) XV_OBL("vhm.bs.fields.independent", in_s == t);
  /* surjective: any tuple in range is realised, and each extractor sees only its own field */
  _Bool l = nondet_bool(); uint32_t ic = nondet_u32(), dm = nondet_u32(), v = nondet_u32();
  XV_ASSUME(ic <= item_count_mask && dm <= item_count_mask && v < ((uint64_t)1 << VERSION_BITS));
  bstate_t c = (uint32_t)l | (ic << item_count_shift) | (dm << delete_marker_shift) | (v << version_shift);
  XV_OBL("vhm.bs.fields.independent", BS_is_locked(c) == l && BS_item_count(c) == ic && BS_delete_marker(c) == dm && BS_version(c) == v);
  XV_OBL("vhm.bs.fields.independent", BS_item_count(in_s) <= item_count_mask && BS_delete_marker(in_s) <= item_count_mask && BS_version(in_s) < ((uint64_t)1 << VERSION_BITS));
  XV_CANARY("bs.fields");
}

void h_locked(void) {
  in_s = nondet_u32();
  bstate_t r = BS_locked(in_s);
  XV_OBL("vhm.bs.locked.frame", BS_is_locked(r) && same_ic(in_s, r) && same_dm(in_s, r) && same_ver(in_s, r));
  XV_OBL("vhm.bs.locked.frame", BS_locked(r) == r && (BS_is_locked(in_s) ? r == in_s : r != in_s));
  if (BS_is_locked(in_s)) XV_CANARY("bs.locked.was_locked"); else XV_CANARY("bs.locked.was_unlocked");
}

void h_clear_lock(void) {
  in_s = nondet_u32(); XV_ASSUME(BS_is_locked(in_s));          /* requires: assert(value & lock) */
  bstate_t r = BS_clear_lock(in_s);
  XV_OBL("vhm.bs.clear_lock.frame", !BS_is_locked(r) && same_ic(in_s, r) && same_dm(in_s, r) && same_ver(in_s, r));
  XV_OBL("vhm.bs.clear_lock.frame", BS_locked(r) == in_s);
  XV_CANARY("bs.clear_lock");
}

void h_new_version(void) {
  in_s = nondet_u32();
  bstate_t r = BS_new_version(in_s);
  uint32_t vmax = (uint32_t)(((uint64_t)1 << VERSION_BITS) - 1);
  XV_OBL("vhm.bs.new_version.frame", same_lock(in_s, r) && same_ic(in_s, r) && same_dm(in_s, r));
  XV_OBL("vhm.bs.new_version.frame", BS_version(r) == (BS_version(in_s) == vmax ? 0 : BS_version(in_s) + 1));
  XV_OBL("vhm.bs.new_version.frame", BS_version(r) != BS_version(in_s));
  if (BS_version(in_s) == vmax) XV_CANARY("bs.new_version.wrap"); else XV_CANARY("bs.new_version.plain");
}

void h_inc(void) {
  in_s = nondet_u32(); XV_ASSUME(BS_item_count(in_s) < bucket_item_count);   /* requires: first assert */
  bstate_t r = BS_inc_item_count(in_s);
  XV_OBL("vhm.bs.inc_item_count.frame", BS_item_count(r) == BS_item_count(in_s) + 1 && same_lock(in_s, r) && same_dm(in_s, r) && same_ver(in_s, r));
  XV_OBL("vhm.bs.inc_item_count.frame", BS_dec_item_count(r) == in_s);
  XV_CANARY("bs.inc");
}

void h_dec(void) {
  in_s = nondet_u32(); XV_ASSUME(BS_item_count(in_s) > 0);
  bstate_t r = BS_dec_item_count(in_s);
  XV_OBL("vhm.bs.dec_item_count.frame", BS_item_count(r) + 1 == BS_item_count(in_s) && same_lock(in_s, r) && same_dm(in_s, r) && same_ver(in_s, r));
  XV_CANARY("bs.dec");
}

void h_marker(void) {
  in_s = nondet_u32(); in_m = nondet_u32();
  XV_ASSUME(BS_delete_marker(in_s) == 0 && in_m <= bucket_item_count);    /* requires: assert + call sites pass index+1 <= bucket_item_count */
  bstate_t r = BS_set_delete_marker(in_s, in_m);
  XV_OBL("vhm.bs.set_delete_marker.frame", BS_delete_marker(r) == in_m && same_lock(in_s, r) && same_ic(in_s, r) && same_ver(in_s, r));
  XV_CANARY("bs.marker");
}
