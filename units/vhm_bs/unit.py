import os
from xvlib.engine import VERIF
exec(open(os.path.join(VERIF, 'units', 'vhm_bs', 'bs_sources.py')).read())
UNIT = dict(
  title='vyukov_hash_map::bucket_state: field algebra for all 2^32 states (C10)',
  properties=['C10', 'C11'],
  drops='bucket_state is modelled as its only data member (std::uint32_t value); the private constructor bucket_state(uint32_t) becomes a cast; '
        'constexpr layout constants are read from the headers as macros (item_counter_bits through the real text of utils::find_last_bit_set); [[nodiscard]]/noexcept dropped',
  assumptions=[],
  consts=BS_CONSTS,
  sources=BS_SOURCES,
  runs=[
    dict(id='layout', entry='h_layout', cls='unbounded', unwindset=['real_find_last_bit_set.0:66']),
    dict(id='fields', entry='h_fields', cls='unbounded', unwindset=['real_find_last_bit_set.0:66']),
    dict(id='locked', entry='h_locked', cls='unbounded', unwindset=['real_find_last_bit_set.0:66']),
    dict(id='clear_lock', entry='h_clear_lock', cls='unbounded', unwindset=['real_find_last_bit_set.0:66']),
    dict(id='new_version', entry='h_new_version', cls='unbounded', unwindset=['real_find_last_bit_set.0:66']),
    dict(id='inc', entry='h_inc', cls='unbounded', unwindset=['real_find_last_bit_set.0:66']),
    dict(id='dec', entry='h_dec', cls='unbounded', unwindset=['real_find_last_bit_set.0:66']),
    dict(id='marker', entry='h_marker', cls='unbounded', unwindset=['real_find_last_bit_set.0:66']),
  ],
  obligations={
    'vhm.bs.layout.fits': dict(deciding=True, text='lock bit, item count, delete marker and version occupy disjoint bit ranges of the 32-bit word, the count/marker fields can hold 0..bucket_item_count, at least one version bit is left; the default state is all-zero'),
    'vhm.bs.fields.independent': dict(deciding=True, text='(is_locked, item_count, delete_marker, version) is a bijection between the 2^32 states and the field tuples: any tuple is realised by one state and two states with equal fields are equal'),
    'vhm.bs.locked.frame': dict(deciding=True, text='locked() sets the lock bit and changes no other field; it is idempotent'),
    'vhm.bs.clear_lock.frame': dict(deciding=True, text='clear_lock() of a locked state clears the lock bit and changes no other field'),
    'vhm.bs.new_version.frame': dict(deciding=True, text='new_version() increments the version modulo 2^version_bits (wraps only into itself) and changes no other field; the new version differs from the old'),
    'vhm.bs.inc_item_count.frame': dict(deciding=True, text='inc_item_count() with item_count < bucket_item_count adds one to the item count and changes no other field'),
    'vhm.bs.dec_item_count.frame': dict(deciding=True, text='dec_item_count() with item_count > 0 subtracts one from the item count and changes no other field'),
    'vhm.bs.set_delete_marker.frame': dict(deciding=True, text='set_delete_marker(m) with delete_marker == 0 and m <= bucket_item_count sets the marker to m and changes no other field'),
  },
  canaries=['bs.layout', 'bs.fields', 'bs.locked.was_unlocked', 'bs.locked.was_locked', 'bs.clear_lock', 'bs.new_version.wrap', 'bs.new_version.plain',
            'bs.inc', 'bs.dec', 'bs.marker'],
)
