// native replay for lr.indicator.empty_linearizable: the real read_indicator of xenium::left_right from /repo, whatever its members are.
// An older reader has arrived and stays inside.  While the writer runs empty(), other readers arrive and depart between empty()'s
// atomic accesses (deterministically: std::atomic is redirected, only while left_right.hpp is included, to a wrapper that calls a
// hook before every atomic operation; the hook runs the other readers' steps at the chosen access).  empty() must return false in
// every schedule.  exit 0: holds, 1: violation reproduced.
#include <atomic>
#include <cassert>
#include <cstdint>
#include <cstdio>
#include <mutex>
#include <thread>
#include <functional>
namespace rp { static int op_no = 0, fire_at = 0; static bool armed = false; static std::function<void()> script;
  static void hook() { if (!armed) return; if (++op_no == fire_at) { armed = false; script(); armed = true; } } }
namespace std {
template <class T> struct hooked_atomic {
  constexpr hooked_atomic() noexcept = default;
  constexpr hooked_atomic(T v) noexcept : _v(v) {}
  T load(memory_order mo = memory_order_seq_cst) const { rp::hook(); return _v.load(mo); }
  void store(T v, memory_order mo = memory_order_seq_cst) { rp::hook(); _v.store(v, mo); }
  T fetch_add(T v, memory_order mo = memory_order_seq_cst) { rp::hook(); return _v.fetch_add(v, mo); }
  T fetch_sub(T v, memory_order mo = memory_order_seq_cst) { rp::hook(); return _v.fetch_sub(v, mo); }
  T exchange(T v, memory_order mo = memory_order_seq_cst) { rp::hook(); return _v.exchange(v, mo); }
  bool compare_exchange_strong(T& e, T d, memory_order s = memory_order_seq_cst, memory_order f = memory_order_seq_cst) { rp::hook(); return _v.compare_exchange_strong(e, d, s, f); }
  bool compare_exchange_weak(T& e, T d, memory_order s = memory_order_seq_cst, memory_order f = memory_order_seq_cst) { rp::hook(); return _v.compare_exchange_weak(e, d, s, f); }
  mutable atomic<T> _v{};
};
}
#define atomic hooked_atomic
#include <xenium/left_right.hpp>
#undef atomic
struct inst { uint64_t val; };
int main() {
  using RI = xenium::left_right<inst>::read_indicator;
  int bad = 0;
  { RI ind; if (!ind.empty()) { printf("VIOLATION: a fresh indicator is not empty\n"); bad++; } }
  for (int gap = 1; gap <= 4; ++gap) for (int cycles = 1; cycles <= 2; ++cycles) for (int pre = 0; pre <= 1; ++pre) {
    RI ind;
    if (pre) { ind.arrive(); ind.depart(); }           // a completed earlier read
    ind.arrive();                                       // the older reader: inside from now on, never departs in this schedule
    rp::op_no = 0; rp::fire_at = gap; rp::script = [&] { for (int c = 0; c < cycles; ++c) { ind.arrive(); ind.depart(); } };
    rp::armed = true; bool e = ind.empty(); rp::armed = false;
    if (e) { printf("VIOLATION: empty() returned true although a reader that arrived before the call never left (%d other read(s) completed before atomic access %d of empty(), %d earlier cycle)\n", cycles, gap, pre); bad++; }
  }
  printf("empty() among moving readers: %d violations\n", bad);
  return bad ? 1 : 0;
}
