import re
F = 'xenium/left_right.hpp'

# ---------------------------------------------------------------------------------------------------
# unit-local lowering rules (applied mechanically on every run to the text extracted from /repo)
#
# RAII rule.  "TYPE name(args);" for a TYPE of the table below is an object with a destructor:
#   * the declaration becomes   struct <c type> name; <ctor>(&name, args);
#   * every exit of the function (return e; / the exceptional exit XV_RET inserted by the may_throw rule /
#     falling off the end) first runs <dtor>(&name) (reverse order of declaration), then returns.
# This is the C++ rule for automatic objects (destructors run on normal and on exceptional exit).
# The constructor/destructor of read_guard are themselves lowered real text; std::lock_guard<std::mutex> is a stub
# (lock in the ctor, unlock in the dtor - its definition in the standard).
RAII = {
    'read_guard': ('struct read_guard', 'rg_ctor', 'rg_dtor'),
    'std::lock_guard<std::mutex>': ('struct xv_lock_guard', 'xv_lock_guard_ctor', 'xv_lock_guard_dtor'),
}

def raii_pre(s, lw):
    lw._raii = []
    for ty, (cty, ctor, dtor) in RAII.items():
        pat = re.compile(r'(?<![\w:])' + re.escape(ty) + r'\s+(\w+)\s*\(([^;]*)\)\s*;')
        def rp(m):
            # only objects whose scope is the whole function body are supported: anything else stops the run (exit 2)
            pre = m.string[:m.start()]
            if pre.count('{') - pre.count('}') != 1:
                from xvlib import lower as L
                raise L.ExtractError('RAII object %s declared in a nested scope: unit rule raii_pre does not cover this' % m.group(1))
            lw._raii.append((m.group(1), dtor)); lw.fire('raii_decl')
            return '%s %s; %s(&%s, &(%s));' % (cty, m.group(1), ctor, m.group(1), m.group(2))
        s = pat.sub(rp, s)
    return s

def raii_post(s, lw):
    """route every exit through the destructors"""
    n = 0
    def ret(m):
        nonlocal n; n += 1
        e = m.group(1).strip()
        return ('{ xv_ret = (%s); goto xv_exit; }' % e) if e else 'goto xv_exit;'
    s = re.sub(r'\breturn\b([^;]*);', ret, s)
    s, k = re.subn(r'\bXV_RET\s*;', 'goto xv_exit;', s)
    lw.fire('raii_exit', n + k)
    dt = ' '.join('%s(&%s);' % (d, nm) for nm, d in reversed(lw._raii))
    body = s.strip()
    assert body.startswith('{') and body.endswith('}')
    rt = lw.spec.get('ret_type')
    return ('{ ' + (rt + ' xv_ret = 0; ' if rt else '') + body[1:-1] + '\n xv_exit: ; ' + dt +
            (' return xv_ret;' if rt else ' return;') + '\n}')

def ctor_post(s, lw):
    """the engine lowers a constructor's member-initialiser values only with the cast/simple rules; run the method
    rule on the finished text as well (the initialiser of read_guard::_indicator contains an atomic load and a member call)"""
    s = lw.methods(s)
    s, n = re.subn(r'\binst\b', '(*inst_p)', s)
    lw.fire('subst:inst_ref', n)
    return s

# read_indicator's representation: every `std::atomic<uint64_t> NAME{init};` member of the struct, read from the header on every run.
# The harness builds struct read_indicator, its initialiser, havoc, equality and the monitors' address test from this list (-DXV_RI_FIELDS=...).
def ri_fields():
    import os
    from xvlib import lower as L
    from xvlib.engine import XvError, REPO
    path = os.path.join(REPO, F)
    if not os.path.exists(path): raise XvError('extraction broke: missing file ' + F)
    src = L.strip_comments(L.read_source(path))
    m = re.search(r'struct\s+(?:alignas\s*\(\s*\d+\s*\)\s*)?read_indicator\s*\{', src)
    if not m: raise XvError('extraction broke: struct read_indicator not found')
    body = src[m.end() - 1:L.match_brace(src, m.end() - 1)]
    fs = re.findall(r'std::atomic<\s*(?:std::)?uint64_t\s*>\s+(\w+)\s*\{([^}]*)\}\s*;', body)
    if not fs: raise XvError('extraction broke: read_indicator has no std::atomic<uint64_t> NAME{init}; member')
    if re.search(r'std::atomic<(?!\s*(?:std::)?uint64_t\s*>)', body): raise XvError('extraction broke: read_indicator has an atomic member of another type')
    return fs
RI_FIELDS = ri_fields()
RI_DEFS = {'XV_RI_FIELDS': ' '.join('XV_RI_FIELD(%s,%s)' % (n, (i.strip() or '0')) for n, i in RI_FIELDS)}
RI = dict(members=[n for n, i in RI_FIELDS])
LR_MEMBERS = ['_writer_mutex', '_version_index', '_lr_indicator', '_read_indicator1', '_read_indicator2', '_left', '_right']

ENV_REAL = ('0..3 readers (one tracked, two more) arrive and depart by executing the real arrive()/depart() before every atomic access of empty() and once before the call '
            '(tracked up to 6 steps, the others up to 3 each per gap, interleaved); indicator starts freshly initialised + the readers inside')
ENV3 = 'environment = the reader quantifier of the property: one tracked reader following the contract of lr.read.bracket (exclusion is asserted for it) and two more that arrive/depart on either indicator, as pure state machines (the indicator is seen only through the contract of empty()); between two accesses of the writer the tracked one takes up to 6 steps and the others up to 3 each, interleaved (complete in terms of reader states and occupancy, run env_closed); the second writer is excluded by the mutex'

UNIT = dict(
  title='left_right: read / update / toggle_version_and_wait / wait_for_readers / read_indicator / read_guard / constructors (C13)',
  properties=['C13'],
  drops='template parameter T (an instance is a struct holding one 64-bit word) and the functor type (func(x) is a stub that logs '
        '"applied to instance X at clock c, mutex held?, tracked reader state" and may throw); std::mutex is a held flag '
        '(lock = wait until free, then take); std::this_thread::yield() dropped; references (read_guard::_indicator, get_read_indicator\'s result) '
        'are pointers; RAII objects (read_guard, std::lock_guard) are lowered by the unit-local rule raii_pre/raii_post in unit.py: '
        'declaration -> ctor call, every exit (return, exceptional, end) -> dtor call; default member initialisers are extracted as constants and applied by the ctor harness; struct read_indicator is generated from the std::atomic<uint64_t> NAME{init}; members found in the header (ri_fields in unit.py), so the unit does not depend on the indicator\'s representation; the writer-side runs (wait, toggle, update) use read_indicator::empty() through its contract lr.indicator.empty_linearizable (proved for the real text in run empty_int), arrive/depart/empty themselves are always the real text',
  assumptions=[
    'composition (Left-Right proof, Ramalhete & Correia 2015) from the per-operation obligations to linearizability of reads is argued, not machine-checked; '
    'the exclusion half of it IS checked (lr.update.exclusion) for one arbitrary tracked reader that follows the contract proved by lr.read.bracket, together with two further readers (3 readers in all, the quantifier of the property)',
    'std::lock_guard<std::mutex>: constructor locks, destructor unlocks (stub xv_lock_guard_*); std::mutex gives mutual exclusion between writers (so the environment of update never writes _lr_indicator/_version_index/instances)',
    'sequentially consistent model of the atomics (model/xv.h); the orders are checked as data by lr.sync.seq_cst',
  ],
  consts=[
    dict(name='READ_LEFT', file=F, regex=r'static constexpr int READ_LEFT = ([^;]+);'),
    dict(name='READ_RIGHT', file=F, regex=r'static constexpr int READ_RIGHT = ([^;]+);'),
    dict(name='XV_NSDMI_version_index', file=F, regex=r'std::atomic<int> _version_index\{([^}]*)\};'),
    dict(name='XV_NSDMI_lr_indicator', file=F, regex=r'std::atomic<int> _lr_indicator\{([^}]*)\};'),
    # return type of read(): `auto` copies the functor's result out while the read_guard is still registered;
    # `decltype(auto)` would let a reference into the instance escape the guarded region
    dict(name='XV_READ_RETURNS_BY_VALUE', file=F, regex=r'\n\s*((?:decltype\s*\(\s*auto\s*\)|auto|const auto&|auto&&|auto&))\s+read\(Func&& func\) const',
         subst=[(r'^auto$', '1'), (r'^(decltype.*|const auto&|auto&&|auto&)$', '0')]),
  ],
  sources=[
    dict(RI, id='arrive', file=F, sig=r'void arrive\(\)', c_sig='static void ri_arrive(struct read_indicator* self)',
         must_fire={'A_FADD': 1}),
    dict(RI, id='depart', file=F, sig=r'void depart\(\)', c_sig='static void ri_depart(struct read_indicator* self)',
         must_fire={'A_FSUB': 1}),
    dict(RI, id='empty', file=F, sig=r'bool empty\(\)', c_sig='static _Bool ri_empty(struct read_indicator* self)',
         must_fire={'A_LOAD': 1}),
    dict(id='get_read_indicator', file=F, sig=r'read_indicator& get_read_indicator\(int idx\) const',
         c_sig='static struct read_indicator* lr_get_read_indicator(struct left_right* self, int idx)',
         members=LR_MEMBERS,
         ret_ref=True,
         must_fire={'member:_read_indicator1': 1, 'member:_read_indicator2': 1}),
    dict(id='wait_for_readers', file=F, sig=r'void wait_for_readers\(int idx\)',
         c_sig='static void lr_wait_for_readers(struct left_right* self, int idx)',
         subst=[(r'std::this_thread::yield\(\);', ';', 'yield')],
         methods={'empty': 'RI_empty'}, self_calls={'get_read_indicator': '*lr_get_read_indicator'},
         cut_loops={0: 'WAIT'},
         must_fire={'subst:yield': 1, 'method:empty': 1, 'self_call:get_read_indicator': 1, 'reference': 1, 'cut_loop': 1}),
    # a maintainer may give the private helper parameters (e.g. the new indicator value): they travel through the ghost words xv_toggle_arg0/1 that LR_TOGGLE fills
    dict(id='toggle_version_and_wait', file=F, sig=r'void toggle_version_and_wait\((?:int \w+)?(?:,\s*int \w+)?\)',
         c_sig='static void lr_toggle_version_and_wait(struct left_right* self)',
         py_pre=lambda s, lw: (lambda ps: s.replace('{', '{ ' + ''.join('int %s = xv_toggle_arg%d; ' % (n, k) for k, n in enumerate(ps)), 1))(re.findall(r'int (\w+)', lw.spec['_cxx_head'].split('(', 1)[1])),
         members=LR_MEMBERS, self_calls={'wait_for_readers': 'LR_WAIT'},
         must_fire={'A_LOAD': 1, 'A_STORE': 1, 'self_call:wait_for_readers': 2, 'member:_version_index': 2}),
    dict(id='read_guard_ctor', file=F, sig=r'explicit read_guard\(const left_right& inst\)', ctor=True,
         c_sig='static void rg_ctor(struct read_guard* self, struct left_right* inst_p)',
         methods={'arrive': 'RI_arrive', 'get_read_indicator': 'LR_get_read_indicator'},
         subst=[(r'\b_indicator\b', '(*_indicator)', 'ref_member')], members=['_indicator'],
         py_post=ctor_post,
         must_fire={'ctor_init': 1, 'A_LOAD': 1, 'method:arrive': 1, 'method:get_read_indicator': 1, 'subst:ref_member': 1, 'subst:inst_ref': 2}),
    dict(id='read_guard_dtor', file=F, sig=r'~read_guard\(\)',
         c_sig='static void rg_dtor(struct read_guard* self)',
         methods={'depart': 'RI_depart'},
         subst=[(r'\b_indicator\b', '(*_indicator)', 'ref_member')], members=['_indicator'],
         must_fire={'method:depart': 1, 'subst:ref_member': 1}),
    dict(id='read', file=F, sig=r'(?:decltype\s*\(\s*auto\s*\)|auto|const auto&|auto&&|auto&)\s+read\(Func&& func\) const',
         c_sig='static uint64_t lr_read(struct left_right* self)', ret_type='uint64_t',
         members=LR_MEMBERS, calls={'func': 'XV_RFUNC'}, may_throw=['XV_RFUNC', 'XV_RFUNC_RV'], track_moves=True,
         post_subst=[(r'XV_FORWARD\(func\)\s*\(', 'XV_RFUNC_RV(', 'func_forwarded')],
         pre_subst=[(r'(const T& \w+ = )([^;?]+)\?([^;:]+):([^;]+);', r'\1*((\2) ? &(\3) : &(\4));', 'ref_to_conditional_lvalue')],
         py_pre=raii_pre, py_post=raii_post,
         must_fire={'raii_decl': 1, 'raii_exit': 2, 'A_LOAD': 1, 'call:func': 1, 'may_throw:XV_RFUNC': 1, 'reference': 1,
                    'subst:ref_to_conditional_lvalue': 1, 'member:_lr_indicator': 1, 'member:_left': 1, 'member:_right': 1}),
    dict(id='update', file=F, sig=r'void update\(Func&& func\)',
         c_sig='static void lr_update(struct left_right* self)',
         members=LR_MEMBERS, calls={'func': 'XV_UFUNC'}, may_throw=['XV_UFUNC', 'XV_UFUNC_RV'], track_moves=True,
         post_subst=[(r'XV_FORWARD\(func\)\s*\(', 'XV_UFUNC_RV(', 'func_forwarded')],
         self_calls={'toggle_version_and_wait': 'LR_TOGGLE'},
         py_pre=raii_pre, py_post=raii_post,
         must_fire={'raii_decl': 1, 'raii_exit': 4, 'A_LOAD': 3, 'A_STORE': 2, 'call:func': 4, 'may_throw:XV_UFUNC': 4,
                    'self_call:toggle_version_and_wait': 2, 'member:_writer_mutex': 1}),
    dict(id='ctor1', file=F, sig=r'explicit left_right\(T source\)', ctor=True,
         c_sig='static void lr_ctor1(struct left_right* self, struct T source)', must_fire={'ctor_init': 2}),
    dict(id='ctor2', file=F, sig=r'(?<!explicit )left_right\(T left, T right\)', ctor=True,
         c_sig='static void lr_ctor2(struct left_right* self, struct T left, struct T right)', must_fire={'ctor_init': 2}),
  ],
  runs=[
    dict(id='indicator', entry='h_indicator', defs=RI_DEFS, cls='unbounded', note='single operations from arbitrary member values; the occupancy sequence check uses 4 operations from a quiescent state'),
    dict(id='empty', entry='h_empty', defs=RI_DEFS, cls='shape-complete', note='0..3 readers inside, no interference'),
    dict(id='empty_int', entry='h_empty', mode='INT', defs=RI_DEFS, cls='shape-complete', note=ENV_REAL),
    dict(id='empty_int_anybase', entry='h_empty', mode='INT', defs=dict(RI_DEFS, XV_BASE_ARBITRARY=1), tiers=['thorough'], cls='shape-complete',
         note=ENV_REAL + '; base: any member values for which the indicator\'s own empty() says empty (wrap-around included)'),
    dict(id='guard', entry='h_guard', defs=RI_DEFS, cls='unbounded'),
    dict(id='ctor', entry='h_ctor', defs=RI_DEFS, cls='unbounded'),
    dict(id='wait', entry='h_wait', defs=RI_DEFS, cls='shape-complete', note='SEQ: returns only from states in which nobody is on that indicator'),
    dict(id='wait_int', entry='h_wait', mode='INT', defs=RI_DEFS, cls='shape-complete', note='spin loop cut (invariant true); ' + ENV3),
    dict(id='toggle', entry='h_toggle', defs=RI_DEFS, cls='shape-complete'),
    dict(id='toggle_int', entry='h_toggle', mode='INT', defs=RI_DEFS, cls='shape-complete', note=ENV3),
    dict(id='update', entry='h_update', defs=RI_DEFS, cls='shape-complete'),
    dict(id='update_int', entry='h_update', mode='INT', defs=RI_DEFS, cls='shape-complete', note=ENV3),
    dict(id='update2_int', entry='h_update2', mode='INT', defs=RI_DEFS, cls='shape-complete', note='two back-to-back updates with the readers running throughout; ' + ENV3),
    dict(id='read', entry='h_read_seq', defs=RI_DEFS, cls='shape-complete', note='0..3 other readers inside'),
    dict(id='read_int', entry='h_read', mode='INT', defs=RI_DEFS, cls='unbounded', note='environment: writers and other readers rewrite every shared word (all indicator members included) at every step'),
    dict(id='read_solo', entry='h_read', mode='SOLO', defs=RI_DEFS, unwind=1, unwind_obligation='lr.read.wait_free', cls='unbounded',
         note='read() and everything it calls contain no loop: unwinding bound 1 with unwinding assertions'),
    dict(id='env_closed', entry='h_env_closed', defs=RI_DEFS, cls='unbounded', note='model self-check for the INT environment'),
  ],
  obligations={
    'lr.update.order': dict(deciding=True, text='update applies the functor exactly twice: first to the instance _lr_indicator did not select at entry, then stores the indicator selecting that instance, then toggle_version_and_wait runs and returns, then the functor is applied to the other instance; each instance receives the update exactly once (and consecutive updates in the same order); _lr_indicator == _version_index again on exit'),
    'lr.update.mutex': dict(deciding=True, text='the writer mutex is locked before anything else, held at every functor application and unlocked exactly once on every exit, including when the functor throws'),
    'lr.update.exclusion': dict(deciding=True, text='[INT] while the update functor runs on an instance, a reader that follows the read() contract is never inside its functor on that instance; on exit every reader inside its functor reads the instance the indicator selects'),
    'lr.toggle.order': dict(deciding=True, text='toggle_version_and_wait: counter[next version] observed empty, then the version index is stored (flipped exactly once), then counter[previous version] observed empty; nothing else is written'),
    'lr.toggle.drains': dict(deciding=True, text='[INT] when toggle_version_and_wait returns, a reader that is inside its functor loaded _lr_indicator after the call started'),
    'lr.wait.spins_until_empty': dict(deciding=True, text='wait_for_readers(idx) returns only after empty() of indicator idx returned true; it reads no other counter and writes nothing'),
    'lr.read.bracket': dict(deciding=True, text='read: version load, then arrive on the indicator that version selects, then load of _lr_indicator, then the functor on the instance that load selected, then depart on the same indicator - on every exit including a throwing functor; returns the functor result; writes nothing else'),
    'lr.indicator.counts': dict(deciding=True, text='representation-independent: arrive() and depart() each perform exactly one RMW by one on a member of their own indicator and nothing else; with the abstract occupancy = arrivals - departures, empty() (no interference) is true iff the occupancy is 0, from any quiescent state and after any sequence of arrive/depart; the other indicator is never touched; get_read_indicator(i) is indicator i'),
    'lr.indicator.empty_linearizable': dict(deciding=True, text='[INT] with other readers arriving and departing (by the real arrive()/depart()) between empty()\'s atomic accesses, empty() returns true only if the occupancy of that indicator was 0 at some instant between call and return - never while a reader that arrived before the call stays inside'),
    'lr.sync.seq_cst': dict(deciding=True, text='sync: the sites named by the numbered comments are at least as strong as stated: (1) indicator load seq_cst, (2)(3) indicator store seq_cst, (4) arrive seq_cst RMW, (5) depart release-or-stronger RMW, (6) empty() load seq_cst.  The _version_index load/store are relaxed in the code and named by no numbered comment; they are recorded but not constrained: exclusion does not depend on which indicator a reader picks, because the writer waits for both indicators after the seq_cst indicator store (lr.update.exclusion is proved with an arbitrarily stale version in the reader)'),
    'lr.read.wait_free': dict(deciding=True, text='[SOLO] read has no loop: it finishes in exactly five steps under any interference'),
    'lr.ctor.init': dict(deciding=True, text='the constructors establish the idle invariant: indicator == version index, both counters 0, mutex free, both instances initialised from the source(s)'),
  },
  loop_obligation={'WAIT': 'lr.wait.spins_until_empty'},
  replays={'lr.update.order': dict(src='replay_update.cpp'), 'lr.update.mutex': dict(src='replay_update.cpp'), 'lr.toggle.order': dict(src='replay_update.cpp'),
           'lr.read.bracket': dict(src='replay_read.cpp'), 'lr.indicator.counts': dict(src='replay_read.cpp'),
           'lr.indicator.empty_linearizable': dict(src='replay_empty.cpp', no_inputs=True)},
  canaries=['ctor.one', 'ctor.two', 'empty.false', 'empty.true', 'empty_int.false_because_someone_came', 'empty_int.old_reader_stays_others_cycle', 'empty_int.true_after_the_last_one_left', 'env_closed.reached', 'guard.v0', 'guard.v1', 'indicator.arrive', 'indicator.depart', 'indicator.empty', 'indicator.get', 'indicator.nonempty', 'indicator.sequence_back_to_empty', 'indicator.sequence_four_inside', 'read.functor_threw', 'read.left', 'read.returned', 'read.right', 'read.v0', 'read.v1', 'read_int.indicator_moved', 'read_int.version_moved', 'read_seq.alone', 'read_seq.returned', 'read_seq.three_others_inside', 'read_seq.threw', 'toggle.v0', 'toggle.v1', 'toggle_int.arrived_on_new_version', 'toggle_int.new_reader_inside', 'update.left_first', 'update.right_first', 'update.throw_first', 'update.throw_second', 'update2.done', 'update2_int.reader_cycled_twice', 'update2_int.reader_inside_at_end', 'update_int.arrived_between_switch_and_toggle_old_version', 'update_int.arrived_between_switch_and_toggle_stale_version', 'update_int.reader_on_new_instance_during_second_application', 'update_int.reader_on_old_instance_during_first_application', 'wait.idx0', 'wait.idx1', 'wait.returned', 'wait_int.other_readers_moved', 'wait_int.reader_cycled', 'wait_int.reader_on_other_indicator'],
)
