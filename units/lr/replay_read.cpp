// native replay for lr.read.bracket / lr.indicator.counts: runs the real xenium::left_right<T>::read from /repo
// (in_ver: version index, in_lri: indicator, in_left/in_right, in_rk: functor parameter, in_c0/in_c1: number of other readers inside on indicator 1/2, in_throw: functor throws)
#include <xenium/left_right.hpp>
#include <cstdio>
#include <cstdlib>
#include <cstring>
#include <cstdint>
#include <map>
#include <string>
#include <stdexcept>
struct inst { uint64_t val; };
static std::map<std::string, unsigned long long> args;
int main(int argc, char** argv) {
  for (int i = 1; i < argc; ++i) { char* eq = strchr(argv[i], '='); if (!eq) continue; args[std::string(argv[i], eq - argv[i])] = strtoull(eq + 1, 0, 0); }
  int ver = (int)args["in_ver"], lri = (int)args["in_lri"]; uint64_t L0 = args["in_left"], R0 = args["in_right"], rk = args["in_rk"];
  uint64_t c0 = args["in_c0"], c1 = args["in_c1"]; bool thr = args["in_throw"] != 0;
  if ((ver != 0 && ver != 1) || (lri != 0 && lri != 1)) { printf("state cannot occur\n"); return 2; }
  using LR = xenium::left_right<inst>;
  LR lr(inst{L0}, inst{R0});
  lr._lr_indicator.store(lri); lr._version_index.store(ver);
  if (c0 > 16 || c1 > 16) { printf("occupancy too large for the replay\n"); return 2; }
  for (uint64_t i = 0; i < c0; ++i) lr._read_indicator1.arrive();
  for (uint64_t i = 0; i < c1; ++i) lr._read_indicator2.arrive();
  int n = 0, bad = 0; const inst* seen = nullptr; bool in0 = false, in1 = false; bool threw = false; uint64_t res = 0;
  #define CHECK(c, msg) do { if (!(c)) { printf("VIOLATION: %s\n", msg); bad++; } } while (0)
  try {
    res = lr.read([&](const inst& x) {
      ++n; seen = &x; in0 = lr._read_indicator1.empty(); in1 = lr._read_indicator2.empty();
      lr._version_index.store(1 - ver);     // a writer toggles the version while we are inside
      if (thr) throw std::runtime_error("functor");
      return x.val ^ rk; });
  } catch (const std::runtime_error&) { threw = true; }
  const inst* sel = (lri == LR::READ_LEFT) ? &lr._left : &lr._right;
  CHECK(n == 1 && seen == sel, "functor not applied exactly once to the instance the indicator selects");
  CHECK((ver == 0 ? !in0 : !in1) && (ver == 0 ? in1 == (c1 == 0) : in0 == (c0 == 0)), "not counted on (only) the indicator selected by the version index while the functor runs");
  CHECK(lr._read_indicator1.empty() == (c0 == 0) && lr._read_indicator2.empty() == (c1 == 0), "depart not on the indicator of the arrive (occupancy not restored)");
  if (!threw) CHECK(res == (sel->val ^ rk), "read did not return the functor's result");
  CHECK(lr._left.val == L0 && lr._right.val == R0 && lr._lr_indicator.load() == lri, "read modified the object");
  printf("read: %d violations\n", bad);
  return bad ? 1 : 0;
}
