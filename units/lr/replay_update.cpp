// native replay for lr.update.* / lr.toggle.order: runs the real xenium::left_right<T>::update from /repo on the state cbmc found
// (in_lri: indicator/version at entry, in_left/in_right: instance values, in_k: functor parameter, in_throw: 0 none, 1/2 = functor throws
// on its first/second application).  Single-threaded: both read indicators are empty, so the waits return at once.
// exit 0: contract holds, 1: violation reproduced, 2: cannot represent.
#include <xenium/left_right.hpp>
#include <cstdio>
#include <cstdlib>
#include <cstring>
#include <cstdint>
#include <map>
#include <string>
#include <stdexcept>
struct inst { uint64_t val; };
static std::map<std::string, unsigned long long> args;
int main(int argc, char** argv) {
  for (int i = 1; i < argc; ++i) { char* eq = strchr(argv[i], '='); if (!eq) continue; args[std::string(argv[i], eq - argv[i])] = strtoull(eq + 1, 0, 0); }
  int lri = (int)args["in_lri"]; uint64_t L0 = args["in_left"], R0 = args["in_right"], k = args["in_k"]; int thr = (int)args["in_throw"];
  if (lri != 0 && lri != 1) { printf("indicator %d cannot occur\n", lri); return 2; }
  using LR = xenium::left_right<inst>;
  LR lr(inst{L0}, inst{R0});
  lr._lr_indicator.store(lri); lr._version_index.store(lri);
  int n = 0, bad = 0; const inst* seen[4] = {0, 0, 0, 0}; int lri_at[4], ver_at[4]; bool held_at[4];
  bool threw = false;
  try {
    lr.update([&](inst& x) {
      if (n < 4) { seen[n] = &x; lri_at[n] = lr._lr_indicator.load(); ver_at[n] = lr._version_index.load();
                   bool got = lr._writer_mutex.try_lock(); if (got) lr._writer_mutex.unlock(); held_at[n] = !got; }
      ++n;
      if (thr == n) throw std::runtime_error("functor");
      x.val = x.val * 3 + k;
    });
  } catch (const std::runtime_error&) { threw = true; }
  const inst* first = (lri == LR::READ_LEFT) ? &lr._right : &lr._left;
  const inst* second = (lri == LR::READ_LEFT) ? &lr._left : &lr._right;
  int new_lri = (lri == LR::READ_LEFT) ? LR::READ_RIGHT : LR::READ_LEFT;
  #define CHECK(c, msg) do { if (!(c)) { printf("VIOLATION: %s\n", msg); bad++; } } while (0)
  CHECK(n >= 1 && seen[0] == first, "first application is not on the instance the indicator did not select");
  CHECK(n >= 1 && lri_at[0] == lri && ver_at[0] == lri, "indicator/version changed before the first application");
  CHECK(n < 1 || held_at[0], "writer mutex not held at the first application");
  bool got = lr._writer_mutex.try_lock(); if (got) lr._writer_mutex.unlock();
  CHECK(got, "writer mutex still locked after update returned/threw");
  if (!threw) {
    CHECK(n == 2, "functor not applied exactly twice");
    CHECK(n >= 2 && seen[1] == second, "second application is not on the other instance");
    CHECK(n >= 2 && lri_at[1] == new_lri, "indicator not switched before the second application");
    CHECK(n >= 2 && ver_at[1] == 1 - lri, "version index not toggled before the second application");
    CHECK(n < 2 || held_at[1], "writer mutex not held at the second application");
    CHECK(lr._left.val == L0 * 3 + k && lr._right.val == R0 * 3 + k, "an instance did not receive the update exactly once");
    CHECK(lr._lr_indicator.load() == lr._version_index.load(), "indicator != version index after update");
  } else if (thr == 1) {
    CHECK(n == 1 && lr._lr_indicator.load() == lri && lr._version_index.load() == lri, "state published although the functor threw on the first instance");
  } else {
    CHECK(n == 2 && seen[1] == second && lr._lr_indicator.load() == new_lri, "second application wrong on the throwing path");
  }
  CHECK(lr._read_indicator1.empty() && lr._read_indicator2.empty(), "writer changed a read indicator");
  printf("update: %d applications, %d violations\n", n, bad);
  return bad ? 1 : 0;
}
