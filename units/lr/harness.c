/* unit lr - xenium::left_right (C13).  Declarations, ghost state, monitors, environment, contracts and harnesses.
 * The function bodies (read, update, toggle_version_and_wait, wait_for_readers, get_read_indicator, read_indicator::*,
 * read_guard ctor/dtor, the two constructors) come from lowered.h, generated from /repo on every run. */
#include <stdint.h>
#include <stddef.h>
static void mon_load(void* addr, uint64_t v, int o);
static void mon_store(void* addr, uint64_t v, int o);
static void mon_rmw(void* addr, uint64_t oldv, uint64_t newv, int o);
#define XV_ON_LOAD(addr, val, order) mon_load((void*)(addr), (uint64_t)(val), (order))
#define XV_ON_STORE(addr, val, order) mon_store((void*)(addr), (uint64_t)(val), (order))
#define XV_ON_RMW(addr, oldv, newv, order) mon_rmw((void*)(addr), (uint64_t)(oldv), (uint64_t)(newv), (order))
#include "xv.h"
int xv_threw; uint64_t xv_clock, xv_rmw_old; _Bool xv_cas_ok;
#define XV_EXC_functor 1

/* ---- types ---- */
struct T { uint64_t val; };                          /* an instance of the user's data structure: one word */
/* read_indicator: the member list `std::atomic<uint64_t> NAME{init};` is read from the header on every run (unit.py -> -DXV_RI_FIELDS=
 * XV_RI_FIELD(name, init)...), so the unit does not depend on how the indicator represents its occupancy (one counter, ingress/egress, ...) */
#ifndef XV_RI_WORD
#define XV_RI_WORD uint64_t
#endif
#define XV_RI_FIELD(n, i) XV_RI_WORD n;
struct read_indicator { XV_RI_FIELDS };
#undef XV_RI_FIELD
static void ri_init(struct read_indicator* p) {           /* default member initialisers */
#define XV_RI_FIELD(n, i) p->n = (i);
  XV_RI_FIELDS
#undef XV_RI_FIELD
}
static void ri_havoc(struct read_indicator* p) {
#define XV_RI_FIELD(n, i) p->n = (XV_RI_WORD)nondet_u64();
  XV_RI_FIELDS
#undef XV_RI_FIELD
}
static _Bool ri_same(struct read_indicator* a, struct read_indicator* b) {
  _Bool r = 1;
#define XV_RI_FIELD(n, i) r = r && a->n == b->n;
  XV_RI_FIELDS
#undef XV_RI_FIELD
  return r;
}
static _Bool ri_is_cell(void* a, struct read_indicator* p) {
#define XV_RI_FIELD(n, i) if (a == (void*)&p->n) return 1;
  XV_RI_FIELDS
#undef XV_RI_FIELD
  return 0;
}
struct xv_mutex { _Bool held; };                     /* std::mutex: held / not held */
struct left_right {
  struct xv_mutex _writer_mutex; int _version_index; int _lr_indicator;
  struct read_indicator _read_indicator1; struct T _left;
  struct read_indicator _read_indicator2; struct T _right;
};
struct read_guard { struct read_indicator* _indicator; };   /* read_indicator& _indicator */
struct xv_lock_guard { struct xv_mutex* m; };

/* ---- monitors: per shared cell, what the function under test did to it ---- */
enum { C_VER = 0, C_LRI = 1, C_CNT0 = 2, C_CNT1 = 3, C_OTHER = 4, N_CELLS = 5 };
struct cellmon {
  unsigned n_load, n_store, n_rmw;
  uint64_t first_load_clk, last_load_clk, last_load_val; int last_load_ord; _Bool all_loads_sc;
  uint64_t store_clk, store_val; int store_ord;
  uint64_t rmw1_clk, rmw1_old, rmw1_new; int rmw1_ord;      /* first RMW */
  uint64_t rmw2_clk, rmw2_old, rmw2_new; int rmw2_ord;      /* last RMW */
};
struct cellmon m_ver, m_lri, m_c0, m_c1, m_other;   /* separate objects, accessed by name only (no symbolic pointers/indices: keeps the SAT instance small) */
struct left_right* mon_self;
_Bool env_busy;          /* the environment is executing (its accesses are not the function's; no nested environment step) */
unsigned fn_steps;       /* atomic accesses + functor calls of the function under test */
static int cell_of(void* a) {
  if (a == (void*)&mon_self->_version_index) return C_VER;
  if (a == (void*)&mon_self->_lr_indicator) return C_LRI;
  if (ri_is_cell(a, &mon_self->_read_indicator1)) return C_CNT0;     /* any member of indicator 1 */
  if (ri_is_cell(a, &mon_self->_read_indicator2)) return C_CNT1;
  return C_OTHER;
}
#define UPD_LOAD(M) do { if (M.n_load == 0) { M.first_load_clk = xv_clock; M.all_loads_sc = 1; } \
  M.n_load++; M.last_load_clk = xv_clock; M.last_load_val = v; M.last_load_ord = o; if (o != mo_seq_cst) M.all_loads_sc = 0; } while (0)
#define UPD_STORE(M) do { M.n_store++; M.store_clk = xv_clock; M.store_val = v; M.store_ord = o; } while (0)
#define UPD_RMW(M) do { if (M.n_rmw == 0) { M.rmw1_clk = xv_clock; M.rmw1_old = oldv; M.rmw1_new = newv; M.rmw1_ord = o; } \
  M.n_rmw++; M.rmw2_clk = xv_clock; M.rmw2_old = oldv; M.rmw2_new = newv; M.rmw2_ord = o; } while (0)
#define DISPATCH(U) do { int c = cell_of(addr); if (c == C_VER) U(m_ver); else if (c == C_LRI) U(m_lri); else if (c == C_CNT0) U(m_c0); \
  else if (c == C_CNT1) U(m_c1); else U(m_other); } while (0)
static void mon_load(void* addr, uint64_t v, int o) { if (env_busy) return; fn_steps++; DISPATCH(UPD_LOAD); }
static void mon_store(void* addr, uint64_t v, int o) { if (env_busy) return; fn_steps++; DISPATCH(UPD_STORE); }
static void mon_rmw(void* addr, uint64_t oldv, uint64_t newv, int o) { if (env_busy) return; fn_steps++; DISPATCH(UPD_RMW); }
static void mon_reset(struct left_right* s) {
  mon_self = s; xv_clock = 1; xv_threw = 0; env_busy = 0; fn_steps = 0;
  struct cellmon z = {0}; m_ver = z; m_lri = z; m_c0 = z; m_c1 = z; m_other = z;
}
#define CM(idx, f) ((idx) == 0 ? m_c0.f : m_c1.f)      /* monitor field of read indicator idx (all its members together) */
#define RMW_BY_ONE(old, new) ((new) == (old) + 1 || (new) == (old) - 1)
static unsigned total_stores(void) { return m_ver.n_store + m_lri.n_store + m_c0.n_store + m_c1.n_store + m_other.n_store; }
static unsigned total_rmws(void) { return m_ver.n_rmw + m_lri.n_rmw + m_c0.n_rmw + m_c1.n_rmw + m_other.n_rmw; }

/* ---- std::mutex / std::lock_guard stub ---- */
unsigned mtx_locks, mtx_unlocks; uint64_t mtx_lock_clk, mtx_unlock_clk; _Bool mtx_bad;
static void xv_lock_guard_ctor(struct xv_lock_guard* g, struct xv_mutex* m) {
  XV_ASSUME(!m->held);             /* lock() returns once the mutex is free; the state at this moment is the harness' entry state */
  m->held = 1; g->m = m; mtx_locks++; mtx_lock_clk = ++xv_clock;
  if (m != &mon_self->_writer_mutex) mtx_bad = 1;
}
static void xv_lock_guard_dtor(struct xv_lock_guard* g) {
  if (!g->m->held) mtx_bad = 1;
  g->m->held = 0; mtx_unlocks++; mtx_unlock_clk = ++xv_clock;
}

/* ---- the tracked reader (environment of a writer).  It follows exactly the contract that lr.read.bracket proves for the
 * real text of read(): load version v; arrive on indicator v; load _lr_indicator; run the functor on the selected
 * instance; depart from indicator v.  The version it holds may be arbitrarily stale (the load is relaxed). ---- */
enum { R_IDLE = 0, R_GOTV = 1, R_ARRIVED = 2, R_READING = 3 };
int r_state, r_vi, r_inst; uint64_t r_arrive_clk, r_lri_clk; unsigned r_cycles;
_Bool env_on; int env_kind;       /* 1: we are a writer (readers move); 2: we are a reader (writers and other readers move) */
struct left_right* env_self;
/* Layering.  Writer-side harnesses (wait_for_readers, toggle_version_and_wait, update) see read_indicator::empty() through its
 * CONTRACT (stub below: "true only if the indicator's occupancy was 0 at some instant of the call"), and the readers of their
 * environment are pure state machines: nothing there depends on how the indicator represents its occupancy.  The contract is
 * proved for the real text of empty() in run empty_int (env_real = 1): there the environment's readers arrive and depart by
 * executing the REAL lowered arrive()/depart() on the indicator's members, whatever those are.
 * Occupancy of indicator i = number of environment readers currently between their arrive and their depart on i. */
_Bool env_real;                   /* the environment's readers execute the real arrive()/depart() */
_Bool occupancy_tracked;
int lin_watch; _Bool lin_zero;    /* empty() on indicator lin_watch is running; lin_zero: its occupancy was 0 at some instant of the call */
struct oreader { _Bool on; int vi; unsigned cycles; } o1, o2;
static _Bool r_on(int i);
static unsigned occ(int i) { return (r_on(i) ? 1u : 0u) + ((o1.on && o1.vi == i) ? 1u : 0u) + ((o2.on && o2.vi == i) ? 1u : 0u); }
static void ri_arrive(struct read_indicator* self); static void ri_depart(struct read_indicator* self);
static void lin_note(void) { if ((lin_watch == 0 || lin_watch == 1) && occ(lin_watch) == 0) lin_zero = 1; }
/* the event clock orders the events of the function under test; the environment's accesses do not advance it (keeps it a constant) */
static void env_arrive(int i) {
  if (!env_real) return;
  _Bool b = env_busy; env_busy = 1; uint64_t c = xv_clock;
  if (i == 0) ri_arrive(&env_self->_read_indicator1); else ri_arrive(&env_self->_read_indicator2);
  env_busy = b; xv_clock = c;
}
static void env_depart(int i) {
  if (!env_real) return;
  _Bool b = env_busy; env_busy = 1; uint64_t c = xv_clock;
  if (i == 0) ri_depart(&env_self->_read_indicator1); else ri_depart(&env_self->_read_indicator2);
  env_busy = b; xv_clock = c;
}
static void r_step(void) {
  struct left_right* s = env_self;
  if (r_state == R_IDLE)         { r_vi = s->_version_index; r_state = R_GOTV; }
  else if (r_state == R_GOTV)    { env_arrive(r_vi); r_state = R_ARRIVED; r_arrive_clk = xv_clock; }
  else if (r_state == R_ARRIVED) { r_inst = s->_lr_indicator; r_lri_clk = xv_clock; r_state = R_READING; }
  else                           { env_depart(r_vi); r_state = R_IDLE; r_cycles++; }
  lin_note();
}
/* two more readers (the property's quantifier is 1..3 readers): only their arrive/depart matters to a writer; the version they
 * arrive on is one they read at some earlier time, i.e. either value */
static void o_step(struct oreader* o) {
  if (!o->on) { o->vi = nondet_bool() ? 1 : 0; env_arrive(o->vi); o->on = 1; }
  else { env_depart(o->vi); o->on = 0; o->cycles++; }
  lin_note();
}
static _Bool r_on(int i) { return (r_state == R_ARRIVED || r_state == R_READING) && r_vi == i; }
static _Bool r_reading(struct left_right* s, struct T* x);

/* ---- functor stubs ---- */
#define N_UF 4
unsigned uf_n; int uf_inst[N_UF]; uint64_t uf_clk[N_UF]; _Bool uf_held[N_UF]; _Bool uf_excl_bad; _Bool uf_reader_elsewhere[N_UF];
uint64_t in_k; unsigned in_throw; unsigned cur_update;   /* in_throw: 0 = the functor never throws, n = it throws on its n-th application */
int in_ver, in_lri; uint64_t in_left, in_right, in_c0, in_c1;   /* the entry state, for the native replay */
uint64_t in_k2;
static int inst_id(struct left_right* s, struct T* x) { return x == &s->_left ? 0 : x == &s->_right ? 1 : 2; }
_Bool uf_consumed, uf_use_after_move;     /* value category of the functor: applying it as an rvalue (std::forward/std::move) may consume it */
static void xv_ufunc(struct T* x) {      /* the update functor: x := 3x + k (k per update; not commutative between updates) */
  struct left_right* s = mon_self;
  if (uf_consumed) uf_use_after_move = 1;
  XV_ENV();
  if (uf_n < N_UF) { uf_inst[uf_n] = inst_id(s, x); uf_clk[uf_n] = ++xv_clock; uf_held[uf_n] = s->_writer_mutex.held;
                     uf_reader_elsewhere[uf_n] = (r_state == R_READING); }
  uf_n++;
  if (r_reading(s, x)) uf_excl_bad = 1;
  if (in_throw == uf_n) { x->val = nondet_u64(); XV_THROW(functor); return; }
  x->val = x->val * 3 + (cur_update == 0 ? in_k : in_k2);
  XV_ENV();
  if (r_reading(s, x)) uf_excl_bad = 1;     /* a reader entered while the functor was running */
}
#define XV_UFUNC(x) xv_ufunc(&(x))
#define XV_UFUNC_RV(x) (xv_ufunc(&(x)), (void)(uf_consumed = 1))      /* std::forward<Func>(func)(x): an rvalue functor is consumed by the call */
unsigned rf_n; int rf_inst; uint64_t rf_clk, rf_result, in_rk; _Bool rf_e0, rf_e1;
static _Bool ri_empty(struct read_indicator* self);
static uint64_t xv_rfunc(struct T* x) {   /* the read functor */
  struct left_right* s = mon_self;
  rf_n++; rf_inst = inst_id(s, x); rf_clk = ++xv_clock; fn_steps++;
  { _Bool b = env_busy; env_busy = 1; rf_e0 = ri_empty(&s->_read_indicator1); rf_e1 = ri_empty(&s->_read_indicator2); env_busy = b; }   /* what a writer would see right now */
  if (in_throw != 0) { XV_THROW(functor); return 0; }
  rf_result = x->val ^ in_rk;
  return rf_result;
}
#define XV_RFUNC(x) xv_rfunc(&(x))
#define XV_RFUNC_RV(x) xv_rfunc(&(x))                                 /* read applies its functor once: forwarding it is fine */

/* ---- glue for the lowered text ---- */
#define RI_arrive(x) ri_arrive(&(x))
#define RI_depart(x) ri_depart(&(x))
#define RI_empty(x)  ri_empty_logged(&(x))
/* every empty() the function under test performs: which indicator, result, clocks; and the linearizability obligation */
struct emlog { unsigned n; uint64_t first_clk, last_call_clk, last_ret_clk; _Bool last_res; };
struct emlog em0, em1; unsigned em_other;
#define EM(idx, f) ((idx) == 0 ? em0.f : em1.f)
static _Bool ri_empty(struct read_indicator* self);
_Bool use_real_empty;
static _Bool ri_empty_logged(struct read_indicator* p) {
  int i = p == &mon_self->_read_indicator1 ? 0 : p == &mon_self->_read_indicator2 ? 1 : 2;
  uint64_t c0 = ++xv_clock;
  lin_watch = i; lin_zero = (i == 0 || i == 1) ? occ(i) == 0 : 1;
  _Bool r;
  if (use_real_empty) {
    r = ri_empty(p);                            /* the real text; the environment runs before each of its atomic accesses */
    /* true only if the indicator's occupancy was 0 at some instant between call and return (readers come and go meanwhile) */
    if (occupancy_tracked && r) XV_OBL("lr.indicator.empty_linearizable", lin_zero);
  } else {
    XV_ENV();                                   /* contract stub: readers move while empty() runs ... */
    r = nondet_bool(); XV_ASSUME(!r || lin_zero);   /* ... and "true" is only possible if the occupancy was 0 at some instant (lr.indicator.empty_linearizable) */
    fn_steps++;
  }
  lin_watch = 2;
  if (i == 0) { if (em0.n == 0) em0.first_clk = c0; em0.last_call_clk = c0; em0.n++; em0.last_res = r; em0.last_ret_clk = ++xv_clock; }
  else if (i == 1) { if (em1.n == 0) em1.first_clk = c0; em1.last_call_clk = c0; em1.n++; em1.last_res = r; em1.last_ret_clk = ++xv_clock; }
  else em_other++;
  return r;
}
#define LR_get_read_indicator(recv, idx) (*lr_get_read_indicator(&(recv), (idx)))
#define XV_INIT__indicator(self, v) ((self)->_indicator = &(v))
#define XV_INIT__left(self, v)  ((self)->_left = (v))
#define XV_INIT__right(self, v) ((self)->_right = (v))
unsigned wait_n; int wait_idx[2]; uint64_t wait_ret_clk[2];
static void lr_wait_for_readers(struct left_right* self, int idx);
static void lr_wait_logged(struct left_right* self, int idx) {
  lr_wait_for_readers(self, idx);
  if (wait_n < 2) { wait_idx[wait_n] = idx; wait_ret_clk[wait_n] = ++xv_clock; } wait_n++;
}
#define LR_WAIT(self, idx) lr_wait_logged(self, idx)
unsigned tog_n; uint64_t tog_enter_clk, tog_exit_clk;
static void lr_toggle_version_and_wait(struct left_right* self);
static void lr_toggle_logged(struct left_right* self) {
  tog_n++; tog_enter_clk = ++xv_clock;
  lr_toggle_version_and_wait(self);
  tog_exit_clk = ++xv_clock;
}
int xv_toggle_arg0, xv_toggle_arg1;       /* parameters a maintainer may have given toggle_version_and_wait (see unit.py) */
#define XV_TOG_PICK(_0, _1, _2, N, ...) N
#define LR_TOGGLE(...) XV_TOG_PICK(__VA_ARGS__, LR_TOGGLE2, LR_TOGGLE1, LR_TOGGLE0)(__VA_ARGS__)
#define LR_TOGGLE0(self) lr_toggle_logged(self)
#define LR_TOGGLE1(self, a) (xv_toggle_arg0 = (a), lr_toggle_logged(self))
#define LR_TOGGLE2(self, a, b) (xv_toggle_arg0 = (a), xv_toggle_arg1 = (b), lr_toggle_logged(self))

/* loop cut of wait_for_readers' spin loop: the body is empty after dropping yield(); what changes between iterations
 * is the environment (called inside the condition's atomic accesses).  In terms of reader states and occupancy the environment
 * is closed under repetition (h_env_closed); the indicator's members are only ever changed by the real arrive()/depart(). */
#define XV_INV_WAIT 1
#define XV_HAVOC_WAIT XV_ENV(); XV_ENV()

#include "lowered.h"

static _Bool r_reading(struct left_right* s, struct T* x) {
  return r_state == R_READING && x == (r_inst == READ_LEFT ? &s->_left : &s->_right);
}
#ifndef XV_KR
#define XV_KR 6
#define XV_K1 3
#define XV_K2 3      /* steps per gap: tracked reader, second reader, third reader */
#endif
#ifdef XV_INT
void xv_env(void) {
  if (!env_on || env_busy) return;
  struct left_right* s = env_self;
  if (env_kind == 1) {
    /* the three readers, interleaved: per round the tracked reader takes up to two steps and the others up to one each.  Between two accesses
     * of the writer the words the readers read do not change; the tracked reader's step function satisfies f^7 = f^3 (h_env_closed),
     * so its 0..6 steps are complete; the other two can finish a cycle and start the next (3 steps). */
    unsigned kr = nondet_uint(), k1 = nondet_uint(), k2 = nondet_uint();     /* how many steps each reader takes in this gap */
    XV_ASSUME(kr <= XV_KR && k1 <= XV_K1 && k2 <= XV_K2);
    if (kr > 0) r_step(); if (kr > 1) r_step(); if (k1 > 0) o_step(&o1); if (k2 > 0) o_step(&o2);
    if (kr > 2) r_step(); if (kr > 3) r_step(); if (k1 > 1) o_step(&o1); if (k2 > 1) o_step(&o2);
    if (kr > 4) r_step(); if (kr > 5) r_step(); if (k1 > 2) o_step(&o1); if (k2 > 2) o_step(&o2);
    lin_note();
  } else {
    /* writers (any number of complete or partial updates) and other readers: every shared word may change;
     * guarantee of the writers used: the version index and the indicator stay in {0,1} */
    s->_version_index = nondet_bool(); s->_lr_indicator = nondet_bool() ? READ_LEFT : READ_RIGHT;
    ri_havoc(&s->_read_indicator1); ri_havoc(&s->_read_indicator2);
    s->_left.val = nondet_u64(); s->_right.val = nondet_u64();
  }
}
#endif
/* a quiescent indicator state (its own empty() says so, no interference) with the environment's readers placed on it by real arrive() calls */
static void place_readers(struct left_right* s) {
  occupancy_tracked = 1;
  o1.on = nondet_bool(); o1.vi = nondet_bool() ? 1 : 0; o2.on = nondet_bool(); o2.vi = nondet_bool() ? 1 : 0; o1.cycles = 0; o2.cycles = 0;
  if (env_real) {
#ifdef XV_BASE_ARBITRARY
    env_busy = 1;        /* any member values for which the indicator's own empty() (no interference) says "empty" */
    XV_ASSUME(ri_empty(&s->_read_indicator1) && ri_empty(&s->_read_indicator2));
    env_busy = 0;
#else
    /* the freshly initialised indicator: for SAT the member values then stay sums of a few small constants.  Cycles completed before
     * the harness starts are produced by an environment step before the call under test */
    ri_init(&s->_read_indicator1); ri_init(&s->_read_indicator2);
#endif
    if (r_on(0)) env_arrive(0); if (r_on(1)) env_arrive(1);
    if (o1.on) env_arrive(o1.vi); if (o2.on) env_arrive(o2.vi);
  }
  in_c0 = occ(0); in_c1 = occ(1);
  xv_clock = 1;
}

/* ---- state ---- */
static void havoc_lr(struct left_right* s) {
  s->_writer_mutex.held = nondet_bool();
  s->_version_index = nondet_int(); s->_lr_indicator = nondet_int();
  ri_havoc(&s->_read_indicator1); ri_havoc(&s->_read_indicator2);
  s->_left.val = nondet_u64(); s->_right.val = nondet_u64();
  XV_ASSUME(s->_version_index == 0 || s->_version_index == 1);
  XV_ASSUME(s->_lr_indicator == READ_LEFT || s->_lr_indicator == READ_RIGHT);
  mon_reset(s);
  mtx_locks = 0; mtx_unlocks = 0; mtx_bad = 0; mtx_lock_clk = 0; mtx_unlock_clk = 0;
  uf_n = 0; uf_excl_bad = 0; uf_consumed = 0; uf_use_after_move = 0; rf_n = 0; rf_inst = 2; rf_clk = 0; rf_result = 0; wait_n = 0; tog_n = 0; tog_enter_clk = 0; tog_exit_clk = 0; cur_update = 0;
  in_k = nondet_u64(); in_k2 = nondet_u64(); in_rk = nondet_u64(); in_throw = nondet_uint(); XV_ASSUME(in_throw <= 2);
  in_ver = s->_version_index; in_lri = s->_lr_indicator; in_left = s->_left.val; in_right = s->_right.val;
  in_c0 = 0; in_c1 = 0; occupancy_tracked = 0; lin_watch = 2; lin_zero = 0; env_real = 0; use_real_empty = 0;
  { struct emlog z = {0}; em0 = z; em1 = z; em_other = 0; } o1.on = 0; o2.on = 0; o1.vi = 0; o2.vi = 0; o1.cycles = 0; o2.cycles = 0;
  env_self = s; env_on = 0; env_kind = 0;
  r_state = nondet_int(); r_vi = nondet_int(); r_inst = nondet_int(); r_arrive_clk = 0; r_lri_clk = 0; r_cycles = 0;
  XV_ASSUME(r_state >= R_IDLE && r_state <= R_READING && (r_vi == 0 || r_vi == 1) && (r_inst == READ_LEFT || r_inst == READ_RIGHT));
}
/* the invariant of a left_right whose writer mutex is free (established by the constructors, restored by every exit of update) */
static _Bool inv_idle(struct left_right* s) {
  return s->_lr_indicator == s->_version_index                      /* the code's own assert in update */
      && (r_state != R_READING || r_inst == s->_lr_indicator);      /* every reader that is inside its functor reads the instance the indicator selects */
}
static struct T* sel(struct left_right* s, int lri) { return lri == READ_LEFT ? &s->_left : &s->_right; }

/* ================= read_indicator ================= */
static void t_indicator(struct left_right* s, int i) {
  struct read_indicator* a = i == 0 ? &s->_read_indicator1 : &s->_read_indicator2;
  struct read_indicator* b = i == 0 ? &s->_read_indicator2 : &s->_read_indicator1;
  struct read_indicator a0 = *a, b0 = *b;
  unsigned op = nondet_uint();
  if (op == 0) {
    ri_arrive(a);       /* exactly one RMW by one on the indicator's own state, nothing else */
    XV_OBL("lr.indicator.counts", CM(i, n_rmw) == 1 && total_rmws() == 1 && total_stores() == 0 && RMW_BY_ONE(CM(i, rmw1_old), CM(i, rmw1_new)) && ri_same(b, &b0));
    XV_OBL("lr.sync.seq_cst", CM(i, rmw1_ord) == mo_seq_cst);                       /* (4) */
    XV_CANARY("indicator.arrive");
  } else if (op == 1) {
    ri_depart(a);
    XV_OBL("lr.indicator.counts", CM(i, n_rmw) == 1 && total_rmws() == 1 && total_stores() == 0 && RMW_BY_ONE(CM(i, rmw1_old), CM(i, rmw1_new)) && ri_same(b, &b0));
    XV_OBL("lr.sync.seq_cst", XV_IS_RELEASE(CM(i, rmw1_ord)));                      /* (5) */
    XV_CANARY("indicator.depart");
  } else if (op == 2) {
    _Bool e = ri_empty(a);
    XV_OBL("lr.indicator.counts", total_rmws() == 0 && total_stores() == 0 && CM(i, n_load) >= 1 && CM(1 - i, n_load) == 0 && m_other.n_load + m_ver.n_load + m_lri.n_load == 0
                                  && ri_same(a, &a0) && ri_same(b, &b0));
    XV_OBL("lr.sync.seq_cst", CM(i, all_loads_sc));                                 /* (6) */
    if (e) XV_CANARY("indicator.empty"); else XV_CANARY("indicator.nonempty");
  } else if (op == 3) {
    /* abstract occupancy: from a quiescent state, after any sequence of arrive()/depart() calls (never more departures than arrivals)
     * empty() <=> arrivals == departures; the other indicator is never touched */
    env_busy = 1; XV_ASSUME(ri_empty(a)); env_busy = 0;
    unsigned inside = 0; _Bool ok = 1, was_nonempty = 0;
    for (int k = 0; k < 4; ++k) {
      if (inside > 0 && nondet_bool()) { ri_depart(a); inside--; } else { ri_arrive(a); inside++; }
      if (ri_empty(a) != (inside == 0)) ok = 0;
      if (inside > 1) was_nonempty = 1;
    }
    XV_OBL("lr.indicator.counts", ok && ri_same(b, &b0));
    if (inside == 0 && was_nonempty) XV_CANARY("indicator.sequence_back_to_empty");
    if (inside == 4) XV_CANARY("indicator.sequence_four_inside");
  } else {
    struct read_indicator* p = lr_get_read_indicator(s, i);
    XV_OBL("lr.indicator.counts", p == a);
    XV_CANARY("indicator.get");
  }
}
void h_indicator(void) {
  struct left_right s; havoc_lr(&s);
  if (nondet_bool()) t_indicator(&s, 0); else t_indicator(&s, 1);
}

/* ================= empty() among readers that come and go ================= */
void h_empty(void) {
  struct left_right s; havoc_lr(&s); env_real = 1; use_real_empty = 1; place_readers(&s);
  int idx = nondet_int(); XV_ASSUME(idx == 0 || idx == 1);
  env_on = 1; env_kind = 1;
  XV_ENV();                                          /* some history first: readers complete cycles, arrive, depart */
  unsigned before = occ(idx); _Bool r_before = r_on(idx); unsigned cyc0 = r_cycles;
  _Bool res = ri_empty_logged(idx == 0 ? &s._read_indicator1 : &s._read_indicator2);     /* lr.indicator.empty_linearizable is stated in there */
  env_on = 0;
  /* the case that matters to a writer: a reader that arrived before the call and is still inside when it returns */
  XV_OBL("lr.indicator.empty_linearizable", !(res && r_before && r_cycles == cyc0 && r_on(idx)));
  XV_OBL("lr.indicator.counts", total_rmws() == 0 && total_stores() == 0 && CM(idx, n_load) >= 1 && CM(1 - idx, n_load) == 0 && m_other.n_load + m_ver.n_load + m_lri.n_load == 0);
  XV_OBL("lr.sync.seq_cst", CM(idx, all_loads_sc));                                      /* (6) */
#ifndef XV_INT
  XV_OBL("lr.indicator.counts", res == (before == 0));          /* no interference: empty() <=> occupancy 0 */
#endif
  if (res) XV_CANARY("empty.true"); else XV_CANARY("empty.false");
#ifdef XV_INT
  if (res && before > 0) XV_CANARY("empty_int.true_after_the_last_one_left");
  if (!res && before == 0) XV_CANARY("empty_int.false_because_someone_came");
  if (r_before && r_cycles == cyc0 && r_on(idx) && (o1.cycles > 0 || o2.cycles > 0)) XV_CANARY("empty_int.old_reader_stays_others_cycle");
#endif
}

/* ================= read_guard (RAII pair) ================= */
void h_guard(void) {
  struct left_right s; havoc_lr(&s);
  env_busy = 1; XV_ASSUME(ri_empty(&s._read_indicator1) && ri_empty(&s._read_indicator2)); env_busy = 0;    /* nobody inside */
  int v = s._version_index;
  struct read_indicator* own = v == 0 ? &s._read_indicator1 : &s._read_indicator2;
  struct read_indicator* oth = v == 0 ? &s._read_indicator2 : &s._read_indicator1;
  struct read_indicator oth0 = *oth;
  struct read_guard g; g._indicator = 0;
  rg_ctor(&g, &s);
  XV_OBL("lr.read.bracket", g._indicator == own);
  XV_OBL("lr.read.bracket", XV_READ_RETURNS_BY_VALUE);   /* the result leaves read() by value, i.e. it is copied before the guard departs */
  env_busy = 1; _Bool e_in = ri_empty(own); env_busy = 0;
  XV_OBL("lr.indicator.counts", !e_in && ri_same(oth, &oth0));                   /* the guard is counted on the indicator the version selects, only there */
  XV_OBL("lr.read.bracket", m_ver.n_load == 1 && CM(v, n_rmw) == 1 && CM(v, rmw1_clk) > m_ver.last_load_clk && CM(1 - v, n_rmw) == 0);
  s._version_index = nondet_bool();            /* the version may change while the guard is alive */
  rg_dtor(&g);
  env_busy = 1; _Bool e_out = ri_empty(own); env_busy = 0;
  XV_OBL("lr.indicator.counts", e_out && ri_same(oth, &oth0));                   /* departed from the same indicator */
  XV_OBL("lr.read.bracket", CM(v, n_rmw) == 2 && CM(1 - v, n_rmw) == 0 && total_stores() == 0 && m_ver.n_load == 1);
  if (v == 0) XV_CANARY("guard.v0"); else XV_CANARY("guard.v1");
}

/* ================= wait_for_readers ================= */
void h_wait(void) {
  struct left_right s; havoc_lr(&s); place_readers(&s);
  int idx = nondet_int(); XV_ASSUME(idx == 0 || idx == 1);
  int v0 = s._version_index, l0 = s._lr_indicator; uint64_t L = s._left.val, R = s._right.val;
  env_on = 1; env_kind = 1;
  lr_wait_for_readers(&s, idx);
  env_on = 0;
  XV_OBL("lr.wait.spins_until_empty", EM(idx, n) >= 1 && EM(idx, last_res));                       /* the last thing it did: empty() of that indicator returned true */
  XV_OBL("lr.wait.spins_until_empty", EM(1 - idx, n) == 0 && em_other == 0 && CM(1 - idx, n_load) == 0 && m_other.n_load == 0);
  XV_OBL("lr.wait.spins_until_empty", !r_on(idx) || r_arrive_clk >= EM(idx, last_call_clk));   /* a reader that is on this indicator now arrived during the last empty() call, not before */
  XV_OBL("lr.wait.spins_until_empty", total_stores() == 0 && total_rmws() == 0 && s._version_index == v0 && s._lr_indicator == l0 && s._left.val == L && s._right.val == R);
  XV_CANARY("wait.returned");
  if (idx == 0) XV_CANARY("wait.idx0"); else XV_CANARY("wait.idx1");
#ifdef XV_INT
  if (r_on(1 - idx)) XV_CANARY("wait_int.reader_on_other_indicator");
  if (r_cycles > 0) XV_CANARY("wait_int.reader_cycled");
  if (o1.cycles > 0 && o2.on) XV_CANARY("wait_int.other_readers_moved");
#endif
}

/* ================= toggle_version_and_wait ================= */
static void check_toggle(struct left_right* s, int v0) {
  int nx = 1 - v0;
  XV_OBL("lr.toggle.order", m_ver.n_store == 1 && m_ver.store_val == (uint64_t)nx && s->_version_index == nx);     /* flipped exactly once */
  XV_OBL("lr.toggle.order", wait_n == 2 && wait_idx[0] == nx && wait_idx[1] == v0);
  XV_OBL("lr.toggle.order", EM(nx, n) >= 1 && EM(nx, last_res) && EM(nx, last_ret_clk) < m_ver.store_clk);
  XV_OBL("lr.toggle.order", EM(v0, n) >= 1 && EM(v0, last_res) && EM(v0, first_clk) > m_ver.store_clk);
  XV_OBL("lr.toggle.order", wait_ret_clk[0] < m_ver.store_clk && m_ver.store_clk < wait_ret_clk[1]);
  XV_OBL("lr.toggle.order", m_c0.n_store + m_c1.n_store + m_c0.n_rmw + m_c1.n_rmw == 0 && m_other.n_store + m_other.n_rmw == 0);
}
void h_toggle(void) {
  struct left_right s; havoc_lr(&s); place_readers(&s);
  int v0 = s._version_index, l0 = s._lr_indicator; uint64_t L = s._left.val, R = s._right.val;
  env_on = 1; env_kind = 1;
  lr_toggle_logged(&s);
  env_on = 0;
  check_toggle(&s, v0);
  XV_OBL("lr.toggle.order", m_lri.n_store == 0 && s._lr_indicator == l0 && s._left.val == L && s._right.val == R);
  /* what the two waits are for: a reader still inside its functor loaded _lr_indicator after toggle_version_and_wait was entered */
  XV_OBL("lr.toggle.drains", r_state != R_READING || r_lri_clk >= tog_enter_clk);
  if (v0 == 0) XV_CANARY("toggle.v0"); else XV_CANARY("toggle.v1");
#ifdef XV_INT
  if (r_state == R_READING) XV_CANARY("toggle_int.new_reader_inside");
  if (r_on(1 - v0)) XV_CANARY("toggle_int.arrived_on_new_version");
#endif
}

/* ================= update ================= */
static void check_update(struct left_right* s, int l0, int v0, uint64_t L0, uint64_t R0, uint64_t k, uint64_t clk0) {
  int first = (l0 == READ_LEFT) ? 1 : 0, second = 1 - first;      /* instance ids: 0 left, 1 right */
  int new_lri = (l0 == READ_LEFT) ? READ_RIGHT : READ_LEFT;
  /* mutex: taken once before anything else, held at every application, released exactly once on every exit */
  XV_OBL("lr.update.mutex", mtx_locks == 1 && mtx_unlocks == 1 && !mtx_bad && !s->_writer_mutex.held && mtx_lock_clk == clk0 + 1);
  XV_OBL("lr.update.mutex", uf_n >= 1 && uf_held[0] && (uf_n < 2 || uf_held[1]) && mtx_lock_clk < uf_clk[0] && mtx_unlock_clk > uf_clk[uf_n < 2 ? 0 : 1]);
  XV_OBL("lr.update.mutex", mtx_unlock_clk == xv_clock);   /* nothing after the unlock */
  XV_OBL("lr.update.order", uf_n >= 1 && uf_inst[0] == first);
  XV_OBL("lr.update.order", !uf_use_after_move);   /* the functor is applied twice: it must not be consumed (applied as an rvalue) before its last application */
  XV_OBL("lr.update.exclusion", !uf_excl_bad);
  if (!xv_threw) {
    XV_OBL("lr.update.order", uf_n == 2 && uf_inst[1] == second);
    XV_OBL("lr.update.order", m_lri.n_store == 1 && m_lri.store_val == (uint64_t)new_lri && s->_lr_indicator == new_lri);
    XV_OBL("lr.update.order", tog_n == 1 && uf_clk[0] < m_lri.store_clk && m_lri.store_clk < tog_enter_clk && tog_exit_clk < uf_clk[1]);
    XV_OBL("lr.update.order", tog_enter_clk < m_ver.store_clk && m_ver.store_clk < tog_exit_clk);
    XV_OBL("lr.update.order", s->_left.val == L0 * 3 + k && s->_right.val == R0 * 3 + k);     /* exactly once to each instance */
    XV_OBL("lr.sync.seq_cst", m_lri.store_ord == mo_seq_cst);                        /* (2),(3) */
    check_toggle(s, v0);
    XV_OBL("lr.update.order", s->_lr_indicator == s->_version_index);
    if (first == 1) XV_CANARY("update.right_first"); else XV_CANARY("update.left_first");
  } else if (uf_n == 1) {
    /* the functor threw on the first instance: nothing was published, the other instance is untouched */
    XV_OBL("lr.update.order", total_stores() == 0 && total_rmws() == 0 && tog_n == 0 && s->_lr_indicator == l0 && s->_version_index == v0);
    XV_OBL("lr.update.order", (second == 0 ? s->_left.val == L0 : s->_right.val == R0));
    XV_CANARY("update.throw_first");
  } else {
    /* the functor threw on the second instance: the first one is complete and published */
    XV_OBL("lr.update.order", uf_n == 2 && uf_inst[1] == second && m_lri.n_store == 1 && s->_lr_indicator == new_lri && tog_n == 1 && tog_exit_clk < uf_clk[1]);
    XV_OBL("lr.update.order", (first == 0 ? s->_left.val == L0 * 3 + k : s->_right.val == R0 * 3 + k));
    check_toggle(s, v0);
    XV_CANARY("update.throw_second");
  }
}
void h_update(void) {
  struct left_right s; havoc_lr(&s); place_readers(&s);
  XV_ASSUME(inv_idle(&s));
  int l0 = s._lr_indicator, v0 = s._version_index; uint64_t L0 = s._left.val, R0 = s._right.val, clk0 = xv_clock;
  env_on = 1; env_kind = 1;
  lr_update(&s);
  env_on = 0;
  check_update(&s, l0, v0, L0, R0, in_k, clk0);
  XV_OBL("lr.update.exclusion", inv_idle(&s));        /* the invariant the next update (of any writer) starts from */
#ifdef XV_INT
  if (!xv_threw) {
    if (uf_reader_elsewhere[1]) XV_CANARY("update_int.reader_on_new_instance_during_second_application");
    if (uf_reader_elsewhere[0]) XV_CANARY("update_int.reader_on_old_instance_during_first_application");
    /* a reader that arrives between the instance switch and the version toggle, on either indicator */
    if (r_arrive_clk >= m_lri.store_clk && r_arrive_clk < m_ver.store_clk && r_vi == v0) XV_CANARY("update_int.arrived_between_switch_and_toggle_old_version");
    if (r_arrive_clk >= m_lri.store_clk && r_arrive_clk < m_ver.store_clk && r_vi == 1 - v0) XV_CANARY("update_int.arrived_between_switch_and_toggle_stale_version");
  }
#endif
}
/* back-to-back updates (same or different writer: the mutex serialises them), with the tracked reader running throughout */
void h_update2(void) {
  struct left_right s; havoc_lr(&s); place_readers(&s);
  XV_ASSUME(inv_idle(&s)); in_throw = 0;
  int l0 = s._lr_indicator, v0 = s._version_index; uint64_t L0 = s._left.val, R0 = s._right.val;
  env_on = 1; env_kind = 1;
  lr_update(&s);
  XV_ENV();
  _Bool mid_ok = inv_idle(&s) && !s._writer_mutex.held && uf_n == 2 && uf_inst[0] != uf_inst[1];
  int f1 = uf_inst[0];
  uf_n = 0; cur_update = 1; uf_consumed = 0;
  lr_update(&s);
  env_on = 0;
  XV_OBL("lr.update.exclusion", !uf_excl_bad && mid_ok && inv_idle(&s));
  XV_OBL("lr.update.order", uf_n == 2 && uf_inst[0] != uf_inst[1] && uf_inst[0] != f1);      /* the instance updated first alternates */
  /* both instances received update 1 then update 2, each exactly once */
  XV_OBL("lr.update.order", s._left.val == (L0 * 3 + in_k) * 3 + in_k2 && s._right.val == (R0 * 3 + in_k) * 3 + in_k2);
  XV_OBL("lr.update.order", s._lr_indicator == l0 && s._version_index == v0 && !s._writer_mutex.held && mtx_locks == 2 && mtx_unlocks == 2 && !mtx_bad);
  XV_CANARY("update2.done");
#ifdef XV_INT
  if (r_cycles >= 2) XV_CANARY("update2_int.reader_cycled_twice");
  if (r_state == R_READING) XV_CANARY("update2_int.reader_inside_at_end");
#endif
}

/* ================= read ================= */
void h_read(void) {
  struct left_right s; havoc_lr(&s);
  uint64_t clk0 = xv_clock;
  env_on = 1; env_kind = 2;
  uint64_t res = lr_read(&s);
  env_on = 0;
  int v = (int)m_ver.last_load_val, l = (int)m_lri.last_load_val;
  XV_OBL("lr.read.bracket", m_ver.n_load == 1 && (v == 0 || v == 1));
  XV_OBL("lr.read.bracket", CM(v, n_rmw) == 2 && CM(1 - v, n_rmw) == 0 && m_ver.n_rmw + m_lri.n_rmw + m_other.n_rmw == 0 && total_stores() == 0);
  XV_OBL("lr.read.bracket", RMW_BY_ONE(CM(v, rmw1_old), CM(v, rmw1_new)) && RMW_BY_ONE(CM(v, rmw2_old), CM(v, rmw2_new)));     /* arrive, depart: one RMW by one each, on the same indicator */
  XV_OBL("lr.read.bracket", m_lri.n_load == 1 && rf_n == 1 && rf_inst == (l == READ_LEFT ? 0 : 1));
  XV_OBL("lr.read.bracket", m_ver.last_load_clk < CM(v, rmw1_clk) && CM(v, rmw1_clk) < m_lri.last_load_clk
                            && m_lri.last_load_clk < rf_clk && rf_clk < CM(v, rmw2_clk));
  XV_OBL("lr.read.bracket", m_c0.n_load + m_c1.n_load + m_other.n_load == 0);
  if (!xv_threw) { XV_OBL("lr.read.bracket", res == rf_result); XV_CANARY("read.returned"); }
  else XV_CANARY("read.functor_threw");
  XV_OBL("lr.sync.seq_cst", m_lri.last_load_ord == mo_seq_cst);                       /* (1) */
  XV_OBL("lr.sync.seq_cst", CM(v, rmw1_ord) == mo_seq_cst);                                /* (4) */
  XV_OBL("lr.sync.seq_cst", XV_IS_RELEASE(CM(v, rmw2_ord)));                               /* (5) */
  /* wait-free: the same five steps (version load, arrive, indicator load, functor, depart) whatever the others do */
  XV_OBL("lr.read.wait_free", fn_steps == 5);
  if (v == 0) XV_CANARY("read.v0"); else XV_CANARY("read.v1");
  if (l == READ_LEFT) XV_CANARY("read.left"); else XV_CANARY("read.right");
#ifdef XV_INT
  if (s._version_index != v) XV_CANARY("read_int.version_moved");
  if (s._lr_indicator != l) XV_CANARY("read_int.indicator_moved");
#endif
}
/* no interference: the read returns the functor's value of the instance the indicator selects and leaves everything as it was */
void h_read_seq(void) {
  struct left_right s; havoc_lr(&s);
  r_state = nondet_bool() ? R_READING : R_IDLE;      /* up to three other readers are inside, on either indicator */
  env_real = 1; place_readers(&s);
  struct left_right s0 = s; int v = s._version_index;
  uint64_t res = lr_read(&s);
  XV_OBL("lr.read.bracket", xv_threw || res == (sel(&s0, s0._lr_indicator)->val ^ in_rk));
  XV_OBL("lr.read.bracket", s._version_index == s0._version_index && s._lr_indicator == s0._lr_indicator && s._left.val == s0._left.val && s._right.val == s0._right.val
                            && s._writer_mutex.held == s0._writer_mutex.held);
  /* while the functor ran this reader was counted on the indicator of the version it read, and only there; afterwards the occupancy is what it was */
  XV_OBL("lr.read.bracket", (v == 0 ? !rf_e0 : !rf_e1) && (v == 0 ? rf_e1 == (occ(1) == 0) : rf_e0 == (occ(0) == 0)));
  env_busy = 1; _Bool e0 = ri_empty(&s._read_indicator1), e1 = ri_empty(&s._read_indicator2); env_busy = 0;
  XV_OBL("lr.read.bracket", e0 == (occ(0) == 0) && e1 == (occ(1) == 0) && ri_same(v == 0 ? &s._read_indicator2 : &s._read_indicator1, v == 0 ? &s0._read_indicator2 : &s0._read_indicator1));
  if (xv_threw) XV_CANARY("read_seq.threw"); else XV_CANARY("read_seq.returned");
  if (occ(0) + occ(1) == 3) XV_CANARY("read_seq.three_others_inside");
  if (occ(0) + occ(1) == 0) XV_CANARY("read_seq.alone");
}

/* ================= constructors ================= */
static void nsdmi(struct left_right* s) {          /* default member initialisers, extracted from the header as constants */
  s->_writer_mutex.held = 0;                        /* std::mutex() */
  s->_version_index = XV_NSDMI_version_index; s->_lr_indicator = XV_NSDMI_lr_indicator;
  ri_init(&s->_read_indicator1); ri_init(&s->_read_indicator2);
}
void h_ctor(void) {
  struct left_right s; havoc_lr(&s);
  r_state = R_IDLE;                                 /* nobody can be reading an object under construction */
  struct T a, b; a.val = nondet_u64(); b.val = nondet_u64();
  _Bool two = nondet_bool();
  nsdmi(&s);
  if (two) lr_ctor2(&s, a, b); else lr_ctor1(&s, a);
  XV_OBL("lr.ctor.init", inv_idle(&s) && !s._writer_mutex.held && (s._version_index == 0 || s._version_index == 1)
                         && (s._lr_indicator == READ_LEFT || s._lr_indicator == READ_RIGHT));
  env_busy = 1; _Bool e0 = ri_empty(&s._read_indicator1), e1 = ri_empty(&s._read_indicator2); env_busy = 0;
  XV_OBL("lr.ctor.init", e0 && e1);                 /* both read indicators start empty */
  XV_OBL("lr.ctor.init", s._left.val == a.val && s._right.val == (two ? b.val : a.val));
  if (two) XV_CANARY("ctor.two"); else XV_CANARY("ctor.one");
}

/* ================= model self-check: the tracked reader's step function is eventually periodic within 7 steps ================= */
void h_env_closed(void) {
  struct left_right s; havoc_lr(&s); place_readers(&s);
  env_self = &s;
  r_step(); r_step(); r_step();
  int st3 = r_state, vi3 = r_vi, in3 = r_inst; unsigned i03 = occ(0), i13 = occ(1);
  r_step(); r_step(); r_step(); r_step();
  XV_MODEL_ASSERT("env.closed", r_state == st3 && i03 == occ(0) && i13 == occ(1)
                                && (r_state == R_IDLE || r_vi == vi3) && (r_state != R_READING || r_inst == in3));
  XV_CANARY("env_closed.reached");
}
