/* unit lr - xenium::left_right (C13).  Declarations, ghost state, monitors, environment, contracts and harnesses.
 * The function bodies (read, update, toggle_version_and_wait, wait_for_readers, get_read_indicator, read_indicator::*,
 * read_guard ctor/dtor, the two constructors) come from lowered.h, generated from /repo on every run. */
#include <stdint.h>
#include <stddef.h>
static void mon_load(void* addr, uint64_t v, int o);
static void mon_store(void* addr, uint64_t v, int o);
static void mon_rmw(void* addr, uint64_t oldv, uint64_t newv, int o);
#define XV_ON_LOAD(addr, val, order) mon_load((void*)(addr), (uint64_t)(val), (order))
#define XV_ON_STORE(addr, val, order) mon_store((void*)(addr), (uint64_t)(val), (order))
#define XV_ON_RMW(addr, oldv, newv, order) mon_rmw((void*)(addr), (uint64_t)(oldv), (uint64_t)(newv), (order))
#include "xv.h"
int xv_threw; uint64_t xv_clock, xv_rmw_old; _Bool xv_cas_ok;
#define XV_EXC_functor 1

/* ---- types ---- */
struct T { uint64_t val; };                          /* an instance of the user's data structure: one word */
struct read_indicator { uint64_t _counter; };
struct xv_mutex { _Bool held; };                     /* std::mutex: held / not held */
struct left_right {
  struct xv_mutex _writer_mutex; int _version_index; int _lr_indicator;
  struct read_indicator _read_indicator1; struct T _left;
  struct read_indicator _read_indicator2; struct T _right;
};
struct read_guard { struct read_indicator* _indicator; };   /* read_indicator& _indicator */
struct xv_lock_guard { struct xv_mutex* m; };
#define MAX_READERS ((uint64_t)1 << 62)

/* ---- monitors: per shared cell, what the function under test did to it ---- */
enum { C_VER = 0, C_LRI = 1, C_CNT0 = 2, C_CNT1 = 3, C_OTHER = 4, N_CELLS = 5 };
struct cellmon {
  unsigned n_load, n_store, n_rmw;
  uint64_t first_load_clk, last_load_clk, last_load_val; int last_load_ord; _Bool all_loads_sc;
  uint64_t store_clk, store_val; int store_ord;
  uint64_t rmw1_clk, rmw1_old, rmw1_new; int rmw1_ord;      /* first RMW */
  uint64_t rmw2_clk, rmw2_old, rmw2_new; int rmw2_ord;      /* last RMW */
};
struct cellmon m_ver, m_lri, m_c0, m_c1, m_other;   /* separate objects, accessed by name only (no symbolic pointers/indices: keeps the SAT instance small) */
struct left_right* mon_self;
static int cell_of(void* a) {
  if (a == (void*)&mon_self->_version_index) return C_VER;
  if (a == (void*)&mon_self->_lr_indicator) return C_LRI;
  if (a == (void*)&mon_self->_read_indicator1._counter) return C_CNT0;
  if (a == (void*)&mon_self->_read_indicator2._counter) return C_CNT1;
  return C_OTHER;
}
#define UPD_LOAD(M) do { if (M.n_load == 0) { M.first_load_clk = xv_clock; M.all_loads_sc = 1; } \
  M.n_load++; M.last_load_clk = xv_clock; M.last_load_val = v; M.last_load_ord = o; if (o != mo_seq_cst) M.all_loads_sc = 0; } while (0)
#define UPD_STORE(M) do { M.n_store++; M.store_clk = xv_clock; M.store_val = v; M.store_ord = o; } while (0)
#define UPD_RMW(M) do { if (M.n_rmw == 0) { M.rmw1_clk = xv_clock; M.rmw1_old = oldv; M.rmw1_new = newv; M.rmw1_ord = o; } \
  M.n_rmw++; M.rmw2_clk = xv_clock; M.rmw2_old = oldv; M.rmw2_new = newv; M.rmw2_ord = o; } while (0)
#define DISPATCH(U) do { int c = cell_of(addr); if (c == C_VER) U(m_ver); else if (c == C_LRI) U(m_lri); else if (c == C_CNT0) U(m_c0); \
  else if (c == C_CNT1) U(m_c1); else U(m_other); } while (0)
static void mon_load(void* addr, uint64_t v, int o) { DISPATCH(UPD_LOAD); }
static void mon_store(void* addr, uint64_t v, int o) { DISPATCH(UPD_STORE); }
static void mon_rmw(void* addr, uint64_t oldv, uint64_t newv, int o) { DISPATCH(UPD_RMW); }
static void mon_reset(struct left_right* s) {
  mon_self = s; xv_clock = 1; xv_threw = 0;
  struct cellmon z = {0}; m_ver = z; m_lri = z; m_c0 = z; m_c1 = z; m_other = z;
}
#define CM(idx, f) ((idx) == 0 ? m_c0.f : m_c1.f)      /* monitor field of counter idx */
static unsigned total_stores(void) { return m_ver.n_store + m_lri.n_store + m_c0.n_store + m_c1.n_store + m_other.n_store; }
static unsigned total_rmws(void) { return m_ver.n_rmw + m_lri.n_rmw + m_c0.n_rmw + m_c1.n_rmw + m_other.n_rmw; }

/* ---- std::mutex / std::lock_guard stub ---- */
unsigned mtx_locks, mtx_unlocks; uint64_t mtx_lock_clk, mtx_unlock_clk; _Bool mtx_bad;
static void xv_lock_guard_ctor(struct xv_lock_guard* g, struct xv_mutex* m) {
  XV_ASSUME(!m->held);             /* lock() returns once the mutex is free; the state at this moment is the harness' entry state */
  m->held = 1; g->m = m; mtx_locks++; mtx_lock_clk = ++xv_clock;
  if (m != &mon_self->_writer_mutex) mtx_bad = 1;
}
static void xv_lock_guard_dtor(struct xv_lock_guard* g) {
  if (!g->m->held) mtx_bad = 1;
  g->m->held = 0; mtx_unlocks++; mtx_unlock_clk = ++xv_clock;
}

/* ---- the tracked reader (environment of a writer).  It follows exactly the contract that lr.read.bracket proves for the
 * real text of read(): load version v; arrive on indicator v; load _lr_indicator; run the functor on the selected
 * instance; depart from indicator v.  The version it holds may be arbitrarily stale (the load is relaxed). ---- */
enum { R_IDLE = 0, R_GOTV = 1, R_ARRIVED = 2, R_READING = 3 };
int r_state, r_vi, r_inst; uint64_t r_arrive_clk, r_lri_clk; unsigned r_cycles;
_Bool env_on; int env_kind;       /* 1: we are a writer (readers move); 2: we are a reader (writers and other readers move) */
struct left_right* env_self;
#define CNT(s, i) ((i) == 0 ? (s)->_read_indicator1._counter : (s)->_read_indicator2._counter)
static void r_step(void) {
  struct left_right* s = env_self;
  if (r_state == R_IDLE)         { r_vi = s->_version_index; r_state = R_GOTV; }
  else if (r_state == R_GOTV)    { if (r_vi == 0) s->_read_indicator1._counter++; else s->_read_indicator2._counter++; r_state = R_ARRIVED; r_arrive_clk = xv_clock; }
  else if (r_state == R_ARRIVED) { r_inst = s->_lr_indicator; r_lri_clk = xv_clock; r_state = R_READING; }
  else                           { if (r_vi == 0) s->_read_indicator1._counter--; else s->_read_indicator2._counter--; r_state = R_IDLE; r_cycles++; }
}
static _Bool r_on(int i) { return (r_state == R_ARRIVED || r_state == R_READING) && r_vi == i; }
static _Bool r_reading(struct left_right* s, struct T* x);

/* ---- functor stubs ---- */
#define N_UF 4
unsigned uf_n; int uf_inst[N_UF]; uint64_t uf_clk[N_UF]; _Bool uf_held[N_UF]; _Bool uf_excl_bad; _Bool uf_reader_elsewhere[N_UF];
uint64_t in_k; unsigned in_throw; unsigned cur_update;   /* in_throw: 0 = the functor never throws, n = it throws on its n-th application */
int in_ver, in_lri; uint64_t in_left, in_right, in_c0, in_c1;   /* the entry state, for the native replay */
uint64_t in_k2;
static int inst_id(struct left_right* s, struct T* x) { return x == &s->_left ? 0 : x == &s->_right ? 1 : 2; }
_Bool uf_consumed, uf_use_after_move;     /* value category of the functor: applying it as an rvalue (std::forward/std::move) may consume it */
static void xv_ufunc(struct T* x) {      /* the update functor: x := 3x + k (k per update; not commutative between updates) */
  struct left_right* s = mon_self;
  if (uf_consumed) uf_use_after_move = 1;
  XV_ENV();
  if (uf_n < N_UF) { uf_inst[uf_n] = inst_id(s, x); uf_clk[uf_n] = ++xv_clock; uf_held[uf_n] = s->_writer_mutex.held;
                     uf_reader_elsewhere[uf_n] = (r_state == R_READING); }
  uf_n++;
  if (r_reading(s, x)) uf_excl_bad = 1;
  if (in_throw == uf_n) { x->val = nondet_u64(); XV_THROW(functor); return; }
  x->val = x->val * 3 + (cur_update == 0 ? in_k : in_k2);
  XV_ENV();
  if (r_reading(s, x)) uf_excl_bad = 1;     /* a reader entered while the functor was running */
}
#define XV_UFUNC(x) xv_ufunc(&(x))
#define XV_UFUNC_RV(x) (xv_ufunc(&(x)), (void)(uf_consumed = 1))      /* std::forward<Func>(func)(x): an rvalue functor is consumed by the call */
unsigned rf_n; int rf_inst; uint64_t rf_clk, rf_result, in_rk;
static uint64_t xv_rfunc(struct T* x) {   /* the read functor */
  struct left_right* s = mon_self;
  rf_n++; rf_inst = inst_id(s, x); rf_clk = ++xv_clock;
  if (in_throw != 0) { XV_THROW(functor); return 0; }
  rf_result = x->val ^ in_rk;
  return rf_result;
}
#define XV_RFUNC(x) xv_rfunc(&(x))
#define XV_RFUNC_RV(x) xv_rfunc(&(x))                                 /* read applies its functor once: forwarding it is fine */

/* ---- glue for the lowered text ---- */
#define RI_arrive(x) ri_arrive(&(x))
#define RI_depart(x) ri_depart(&(x))
#define RI_empty(x)  ri_empty(&(x))
#define LR_get_read_indicator(recv, idx) (*lr_get_read_indicator(&(recv), (idx)))
#define XV_INIT__indicator(self, v) ((self)->_indicator = &(v))
#define XV_INIT__left(self, v)  ((self)->_left = (v))
#define XV_INIT__right(self, v) ((self)->_right = (v))
unsigned wait_n; int wait_idx[2]; uint64_t wait_ret_clk[2];
static void lr_wait_for_readers(struct left_right* self, int idx);
static void lr_wait_logged(struct left_right* self, int idx) {
  lr_wait_for_readers(self, idx);
  if (wait_n < 2) { wait_idx[wait_n] = idx; wait_ret_clk[wait_n] = ++xv_clock; } wait_n++;
}
#define LR_WAIT(self, idx) lr_wait_logged(self, idx)
unsigned tog_n; uint64_t tog_enter_clk, tog_exit_clk;
static void lr_toggle_version_and_wait(struct left_right* self);
static void lr_toggle_logged(struct left_right* self) {
  tog_n++; tog_enter_clk = ++xv_clock;
  lr_toggle_version_and_wait(self);
  tog_exit_clk = ++xv_clock;
}
#define LR_TOGGLE(self) lr_toggle_logged(self)

/* loop cut of wait_for_readers' spin loop: the body is empty after dropping yield(); what changes between iterations
 * is the environment (called inside the condition's atomic load).  The environment is closed under repetition. */
#define XV_INV_WAIT 1
#define XV_HAVOC_WAIT XV_ENV(); XV_ENV()

#include "lowered.h"

static _Bool r_reading(struct left_right* s, struct T* x) {
  return r_state == R_READING && x == (r_inst == READ_LEFT ? &s->_left : &s->_right);
}
#ifdef XV_INT
void xv_env(void) {
  if (!env_on) return;
  struct left_right* s = env_self;
  if (env_kind == 1) {
    /* any number of steps of the tracked reader: between two accesses of the writer the shared words it reads do not
     * change, so its step function is deterministic and f^7 = f^3 (checked by h_env_closed): 0..6 steps are all there is */
    if (nondet_bool()) r_step(); if (nondet_bool()) r_step(); if (nondet_bool()) r_step();
    if (nondet_bool()) r_step(); if (nondet_bool()) r_step(); if (nondet_bool()) r_step();
    /* all other readers: arrive and depart at will */
    uint64_t o0 = nondet_u64(), o1 = nondet_u64(); XV_ASSUME(o0 < MAX_READERS && o1 < MAX_READERS);
    s->_read_indicator1._counter = o0 + (r_on(0) ? 1 : 0);
    s->_read_indicator2._counter = o1 + (r_on(1) ? 1 : 0);
  } else {
    /* writers (any number of complete or partial updates) and other readers: every shared word may change;
     * guarantee of the writers used: the version index and the indicator stay in {0,1} */
    s->_version_index = nondet_bool(); s->_lr_indicator = nondet_bool() ? READ_LEFT : READ_RIGHT;
    s->_read_indicator1._counter = nondet_u64(); s->_read_indicator2._counter = nondet_u64();
    s->_left.val = nondet_u64(); s->_right.val = nondet_u64();
  }
}
#endif


/* ---- state ---- */
static void havoc_lr(struct left_right* s) {
  s->_writer_mutex.held = nondet_bool();
  s->_version_index = nondet_int(); s->_lr_indicator = nondet_int();
  s->_read_indicator1._counter = nondet_u64(); s->_read_indicator2._counter = nondet_u64();
  s->_left.val = nondet_u64(); s->_right.val = nondet_u64();
  XV_ASSUME(s->_version_index == 0 || s->_version_index == 1);
  XV_ASSUME(s->_lr_indicator == READ_LEFT || s->_lr_indicator == READ_RIGHT);
  XV_ASSUME(s->_read_indicator1._counter < MAX_READERS && s->_read_indicator2._counter < MAX_READERS);
  mon_reset(s);
  mtx_locks = 0; mtx_unlocks = 0; mtx_bad = 0; mtx_lock_clk = 0; mtx_unlock_clk = 0;
  uf_n = 0; uf_excl_bad = 0; uf_consumed = 0; uf_use_after_move = 0; rf_n = 0; rf_inst = 2; rf_clk = 0; rf_result = 0; wait_n = 0; tog_n = 0; tog_enter_clk = 0; tog_exit_clk = 0; cur_update = 0;
  in_k = nondet_u64(); in_k2 = nondet_u64(); in_rk = nondet_u64(); in_throw = nondet_uint(); XV_ASSUME(in_throw <= 2);
  in_ver = s->_version_index; in_lri = s->_lr_indicator; in_left = s->_left.val; in_right = s->_right.val;
  in_c0 = s->_read_indicator1._counter; in_c1 = s->_read_indicator2._counter;
  env_self = s; env_on = 0; env_kind = 0;
  r_state = nondet_int(); r_vi = nondet_int(); r_inst = nondet_int(); r_arrive_clk = 0; r_lri_clk = 0; r_cycles = 0;
  XV_ASSUME(r_state >= R_IDLE && r_state <= R_READING && (r_vi == 0 || r_vi == 1) && (r_inst == READ_LEFT || r_inst == READ_RIGHT));
  XV_ASSUME(!r_on(0) || s->_read_indicator1._counter >= 1);
  XV_ASSUME(!r_on(1) || s->_read_indicator2._counter >= 1);
}
/* the invariant of a left_right whose writer mutex is free (established by the constructors, restored by every exit of update) */
static _Bool inv_idle(struct left_right* s) {
  return s->_lr_indicator == s->_version_index                      /* the code's own assert in update */
      && (r_state != R_READING || r_inst == s->_lr_indicator);      /* every reader that is inside its functor reads the instance the indicator selects */
}
static struct T* sel(struct left_right* s, int lri) { return lri == READ_LEFT ? &s->_left : &s->_right; }

/* ================= read_indicator ================= */
static void t_indicator(struct left_right* s, int i) {
  struct read_indicator* a = i == 0 ? &s->_read_indicator1 : &s->_read_indicator2;
  struct read_indicator* b = i == 0 ? &s->_read_indicator2 : &s->_read_indicator1;
  uint64_t c0 = a->_counter, o0 = b->_counter;
  unsigned op = nondet_uint();
  if (op == 0) {
    ri_arrive(a);
    XV_OBL("lr.indicator.counts", a->_counter == c0 + 1 && b->_counter == o0);
    XV_OBL("lr.indicator.counts", CM(i, n_rmw) == 1 && total_rmws() == 1 && total_stores() == 0 && CM(i, rmw1_new) == CM(i, rmw1_old) + 1);
    XV_OBL("lr.sync.seq_cst", CM(i, rmw1_ord) == mo_seq_cst);                       /* (4) */
    XV_CANARY("indicator.arrive");
  } else if (op == 1) {
    XV_ASSUME(c0 >= 1);
    ri_depart(a);
    XV_OBL("lr.indicator.counts", a->_counter == c0 - 1 && b->_counter == o0);
    XV_OBL("lr.indicator.counts", CM(i, n_rmw) == 1 && total_rmws() == 1 && total_stores() == 0 && CM(i, rmw1_new) == CM(i, rmw1_old) - 1);
    XV_OBL("lr.sync.seq_cst", XV_IS_RELEASE(CM(i, rmw1_ord)));                      /* (5) */
    XV_CANARY("indicator.depart");
  } else if (op == 2) {
    _Bool e = ri_empty(a);
    XV_OBL("lr.indicator.counts", e == (c0 == 0) && a->_counter == c0 && b->_counter == o0);
    XV_OBL("lr.indicator.counts", total_rmws() == 0 && total_stores() == 0 && CM(i, n_load) == 1);
    XV_OBL("lr.sync.seq_cst", CM(i, last_load_ord) == mo_seq_cst);                  /* (6) */
    if (e) XV_CANARY("indicator.empty"); else XV_CANARY("indicator.nonempty");
  } else if (op == 3) {
    /* arrive; depart is the identity and empty() is true exactly between balanced pairs */
    ri_arrive(a); _Bool e1 = ri_empty(a); ri_depart(a); _Bool e2 = ri_empty(a);
    XV_OBL("lr.indicator.counts", !e1 && a->_counter == c0 && e2 == (c0 == 0) && b->_counter == o0);
    XV_CANARY("indicator.pair");
  } else {
    struct read_indicator* p = lr_get_read_indicator(s, i);
    XV_OBL("lr.indicator.counts", p == a);
    XV_CANARY("indicator.get");
  }
}
void h_indicator(void) {
  struct left_right s; havoc_lr(&s);
  if (nondet_bool()) t_indicator(&s, 0); else t_indicator(&s, 1);
}

/* ================= read_guard (RAII pair) ================= */
void h_guard(void) {
  struct left_right s; havoc_lr(&s);
  int v = s._version_index; uint64_t c0 = CNT(&s, v), o0 = CNT(&s, 1 - v);
  struct read_guard g; g._indicator = 0;
  rg_ctor(&g, &s);
  XV_OBL("lr.read.bracket", g._indicator == (v == 0 ? &s._read_indicator1 : &s._read_indicator2));
  XV_OBL("lr.read.bracket", XV_READ_RETURNS_BY_VALUE);   /* the result leaves read() by value, i.e. it is copied before the guard departs */
  XV_OBL("lr.indicator.counts", CNT(&s, v) == c0 + 1 && CNT(&s, 1 - v) == o0);
  XV_OBL("lr.read.bracket", m_ver.n_load == 1 && CM(v, n_rmw) == 1 && CM(v, rmw1_clk) > m_ver.last_load_clk && CM(1 - v, n_rmw) == 0);
  s._version_index = nondet_bool();            /* the version may change while the guard is alive */
  rg_dtor(&g);
  XV_OBL("lr.indicator.counts", CNT(&s, v) == c0 && CNT(&s, 1 - v) == o0);
  XV_OBL("lr.read.bracket", CM(v, n_rmw) == 2 && CM(1 - v, n_rmw) == 0 && total_stores() == 0 && m_ver.n_load == 1);
  if (v == 0) XV_CANARY("guard.v0"); else XV_CANARY("guard.v1");
}

/* ================= wait_for_readers ================= */
void h_wait(void) {
  struct left_right s; havoc_lr(&s);
  int idx = nondet_int(); XV_ASSUME(idx == 0 || idx == 1);
  int v0 = s._version_index, l0 = s._lr_indicator; uint64_t L = s._left.val, R = s._right.val;
  env_on = 1; env_kind = 1;
  lr_wait_for_readers(&s, idx);
  env_on = 0;
  XV_OBL("lr.wait.spins_until_empty", CM(idx, n_load) >= 1 && CM(idx, last_load_val) == 0);
  XV_OBL("lr.wait.spins_until_empty", CM(1 - idx, n_load) == 0 && m_other.n_load == 0);
  XV_OBL("lr.wait.spins_until_empty", !r_on(idx));   /* at the last observation the tracked reader was not on this indicator */
  XV_OBL("lr.wait.spins_until_empty", total_stores() == 0 && total_rmws() == 0 && s._version_index == v0 && s._lr_indicator == l0 && s._left.val == L && s._right.val == R);
  XV_OBL("lr.sync.seq_cst", CM(idx, all_loads_sc));                                      /* (6) */
  XV_CANARY("wait.returned");
  if (idx == 0) XV_CANARY("wait.idx0"); else XV_CANARY("wait.idx1");
#ifdef XV_INT
  if (r_on(1 - idx)) XV_CANARY("wait_int.reader_on_other_indicator");
  if (r_cycles > 0) XV_CANARY("wait_int.reader_cycled");
#endif
}

/* ================= toggle_version_and_wait ================= */
static void check_toggle(struct left_right* s, int v0) {
  int nx = 1 - v0;
  XV_OBL("lr.toggle.order", m_ver.n_store == 1 && m_ver.store_val == (uint64_t)nx && s->_version_index == nx);     /* flipped exactly once */
  XV_OBL("lr.toggle.order", wait_n == 2 && wait_idx[0] == nx && wait_idx[1] == v0);
  XV_OBL("lr.toggle.order", CM(nx, n_load) >= 1 && CM(nx, last_load_val) == 0 && CM(nx, last_load_clk) < m_ver.store_clk);
  XV_OBL("lr.toggle.order", CM(v0, n_load) >= 1 && CM(v0, last_load_val) == 0 && CM(v0, first_load_clk) > m_ver.store_clk);
  XV_OBL("lr.toggle.order", wait_ret_clk[0] < m_ver.store_clk && m_ver.store_clk < wait_ret_clk[1]);
  XV_OBL("lr.toggle.order", m_c0.n_store + m_c1.n_store + m_c0.n_rmw + m_c1.n_rmw == 0 && m_other.n_store + m_other.n_rmw == 0);
  XV_OBL("lr.sync.seq_cst", CM(0, all_loads_sc) && CM(1, all_loads_sc));                 /* (6) */
}
void h_toggle(void) {
  struct left_right s; havoc_lr(&s);
  int v0 = s._version_index, l0 = s._lr_indicator; uint64_t L = s._left.val, R = s._right.val;
  env_on = 1; env_kind = 1;
  lr_toggle_logged(&s);
  env_on = 0;
  check_toggle(&s, v0);
  XV_OBL("lr.toggle.order", m_lri.n_store == 0 && s._lr_indicator == l0 && s._left.val == L && s._right.val == R);
  /* what the two waits are for: a reader still inside its functor loaded _lr_indicator after toggle_version_and_wait was entered */
  XV_OBL("lr.toggle.drains", r_state != R_READING || r_lri_clk >= tog_enter_clk);
  if (v0 == 0) XV_CANARY("toggle.v0"); else XV_CANARY("toggle.v1");
#ifdef XV_INT
  if (r_state == R_READING) XV_CANARY("toggle_int.new_reader_inside");
  if (r_on(1 - v0)) XV_CANARY("toggle_int.arrived_on_new_version");
#endif
}

/* ================= update ================= */
static void check_update(struct left_right* s, int l0, int v0, uint64_t L0, uint64_t R0, uint64_t k, uint64_t clk0) {
  int first = (l0 == READ_LEFT) ? 1 : 0, second = 1 - first;      /* instance ids: 0 left, 1 right */
  int new_lri = (l0 == READ_LEFT) ? READ_RIGHT : READ_LEFT;
  /* mutex: taken once before anything else, held at every application, released exactly once on every exit */
  XV_OBL("lr.update.mutex", mtx_locks == 1 && mtx_unlocks == 1 && !mtx_bad && !s->_writer_mutex.held && mtx_lock_clk == clk0 + 1);
  XV_OBL("lr.update.mutex", uf_n >= 1 && uf_held[0] && (uf_n < 2 || uf_held[1]) && mtx_lock_clk < uf_clk[0] && mtx_unlock_clk > uf_clk[uf_n < 2 ? 0 : 1]);
  XV_OBL("lr.update.mutex", mtx_unlock_clk == xv_clock);   /* nothing after the unlock */
  XV_OBL("lr.update.order", uf_n >= 1 && uf_inst[0] == first);
  XV_OBL("lr.update.order", !uf_use_after_move);   /* the functor is applied twice: it must not be consumed (applied as an rvalue) before its last application */
  XV_OBL("lr.update.exclusion", !uf_excl_bad);
  if (!xv_threw) {
    XV_OBL("lr.update.order", uf_n == 2 && uf_inst[1] == second);
    XV_OBL("lr.update.order", m_lri.n_store == 1 && m_lri.store_val == (uint64_t)new_lri && s->_lr_indicator == new_lri);
    XV_OBL("lr.update.order", tog_n == 1 && uf_clk[0] < m_lri.store_clk && m_lri.store_clk < tog_enter_clk && tog_exit_clk < uf_clk[1]);
    XV_OBL("lr.update.order", tog_enter_clk < m_ver.store_clk && m_ver.store_clk < tog_exit_clk);
    XV_OBL("lr.update.order", s->_left.val == L0 * 3 + k && s->_right.val == R0 * 3 + k);     /* exactly once to each instance */
    XV_OBL("lr.sync.seq_cst", m_lri.store_ord == mo_seq_cst);                        /* (2),(3) */
    check_toggle(s, v0);
    XV_OBL("lr.update.order", s->_lr_indicator == s->_version_index);
    if (first == 1) XV_CANARY("update.right_first"); else XV_CANARY("update.left_first");
  } else if (uf_n == 1) {
    /* the functor threw on the first instance: nothing was published, the other instance is untouched */
    XV_OBL("lr.update.order", total_stores() == 0 && total_rmws() == 0 && tog_n == 0 && s->_lr_indicator == l0 && s->_version_index == v0);
    XV_OBL("lr.update.order", (second == 0 ? s->_left.val == L0 : s->_right.val == R0));
    XV_CANARY("update.throw_first");
  } else {
    /* the functor threw on the second instance: the first one is complete and published */
    XV_OBL("lr.update.order", uf_n == 2 && uf_inst[1] == second && m_lri.n_store == 1 && s->_lr_indicator == new_lri && tog_n == 1 && tog_exit_clk < uf_clk[1]);
    XV_OBL("lr.update.order", (first == 0 ? s->_left.val == L0 * 3 + k : s->_right.val == R0 * 3 + k));
    check_toggle(s, v0);
    XV_CANARY("update.throw_second");
  }
}
void h_update(void) {
  struct left_right s; havoc_lr(&s);
  XV_ASSUME(inv_idle(&s));
  int l0 = s._lr_indicator, v0 = s._version_index; uint64_t L0 = s._left.val, R0 = s._right.val, clk0 = xv_clock;
  env_on = 1; env_kind = 1;
  lr_update(&s);
  env_on = 0;
  check_update(&s, l0, v0, L0, R0, in_k, clk0);
  XV_OBL("lr.update.exclusion", inv_idle(&s));        /* the invariant the next update (of any writer) starts from */
#ifdef XV_INT
  if (!xv_threw) {
    if (uf_reader_elsewhere[1]) XV_CANARY("update_int.reader_on_new_instance_during_second_application");
    if (uf_reader_elsewhere[0]) XV_CANARY("update_int.reader_on_old_instance_during_first_application");
    /* a reader that arrives between the instance switch and the version toggle, on either indicator */
    if (r_arrive_clk >= m_lri.store_clk && r_arrive_clk < m_ver.store_clk && r_vi == v0) XV_CANARY("update_int.arrived_between_switch_and_toggle_old_version");
    if (r_arrive_clk >= m_lri.store_clk && r_arrive_clk < m_ver.store_clk && r_vi == 1 - v0) XV_CANARY("update_int.arrived_between_switch_and_toggle_stale_version");
  }
#endif
}
/* back-to-back updates (same or different writer: the mutex serialises them), with the tracked reader running throughout */
void h_update2(void) {
  struct left_right s; havoc_lr(&s);
  XV_ASSUME(inv_idle(&s)); in_throw = 0;
  int l0 = s._lr_indicator, v0 = s._version_index; uint64_t L0 = s._left.val, R0 = s._right.val;
  env_on = 1; env_kind = 1;
  lr_update(&s);
  XV_ENV();
  _Bool mid_ok = inv_idle(&s) && !s._writer_mutex.held && uf_n == 2 && uf_inst[0] != uf_inst[1];
  int f1 = uf_inst[0];
  uf_n = 0; cur_update = 1; uf_consumed = 0;
  lr_update(&s);
  env_on = 0;
  XV_OBL("lr.update.exclusion", !uf_excl_bad && mid_ok && inv_idle(&s));
  XV_OBL("lr.update.order", uf_n == 2 && uf_inst[0] != uf_inst[1] && uf_inst[0] != f1);      /* the instance updated first alternates */
  /* both instances received update 1 then update 2, each exactly once */
  XV_OBL("lr.update.order", s._left.val == (L0 * 3 + in_k) * 3 + in_k2 && s._right.val == (R0 * 3 + in_k) * 3 + in_k2);
  XV_OBL("lr.update.order", s._lr_indicator == l0 && s._version_index == v0 && !s._writer_mutex.held && mtx_locks == 2 && mtx_unlocks == 2 && !mtx_bad);
  XV_CANARY("update2.done");
#ifdef XV_INT
  if (r_cycles >= 2) XV_CANARY("update2_int.reader_cycled_twice");
  if (r_state == R_READING) XV_CANARY("update2_int.reader_inside_at_end");
#endif
}

/* ================= read ================= */
void h_read(void) {
  struct left_right s; havoc_lr(&s);
  uint64_t clk0 = xv_clock;
  env_on = 1; env_kind = 2;
  uint64_t res = lr_read(&s);
  env_on = 0;
  int v = (int)m_ver.last_load_val, l = (int)m_lri.last_load_val;
  XV_OBL("lr.read.bracket", m_ver.n_load == 1 && (v == 0 || v == 1));
  XV_OBL("lr.read.bracket", CM(v, n_rmw) == 2 && CM(1 - v, n_rmw) == 0 && m_ver.n_rmw + m_lri.n_rmw + m_other.n_rmw == 0 && total_stores() == 0);
  XV_OBL("lr.read.bracket", CM(v, rmw1_new) == CM(v, rmw1_old) + 1 && CM(v, rmw2_new) == CM(v, rmw2_old) - 1);     /* arrive, depart on the same indicator */
  XV_OBL("lr.read.bracket", m_lri.n_load == 1 && rf_n == 1 && rf_inst == (l == READ_LEFT ? 0 : 1));
  XV_OBL("lr.read.bracket", m_ver.last_load_clk < CM(v, rmw1_clk) && CM(v, rmw1_clk) < m_lri.last_load_clk
                            && m_lri.last_load_clk < rf_clk && rf_clk < CM(v, rmw2_clk));
  XV_OBL("lr.read.bracket", m_c0.n_load + m_c1.n_load + m_other.n_load == 0);
  if (!xv_threw) { XV_OBL("lr.read.bracket", res == rf_result); XV_CANARY("read.returned"); }
  else XV_CANARY("read.functor_threw");
  XV_OBL("lr.sync.seq_cst", m_lri.last_load_ord == mo_seq_cst);                       /* (1) */
  XV_OBL("lr.sync.seq_cst", CM(v, rmw1_ord) == mo_seq_cst);                                /* (4) */
  XV_OBL("lr.sync.seq_cst", XV_IS_RELEASE(CM(v, rmw2_ord)));                               /* (5) */
  /* wait-free: the same five steps (version load, arrive, indicator load, functor, depart) whatever the others do */
  XV_OBL("lr.read.wait_free", xv_clock == clk0 + 5);
  if (v == 0) XV_CANARY("read.v0"); else XV_CANARY("read.v1");
  if (l == READ_LEFT) XV_CANARY("read.left"); else XV_CANARY("read.right");
#ifdef XV_INT
  if (s._version_index != v) XV_CANARY("read_int.version_moved");
  if (s._lr_indicator != l) XV_CANARY("read_int.indicator_moved");
#endif
}
/* no interference: the read returns the functor's value of the instance the indicator selects and leaves everything as it was */
void h_read_seq(void) {
  struct left_right s; havoc_lr(&s);
  struct left_right s0 = s;
  uint64_t res = lr_read(&s);
  XV_OBL("lr.read.bracket", xv_threw || res == (sel(&s0, s0._lr_indicator)->val ^ in_rk));
  XV_OBL("lr.read.bracket", s._version_index == s0._version_index && s._lr_indicator == s0._lr_indicator && s._left.val == s0._left.val && s._right.val == s0._right.val
                            && s._read_indicator1._counter == s0._read_indicator1._counter && s._read_indicator2._counter == s0._read_indicator2._counter
                            && s._writer_mutex.held == s0._writer_mutex.held);
  if (xv_threw) XV_CANARY("read_seq.threw"); else XV_CANARY("read_seq.returned");
}

/* ================= constructors ================= */
static void nsdmi(struct left_right* s) {          /* default member initialisers, extracted from the header as constants */
  s->_writer_mutex.held = 0;                        /* std::mutex() */
  s->_version_index = XV_NSDMI_version_index; s->_lr_indicator = XV_NSDMI_lr_indicator;
  s->_read_indicator1._counter = XV_NSDMI_counter; s->_read_indicator2._counter = XV_NSDMI_counter;
}
void h_ctor(void) {
  struct left_right s; havoc_lr(&s);
  r_state = R_IDLE;                                 /* nobody can be reading an object under construction */
  struct T a, b; a.val = nondet_u64(); b.val = nondet_u64();
  _Bool two = nondet_bool();
  nsdmi(&s);
  if (two) lr_ctor2(&s, a, b); else lr_ctor1(&s, a);
  XV_OBL("lr.ctor.init", inv_idle(&s) && !s._writer_mutex.held && (s._version_index == 0 || s._version_index == 1)
                         && (s._lr_indicator == READ_LEFT || s._lr_indicator == READ_RIGHT));
  XV_OBL("lr.ctor.init", s._read_indicator1._counter == 0 && s._read_indicator2._counter == 0);
  XV_OBL("lr.ctor.init", s._left.val == a.val && s._right.val == (two ? b.val : a.val));
  if (two) XV_CANARY("ctor.two"); else XV_CANARY("ctor.one");
}

/* ================= model self-check: the tracked reader's step function is eventually periodic within 7 steps ================= */
void h_env_closed(void) {
  struct left_right s; havoc_lr(&s);
  env_self = &s;
  r_step(); r_step(); r_step();
  int st3 = r_state, vi3 = r_vi, in3 = r_inst; uint64_t c03 = s._read_indicator1._counter, c13 = s._read_indicator2._counter;
  r_step(); r_step(); r_step(); r_step();
  XV_MODEL_ASSERT("env.closed", r_state == st3 && c03 == s._read_indicator1._counter && c13 == s._read_indicator2._counter
                                && (r_state == R_IDLE || r_vi == vi3) && (r_state != R_READING || r_inst == in3));
  XV_CANARY("env_closed.reached");
}
