/* lowering differential, C side of unit gca: the lowered text of growing_circular_array::get_entry (with the real lowered
 * utils::find_last_bit_set as callee) compiled natively.  The unit maps `_data[b][o]` to XV_CELL(self, b, o); here XV_CELL records
 * the (bucket, offset) pair the lowered text addresses, which the C++ side compares with the address arithmetic of the real get_entry.
 * Only the two leaf functions are taken from lowered.h (get/put/grow need the cbmc-only loop-cut and monitor glue of harness.c). */
/* lowerdiff-functions: find_last_bit_set get_entry */
#include <stdint.h>
#include <stddef.h>
#include <stdbool.h>
#define XV_XASSERT(c) ((void)0)
typedef uintptr_t entry;           /* T* : an opaque word (as in harness.c) */
struct gca { size_t _buckets; size_t _capacity; };
#define find_last_bit_set real_find_last_bit_set      /* harness.c under XV_REAL_FLS */

static size_t ld_b, ld_o; static unsigned ld_n; static entry ld_dummy;
static entry* ld_cell(struct gca* self, size_t b, size_t o) { (void)self; ld_b = b; ld_o = o; ld_n++; return &ld_dummy; }
#define XV_CELL(self, b, o) (*ld_cell(self, b, o))

#include "lowered.h"

/* returns the number of cells the lowered get_entry addressed (must be 1; 0x100 is added if it did not return that cell's address) */
unsigned ld_get_entry(size_t idx, size_t capacity, size_t* bucket, size_t* offset) {
  struct gca g; g._buckets = 0; g._capacity = capacity;
  ld_n = 0; ld_b = ld_o = ~(size_t)0;
  entry* p = gca_get_entry(&g, idx, capacity);
  *bucket = ld_b; *offset = ld_o;
  return ld_n + (p == &ld_dummy ? 0 : 0x100);
}
unsigned ld_find_last_bit_set(uint64_t v) { return real_find_last_bit_set(v); }
