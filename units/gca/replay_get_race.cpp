// native demonstration of the known finding F10 (gca.get.current_capacity): a thief's try_steal reads the capacity, the
// owner then grows the array and pushes index t+capacity (same physical cell as index t had under the old capacity), and
// the thief reads that cell under the stale capacity. Deterministic single-thread schedule: the owner's step runs at the
// hook point between the two loads of growing_circular_array::get (XENIUM_VERIF_POINT, guard MPOETER_XENIUM_VERIF).
#include <xenium/chase_work_stealing_deque.hpp>
#include <cstdio>
#include <cstring>
#ifndef MPOETER_XENIUM_VERIF
int main() { printf("built without -DMPOETER_XENIUM_VERIF: hook point not available\n"); return 2; }
#else
static xenium::chase_work_stealing_deque<int, xenium::policy::capacity<4>>* dq;
static int v[32]; static int next_item = 0; static bool armed = false;
static void hook(const char* id) {
  if (!armed || strcmp(id, "growing_circular_array.get.between_loads") != 0) return;
  armed = false;                                  // once
  (void)dq->try_push(&v[next_item++]);            // owner: deque is full -> grow to 8, then put index 8 into the cell index 4 had
}
int main() {
  xenium::chase_work_stealing_deque<int, xenium::policy::capacity<4>> d; dq = &d;
  for (int i = 0; i < 32; i++) v[i] = i;
  int* r = nullptr;
  for (int i = 0; i < 4; i++) { (void)d.try_push(&v[next_item++]); (void)d.try_steal(r); }   // top = bottom = 4
  for (int i = 0; i < 4; i++) (void)d.try_push(&v[next_item++]);                              // items 4..7 at indices 4..7: full
  xenium_verif_point_hook = hook; armed = true;
  bool ok = d.try_steal(r);                                                                   // thief: must get item 4
  xenium_verif_point_hook = nullptr;
  printf("try_steal -> %d, item %d (expected item 4)\n", ok, ok ? *r : -1);
  int bad = (ok && *r != 4);
  int seen[32] = {0}; if (ok) seen[*r]++;
  printf("rest:"); while (d.try_steal(r)) { printf(" %d", *r); seen[*r]++; } puts("");
  for (int i = 4; i < next_item; i++) if (seen[i] != 1) { printf("item %d returned %d times\n", i, seen[i]); bad = 1; }
  puts(bad ? "VIOLATION reproduced: an item was lost/duplicated (stale capacity in get)" : "ok");
  return bad ? 1 : 0;
}
#endif
