// lowering differential, C++ side of unit gca: index mapping of growing_circular_array<T, MinCapacity>::get_entry.
// The lowered get_entry reports the (bucket, offset) it addresses (XV_CELL); the real private get_entry (-fno-access-control) returns an address.
// The bucket table _data of a real object is temporarily pointed at disjoint fake 2^36-byte regions (never dereferenced), so the real
// address decodes uniquely into (bucket, offset); it is compared with &_data[b][o] for the lowered (b, o), and b/o are compared individually.
// Domain: (idx & (capacity-1)) < 2^30, i.e. bucket <= 30 (every capacity 2^0..2^31 and arbitrary other capacity words).  For bucket >= 31 the
// expression (1 << bucket) >> 1 overflows int: undefined in C11, and in the real C++ code it sign-extends into an out-of-range offset
// (capacity 2^31, idx 2^30+5 yields an address below the bucket) - not compared; the unit's get_entry run covers capacities 2^1..2^30.
#define NDEBUG
#include <xenium/detail/growing_circular_array.hpp>
#include "ld_common.hpp"
extern "C" {
unsigned ld_get_entry(std::size_t idx, std::size_t capacity, std::size_t* bucket, std::size_t* offset);
unsigned ld_find_last_bit_set(std::uint64_t v);
}
using u64 = std::uint64_t;
static const std::uintptr_t BASE = std::uintptr_t(1) << 44; static const unsigned REGION = 36;

template <class T, std::size_t MinCap> static void run(unsigned salt) {
  using G = xenium::detail::growing_circular_array<T, MinCap>;
  using entry = typename G::entry;
  static_assert(sizeof(entry) == 8 && G::num_buckets == 32);
  ld::report& r = ld::rep("gca", "get_entry"); ld::rng g(salt);
  G a;
  entry* saved[G::num_buckets];
  for (std::size_t b = 0; b < G::num_buckets; ++b) { saved[b] = a._data[b]; a._data[b] = reinterpret_cast<entry*>(BASE + (std::uintptr_t(b) << REGION)); }
  auto one = [&](std::size_t idx, std::size_t cap) {
    if ((idx & (cap - 1)) >> 30) return;                      // bucket >= 31: outside the compared domain
    std::size_t lb, lo; unsigned n = ld_get_entry(idx, cap, &lb, &lo);
    auto real = reinterpret_cast<std::uintptr_t>(&a.get_entry(idx, cap));
    std::uintptr_t rel = real - BASE; std::size_t rb = rel >> REGION, ro = (rel & ((std::uintptr_t(1) << REGION) - 1)) / sizeof(entry);
    bool ok = n == 1 && lb < G::num_buckets && rb == lb && ro == lo && (rel % sizeof(entry)) == 0
              && real == reinterpret_cast<std::uintptr_t>(&a._data[lb][lo]);
    r.check(ok, "<MinCapacity %zu> idx=%#zx capacity=%#zx real=(bucket %zu, offset %#zx) lowered=(bucket %zu, offset %#zx, %#x cells)", MinCap, idx, cap, rb, ro, lb, lo, n);
  };
  const auto bnd = ld::boundary(64);
  for (unsigned c = 0; c <= 31; ++c) {
    std::size_t cap = std::size_t(1) << c;
    for (u64 v : bnd) { one(v, cap); one(v & (cap - 1), cap); one(v + cap, cap); }
    for (u64 i = 0; i < 4000; ++i) { u64 v = g.val(); one(g.below(2) ? v : (v & (2 * cap - 1)), cap); }
  }
  for (u64 i = 0; i < 30000; ++i) { std::size_t cap = g.val(31), idx = g.val(); one(idx, cap); }     // capacity words that are no power of two
  for (std::size_t b = 0; b < G::num_buckets; ++b) a._data[b] = saved[b];                            // the destructor frees the real buckets
}

int main() {
  {
    ld::report& r = ld::rep("gca", "find_last_bit_set"); ld::rng g(50);
    auto one = [&](u64 v) { unsigned a = xenium::utils::find_last_bit_set<std::size_t>(v), b = ld_find_last_bit_set(v);
                            r.check(a == b, "val=%#" PRIx64 " real=%u lowered=%u", v, a, b); };
    for (u64 v : ld::boundary(64)) one(v);
    for (u64 i = 0; i < ld::N_RANDOM; ++i) one(g.val());
  }
  run<int, 64>(51);          // the default MinCapacity
  run<void*, 2>(52);
  run<long, 1024>(53);
  return ld::result();
}
