// native replay for gca.grow.* : runs the real growing_circular_array::grow from /repo on the state cbmc found
#include <xenium/detail/growing_circular_array.hpp>
#include <cstdio>
#include <cstdlib>
#include <cstring>
#include <string>
#include <map>
#include <vector>
static std::map<std::string, unsigned long long> args;
template <unsigned C> int run(size_t top, size_t bottom, size_t gj) {
  xenium::detail::growing_circular_array<int, (size_t(1) << C)> a;
  std::vector<int> vals(bottom - top);
  for (size_t j = top; j < bottom; ++j) { vals[j - top] = int(j - top); a.put(j, &vals[j - top], std::memory_order_relaxed); }
  a.grow(bottom, top);
  int bad = 0;
  for (size_t j = top; j < bottom; ++j) {
    int* p = a.get(j, std::memory_order_relaxed);
    if (p != &vals[j - top]) { if (!bad) printf("after grow(bottom=%zu, top=%zu) with capacity 2^%u: index %zu no longer holds its item\n", bottom, top, C, j); bad++; }
  }
  if (a.capacity() != (size_t(2) << C)) { printf("capacity not doubled\n"); bad++; }
  printf("%d of %zu live indices lost (cbmc's index: %zu)\n", bad, bottom - top, gj);
  return bad ? 1 : 0;
}
int main(int argc, char** argv) {
  for (int i = 1; i < argc; ++i) { char* eq = strchr(argv[i], '='); if (!eq) continue; std::string k(argv[i], eq - argv[i]);
    args[k] = strtoull(eq + 1, 0, 0); }
  unsigned c = args["in_c"]; size_t top = args["in_top"], bottom = args["in_bottom"], gj = args["in_gj"];
  if (bottom - top != (size_t(1) << c)) { printf("inconsistent inputs\n"); return 2; }
  switch (c) {
    case 1: return run<1>(top, bottom, gj); case 2: return run<2>(top, bottom, gj); case 3: return run<3>(top, bottom, gj);
    case 4: return run<4>(top, bottom, gj); case 5: return run<5>(top, bottom, gj); case 6: return run<6>(top, bottom, gj);
    case 7: return run<7>(top, bottom, gj); case 8: return run<8>(top, bottom, gj); case 9: return run<9>(top, bottom, gj);
    case 10: return run<10>(top, bottom, gj);
    default: printf("capacity 2^%u not instantiated in the replay program\n", c); return 2;
  }
}
