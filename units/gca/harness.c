/* unit gca - growing_circular_array (C12).  Contracts and harnesses; the function bodies come from lowered.h */
/* monitors for the sync obligation: order of the last capacity load/store, and whether a cell was stored after the capacity store */
extern int mon_cap_load_order, mon_cap_store_order; extern _Bool mon_cell_store_after_cap; extern void* mon_cap_addr;
#define XV_ON_LOAD(addr, val, order) ((void*)(addr) == mon_cap_addr ? (void)(mon_cap_load_order = (order)) : (void)0)
#define XV_ON_STORE(addr, val, order) ((void*)(addr) == mon_cap_addr ? (void)(mon_cap_store_order = (order), mon_cap_stored = 1) : (void)(mon_cell_store_after_cap = mon_cap_stored))
extern _Bool mon_cap_stored;
#include "xv.h"
int mon_cap_load_order, mon_cap_store_order; _Bool mon_cell_store_after_cap, mon_cap_stored; void* mon_cap_addr;
int xv_threw; uint64_t xv_clock, xv_rmw_old; _Bool xv_cas_ok;
typedef uintptr_t entry;           /* T* : an opaque word */
#define NUM_BUCKETS 32             /* utils::find_last_bit_set(1<<31) */
struct gca { size_t _buckets; size_t _capacity; };

/* ---- contract stub of utils::find_last_bit_set, proved for the real text by run 'fls' ---- */
static _Bool fls_spec(uint64_t v, unsigned r) {
  if (v == 0) return r == 0;
  return r >= 1 && r <= 64 && (v >> (r - 1)) == 1;
}
#ifdef XV_REAL_FLS
#define find_last_bit_set real_find_last_bit_set
#else
static unsigned find_last_bit_set(uint64_t v) { unsigned r = nondet_uint(); XV_ASSUME(fls_spec(v, r)); return r; }
#endif

/* ---- abstract bucket storage: two ghost-tracked cells, everything else arbitrary ---- */
size_t gA_b, gA_o, gB_b, gB_o; entry gA_v, gB_v, xv_scratch;
_Bool xv_cell_oob;
static size_t bucket_size(size_t b) { return b == 0 ? 1 : ((size_t)1 << (b - 1)); }
static entry* xv_cell(struct gca* self, size_t b, size_t o) {
  XV_OBL("gca.get_entry.in_bounds", b < self->_buckets && b < NUM_BUCKETS && o < bucket_size(b));
  if (b == gA_b && o == gA_o) return &gA_v;
  if (b == gB_b && o == gB_o) return &gB_v;
  xv_scratch = nondet_uptr(); return &xv_scratch;
}
#define XV_CELL(self, b, o) (*xv_cell(self, b, o))
_Bool in_alloc_fails; size_t new_bucket_idx;
#define XV_EXC_std__bad_alloc 3
#define XV_NEW_BUCKET(self, idx, n) do { if (in_alloc_fails) { xv_threw = XV_EXC_std__bad_alloc; } else { new_bucket_idx = (idx); XV_OBL("gca.get_entry.in_bounds", (idx) < NUM_BUCKETS && (n) == bucket_size(idx)); } } while (0)
#define max_capacity (XV_MAX_CAPACITY_DEFAULT)     /* template parameter MaxCapacity: its default, extracted from the header */
#define num_buckets NUM_BUCKETS

/* INT mode: the owner may grow (capacity doubles, cells move) between any two of the thief's atomic accesses */
size_t env_j; entry env_jv; _Bool env_grew;
#ifdef XV_INT
static void slot_of(size_t idx, size_t capacity, size_t* b, size_t* o);
void xv_env(void);
#endif

#define XV_INV_GROW (start <= i && i <= bottom && gA_v == in_gjv && !mon_cap_stored && !mon_cell_store_after_cap \
   && (i > start ? ((i - 1) & capacity) != 0 : 1) \
   && (((in_gj & capacity) != 0 && in_gj >= start && in_gj < i) ? gB_v == in_gjv : 1))
#define XV_HAVOC_GROW i = nondet_size(); gA_v = nondet_uptr(); gB_v = nondet_uptr(); xv_scratch = nondet_uptr(); mon_cell_store_after_cap = nondet_bool(); mon_cap_load_order = nondet_int() /* XV_CELL, monitors */

/* the same invariant as cbmc loop-contract clauses for the Route D cross-check (goto-instrument --dfcc) */
#define XV_LOOP_CONTRACT_GROW __CPROVER_assigns(i, gA_v, gB_v, xv_scratch, xv_clock, mon_cell_store_after_cap, mon_cap_load_order) __CPROVER_loop_invariant(XV_INV_GROW) __CPROVER_decreases(bottom - i)
size_t in_gj; entry in_gjv; size_t in_top, in_bottom; unsigned in_c;
static size_t gca_capacity(struct gca* self);
#include "lowered.h"

/* spec-level slot function (uses the contract of find_last_bit_set) */
static void slot_of(size_t idx, size_t capacity, size_t* b, size_t* o) {
  size_t m = idx & (capacity - 1); unsigned bk = find_last_bit_set(m);
  *b = bk; *o = m ^ (((size_t)1 << bk) >> 1);
}

/* ---------------- harnesses ---------------- */
void h_fls(void) {
  uint64_t v = nondet_u64();
  unsigned r = real_find_last_bit_set(v);
  XV_OBL("gca.fls.spec", fls_spec(v, r));
  if (v != 0) XV_CANARY("fls.nonzero");
}

static void havoc_gca(struct gca* g, unsigned c) {
  XV_ASSUME(c >= 1 && c <= 31);      /* every capacity up to max_capacity = 2^31 */
  g->_capacity = (size_t)1 << c; g->_buckets = c + 1;
  gA_b = nondet_size(); gA_o = nondet_size(); gB_b = nondet_size(); gB_o = nondet_size();
  gA_v = nondet_uptr(); gB_v = nondet_uptr();
}

void h_can_grow(void) {
  /* every capacity 2^c up to and including max_capacity; a full bucket table must refuse to grow */
  struct gca g; unsigned c = nondet_uint(); XV_ASSUME(c >= 1 && c <= 31);
  g._capacity = (size_t)1 << c; g._buckets = c + 1;
  _Bool r = gca_can_grow(&g);
  XV_OBL("gca.can_grow.spec", max_capacity == ((size_t)1 << 31) && NUM_BUCKETS == 32);        /* the harness constants are the header's */
  XV_OBL("gca.can_grow.spec", r == (g._capacity < max_capacity));
  XV_OBL("gca.can_grow.spec", !r || g._buckets < NUM_BUCKETS);                                /* grow() writes _data[_buckets] */
  if (r) XV_CANARY("can_grow.yes"); else XV_CANARY("can_grow.no");
}
void h_get_entry(void) {
  struct gca g; unsigned c = nondet_uint(); havoc_gca(&g, c);
  size_t i1 = nondet_size(), i2 = nondet_size();
  /* make the two tracked cells distinct real addresses so that pointer equality == slot equality */
  slot_of(i1, g._capacity, &gA_b, &gA_o);
  gB_b = NUM_BUCKETS; gB_o = 0;            /* unused */
  entry* p1 = gca_get_entry(&g, i1, g._capacity);
  entry* p2 = gca_get_entry(&g, i2, g._capacity);
  _Bool congruent = (i1 & (g._capacity - 1)) == (i2 & (g._capacity - 1));
  XV_OBL("gca.get_entry.injective", (p1 == &gA_v));
  XV_OBL("gca.get_entry.injective", (p2 == &gA_v) == congruent);
  if (congruent && i1 != i2) XV_CANARY("get_entry.same");
  if (!congruent) XV_CANARY("get_entry.diff");
}

void h_getput(void) {
  struct gca g; unsigned c = nondet_uint(); havoc_gca(&g, c);
  size_t i = nondet_size(), j = nondet_size(); entry v = nondet_uptr(), old_j = nondet_uptr();
  slot_of(j, g._capacity, &gA_b, &gA_o); gA_v = old_j;
  gB_b = NUM_BUCKETS; gB_o = 0;
  int o1 = nondet_int(), o2 = nondet_int();
  mon_cap_addr = &g._capacity; mon_cap_load_order = -1;
  gca_put(&g, i, v, o1);
  entry r = gca_get(&g, j, o2);
  XV_OBL("gca.sync.capacity_publish", XV_IS_ACQUIRE(mon_cap_load_order));
  _Bool congruent = (i & (g._capacity - 1)) == (j & (g._capacity - 1));
  XV_OBL("gca.put_get.roundtrip", r == (congruent ? v : old_j));
  XV_OBL("gca.put_get.roundtrip", g._capacity == ((size_t)1 << c));
  if (congruent) XV_CANARY("getput.same"); else XV_CANARY("getput.other");
}

void h_grow_alloc_fails(void) {
  struct gca g; in_c = nondet_uint(); havoc_gca(&g, in_c); XV_ASSUME(in_c <= 30);
  in_top = nondet_size(); in_bottom = nondet_size(); in_gj = nondet_size(); in_gjv = nondet_uptr();
  size_t cap0 = g._capacity;
  XV_ASSUME(in_bottom >= in_top && in_bottom - in_top == cap0 && in_gj >= in_top && in_gj < in_bottom);
  slot_of(in_gj, cap0, &gA_b, &gA_o); gB_b = NUM_BUCKETS; gB_o = 0; gA_v = in_gjv;
  mon_cap_addr = &g._capacity; mon_cap_stored = 0; mon_cell_store_after_cap = 0; mon_cap_store_order = -1;
  in_alloc_fails = 1; xv_threw = 0;
  gca_grow(&g, in_bottom, in_top);
  XV_OBL("gca.grow.alloc_failure_safe", xv_threw == XV_EXC_std__bad_alloc && g._buckets == in_c + 1 && g._capacity == cap0 && !mon_cap_stored && gA_v == in_gjv);
  XV_CANARY("grow.alloc_failed");
}
void h_grow(void) {
  in_alloc_fails = 0; xv_threw = 0;
  struct gca g; in_c = nondet_uint(); havoc_gca(&g, in_c); XV_ASSUME(in_c <= 30);     /* grow doubles: up to 2^30 -> 2^31 */
#ifdef XV_TRACE_SMALL
  XV_ASSUME(in_c <= 4); /* counterexample extraction only: the replay program instantiates 2^1..2^10 */
#endif
  in_top = nondet_size(); in_bottom = nondet_size(); in_gj = nondet_size(); in_gjv = nondet_uptr();
  size_t cap0 = g._capacity;
  XV_ASSUME(in_bottom >= in_top && in_bottom - in_top == cap0);
  XV_ASSUME(in_gj >= in_top && in_gj < in_bottom);
  slot_of(in_gj, cap0, &gA_b, &gA_o); slot_of(in_gj, 2 * cap0, &gB_b, &gB_o);
  gA_v = in_gjv; if (gA_b == gB_b && gA_o == gB_o) gB_v = in_gjv;
  _Bool moved = !(gA_b == gB_b && gA_o == gB_o);
  mon_cap_addr = &g._capacity; mon_cap_stored = 0; mon_cell_store_after_cap = 0; mon_cap_store_order = -1;
  gca_grow(&g, in_bottom, in_top);
  XV_OBL("gca.sync.capacity_publish", mon_cap_stored && XV_IS_RELEASE(mon_cap_store_order) && !mon_cell_store_after_cap);
  entry r = moved ? gB_v : gA_v;
  XV_OBL("gca.grow.preserves", r == in_gjv);
  XV_OBL("gca.grow.capacity_doubled", g._capacity == 2 * cap0 && g._buckets == in_c + 2);
  if (moved) XV_CANARY("grow.moved"); else XV_CANARY("grow.not_moved");
}

/* INT: thief-side get(idx) while the owner keeps working.  Environment = the owner thread, as far as it can touch
 * what get() reads: it may grow once (grow's SEQ contract: the item of every live index is copied to its cell under
 * the doubled capacity, then the capacity is published) and afterwards push index idx+C, which is live together with
 * idx under capacity 2C and - when bit c of idx is set - is stored in the cell idx occupied under capacity C.
 * Index idx stays live throughout (that is what a successful CAS on top establishes for the thief afterwards),
 * so its logical item never changes. */
#ifdef XV_INT
struct gca* env_g; _Bool env_on, env_grew, env_moved; size_t env_c0;
static void env_step(void);
void xv_env(void) { if (!env_on) return; env_step(); env_step(); /* any number of owner actions: grow, then put, is the longest effective sequence */ }
static void env_step(void) {
  if (!env_grew) {
    if (nondet_bool()) { if (env_moved) gB_v = gA_v; env_g->_capacity = 2 * env_c0; env_g->_buckets++; env_grew = 1; }
  } else if (env_moved && nondet_bool()) {
    gA_v = nondet_uptr();          /* owner's put(idx + C): same physical cell as idx had under capacity C */
  }
}
#endif
void h_get_int(void) {
#ifdef XV_INT
  struct gca g; unsigned c = nondet_uint(); havoc_gca(&g, c); XV_ASSUME(c <= 30);
  size_t idx = nondet_size(); entry item = nondet_uptr();
  env_c0 = g._capacity; env_g = &g; env_grew = 0;
  slot_of(idx, env_c0, &gA_b, &gA_o); slot_of(idx, 2 * env_c0, &gB_b, &gB_o);
  env_moved = !(gA_b == gB_b && gA_o == gB_o);
  gA_v = item;
  env_on = 1;
  entry r = gca_get(&g, idx, nondet_int());
  env_on = 0;
  XV_OBL("gca.get.current_capacity", r == item);
  XV_CANARY("get_int.reached");
  if (env_grew) XV_CANARY("get_int.grew");
#endif
}
