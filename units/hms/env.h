/* INT mode: what other threads (or other handles of the same thread) may do between two atomic accesses of the operation
 * under test: ANY NUMBER of legal steps of the Harris-Michael algorithm on a well-formed list, under the reclaimer contract.
 *   insert   a fresh node between an unmarked (hence linked) node / head and its successor, keys in order
 *   mark     an unmarked published node (logical deletion); from then on its next field is frozen
 *   unlink   a marked node whose predecessor cell is unmarked, and retire it (whoever unlinks retires, once)
 *   free     a node that was retired and is not protected by any guard of the handle under test; its memory may be re-used
 * env_havoc() is the reflexive-transitive closure of these steps, written as "havoc the shared state, then assume everything that
 * every such sequence preserves":
 *   - a node private to the operation under test (allocated, not yet published) is untouched; the slot operator new will return stays free
 *   - a node that keeps its identity keeps its key; a mark is never removed and a marked node's next never changes; a node that left
 *     the list never comes back; it is retired exactly when the environment unlinked it; it is freed only after being retired
 *   - a node protected by a guard of the handle under test keeps its identity and stays allocated
 *   - any other slot may have been freed and re-used any number of times (generation counter g_gen bumped)
 *   - the result is a well-formed list (walk()), every unmarked published node is linked, every linked node is allocated, unretired
 * There is no bound on the number of interferences, so every retry loop executed in INT mode is cut by an invariant. */
static _Bool word_ok(mptr v) { return (v & (mptr)0xE) == 0 && (v >> 4) <= NP; }
static _Bool walk(void);
extern _Bool post_in[NP];
/* list well-formed and consistent with the ghost `linked` flags; unmarked published nodes are linked */
static _Bool int_wf(void) {
  _Bool ok = walk();
  for (int i = 0; i < NP; i++) {
    if (post_in[i] != g_linked[i]) ok = 0;
    if (g_alloc[i] && g_pub[i] && MP_mark(pool[i].next) == 0 && !g_linked[i]) ok = 0;
    if (g_alloc[i] && !word_ok(pool[i].next)) ok = 0;
  }
  return ok;
}
unsigned env_calls;
static void env_havoc(void) {
  env_calls++;
  for (int i = 0; i < NP; i++) {
    if (g_alloc[i] && !g_pub[i]) continue;                       /* private to the operation under test */
    if (i == (int)in_newslot && !g_alloc[i] && g_new == 0) continue;  /* the memory operator new is going to return */
    _Bool prot = g_alloc[i] && g_cnt[i] > 0;
    _Bool same = prot || (g_alloc[i] && u_unlink[i] != u_retire[i]) /* spliced out by us, not yet retired: cannot be freed */ || nondet_bool();
    if (same && g_alloc[i]) {                                    /* the same node: legal steps on it */
      mptr nx = nondet_uptr(); _Bool ln = nondet_bool(), al = nondet_bool();
      XV_ASSUME(word_ok(nx));
      if (MP_mark(pool[i].next) != 0) XV_ASSUME(nx == pool[i].next);
      XV_ASSUME(g_linked[i] || !ln);
      XV_ASSUME(al || !prot);
      if (g_linked[i] && !ln && g_retired[i] < 3) g_retired[i]++;   /* the environment unlinked it: it retires it */
      XV_ASSUME(al || (!ln && g_retired[i] >= 1));
      pool[i].next = nx; g_linked[i] = ln; g_alloc[i] = al;
      if (!al) { pool[i].key = nondet_key(); pool[i].next = nondet_uptr(); g_gen[i]++; }
    } else {                                                     /* free memory / memory nobody protects: anything, any number of times */
      g_gen[i]++;
      g_alloc[i] = nondet_bool(); g_pub[i] = 1; pool[i].key = nondet_key(); pool[i].next = nondet_uptr();
      g_linked[i] = nondet_bool(); g_retired[i] = nondet_bool();
    }
    XV_ASSUME(!g_linked[i] || (g_alloc[i] && g_pub[i] && g_retired[i] == 0));
  }
  the_set.head = nondet_uptr();
  XV_ASSUME(int_wf());
}
#ifdef XV_INT
_Bool env_on;
void xv_env(void) { if (env_on) env_havoc(); }
#endif
