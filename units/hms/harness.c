/* unit hms - harris_michael_list_based_set (C08, C09).  Declarations, guard contract stubs, ghost state, representation
 * invariant (builder + checker) and harnesses.  All function bodies come from lowered.h (extracted from /repo on every run). */
#include <stdint.h>
#include <stddef.h>
#ifndef L
#define L 3                     /* shape: at most L nodes that were ever inserted, plus one slot for operator new */
#endif
#define NP (L + 1)
typedef uintptr_t mptr;         /* marked_ptr<node,1> / concurrent_ptr cell: node address | delete mark (bit 0) */
typedef signed char hkey;        /* Key: only compared (std::less, ==); 8-bit values realise every order type of the <= L+2 keys involved */
hkey nondet_key(void);
struct node { hkey key; mptr next; };
struct hms { mptr head; };
struct guard { mptr ptr; _Bool fake; };   /* guard_ptr: only written by the contract stubs below; ghost `fake`: built from a raw pointer that was not pinned, protects nothing */
struct find_info { mptr* prev; mptr next; struct guard cur; struct guard save; };
struct iter { struct hms* list; struct find_info info; };

/* monitors (declared before xv.h) */
static void mon_access(const void* addr);
static void mon_cas(const void* addr, mptr e, mptr d, _Bool ok, int o);
static void mon_store(const void* addr, mptr v, int o);
static void mon_load(const void* addr, mptr v);
#define XV_ON_LOAD(addr, val, order) (mon_access((const void*)(addr)), mon_load((const void*)(addr), (mptr)(val)))
#define XV_ON_STORE(addr, val, order) (mon_access((const void*)(addr)), mon_store((const void*)(addr), (mptr)(val), (order)))
#define XV_ON_CAS(addr, e, d, ok, order) (mon_access((const void*)(addr)), mon_cas((const void*)(addr), (mptr)(e), (mptr)(d), (ok), (order)))
#include "xv.h"
int xv_threw; uint64_t xv_clock, xv_rmw_old; _Bool xv_cas_ok;

/* ------------------------------------------------------------------ heap model + ghost state */
struct node pool[NP]; struct hms the_set; struct node xv_dummy;
_Bool g_alloc[NP];              /* memory of the node is allocated (not yet freed by the reclaimer / delete) */
_Bool g_pub[NP];                /* the node was published (linked into the list at some time) */
unsigned char g_retired[NP];    /* number of reclaim() calls on the node */
signed char g_cnt[NP];          /* number of guards of this handle protecting the node */
_Bool g_unsafe;                 /* a dereference touched a node that is neither protected by a guard nor private */
unsigned g_new, g_delete; _Bool g_bad_delete; unsigned in_newslot;
_Bool g_fake_used; unsigned n_raw_guard, n_raw_unpinned;   /* raw-pointer guards, see g_set_ptr */
unsigned char u_unlink[NP], u_retire[NP];   /* successful unlink CASes / reclaim() calls of the operation under test, per node */
_Bool g_linked[NP];                         /* ghost: the node is reachable from head (maintained by the monitors and the environment) */
unsigned char g_gen[NP];                    /* bumped when the environment re-uses the memory of a freed node */
#define NADDR(i) ((mptr)((i) + 1) << 4)
#define NIDX(p) ((size_t)(((p) >> 4) - 1))
#define MP_mark(x) ((x) & (mptr)1)
#define MP_get(x) ((x) & ~(mptr)1)
#define MP_make(p, m) ((mptr)(p) | (mptr)(m))
/* compare: a strict weak order whose equivalence is COARSER than Key::operator== (the comparer ignores the lowest bit, like a case-insensitive string order):
   the set is a set up to the comparer's equivalence (KEY_EQ), never up to operator== */
#define KEY_LESS(a, b) (((a) | 1) < ((b) | 1))
#define KEY_EQ(a, b) (!KEY_LESS(a, b) && !KEY_LESS(b, a))
#define XV_BACKOFF() ((void)0)

static _Bool node_safe(size_t i) { return i < NP && g_alloc[i] && (g_cnt[i] > 0 || !g_pub[i]); }
static size_t deref_idx(mptr p) {
  size_t i = NIDX(MP_get(p));
  if (MP_get(p) == 0 || !node_safe(i)) g_unsafe = 1;
  return i < NP ? i : 0;
}
static struct node* nochk(mptr p) { size_t i = NIDX(MP_get(p)); return (MP_get(p) != 0 && i < NP) ? &pool[i] : &xv_dummy; }
static size_t deref_guard(struct guard* g) { if (g->fake) g_fake_used = 1; return deref_idx(g->ptr); }
#define GDEREF(g) (&pool[deref_guard(&(g))])
#define NDEREF(n) (&pool[deref_idx(n)])
#define NOCHK_DEREF(g) (nochk((g).ptr))
static void mon_access(const void* addr) {
  if (__CPROVER_POINTER_OBJECT(addr) == __CPROVER_POINTER_OBJECT(pool)) {
    size_t i = __CPROVER_POINTER_OFFSET(addr) / sizeof(struct node);
    if (!node_safe(i)) g_unsafe = 1;
  } else if (addr != (const void*)&the_set.head) g_unsafe = 1;
}

/* operator new / delete on nodes */
static mptr n_new(hkey k) {
  size_t s = in_newslot; g_new++;
  g_alloc[s] = 1; g_pub[s] = 0; g_retired[s] = 0; pool[s].key = k; pool[s].next = 0;
  return NADDR(s);
}
static void n_delete(mptr n) {
  size_t i = NIDX(n); g_delete++;
  if (i >= NP || !g_alloc[i] || g_pub[i] || g_cnt[i] != 0) { g_bad_delete = 1; return; }
  g_alloc[i] = 0; pool[i].key = nondet_key(); pool[i].next = nondet_uptr();
}
#define N_NEW(k) n_new(k)
#define N_DELETE(n) n_delete(n)

/* ------------------------------------------------------------------ guard_ptr contract stubs (proved per reclaimer elsewhere) */
static void g_protect(mptr p) { size_t i = NIDX(MP_get(p)); if (MP_get(p) != 0 && i < NP) g_cnt[i]++; }
static void g_unprotect(mptr p) { size_t i = NIDX(MP_get(p)); if (MP_get(p) != 0 && i < NP) g_cnt[i]--; }
static void g_reset(struct guard* g) { if (!g->fake) g_unprotect(g->ptr); g->ptr = 0; g->fake = 0; }
static void g_copy(struct guard* d, struct guard* s) { if (d == s) return; mptr v = s->ptr; _Bool f = s->fake; g_reset(d); d->ptr = v; d->fake = f; if (!f) g_protect(v); }
static void g_move(struct guard* d, struct guard* s) { if (d == s) return; g_reset(d); d->ptr = s->ptr; d->fake = s->fake; s->ptr = 0; s->fake = 0; }
static void g_swap(struct guard* a, struct guard* b) { struct guard t = *a; *a = *b; *b = t; }
/* guard_ptr(raw pointer): no validation is possible, so the constructor protects p only if p is PINNED while it runs:
 *   p is null, or p is this operation's own unpublished node, or p is already protected by a live guard of this thread, or
 *   p is the frozen successor (c->next carries the delete mark, so it cannot change) of a node c that this thread guards and that is
 *   STILL LINKED: p cannot be unlinked - hence not retired, not freed - before c is.
 * Otherwise the new guard is `fake`: it protects nothing (the node may already be reclaimed).  A fake guard may be dropped, but it must
 * never be dereferenced, retired through, or end up in a result (obligation hms.guard.raw_pinned). */
static _Bool raw_pinned(mptr p) {
  size_t i = NIDX(MP_get(p));
  if (MP_get(p) == 0) return 1;
  if (i >= NP || !g_alloc[i]) return 0;
  if (!g_pub[i] || g_cnt[i] > 0) return 1;
  _Bool pin = 0;
  for (int c = 0; c < NP; c++)
    if (g_alloc[c] && g_pub[c] && g_cnt[c] > 0 && g_linked[c] && MP_mark(pool[c].next) != 0 && MP_get(pool[c].next) == MP_get(p)) pin = 1;
  return pin;
}
static void g_set_ptr(struct guard* g, mptr p) {
  n_raw_guard++;
  g->ptr = p; g->fake = !raw_pinned(p);
  if (g->fake) n_raw_unpinned++; else g_protect(p);
}
static void g_assign_ptr(struct guard* d, mptr p) { struct guard t; t.ptr = 0; t.fake = 0; g_set_ptr(&t, p); g_move(d, &t); }   /* d = guard_ptr(p); */
/* sync preconditions (memory orders are data): a node linked by another thread's release CAS is reached through acquire loads; link / unlink CASes are release, the mark CAS acquire */
#ifdef XV_INT
#define SYNC_OBL(c) XV_OBL("hms.sync.orders", (c))
#else
#define SYNC_OBL(c) ((void)0)      /* checked once, in the INT runs */
#endif
static void g_acquire(struct guard* g, mptr* cell, int order) { g_reset(g); mptr v = A_LOAD(*cell, order); g->ptr = v; g_protect(v); SYNC_OBL(XV_IS_ACQUIRE(order)); }
mptr* aie_cell; mptr aie_val; uint64_t aie_clock; _Bool aie_ok;       /* last acquire_if_equal (for the commit obligations) */
static _Bool g_aie(struct guard* g, mptr* cell, mptr expected, int order) {
  g_reset(g); mptr v = A_LOAD(*cell, order); SYNC_OBL(XV_IS_ACQUIRE(order));
  aie_cell = cell; aie_val = expected; aie_clock = xv_clock; aie_ok = (v == expected);
  if (v != expected) return 0;
  g->ptr = v; g_protect(v); return 1;
}
static void g_reclaim(struct guard* g) { if (g->fake) g_fake_used = 1; size_t i = NIDX(MP_get(g->ptr)); if (MP_get(g->ptr) == 0 || i >= NP) { g_unsafe = 1; return; } if (g_retired[i] < 3) g_retired[i]++; if (u_retire[i] < 3) u_retire[i]++; g_reset(g); }
#define G_INIT(g) ((g).ptr = 0, (g).fake = 0)
#define G_DTOR(g) g_reset(&(g))
#define G_RESET(g) g_reset(&(g))
#define G_COPY(d, s) g_copy(&(d), &(s))
#define G_MOVE(d, s) g_move(&(d), &(s))
#define G_SWAP(a, b) g_swap(&(a), &(b))
#define G_SET_PTR(g, p) g_set_ptr(&(g), (p))
#define G_ASSIGN_PTR(g, p) g_assign_ptr(&(g), (p))
#define G_ACQUIRE(g, cell, o) g_acquire(&(g), &(cell), (o))
#define G_ACQUIRE_IF_EQUAL(g, cell, e, o) g_aie(&(g), &(cell), (e), (o))
#define G_RECLAIM(g) g_reclaim(&(g))
#define G_GET(g) MP_get((g).ptr)
#define G_MARK(g) MP_mark((g).ptr)
#define G_MP(g) ((g).ptr)
#define G_BOOL(g) ((g).ptr != 0)

/* find_info / iterator: default member initialisers, member-wise (defaulted) copy / move, destructors */
static void fi_init(struct find_info* i, mptr* p) { i->prev = p; i->next = 0; G_INIT(i->cur); G_INIT(i->save); }
static void fi_dtor(struct find_info* i) { g_reset(&i->save); g_reset(&i->cur); }
static void fi_move(struct find_info* d, struct find_info* s) {
  d->prev = s->prev; d->next = s->next; G_INIT(d->cur); G_INIT(d->save); g_move(&d->cur, &s->cur); g_move(&d->save, &s->save); }
static void fi_copy(struct find_info* d, struct find_info* s) {
  d->prev = s->prev; d->next = s->next; G_INIT(d->cur); G_INIT(d->save); g_copy(&d->cur, &s->cur); g_copy(&d->save, &s->save); }
static void it_from_info(struct iter* r, struct hms* l, struct find_info* i) { r->list = l; fi_move(&r->info, i); }
static void it_move_ctor(struct iter* r, struct iter* s) { r->list = s->list; fi_move(&r->info, &s->info); }
static void it_copy_ctor(struct iter* r, struct iter* s) { r->list = s->list; fi_copy(&r->info, &s->info); }
static void hms_iter_ctor(struct iter* self, struct hms* list, mptr* start);
mptr* nondet_uptr_p(void);
static void it_construct(struct iter* r, struct hms* l, mptr* start) {   /* prev has no default member initialiser */
  r->info.prev = nondet_uptr_p(); r->info.next = 0; G_INIT(r->info.cur); G_INIT(r->info.save); hms_iter_ctor(r, l, start); }
#define FI_INIT(info, p) fi_init(&(info), (p))
#define FI_DTOR(info) fi_dtor(&(info))
#define IT_DTOR(it) fi_dtor(&(it).info)
#define IT_FROM_INFO(ret, self, info) it_from_info((ret), (self), &(info))
/* the iterator's special member functions: `= default` in the pinned text (then lowered.h defines XV_DEFAULTED_<id> and the member-wise model
   above IS their meaning); a user-provided body is lowered (hms_iter_*) and used instead - run iter_special checks the member-wise contract on it */
static void it_move_ctor_d(struct iter* r, struct iter* s);
static void it_copy_ctor_d(struct iter* r, struct iter* s);
static void it_copy_assign_d(struct iter* d, struct iter* s);
static void it_move_assign_d(struct iter* d, struct iter* s);
#define IT_MOVE_CTOR(ret, src) it_move_ctor_d((ret), &(src))
#define IT_COPY_CTOR(ret, src) it_copy_ctor_d((ret), &(src))
static void fi_copy_assign(struct find_info* d, struct find_info* s) { if (d == s) return; d->prev = s->prev; d->next = s->next; g_copy(&d->cur, &s->cur); g_copy(&d->save, &s->save); }
static void fi_move_assign(struct find_info* d, struct find_info* s) { if (d == s) return; d->prev = s->prev; d->next = s->next; g_move(&d->cur, &s->cur); g_move(&d->save, &s->save); }
#define FI_COPY_CTOR(d, s) fi_copy(&(d), &(s))
#define FI_MOVE_CTOR(d, s) fi_move(&(d), &(s))
#define FI_COPY_ASSIGN(d, s) fi_copy_assign(&(d), &(s))
#define FI_MOVE_ASSIGN(d, s) fi_move_assign(&(d), &(s))
#define XV_INIT_info(self, v) fi_copy(&(self)->info, &(v))      /* member initialiser info(other.info) of a user-provided copy constructor */
static void hms_iter_inc(struct iter* self);
#define IT_INC(it) hms_iter_inc(it)
#define IT_CONSTRUCT(ret, self, start) it_construct((ret), (self), (start))
#define XV_INIT_list(self, v) (self)->list = *(v)
static _Bool hms_find(struct hms* self, hkey key, struct find_info* info_p, int* backoff_p);
static void hms_end(struct hms* self, struct iter* ret);
static _Bool hms_emplace_or_get(struct hms* self, struct iter* ret, hkey args);
#define HMS_FIND(self, key, info, backoff) hms_find((self), (key), &(info), &(backoff))
#define IT_FIND(l, key, info, backoff) hms_find(&(l), (key), &(info), &(backoff))

/* ------------------------------------------------------------------ monitors of this handle's writes: legal steps of the algorithm */
/* every successful CAS / store of the operation under test on a shared cell must be one of
 *   LINK   cell (head or p->next, value v unmarked) : v -> n, n private, n->next == v, key(p) < key(n) < key(v)
 *   MARK   cell c->next : v (unmarked) -> v|1
 *   UNLINK cell (head or p->next, unmarked value c) : c -> MP_get(c->next), c->next marked; then c is retired by the same operation
 * and the expected value must be the one the operation validated last on that cell.  */
unsigned n_link, n_mark, n_unlink, n_illegal; size_t last_linked, last_marked, last_unlinked; _Bool last_link_validated, last_unlink_validated, last_link_expected_protected = 1, all_unlink_expected_protected = 1;
hkey last_marked_key; unsigned char last_marked_gen; _Bool last_mark_was_read, mon_on;
mptr rd_val[NP]; _Bool rd_has[NP];           /* per node: last value this operation read from its next field (load, or the value a failed CAS returned) */
static void mon_store(const void* addr, mptr v, int o) {
  if (!mon_on) return;
  /* plain stores are only allowed on the private new node */
  if (__CPROVER_POINTER_OBJECT(addr) == __CPROVER_POINTER_OBJECT(pool)) {
    size_t i = __CPROVER_POINTER_OFFSET(addr) / sizeof(struct node);
    if (i < NP && g_alloc[i] && !g_pub[i]) return;
  }
  n_illegal++;
}
static void mon_load(const void* addr, mptr v) { if (__CPROVER_POINTER_OBJECT(addr) == __CPROVER_POINTER_OBJECT(pool)) {
    size_t i = __CPROVER_POINTER_OFFSET(addr) / sizeof(struct node); if (i < NP) { rd_val[i] = v; rd_has[i] = 1; } } }
static void mon_cas(const void* addr, mptr e, mptr d, _Bool ok, int o) {
  if (!ok) { mon_load(addr, *(const mptr*)addr); return; }
  if (!mon_on) return;
  _Bool is_head = (addr == (const void*)&the_set.head);
  size_t owner = NP;
  if (!is_head) {
    if (__CPROVER_POINTER_OBJECT(addr) != __CPROVER_POINTER_OBJECT(pool)) { n_illegal++; return; }
    owner = __CPROVER_POINTER_OFFSET(addr) / sizeof(struct node);
    if (owner >= NP || !g_alloc[owner] || !g_pub[owner]) { n_illegal++; return; }
  }
  size_t di = NIDX(MP_get(d)), ei = NIDX(MP_get(e));
  if (!is_head && d == (e | 1) && MP_mark(e) == 0) { SYNC_OBL(XV_IS_ACQUIRE(o)); n_mark++; last_marked = owner; last_marked_key = pool[owner].key; last_marked_gen = g_gen[owner]; last_mark_was_read = (rd_has[owner] && rd_val[owner] == e); return; }               /* MARK */
  if (MP_mark(e) != 0 || MP_mark(d) != 0) { n_illegal++; return; }
  if (d != 0 && di < NP && g_alloc[di] && !g_pub[di]) {                                                       /* LINK */
    _Bool okk = pool[di].next == e && (is_head || KEY_LESS(pool[owner].key, pool[di].key)) &&
                (e == 0 || (ei < NP && g_alloc[ei] && KEY_LESS(pool[di].key, pool[ei].key)));
    if (!okk) { n_illegal++; return; }
    SYNC_OBL(XV_IS_RELEASE(o));
    g_pub[di] = 1; g_linked[di] = 1; n_link++; last_linked = di;
    last_link_validated = (aie_cell == (mptr*)addr && aie_val == e && aie_ok);
    /* ABA: the expected successor is still protected by a guard of this handle when the CAS is made (an unprotected node may be reclaimed and its address recycled) */
    last_link_expected_protected = (e == 0 || (ei < NP && g_cnt[ei] > 0));
    return;
  }
  if (e != 0 && ei < NP && g_alloc[ei] && MP_mark(pool[ei].next) != 0 && d == MP_get(pool[ei].next)) {          /* UNLINK */
    SYNC_OBL(XV_IS_RELEASE(o));
    n_unlink++; last_unlinked = ei; g_linked[ei] = 0; if (u_unlink[ei] < 3) u_unlink[ei]++;
    if (!(g_cnt[ei] > 0)) all_unlink_expected_protected = 0;       /* the node being unlinked is the expected value of the CAS: protected */
    return;
  }
  n_illegal++;
}

/* ------------------------------------------------------------------ representation invariant: builder */
enum { K_FREE = 0, K_LINKED = 1, K_UNLINKED = 2 };
/* harness inputs are plain int/unsigned so that the native replay receives them as numbers */
unsigned in_kind[L]; int in_key[L]; unsigned in_mark[L]; unsigned in_unext[L]; unsigned in_retired[L];
unsigned char pre_kind[NP]; hkey pre_key[NP]; mptr pre_next[NP]; unsigned char pre_retired[NP];
static void build(void) {
  mptr nxt = 0; int lastkey = 0; _Bool have = 0;
  for (int i = L - 1; i >= 0; i--) {
    in_kind[i] = nondet_uint(); in_key[i] = nondet_key(); in_mark[i] = nondet_bool(); in_unext[i] = nondet_uint(); in_retired[i] = nondet_bool();
    XV_ASSUME(in_kind[i] <= K_UNLINKED && in_unext[i] <= NP);
    pool[i].key = (hkey)in_key[i]; g_cnt[i] = 0; u_unlink[i] = 0; u_retire[i] = 0; g_gen[i] = 0; g_linked[i] = 0;
    if (in_kind[i] == K_LINKED) {
      XV_ASSUME(!have || KEY_LESS(in_key[i], lastkey)); lastkey = in_key[i]; have = 1;
      pool[i].next = nxt | (mptr)in_mark[i]; nxt = NADDR(i); g_alloc[i] = 1; g_pub[i] = 1; g_retired[i] = 0; g_linked[i] = 1;
    } else if (in_kind[i] == K_UNLINKED) {      /* marked, spliced out earlier; its frozen next may point anywhere (even to re-used memory) */
      pool[i].next = (in_unext[i] == NP ? (mptr)0 : NADDR(in_unext[i])) | (mptr)1; g_alloc[i] = 1; g_pub[i] = 1; g_retired[i] = (unsigned char)in_retired[i];
    } else {                                    /* never allocated, or retired and already freed: content is garbage */
      pool[i].next = nondet_uptr(); g_alloc[i] = 0; g_pub[i] = nondet_bool(); g_retired[i] = 0;
    }
  }
  pool[L].key = nondet_key(); pool[L].next = nondet_uptr(); g_alloc[L] = 0; g_pub[L] = 0; g_retired[L] = 0; g_cnt[L] = 0; u_unlink[L] = 0; u_retire[L] = 0; g_gen[L] = 0; g_linked[L] = 0;
  the_set.head = nxt; in_newslot = L;
  g_unsafe = 0; g_new = 0; g_delete = 0; g_bad_delete = 0; n_link = n_mark = n_unlink = n_illegal = 0; mon_on = 1; g_fake_used = 0; n_raw_guard = n_raw_unpinned = 0;
  aie_cell = 0; aie_ok = 0; last_mark_was_read = 0; for (int i = 0; i < NP; i++) rd_has[i] = 0;
  xv_clock = nondet_u64(); XV_ASSUME(xv_clock < ((uint64_t)1 << 62));
}
static void snapshot(void) {
  for (int i = 0; i < NP; i++) { pre_kind[i] = i < L ? in_kind[i] : K_FREE; pre_key[i] = pool[i].key; pre_next[i] = pool[i].next; pre_retired[i] = g_retired[i]; }
}
static _Bool pre_live(size_t i) { return i < NP && pre_kind[i] == K_LINKED && MP_mark(pre_next[i]) == 0; }
static _Bool pre_has(hkey k) { _Bool r = 0; for (int i = 0; i < NP; i++) if (pre_live(i) && KEY_EQ(pre_key[i], k)) r = 1; return r; }
/* a guard held by the handle under test: empty (idx == NP) or any published, not freed node */
static void give_guard(struct guard* g, unsigned idx) {
  XV_ASSUME(idx <= NP);
  g->fake = 0;
  if (idx == NP) { g->ptr = 0; return; }
  XV_ASSUME(idx < L && in_kind[idx] != K_FREE);
  g->ptr = NADDR(idx); g_cnt[idx]++;
}

/* ------------------------------------------------------------------ representation invariant: checker */
_Bool post_in[NP];
static _Bool walk(void) {
  _Bool ok = MP_mark(the_set.head) == 0; hkey last = 0; _Bool have = 0; mptr p = the_set.head;
  for (int i = 0; i < NP; i++) post_in[i] = 0;
  int step;
  for (step = 0; step < NP + 1; step++) {
    if (p == 0) break;
    size_t i = NIDX(p);
    if (i >= NP || p != NADDR(i) || post_in[i]) { ok = 0; break; }
    if (!g_alloc[i] || !g_pub[i] || g_retired[i] != 0) ok = 0;
    if (have && !KEY_LESS(last, pool[i].key)) ok = 0;
    post_in[i] = 1; last = pool[i].key; have = 1;
    p = MP_get(pool[i].next);
  }
  if (p != 0) ok = 0;
  return ok;
}
static _Bool post_live(size_t i) { return i < NP && post_in[i] && MP_mark(pool[i].next) == 0; }
static _Bool post_has(hkey k) { _Bool r = 0; for (int i = 0; i < NP; i++) if (post_live(i) && KEY_EQ(pool[i].key, k)) r = 1; return r; }
/* first node of the current chain whose key is >= k (and which is not `except`); NP if none */
static size_t first_ge(hkey k, size_t except) {
  size_t best = NP;
  for (int i = 0; i < NP; i++) if (post_in[i] && i != except && !KEY_LESS(pool[i].key, k) && (best == NP || KEY_LESS(pool[i].key, pool[best].key))) best = i;
  return best;
}
static unsigned guards_on(struct find_info* a, size_t j) { return (G_GET(a->cur) == NADDR(j) && !a->cur.fake) + (G_GET(a->save) == NADDR(j) && !a->save.fake); }
/* no guard of a result was built from an unpinned raw pointer, and no such guard was dereferenced or retired through */
static _Bool no_fake(struct find_info* a) { return !g_fake_used && !a->cur.fake && !a->save.fake; }
/* frame for an arbitrary node j: what a helping traversal may do to nodes other than the one an operation targets */
static _Bool frame_ok(size_t j) {
  if (pool[j].key != pre_key[j] && pre_kind[j] != K_FREE) return 0;
  if (pre_kind[j] == K_LINKED && MP_mark(pre_next[j]) == 0) return post_in[j] && MP_mark(pool[j].next) == 0 && g_retired[j] == 0 && g_alloc[j];
  if (pre_kind[j] == K_LINKED) return MP_mark(pool[j].next) != 0 && g_alloc[j] &&
        ((post_in[j] && g_retired[j] == 0) || (!post_in[j] && g_retired[j] == 1 && pool[j].next == pre_next[j]));
  if (pre_kind[j] == K_UNLINKED) return !post_in[j] && pool[j].next == pre_next[j] && g_retired[j] == pre_retired[j] && g_alloc[j];
  return !post_in[j] && !g_alloc[j];
}
/* iterator invariant: what any sequence of operations on this and other handles can leave in an iterator */
static _Bool iter_inv(struct iter* it) {
  mptr c = G_GET(it->info.cur), s = G_GET(it->info.save);
  if (it->list != &the_set || G_MARK(it->info.cur) || G_MARK(it->info.save) || it->info.cur.fake || it->info.save.fake) return 0;
  if (c != 0 && !(NIDX(c) < NP && g_alloc[NIDX(c)] && g_pub[NIDX(c)])) return 0;
  if (s != 0 && !(NIDX(s) < NP && g_alloc[NIDX(s)] && g_pub[NIDX(s)])) return 0;
  if (s == 0 ? (it->info.prev != &the_set.head && !(c == 0 && it->info.prev == 0)) : (it->info.prev != &pool[NIDX(s)].next)) return 0;
  if (s != 0 && c != 0 && !KEY_LESS(pool[NIDX(s)].key, pool[NIDX(c)].key)) return 0;
  return 1;
}

struct iter g_it; size_t in_j; unsigned in_start, in_cur;
#include "env.h"
/* ================================================================== INT: interference by other threads between the atomic accesses
 * The environment is unbounded (env.h), so the retry loops are cut by invariants.  find is proved against its INT contract on its
 * real text (h_find_int, function hms_find_cut = the same source text with the for loop and the retry label cut); the callers are
 * then proved with find replaced by that contract (find_stub). */
size_t in_m; unsigned char m_gen; _Bool m_marked;   /* ghost: an arbitrary node that is marked when find is entered */
static _Bool guard_ok(struct guard* g) { size_t i = NIDX(MP_get(g->ptr)); return !g->fake && (g->ptr == 0 || (i < NP && g->ptr == NADDR(i) && g_alloc[i] && g_pub[i] && g_cnt[i] > 0)); }
/* exact accounting of this handle's guards: the find_info(s) in use plus one more guard */
static _Bool cnt_exact(struct find_info* a, struct guard* b, struct find_info* c) {
  _Bool ok = 1;
  for (int i = 0; i < NP; i++) if (g_cnt[i] != (int)(guards_on(a, i) + (b != 0 && b->ptr == NADDR(i)) + (c != 0 ? guards_on(c, i) : 0))) ok = 0;
  return ok;
}
/* (prev, save) as find requires and delivers them: start of the list, or the next field of a protected node with a smaller key */
static _Bool fi_ok(struct find_info* f, hkey key) {
  size_t s = NIDX(G_GET(f->save));
  if (!guard_ok(&f->save) || !guard_ok(&f->cur)) return 0;
  return G_GET(f->save) == 0 ? f->prev == &the_set.head : (f->prev == &pool[s].next && KEY_LESS(pool[s].key, key));
}
static _Bool retire_ok(size_t j) { return u_unlink[j] == u_retire[j]; }
static _Bool mark_mono(void) { return !m_marked || g_gen[in_m] != m_gen || !g_alloc[in_m] || MP_mark(pool[in_m].next) != 0; }
static _Bool int_common(void) { return int_wf() && n_illegal == 0 && retire_ok(in_j) && !g_unsafe && !g_bad_delete && mark_mono(); }
static void havoc_guards(void) { for (int i = 0; i < NP; i++) g_cnt[i] = (signed char)nondet_uchar(); }
static void havoc_info(struct find_info* f) { f->prev = nondet_uptr_p(); f->next = nondet_uptr(); f->cur.ptr = nondet_uptr(); f->save.ptr = nondet_uptr(); f->cur.fake = 0; f->save.fake = 0; }
static void havoc_progress(void) { u_unlink[in_j] = nondet_uchar(); u_retire[in_j] = nondet_uchar(); n_unlink = nondet_uint(); for (int i = 0; i < NP; i++) { rd_val[i] = nondet_uptr(); rd_has[i] = nondet_bool(); }
  aie_cell = nondet_uptr_p(); aie_val = nondet_uptr(); aie_ok = nondet_bool(); }
/* an arbitrary reachable state for the INT harnesses: any well-formed list, nothing protected yet */
static void int_init(void) {
  for (int i = 0; i < NP; i++) { g_alloc[i] = 0; g_pub[i] = 0; g_cnt[i] = 0; g_linked[i] = 0; g_retired[i] = 0; u_unlink[i] = 0; u_retire[i] = 0; g_gen[i] = nondet_uchar();
    pool[i].key = nondet_key(); pool[i].next = nondet_uptr(); }
  in_newslot = L; g_new = 0; g_delete = 0; g_bad_delete = 0; g_unsafe = 0; n_link = n_mark = n_unlink = n_illegal = 0; mon_on = 1; g_fake_used = 0; n_raw_guard = n_raw_unpinned = 0;
  aie_cell = 0; aie_ok = 0; last_mark_was_read = 0; m_marked = 0; for (int i = 0; i < NP; i++) rd_has[i] = 0;
  xv_clock = nondet_u64(); XV_ASSUME(xv_clock < ((uint64_t)1 << 62));
  env_havoc();
  in_j = nondet_size(); XV_ASSUME(in_j < NP);
}
static void int_guard(struct guard* g, unsigned idx) {      /* a guard the handle already holds: empty or any published, allocated node */
  XV_ASSUME(idx <= NP);
  g->fake = 0;
  if (idx == NP) { g->ptr = 0; return; }
  XV_ASSUME(idx < NP && g_alloc[idx] && g_pub[idx]);
  g->ptr = NADDR(idx); g_cnt[idx]++;
}
static void int_info(struct find_info* f, hkey key) {
  in_start = nondet_uint(); in_cur = nondet_uint();
  int_guard(&f->save, in_start); int_guard(&f->cur, in_cur); f->next = nondet_uptr();
  f->prev = in_start == NP ? &the_set.head : &pool[in_start].next;
  XV_ASSUME(fi_ok(f, key));
}

/* ---- cut points of hms_find_cut (the text of find): label retry, and the for loop */
#define FIND_START_OK ((start == &the_set.head && start_guard.ptr == 0) || \
   (start_guard.ptr != 0 && guard_ok(&start_guard) && start == &pool[NIDX(start_guard.ptr)].next && KEY_LESS(pool[NIDX(start_guard.ptr)].key, key)))
#define FIND_CNT_OK cnt_exact(info_p, &start_guard, 0)
#define XV_INV_RETRY (int_common() && n_link == 0 && n_mark == 0 && g_new == 0 && FIND_START_OK && FIND_CNT_OK && guard_ok(&(*info_p).cur) && guard_ok(&(*info_p).save))
#define XV_HAVOC_RETRY env_havoc(); havoc_info(info_p); havoc_guards(); havoc_progress(); start = nondet_uptr_p(); start_guard.ptr = nondet_uptr(); start_guard.fake = 0
#define XV_INV_FINDLOOP (int_common() && n_link == 0 && n_mark == 0 && g_new == 0 && FIND_START_OK && FIND_CNT_OK && fi_ok(info_p, key) && \
   MP_mark((*info_p).next) == 0 && word_ok((*info_p).next))
#define XV_HAVOC_FINDLOOP env_havoc(); havoc_info(info_p) /* info: next prev cur save; expected GDEREF */; havoc_guards(); havoc_progress()

/* ---- the INT contract of find(key, info, backoff) */
static _Bool find_requires(struct find_info* f, hkey key) { return fi_ok(f, key); }
/* ensures (at the return; the environment may act again before the caller's next access):
 *  P1 (prev, save): head / the next field of a protected node with a smaller key
 *  P2 cur: empty, or a protected node with key >= key; the result is true iff cur holds exactly that key
 *  P3 info.next is unmarked: the value read from cur->next (recorded as the last-but-one read), 0 when cur is empty
 *  P4 the pair (*prev, cur) is the one validated by the last acquire_if_equal
 *  P5 only legal unlink steps, each followed by exactly one retire; no other writes; no guard leaked
 *  P6 cur was seen unmarked during the call: it is not a node that was already marked when find was entered
 *  P7 a node with this key that was already marked when find was entered has been spliced out (by find or by somebody else) */
static _Bool find_ensures(struct find_info* f, hkey key, _Bool r) {
  size_t c = NIDX(G_GET(f->cur));
  if (!fi_ok(f, key)) return 0;
  if (G_GET(f->cur) != 0 && KEY_LESS(pool[c].key, key)) return 0;
  if (r != (G_GET(f->cur) != 0 && !KEY_LESS(key, pool[c].key))) return 0;
  if (MP_mark(f->next) != 0 || !word_ok(f->next) || (G_GET(f->cur) == 0 && f->next != 0)) return 0;
  if (!(aie_ok && aie_cell == f->prev && aie_val == f->cur.ptr)) return 0;
  if (G_GET(f->cur) != 0 && !(rd_has[c] && rd_val[c] == f->next)) return 0;
  if (G_GET(f->cur) != 0 && m_marked && c == in_m && g_gen[in_m] == m_gen) return 0;
  if (m_marked && g_gen[in_m] == m_gen && g_alloc[in_m] && KEY_EQ(pool[in_m].key, key) && g_linked[in_m]) return 0;
  return 1;
}
#ifdef XV_INT
static _Bool find_stub(struct hms* self, hkey key, struct find_info* f, int* bo) {
  XV_OBL("hms.find.requires", find_requires(f, key));
  /* P6 for every node: remember which nodes (identities) are marked on entry */
  _Bool em[NP]; unsigned char eg[NP];
  for (int i = 0; i < NP; i++) { em[i] = g_alloc[i] && g_pub[i] && MP_mark(pool[i].next) != 0; eg[i] = g_gen[i]; }
  g_reset(&f->cur); g_reset(&f->save);
  env_havoc();                                /* other threads, and find's own helping (unlink + retire of marked nodes = the environment's unlink step) */
  unsigned s = nondet_uint(), c = nondet_uint();
  int_guard(&f->save, s); int_guard(&f->cur, c);
  f->prev = s == NP ? &the_set.head : &pool[s].next; f->next = nondet_uptr();
  aie_ok = 1; aie_cell = f->prev; aie_val = f->cur.ptr;
  if (c != NP) { rd_has[c] = 1; rd_val[c] = f->next; }
  _Bool r = nondet_bool();
  _Bool keep_m = m_marked; m_marked = 0;
  XV_ASSUME(find_ensures(f, key, r));
  m_marked = keep_m;
  XV_ASSUME(c == NP || !(em[c] && eg[c] == g_gen[c]));
  for (int i = 0; i < NP; i++) XV_ASSUME(!(em[i] && eg[i] == g_gen[i] && g_alloc[i] && KEY_EQ(pool[i].key, key) && g_linked[i]));
  return r;
}
#undef HMS_FIND
#undef IT_FIND
#define HMS_FIND(self, key, info, backoff) find_stub((self), (key), &(info), &(backoff))
#define IT_FIND(l, key, info, backoff) find_stub(&(l), (key), &(info), &(backoff))
#endif

/* ---- cut points of the callers' retry loops (INT variants *_i of the same source text) */
#define NEW_PRIVATE(n, k) ((n) == NADDR(L) && g_alloc[L] && !g_pub[L] && pool[L].key == (k) && g_cnt[L] == 0 && g_new == 1 && g_delete == 0)
#define XV_INV_EMPL (int_common() && n_link == 0 && n_mark == 0 && NEW_PRIVATE(n, args) && fi_ok(&info, args) && cnt_exact(&info, 0, 0))
#define XV_HAVOC_EMPL env_havoc(); havoc_info(&info); havoc_guards(); havoc_progress(); pool[L].next = nondet_uptr() /* NDEREF n prev */
#define XV_INV_ERASE (int_common() && n_link == 0 && n_mark == 0 && g_new == 0 && fi_ok(&info, key) && cnt_exact(&info, 0, 0))
#define XV_HAVOC_ERASE env_havoc(); havoc_info(&info); havoc_guards(); havoc_progress() /* GDEREF cur next */
/* operator++ after the F11 repair: the fast path is retried while cur is unmarked */
#define INC_CUR (NIDX(G_GET(self->info.cur)))
#define XV_INV_INC (int_common() && n_link == 0 && n_mark == 0 && g_new == 0 && G_GET(self->info.cur) != 0 && fi_ok(&self->info, pool[INC_CUR].key) && self->list == &the_set && \
   tmp_guard.ptr == 0 && word_ok(next) && (MP_mark(next) == 0 || pool[INC_CUR].next == next) && cnt_exact(&self->info, 0, 0) && \
   inc_c0 == INC_CUR && g_gen[INC_CUR] == inc_gen0)
#define XV_HAVOC_INC env_havoc(); next = nondet_uptr(); havoc_progress()
size_t inc_c0; unsigned char inc_gen0;
#define ERIT_CUR (NIDX(G_GET(pos.info.cur)))
#define XV_INV_ERIT (int_common() && n_link == 0 && n_mark == 0 && g_new == 0 && G_GET(pos.info.cur) != 0 && fi_ok(&pos.info, pool[ERIT_CUR].key) && \
   word_ok(next) && (MP_mark(next) == 0 || pool[ERIT_CUR].next == next) /* a marked next field is frozen */ && rd_has[ERIT_CUR] && rd_val[ERIT_CUR] == next && cnt_exact(&pos.info, 0, &g_it.info))
#define XV_HAVOC_ERIT env_havoc(); next = nondet_uptr(); havoc_progress() /* GDEREF pos info cur */


#include "lowered.h"
#ifdef XV_DEFAULTED_iter_copy_ctor
static void it_copy_ctor_d(struct iter* r, struct iter* s) { it_copy_ctor(r, s); }
#else
static void it_copy_ctor_d(struct iter* r, struct iter* s) { r->info.prev = nondet_uptr_p(); r->info.next = 0; G_INIT(r->info.cur); G_INIT(r->info.save); hms_iter_copy_ctor(r, s); }
#endif
#ifdef XV_DEFAULTED_iter_move_ctor
static void it_move_ctor_d(struct iter* r, struct iter* s) { it_move_ctor(r, s); }
#else
static void it_move_ctor_d(struct iter* r, struct iter* s) { r->info.prev = nondet_uptr_p(); r->info.next = 0; G_INIT(r->info.cur); G_INIT(r->info.save); hms_iter_move_ctor(r, s); }
#endif
#ifdef XV_DEFAULTED_iter_copy_assign
static void it_copy_assign_d(struct iter* d, struct iter* s) { d->list = s->list; fi_copy_assign(&d->info, &s->info); }
#else
static void it_copy_assign_d(struct iter* d, struct iter* s) { hms_iter_copy_assign(d, s); }
#endif
#ifdef XV_DEFAULTED_iter_move_assign
static void it_move_assign_d(struct iter* d, struct iter* s) { d->list = s->list; fi_move_assign(&d->info, &s->info); }
#else
static void it_move_assign_d(struct iter* d, struct iter* s) { hms_iter_move_assign(d, s); }
#endif


/* ================================================================== SEQ harnesses */
int in_k; unsigned in_start, in_cur; size_t in_j;

/* find(key, info, backoff) from any well-formed list and any info a caller can pass: start at head, or at a guarded node `save`
 * with key(save) < key (linked, or marked, or already unlinked); info.cur holds any leftover guard */
void h_find(void) {
  build(); in_k = nondet_key(); in_start = nondet_uint(); in_cur = nondet_uint(); in_j = nondet_size(); XV_ASSUME(in_j < NP);
  struct find_info info; int bo = 0;
  info.next = nondet_uptr();
  give_guard(&info.save, in_start); give_guard(&info.cur, in_cur);
  if (in_start == NP) info.prev = &the_set.head; else { info.prev = &pool[in_start].next; XV_ASSUME(KEY_LESS(in_key[in_start], in_k)); }
  snapshot();
  _Bool from_head = in_start == NP || MP_mark(pre_next[in_start]) != 0;
  _Bool r = hms_find(&the_set, in_k, &info, &bo);
  _Bool wf = walk();
  size_t c = NIDX(G_GET(info.cur)), s = NIDX(G_GET(info.save));
  XV_OBL("hms.find.iff_live", r == pre_has(in_k));
  if (r) XV_OBL("hms.find.iff_live", G_GET(info.cur) != 0 && c < NP && post_live(c) && KEY_EQ(pool[c].key, in_k) && pre_live(c));
  XV_OBL("hms.find.position", wf);
  XV_OBL("hms.find.position", G_MARK(info.cur) == 0 && *info.prev == G_GET(info.cur));
  XV_OBL("hms.find.position", (G_GET(info.cur) == 0 ? NP : c) == first_ge(in_k, NP));
  XV_OBL("hms.find.position", G_GET(info.cur) == 0 ? info.next == 0 : info.next == pool[c].next && MP_mark(info.next) == 0);
  XV_OBL("hms.find.position", G_GET(info.save) == 0 ? (info.prev == &the_set.head && from_head)
                                                     : (s < NP && info.prev == &pool[s].next && post_live(s) && KEY_LESS(pool[s].key, in_k)));
  /* marked nodes met on the way (all nodes in front of cur when the walk started at head, those behind save otherwise) are gone */
  if (post_in[in_j] && KEY_LESS(pool[in_j].key, in_k) && (from_head || KEY_LESS(in_key[in_start], pool[in_j].key)))
    XV_OBL("hms.find.position", MP_mark(pool[in_j].next) == 0);
  XV_OBL("hms.find.frame", frame_ok(in_j) && g_new == 0 && g_delete == 0 && n_link == 0 && n_mark == 0 && n_illegal == 0);
  XV_OBL("hms.find.retire_once", g_retired[in_j] <= 1 && (g_retired[in_j] == pre_retired[in_j] || (pre_kind[in_j] == K_LINKED && !post_in[in_j])));
  XV_OBL("hms.find.guards", g_cnt[in_j] == (int)guards_on(&info, in_j));
  XV_OBL("hms.find.safe", !g_unsafe);
  if (r) XV_CANARY("find.true");
  if (!r && G_GET(info.cur) == 0) XV_CANARY("find.false_end");
  if (!r && G_GET(info.cur) != 0) XV_CANARY("find.false_greater");
  if (n_unlink == 2) XV_CANARY("find.unlinked_two");
  if (in_start != NP && from_head) XV_CANARY("find.restart_from_head");
  if (in_start != NP && !from_head) XV_CANARY("find.mid_start");
  if (in_start != NP && in_kind[in_start] == K_UNLINKED) XV_CANARY("find.start_unlinked");
}

/* no guard of a finished operation is left behind */
static _Bool no_guards(size_t j) { return g_cnt[j] == 0; }
/* the unique live node with key k in the pre-state, NP if none */
static size_t pre_node_of(hkey k) { size_t r = NP; for (int i = 0; i < NP; i++) if (pre_live(i) && KEY_EQ(pre_key[i], k)) r = i; return r; }

void h_contains(void) {
  build(); in_k = nondet_key(); in_j = nondet_size(); XV_ASSUME(in_j < NP);
  snapshot();
  _Bool r = hms_contains(&the_set, in_k);
  _Bool wf = walk();
  XV_OBL("hms.contains.iff_live", r == pre_has(in_k));
  XV_OBL("hms.contains.frame", wf && frame_ok(in_j) && g_new == 0 && n_link == 0 && n_mark == 0 && n_illegal == 0 && post_has(in_k) == pre_has(in_k));
  XV_OBL("hms.contains.guards", no_guards(in_j));
  XV_OBL("hms.contains.safe", !g_unsafe);
  if (r) XV_CANARY("contains.true"); else XV_CANARY("contains.false");
  if (n_unlink) XV_CANARY("contains.helped");
}

void h_find_key(void) {
  build(); in_k = nondet_key(); in_j = nondet_size(); XV_ASSUME(in_j < NP);
  snapshot();
  struct iter it;
  hms_find_key(&the_set, &it, in_k);
  _Bool wf = walk(); size_t t = pre_node_of(in_k);
  XV_OBL("hms.find_key.iff_live", (G_GET(it.info.cur) != 0) == pre_has(in_k));
  if (t != NP) XV_OBL("hms.find_key.iff_live", G_GET(it.info.cur) == NADDR(t) && post_live(t) && *it.info.prev == NADDR(t));
  XV_OBL("hms.find_key.iterator", wf && iter_inv(&it) && (t != NP || (it.info.prev == 0 && G_GET(it.info.save) == 0)));
  XV_OBL("hms.find_key.frame", frame_ok(in_j) && g_new == 0 && n_link == 0 && n_mark == 0 && n_illegal == 0);
  XV_OBL("hms.find_key.guards", g_cnt[in_j] == (int)guards_on(&it.info, in_j));
  XV_OBL("hms.find_key.safe", !g_unsafe);
  if (t != NP) XV_CANARY("find_key.found"); else XV_CANARY("find_key.end");
}

void h_begin(void) {
  build(); in_j = nondet_size(); XV_ASSUME(in_j < NP);
  snapshot();
  struct iter it, e;
  hms_begin(&the_set, &it);
  hms_end(&the_set, &e);
  _Bool wf = walk();
  XV_OBL("hms.iter.begin.first", wf && iter_inv(&it) && it.info.prev == &the_set.head && G_GET(it.info.save) == 0 && it.info.cur.ptr == the_set.head);
  XV_OBL("hms.iter.begin.first", iter_inv(&e) && G_GET(e.info.cur) == 0 && G_GET(e.info.save) == 0);
  XV_OBL("hms.iter.begin.frame", frame_ok(in_j) && (pre_kind[in_j] != K_LINKED || post_in[in_j]) && n_unlink == 0 && n_link == 0 && n_mark == 0 && n_illegal == 0);
  XV_OBL("hms.iter.begin.guards", g_cnt[in_j] == (int)guards_on(&it.info, in_j));
  XV_OBL("hms.iter.begin.safe", !g_unsafe);
  if (the_set.head == 0) XV_CANARY("begin.empty"); else XV_CANARY("begin.nonempty");
}

int in_gk;
void h_emplace_or_get(void) {
  build(); in_k = nondet_key(); in_gk = nondet_key(); in_j = nondet_size(); XV_ASSUME(in_j < L);
  snapshot();
  struct iter it;
  _Bool r = hms_emplace_or_get(&the_set, &it, in_k);
  _Bool wf = walk(); size_t t = pre_node_of(in_k);
  XV_OBL("hms.insert.iff_absent", r == !pre_has(in_k));
  XV_OBL("hms.insert.iff_absent", wf && post_has(in_gk) == (pre_has(in_gk) || KEY_EQ(in_gk, in_k)));
  XV_OBL("hms.insert.iff_absent", frame_ok(in_j) && n_mark == 0 && n_illegal == 0 && g_new == 1 && !g_bad_delete);
  if (r) {
    XV_OBL("hms.insert.iff_absent", post_live(L) && pool[L].key == in_k && g_pub[L] && g_alloc[L] && g_delete == 0 && n_link == 1 && last_linked == L && last_link_validated);
    XV_OBL("hms.insert.iterator", G_GET(it.info.cur) == NADDR(L) && *it.info.prev == NADDR(L));
    XV_CANARY("insert.true");
  } else {
    XV_OBL("hms.insert.iff_absent", !g_alloc[L] && !post_in[L] && g_delete == 1 && n_link == 0);
    XV_OBL("hms.insert.iterator", t != NP && G_GET(it.info.cur) == NADDR(t) && *it.info.prev == NADDR(t));
    XV_CANARY("insert.false");
  }
  XV_OBL("hms.insert.iterator", iter_inv(&it));
  XV_OBL("hms.insert.guards", g_cnt[in_j] == (int)guards_on(&it.info, in_j) && g_cnt[L] == (int)guards_on(&it.info, L));
  XV_OBL("hms.insert.safe", !g_unsafe);
  XV_OBL("hms.guard.raw_pinned", no_fake(&it.info) && n_raw_unpinned == 0);
  if (r && it.info.prev == &the_set.head) XV_CANARY("insert.at_head");
  if (r && pool[L].next == 0 && it.info.prev != &the_set.head) XV_CANARY("insert.at_tail");
  if (n_unlink) XV_CANARY("insert.helped");
}

void h_emplace(void) {
  build(); in_k = nondet_key(); in_gk = nondet_key(); in_j = nondet_size(); XV_ASSUME(in_j < L);
  snapshot();
  _Bool r = hms_emplace(&the_set, in_k);
  _Bool wf = walk();
  XV_OBL("hms.insert.iff_absent", r == !pre_has(in_k) && wf && post_has(in_gk) == (pre_has(in_gk) || KEY_EQ(in_gk, in_k)) && frame_ok(in_j));
  XV_OBL("hms.insert.iff_absent", r ? (post_live(L) && pool[L].key == in_k && g_delete == 0) : (!g_alloc[L] && g_delete == 1 && !g_bad_delete));
  XV_OBL("hms.insert.guards", no_guards(in_j) && no_guards(L));
  XV_OBL("hms.insert.safe", !g_unsafe);
  if (r) XV_CANARY("emplace.true"); else XV_CANARY("emplace.false");
}

void h_erase(void) {
  build(); in_k = nondet_key(); in_gk = nondet_key(); in_j = nondet_size(); XV_ASSUME(in_j < NP);
  snapshot();
  _Bool r = hms_erase(&the_set, in_k);
  _Bool wf = walk(); size_t t = pre_node_of(in_k);
  XV_OBL("hms.erase.iff_present", r == pre_has(in_k));
  XV_OBL("hms.erase.iff_present", wf && post_has(in_gk) == (pre_has(in_gk) && !KEY_EQ(in_gk, in_k)));
  if (r) {
    XV_OBL("hms.erase.iff_present", n_mark == 1 && last_marked == t && pool[t].next == (pre_next[t] | 1) && KEY_EQ(pool[t].key, in_k));
    XV_OBL("hms.erase.unlinked_retired", !post_in[t] && g_retired[t] == 1 && g_alloc[t]);
    XV_CANARY("erase.true");
  } else { XV_OBL("hms.erase.iff_present", n_mark == 0); XV_CANARY("erase.false"); }
  if (in_j != t) XV_OBL("hms.erase.frame", frame_ok(in_j));
  XV_OBL("hms.erase.frame", g_new == 0 && g_delete == 0 && n_link == 0 && n_illegal == 0);
  XV_OBL("hms.erase.guards", no_guards(in_j));
  XV_OBL("hms.erase.safe", !g_unsafe);
#ifdef SECOND_ERASE
  /* a second erase of the same key on the resulting state fails, marks nothing and leaves the abstract set as it is (it may help unlinking) */
  unsigned m1 = n_mark; mptr nx = pool[in_j].next; _Bool has1 = post_has(in_gk);
  _Bool r2 = hms_erase(&the_set, in_k);
  _Bool wf2 = walk();
  XV_OBL("hms.erase.second_fails", !r2 && n_mark == m1 && wf2 && post_has(in_gk) == has1 && MP_mark(pool[in_j].next) == MP_mark(nx) && g_retired[in_j] <= 1 && !g_unsafe && no_guards(in_j));
  if (r) XV_CANARY("erase.second_after_true");
#endif
  if (n_unlink >= 2) XV_CANARY("erase.helped");
}

/* ---------------- iterators: the pre-state is any (prev, save, cur) another handle can leave behind, see iter_inv */
struct iter g_it;
static void any_iter(struct iter* it, _Bool need_cur) {
  in_start = nondet_uint(); in_cur = nondet_uint();
  it->list = &the_set; it->info.next = nondet_uptr();
  give_guard(&it->info.save, in_start); give_guard(&it->info.cur, in_cur);
  if (need_cur) XV_ASSUME(in_cur != NP);
  if (in_start == NP) it->info.prev = &the_set.head; else it->info.prev = &pool[in_start].next;
  if (in_start != NP && in_cur != NP) XV_ASSUME(KEY_LESS(in_key[in_start], in_key[in_cur]));
}

void h_iter_inc(void) {
  build(); in_j = nondet_size(); XV_ASSUME(in_j < NP);
  any_iter(&g_it, 1);
  snapshot();
  size_t c0 = in_cur; hkey k0 = pre_key[c0]; _Bool c0_marked = MP_mark(pre_next[c0]) != 0;
  XV_ASSUME(iter_inv(&g_it));
  hms_iter_inc(&g_it);
  _Bool wf = walk();
  size_t nc = G_GET(g_it.info.cur) == 0 ? NP : NIDX(G_GET(g_it.info.cur));
  XV_OBL("hms.iter.inc.next_live", wf && nc == first_ge(k0, c0));
  if (c0_marked && nc != NP) XV_OBL("hms.iter.inc.next_live", post_live(nc));
  if (pre_live(in_j) && KEY_LESS(k0, pre_key[in_j])) XV_OBL("hms.iter.inc.no_skip", nc != NP && !KEY_LESS(pool[in_j].key, pool[nc].key));
  XV_OBL("hms.iter.inc.progress", nc != c0 && (nc == NP || KEY_LESS(k0, pool[nc].key) || (c0_marked && KEY_EQ(pool[nc].key, k0))));
  XV_OBL("hms.iter.inc.position", iter_inv(&g_it) && *g_it.info.prev == G_GET(g_it.info.cur));
  XV_OBL("hms.iter.inc.frame", frame_ok(in_j) && g_new == 0 && g_delete == 0 && n_link == 0 && n_mark == 0 && n_illegal == 0);
  XV_OBL("hms.iter.inc.guards", g_cnt[in_j] == (int)guards_on(&g_it.info, in_j));
  XV_OBL("hms.iter.inc.safe", !g_unsafe);
  if (!c0_marked && nc != NP) XV_CANARY("inc.fast");
  if (!c0_marked && nc != NP && !post_live(nc)) XV_CANARY("inc.fast_to_marked_successor");
  if (!c0_marked && nc == NP) XV_CANARY("inc.fast_to_end");
  if (c0_marked && in_kind[c0] == K_LINKED) XV_CANARY("inc.cur_marked_linked");
  if (c0_marked && in_kind[c0] == K_UNLINKED) XV_CANARY("inc.cur_unlinked");
  if (c0_marked && nc != NP && KEY_EQ(pool[nc].key, k0)) XV_CANARY("inc.key_reinserted");
  if (c0_marked && in_start != NP && MP_mark(pre_next[in_start])) XV_CANARY("inc.save_marked");
  if (c0_marked && in_start != NP && !MP_mark(pre_next[in_start]) && pre_next[in_start] != NADDR(c0)) XV_CANARY("inc.pred_changed");
}

void h_erase_it(void) {
  build(); in_gk = nondet_key(); in_j = nondet_size(); XV_ASSUME(in_j < NP);
  any_iter(&g_it, 1);
  snapshot();
  size_t c0 = in_cur; hkey k0 = pre_key[c0]; _Bool c0_marked = MP_mark(pre_next[c0]) != 0;
  XV_ASSUME(iter_inv(&g_it));
  struct iter pos, ret;
  IT_COPY_CTOR(&pos, g_it);                  /* erase(iterator pos) takes its argument by value */
  hms_erase_it(&the_set, &ret, pos);
  _Bool wf = walk();
  size_t nc = G_GET(ret.info.cur) == 0 ? NP : NIDX(G_GET(ret.info.cur));
  XV_OBL("hms.iter.erase.exact", wf && MP_mark(pool[c0].next) != 0 && MP_get(pool[c0].next) == MP_get(pre_next[c0]) && pool[c0].key == k0);
  XV_OBL("hms.iter.erase.exact", n_mark == (c0_marked ? 0 : 1) && (c0_marked || last_marked == c0));
  XV_OBL("hms.iter.erase.exact", post_has(in_gk) == (pre_has(in_gk) && !(pre_live(c0) && KEY_EQ(in_gk, k0))));
  XV_OBL("hms.iter.erase.unlinked_retired", !post_in[c0] && g_alloc[c0] && g_retired[c0] == (pre_kind[c0] == K_LINKED ? 1 : pre_retired[c0]));
  XV_OBL("hms.iter.erase.next", nc == first_ge(k0, c0) && iter_inv(&ret) && *ret.info.prev == G_GET(ret.info.cur));
  if (pre_live(in_j) && KEY_LESS(k0, pre_key[in_j])) XV_OBL("hms.iter.erase.next", nc != NP && !KEY_LESS(pool[in_j].key, pool[nc].key));
  if (in_j != c0) XV_OBL("hms.iter.erase.frame", frame_ok(in_j));
  XV_OBL("hms.iter.erase.frame", g_new == 0 && g_delete == 0 && n_link == 0 && n_illegal == 0);
  XV_OBL("hms.iter.erase.guards", g_cnt[in_j] == (int)(guards_on(&g_it.info, in_j) + guards_on(&ret.info, in_j)));
  XV_OBL("hms.iter.erase.safe", !g_unsafe);
  /* the successor is guarded through a raw pointer: only legitimate while it is pinned (see g_set_ptr); an unpinned one may only be dropped */
  XV_OBL("hms.guard.raw_pinned", no_fake(&ret.info) && no_fake(&g_it.info));
  if (n_raw_guard && !n_raw_unpinned && n_unlink == 1) XV_CANARY("erase_it.raw_guard_pinned");
  if (n_raw_unpinned) XV_CANARY("erase_it.raw_guard_unpinned_dropped");
  if (!c0_marked && n_unlink == 1) XV_CANARY("erase_it.direct");
  if (!c0_marked && n_unlink >= 2) XV_CANARY("erase_it.refind");
  if (c0_marked && in_kind[c0] == K_LINKED) XV_CANARY("erase_it.cur_marked_linked");
  if (in_kind[c0] == K_UNLINKED) XV_CANARY("erase_it.cur_unlinked");
  if (nc == NP) XV_CANARY("erase_it.to_end");
  if (nc != NP && !post_live(nc)) XV_CANARY("erase_it.to_marked_successor");
}

/* defaulted copy / move of an iterator = member-wise guard copy / move: both iterators are usable and independently protected */
void h_iter_copy(void) {
  build(); in_j = nondet_size(); XV_ASSUME(in_j < NP);
  any_iter(&g_it, 0);
  snapshot(); XV_ASSUME(iter_inv(&g_it));
  struct iter a, b;
  IT_COPY_CTOR(&a, g_it);
  XV_OBL("hms.iter.copy.independent", iter_inv(&a) && a.info.cur.ptr == g_it.info.cur.ptr && a.info.prev == g_it.info.prev && g_cnt[in_j] == (int)(2 * guards_on(&g_it.info, in_j)));
  IT_MOVE_CTOR(&b, a);
  XV_OBL("hms.iter.copy.independent", iter_inv(&b) && b.info.cur.ptr == g_it.info.cur.ptr && G_GET(a.info.cur) == 0 && G_GET(a.info.save) == 0 && g_cnt[in_j] == (int)(2 * guards_on(&g_it.info, in_j)));
  if (in_cur != NP) {
    /* advance the copy, then the original: the original is still dereferenceable and advances correctly from what the copy left behind */
    hms_iter_inc(&b);
    XV_OBL("hms.iter.copy.independent", !g_unsafe && g_it.info.cur.ptr == NADDR(in_cur) && g_alloc[in_cur] && g_cnt[in_cur] >= 1 && iter_inv(&g_it));
    XV_CANARY("copy.advanced");
  }
  IT_DTOR(b); IT_DTOR(a);
  XV_OBL("hms.iter.copy.independent", g_cnt[in_j] == (int)guards_on(&g_it.info, in_j));
}

/* operator++(int): the returned iterator is a full copy of the old position, *this advances as operator++ does */
void h_iter_postinc(void) {
  build(); in_j = nondet_size(); XV_ASSUME(in_j < NP);
  any_iter(&g_it, 1);
  snapshot();
  size_t c0 = in_cur; hkey k0 = pre_key[c0]; _Bool c0_marked = MP_mark(pre_next[c0]) != 0;
  XV_ASSUME(iter_inv(&g_it));
  struct iter it0 = g_it;                 /* (bit copy of the position for the comparison below; not a guard) */
  struct iter ret;
  hms_iter_postinc(&g_it, &ret);
  _Bool wf = walk();
  XV_OBL("hms.iter.postinc.copy", ret.list == it0.list && ret.info.prev == it0.info.prev && ret.info.cur.ptr == it0.info.cur.ptr && ret.info.save.ptr == it0.info.save.ptr
                                  && !ret.info.cur.fake && !ret.info.save.fake);
  XV_OBL("hms.iter.postinc.copy", g_cnt[in_j] == (int)(guards_on(&g_it.info, in_j) + guards_on(&ret.info, in_j)));     /* every guard of both iterators protects */
  size_t nc = G_GET(g_it.info.cur) == 0 ? NP : NIDX(G_GET(g_it.info.cur));
  XV_OBL("hms.iter.inc.next_live", wf && nc == first_ge(k0, c0));
  XV_OBL("hms.iter.inc.progress", nc != c0 && (nc == NP || KEY_LESS(k0, pool[nc].key) || (c0_marked && KEY_EQ(pool[nc].key, k0))));
  XV_OBL("hms.iter.inc.position", iter_inv(&g_it) && *g_it.info.prev == G_GET(g_it.info.cur));
  XV_OBL("hms.iter.inc.safe", !g_unsafe);
  /* the returned iterator stays usable: it can be advanced on its own */
  if (G_GET(ret.info.cur) != 0) { hms_iter_inc(&ret); XV_OBL("hms.iter.postinc.copy", !g_unsafe && iter_inv(&ret)); }
  IT_DTOR(ret);
  XV_OBL("hms.iter.postinc.copy", g_cnt[in_j] == (int)guards_on(&g_it.info, in_j));
  if (c0_marked) XV_CANARY("postinc.slow"); else XV_CANARY("postinc.fast");
}

/* the special member functions (defaulted: the member-wise model checked against its own contract; user-provided: the lowered body) + reset + operator== */
void h_iter_special(void) {
  build(); in_j = nondet_size(); XV_ASSUME(in_j < NP);
  any_iter(&g_it, 0);
  snapshot(); XV_ASSUME(iter_inv(&g_it));
  struct iter src0 = g_it;
  /* a second, unrelated iterator as assignment target */
  struct iter t; unsigned ts = nondet_uint(), tc = nondet_uint();
  t.list = &the_set; t.info.next = nondet_uptr(); give_guard(&t.info.save, ts); give_guard(&t.info.cur, tc);
  if (ts == NP) t.info.prev = &the_set.head; else t.info.prev = &pool[ts].next;
  if (ts != NP && tc != NP) XV_ASSUME(KEY_LESS(in_key[ts], in_key[tc]));
  XV_ASSUME(iter_inv(&t));
  int base = (int)guards_on(&g_it.info, in_j);
  XV_OBL("hms.iter.special.memberwise", g_cnt[in_j] == base + (int)guards_on(&t.info, in_j));
  XV_OBL("hms.iter.reset.releases", hms_iter_eq(&t, &g_it) == (G_GET(t.info.cur) == G_GET(g_it.info.cur)));
  _Bool which = nondet_bool();
  if (which) {
    it_copy_assign_d(&t, &g_it);
    XV_OBL("hms.iter.special.memberwise", t.list == src0.list && t.info.prev == src0.info.prev && t.info.cur.ptr == src0.info.cur.ptr && t.info.save.ptr == src0.info.save.ptr && iter_inv(&t));
    XV_OBL("hms.iter.special.memberwise", g_it.list == src0.list && g_it.info.prev == src0.info.prev && g_it.info.cur.ptr == src0.info.cur.ptr && g_it.info.save.ptr == src0.info.save.ptr);
    XV_OBL("hms.iter.special.memberwise", g_cnt[in_j] == 2 * base);
    it_copy_assign_d(&t, &t);            /* self-assignment */
    XV_OBL("hms.iter.special.memberwise", t.info.cur.ptr == src0.info.cur.ptr && t.info.save.ptr == src0.info.save.ptr && t.info.prev == src0.info.prev && g_cnt[in_j] == 2 * base);
    XV_CANARY("special.copy_assign");
  } else {
    it_move_assign_d(&t, &g_it);
    XV_OBL("hms.iter.special.memberwise", t.list == src0.list && t.info.prev == src0.info.prev && t.info.cur.ptr == src0.info.cur.ptr && t.info.save.ptr == src0.info.save.ptr && iter_inv(&t));
    XV_OBL("hms.iter.special.memberwise", g_cnt[in_j] == base + (int)guards_on(&g_it.info, in_j) && !g_it.info.cur.fake && !g_it.info.save.fake);   /* whatever the source keeps is still protected */
    XV_OBL("hms.iter.special.memberwise", g_cnt[in_j] == (int)guards_on(&t.info, in_j) + (int)guards_on(&g_it.info, in_j));
    XV_CANARY("special.move_assign");
  }
  hms_iter_reset(&t);
  XV_OBL("hms.iter.reset.releases", G_GET(t.info.cur) == 0 && G_GET(t.info.save) == 0 && t.list == &the_set && g_cnt[in_j] == (int)guards_on(&g_it.info, in_j));
  { struct iter e; hms_end(&the_set, &e); XV_OBL("hms.iter.reset.releases", hms_iter_eq(&t, &e)); IT_DTOR(e); }
  XV_OBL("hms.iter.special.memberwise", !g_unsafe);
}


/* ================================================================== INT harnesses */
#ifdef XV_INT
static void pick_marked_ghost(void) {
  in_m = nondet_size(); XV_ASSUME(in_m < NP);
  m_marked = g_alloc[in_m] && g_pub[in_m] && MP_mark(pool[in_m].next) != 0; m_gen = g_gen[in_m];
}
#endif

/* find on its real text, any interference: proves the INT contract (find_ensures) that the callers' runs assume */
void h_find_int(void) {
#ifdef XV_INT
  int_init(); in_k = nondet_key();
  struct find_info info; int bo = 0;
  int_info(&info, in_k); pick_marked_ghost();
  env_on = 1;
  _Bool r = hms_find_cut(&the_set, in_k, &info, &bo);
  env_on = 0;
  XV_OBL("hms.find.ensures_int", find_ensures(&info, in_k, r));
  XV_OBL("hms.find.commit", int_common() && n_link == 0 && n_mark == 0 && g_new == 0 && g_delete == 0);
  XV_OBL("hms.find.guards", g_cnt[in_j] == (int)guards_on(&info, in_j));
  XV_OBL("hms.find.safe", !g_unsafe);
  if (r) XV_CANARY("find_int.true");
  if (!r && G_GET(info.cur) == 0) XV_CANARY("find_int.false_end");
  if (!r && G_GET(info.cur) != 0) XV_CANARY("find_int.false_greater");
#endif
}

void h_emplace_int(void) {
#ifdef XV_INT
  int_init(); in_k = nondet_key(); pick_marked_ghost();
  struct iter it;
  env_on = 1;
  _Bool r = hms_emplace_or_get_i(&the_set, &it, in_k);
  env_on = 0;
  size_t c = NIDX(G_GET(it.info.cur));
  XV_OBL("hms.insert.commit", int_common() && n_mark == 0 && g_new == 1);
  /* true iff this operation linked its node, by a legal LINK step (key absent at that instant) whose expected value is the one find validated */
  XV_OBL("hms.insert.expected_protected", last_link_expected_protected && all_unlink_expected_protected);
  if (r) XV_OBL("hms.insert.commit", n_link == 1 && last_linked == L && last_link_validated && g_delete == 0 && g_alloc[L] && g_pub[L] && pool[L].key == in_k && G_GET(it.info.cur) == NADDR(L));
  else XV_OBL("hms.insert.commit", n_link == 0 && g_delete == 1 && !g_alloc[L] && G_GET(it.info.cur) != 0 && c < NP && g_alloc[c] && KEY_EQ(pool[c].key, in_k));
  XV_OBL("hms.insert.iterator", fi_ok(&it.info, in_k) && it.list == &the_set);
  XV_OBL("hms.insert.guards", g_cnt[in_j] == (int)guards_on(&it.info, in_j));
  XV_OBL("hms.insert.safe", !g_unsafe);
  XV_OBL("hms.guard.raw_pinned", no_fake(&it.info) && n_raw_unpinned == 0);
  if (r) XV_CANARY("insert_int.true"); else XV_CANARY("insert_int.false");
#endif
}

void h_erase_int(void) {
#ifdef XV_INT
  int_init(); in_k = nondet_key(); pick_marked_ghost();
  env_on = 1;
  _Bool r = hms_erase_i(&the_set, in_k);
  env_on = 0;
  XV_OBL("hms.erase.commit", int_common() && n_link == 0 && g_new == 0 && g_delete == 0);
  /* success iff this operation's own mark CAS succeeded, on a node with that key, expecting the value it read last from that cell */
  XV_OBL("hms.erase.commit", r ? (n_mark == 1 && KEY_EQ(last_marked_key, in_k) && last_mark_was_read) : n_mark == 0);
  /* on return the marked node has been spliced out and retired, by this operation or by a helper */
  if (r && g_gen[last_marked] == last_marked_gen) XV_OBL("hms.erase.unlinked_retired", !g_linked[last_marked] && (!g_alloc[last_marked] || g_retired[last_marked] == 1));
  XV_OBL("hms.erase.guards", g_cnt[in_j] == 0);
  XV_OBL("hms.erase.safe", !g_unsafe);
  if (r && n_unlink == 0) XV_CANARY("erase_int.unlinked_by_helper");
  if (r && n_unlink == 1) XV_CANARY("erase_int.unlinked_self");
  if (!r) XV_CANARY("erase_int.false");
#endif
}

void h_erase_it_int(void) {
#ifdef XV_INT
  int_init();
  in_cur = nondet_uint(); XV_ASSUME(in_cur < NP && g_alloc[in_cur] && g_pub[in_cur]);
  hkey k0 = pool[in_cur].key; size_t c0 = in_cur; unsigned char gen0 = g_gen[c0]; _Bool was_marked = MP_mark(pool[c0].next) != 0; _Bool was_linked = g_linked[c0];
  g_it.list = &the_set; g_it.info.next = nondet_uptr();
  in_start = nondet_uint(); int_guard(&g_it.info.save, in_start); int_guard(&g_it.info.cur, in_cur);
  g_it.info.prev = in_start == NP ? &the_set.head : &pool[in_start].next;
  XV_ASSUME(fi_ok(&g_it.info, k0));
  pick_marked_ghost();
  struct iter pos, ret; IT_COPY_CTOR(&pos, g_it);
  env_on = 1;
  hms_erase_it_i(&the_set, &ret, pos);
  env_on = 0;
  size_t nc = G_GET(ret.info.cur) == 0 ? NP : NIDX(G_GET(ret.info.cur));
  XV_OBL("hms.erase.commit", int_common() && n_link == 0 && g_new == 0 && g_delete == 0);
  XV_OBL("hms.iter.erase.exact", n_mark <= 1 && (n_mark == 0 || (last_marked == c0 && last_mark_was_read)) && (n_mark == 1 || was_marked || 1) &&
         g_alloc[c0] && g_gen[c0] == gen0 && MP_mark(pool[c0].next) != 0 && pool[c0].key == k0);
  XV_OBL("hms.iter.erase.unlinked_retired", !g_linked[c0] && (!was_linked || g_retired[c0] == 1));
  XV_OBL("hms.iter.erase.next", ret.list == &the_set && nc != c0 && (nc == NP || (guard_ok(&ret.info.cur) && !KEY_LESS(pool[nc].key, k0))));
  XV_OBL("hms.iter.erase.guards", g_cnt[in_j] == (int)(guards_on(&g_it.info, in_j) + guards_on(&ret.info, in_j)));
  XV_OBL("hms.iter.erase.safe", !g_unsafe);
  XV_OBL("hms.guard.raw_pinned", no_fake(&ret.info) && no_fake(&g_it.info));
  if (n_raw_guard && !n_raw_unpinned && n_unlink == 1) XV_CANARY("erase_it_int.raw_guard_pinned");
  if (n_mark == 1 && n_unlink == 1) XV_CANARY("erase_it_int.direct");
  if (n_mark == 1 && n_unlink == 0) XV_CANARY("erase_it_int.refind");
  if (n_mark == 0) XV_CANARY("erase_it_int.marked_by_other");
#endif
}

void h_iter_inc_int(void) {
#ifdef XV_INT
  int_init();
  in_cur = nondet_uint(); XV_ASSUME(in_cur < NP && g_alloc[in_cur] && g_pub[in_cur]);
  hkey k0 = pool[in_cur].key; size_t c0 = in_cur; unsigned char gen0 = g_gen[c0];
  g_it.list = &the_set; g_it.info.next = nondet_uptr();
  in_start = nondet_uint(); int_guard(&g_it.info.save, in_start); int_guard(&g_it.info.cur, in_cur);
  g_it.info.prev = in_start == NP ? &the_set.head : &pool[in_start].next;
  XV_ASSUME(fi_ok(&g_it.info, k0));
  pick_marked_ghost(); inc_c0 = c0; inc_gen0 = gen0;
  env_on = 1;
  hms_iter_inc_i(&g_it);
  env_on = 0;
  size_t nc = G_GET(g_it.info.cur) == 0 ? NP : NIDX(G_GET(g_it.info.cur));
  /* no key is yielded twice unless re-inserted: the iterator leaves the node it stood on (same memory is fine only if it was freed and re-used) */
  XV_OBL("hms.iter.inc.progress", nc != c0 || g_gen[c0] != gen0);
  XV_OBL("hms.iter.inc.progress", nc == NP || (guard_ok(&g_it.info.cur) && !KEY_LESS(pool[nc].key, k0)));
  XV_OBL("hms.iter.inc.position", g_it.list == &the_set && (nc == NP ? guard_ok(&g_it.info.save) : fi_ok(&g_it.info, pool[nc].key)));
  XV_OBL("hms.find.commit", int_common() && n_link == 0 && n_mark == 0 && g_new == 0);
  XV_OBL("hms.iter.inc.guards", g_cnt[in_j] == (int)guards_on(&g_it.info, in_j));
  XV_OBL("hms.iter.inc.safe", !g_unsafe);
  if (nc != NP && aie_cell == &pool[c0].next) XV_CANARY("inc_int.fast");
  if (nc != NP && aie_cell != &pool[c0].next) XV_CANARY("inc_int.slow");
  if (nc == NP) XV_CANARY("inc_int.end");
#endif
}
