// native replay for the SEQ obligations of unit hms: builds the list state cbmc found (in_kind/in_key/in_mark/in_unext, iterator
// position in_start/in_cur) on the REAL harris_michael_list_based_set (epoch_based reclaimer), runs the real operation named by
// op=<find|contains|find_key|emplace|erase|inc|erase_it> and checks the sequential specification against a std::set of the live keys.
// exit 0: property holds on this input, 1: violation reproduced, 2: the state cannot be represented natively.
#include <xenium/harris_michael_list_based_set.hpp>
#include <xenium/reclamation/generic_epoch_based.hpp>
#include <cstdio>
#include <cstdlib>
#include <cstring>
#include <map>
#include <set>
#include <string>
#include <vector>
using set_t = xenium::harris_michael_list_based_set<int, xenium::policy::reclaimer<xenium::reclamation::epoch_based<>>>;
using node = set_t::node; using mptr = set_t::marked_ptr; using guard = set_t::guard_ptr;
static std::map<std::string, long long> scalar; static std::map<std::string, std::map<int, long long>> arr; static std::string op = "contains";
enum { K_FREE = 0, K_LINKED = 1, K_UNLINKED = 2 };
static int fail(const char* what) { printf("VIOLATION: %s\n", what); return 1; }

int main(int argc, char** argv) {
  for (int i = 1; i < argc; ++i) {
    char* eq = strchr(argv[i], '='); if (!eq) continue;
    std::string k(argv[i], eq - argv[i]), v(eq + 1);
    if (k == "op") { op = v; continue; }
    long long val = (v == "TRUE") ? 1 : (v == "FALSE") ? 0 : strtoll(v.c_str(), nullptr, 0);
    size_t b = k.find('[');
    if (b == std::string::npos) scalar[k] = val; else arr[k.substr(0, b)][atoi(k.c_str() + b + 1)] = val;
  }
  int L = 0; for (auto& e : arr["in_kind"]) if (e.first + 1 > L) L = e.first + 1;
  const int NP = L + 1;
  auto A = [&](const char* n, int i) -> long long { auto& m = arr[n]; auto it = m.find(i); return it == m.end() ? 0 : it->second; };
  set_t s;
  std::vector<node*> nd(NP, nullptr);
  std::set<int> live; std::vector<int> linked_keys;
  node* nxt = nullptr;
  for (int i = L - 1; i >= 0; --i) if (A("in_kind", i) == K_LINKED) {
    nd[i] = new node((int)A("in_key", i)); nd[i]->next.store(mptr(nxt, A("in_mark", i) ? 1 : 0)); nxt = nd[i];
    if (!A("in_mark", i)) live.insert((int)A("in_key", i));
  }
  s.head.store(mptr(nxt));
  node* dangling = new node(0); delete dangling;      // stands for freed memory a frozen next field may still point to
  for (int i = 0; i < L; ++i) if (A("in_kind", i) == K_UNLINKED) nd[i] = new node((int)A("in_key", i));
  for (int i = 0; i < L; ++i) if (A("in_kind", i) == K_UNLINKED) {
    int t = (int)A("in_unext", i); node* tp = t >= NP ? nullptr : (t < L && nd[t]) ? nd[t] : dangling;
    nd[i]->next.store(mptr(tp, 1));
  }
  printf("op=%s L=%d list:", op.c_str(), L);
  for (int i = 0; i < L; ++i) if (A("in_kind", i) == K_LINKED) printf(" %lld%s", A("in_key", i), A("in_mark", i) ? "(marked)" : "");
  printf("\n");
  auto walk_check = [&](std::set<int>& out) -> bool {     // strictly sorted chain, collect unmarked keys
    bool have = false; int last = 0; int steps = 0;
    for (node* p = s.head.load().get(); p; p = p->next.load().get()) {
      if (have && !(last < p->key)) return false;
      last = p->key; have = true; if (p->next.load().mark() == 0) out.insert(p->key);
      if (++steps > 100) return false;
    }
    return true;
  };
  auto first_ge = [&](int k, node* except) -> node* { for (node* p = s.head.load().get(); p; p = p->next.load().get()) if (p != except && !(p->key < k)) return p; return nullptr; };
  int k = (int)scalar["in_k"];
  int start = scalar.count("in_start") ? (int)scalar["in_start"] : NP, cur = scalar.count("in_cur") ? (int)scalar["in_cur"] : NP;
  auto guard_of = [&](int idx) -> guard { return (idx >= NP || idx < 0 || !nd[idx]) ? guard() : guard(mptr(nd[idx])); };
  int rc = 0;
  {
    if (op == "contains" || op == "find_key") {
      bool r = op == "contains" ? s.contains(k) : (s.find(k) != s.end());
      printf("%s(%d) = %d, expected %d\n", op.c_str(), k, r, (int)live.count(k));
      if (r != (live.count(k) != 0)) rc = fail("lookup result differs from the set of live keys");
    } else if (op == "find") {
      if (start < NP && !nd[start]) return 2;
      set_t::find_info info{start >= NP ? &s.head : &nd[start]->next}; info.save = guard_of(start); info.cur = guard_of(cur);
      set_t::backoff bo;
      bool r = s.find(k, info, bo);
      printf("find(%d) from %s = %d, expected %d\n", k, start >= NP ? "head" : "save", r, (int)live.count(k));
      if (r != (live.count(k) != 0)) rc = fail("find result differs from the set of live keys");
      if (info.prev->load() != mptr(info.cur.get())) rc = fail("*info.prev != info.cur after find");
      if (info.cur.get() != first_ge(k, nullptr)) rc = fail("info.cur is not the first node with key >= key");
    } else if (op == "emplace") {
      bool r = s.emplace(k);
      printf("emplace(%d) = %d, expected %d\n", k, r, (int)!live.count(k));
      if (r != !live.count(k)) rc = fail("emplace result differs from 'key was absent'");
      std::set<int> now, want = live; want.insert(k);
      if (!walk_check(now)) rc = fail("list not strictly sorted after emplace");
      if (now != want) rc = fail("live keys after emplace are not old keys + key");
    } else if (op == "erase") {
      bool r = s.erase(k);
      printf("erase(%d) = %d, expected %d\n", k, r, (int)live.count(k));
      if (r != (live.count(k) != 0)) rc = fail("erase result differs from 'key was present'");
      std::set<int> now, want = live; want.erase(k);
      if (!walk_check(now)) rc = fail("list not strictly sorted after erase");
      if (now != want) rc = fail("live keys after erase are not old keys - key");
      if (s.erase(k)) rc = fail("second erase of the same key succeeded");
    } else if (op == "inc" || op == "erase_it") {
      if (cur >= NP || !nd[cur] || (start < NP && !nd[start])) return 2;
      set_t::iterator it = s.end();
      it.info.prev = start >= NP ? &s.head : &nd[start]->next; it.info.save = guard_of(start); it.info.cur = guard_of(cur);
      node* c0 = nd[cur]; int k0 = c0->key; bool c0_live = A("in_kind", cur) == K_LINKED && !A("in_mark", cur);
      set_t::iterator res = s.end();
      if (op == "inc") { ++it; res = it; } else res = s.erase(it);
      node* nc = res.info.cur.get();
      printf("%s at key %d (%s): now at %s", op.c_str(), k0, c0_live ? "live" : "erased by another handle", nc ? "" : "end\n"); if (nc) printf("%d\n", nc->key);
      if (nc == c0) rc = fail("the iterator is still at / returned the same node");
      if (nc && nc->key < k0) rc = fail("the iterator moved backwards");
      if (nc != first_ge(k0, c0)) rc = fail("not at the first following element of the list");
      for (int lk : live) if (lk > k0 && (!nc || nc->key > lk)) rc = fail("a live element was skipped");
      std::set<int> now, want = live; if (op == "erase_it") want.erase(k0);
      if (!walk_check(now)) rc = fail("list not strictly sorted afterwards");
      if (now != want) rc = fail("set of live keys changed unexpectedly");
      if (op == "erase_it" && c0->next.load().mark() == 0) rc = fail("the referenced node is not marked");
    } else { printf("unknown op\n"); return 2; }
  }
  if (rc == 0) printf("property holds on this input\n");
  fflush(stdout);
  _Exit(rc);  // skip destructors: hand-built unlinked nodes are not owned by the container
}
