// F11 (C09): harris_michael_list_based_set::iterator::operator++ yields the element it stands on a second time.
//
// operator++ reads cur->next twice: a relaxed load (`next`), then guard_ptr::acquire_if_equal(cur->next, next).  When the second
// read differs although cur is NOT marked - another handle inserted (or erased) right behind cur in between - the code takes the
// "cur is marked for removal" path and calls find(cur->key), which finds cur itself again.  The traversal of {10,20,30} with an
// insert of 15 at that point yields 10 10 15 20 30: "no key is yielded twice unless re-inserted" is violated.
//
// The schedule is made deterministic by a hook between the two reads (units/hms/hook_f11.diff: std::function xv_hook_hms_inc, called
// once, compiled in with -DMPOETER_XENIUM_VERIF), so a single thread suffices:
//   g++ -std=c++17 -fno-access-control -DMPOETER_XENIUM_VERIF -I <tree with the hook> native_f11.cpp -pthread && ./a.out
// exit 0: every key yielded once (property holds), 1: a key was yielded twice, 2: hook not compiled in / not reached
#include <xenium/harris_michael_list_based_set.hpp>
#include <xenium/reclamation/generic_epoch_based.hpp>
#include <cstdio>
#include <vector>
int main() {
#ifndef XENIUM_VERIF_HOOK_HMS_INC
  printf("the hook between the two reads of cur->next in operator++ is not compiled in (units/hms/hook_f11.diff, -DMPOETER_XENIUM_VERIF)\n");
  return 2;
#else
  using set_t = xenium::harris_michael_list_based_set<int, xenium::policy::reclaimer<xenium::reclamation::epoch_based<>>>;
  for (int variant = 0; variant < 2; ++variant) {
    set_t s;
    for (int k : {10, 20, 30}) s.emplace(k);
    std::vector<int> yielded;
    auto it = s.begin();
    yielded.push_back(*it);
    bool hook_ran = false;
    // "another handle" acts while ++ is between its load of cur->next and acquire_if_equal:
    if (variant == 0) xenium::xv_hook_hms_inc = [&] { hook_ran = true; s.emplace(15); };   // insert right behind the current element
    else              xenium::xv_hook_hms_inc = [&] { hook_ran = true; s.erase(20); };     // erase the successor
    ++it;
    if (!hook_ran) { printf("hook not reached\n"); return 2; }
    for (; it != s.end(); ++it) yielded.push_back(*it);
    printf("variant %d (%s while ++ stands on 10): yielded", variant, variant == 0 ? "emplace(15)" : "erase(20)");
    for (int k : yielded) printf(" %d", k);
    printf("\n");
    for (size_t i = 1; i < yielded.size(); ++i)
      if (yielded[i] <= yielded[i - 1]) { printf("  -> key %d yielded again although it was neither erased nor re-inserted\n", yielded[i]); return 1; }
  }
  printf("every key yielded once\n");
  return 0;
#endif
}
