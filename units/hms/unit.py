import re, os
F = 'xenium/harris_michael_list_based_set.hpp'
def _inc_has_loop():
    # operator++ before the F11 repair has no loop; the repaired text retries the fast path in a while loop, which the INT variant must cut.
    # The unit follows the text it finds (the extraction itself stays mechanical and must-fire counted for either shape).
    try:
        from xvlib import lower as _L, engine as _E
        src = _L.strip_comments(_L.read_source(os.path.join(_E.REPO, F)))
        f = _L.extract_function(src, r'iterator::operator\+\+\(\) -> iterator&')
        return bool(re.search(r'\b(while|for)\b', f['body']))
    except Exception:
        return False
INC_LOOP = _inc_has_loop()
P = r'harris_michael_list_based_set<Key, Policies\.\.\.>::'

# ---------------------------------------------------------------------------------------------------------------
# unit-local mechanical rules (applied to the text extracted from /repo on every run)
#
# guard_ptr is a class with value semantics (copy/move constructors and assignment, destructor, conversions).
# C has none of these, so every such *implicit* operation is made an explicit call of a guard contract stub:
#   guard_ptr X = Y;            -> struct guard X; G_INIT(X); G_COPY(X, Y);
#   guard_ptr X;                -> struct guard X; G_INIT(X);
#   guard_ptr X(e);             -> struct guard X; G_INIT(X); G_SET_PTR(X, e);   (raw-pointer constructor: precondition `pinned`, see harness.c)
#   A = guard_ptr(e);           -> G_ASSIGN_PTR(A, e);    (temporary built from a raw pointer, move-assigned, destroyed)
#   cell.compare_exchange_*(x, A, ..) -> ..(x, G_MP(A), ..)   (guard passed where a marked_ptr is expected)
#   A = std::move(B);           -> G_MOVE(A, B);          (A, B guard lvalues named in spec['guards'])
#   A = B;                      -> G_COPY(A, B);
#   std::swap(A, B);            -> G_SWAP(A, B);
#   !A                          -> !G_BOOL(A)
#   A == nullptr                -> (G_GET(A) == 0)
#   marked_ptr x = A;           -> mptr x = G_MP(A);      (operator MarkedPtr())
#   marked_ptr x = e;           -> mptr x = e;
#   find_info info{&head};      -> struct find_info info; FI_INIT(info, &head);
#   backoff backoff; / backoff(); -> int backoff = 0; / XV_BACKOFF();
# destructors: for every local `struct guard X;` / `struct find_info X;` / `struct iter X;` the destructor stub is called at
# the end of the enclosing block and before every return inside it (rule `dtors`, applied in the py_pre stage after the function's
# own pre_subst, i.e. before the generic rules and before loops are cut).
# ---------------------------------------------------------------------------------------------------------------
def guard_rules(s, lw):
    g = lw.spec.get('guards', [])
    alt = '|'.join(re.escape(x) for x in sorted(g, key=len, reverse=True)) or r'(?!x)x'
    def sub(pat, rep, name):
        nonlocal s
        s, n = re.subn(pat, rep, s)
        if n: lw.fire('guard:' + name, n)
    sub(r'\bguard_ptr\s+(\w+)\s*=\s*([^;]+);', r'struct guard \1; G_INIT(\1); G_COPY(\1, \2);', 'copy_ctor')
    sub(r'\bguard_ptr\s+(\w+)\s*;', r'struct guard \1; G_INIT(\1);', 'default_ctor')
    sub(r'\bguard_ptr\s+(\w+)\(([^;]*)\);', r'struct guard \1; G_INIT(\1); G_SET_PTR(\1, \2);', 'rawptr:ctor')
    sub(r'(?<![\w.>])(%s)\s*=\s*guard_ptr\(([^;]*)\)\s*;' % alt, r'G_ASSIGN_PTR(\1, \2);', 'rawptr:assign')
    sub(r'(\bcompare_exchange_(?:weak|strong)\(\s*[\w.]+\s*,\s*)(%s)(\s*,)' % alt, r'\1G_MP(\2)\3', 'cas_guard_arg')
    sub(r'(?<![\w.>])(%s)\s*=\s*std::move\((%s)\)\s*;' % (alt, alt), r'G_MOVE(\1, \2);', 'move_assign')
    sub(r'(?<![\w.>])(%s)\s*=\s*(%s)\s*;' % (alt, alt), r'G_COPY(\1, \2);', 'copy_assign')
    sub(r'\bstd::swap\((%s),\s*(%s)\)\s*;' % (alt, alt), r'G_SWAP(\1, \2);', 'swap')
    sub(r'!\s*(%s)\b(?!\s*(\.|->))' % alt, r'!G_BOOL(\1)', 'bool')
    sub(r'(?<![\w.>])(%s)\s*==\s*nullptr' % alt, r'(G_GET(\1) == 0)', 'is_null')
    sub(r'\bmarked_ptr\s+(\w+)\s*=\s*(%s)\s*;' % alt, r'mptr \1 = G_MP(\2);', 'to_marked_ptr')
    sub(r'\bmarked_ptr\s+(\w+)\s*=', r'mptr \1 =', 'marked_ptr_decl')
    sub(r'\bfind_info\s+(\w+)\{([^{};]*)\}\s*;', r'struct find_info \1; FI_INIT(\1, \2);', 'find_info_ctor')
    # find_info / iterator objects with value semantics (user-provided special members, operator++(int))
    sub(r'\bfind_info\s+(\w+)\(std::move\(([\w.]+)\)\)\s*;', r'struct find_info \1; FI_MOVE_CTOR(\1, \2);', 'find_info_move_ctor')
    sub(r'\bfind_info\s+(\w+)(?:\(([\w.]+)\)|\s*=\s*([\w.]+))\s*;', lambda m: 'struct find_info %s; FI_COPY_CTOR(%s, %s);' % (m.group(1), m.group(1), m.group(2) or m.group(3)), 'find_info_copy_ctor')
    sub(r'(?<![\w.>])((?:\w+\.)?info)\s*=\s*std::move\(([\w.]+)\)\s*;', r'FI_MOVE_ASSIGN(\1, \2);', 'find_info_move_assign')
    sub(r'(?<![\w.>])((?:\w+\.)?info)\s*=\s*((?:\w+\.)?info|\w+)\s*;', r'FI_COPY_ASSIGN(\1, \2);', 'find_info_copy_assign')
    sub(r'\biterator\s+(\w+)\s*=\s*\*this\s*;', r'struct iter \1; IT_COPY_CTOR(&\1, (*self));', 'iter_copy_this')
    sub(r'\biterator\s+(\w+)\(\*this\)\s*;', r'struct iter \1; IT_COPY_CTOR(&\1, (*self));', 'iter_copy_this')
    sub(r'\biterator\s+(\w+)\(\*list,\s*([^;]+)\)\s*;', r'struct iter \1; IT_CONSTRUCT(&\1, list, \2);', 'iter_local_ctor')
    sub(r'\+\+\(\*this\)\s*;|\boperator\+\+\(\)\s*;|\+\+\*this\s*;', r'IT_INC(self);', 'pre_inc_this')
    sub(r'\bbackoff\s+backoff\s*;', r'int backoff = 0;', 'backoff_decl')
    sub(r'(?<![\w.>])backoff\(\)\s*;', r'XV_BACKOFF();', 'backoff_call')
    sub(r'\bconcurrent_ptr\s*\*', r'mptr*', 'concurrent_ptr')
    sub(r'\bcompare\s+compare\s*;', r'', 'compare_decl')
    return s

DTOR = {'guard': 'G_DTOR', 'find_info': 'FI_DTOR', 'iter': 'IT_DTOR'}
def dtors(s, lw):
    """explicit destructor calls for block-scope objects of class type"""
    rt = lw.spec.get('ret_type')           # None: void
    decl = re.compile(r'\bstruct (guard|find_info|iter) (\w+);')
    # process declarations from the last to the first so that positions stay valid; objects are destroyed in reverse order
    ms = list(decl.finditer(s))
    for m in reversed(ms):
        call = '%s(%s);' % (DTOR[m.group(1)], m.group(2))
        # enclosing block: scan forward from the declaration for the unmatched '}'
        d = 0; i = m.end()
        while i < len(s):
            if s[i] == '{': d += 1
            elif s[i] == '}':
                if d == 0: break
                d -= 1
            i += 1
        inner = s[m.end():i]
        def ret(mm):
            e = mm.group(1).strip()
            lw.fire('dtor_at_return')
            if not e: return '{ %s return; }' % call
            if e == 'xv_rv': return '{ %s return xv_rv; }' % call
            return '{ %s xv_rv = (%s); %s return xv_rv; }' % (rt, e, call)
        inner = re.sub(r'\breturn\b([^;]*);', ret, inner)
        s = s[:m.end()] + inner + ' ' + call + '\n' + s[i:]
        lw.fire('dtor')
    return s

def pre_rules(s, lw):
    """py_pre stage: guard value semantics made explicit, then the function's own pre_subst (so that by-value results are already
    out-parameter writes), then destructor calls; all before the generic rules and before loops are cut"""
    s = guard_rules(s, lw)
    s = lw.subst(s, 'pre_subst')
    return dtors(s, lw)

def xassert_rule(s, lw):
    # assert() is compiled out in release builds and never dereferences for the algorithm: address computations inside
    # XV_XASSERT(...) use the unchecked address macro
    out = []; i = 0
    while True:
        k = s.find('XV_XASSERT(', i)
        if k < 0: out.append(s[i:]); break
        p = s.index('(', k); d = 0; e = p
        while True:
            if s[e] == '(': d += 1
            elif s[e] == ')':
                d -= 1
                if d == 0: break
            e += 1
        out.append(s[i:k]); out.append(re.sub(r'\b[GN]DEREF\(', 'NOCHK_DEREF(', s[k:e + 1])); i = e + 1
    return ''.join(out)

def FIND_SEQ(l):
    # SEQ: the start can be marked once (restart from head), no other retry is possible, the walk visits <= L nodes + end
    return ['hms_find.0:2', 'hms_find.1:1', 'hms_find.2:1', 'hms_find.3:1', 'hms_find.4:%d' % (l + 2)]

def retry_cut(s, lw):
    """INT variant of find: the label `retry` is a second cut point (arrival from the function entry = base case, every `goto retry` = step case)"""
    s = xassert_rule(s, lw)
    s, n = re.subn(r'\bgoto retry;', '{ XV_LOOP_STEP(RETRY); XV_CUT_END(); }', s)
    lw.fire('retry_goto', n)
    s, n = re.subn(r'(?m)^retry:', 'retry: ; XV_LOOP_BASE(RETRY); XV_LOOP_HAVOC(RETRY); XV_LOOP_ASSUME(RETRY);', s)
    lw.fire('retry_label', n)
    return s

COMMON = dict(py_pre=pre_rules, py_post=xassert_rule,
              methods={'mark': {'info.cur': 'G_MARK', 'pos.info.cur': 'G_MARK', '*': 'MP_mark'},
                       'get': {'info.cur': 'G_GET', 'info.save': 'G_GET', 'pos.info.cur': 'G_GET', 'other.info.cur': 'G_GET', '*': 'MP_get'},
                       'reset': 'G_RESET', 'reclaim': 'G_RECLAIM', 'acquire': 'G_ACQUIRE', 'acquire_if_equal': 'G_ACQUIRE_IF_EQUAL',
                       'find': 'IT_FIND'},
              calls={'marked_ptr': 'MP_make', 'compare': 'KEY_LESS'},
              deref={'info.cur': 'GDEREF', 'info.save': 'GDEREF', 'pos.info.cur': 'GDEREF', 'n': 'NDEREF'},
              self_calls={'find': 'HMS_FIND'})
RET_IT_INFO = (r'return \{iterator\(\*this, std::move\(info\)\), (\w+)\};', r'{ IT_FROM_INFO(ret, self, info); return \1; }', 'ret_pair')

def _runs():
    out = []
    INC = ['hms_iter_inc.0:1'] if INC_LOOP else []
    def seq(l, tiers, sfx):
        note = 'any well-formed list of <= %d ever-inserted nodes (+1 slot for operator new), symbolic keys, arbitrary delete marks, unlinked marked nodes; all loops unwound completely (unwinding assertions on)' % l
        base = dict(cls='shape-complete', defs={'L': l}, unwind=l + 3, tiers=tiers, note=note)
        F_ = FIND_SEQ(l)
        out.extend([
          dict(base, id='find' + sfx, entry='h_find', unwindset=F_),
          dict(base, id='contains' + sfx, entry='h_contains', unwindset=F_),
          dict(base, id='find_key' + sfx, entry='h_find_key', unwindset=F_),
          dict(base, id='begin' + sfx, entry='h_begin'),
          dict(base, id='emplace_or_get' + sfx, entry='h_emplace_or_get', unwindset=F_ + ['hms_emplace_or_get.0:1']),
          dict(base, id='emplace' + sfx, entry='h_emplace', unwindset=F_ + ['hms_emplace_or_get.0:1']),
          dict(base, id='erase' + sfx, entry='h_erase', unwindset=F_ + ['hms_erase.0:1']),
          dict(base, id='erase_twice' + sfx, entry='h_erase', unwindset=FIND_SEQ(max(l - 1, 2)) + ['hms_erase.0:1'], unwind=max(l - 1, 2) + 3, defs={'L': max(l - 1, 2), 'SECOND_ERASE': 1}),
          dict(base, id='erase_it' + sfx, entry='h_erase_it', unwindset=F_ + ['hms_erase_it.0:2']),
          dict(base, id='iter_inc' + sfx, entry='h_iter_inc', unwindset=F_ + INC),
          dict(base, id='iter_copy' + sfx, entry='h_iter_copy', unwindset=F_ + INC),
          dict(base, id='iter_postinc' + sfx, entry='h_iter_postinc', unwindset=F_ + INC),
          dict(base, id='iter_special' + sfx, entry='h_iter_special'),
        ])
    def inter(l, tiers, sfx):
        base = dict(mode='INT', cls='shape-complete', defs={'L': l}, unwind=l + 3, tiers=tiers)
        n1 = 'unbounded interference: before every atomic access other threads take any number of legal steps (env.h); every retry loop is cut by an invariant; L only bounds the list the invariant checker walks'
        n2 = n1 + '; find replaced by its INT contract (find_ensures, proved on the real text by run find_int)'
        out.extend([
          dict(base, id='find_int' + sfx, entry='h_find_int', note=n1 + '; cut points RETRY (label) and FINDLOOP (for loop)'),
          dict(base, id='emplace_int' + sfx, entry='h_emplace_int', note=n2 + '; cut point EMPL'),
          dict(base, id='erase_int' + sfx, entry='h_erase_int', note=n2 + '; cut point ERASE'),
          dict(base, id='erase_it_int' + sfx, entry='h_erase_it_int', note=n2 + '; cut point ERIT'),
          dict(base, id='iter_inc_int' + sfx, entry='h_iter_inc_int', note=n2 + ('; cut point INC' if INC_LOOP else '')),
        ])
    seq(3, ['quick'], ''); inter(3, ['quick', 'thorough'], '')
    seq(5, ['thorough'], '_L5'); inter(5, ['thorough'], '_L5')
    return out
RUNS = _runs()

UNIT = dict(
  title='harris_michael_list_based_set: find / contains / emplace(_or_get) / erase(key) / erase(iterator) / iterator ++, begin, end (C08, C09)',
  properties=['C08', 'C09'],
  drops='templates (Key = int with symbolic values, compare = std::less -> KEY_LESS, backoff = no-op); node addresses are words (index+1)<<4 into a pool of L+1 nodes, '
        'marked_ptr = that word | delete mark in bit 0 (marked_ptr algebra: unit mp); concurrent_ptr = a word cell; guard_ptr = struct {word} whose every operation '
        '(acquire, acquire_if_equal, reset, reclaim, copy/move construction and assignment, swap, destructor, conversions) is a contract stub maintaining the ghost '
        'protection count of the node; implicit C++ operations (copy/move/destructor/conversion of guards, find_info and iterator) are made explicit calls by the unit-local '
        'rules guard_rules/dtors in unit.py; new/delete become pool allocation with a ghost allocated flag; by-value std::pair<iterator,bool> / iterator results are '
        'written through an out-parameter `ret`; defaulted iterator copy/move and the find_info member initialisers are harness functions (member-wise guard copy/move). '
        'INT runs: the environment is the reflexive-transitive closure of the legal steps of other threads (env.h), applied before every atomic access; retry loops are cut by '
        'invariants (sources *_i / find_cut = the same texts lowered with cut points); callers use the INT contract of find proved on its text by run find_int',
  assumptions=['guard_ptr contract (per reclaimer, units hp/he/qsbr/lfrc/...): acquire(p) = atomic snapshot of p and protects it; acquire_if_equal(p, e) is true iff p == e at its read '
               '(then protects e, else the guard is empty); reset/destructor drop the protection; reclaim() retires the node and empties the guard; copy adds, move transfers a protection; '
               'a protected or not yet retired node is not freed',
               'iterator(list, find_info&&) constructor: modelled member-wise; the defaulted iterator copy/move special members have no text: the harness models them member-wise and the engine checks on every run that they are still `= default` (XV_DEFAULTED_*), otherwise the user-provided body is lowered and verified against the member-wise contract (run iter_special)',
               'INT rely: other threads perform only legal Harris-Michael steps (insert between an unmarked node and its successor in key order, mark, unlink a marked node and retire it once, free only retired unprotected nodes); this is what the guarantee side (hms.*.commit: every successful CAS of an operation is such a legal step) establishes for every operation of this unit',
               'memory model: sequentially consistent atomics (model/xv.h); of the acquire/release annotations (1)-(13) of the header only the minimum orders at the sites where a node changes hands are checked (hms.sync.orders)',
               'Key = 8-bit integer in the model (keys are only compared; 8 bits realise every order type of the <= L+3 keys involved), compare = std::less'],
  consts=[],
  sources=[
    dict(COMMON, id='find', file=F, sig=r'bool ' + P + r'find\(const Key& key, find_info& info, backoff& backoff\)',
         c_sig='static _Bool hms_find(struct hms* self, hkey key, struct find_info* info_p, int* backoff_p)', ret_type='_Bool',
         guards=['info.cur', 'info.save', 'start_guard'], members=['head'],
         post_subst=[(r'(?<![\w.>])info\b', '(*info_p)', 'info_ref')],
         must_fire={'A_LOAD': 4, 'A_CASW': 1, 'method:acquire_if_equal': 1, 'method:reclaim': 1, 'guard:copy_ctor': 1, 'guard:copy_assign': 1,
                    'guard:swap': 1, 'guard:bool': 1, 'guard:is_null': 1, 'guard:backoff_call': 1, 'call:compare': 2, 'dtor': 1, 'dtor_at_return': 2,
                    'deref:info.cur': 4, 'deref:info.save': 1, 'reference': 1}),
    dict(COMMON, id='contains', file=F, sig=r'bool ' + P + r'contains\(const Key& key\)',
         c_sig='static _Bool hms_contains(struct hms* self, hkey key)', ret_type='_Bool', members=['head'],
         must_fire={'self_call:find': 1, 'guard:find_info_ctor': 1, 'dtor': 1, 'dtor_at_return': 1}),
    dict(COMMON, id='find_key', file=F, sig=r'auto ' + P + r'find\(const Key& key\) -> iterator',
         c_sig='static void hms_find_key(struct hms* self, struct iter* ret, hkey key)', members=['head'],
         pre_subst=[(r'return iterator\(\*this, std::move\(info\)\);', r'{ IT_FROM_INFO(ret, self, info); return; }', 'ret_it'),
                    (r'return end\(\);', r'{ hms_end(self, ret); return; }', 'ret_end')],
         must_fire={'self_call:find': 1, 'subst:ret_it': 1, 'subst:ret_end': 1, 'dtor': 1, 'dtor_at_return': 2}),
    dict(COMMON, id='iter_ctor', file=F, sig=r'explicit iterator\(harris_michael_list_based_set& list, concurrent_ptr\* start\)',
         c_sig='static void hms_iter_ctor(struct iter* self, struct hms* list, mptr* start)', ctor=True, members=['info'],
         must_fire={'ctor_init': 1, 'method:acquire': 1}),
    dict(COMMON, id='begin', file=F, sig=r'auto ' + P + r'begin\(\) -> iterator',
         c_sig='static void hms_begin(struct hms* self, struct iter* ret)', members=['head'],
         pre_subst=[(r'return iterator\(\*this, (&head)\);', r'{ IT_CONSTRUCT(ret, self, \1); return; }', 'ret_ctor')],
         must_fire={'subst:ret_ctor': 1}),
    dict(COMMON, id='end', file=F, sig=r'auto ' + P + r'end\(\) -> iterator',
         c_sig='static void hms_end(struct hms* self, struct iter* ret)',
         pre_subst=[(r'return iterator\(\*this, (nullptr)\);', r'{ IT_CONSTRUCT(ret, self, \1); return; }', 'ret_ctor')],
         must_fire={'subst:ret_ctor': 1}),
    dict(COMMON, id='emplace_or_get', file=F, sig=r'auto ' + P + r'emplace_or_get\(Args&&\.\.\. args\) -> std::pair<iterator, bool>',
         c_sig='static _Bool hms_emplace_or_get(struct hms* self, struct iter* ret, hkey args)', ret_type='_Bool',
         guards=['info.cur', 'info.save', 'new_guard'], members=['head'],
         pre_subst=[(r'node\* n = new node\(std::forward<Args>\(args\)\.\.\.\);', r'mptr n = N_NEW(args);', 'new_node'),
                    (r'delete n;', r'N_DELETE(n);', 'delete_node'), RET_IT_INFO],
         must_fire={'self_call:find': 1, 'subst:new_node': 1, 'subst:delete_node': 1, 'subst:ret_pair': 2, 'A_STORE': 1, 'A_CASW': 1,
                    'guard:rawptr': 1, 'guard:move_assign': 1, 'guard:backoff_call': 1, 'deref:n': 2, 'dtor': 2}),
    dict(COMMON, id='emplace', file=F, sig=r'bool ' + P + r'emplace\(Args&&\.\.\. args\)',
         c_sig='static _Bool hms_emplace(struct hms* self, hkey args)', ret_type='_Bool',
         pre_subst=[(r'auto result = emplace_or_get\(std::forward<Args>\(args\)\.\.\.\);', r'struct iter result; _Bool result_second = hms_emplace_or_get(self, &result, args);', 'call_pair'),
                    (r'\bresult\.second\b', 'result_second', 'pair_second')],
         must_fire={'subst:call_pair': 1, 'subst:pair_second': 1, 'dtor': 1, 'dtor_at_return': 1}),
    dict(COMMON, id='erase_key', file=F, sig=r'bool ' + P + r'erase\(const Key& key\)',
         c_sig='static _Bool hms_erase(struct hms* self, hkey key)', ret_type='_Bool', guards=['info.cur', 'info.save'], members=['head'],
         must_fire={'self_call:find': 2, 'A_CASW': 2, 'method:reclaim': 1, 'guard:to_marked_ptr': 1, 'guard:backoff_call': 1, 'call:marked_ptr': 1, 'dtor': 1, 'dtor_at_return': 2}),
    dict(COMMON, id='erase_it', file=F, sig=r'auto ' + P + r'erase\(iterator pos\) -> iterator',
         c_sig='static void hms_erase_it(struct hms* self, struct iter* ret, struct iter pos)',
         guards=['pos.info.cur', 'pos.info.save', 'next_guard'],
         pre_subst=[(r'\bKey key =', 'hkey key =', 'key_type'),
                    (r'return pos;', r'{ IT_MOVE_CTOR(ret, pos); return; }', 'ret_pos')],
         must_fire={'self_call:find': 1, 'A_LOAD': 1, 'A_CASW': 2, 'method:reclaim': 1, 'guard:rawptr': 1, 'guard:to_marked_ptr': 1,
                    'subst:ret_pos': 1, 'call:marked_ptr': 1, 'guard:backoff_call': 1}),
    dict(COMMON, id='iter_inc', file=F, sig=r'auto ' + P + r'iterator::operator\+\+\(\) -> iterator&',
         c_sig='static void hms_iter_inc(struct iter* self)', guards=['info.cur', 'info.save', 'tmp_guard'], members=['info', 'list'],
         pre_subst=[(r'return \*this;', 'return;', 'ret_this')],
         must_fire={'A_LOAD': 2 if INC_LOOP else 1, 'method:acquire_if_equal': 1, 'method:find': 1, 'guard:default_ctor': 1, 'guard:move_assign': 2, 'subst:ret_this': 1, 'dtor': 1, 'dtor_at_return': 1}),
    dict(COMMON, id='iter_postinc', file=F, sig=r'auto ' + P + r'iterator::operator\+\+\(int\) -> iterator',
         c_sig='static void hms_iter_postinc(struct iter* self, struct iter* ret)', members=['info', 'list'],
         guards=['info.cur', 'info.save', 'retval.info.cur', 'retval.info.save', 'tmp.info.cur', 'tmp.info.save', 'result.info.cur', 'result.info.save'],
         pre_subst=[(r'return (retval|tmp|result|old|copy);', r'{ IT_MOVE_CTOR(ret, \1); return; }', 'ret_local')],
         must_fire={'guard:iter_copy_this': 1, 'guard:pre_inc_this': 1, 'subst:ret_local': 1, 'dtor': 1, 'dtor_at_return': 1}),
    dict(COMMON, id='iter_reset', file=F, sig=r'void reset\(\)', c_sig='static void hms_iter_reset(struct iter* self)', members=['info'],
         must_fire={'method:reset': 2}),
    dict(COMMON, id='iter_eq', file=F, sig=r'bool operator==\(const iterator& other\) const', c_sig='static _Bool hms_iter_eq(const struct iter* self, const struct iter* other_p)',
         ret_type='_Bool', members=['info'], post_subst=[(r'(?<![\w.>])other\b', '(*other_p)', 'ref:other')], must_fire={'method:get': 2}),
    # the four special member functions of the iterator: `= default` in the pinned text (member-wise, modelled in harness.c); a user-provided body is lowered and
    # checked against the same member-wise contract (run iter_special)
    dict(COMMON, id='iter_copy_assign', file=F, sig=r'iterator& operator=\(const iterator&\s*(?:other|rhs|o|that|src|it|x)?\)', defaultable=True,
         c_sig='static void hms_iter_copy_assign(struct iter* self, struct iter* other_p)', members=['info', 'list'],
         guards=['info.cur', 'info.save', 'other.info.cur', 'other.info.save', 'tmp.cur', 'tmp.save'],
         pre_subst=[(r'\b(rhs|o|that|src|it|x)\b(?=\.|\)|;)', 'other', 'param_name'), (r'return \*this;', 'return;', 'ret_this')],
         post_subst=[(r'(?<![\w.>])other\b', '(*other_p)', 'ref:other')]),
    dict(COMMON, id='iter_move_assign', file=F, sig=r'iterator& operator=\(iterator&&\s*(?:other|rhs|o|that|src|it|x)?\)', defaultable=True,
         c_sig='static void hms_iter_move_assign(struct iter* self, struct iter* other_p)', members=['info', 'list'],
         guards=['info.cur', 'info.save', 'other.info.cur', 'other.info.save', 'tmp.cur', 'tmp.save'],
         pre_subst=[(r'\b(rhs|o|that|src|it|x)\b(?=\.|\)|;)', 'other', 'param_name'), (r'return \*this;', 'return;', 'ret_this')],
         post_subst=[(r'(?<![\w.>])other\b', '(*other_p)', 'ref:other')]),
    dict(COMMON, id='iter_copy_ctor', file=F, sig=r'iterator\(const iterator&\s*(?:other|rhs|o|that|src|it|x)?\)', defaultable=True, ctor=True,
         c_sig='static void hms_iter_copy_ctor(struct iter* self, struct iter* other_p)', members=['info', 'list'],
         guards=['info.cur', 'info.save', 'other.info.cur', 'other.info.save'],
         pre_subst=[(r'\b(rhs|o|that|src|it|x)\b(?=\.|\)|;)', 'other', 'param_name')], post_subst=[(r'(?<![\w.>])other\b', '(*other_p)', 'ref:other')]),
    dict(COMMON, id='iter_move_ctor', file=F, sig=r'iterator\(iterator&&\s*(?:other|rhs|o|that|src|it|x)?\)', defaultable=True, ctor=True,
         c_sig='static void hms_iter_move_ctor(struct iter* self, struct iter* other_p)', members=['info', 'list'],
         guards=['info.cur', 'info.save', 'other.info.cur', 'other.info.save'],
         pre_subst=[(r'\b(rhs|o|that|src|it|x)\b(?=\.|\)|;)', 'other', 'param_name')], post_subst=[(r'(?<![\w.>])other\b', '(*other_p)', 'ref:other')]),
    # ---- the same source texts once more, with the retry loops cut by invariants (used by the INT runs only)
    dict(COMMON, cut_loops={0: 'FINDLOOP'}, py_post=retry_cut, id='find_cut', file=F, sig=r'bool ' + P + r'find\(const Key& key, find_info& info, backoff& backoff\)',
         c_sig='static _Bool hms_find_cut(struct hms* self, hkey key, struct find_info* info_p, int* backoff_p)', ret_type='_Bool',
         guards=['info.cur', 'info.save', 'start_guard'], members=['head'],
         post_subst=[(r'(?<![\w.>])info\b', '(*info_p)', 'info_ref')],
         must_fire={'A_LOAD': 4, 'A_CASW': 1, 'method:acquire_if_equal': 1, 'method:reclaim': 1, 'guard:copy_ctor': 1, 'guard:copy_assign': 1,
                    'guard:swap': 1, 'guard:bool': 1, 'guard:is_null': 1, 'guard:backoff_call': 1, 'call:compare': 2, 'dtor': 1, 'dtor_at_return': 2, 'cut_loop': 1, 'retry_goto': 4, 'retry_label': 1,
                    'deref:info.cur': 4, 'deref:info.save': 1, 'reference': 1}),
    dict(COMMON, cut_loops={0: 'EMPL'}, id='emplace_or_get_i', file=F, sig=r'auto ' + P + r'emplace_or_get\(Args&&\.\.\. args\) -> std::pair<iterator, bool>',
         c_sig='static _Bool hms_emplace_or_get_i(struct hms* self, struct iter* ret, hkey args)', ret_type='_Bool',
         guards=['info.cur', 'info.save', 'new_guard'], members=['head'],
         pre_subst=[(r'node\* n = new node\(std::forward<Args>\(args\)\.\.\.\);', r'mptr n = N_NEW(args);', 'new_node'),
                    (r'delete n;', r'N_DELETE(n);', 'delete_node'), RET_IT_INFO],
         must_fire={'self_call:find': 1, 'subst:new_node': 1, 'subst:delete_node': 1, 'subst:ret_pair': 2, 'A_STORE': 1, 'A_CASW': 1,
                    'guard:rawptr': 1, 'guard:move_assign': 1, 'guard:backoff_call': 1, 'deref:n': 2, 'dtor': 2, 'cut_loop': 1}),
    dict(COMMON, cut_loops={0: 'ERASE'}, id='erase_key_i', file=F, sig=r'bool ' + P + r'erase\(const Key& key\)',
         c_sig='static _Bool hms_erase_i(struct hms* self, hkey key)', ret_type='_Bool', guards=['info.cur', 'info.save'], members=['head'],
         must_fire={'self_call:find': 2, 'A_CASW': 2, 'method:reclaim': 1, 'guard:to_marked_ptr': 1, 'guard:backoff_call': 1, 'call:marked_ptr': 1, 'dtor': 1, 'dtor_at_return': 2, 'cut_loop': 1}),
    dict(COMMON, cut_loops={0: 'ERIT'}, id='erase_it_i', file=F, sig=r'auto ' + P + r'erase\(iterator pos\) -> iterator',
         c_sig='static void hms_erase_it_i(struct hms* self, struct iter* ret, struct iter pos)',
         guards=['pos.info.cur', 'pos.info.save', 'next_guard'],
         pre_subst=[(r'\bKey key =', 'hkey key =', 'key_type'),
                    (r'return pos;', r'{ IT_MOVE_CTOR(ret, pos); return; }', 'ret_pos')],
         must_fire={'self_call:find': 1, 'A_LOAD': 1, 'A_CASW': 2, 'method:reclaim': 1, 'guard:rawptr': 1, 'guard:to_marked_ptr': 1,
                    'subst:ret_pos': 1, 'call:marked_ptr': 1, 'guard:backoff_call': 1, 'cut_loop': 1}),
    dict(COMMON, id='iter_inc_i', cut_loops=({0: 'INC'} if INC_LOOP else {}), file=F, sig=r'auto ' + P + r'iterator::operator\+\+\(\) -> iterator&',
         c_sig='static void hms_iter_inc_i(struct iter* self)', guards=['info.cur', 'info.save', 'tmp_guard'], members=['info', 'list'],
         pre_subst=[(r'return \*this;', 'return;', 'ret_this')],
         must_fire={'A_LOAD': 2 if INC_LOOP else 1, 'method:acquire_if_equal': 1, 'method:find': 1, 'guard:default_ctor': 1, 'guard:move_assign': 2, 'subst:ret_this': 1, 'dtor': 1, 'dtor_at_return': 1, 'cut_loop': 1 if INC_LOOP else 0}),
  ],
  runs=RUNS,
  loop_obligation={'RETRY': 'hms.find.commit', 'FINDLOOP': 'hms.find.commit', 'EMPL': 'hms.insert.commit', 'ERASE': 'hms.erase.commit', 'ERIT': 'hms.erase.commit', 'INC': 'hms.iter.inc.progress'},
  obligations={
    'hms.find.iff_live': dict(deciding=True, text='find(key, info, backoff) returns true iff an unmarked node with that key is reachable from head (any well-formed list, any delete marks, any start position an iterator can hold); then info.cur is that node'),
    'hms.find.position': dict(deciding=True, text='after find: list still well-formed; *info.prev == info.cur (unmarked); cur is the first node with key >= key of the resulting list (null if none); info.next is cur->next; prev is head or the next field of the guarded, live predecessor save; every marked node met on the way was physically unlinked'),
    'hms.find.frame': dict(deciding=True, text='find changes nothing but the next field of predecessors of unlinked marked nodes: keys, marks, live nodes, already unlinked nodes and free memory untouched; no allocation, no link, no mark'),
    'hms.find.retire_once': dict(deciding=True, text='every node find unlinks is retired exactly once, nothing else is retired'),
    'hms.find.guards': dict(deciding=False, text='guard accounting: after find only info.cur / info.save protect nodes (the local start_guard is released)'),
    'hms.find.safe': dict(deciding=True, text='find dereferences only nodes protected by one of its guards (or head)'),
    'hms.find.commit': dict(deciding=True, text="[INT] every successful CAS of find under arbitrary interference is a legal unlink step (predecessor cell unmarked and pointing to a marked node, new value = that node's frozen successor), followed by exactly one retire; loop invariants of the retry loops"),
    'hms.find.ensures_int': dict(deciding=True, text='[INT] contract of find under arbitrary interference (P1-P7 in harness.c): guarded (prev,save,cur) with key(save) < key <= key(cur), result iff key(cur) == key, (prev,cur) is the pair validated by the last acquire_if_equal, info.next is the value read from cur->next, cur was seen unmarked during the call, a node with this key marked before the call is spliced out'),
    'hms.find.requires': dict(deciding=False, text='[INT] callers establish the precondition of find (prev is head or the next field of the guarded node save, key(save) < key)'),
    'hms.contains.iff_live': dict(deciding=True, text='contains(key) is true iff an unmarked node with that key is reachable'),
    'hms.contains.frame': dict(deciding=True, text='contains leaves the abstract set and all live nodes unchanged (it may only help unlinking marked nodes)'),
    'hms.contains.guards': dict(deciding=False, text='contains releases all its guards'),
    'hms.contains.safe': dict(deciding=True, text='contains dereferences only protected nodes'),
    'hms.find_key.iff_live': dict(deciding=True, text='find(key) returns an iterator to the live node with that key, end() iff there is none'),
    'hms.find_key.iterator': dict(deciding=True, text='the iterator returned by find(key) satisfies the iterator invariant (prev/save/cur consistent, guarded)'),
    'hms.find_key.frame': dict(deciding=True, text='find(key) leaves the abstract set unchanged'),
    'hms.find_key.guards': dict(deciding=False, text='only the returned iterator holds guards afterwards'),
    'hms.find_key.safe': dict(deciding=True, text='find(key) dereferences only protected nodes'),
    'hms.insert.iff_absent': dict(deciding=True, text='emplace / emplace_or_get succeed iff the key was absent; then exactly the new node (holding the given key) is added, the list is still sorted and well-formed, every other key keeps its membership and every other node is untouched; on failure the allocated node is deleted exactly once and nothing else changed'),
    'hms.insert.iterator': dict(deciding=True, text='emplace_or_get returns an iterator to the inserted node, or to the already existing node with that key'),
    'hms.insert.guards': dict(deciding=False, text='only the returned iterator holds guards afterwards (emplace: none)'),
    'hms.insert.safe': dict(deciding=True, text='emplace_or_get dereferences only protected nodes and its own unpublished node'),
    'hms.insert.commit': dict(deciding=True, text="[INT] under arbitrary interference emplace_or_get returns true iff its own CAS linked its node exactly once, by a legal link step (cell unmarked = value validated by find's last acquire_if_equal, new->next already set to that value, keys in order, i.e. the key was absent at that instant); false iff it linked nothing, deleted its node once and holds a guarded node with that key"),
    'hms.erase.iff_present': dict(deciding=True, text='erase(key) succeeds iff the key was present; then exactly that node is marked (by one mark step) and every other key keeps its membership'),
    'hms.erase.unlinked_retired': dict(deciding=True, text='when erase(key) returns true the marked node has been spliced out and retired exactly once (by the operation or, [INT], by a helper)'),
    'hms.erase.second_fails': dict(deciding=True, text='a second erase of the same key on the resulting state fails and changes nothing'),
    'hms.erase.frame': dict(deciding=True, text='erase(key) does not touch other live nodes, allocates and links nothing'),
    'hms.erase.guards': dict(deciding=False, text='erase releases all its guards'),
    'hms.erase.safe': dict(deciding=True, text='erase dereferences only protected nodes'),
    'hms.erase.commit': dict(deciding=True, text='[INT] under arbitrary interference erase(key) / erase(iterator) perform only legal mark and unlink steps; erase(key) returns true iff its own mark CAS succeeded (exactly one of several racing erases succeeds), on a node with that key, expecting the value it read last from that cell; whoever unlinks retires, once'),
    'hms.iter.begin.first': dict(deciding=True, text='begin() refers to the first linked node (prev = head, guarded), end() holds nothing'),
    'hms.iter.begin.frame': dict(deciding=True, text='begin()/end() change nothing'),
    'hms.iter.begin.guards': dict(deciding=False, text='only the returned iterator holds guards'),
    'hms.iter.begin.safe': dict(deciding=True, text='begin() dereferences nothing unprotected'),
    'hms.iter.inc.next_live': dict(deciding=True, text='after ++ from any state another handle can leave behind (cur live / marked but linked / marked and unlinked, predecessor or successor changed) cur is the first node of the resulting list whose key is >= the old key and which is not the old node (end if none); on the re-scan path it is unmarked'),
    'hms.iter.inc.no_skip': dict(deciding=True, text='no live node with a key greater than the old key is skipped by ++'),
    'hms.iter.inc.progress': dict(deciding=True, text='++ leaves the node it stood on and never moves backwards: no key is yielded twice unless it was re-inserted ([SEQ] and [INT]; F11)'),
    'hms.iter.inc.position': dict(deciding=True, text='after ++ the iterator invariant holds again (prev is head or the next field of the guarded save, key(save) < key(cur); [SEQ] *prev == cur)'),
    'hms.iter.inc.frame': dict(deciding=True, text='++ changes nothing but helping to unlink marked nodes'),
    'hms.iter.inc.guards': dict(deciding=False, text="after ++ only the iterator's two guards protect nodes"),
    'hms.iter.inc.safe': dict(deciding=True, text="++ dereferences only nodes protected by the iterator's guards: it never touches reclaimed memory"),
    'hms.iter.erase.exact': dict(deciding=True, text='erase(iterator) marks exactly the referenced node (once; not at all if another handle already marked it) and removes exactly its key from the abstract set'),
    'hms.iter.erase.unlinked_retired': dict(deciding=True, text='when erase(iterator) returns the node is spliced out, and retired exactly once if it was still linked'),
    'hms.iter.erase.next': dict(deciding=True, text='erase(iterator) returns a valid iterator to the first following element of the resulting list (no live element skipped, never the erased node)'),
    'hms.iter.erase.frame': dict(deciding=True, text='erase(iterator) does not touch other live nodes'),
    'hms.iter.erase.guards': dict(deciding=False, text="after erase(iterator) only the argument's original and the returned iterator hold guards"),
    'hms.iter.erase.safe': dict(deciding=True, text='erase(iterator) dereferences only protected nodes'),
    'hms.guard.raw_pinned': dict(deciding=True, text='a guard_ptr built from a raw pointer (no validation possible) protects its node only if the node is pinned at that moment: null, own unpublished node, already protected by a live guard of this thread, or the frozen successor of a guarded node that is still linked; a guard built from an unpinned pointer is never dereferenced, retired through or returned (erase(iterator): the successor guard must be taken BEFORE the unlink CAS) [SEQ and INT]'),
    'hms.iter.postinc.copy': dict(deciding=True, text='operator++(int) returns a full, independently protected copy of the position before the increment (same list, prev, cur and save, each with its own guard) and advances *this exactly as operator++ does'),
    'hms.iter.special.memberwise': dict(deciding=True, text='copy construction / assignment give the target the source position (list, prev, cur, save) with its own protection and leave the source unchanged; move construction / assignment transfer position and protection; the old protections of an assigned-to iterator are released; self-assignment changes nothing; protection counts are exact'),
    'hms.iter.reset.releases': dict(deciding=True, text='reset() releases both guards (the iterator compares equal to end()) and touches nothing else; operator== compares the current nodes only'),
    'hms.insert.expected_protected': dict(deciding=True, text='[INT] the expected value of the linking CAS (the successor) and of every unlinking CAS (the node spliced out) is protected by a guard of this handle when the CAS is made: no ABA on a recycled address'),
    'hms.sync.orders': dict(deciding=True, text='sync precondition [INT runs]: every guard acquisition (acquire / acquire_if_equal) uses acquire-or-stronger order, every successful link and unlink CAS is release-or-stronger, every marking CAS acquire-or-stronger - the annotations (1)-(13) of the header at the sites where a node changes hands'),
    'hms.iter.copy.independent': dict(deciding=True, text='copies / moved iterators are independently protected: advancing one leaves the other dereferenceable and well-formed'),
  },
  replays={
    'hms.find.iff_live': dict(src='replay_seq.cpp', fixed={'op': 'find'}), 'hms.find.position': dict(src='replay_seq.cpp', fixed={'op': 'find'}),
    'hms.contains.iff_live': dict(src='replay_seq.cpp', fixed={'op': 'contains'}), 'hms.find_key.iff_live': dict(src='replay_seq.cpp', fixed={'op': 'find_key'}),
    'hms.insert.iff_absent': dict(src='replay_seq.cpp', fixed={'op': 'emplace'}),
    'hms.erase.iff_present': dict(src='replay_seq.cpp', fixed={'op': 'erase'}), 'hms.erase.second_fails': dict(src='replay_seq.cpp', fixed={'op': 'erase'}),
    'hms.erase.unlinked_retired': dict(src='replay_seq.cpp', fixed={'op': 'erase'}),
    'hms.iter.inc.next_live': dict(src='replay_seq.cpp', fixed={'op': 'inc'}), 'hms.iter.inc.no_skip': dict(src='replay_seq.cpp', fixed={'op': 'inc'}),
    'hms.iter.erase.exact': dict(src='replay_seq.cpp', fixed={'op': 'erase_it'}), 'hms.iter.erase.next': dict(src='replay_seq.cpp', fixed={'op': 'erase_it'}),
    # F11: the schedule needs the hook between the two reads of cur->next in operator++ (units/hms/hook_f11.diff); without the hook the program exits 2
    'hms.iter.inc.progress': dict(src='native_f11.cpp', no_inputs=True),
  },
  canaries=['find.true', 'find.false_end', 'find.false_greater', 'find.unlinked_two', 'find.restart_from_head', 'find.mid_start', 'find.start_unlinked', 'contains.true', 'contains.false', 'contains.helped', 'find_key.found', 'find_key.end', 'begin.empty', 'begin.nonempty', 'insert.true', 'insert.false', 'insert.at_head', 'insert.at_tail', 'insert.helped', 'emplace.true', 'emplace.false', 'erase.true', 'erase.false', 'erase.second_after_true', 'erase.helped', 'inc.fast', 'inc.fast_to_marked_successor', 'inc.fast_to_end', 'inc.cur_marked_linked', 'inc.cur_unlinked', 'inc.key_reinserted', 'inc.save_marked', 'inc.pred_changed', 'erase_it.direct', 'erase_it.refind', 'erase_it.cur_marked_linked', 'erase_it.cur_unlinked', 'erase_it.to_end', 'erase_it.to_marked_successor', 'erase_it.raw_guard_pinned', 'erase_it.raw_guard_unpinned_dropped', 'erase_it_int.raw_guard_pinned', 'copy.advanced', 'postinc.slow', 'postinc.fast', 'special.copy_assign', 'special.move_assign', 'find_int.true', 'find_int.false_end', 'find_int.false_greater', 'insert_int.true', 'insert_int.false', 'erase_int.unlinked_by_helper', 'erase_int.unlinked_self', 'erase_int.false', 'erase_it_int.direct', 'erase_it_int.refind', 'erase_it_int.marked_by_other', 'inc_int.fast', 'inc_int.slow', 'inc_int.end'],
)
# development aid for mutation testing only: let mutants that change a rule count reach the obligations instead of stopping at 'extraction broke'
if os.environ.get('HMS_NO_MUSTFIRE'):
    for _s in UNIT['sources']: _s['must_fire'] = {}
