// native replay for unit he (SEQ harnesses h_guards and h_slots): builds the state cbmc found on the REAL
// xenium::reclamation::hazard_eras<static_strategy<K>> (slots, free chain, last-era cache, guards), runs the real
// operation and checks the guard/slot invariants on the result.
// exit 0: property holds, 1: violation reproduced, 2: cannot represent these inputs
#include "native_common.hpp"
#include <vector>
#include <unistd.h>
static std::map<std::string, unsigned long long> args;
static unsigned long long A(const std::string& k, unsigned long long d = 0) { auto it = args.find(k); return it == args.end() ? d : it->second; }
static unsigned long long AI(const std::string& k, int i, unsigned long long d = 0) { return A(k + "[" + std::to_string(i) + "]", d); }

template <size_t K> int run() {
  using E = hen::env<K>; using HE = typename E::HE; using Foo = typename E::Foo; using gptr = typename E::gptr; using mptr = typename E::mptr; using cptr = typename E::cptr;
  auto& td = HE::local_thread_data();
  td.ensure_has_control_block();
  auto* cb = td.control_block;
  using slot_t = std::remove_reference_t<decltype(cb->eras[0])>;
  using vptr = xenium::marked_ptr<void*, 1>;
  if (!A("in_has_cb", 1)) { printf("state without control block: start from a fresh thread instead\n"); }
  auto slot = [&](unsigned long long i) -> slot_t* { return i < K ? &cb->eras[i] : nullptr; };
  const unsigned long long mask = A("in_mask", ~0ull);
  // objects standing for the pointer words of the harness
  std::map<unsigned long long, Foo*> objs;
  auto obj_of = [&](unsigned long long w) -> mptr { if ((w & mask) == 0) return mptr(nullptr, w != 0 ? 1 : 0); auto& o = objs[w & mask]; if (!o) o = new Foo(); return mptr(o, (w & ~mask) != 0 ? 1 : 0); };
  HE::era_clock.store(A("in_clock", 1));
  const bool has_cb = A("in_has_cb", 1) != 0;
  std::vector<gptr*> guards;                                 // every live guard object (leaked on purpose)
  gptr* ga = new gptr(); gptr* gb = new gptr();
  unsigned harness = A("in_harness", 2), op = A("in_op");
  bool a_live = false, b_live = false;
  if (harness == 2) { b_live = true; a_live = op >= 3; if ((op == 3 || op == 4) && A("in_self")) b_live = false; }
  // slots
  for (size_t i = 0; i < K; ++i) {
    bool mark = has_cb ? AI("in_mark", i) != 0 : true;
    if (!has_cb) { cb->eras[i].value.store(vptr(reinterpret_cast<void**>(i + 1 < K ? &cb->eras[i + 1] : nullptr), 1)); cb->eras[i].guard_cnt = 0; continue; }
    if (mark) cb->eras[i].value.store(vptr(reinterpret_cast<void**>(slot(AI("in_link", i, K))), 1));
    else cb->eras[i].value.store(vptr(reinterpret_cast<void**>(AI("in_era", i) << 1)));
    unsigned long long others = AI("in_others", i); if (others > 3) others = 3;   // 2^62 guard objects cannot be created; 3 keep every case distinction (0 / 1 / >= 2)
    if (mark) others = 0;
    for (unsigned long long n = 0; n < others; ++n) { gptr* g = new gptr(); g->ptr = mptr(new Foo()); g->he = &cb->eras[i]; guards.push_back(g); }
    cb->eras[i].guard_cnt = others;
  }
  if (has_cb) { td.hint = slot(A("in_hint", K)); cb->last_hazard_era = slot(A("in_last", K)); cb->last_era = A("in_last_era"); }
  else { td.hint = &cb->eras[0]; cb->last_hazard_era = nullptr; }
  auto place = [&](gptr* g, const char* he_key, const char* ptr_key) { g->ptr = obj_of(A(ptr_key)); g->he = has_cb ? slot(A(he_key, K)) : nullptr; if (g->he) g->he->guard_cnt++; guards.push_back(g); };
  if (a_live) place(ga, "in_a_he", "in_a_ptr");
  if (b_live) place(gb, "in_b_he", "in_b_ptr");
  // remember what the other guards rely on
  std::vector<unsigned long long> era_before(K, 0);
  for (size_t i = 0; i < K; ++i) { typename std::remove_pointer_t<decltype(cb)>::era_t e = 0; if (cb->eras[i].try_get_era(e)) era_before[i] = e; }
  cptr src{obj_of(A("in_src"))};
  std::memory_order order = std::memory_order_seq_cst;
  switch (A("in_order", 5)) { case 0: order = std::memory_order_relaxed; break; case 1: order = std::memory_order_consume; break; case 2: order = std::memory_order_acquire; break; default: break; }
  bool threw = false; const char* what = "?";
  gptr* extra = nullptr; slot_t* raw = nullptr; bool raw_live = false;
  try {
    if (harness == 2) switch (op) {
      case 0: what = "guard_ptr(marked_ptr)"; extra = new gptr(obj_of(A("in_a_ptr"))); guards.push_back(extra); break;
      case 1: what = "copy ctor"; extra = new gptr(*gb); guards.push_back(extra); break;
      case 2: what = "move ctor"; extra = new gptr(std::move(*gb)); guards.push_back(extra); break;
      case 3: what = "copy assignment"; if (b_live) *ga = *gb; else { gptr& r = *ga; *ga = r; } break;
      case 4: what = "move assignment"; if (b_live) *ga = std::move(*gb); else { gptr& r = *ga; *ga = std::move(r); } break;
      case 5: what = "reset"; ga->reset(); ga->reset(); break;
      case 6: what = "swap"; ga->swap(*gb); break;
      case 7: what = "reclaim"; if (ga->get() == nullptr) { printf("reclaim needs a non-null guard\n"); return 2; } ga->reclaim(); break;
      case 8: what = "acquire"; ga->acquire(src, order); break;
      case 9: what = "acquire_if_equal"; ga->acquire_if_equal(src, obj_of(A("in_expected")), order); break;
      default: return 2;
    } else if (harness == 1) switch (op) {
      case 0: what = "alloc_hazard_era"; raw = td.alloc_hazard_era(A("in_req_era", 1)); raw_live = true; break;
      case 1: { what = "release_hazard_era"; raw = slot(A("in_rel", K)); if (raw) { if (guards.empty()) return 2; for (auto*& g : guards) if (g && g->he == raw) { g->he = nullptr; g->ptr.reset(); break; } } td.release_hazard_era(raw); break; }
      default: return 2;
    } else return 2;
  } catch (const xenium::reclamation::bad_hazard_era_alloc&) { threw = true; }
  // ---- checks
  int bad = 0;
  printf("%s on K=%zu: %s\n", what, K, threw ? "threw bad_hazard_era_alloc" : "returned");
  std::vector<unsigned long long> cnt(K, 0);
  for (auto* g : guards) if (g && g->he) { if (g->he < &cb->eras[0] || g->he >= &cb->eras[K]) { printf("a guard names something that is not a slot\n"); bad = 1; continue; } cnt[g->he - &cb->eras[0]]++; }
  if (raw_live && raw) cnt[raw - &cb->eras[0]]++;
  std::vector<bool> on(K, false); size_t steps = 0;
  for (auto* p = td.hint; p != nullptr; p = p->get_link()) {
    if (p < &cb->eras[0] || p >= &cb->eras[K] || steps++ > K || on[p - &cb->eras[0]] || !p->is_link()) { printf("free chain broken (leaves the block, cycle, or unlinked slot on it)\n"); bad = 1; break; }
    on[p - &cb->eras[0]] = true;
  }
  for (size_t i = 0; i < K && !bad; ++i) {
    if (cb->eras[i].guards() != cnt[i]) { printf("slot %zu: guards() == %llu but %llu live guard_ptr(s) name it\n", i, (unsigned long long)cb->eras[i].guards(), cnt[i]); bad = 1; }
    if (on[i] != (cb->eras[i].guards() == 0) || on[i] != cb->eras[i].is_link()) { printf("slot %zu: on-chain=%d guards=%llu is_link=%d\n", i, (int)on[i], (unsigned long long)cb->eras[i].guards(), (int)cb->eras[i].is_link()); bad = 1; }
  }
  for (auto* g : guards) if (g && g != ga && g != gb && g != extra && g->he) {
    typename std::remove_pointer_t<decltype(cb)>::era_t e = 0;
    if (!g->he->try_get_era(e) || e != era_before[g->he - &cb->eras[0]]) { printf("a slot another guard relies on no longer publishes era %llu\n", era_before[g->he - &cb->eras[0]]); bad = 1; }
  }
  for (gptr* g : {ga, gb, extra}) if (g) {
    if (g->get() != nullptr && g->he == nullptr && (g != extra || !threw)) { printf("a guard reports object %p but holds no hazard era\n", (void*)g->get()); bad = 1; }
    if (g->he != nullptr && !g->ptr) { printf("an empty guard occupies a hazard era\n"); bad = 1; }
  }
  if (cb->last_hazard_era) {
    typename std::remove_pointer_t<decltype(cb)>::era_t e = 0;
    if (!cb->last_hazard_era->try_get_era(e) || e < cb->last_era) { printf("last_hazard_era/last_era incoherent (slot era %llu, last_era %llu)\n", (unsigned long long)e, (unsigned long long)cb->last_era); bad = 1; }
  }
  if (threw && harness == 2 && (op == 8 || op == 9) && src.load().get() == nullptr) { printf("acquire of a null pointer threw\n"); bad = 1; }
  fflush(stdout);
  _exit(bad);      // skip destructors: the guards were wired by hand
}
int main(int argc, char** argv) {
  for (int i = 1; i < argc; ++i) { char* eq = strchr(argv[i], '='); if (!eq) continue; std::string k(argv[i], eq - argv[i]);
    size_t b = k.find('['); if (b != std::string::npos) { std::string idx; for (size_t j = b + 1; j < k.size() && isdigit((unsigned char)k[j]); ++j) idx += k[j]; k = k.substr(0, b) + "[" + idx + "]"; }
    args[k] = strtoull(eq + 1, 0, 0); }
  switch (A("in_K", 2)) { case 1: return run<1>(); case 2: return run<2>(); case 3: return run<3>(); case 5: return run<5>(); case 8: return run<8>(); default: printf("K not instantiated\n"); return 2; }
}
