// guard_ptr::acquire (impl/hazard_eras.hpp:109-113): a guard that shares its hazard era gives it up (he = nullptr) and then
// allocates; when that throws bad_hazard_era_alloc the guard keeps its old pointer but protects nothing any more:
// get() returns an object that can be (and here is) reclaimed.  exit 0: ok, 1: defect reproduced
#include "native_common.hpp"
using E = hen::env<2>;
int main() {
  static bool deadA = false, deadB = false, deadC = false;   // static: objects may be reclaimed during thread tear-down
  E::Foo* B = new E::Foo(&deadB); E::cptr pb{E::mptr(B)};
  E::gptr g3; g3.acquire(pb);                       // slot 0: era e0
  E::advance_era_without_slot();
  E::Foo* A = new E::Foo(&deadA); E::cptr pa{E::mptr(A)};
  E::Foo* C = new E::Foo(&deadC); E::cptr pc{E::mptr(C)};
  E::gptr g1; g1.acquire(pa);                       // slot 1: era e1
  E::gptr g2(g1);                                   // shares slot 1
  E::advance_era_without_slot();
  bool threw = false;
  try { g2.acquire(pc); } catch (const xenium::reclamation::bad_hazard_era_alloc&) { threw = true; }
  if (!threw) { printf("no exception - scenario not applicable\n"); return 2; }
  printf("acquire threw; g2.get()=%p (A=%p) g2.he=%p\n", (void*)g2.get(), (void*)A, (void*)g2.he);
  int bad = 0;
  if (g2.get() != nullptr && g2.he == nullptr) { printf("DEFECT: after the exception the guard reports an object but holds no hazard era\n"); bad = 1; }
  g1.reset();                                       // the only real protection of A goes away
  pa.store(nullptr); E::retire(A);
  printf("A destroyed: %d, g2.get()=%p\n", (int)deadA, (void*)g2.get());
  if (deadA && g2.get() == A) { printf("DEFECT: g2.get() is a dangling pointer\n"); bad = 1; }
  return bad;
}
