// native demonstration for he.acquire_if_equal.protects (C01, hazard_eras): acquire_if_equal publishes an era that was read
// BEFORE the pointer load that validates the result.  If, between the era load and the publication, the object is unlinked,
// reclaimed, and a YOUNGER object is created at the same address and published in the same cell (ABA), the validation
// `p.load() == p1` succeeds, the call returns true, but the published era is older than the construction era of the object
// the guard now names: the next scan deletes it while the guard is alive.
//
// Deterministic: the schedule point XENIUM_VERIF_POINT("hazard_eras.acquire_if_equal.era_loaded") (guard MPOETER_XENIUM_VERIF)
// runs the other threads' steps at exactly that instant; address re-use is forced by a one-slot allocator of the node class.
//   g++ -std=c++17 -O1 -g -DMPOETER_XENIUM_VERIF -I /repo -pthread native_acquire_if_equal_aba.cpp -o aba && ./aba
// exit 0: the guarded object survived (property holds); exit 1: it was destroyed while the guard protected it.
#include <xenium/reclamation/hazard_eras.hpp>
#include <cstdio>
#include <cstring>
#include <new>
#include <thread>

using namespace xenium;
struct strat : reclamation::he_allocation::static_strategy<3> {
  static constexpr size_t retired_nodes_threshold() { return 0; }   // scan on every reclaim
};
using HE = reclamation::hazard_eras<>::with<policy::allocation_strategy<strat>>;

static bool destroyed[3];
struct node : HE::enable_concurrent_ptr<node> {
  int id;
  explicit node(int i) : id(i) {}
  ~node() override { destroyed[id] = true; }
  // one-slot allocator: the next node is created at the address of the previous one as soon as that one was freed
  alignas(64) static unsigned char slot[256];
  static bool used;
  static void* operator new(size_t sz) {
    if (!used && sz <= sizeof(slot)) { used = true; return slot; }
    return ::operator new(sz);
  }
  static void operator delete(void* p) {
    if (p == slot) { used = false; return; }
    ::operator delete(p);
  }
};
alignas(64) unsigned char node::slot[256];
bool node::used = false;

using cptr = HE::concurrent_ptr<node>;
using gptr = cptr::guard_ptr;
using mptr = cptr::marked_ptr;

static cptr cell;
static node* second = nullptr;
static int hook_calls = 0;

static void unlink_and_reclaim() {   // what an erase does: protect, unlink, retire (+ scan, threshold 0)
  gptr g;
  g.acquire(cell);
  cell.store(nullptr);
  g.reclaim();
}

static void hook(const char* id) {
  if (std::strcmp(id, "hazard_eras.acquire_if_equal.era_loaded") != 0 || hook_calls++ != 0) return;
  // the acquiring thread has loaded the pointer (first object) and the era, and has not yet published the era
  std::thread t([] {
    unlink_and_reclaim();                 // first object: unlinked, retired, no era published for it -> deleted
    second = new node(2);                 // younger object, same address
    cell.store(second);                   // published in the same cell
  });
  t.join();
}

int main() {
  node* first = new node(1);
  cell.store(first);
  gptr g;
  ::xenium_verif_point_hook = hook;
  const bool r = g.acquire_if_equal(cell, mptr(first));
  ::xenium_verif_point_hook = nullptr;
  std::printf("first object destroyed during the call: %d; second object at the same address: %d\n", destroyed[1], (void*)second == (void*)first);
  if (!destroyed[1] || (void*)second != (void*)first) { std::printf("schedule not realised (cannot represent)\n"); return 2; }
  std::printf("acquire_if_equal returned %s, guard holds %p (second object = %p)\n", r ? "true" : "false", (void*)g.get(), (void*)second);
  if (!r) { std::printf("PASS (returned false, guard empty: nothing is claimed to be protected)\n"); return g.get() == nullptr ? 0 : 1; }
  // another thread erases the second object while g still guards it
  std::thread t(unlink_and_reclaim);
  t.join();
  if (destroyed[2]) {
    std::printf("FAIL: the object the guard protects (acquire_if_equal returned true) was destroyed while the guard is alive\n");
    return 1;
  }
  std::printf("PASS: the guarded object survived the scan\n");
  g.reset();
  return 0;
}
