import re
IMPL = 'xenium/reclamation/impl/hazard_eras.hpp'
BASE = 'xenium/reclamation/detail/guard_ptr.hpp'
G = r'hazard_eras<Traits>::guard_ptr<T, MarkedPtr>::'

# ---- shared lowering tables -------------------------------------------------------------------------------------
HE_METHODS = {'set_era': 'HE_set_era', 'get_era': 'HE_get_era', 'guards': 'HE_guards', 'add_guard': 'HE_add_guard',
              'release_guard': 'HE_release_guard', 'set_link': 'HE_set_link', 'get_link': 'HE_get_link', 'is_link': 'HE_is_link',
              'try_get_era': 'HE_try_get_era'}
HEV = dict(methods={'mark': 'HEV_mark', 'get': 'HEV_get'}, calls={'marked_ptr': 'HEV_make'}, members=['value', 'guard_cnt'])
# x = f(..); where f may throw: C++ does not perform the assignment when f throws
ASSIGN_AFTER_THROW = (r'(self->he) = (TD_alloc_hazard_era\([^;]*\)); if \(xv_threw\) \{ XV_RET; \}',
                      r'{ struct hazard_era* xv_t = \2; if (xv_threw) { XV_RET; } \1 = xv_t; }', 'assign_after_throw_check')
GUARD = dict(members=['he'],
             methods=dict(HE_METHODS, alloc_hazard_era='TD_alloc_hazard_era', release_hazard_era='TD_release_hazard_era',
                          get='MP_get', reset='MP_reset', add_retired_node='TD_add_retired_node', scan='TD_scan', set_deleter='OBJ_set_deleter'),
             self_calls={'reset': 'g_reset'},
             may_throw=['TD_alloc_hazard_era'],
             post_subst=[ASSIGN_AFTER_THROW])
P_REF = (r'\bp\b', '(*p_p)', 'p_ref')
def guard(**kw):
    d = dict(GUARD); d.update(kw)
    if 'extra_post' in kw: d['post_subst'] = list(kw['extra_post']) + GUARD['post_subst']
    return d

ACQ_SIG = r'void ' + G + r'acquire\(const concurrent_ptr<T>& p, std::memory_order order\)'
AIE_SIG = r'bool ' + G + r'acquire_if_equal\(const concurrent_ptr<T>& p,\s*const MarkedPtr& expected,\s*std::memory_order order\)'
TCB = dict(methods=HE_METHODS, members=['last_hazard_era', 'last_era', 'eras', 'total_number_of_hes', 'he_block'])

SOURCES = [
  # ---- hazard_era slot (impl 194-254) ----
  dict(HEV, id='set_era', file=IMPL, sig=r'void set_era\(era_t era\)', c_sig='static void he_set_era(struct hazard_era* self, era_t era)',
       types={'void**': 'uintptr_t'}, must_fire={'A_STORE': 1, 'call:marked_ptr': 1, 'cast': 1}),
  dict(HEV, id='get_era', file=IMPL, sig=r'era_t get_era\(\) const', c_sig='static era_t he_get_era(struct hazard_era* self)',
       self_calls={'try_get_era': 'he_try_get_era'}, subst=[(r'try_get_era\(result\)', 'try_get_era(&result)', 'byref')],
       must_fire={'self_call:try_get_era': 1, 'subst:byref': 1}),
  dict(HEV, id='guards', file=IMPL, sig=r'uint64_t guards\(\) const', c_sig='static uint64_t he_guards(struct hazard_era* self)', must_fire={'member:guard_cnt': 1}),
  dict(HEV, id='add_guard', file=IMPL, sig=r'uint64_t add_guard\(\)', c_sig='static uint64_t he_add_guard(struct hazard_era* self)', must_fire={'member:guard_cnt': 1}),
  dict(HEV, id='release_guard', file=IMPL, sig=r'uint64_t release_guard\(\)', c_sig='static uint64_t he_release_guard(struct hazard_era* self)', must_fire={'member:guard_cnt': 1}),
  dict(HEV, id='try_get_era', file=IMPL, sig=r'bool try_get_era\(era_t& result\) const', c_sig='static _Bool he_try_get_era(struct hazard_era* self, era_t* result_p)',
       pre_subst=[(r'constexpr auto', 'const auto', 'constexpr_auto')], subst=[(r'\bresult\b', '(*result_p)', 'result_ref')],
       types={'era_t': 'era_t'}, must_fire={'A_LOAD': 1, 'method:mark': 1, 'method:get': 1, 'subst:result_ref': 1}),
  dict(HEV, id='set_link', file=IMPL, sig=r'void set_link\(hazard_era\* link\)', c_sig='static void he_set_link(struct hazard_era* self, struct hazard_era* link)',
       types={'void**': 'struct hazard_era*'}, must_fire={'A_STORE': 1, 'call:marked_ptr': 1}),
  dict(HEV, id='get_link', file=IMPL, sig=r'hazard_era\* get_link\(\) const', c_sig='static struct hazard_era* he_get_link(struct hazard_era* self)',
       types={'hazard_era*': 'struct hazard_era*'}, self_calls={'is_link': 'he_is_link'}, methods={'get': 'HEV_get_link'}, must_fire={'A_LOAD': 1, 'method:get': 1}),
  dict(HEV, id='is_link', file=IMPL, sig=r'bool is_link\(\) const', c_sig='static _Bool he_is_link(struct hazard_era* self)', must_fire={'A_LOAD': 1, 'method:mark': 1}),
  # ---- thread control block (impl 256-319, 349-351, 391-422) ----
  dict(TCB, id='static_need_more_hes', file=IMPL, sig=r'hazard_era\* need_more_hes\(\)', which=0,
       c_sig='static struct hazard_era* static_need_more_hes(struct tcb* self)', must_fire={'throw': 1}),
  dict(TCB, id='static_number_of_hes', file=IMPL, sig=r'constexpr size_t number_of_hes\(\) const', c_sig='static size_t static_number_of_hes(struct tcb* self)',
       subst=[(r'Strategy::K', 'XV_K', 'K')], must_fire={'subst:K': 1}),
  dict(TCB, id='static_initialize_next_block', file=IMPL, sig=r'constexpr hazard_era\* initialize_next_block\(\) const',
       c_sig='static struct hazard_era* static_initialize_next_block(struct tcb* self)', must_fire={}),
  dict(TCB, id='cb_begin', file=IMPL, sig=r'hazard_era\* begin\(\)', which=0, c_sig='static struct hazard_era* cb_begin(struct tcb* self)', must_fire={'member:eras': 1}),
  dict(TCB, id='cb_end', file=IMPL, sig=r'hazard_era\* end\(\)', which=0, c_sig='static struct hazard_era* cb_end(struct tcb* self)',
       subst=[(r'Strategy::K', 'XV_K', 'K')], must_fire={'member:eras': 1, 'subst:K': 1}),
  dict(id='cb_initialize_block', file=IMPL, sig=r'static hazard_era\* initialize_block\(T& block\)',
       c_sig='static struct hazard_era* cb_initialize_block(struct tcb* block_p)',
       methods=dict(HE_METHODS, begin='CB_begin', end='CB_end', initialize_next_block='CB_initialize_next_block'),
       subst=[(r'\bblock\b', '(*block_p)', 'block_ref')],
       must_fire={'method:set_link': 2, 'method:begin': 1, 'method:end': 1, 'method:initialize_next_block': 1}),
  dict(TCB, id='cb_initialize', file=IMPL, sig=r'void initialize\(hint& hint\)', c_sig='static void cb_initialize(struct tcb* self, struct hazard_era** hint_p)',
       subst=[(r'Strategy::number_of_active_hes', 'g_number_of_active_hes', 'active_hes'), (r'self\(\)\.number_of_hes\(\)', 'CB_number_of_hes(self)', 'number_of_hes'),
              (r'initialize_block\(self\(\)\)', 'cb_initialize_block(self)', 'initialize_block'), (r'\bhint\b', '(*hint_p)', 'hint_ref')],
       must_fire={'A_FADD': 1, 'subst:number_of_hes': 1, 'subst:initialize_block': 1}),
  dict(TCB, id='cb_alloc_hazard_era', file=IMPL, sig=r'hazard_era\* alloc_hazard_era\(hint& hint, era_t era\)',
       c_sig='static struct hazard_era* cb_alloc_hazard_era(struct tcb* self, struct hazard_era** hint_p, era_t era)',
       subst=[(r'self\(\)\.need_more_hes\(\)', 'CB_need_more_hes(self)', 'need_more_hes'), (r'\bhint\b', '(*hint_p)', 'hint_ref')],
       may_throw=['CB_need_more_hes'],
       must_fire={'subst:need_more_hes': 1, 'may_throw:CB_need_more_hes': 1, 'method:add_guard': 2, 'method:set_era': 1, 'method:get_link': 1,
                  'member:last_hazard_era': 4, 'member:last_era': 2}),
  dict(TCB, id='cb_release_hazard_era', file=IMPL, sig=r'void release_hazard_era\(hazard_era\*& he, hint& hint\)',
       c_sig='static void cb_release_hazard_era(struct tcb* self, struct hazard_era** he_p, struct hazard_era** hint_p)',
       subst=[(r'\bhint\b', '(*hint_p)', 'hint_ref'), (r'\bhe\b', '(*he_p)', 'he_ref')],
       must_fire={'method:release_guard': 1, 'method:set_link': 1, 'member:last_hazard_era': 2}),
  # ---- dynamic strategy (impl 367-422) ----
  dict(TCB, id='dynamic_need_more_hes', file=IMPL, sig=r'hazard_era\* need_more_hes\(\)', which=1,
       c_sig='static struct hazard_era* dynamic_need_more_hes(struct tcb* self)',
       self_calls={'allocate_new_hazard_eras_block': 'dynamic_allocate_new_hazard_eras_block'}, must_fire={'self_call:allocate_new_hazard_eras_block': 1}),
  dict(TCB, id='dynamic_number_of_hes', file=IMPL, sig=r'size_t number_of_hes\(\) const', which=1, c_sig='static size_t dynamic_number_of_hes(struct tcb* self)',
       must_fire={'member:total_number_of_hes': 1}),
  dict(TCB, methods=dict(HE_METHODS, begin='BLK_begin', end='BLK_end'), id='dynamic_initialize_next_block', file=IMPL, sig=r'hazard_era\* initialize_next_block\(\)\s*(?=\{)', which=1,   # begin/end: a text that walks the block itself
       c_sig='static struct hazard_era* dynamic_initialize_next_block(struct tcb* self)',
       subst=[(r'base::initialize_block\(\*(\w+)\)', r'blk_initialize_block(\1)', 'initialize_block')], must_fire={'A_LOAD': 1, 'subst:initialize_block': 1}),
  dict(TCB, id='dynamic_allocate_new_hazard_eras_block', file=IMPL, sig=r'hazard_era\* allocate_new_hazard_eras_block\(\)',
       c_sig='static struct hazard_era* dynamic_allocate_new_hazard_eras_block(struct tcb* self)',
       pre_subst=[(r'hazard_eras_block::operator new\(buffer_size\)', 'XV_BLOCK_NEW(buffer_size)', 'op_new'),
                  (r'::new \(buffer\) hazard_eras_block\(hes\)', 'XV_BLOCK_CTOR(buffer, hes)', 'placement_new'),
                  (r'this->initialize_block\(\*block\)', 'blk_initialize_block(block)', 'initialize_block'),
                  (r'sizeof\(hazard_eras_block\)', 'sizeof(xv_block_header_t)', 'sizeof_block'), (r'sizeof\(hazard_era\)', 'sizeof(struct hazard_era)', 'sizeof_slot')],
       subst=[(r'std::max', 'XV_MAX', 'max'), (r'Strategy::K', 'XV_K', 'K'), (r'Strategy::number_of_active_hes', 'g_number_of_active_hes', 'active_hes')],
       must_fire={'subst:op_new': 1, 'subst:placement_new': 1, 'subst:initialize_block': 1, 'subst:max': 1, 'subst:K': 1, 'A_FADD': 1, 'A_LOAD': 1, 'A_STORE': 1,
                  'member:total_number_of_hes': 2}),
  dict(id='blk_ctor', file=IMPL, sig=r'explicit hazard_eras_block\(size_t size\)', ctor=True, c_sig='static void blk_ctor(struct he_block* self, size_t size)',
       pre_subst=[(r'new \(it\) hazard_era;', 'XV_CONSTRUCT_SLOT(it);', 'construct_slot')], self_calls={'begin': 'blk_begin', 'end': 'blk_end'},
       must_fire={'subst:construct_slot': 1, 'ctor_init': 1, 'self_call:begin': 1, 'self_call:end': 1}),
  dict(id='blk_begin', file=IMPL, sig=r'hazard_era\* begin\(\)', which=2, c_sig='static struct hazard_era* blk_begin(struct he_block* self)',
       types={'hazard_era*': 'xv_slots_after'}, must_fire={'cast': 1}),
  dict(id='blk_end', file=IMPL, sig=r'hazard_era\* end\(\)', which=2, c_sig='static struct hazard_era* blk_end(struct he_block* self)',
       members=['size'], self_calls={'begin': 'blk_begin'}, must_fire={'member:size': 1, 'self_call:begin': 1}),
  dict(methods=dict(HE_METHODS, begin='BLK_begin', end='BLK_end'), id='blk_initialize_next_block', file=IMPL, sig=r'hazard_era\* initialize_next_block\(\)\s*(?=\{)', which=0,
       c_sig='static struct hazard_era* blk_initialize_next_block(struct he_block* self)', members=['next'],
       subst=[(r'base::initialize_block\(\*(\w+)\)', r'blk_initialize_block(\1)', 'initialize_block')], must_fire={'subst:initialize_block': 1, 'member:next': 2}),
  dict(id='blk_initialize_block', file=IMPL, sig=r'static hazard_era\* initialize_block\(T& block\)',
       c_sig='static struct hazard_era* blk_initialize_block(struct he_block* block_p)',
       methods=dict(HE_METHODS, begin='BLK_begin', end='BLK_end', initialize_next_block='BLK_initialize_next_block'),
       subst=[(r'\bblock\b', '(*block_p)', 'block_ref')],
       must_fire={'method:set_link': 2, 'method:begin': 1, 'method:end': 1, 'method:initialize_next_block': 1}),
  # ---- thread_data (impl 448-464, 500-506) ----
  dict(id='td_ensure_has_control_block', file=IMPL, sig=r'void ensure_has_control_block\(\)', c_sig='static void td_ensure_has_control_block(struct thread_data* self)',
       members=['control_block', 'hint'],
       methods={'acquire_inactive_entry': 'TBL_acquire_inactive_entry', 'initialize': 'CB_initialize', 'activate': 'CB_activate'},
       must_fire={'method:acquire_inactive_entry': 1, 'method:initialize': 1, 'method:activate': 1}),
  dict(id='td_alloc_hazard_era', file=IMPL, sig=r'HE alloc_hazard_era\(era_t era\)', c_sig='static struct hazard_era* td_alloc_hazard_era(struct thread_data* self, era_t era)',
       members=['control_block', 'hint'], methods={'alloc_hazard_era': 'CB_alloc_hazard_era'}, self_calls={'ensure_has_control_block': 'td_ensure_has_control_block'},
       must_fire={'method:alloc_hazard_era': 1, 'self_call:ensure_has_control_block': 1}),
  dict(id='td_release_hazard_era', file=IMPL, sig=r'void release_hazard_era\(HE& he\)', c_sig='static void td_release_hazard_era(struct thread_data* self, struct hazard_era** he_p)',
       members=['control_block', 'hint'], methods={'release_hazard_era': 'CB_release_hazard_era'}, subst=[(r'\bhe\b', '(*he_p)', 'he_ref')],
       must_fire={'method:release_hazard_era': 1}),
  dict(id='td_add_retired_node', file=IMPL, sig=r'std::size_t add_retired_node\(detail::deletable_object_with_eras\* p\)',
       c_sig='static size_t td_add_retired_node(struct thread_data* self, struct obj* p)', members=['retire_list', 'number_of_retired_nodes'],
       must_fire={'member:retire_list': 2, 'member:number_of_retired_nodes': 1}),
  # ---- guard_ptr (impl 24-183, detail/guard_ptr.hpp 16, 36-39) ----
  guard(id='g_ctor_ptr', file=IMPL, sig=G + r'guard_ptr\(const MarkedPtr& p\)', ctor=True, c_sig='static void g_ctor_ptr(struct guard* self, mptr p)',
        extra_post=[(r'XV_INIT_he\(self, \)', 'XV_INIT_he(self, 0)', 'init_null')],
        must_fire={'A_LOAD': 1, 'method:alloc_hazard_era': 1, 'subst:assign_after_throw_check': 1, 'ctor_init': 2, 'subst:init_null': 1}),
  guard(id='g_ctor_copy', file=IMPL, sig=G + r'guard_ptr\(const guard_ptr& p\)', ctor=True, c_sig='static void g_ctor_copy(struct guard* self, struct guard* p_p)',
        extra_post=[P_REF], must_fire={'method:add_guard': 1, 'ctor_init': 2}),
  guard(id='g_ctor_move', file=IMPL, sig=G + r'guard_ptr\(guard_ptr&& p\) noexcept', ctor=True, c_sig='static void g_ctor_move(struct guard* self, struct guard* p_p)',
        extra_post=[P_REF], must_fire={'method:reset': 1, 'ctor_init': 2}),
  guard(id='g_assign_copy', file=IMPL, sig=r'auto ' + G + r'operator=\(const guard_ptr& p\)', c_sig='static struct guard* g_assign_copy(struct guard* self, struct guard* p_p)',
        extra_post=[P_REF, (r'return \(\*self\);', 'return self;', 'ret_this')], must_fire={'self_call:reset': 1, 'method:add_guard': 1, 'subst:ret_this': 2}),
  guard(id='g_assign_move', file=IMPL, sig=r'auto ' + G + r'operator=\(guard_ptr&& p\)', c_sig='static struct guard* g_assign_move(struct guard* self, struct guard* p_p)',
        extra_post=[P_REF, (r'return \(\*self\);', 'return self;', 'ret_this')], must_fire={'self_call:reset': 1, 'method:reset': 1, 'subst:ret_this': 2}),
  guard(id='g_acquire', file=IMPL, sig=ACQ_SIG, c_sig='static void g_acquire(struct guard* self, mptr* p_p, int order)',
        extra_post=[P_REF], cut_loops={0: 'ACQ'},
        must_fire={'A_LOAD': 2, 'method:get_era': 2, 'method:guards': 1, 'method:set_era': 1, 'method:release_guard': 1, 'method:alloc_hazard_era': 1,
                   'subst:assign_after_throw_check': 1, 'cut_loop': 1}),
  guard(id='g_acquire_seq', file=IMPL, sig=ACQ_SIG, c_sig='static void g_acquire_seq(struct guard* self, mptr* p_p, int order)',
        extra_post=[P_REF], must_fire={'A_LOAD': 2, 'subst:assign_after_throw_check': 1}),
  guard(id='g_acquire_if_equal', file=IMPL, sig=AIE_SIG, c_sig='static _Bool g_acquire_if_equal(struct guard* self, mptr* p_p, mptr expected, int order)',
        extra_post=[P_REF], cut_loops={0: 'AIE'},
        must_fire={'A_LOAD': 3, 'method:get_era': 1, 'method:guards': 1, 'method:set_era': 1, 'method:release_guard': 1, 'method:alloc_hazard_era': 1, 'self_call:reset': 2,
                   'subst:assign_after_throw_check': 1, 'cut_loop': 1}),
  guard(id='g_acquire_if_equal_seq', file=IMPL, sig=AIE_SIG, c_sig='static _Bool g_acquire_if_equal_seq(struct guard* self, mptr* p_p, mptr expected, int order)',
        extra_post=[P_REF], must_fire={'A_LOAD': 3, 'subst:assign_after_throw_check': 1}),
  guard(id='g_reset', file=IMPL, sig=r'void ' + G + r'reset\(\)', c_sig='static void g_reset(struct guard* self)',
        must_fire={'method:release_hazard_era': 1, 'method:reset': 1}),
  guard(id='g_do_swap', file=IMPL, sig=r'void ' + G + r'do_swap\(guard_ptr& g\)', c_sig='static void g_do_swap(struct guard* self, struct guard* g_p)',
        subst=[(r'std::swap\(he, g\.he\)', 'XV_SWAP_HE(he, (*g_p).he)', 'swap')], must_fire={'subst:swap': 1}),
  dict(id='g_swap', file=BASE, sig=r'void swap\(Derived& g\)', c_sig='static void g_swap(struct guard* self, struct guard* g_p)',
       # CRTP dispatch: self().do_swap(g) is hazard_eras::guard_ptr::do_swap (exchanges the era slots); an unqualified do_swap(g) is the base class' empty dummy
       subst=[(r'std::swap\(ptr, g\.ptr\)', 'XV_SWAP_PTR(self->ptr, (*g_p).ptr)', 'swap'), (r'self\(\)\.do_swap\(g\)', 'g_do_swap(self, g_p)', 'do_swap'),
              (r'(?<![.\w])do_swap\(g\)', 'g_base_do_swap(self, g_p)', 'base_do_swap')],
       must_fire={'subst:swap': 1, 'subst:do_swap': 1}),
  dict(id='g_base_do_swap', file=BASE, sig=r'void do_swap\(Derived&\s*\w*\) noexcept', c_sig='static void g_base_do_swap(struct guard* self, struct guard* g_p)', must_fire={}),
  dict(id='g_dtor', file=BASE, sig=r'~guard_ptr\(\)', c_sig='static void g_dtor(struct guard* self)',
       subst=[(r'self\(\)\.reset\(\)', 'g_reset(self)', 'reset')], must_fire={'subst:reset': 1}),
  guard(id='g_reclaim', file=IMPL, sig=r'void ' + G + r'reclaim\(Deleter d\)', c_sig='static void g_reclaim(struct guard* self, int d)',
        methods=dict(GUARD['methods'], get='MP_get_obj'),
        subst=[(r'allocation_strategy::retired_nodes_threshold\(\)', 'XV_retired_nodes_threshold()', 'threshold')],
        must_fire={'A_FADD': 1, 'self_call:reset': 1, 'method:set_deleter': 1, 'method:add_retired_node': 1, 'method:scan': 1}),
]

KS_QUICK = [1, 2, 3, 5]
GROUPS = [('slots_alloc', 'h_slots', 0, 0, {}), ('slots_rel_init', 'h_slots', 1, 2, {}), ('slots_k_allocs', 'h_slots', 3, 4, {}),
          ('g_ctor', 'h_guards', 0, 2, {}), ('g_assign', 'h_guards', 3, 4, {}), ('g_reset_swap_reclaim', 'h_guards', 5, 7, {}),
          ('g_acquire', 'h_guards', 8, 8, dict(unwindset=['g_acquire_seq.0:2'], note='no interference: the retry loop body runs at most twice (a third pass is excluded by the unwinding assertion)')),
          ('g_acquire_if_equal', 'h_guards', 9, 9, dict(unwindset=['g_acquire_if_equal_seq.0:2'], note='no interference: the publish-and-revalidate loop body runs at most twice (a third pass is excluded by the unwinding assertion)')),
          ('int_acquire', 'h_int', 0, 0, dict(mode='INT', note='retry loop of acquire cut by invariant ACQ; source cell and era clock rewritten by the environment before each load of them')),
          ('int_acquire_if_equal', 'h_int', 1, 1, dict(mode='INT', note='publish-and-revalidate loop of acquire_if_equal cut by invariant AIE; the source cell may be replaced (also by a younger object at the same address) and the era clock may advance before each load of them')),
          ] + [('dyn_alloc_B%d' % b, 'h_dyn', 0, 0, dict(dyn=True, nblk=b, note='dynamic strategy: %d block(s) of K slots exist beforehand, one more can be allocated' % b)) for b in (0, 1, 2)
          ] + [('dyn_init_B%d' % b, 'h_dyn', 1, 1, dict(dyn=True, nblk=b, note='dynamic strategy: initialize on a left-over record with %d block(s)' % b)) for b in (0, 1, 2)]
RUNS = []
for k in KS_QUICK + [8]:
    for name, entry, lo, hi, extra in GROUPS:
        extra = dict(extra); dyn = extra.pop('dyn', False); nblk = extra.pop('nblk', None)
        if k == 8 and name.startswith('dyn_alloc'): continue      # 36 slots: cbmc does not finish within the thorough budget (measured: > 3000 s); K <= 5 covered
        quick = k in KS_QUICK
        if dyn and name.startswith('dyn_alloc') and (k, nblk) not in [(1, 0), (1, 1), (1, 2), (2, 0), (2, 1), (2, 2), (3, 0), (3, 1)]: quick = False   # larger slot universes: thorough tier
        tiers = ['quick', 'thorough'] if quick else ['thorough']
        nslot = (3 * k + max(k, (3 * k) // 2)) if dyn else k
        defs = {'XV_K': k, 'XV_OPS_LO': lo, 'XV_OPS_HI': hi}
        if dyn: defs['XV_DYN'] = 1; defs['XV_NBLK'] = nblk
        if dyn or k >= 8: extra['solver'] = ['--sat-solver', 'cadical']   # minisat's incremental mode stalls on the larger slot universes
        RUNS.append(dict(dict(id='%s_K%d' % (name, k), entry=entry, tiers=tiers, cls='shape-complete', defs=defs, unwind=nslot + 2), **extra))

OBL = {
  'he.slot.roundtrip': 'hazard_era: set_era/get_era/try_get_era, set_link/get_link/is_link and guards/add_guard/release_guard return what was stored, eras and links are never confused',
  'he.alloc.k_available': 'alloc_hazard_era throws only when the free chain is empty and the request cannot share the last slot; from "all free" K requests in K different eras get K different slots',
  'he.alloc.exhausted_throws': 'static strategy: a request that cannot be served raises bad_hazard_era_alloc and changes nothing (slots, chain, last_hazard_era/last_era, counters)',
  'he.alloc.era_matches': 'the slot returned by alloc_hazard_era(era) publishes exactly era when the call returns (shared fast path and fresh-slot path)',
  'he.alloc.frame': 'alloc_hazard_era changes only the returned slot, whose guard count grows by exactly one',
  'he.alloc.shares_same_era': 'a request for the era of the last allocation returns that slot and leaves chain and cache alone',
  'he.alloc.takes_chain_head': 'otherwise the head of the free chain is returned with count 1, the chain advances, the cache names the new slot and era',
  'he.initialize.all_free': 'initialize on an arbitrary left-over record puts every slot of the record (and of every dynamic block) on the free chain exactly once and accounts them in number_of_active_hes',
  'he.release.returns_slot': 'releasing decrements the slot count; the slot goes back to the head of the free chain (link tag, cache invalidated) exactly when the count drops to 0; nothing else changes',
  'he.count.exact': 'on every exit of every operation guards(s) == number of live guard_ptrs whose he == s, for every slot s',
  'he.guard_ops.preserve_inv': 'every exit of every operation re-establishes Inv_K (free chain duplicate-free/in-block/null-terminated, free <=> count 0 <=> link tag, held slots publish an era <= era_clock, last-era cache coherent)',
  'he.guard_ops.others_intact': 'a slot some other guard relies on keeps publishing the same era',
  'he.guard_ops.operand_frame': 'operations do not change guards they are not applied to, nor the source pointer',
  'he.guard_ops.holds_slot_iff_protecting': 'a guard whose get() is non-null holds a hazard era',
  'he.guard_ops.empty_holds_no_slot': 'a guard that holds nothing (null, mark 0) occupies no hazard era',
  'he.sync.publish_then_fence': 'every store into a slot is a release store and every published era is followed by a seq_cst fence before the operation returns',
  'he.ctor.protects': 'guard_ptr(marked_ptr): null => empty guard, no slot; otherwise the guard holds a slot publishing the current era',
  'he.copy.shares': 'copy construction/assignment: both guards equal the source, the shared slot count grows by one (same slot, same era), the old slot of the target is released',
  'he.move.empties_source': 'move construction/assignment: target = old source, source empty, no count changes except the release of the old target slot',
  'he.self_assign.noop': 'self copy/move assignment changes nothing',
  'he.reset.releases': 'reset/destructor: guard empty, its slot released, other guards untouched',
  'he.reset.idempotent': 'a second reset changes nothing',
  'he.swap.exchanges': 'swap exchanges pointer and slot of the two guards, slots untouched',
  'he.reclaim.retires_then_empty': 'reclaim: guard empty and slot released, retirement_era = era_clock before its increment by one, node pushed once onto the retire list with its deleter, scan iff threshold reached',
  'he.acquire.snapshot': 'acquire: the guard holds the value returned by the last load of the source performed during the call',
  'he.acquire.era_stable': 'when the result is non-null the slot publishes an era_clock value loaded after the pointer load that produced the result',
  'he.acquire.protects': 'C01 protect side: the slot of the returned guard published, before the load that produced the result and unchanged since, an era e with construction_era(object seen by that load) <= e <= era_clock at that load - exactly what keeps scan from deleting it; the source may be replaced at any time, also by a younger object at the same address',
  'he.acquire_if_equal.protects': 'the same for a successful acquire_if_equal',
  'he.acquire.sync': 'the pointer load that produced the result is at least acquire and no published era is unfenced at that load',
  'he.acquire.exc_safe': 'when acquire raises bad_hazard_era_alloc the guard names neither an unprotected object nor a slot it does not count in; the chain was empty',
  'he.acquire.null_holds_no_slot': 'acquire of a null pointer leaves the guard without a hazard era',
  'he.acquire_if_equal.iff': 'acquire_if_equal returns true exactly when the last value it loaded from the source equals expected (then the guard holds it); otherwise the guard is empty',
  'he.acquire_if_equal.exc_safe': 'when acquire_if_equal raises bad_hazard_era_alloc the guard names neither an unprotected object nor a slot it does not count in (F9)',
  'he.dyn.never_throws': 'dynamic strategy: alloc_hazard_era never throws',
  'he.dyn.new_block': 'a new block of max(K, total/2) slots is allocated exactly when the chain is empty and nothing can be shared: accounted in total_number_of_hes and number_of_active_hes, linked in front of the block list, its slots form the new chain, old slots untouched',
}
UNIT = dict(
  title='hazard_eras: guard_ptr operations and hazard-era slots (C18, C15 guard part, C01 protect side)',
  properties=['C18', 'C15', 'C01'],
  drops='templates (T, MarkedPtr: an opaque word whose pointer part is selected by an arbitrary mask; Strategy::K = shape XV_K); '
        'marked_ptr<void*,1> of a slot is a record {word, link pointer, mark} (reading the wrong alternative yields an arbitrary value); '
        'thread_local thread_data is one global record; exceptions are a flag; a throwing call does not perform the assignment of its result; '
        'dynamic strategy: operator new/placement new hand out one pre-declared storage area, the default member initialiser next = nullptr is applied by the stub',
  assumptions=['stub thread_block_list::acquire_inactive_entry: returns a record whose slots all have guard_cnt == 0 and last_hazard_era == 0 (left-over or fresh), activate(): no effect on slots',
               'stub scan(): does not touch the hazard-era slots of the calling thread (reclaim side is another unit)',
               'era_clock < 2^62, fewer than 2^62 guard objects / retired nodes / atomic events per call',
               'eras passed to alloc_hazard_era were read from the era clock after every era the thread published before (guard level: derived, not assumed)',
               'marked_ptr contract (unit mp) for the slot word and the guarded pointer',
               'dynamic strategy shape: at most two blocks (K and K slots) exist before the call'],
  ctypes={'hint': 'struct hazard_era*'},      # C++ type names that the harness models under another name (for helpers that are followed automatically)
  sources=SOURCES, runs=RUNS,
  obligations={k: dict(deciding=True, text=v) for k, v in OBL.items()},
  loop_obligation={'ACQ': 'he.acquire.era_stable', 'AIE': 'he.acquire_if_equal.protects'},
  replays=dict({'he.acquire_if_equal.protects': dict(src='native_acquire_if_equal_aba.cpp', no_inputs=True)}, **{k: dict(src='replay_guard.cpp') for k in ['he.count.exact', 'he.guard_ops.preserve_inv', 'he.guard_ops.others_intact', 'he.guard_ops.holds_slot_iff_protecting',
                                                     'he.guard_ops.empty_holds_no_slot', 'he.acquire.exc_safe', 'he.acquire_if_equal.exc_safe', 'he.acquire.null_holds_no_slot',
                                                     'he.release.returns_slot', 'he.alloc.exhausted_throws']}),
  canaries=['acquire.left_shared', 'acquire.null', 'acquire.reuse_own', 'acquire.share_last', 'acquire.throw', 'aie.false', 'aie.throw', 'aie.true', 'aie.true_null', 'alloc.first_use', 'alloc.fresh', 'alloc.share', 'alloc.throw', 'alloc_k.done', 'assign_copy.other_slot', 'assign_copy.same_slot', 'assign_copy.self', 'assign_move.other', 'assign_move.self', 'copy.empty', 'copy.shared', 'ctor_ptr.fresh', 'ctor_ptr.null', 'ctor_ptr.shared', 'ctor_ptr.throw', 'dyn.new_block', 'dyn.no_new_block', 'initialize.done', 'int.acquire.new_slot', 'int.acquire.nonnull', 'int.acquire.throw', 'int.aie.false_first', 'int.aie.false_second', 'int.aie.throw', 'int.aie.true', 'move.empty', 'move.held', 'reclaim.noscan', 'reclaim.scan', 'release.null', 'release.shared', 'release.to_zero', 'reset.dtor', 'reset.empty', 'reset.shared', 'reset.to_zero', 'slot.era', 'slot.link', 'swap.done'],
)
