import re
IMPL = 'xenium/reclamation/impl/hazard_eras.hpp'
BASE = 'xenium/reclamation/detail/guard_ptr.hpp'
G = r'hazard_eras<Traits>::guard_ptr<T, MarkedPtr>::'

# ---- shared lowering tables -------------------------------------------------------------------------------------
HE_METHODS = {'set_era': 'HE_set_era', 'get_era': 'HE_get_era', 'guards': 'HE_guards', 'add_guard': 'HE_add_guard',
              'release_guard': 'HE_release_guard', 'set_link': 'HE_set_link', 'get_link': 'HE_get_link', 'is_link': 'HE_is_link',
              'try_get_era': 'HE_try_get_era'}
HEV = dict(methods={'mark': 'HEV_mark', 'get': 'HEV_get'}, calls={'marked_ptr': 'HEV_make'}, members=['value', 'guard_cnt'])
# x = f(..); where f may throw: C++ does not perform the assignment when f throws
ASSIGN_AFTER_THROW = (r'(self->he) = (TD_alloc_hazard_era\([^;]*\)); if \(xv_threw\) \{ XV_RET; \}',
                      r'{ struct hazard_era* xv_t = \2; if (xv_threw) { XV_RET; } \1 = xv_t; }', 'assign_after_throw_check')
GUARD = dict(members=['he'],
             methods=dict(HE_METHODS, alloc_hazard_era='TD_alloc_hazard_era', release_hazard_era='TD_release_hazard_era',
                          get='MP_get', reset='MP_reset', add_retired_node='TD_add_retired_node', scan='TD_scan', set_deleter='OBJ_set_deleter'),
             self_calls={'reset': 'g_reset'},
             may_throw=['TD_alloc_hazard_era'],
             post_subst=[ASSIGN_AFTER_THROW])
P_REF = (r'\bp\b', '(*p_p)', 'p_ref')
def guard(**kw):
    d = dict(GUARD); d.update(kw)
    if 'extra_post' in kw: d['post_subst'] = list(kw['extra_post']) + GUARD['post_subst']
    return d

ACQ_SIG = r'void ' + G + r'acquire\(const concurrent_ptr<T>& p, std::memory_order order\)'
AIE_SIG = r'bool ' + G + r'acquire_if_equal\(const concurrent_ptr<T>& p,\s*const MarkedPtr& expected,\s*std::memory_order order\)'
TCB = dict(methods=HE_METHODS, members=['last_hazard_era', 'last_era', 'eras', 'total_number_of_hes', 'he_block'])

SOURCES = [
  # ---- hazard_era slot (impl 194-254) ----
  dict(HEV, id='set_era', file=IMPL, sig=r'void set_era\(era_t era\)', c_sig='static void he_set_era(struct hazard_era* self, era_t era)',
       types={'void**': 'uintptr_t'}, must_fire={'A_STORE': 1, 'call:marked_ptr': 1, 'cast': 1}),
  dict(HEV, id='get_era', file=IMPL, sig=r'era_t get_era\(\) const', c_sig='static era_t he_get_era(struct hazard_era* self)',
       self_calls={'try_get_era': 'he_try_get_era'}, subst=[(r'try_get_era\(result\)', 'try_get_era(&result)', 'byref')],
       must_fire={'self_call:try_get_era': 1, 'subst:byref': 1}),
  dict(HEV, id='guards', file=IMPL, sig=r'uint64_t guards\(\) const', c_sig='static uint64_t he_guards(struct hazard_era* self)', must_fire={'member:guard_cnt': 1}),
  dict(HEV, id='add_guard', file=IMPL, sig=r'uint64_t add_guard\(\)', c_sig='static uint64_t he_add_guard(struct hazard_era* self)', must_fire={'member:guard_cnt': 1}),
  dict(HEV, id='release_guard', file=IMPL, sig=r'uint64_t release_guard\(\)', c_sig='static uint64_t he_release_guard(struct hazard_era* self)', must_fire={'member:guard_cnt': 1}),
  dict(HEV, id='try_get_era', file=IMPL, sig=r'bool try_get_era\(era_t& result\) const', c_sig='static _Bool he_try_get_era(struct hazard_era* self, era_t* result_p)',
       pre_subst=[(r'constexpr auto', 'const auto', 'constexpr_auto')], subst=[(r'\bresult\b', '(*result_p)', 'result_ref')],
       types={'era_t': 'era_t'}, must_fire={'A_LOAD': 1, 'method:mark': 1, 'method:get': 1, 'subst:result_ref': 1}),
  dict(HEV, id='set_link', file=IMPL, sig=r'void set_link\(hazard_era\* link\)', c_sig='static void he_set_link(struct hazard_era* self, struct hazard_era* link)',
       types={'void**': 'struct hazard_era*'}, must_fire={'A_STORE': 1, 'call:marked_ptr': 1}),
  dict(HEV, id='get_link', file=IMPL, sig=r'hazard_era\* get_link\(\) const', c_sig='static struct hazard_era* he_get_link(struct hazard_era* self)',
       types={'hazard_era*': 'struct hazard_era*'}, self_calls={'is_link': 'he_is_link'}, methods={'get': 'HEV_get_link'}, must_fire={'A_LOAD': 1, 'method:get': 1}),
  dict(HEV, id='is_link', file=IMPL, sig=r'bool is_link\(\) const', c_sig='static _Bool he_is_link(struct hazard_era* self)', must_fire={'A_LOAD': 1, 'method:mark': 1}),
  # ---- thread control block (impl 256-319, 349-351, 391-422) ----
  dict(TCB, id='static_need_more_hes', file=IMPL, sig=r'hazard_era\* need_more_hes\(\)', which=0,
       c_sig='static struct hazard_era* static_need_more_hes(struct tcb* self)', must_fire={'throw': 1}),
  dict(TCB, id='static_number_of_hes', file=IMPL, sig=r'constexpr size_t number_of_hes\(\) const', c_sig='static size_t static_number_of_hes(struct tcb* self)',
       subst=[(r'Strategy::K', 'XV_K', 'K')], must_fire={'subst:K': 1}),
  dict(TCB, id='static_initialize_next_block', file=IMPL, sig=r'constexpr hazard_era\* initialize_next_block\(\) const',
       c_sig='static struct hazard_era* static_initialize_next_block(struct tcb* self)', must_fire={}),
  dict(TCB, id='cb_begin', file=IMPL, sig=r'hazard_era\* begin\(\)', which=0, c_sig='static struct hazard_era* cb_begin(struct tcb* self)', must_fire={'member:eras': 1}),
  dict(TCB, id='cb_end', file=IMPL, sig=r'hazard_era\* end\(\)', which=0, c_sig='static struct hazard_era* cb_end(struct tcb* self)',
       subst=[(r'Strategy::K', 'XV_K', 'K')], must_fire={'member:eras': 1, 'subst:K': 1}),
  dict(id='cb_initialize_block', file=IMPL, sig=r'static hazard_era\* initialize_block\(T& block\)',
       c_sig='static struct hazard_era* cb_initialize_block(struct tcb* block_p)',
       methods=dict(HE_METHODS, begin='CB_begin', end='CB_end', initialize_next_block='CB_initialize_next_block'),
       subst=[(r'\bblock\b', '(*block_p)', 'block_ref')],
       must_fire={'method:set_link': 2, 'method:begin': 1, 'method:end': 1, 'method:initialize_next_block': 1}),
  dict(TCB, id='cb_initialize', file=IMPL, sig=r'void initialize\(hint& hint\)', c_sig='static void cb_initialize(struct tcb* self, struct hazard_era** hint_p)',
       subst=[(r'Strategy::number_of_active_hes', 'g_number_of_active_hes', 'active_hes'), (r'self\(\)\.number_of_hes\(\)', 'CB_number_of_hes(self)', 'number_of_hes'),
              (r'initialize_block\(self\(\)\)', 'cb_initialize_block(self)', 'initialize_block'), (r'\bhint\b', '(*hint_p)', 'hint_ref')],
       must_fire={'A_FADD': 1, 'subst:number_of_hes': 1, 'subst:initialize_block': 1}),
  dict(TCB, id='cb_alloc_hazard_era', file=IMPL, sig=r'hazard_era\* alloc_hazard_era\(hint& hint, era_t era\)',
       c_sig='static struct hazard_era* cb_alloc_hazard_era(struct tcb* self, struct hazard_era** hint_p, era_t era)',
       subst=[(r'self\(\)\.need_more_hes\(\)', 'CB_need_more_hes(self)', 'need_more_hes'), (r'\bhint\b', '(*hint_p)', 'hint_ref')],
       may_throw=['CB_need_more_hes'],
       must_fire={'subst:need_more_hes': 1, 'may_throw:CB_need_more_hes': 1, 'method:add_guard': 2, 'method:set_era': 1, 'method:get_link': 1,
                  'member:last_hazard_era': 4, 'member:last_era': 2}),
  dict(TCB, id='cb_release_hazard_era', file=IMPL, sig=r'void release_hazard_era\(hazard_era\*& he, hint& hint\)',
       c_sig='static void cb_release_hazard_era(struct tcb* self, struct hazard_era** he_p, struct hazard_era** hint_p)',
       subst=[(r'\bhint\b', '(*hint_p)', 'hint_ref'), (r'\bhe\b', '(*he_p)', 'he_ref')],
       must_fire={'method:release_guard': 1, 'method:set_link': 1, 'member:last_hazard_era': 2}),
  # ---- thread_data (impl 448-464, 500-506) ----
  dict(id='td_ensure_has_control_block', file=IMPL, sig=r'void ensure_has_control_block\(\)', c_sig='static void td_ensure_has_control_block(struct thread_data* self)',
       members=['control_block', 'hint'],
       methods={'acquire_inactive_entry': 'TBL_acquire_inactive_entry', 'initialize': 'CB_initialize', 'activate': 'CB_activate'},
       must_fire={'method:acquire_inactive_entry': 1, 'method:initialize': 1, 'method:activate': 1}),
  dict(id='td_alloc_hazard_era', file=IMPL, sig=r'HE alloc_hazard_era\(era_t era\)', c_sig='static struct hazard_era* td_alloc_hazard_era(struct thread_data* self, era_t era)',
       members=['control_block', 'hint'], methods={'alloc_hazard_era': 'CB_alloc_hazard_era'}, self_calls={'ensure_has_control_block': 'td_ensure_has_control_block'},
       must_fire={'method:alloc_hazard_era': 1, 'self_call:ensure_has_control_block': 1}),
  dict(id='td_release_hazard_era', file=IMPL, sig=r'void release_hazard_era\(HE& he\)', c_sig='static void td_release_hazard_era(struct thread_data* self, struct hazard_era** he_p)',
       members=['control_block', 'hint'], methods={'release_hazard_era': 'CB_release_hazard_era'}, subst=[(r'\bhe\b', '(*he_p)', 'he_ref')],
       must_fire={'method:release_hazard_era': 1}),
  dict(id='td_add_retired_node', file=IMPL, sig=r'std::size_t add_retired_node\(detail::deletable_object_with_eras\* p\)',
       c_sig='static size_t td_add_retired_node(struct thread_data* self, struct obj* p)', members=['retire_list', 'number_of_retired_nodes'],
       must_fire={'member:retire_list': 2, 'member:number_of_retired_nodes': 1}),
  # ---- guard_ptr (impl 24-183, detail/guard_ptr.hpp 16, 36-39) ----
  guard(id='g_ctor_ptr', file=IMPL, sig=G + r'guard_ptr\(const MarkedPtr& p\)', ctor=True, c_sig='static void g_ctor_ptr(struct guard* self, mptr p)',
        extra_post=[(r'XV_INIT_he\(self, \)', 'XV_INIT_he(self, 0)', 'init_null')],
        must_fire={'A_LOAD': 1, 'method:alloc_hazard_era': 1, 'subst:assign_after_throw_check': 1, 'ctor_init': 2, 'subst:init_null': 1}),
  guard(id='g_ctor_copy', file=IMPL, sig=G + r'guard_ptr\(const guard_ptr& p\)', ctor=True, c_sig='static void g_ctor_copy(struct guard* self, struct guard* p_p)',
        extra_post=[P_REF], must_fire={'method:add_guard': 1, 'ctor_init': 2}),
  guard(id='g_ctor_move', file=IMPL, sig=G + r'guard_ptr\(guard_ptr&& p\) noexcept', ctor=True, c_sig='static void g_ctor_move(struct guard* self, struct guard* p_p)',
        extra_post=[P_REF], must_fire={'method:reset': 1, 'ctor_init': 2}),
  guard(id='g_assign_copy', file=IMPL, sig=r'auto ' + G + r'operator=\(const guard_ptr& p\)', c_sig='static struct guard* g_assign_copy(struct guard* self, struct guard* p_p)',
        extra_post=[P_REF, (r'return \(\*self\);', 'return self;', 'ret_this')], must_fire={'self_call:reset': 1, 'method:add_guard': 1, 'subst:ret_this': 2}),
  guard(id='g_assign_move', file=IMPL, sig=r'auto ' + G + r'operator=\(guard_ptr&& p\)', c_sig='static struct guard* g_assign_move(struct guard* self, struct guard* p_p)',
        extra_post=[P_REF, (r'return \(\*self\);', 'return self;', 'ret_this')], must_fire={'self_call:reset': 1, 'method:reset': 1, 'subst:ret_this': 2}),
  guard(id='g_acquire', file=IMPL, sig=ACQ_SIG, c_sig='static void g_acquire(struct guard* self, mptr* p_p, int order)',
        extra_post=[P_REF], cut_loops={0: 'ACQ'},
        must_fire={'A_LOAD': 2, 'method:get_era': 2, 'method:guards': 1, 'method:set_era': 1, 'method:release_guard': 1, 'method:alloc_hazard_era': 1,
                   'subst:assign_after_throw_check': 1, 'cut_loop': 1}),
  guard(id='g_acquire_seq', file=IMPL, sig=ACQ_SIG, c_sig='static void g_acquire_seq(struct guard* self, mptr* p_p, int order)',
        extra_post=[P_REF], must_fire={'A_LOAD': 2, 'subst:assign_after_throw_check': 1}),
  guard(id='g_acquire_if_equal', file=IMPL, sig=AIE_SIG, c_sig='static _Bool g_acquire_if_equal(struct guard* self, mptr* p_p, mptr expected, int order)',
        extra_post=[P_REF],
        must_fire={'A_LOAD': 3, 'method:guards': 1, 'method:set_era': 1, 'method:release_guard': 1, 'method:alloc_hazard_era': 1, 'self_call:reset': 2,
                   'subst:assign_after_throw_check': 1}),
  guard(id='g_reset', file=IMPL, sig=r'void ' + G + r'reset\(\)', c_sig='static void g_reset(struct guard* self)',
        must_fire={'method:release_hazard_era': 1, 'method:reset': 1}),
  guard(id='g_do_swap', file=IMPL, sig=r'void ' + G + r'do_swap\(guard_ptr& g\)', c_sig='static void g_do_swap(struct guard* self, struct guard* g_p)',
        subst=[(r'std::swap\(he, g\.he\)', 'XV_SWAP_HE(he, (*g_p).he)', 'swap')], must_fire={'subst:swap': 1}),
  dict(id='g_swap', file=BASE, sig=r'void swap\(Derived& g\)', c_sig='static void g_swap(struct guard* self, struct guard* g_p)',
       subst=[(r'std::swap\(ptr, g\.ptr\)', 'XV_SWAP_PTR(self->ptr, (*g_p).ptr)', 'swap'), (r'self\(\)\.do_swap\(g\)', 'g_do_swap(self, g_p)', 'do_swap')],
       must_fire={'subst:swap': 1, 'subst:do_swap': 1}),
  dict(id='g_dtor', file=BASE, sig=r'~guard_ptr\(\)', c_sig='static void g_dtor(struct guard* self)',
       subst=[(r'self\(\)\.reset\(\)', 'g_reset(self)', 'reset')], must_fire={'subst:reset': 1}),
  guard(id='g_reclaim', file=IMPL, sig=r'void ' + G + r'reclaim\(Deleter d\)', c_sig='static void g_reclaim(struct guard* self, int d)',
        methods=dict(GUARD['methods'], get='MP_get_obj'),
        subst=[(r'allocation_strategy::retired_nodes_threshold\(\)', 'XV_retired_nodes_threshold()', 'threshold')],
        must_fire={'A_FADD': 1, 'self_call:reset': 1, 'method:set_deleter': 1, 'method:add_retired_node': 1, 'method:scan': 1}),
]

KS_QUICK = [1, 2, 3, 5]
RUNS = []
for k in KS_QUICK + [8]:
    tiers = ['quick', 'thorough'] if k in KS_QUICK else ['thorough']
    RUNS.append(dict(id='slots_K%d' % k, entry='h_slots', tiers=tiers, cls='shape-complete', defs={'XV_K': k}, unwind=k + 2,
                     note='K=%d slots, all loops over the K slots unwound completely; every value symbolic' % k))
    RUNS.append(dict(id='guards_K%d' % k, entry='h_guards', tiers=tiers, cls='shape-complete', defs={'XV_K': k}, unwind=k + 2))
    RUNS.append(dict(id='int_K%d' % k, entry='h_int', mode='INT', tiers=tiers, cls='shape-complete', defs={'XV_K': k}, unwind=k + 2,
                     note='retry loop of acquire cut by invariant ACQ; source cell and era_clock rewritten by the environment before every atomic access'))

UNIT = dict(
  title='hazard_eras: guard_ptr operations and hazard-era slots (C18, C15 guard part, C01 protect side)',
  properties=['C18', 'C15', 'C01'],
  drops='templates (T, MarkedPtr: an opaque word whose pointer part is selected by an arbitrary mask; Strategy::K = shape XV_K); '
        'marked_ptr<void*,1> of a slot is a record {word, link pointer, mark} (reading the wrong alternative yields an arbitrary value); '
        'thread_local thread_data is one global record; exceptions are a flag',
  assumptions=['stub thread_block_list::acquire_inactive_entry: returns a record whose slots all have guard_cnt == 0 and last_hazard_era == 0 (left-over or fresh), activate(): no effect on slots',
               'stub scan(): does not touch the hazard-era slots of the calling thread (reclaim side is unit he_scan)',
               'era_clock < 2^62 (one increment per reclaim)'],
  sources=SOURCES, runs=RUNS,
  obligations={},
  canaries=[],
)
