// guard_ptr::acquire (impl/hazard_eras.hpp:89-115) on a concurrent_ptr that holds nullptr leaves the (empty) guard in
// possession of a hazard era.  With the static strategy of K slots a thread then cannot hold K protecting guards:
// K-1 protecting guards + one empty guard, and the K-th protecting acquire throws bad_hazard_era_alloc.
// (hazard_pointer's acquire resets the guard in this case.)  exit 0: ok, 1: defect reproduced
#include "native_common.hpp"
template <size_t K> int run() {
  using E = hen::env<K>;
  typename E::Foo* objs[K]; typename E::cptr* ptrs[K];
  for (size_t i = 0; i < K; ++i) { objs[i] = new typename E::Foo(); ptrs[i] = new typename E::cptr(typename E::mptr(objs[i])); }
  typename E::cptr pnull{};
  typename E::gptr empty; empty.acquire(pnull);     // protects nothing
  printf("K=%zu: after acquire(nullptr source): get()=%p, he=%p\n", K, (void*)empty.get(), (void*)empty.he);
  int bad = 0;
  typename E::gptr g[K];
  for (size_t i = 0; i < K; ++i) {
    E::advance_era_without_slot();                   // another thread retires something between the acquisitions
    try { g[i].acquire(*ptrs[i]); }
    catch (const xenium::reclamation::bad_hazard_era_alloc&) {
      printf("DEFECT: K=%zu, protecting guard #%zu of %zu could not be acquired although only %zu guards protect something\n", K, i + 1, K, i); bad = 1; break; }
  }
  for (size_t i = 0; i < K; ++i) g[i].reset();
  return bad;
}
int main() { int bad = 0; bad |= run<1>(); bad |= run<2>(); bad |= run<3>(); bad |= run<5>(); return bad; }
