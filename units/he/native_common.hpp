// shared by the native demonstrations / replays of unit he: real xenium hazard_eras with a static strategy of K slots
#include <xenium/reclamation/hazard_eras.hpp>
#include <cstdio>
#include <cstdlib>
#include <cstring>
#include <map>
#include <string>
namespace hen {
using namespace xenium;
template <size_t K> struct strat : reclamation::he_allocation::static_strategy<K> {
  static constexpr size_t retired_nodes_threshold() { return 0; }   // scan on every reclaim (as in xenium's own tests)
};
template <size_t K> struct env {
  using HE = reclamation::hazard_eras<>::with<policy::allocation_strategy<strat<K>>>;
  struct Foo : HE::template enable_concurrent_ptr<Foo, 1> { bool* dead; explicit Foo(bool* d = nullptr) : dead(d) {} ~Foo() override { if (dead) *dead = true; } };
  using cptr = typename HE::template concurrent_ptr<Foo>; using gptr = typename cptr::guard_ptr; using mptr = typename cptr::marked_ptr;
  static void advance_era() { Foo* d = new Foo(); gptr g{mptr(d)}; g.reclaim(); }   // era_clock += 1 (needs one free slot for a moment)
  static void advance_era_without_slot() { HE::era_clock.fetch_add(1); }            // what a reclaim() of any other thread does
  static void retire(Foo* o) { o->retirement_era = HE::era_clock.fetch_add(1, std::memory_order_release); HE::local_thread_data().add_retired_node(o); HE::local_thread_data().scan(); }
};
}
