/* unit he - hazard_eras guard_ptr operations and hazard-era slots (C18, C15 guard part, C01 protect side).
 * Contracts, ghost state, invariant and harnesses only; every function body comes from lowered.h. */
#include <stdint.h>
#include <stddef.h>
#ifndef XV_K
#define XV_K 2
#endif
static void mon_load(void* addr, int order);
static void mon_store(void* addr, int order);
static void mon_fence(int order);
#define XV_ON_LOAD(addr, val, order) mon_load((void*)(addr), (order))
#define XV_ON_STORE(addr, val, order) mon_store((void*)(addr), (order))
#define XV_ON_FENCE(order) mon_fence(order)
#include "xv.h"
int xv_threw; uint64_t xv_clock, xv_rmw_old; _Bool xv_cas_ok;
#define XV_EXC_bad_hazard_era_alloc 1
#define TSAN_MEMORY_ORDER(tsan_order, normal_order) normal_order
#define XV_MAX(a, b) ((a) > (b) ? (a) : (b))

/* ---------------- types ---------------- */
typedef uint64_t era_t;
typedef uintptr_t mptr;                 /* MarkedPtr of a guard: opaque word; get() selects the pointer bits with an arbitrary mask */
struct hazard_era;
/* marked_ptr<void*,1> of a slot: either an era (word, mark 0) or a link (pointer, mark 1).  Contract of marked_ptr (unit mp):
 * get()/mark() return what the constructor was given; reading the other alternative yields an arbitrary value. */
struct hev { uintptr_t w; struct hazard_era* lp; unsigned char mark; };
struct hazard_era { struct hev value; uint64_t guard_cnt; };
static era_t slot_era(const struct hazard_era* s);
struct he_block { struct he_block* next; size_t size; };       /* dynamic strategy: header, the slots follow in memory */
typedef struct he_block xv_block_header_t;
struct tcb { struct hazard_era* last_hazard_era; era_t last_era; struct hazard_era eras[XV_K]; size_t total_number_of_hes; struct he_block* he_block; };
struct obj { struct obj* next; era_t construction_era, retirement_era; int deleter; unsigned set_deleter_calls; };
struct thread_data { struct obj* retire_list; size_t number_of_retired_nodes; struct hazard_era* hint; struct tcb* control_block; };
struct guard { mptr ptr; struct hazard_era* he; };

#define ERA_MAX ((era_t)1 << 62)
#define CNT_MAX ((uint64_t)1 << 62)

/* ---------------- the slot universe ---------------- */
struct tcb g_cb;                        /* the thread's control block (or the record acquire_inactive_entry will hand out) */
#ifdef XV_DYN
/* dynamic strategy, shape: at most two blocks exist beforehand (sizes K and K, as allocate_new_hazard_eras_block produces them), one more can be allocated */
#define XV_NEWMAX XV_MAX(XV_K, (3 * XV_K) / 2)
struct he_block_mem { struct he_block hdr; struct hazard_era slots[XV_NEWMAX]; };
struct he_block_mem g_blk[2], g_new;
#ifndef XV_NBLK
#define XV_NBLK 1
#endif
#define g_nblk XV_NBLK                  /* number of blocks that exist beforehand: a shape of the run */
_Bool g_new_used; size_t g_new_request;
#define NSLOT (3 * XV_K + XV_NEWMAX)
static struct hazard_era* SLOT(int i) {
  if (i < XV_K) return &g_cb.eras[i];
  if (i < 2 * XV_K) return &g_blk[0].slots[i - XV_K];
  if (i < 3 * XV_K) return &g_blk[1].slots[i - 2 * XV_K];
  return &g_new.slots[i - 3 * XV_K];
}
static _Bool slot_live(int i) {
  if (i < XV_K) return 1;
  if (i < 2 * XV_K) return g_nblk >= 1;
  if (i < 3 * XV_K) return g_nblk >= 2;
  return g_new_used && (size_t)(i - 3 * XV_K) < g_new.hdr.size;
}
#else
#define NSLOT XV_K
#define SLOT(i) (&g_cb.eras[i])
#define slot_live(i) 1
#endif
#define FOR_SLOT(i, p) for (int i = 0; i < NSLOT; i++) if (slot_live(i) && (p) == SLOT(i))   /* i is a constant in the body: no symbolic array index */

/* ---------------- global state of the model ---------------- */
struct thread_data g_td;
era_t era_clock; size_t g_number_of_active_hes; uintptr_t g_ptr_mask; int global_thread_block_list;
mptr g_src;                             /* the concurrent_ptr acquire reads */
era_t g_src_ctor;                        /* ghost: construction era of the object INCARNATION currently published in g_src (addresses are re-used: the same word can name a younger object later) */
struct guard ga, gb;                    /* operand guards */
uint64_t g_others[NSLOT];               /* ghost: number of live guards other than the operands that hold slot i */
struct obj g_obj; mptr g_obj_word; size_t g_threshold; unsigned g_scan_calls, g_acquire_entry_calls;

static struct hazard_era* slot_of(unsigned i) { for (int k = 0; k < NSLOT; k++) if (slot_live(k) && i == (unsigned)k) return SLOT(k); return (struct hazard_era*)0; }
static struct hazard_era* any_slot_or_null(void) { return slot_of(nondet_uint()); }
static _Bool in_universe(const struct hazard_era* p) { FOR_SLOT(i, p) return 1; return 0; }

/* ---------------- marked_ptr<void*,1> stub ---------------- */
static struct hev hev_make_era(uintptr_t x) {
  XV_XASSERT((x >> 63) == 0);          /* make_ptr: "bits reserved for masking are occupied by the pointer" */
  struct hev v; v.w = x; v.lp = any_slot_or_null(); v.mark = 0; return v; }
static struct hev hev_make_link(struct hazard_era* p, uintptr_t m) { struct hev v; v.w = nondet_uptr(); v.lp = p; v.mark = (unsigned char)(m & 1); return v; }
#define HEV_make(...) XV_PICK2(__VA_ARGS__, hev_make_link, hev_make_era)(__VA_ARGS__)
#define HEV_mark(v) ((v).mark)
#define HEV_get(v) ((v).w)
#define HEV_get_link(v) ((v).lp)

/* ---------------- call plumbing (the lowering passes receivers as lvalues) ---------------- */
static void he_set_era(struct hazard_era* self, era_t era);
static era_t he_get_era(struct hazard_era* self);
static uint64_t he_guards(struct hazard_era* self);
static uint64_t he_add_guard(struct hazard_era* self);
static uint64_t he_release_guard(struct hazard_era* self);
static _Bool he_try_get_era(struct hazard_era* self, era_t* result_p);
static void he_set_link(struct hazard_era* self, struct hazard_era* link);
static struct hazard_era* he_get_link(struct hazard_era* self);
static _Bool he_is_link(struct hazard_era* self);
#define HE_set_era(s, e) he_set_era(&(s), (e))
#define HE_get_era(s) he_get_era(&(s))
#define HE_guards(s) he_guards(&(s))
#define HE_add_guard(s) he_add_guard(&(s))
#define HE_release_guard(s) he_release_guard(&(s))
#define HE_set_link(s, l) he_set_link(&(s), (l))
#define HE_get_link(s) he_get_link(&(s))
#define HE_is_link(s) he_is_link(&(s))
static struct hazard_era* static_need_more_hes(struct tcb* self);
static size_t static_number_of_hes(struct tcb* self);
static struct hazard_era* static_initialize_next_block(struct tcb* self);
static struct hazard_era* dynamic_need_more_hes(struct tcb* self);
static size_t dynamic_number_of_hes(struct tcb* self);
static struct hazard_era* dynamic_initialize_next_block(struct tcb* self);
static struct hazard_era* dynamic_allocate_new_hazard_eras_block(struct tcb* self);
static struct hazard_era* cb_begin(struct tcb* self);
static struct hazard_era* cb_end(struct tcb* self);
static struct hazard_era* cb_initialize_block(struct tcb* block_p);
static void cb_initialize(struct tcb* self, struct hazard_era** hint_p);
static struct hazard_era* cb_alloc_hazard_era(struct tcb* self, struct hazard_era** hint_p, era_t era);
static void cb_release_hazard_era(struct tcb* self, struct hazard_era** he_p, struct hazard_era** hint_p);
static struct hazard_era* blk_begin(struct he_block* self);
static struct hazard_era* blk_end(struct he_block* self);
static struct hazard_era* blk_initialize_next_block(struct he_block* self);
static struct hazard_era* blk_initialize_block(struct he_block* block_p);
static void blk_ctor(struct he_block* self, size_t size);
#ifdef XV_DYN
#define CB_need_more_hes(self) dynamic_need_more_hes(self)
#define CB_number_of_hes(self) dynamic_number_of_hes(self)
#define CB_initialize_next_block(b) dynamic_initialize_next_block(&(b))
#else
#define CB_need_more_hes(self) static_need_more_hes(self)
#define CB_number_of_hes(self) static_number_of_hes(self)
#define CB_initialize_next_block(b) static_initialize_next_block(&(b))
#endif
#define CB_begin(b) cb_begin(&(b))
#define CB_end(b) cb_end(&(b))
#define BLK_begin(b) blk_begin(&(b))
#define BLK_end(b) blk_end(&(b))
#define BLK_initialize_next_block(b) blk_initialize_next_block(&(b))
#define CB_initialize(cb, hint) cb_initialize(&(cb), &(hint))
#define CB_activate(cb) ((void)0)
#define CB_alloc_hazard_era(cb, hint, era) cb_alloc_hazard_era(&(cb), &(hint), (era))
#define CB_release_hazard_era(cb, he, hint) cb_release_hazard_era(&(cb), &(he), &(hint))
#define XV_INIT_size(self, v) ((self)->size = (v))
/* reinterpret_cast<hazard_era*>(this + 1): the slots of a block start right behind its header (layout of the buffer obtained from operator new) */
static struct hazard_era* xv_slots_after(struct he_block* end_of_header) {
#ifdef XV_DYN
  /* (object, offset) comparisons: these fold to constants during symbolic execution when the header address is a constant */
  if (__CPROVER_POINTER_OBJECT(end_of_header) == __CPROVER_POINTER_OBJECT(&g_new) && __CPROVER_POINTER_OFFSET(end_of_header) == sizeof(struct he_block)) return g_new.slots;
  if (__CPROVER_POINTER_OBJECT(end_of_header) == __CPROVER_POINTER_OBJECT(g_blk) && __CPROVER_POINTER_OFFSET(end_of_header) == sizeof(struct he_block)) return g_blk[0].slots;
  if (__CPROVER_POINTER_OBJECT(end_of_header) == __CPROVER_POINTER_OBJECT(g_blk) && __CPROVER_POINTER_OFFSET(end_of_header) == sizeof(struct he_block_mem) + sizeof(struct he_block)) return g_blk[1].slots;
#endif
  XV_MODEL_ASSERT("slots_after: not a block header", 0);
  return (struct hazard_era*)0;
}
#define XV_CONSTRUCT_SLOT(it) ((it)->value.w = 0, (it)->value.lp = 0, (it)->value.mark = 0, (it)->guard_cnt = 0)   /* new (it) hazard_era: value{nullptr}, guard_cnt = 0 */
#ifdef XV_DYN
/* hazard_eras_block::operator new + placement new: hands out the storage g_new; the default member initialiser next = nullptr is applied here */
static void* xv_block_new(size_t bytes) { g_new_request = bytes; g_new_used = 1; return &g_new.hdr; }
static struct he_block* xv_block_ctor(void* buffer, size_t hes) { struct he_block* b = (struct he_block*)buffer; b->next = 0; blk_ctor(b, hes); return b; }
#define XV_BLOCK_NEW(bytes) xv_block_new(bytes)
#define XV_BLOCK_CTOR(buffer, hes) xv_block_ctor((buffer), (hes))
#else
#define XV_BLOCK_NEW(bytes) ((void*)0)
#define XV_BLOCK_CTOR(buffer, hes) ((struct he_block*)0)
#endif
/* stub of thread_block_list::acquire_inactive_entry: hands out the (fresh or left-over) record g_cb */
static struct tcb* xv_acquire_inactive_entry(void) { g_acquire_entry_calls++; return &g_cb; }
#define TBL_acquire_inactive_entry(list) xv_acquire_inactive_entry()
static void td_ensure_has_control_block(struct thread_data* self);
static struct hazard_era* td_alloc_hazard_era(struct thread_data* self, era_t era);
static void td_release_hazard_era(struct thread_data* self, struct hazard_era** he_p);
static size_t td_add_retired_node(struct thread_data* self, struct obj* p);
#define local_thread_data() g_td
#define TD_alloc_hazard_era(td, era) td_alloc_hazard_era(&(td), (era))
#define TD_release_hazard_era(td, he) td_release_hazard_era(&(td), &(he))
#define TD_add_retired_node(td, p) td_add_retired_node(&(td), (p))
#define TD_scan(td) (g_scan_calls++)   /* stub: the reclaim side never writes the calling thread's slots */
#define XV_retired_nodes_threshold() g_threshold
static void g_reset(struct guard* self);
static void g_do_swap(struct guard* self, struct guard* g_p);
static void g_base_do_swap(struct guard* self, struct guard* g_p);
#define MP_get(w) ((w) & g_ptr_mask)
#define MP_reset(x) ((x) = 0)
static struct obj* xv_obj_of(mptr w) { g_obj_word = w; return &g_obj; }
#define MP_get_obj(w) xv_obj_of(w)
#define OBJ_set_deleter(o, d) ((o).deleter = (d), (o).set_deleter_calls++)
#define XV_INIT_base(self, p) ((self)->ptr = (p))
#define XV_INIT_he(self, v) ((self)->he = (v))
#define XV_SWAP_HE(a, b) do { struct hazard_era* xv_s = (a); (a) = (b); (b) = xv_s; } while (0)
#define XV_SWAP_PTR(a, b) do { mptr xv_s = (a); (a) = (b); (b) = xv_s; } while (0)

/* ---------------- environment (INT): other threads change the source cell and advance the era clock ----------------
 * The environment writes only g_src and era_clock, and this thread reads them only through the loads monitored below,
 * so letting it act immediately before each such load is equivalent to letting it act before every atomic access
 * (its steps commute with all other steps of this thread); it keeps the number of symbolic era-clock values small. */
#ifdef XV_INT
_Bool env_on;
void xv_env(void) { }
static void env_act(void* addr) {
  if (!env_on) return;
  { era_t n = nondet_u64(); if (n >= era_clock && n < ERA_MAX) era_clock = n; }   /* rely: the era clock never decreases (it may advance before either load: the ghost construction era below relates the two cells) */
  if (addr == (void*)&g_src && nondet_bool()) {      /* somebody replaces the published object: any word (also the same address again = ABA), */
    g_src = nondet_uptr(); g_src_ctor = nondet_u64(); XV_ASSUME(g_src_ctor <= era_clock);   /* constructed before it was published, hence not after the current era */
  }
}
#else
#define env_act(addr) ((void)0)
#endif

/* ---------------- monitors ---------------- */
uint64_t mon_src_loads, mon_first_src_clk, mon_last_src_clk, mon_last_era_clk, mon_era_loads;
/* protect side of C01 for hazard eras, taken from what the reclaim side does (scan deletes a retired object unless some published era e has
 * construction_era <= e <= retirement_era): the object I the guard ends up with was published in the source at the load that produced the
 * result (time t).  I is retired after t, so retirement_era(I) >= era_clock(t).  Hence I is protected iff the guard's slot published, before t
 * and unchanged since, an era e with  construction_era(I) <= e <= era_clock(t). */
era_t mon_last_src_ctor, mon_last_src_eraclk, mon_last_src_slot_era; struct hazard_era* mon_last_src_he; uint64_t mon_last_slot_store_clk; _Bool mon_slot_stored;
mptr mon_first_src_val, mon_last_src_val; era_t mon_last_era_val; int mon_first_src_order, mon_last_src_order;
_Bool mon_unfenced_era_store, mon_src_load_unfenced, mon_last_slot_store_release = 1;
static void mon_load(void* addr, int order) {
  env_act(addr);
  if (addr == (void*)&g_src) {
    if (mon_src_loads == 0) { mon_first_src_clk = xv_clock; mon_first_src_val = g_src; mon_first_src_order = order; }
    mon_src_loads++; mon_last_src_clk = xv_clock; mon_last_src_val = g_src; mon_last_src_order = order; mon_src_load_unfenced = mon_unfenced_era_store;
    mon_last_src_ctor = g_src_ctor; mon_last_src_eraclk = era_clock; mon_last_src_he = ga.he; mon_last_src_slot_era = (ga.he != 0 && ga.he->value.mark == 0) ? slot_era(ga.he) : 0;
  }
  if (addr == (void*)&era_clock) { mon_era_loads++; mon_last_era_clk = xv_clock; mon_last_era_val = era_clock; }
}
int mon_blk_order = -1;      /* order of the store that publishes a new dynamic block (he_block) to the scanning threads */
static void mon_store(void* addr, int order) {
  if (addr == (void*)&g_cb.he_block) mon_blk_order = order;
  for (int i = 0; i < NSLOT; i++) if (slot_live(i) && addr == (void*)&SLOT(i)->value) {
    if (SLOT(i)->value.mark == 0) mon_unfenced_era_store = 1;          /* an era was published ... */
    mon_slot_stored = 1; mon_last_slot_store_clk = xv_clock;
    if (!XV_IS_RELEASE(order)) mon_last_slot_store_release = 0;
  }
}
static void mon_fence(int order) { if (order == mo_seq_cst) mon_unfenced_era_store = 0; }   /* ... and must be followed by a seq_cst fence */

/* ---------------- invariant Inv_K ---------------- */
unsigned char g_pos[NSLOT], g_height, g_at[NSLOT + 1];   /* g_at[h]: index of the free slot of height h (makes heights pairwise different without pairwise comparisons) */
static void witness_set(int i, unsigned char h) { g_pos[i] = h; for (int k = 1; k <= NSLOT; k++) if (h == k) g_at[k] = (unsigned char)i; }        /* ghost witness of the free chain: height of slot i above the chain end (0 = not on the chain), height of the head */
/* Carry the witness over a step.  Pushes and pops happen at the head only: a slot that stays free keeps its height; a slot taken from the
 * chain was the head; a slot that became free is the new head (it inherits the height of a slot taken in the same step).  Anything else
 * (two slots freed at once: initialize, a new block) gets its witness from the harness; otherwise the check below fails. */
static void witness_sync(void) {
  unsigned char npop = 0, npush = 0, popped_h = 0;
  for (int i = 0; i < NSLOT; i++) {
    if (!slot_live(i)) { g_pos[i] = 0; continue; }
    _Bool free_now = SLOT(i)->guard_cnt == 0;
    if (g_pos[i] > 0 && !free_now) { if (npop < 2) npop++; popped_h = g_pos[i]; g_pos[i] = 0; }
    if (g_pos[i] == 0 && free_now) { if (npush < 2) npush++; }
  }
  if (npop == 1 && npush == 0) g_height = g_height - 1;
  if (npop == 0 && npush == 1) g_height = g_height + 1;
  if (npush == 1 && npop <= 1)
    for (int i = 0; i < NSLOT; i++) if (g_pos[i] == 0 && slot_live(i) && SLOT(i)->guard_cnt == 0) witness_set(i, npop ? popped_h : g_height);
}
static era_t slot_era(const struct hazard_era* s) { return (era_t)(s->value.w >> 1); }
struct inv_res { _Bool count_ok, rest_ok; };
/* a, b: live operand guards (or NULL) */
_Bool g_no_sync;                        /* set while the invariant is ASSUMED: the nondeterministic witness is taken as it is */
static struct inv_res inv_eval(const struct guard* a, const struct guard* b) {
  struct inv_res r; r.count_ok = 1; r.rest_ok = 1;
  if (!(era_clock >= 1 && era_clock < ERA_MAX)) r.rest_ok = 0;
  if (a && a->he && !in_universe(a->he)) r.rest_ok = 0;
  if (b && b->he && !in_universe(b->he)) r.rest_ok = 0;
  if (g_td.control_block == 0) {
    /* no record yet: nobody holds a slot; g_cb is what acquire_inactive_entry will return (all counts 0, cache empty) */
    if ((a && a->he) || (b && b->he)) r.count_ok = 0;
    for (int i = 0; i < NSLOT; i++) if (slot_live(i)) { if (g_others[i] != 0 || SLOT(i)->guard_cnt != 0) r.count_ok = 0; }
    if (g_cb.last_hazard_era != 0) r.rest_ok = 0;
    for (int i = 0; i < NSLOT; i++) witness_set(i, i < XV_K ? (unsigned char)(XV_K - i) : 0);   /* witness for the chain initialize will build on first use */
    g_height = XV_K;
    return r;
  }
  if (g_td.control_block != &g_cb) { r.rest_ok = 0; return r; }
  /* the free chain: duplicate-free, inside the slot universe, null-terminated, and it contains exactly the slots nobody counts in.
   * Decided with the ghost witness (g_pos, g_height) instead of walking the chain: the head has height g_height, a slot of height 1
   * links to null, a slot of height h > 1 links to a free slot of height h-1, free slots have pairwise different heights in 1..g_height (g_at is a left inverse of g_pos).
   * Then the chain from hint visits g_height free slots of heights g_height..1 and ends, and no other free slot can exist. */
  if (!g_no_sync) witness_sync();
  _Bool on[NSLOT];
  for (int i = 0; i < NSLOT; i++) on[i] = slot_live(i) && g_pos[i] > 0;
  if (g_td.hint == 0) { if (g_height != 0) r.rest_ok = 0; }
  else { _Bool ok = 0; FOR_SLOT(i, g_td.hint) ok = on[i] && g_pos[i] == g_height; if (!ok) r.rest_ok = 0; }
  for (int i = 0; i < NSLOT; i++) if (on[i]) {
    if (!SLOT(i)->value.mark || g_pos[i] > g_height) r.rest_ok = 0;
    const struct hazard_era* l = SLOT(i)->value.lp;
    if (g_pos[i] == 1) { if (l != 0) r.rest_ok = 0; }
    else { _Bool ok = 0; FOR_SLOT(j, l) ok = on[j] && g_pos[j] + 1 == g_pos[i]; if (!ok) r.rest_ok = 0; }
    { _Bool ok = 0; for (int h = 1; h <= NSLOT; h++) if (g_pos[i] == h) ok = g_at[h] == i; if (!ok) r.rest_ok = 0; }    /* heights are injective */
  }
  for (int i = 0; i < NSLOT; i++) if (slot_live(i)) {
    const struct hazard_era* s = SLOT(i);
    uint64_t cnt = g_others[i] + ((a && a->he == s) ? 1 : 0) + ((b && b->he == s) ? 1 : 0);
    if (s->guard_cnt != cnt) r.count_ok = 0;                      /* guards(s) == number of live guards with he == s */
    if (on[i] != (s->guard_cnt == 0)) r.rest_ok = 0;              /* free <=> nobody counts in it */
    if (!on[i]) {                                                 /* held: publishes an era, no link tag */
      if (s->value.mark != 0) r.rest_ok = 0;
      if ((s->value.w & 1) != 0 || slot_era(s) == 0 || slot_era(s) > era_clock) r.rest_ok = 0;
    }
  }
  /* coherence of the last-era cache: it names a held slot, and last_era is an era that slot published: either it still publishes it, or
   * the single guard holding it has moved it forward with set_era (acquire, impl:103-107), which never updates last_era - then
   * last_era < era(slot) and, since eras requested from alloc_hazard_era never decrease, last_era cannot match a request any more. */
  if (g_cb.last_hazard_era != 0) {
    _Bool ok = 0;
    FOR_SLOT(i, g_cb.last_hazard_era) ok = !on[i] && g_cb.last_era >= 1 && g_cb.last_era <= slot_era(SLOT(i));
    if (!ok) r.rest_ok = 0;
  }
  return r;
}
static _Bool inv_ok(const struct guard* a, const struct guard* b) { struct inv_res r = inv_eval(a, b); return r.count_ok && r.rest_ok; }
static _Bool inv_assumed(const struct guard* a, const struct guard* b) { g_no_sync = 1; _Bool r = inv_ok(a, b); g_no_sync = 0; return r; }
/* a guard that holds an object holds a slot (GI1); a guard that holds nothing holds no slot (GI2) */
static _Bool gi1(const struct guard* g) { return MP_get(g->ptr) == 0 || g->he != 0; }
static _Bool gi2(const struct guard* g) { return g->he == 0 || g->ptr != 0; }

/* ---------------- pre-state snapshot and frames ---------------- */
uint64_t g_clk0; struct hazard_era pre_s[NSLOT]; struct tcb pre_cb; struct thread_data pre_td; struct guard pre_a, pre_b; era_t pre_clock; size_t pre_active;
static void snapshot(void) {
  for (int i = 0; i < NSLOT; i++) pre_s[i] = *SLOT(i);
  pre_cb.last_hazard_era = g_cb.last_hazard_era; pre_cb.last_era = g_cb.last_era; pre_cb.total_number_of_hes = g_cb.total_number_of_hes; pre_cb.he_block = g_cb.he_block;
  pre_td = g_td; pre_a = ga; pre_b = gb; pre_clock = era_clock; pre_active = g_number_of_active_hes;
}
/* every slot another guard relies on still publishes the era it published before (and is not a link) */
static _Bool others_intact(const struct guard* b) {
  for (int i = 0; i < NSLOT; i++) if (slot_live(i)) {
    _Bool relied = g_others[i] >= 1 || (b && pre_b.he == SLOT(i));
    if (relied && (SLOT(i)->value.mark != 0 || SLOT(i)->value.w != pre_s[i].value.w)) return 0;
  }
  return 1;
}
static _Bool slot_same(int i) {
  return SLOT(i)->guard_cnt == pre_s[i].guard_cnt && SLOT(i)->value.mark == pre_s[i].value.mark &&
         (pre_s[i].value.mark ? SLOT(i)->value.lp == pre_s[i].value.lp : SLOT(i)->value.w == pre_s[i].value.w);
}
static _Bool slots_same_except(const struct hazard_era* x) { for (int i = 0; i < NSLOT; i++) if (slot_live(i) && SLOT(i) != x && !slot_same(i)) return 0; return 1; }
/* nothing changed: slots, free chain, last-era cache (both fields), record, retire list, counters */
static _Bool cb_same(void) {
  return slots_same_except(0) && g_cb.last_hazard_era == pre_cb.last_hazard_era && g_cb.last_era == pre_cb.last_era &&
         g_cb.total_number_of_hes == pre_cb.total_number_of_hes && g_cb.he_block == pre_cb.he_block &&
         g_td.hint == pre_td.hint && g_td.control_block == pre_td.control_block && g_td.retire_list == pre_td.retire_list &&
         g_td.number_of_retired_nodes == pre_td.number_of_retired_nodes && g_number_of_active_hes == pre_active;
}
static _Bool guard_eq(const struct guard* x, const struct guard* y) { return x->ptr == y->ptr && x->he == y->he; }
static _Bool guard_empty(const struct guard* x) { return x->ptr == 0 && x->he == 0; }
static uint64_t pre_cnt(const struct hazard_era* s) { FOR_SLOT(i, s) return pre_s[i].guard_cnt; return 0; }
static era_t pre_era(const struct hazard_era* s) { FOR_SLOT(i, s) return (era_t)(pre_s[i].value.w >> 1); return 0; }
static struct hazard_era* pre_link(const struct hazard_era* s) { FOR_SLOT(i, s) return pre_s[i].value.lp; return 0; }
static uintptr_t pre_w(const struct hazard_era* s) { FOR_SLOT(i, s) return pre_s[i].value.w; return 0; }

/* inputs (also used by the native replay program) */
unsigned in_K, in_op, in_hint, in_last, in_a_he, in_b_he, in_has_cb, in_link[NSLOT], in_mark[NSLOT]; era_t in_last_era, in_clock, in_era[NSLOT]; uint64_t in_others[NSLOT];
mptr in_a_ptr, in_b_ptr, in_src, in_expected, in_mask; era_t in_req_era; int in_order; unsigned in_self, in_rel, in_harness;

static void havoc_guard(struct guard* g, unsigned* in_he, mptr* in_ptr) {
  *in_he = nondet_uint(); *in_ptr = nondet_uptr(); g->he = slot_of(*in_he); g->ptr = *in_ptr; }

/* havoc everything, then assume Inv_K with the live operand guards a, b */
static void havoc_state(const struct guard* a, const struct guard* b) {
  in_K = XV_K;
  in_has_cb = nondet_bool(); in_hint = nondet_uint(); in_last = nondet_uint(); in_last_era = nondet_u64(); in_clock = nondet_u64(); in_mask = nondet_uptr();
#ifdef XV_DYN
  g_new_used = 0; g_new_request = 0;
  in_has_cb = 1;      /* dynamic runs start from a thread that has its record (first use = initialize, checked by h_initialize); keeps the record address concrete */
  g_blk[0].hdr.next = 0; g_blk[0].hdr.size = XV_K; g_blk[1].hdr.next = &g_blk[0].hdr; g_blk[1].hdr.size = XV_K;
  g_new.hdr.next = any_slot_or_null() ? &g_blk[0].hdr : (struct he_block*)0; g_new.hdr.size = nondet_size();     /* raw storage */
  g_cb.he_block = g_nblk == 0 ? (struct he_block*)0 : &g_blk[g_nblk == 0 ? 0 : g_nblk - 1].hdr; g_cb.total_number_of_hes = XV_K * (1 + (size_t)g_nblk);
#else
  g_cb.total_number_of_hes = nondet_size(); g_cb.he_block = 0;
#endif
  g_td.control_block = in_has_cb ? &g_cb : (struct tcb*)0; g_td.hint = slot_of(in_hint);
  g_td.retire_list = nondet_bool() ? &g_obj : (struct obj*)0; g_td.number_of_retired_nodes = nondet_size(); XV_ASSUME(g_td.number_of_retired_nodes < CNT_MAX);
  g_cb.last_hazard_era = slot_of(in_last); g_cb.last_era = in_last_era;
  era_clock = in_clock; g_ptr_mask = in_mask; g_number_of_active_hes = nondet_size(); XV_ASSUME(g_number_of_active_hes < CNT_MAX); g_threshold = nondet_size();
  for (int i = 0; i < NSLOT; i++) {
    in_others[i] = nondet_u64(); in_era[i] = nondet_u64(); in_link[i] = nondet_uint(); in_mark[i] = nondet_bool();
    XV_ASSUME(in_era[i] < ERA_MAX && in_others[i] < CNT_MAX);   /* fewer than 2^62 guard objects */
    g_others[i] = slot_live(i) ? in_others[i] : 0;
    SLOT(i)->guard_cnt = nondet_u64(); g_pos[i] = nondet_uchar(); g_at[i + 1] = nondet_uchar(); g_height = nondet_uchar();
    SLOT(i)->value.mark = in_mark[i];
    SLOT(i)->value.lp = slot_of(in_link[i]);
    SLOT(i)->value.w = in_mark[i] ? nondet_uptr() : (uintptr_t)(in_era[i] << 1);
  }
  g_obj.next = 0; g_obj.construction_era = nondet_u64(); g_obj.retirement_era = nondet_u64(); g_obj.deleter = nondet_int(); g_obj.set_deleter_calls = 0;
  g_src = nondet_uptr(); g_scan_calls = 0; g_acquire_entry_calls = 0; xv_threw = 0; xv_clock = nondet_u64(); XV_ASSUME(xv_clock < CNT_MAX);
  mon_src_loads = 0; mon_era_loads = 0; mon_unfenced_era_store = 0; mon_src_load_unfenced = 0; mon_last_slot_store_release = 1;
  g_src_ctor = nondet_u64(); XV_ASSUME(g_src_ctor <= era_clock); mon_slot_stored = 0; mon_last_slot_store_clk = 0;
  XV_ASSUME(inv_assumed(a, b));
  if (a) XV_ASSUME(gi1(a) && gi2(a));
  if (b) XV_ASSUME(gi1(b) && gi2(b));
  snapshot();
}

/* checks common to every exit of every guard operation */
static void chk_exit(const struct guard* a, const struct guard* b) {
  struct inv_res r = inv_eval(a, b);
  XV_OBL("he.count.exact", r.count_ok);
  XV_OBL("he.guard_ops.preserve_inv", r.rest_ok);
  XV_OBL("he.guard_ops.others_intact", others_intact(b));
  XV_OBL("he.sync.publish_then_fence", !mon_unfenced_era_store && mon_last_slot_store_release);
}

/* loop invariant of acquire's retry loop (self = the guard, prev_era = local) */
#define XV_INV_ACQ (self == &ga && !xv_threw && inv_ok(&ga, &gb) && gi1(&ga) && others_intact(&gb) && guard_eq(&gb, &pre_b) \
   && (ga.he == 0 ? prev_era == 0 : prev_era == slot_era(ga.he)) \
   && !mon_unfenced_era_store && mon_last_slot_store_release && xv_clock >= g_clk0 && era_clock >= pre_clock && g_src_ctor <= era_clock && (!mon_slot_stored || mon_last_slot_store_clk <= xv_clock))
#define XV_HAVOC_ACQ acq_havoc(); XV_ASSUME(xv_clock < CNT_MAX && mon_src_loads < CNT_MAX && mon_era_loads < CNT_MAX); self->he = any_slot_or_null(); self->ptr = nondet_uptr(); prev_era = nondet_u64()
/* loop invariant of acquire_if_equal's publish-and-revalidate loop (p1 = the value of the last load of the source, prev_era = the era the guard's slot publishes).
 * The load that produced p1 lies BEFORE the loop head, so the facts about it that the exit needs are carried here. */
#define XV_INV_AIE (self == &ga && !xv_threw && inv_ok(&ga, &gb) && gi1(&ga) && others_intact(&gb) && guard_eq(&gb, &pre_b) \
   && (ga.he == 0 ? prev_era == 0 : prev_era == slot_era(ga.he)) \
   && !mon_unfenced_era_store && mon_last_slot_store_release && xv_clock >= g_clk0 && era_clock >= pre_clock && g_src_ctor <= era_clock \
   && p1 == expected && p1 != 0 && mon_src_loads >= 1 && mon_last_src_val == p1 && mon_last_src_clk >= g_clk0 && mon_last_src_clk <= xv_clock \
   && XV_IS_ACQUIRE(mon_last_src_order) && mon_last_src_order != mo_consume && !mon_src_load_unfenced \
   && mon_last_src_ctor <= mon_last_src_eraclk && mon_last_src_eraclk <= era_clock \
   && mon_last_src_he == ga.he && (ga.he == 0 || (mon_last_src_slot_era == slot_era(ga.he) && slot_era(ga.he) <= mon_last_src_eraclk)) \
   && (!mon_slot_stored || mon_last_slot_store_clk < mon_last_src_clk))
#define XV_HAVOC_AIE acq_havoc(); XV_ASSUME(xv_clock < CNT_MAX && mon_src_loads < CNT_MAX && mon_era_loads < CNT_MAX); self->he = any_slot_or_null(); self->ptr = nondet_uptr(); prev_era = nondet_u64(); p1 = nondet_uptr()
static void acq_havoc(void) {
  for (int i = 0; i < NSLOT; i++) {
    SLOT(i)->guard_cnt = nondet_u64(); SLOT(i)->value.mark = nondet_bool(); SLOT(i)->value.lp = any_slot_or_null(); SLOT(i)->value.w = nondet_uptr(); g_pos[i] = nondet_uchar(); g_at[i + 1] = nondet_uchar();
  }
  g_height = nondet_uchar();
  g_cb.last_hazard_era = any_slot_or_null(); g_cb.last_era = nondet_u64();
  g_td.hint = any_slot_or_null(); g_td.control_block = nondet_bool() ? &g_cb : (struct tcb*)0;
  g_number_of_active_hes = nondet_size(); g_acquire_entry_calls = nondet_uint();
  g_src = nondet_uptr(); era_clock = nondet_u64(); xv_clock = nondet_u64();
  mon_src_loads = nondet_u64(); mon_era_loads = nondet_u64(); mon_first_src_clk = nondet_u64(); mon_last_src_clk = nondet_u64(); mon_last_era_clk = nondet_u64();
  mon_first_src_val = nondet_uptr(); mon_last_src_val = nondet_uptr(); mon_last_era_val = nondet_u64(); mon_first_src_order = nondet_int(); mon_last_src_order = nondet_int();
  mon_unfenced_era_store = nondet_bool(); mon_src_load_unfenced = nondet_bool(); mon_last_slot_store_release = nondet_bool();
  g_src_ctor = nondet_u64(); mon_last_src_ctor = nondet_u64(); mon_last_src_eraclk = nondet_u64(); mon_last_src_slot_era = nondet_u64(); mon_last_src_he = any_slot_or_null();
  mon_last_slot_store_clk = nondet_u64(); mon_slot_stored = nondet_bool();
}

#include "lowered.h"

#ifndef XV_OPS_LO
#define XV_OPS_LO 0
#define XV_OPS_HI 99
#endif
#define XV_IN_GROUP(n) ((n) >= XV_OPS_LO && (n) <= XV_OPS_HI)     /* a run covers a group of operations */

/* =====================================================  slot level  ===================================================== */
#ifndef XV_DYN
/* alloc_hazard_era(era) from every state of Inv_K.  era was read from the era clock after every era this thread published. */
static void h_alloc(void) {
  havoc_state(0, 0);
  in_req_era = nondet_u64();
  XV_ASSUME(in_req_era >= 1 && in_req_era <= era_clock);
  if (g_td.control_block != 0 && g_cb.last_hazard_era != 0) XV_ASSUME(in_req_era >= slot_era(g_cb.last_hazard_era));
  struct hazard_era* r = td_alloc_hazard_era(&g_td, in_req_era);
  _Bool had_cb = pre_td.control_block != 0;
  _Bool share = had_cb && pre_cb.last_hazard_era != 0 && pre_cb.last_era == in_req_era;
  if (xv_threw) {
    XV_OBL("he.alloc.k_available", had_cb && !share && pre_td.hint == 0);      /* throws only when no slot is free and none can be shared */
    XV_OBL("he.alloc.exhausted_throws", xv_threw == XV_EXC_bad_hazard_era_alloc && r == 0 && cb_same() && inv_ok(0, 0));   /* nothing changed, cache included */
    XV_CANARY("alloc.throw");
  } else {
    XV_OBL("he.alloc.k_available", r != 0 && in_universe(r));
    XV_ASSUME(in_universe(r));
    XV_OBL("he.alloc.era_matches", r->value.mark == 0 && slot_era(r) == in_req_era);     /* fast path and slow path */
    XV_OBL("he.alloc.frame", (!had_cb || slots_same_except(r)) && r->guard_cnt == (had_cb ? pre_cnt(r) : 0) + 1);
    if (share) {
      XV_OBL("he.alloc.shares_same_era", r == pre_cb.last_hazard_era && g_td.hint == pre_td.hint && r->value.w == pre_w(r) &&
             g_cb.last_hazard_era == pre_cb.last_hazard_era && g_cb.last_era == pre_cb.last_era);
      XV_CANARY("alloc.share");
    } else if (had_cb) {
      XV_OBL("he.alloc.takes_chain_head", r == pre_td.hint && g_td.hint == pre_link(r) && r->guard_cnt == 1 &&
             g_cb.last_hazard_era == r && g_cb.last_era == in_req_era && g_acquire_entry_calls == 0);
      XV_CANARY("alloc.fresh");
    } else {
      XV_OBL("he.initialize.all_free", g_td.control_block == &g_cb && g_acquire_entry_calls == 1 && g_number_of_active_hes == pre_active + XV_K &&
             r == &g_cb.eras[0] && g_td.hint == (XV_K > 1 ? &g_cb.eras[1] : (struct hazard_era*)0));
      XV_CANARY("alloc.first_use");
    }
    FOR_SLOT(j, r) g_others[j]++;                    /* the caller becomes a live guard on r */
    struct inv_res res = inv_eval(0, 0);
    XV_OBL("he.count.exact", res.count_ok);
    XV_OBL("he.guard_ops.preserve_inv", res.rest_ok);
    XV_OBL("he.sync.publish_then_fence", !mon_unfenced_era_store && mon_last_slot_store_release);
  }
}

static void h_release(void) {
  havoc_state(0, 0);
  in_rel = nondet_uint();
  struct hazard_era* he = slot_of(in_rel);
  FOR_SLOT(s, he) { XV_ASSUME(g_others[s] >= 1); g_others[s]--; }   /* the releasing guard is one of the live guards on the slot */
  struct hazard_era* he0 = he;
  td_release_hazard_era(&g_td, &he);
  XV_OBL("he.release.returns_slot", he == 0 && !xv_threw);
  if (he0 == 0) { XV_OBL("he.release.returns_slot", cb_same()); XV_CANARY("release.null"); }
  else {
    XV_OBL("he.release.returns_slot", slots_same_except(he0) && he0->guard_cnt == pre_cnt(he0) - 1);
    if (pre_cnt(he0) == 1) {
      XV_OBL("he.release.returns_slot", g_td.hint == he0 && he0->value.mark == 1 && he0->value.lp == pre_td.hint &&
             g_cb.last_hazard_era == (pre_cb.last_hazard_era == he0 ? (struct hazard_era*)0 : pre_cb.last_hazard_era));
      XV_CANARY("release.to_zero");
    } else {
      XV_OBL("he.release.returns_slot", g_td.hint == pre_td.hint && he0->value.w == pre_w(he0) && he0->value.mark == 0 &&
             g_cb.last_hazard_era == pre_cb.last_hazard_era && g_cb.last_era == pre_cb.last_era);
      XV_CANARY("release.shared");
    }
    struct inv_res res = inv_eval(0, 0);
    XV_OBL("he.count.exact", res.count_ok);
    XV_OBL("he.guard_ops.preserve_inv", res.rest_ok);
    XV_OBL("he.guard_ops.others_intact", others_intact(0));
  }
}

/* from "all free": K allocations with pairwise different eras succeed and return pairwise different slots; one more throws */
static void h_alloc_k(void) {
  havoc_state(0, 0);
  XV_ASSUME(g_td.control_block != 0);
  for (int i = 0; i < XV_K; i++) XV_ASSUME(g_cb.eras[i].guard_cnt == 0);
  struct hazard_era* got[XV_K + 1]; era_t e = nondet_u64(); XV_ASSUME(e >= 1 && e < ERA_MAX && e + XV_K + 1 <= era_clock);
  _Bool ok = 1;
  for (int i = 0; i < XV_K; i++) {
    got[i] = td_alloc_hazard_era(&g_td, e + i);
    ok = ok && !xv_threw && got[i] != 0 && in_universe(got[i]);
    XV_ASSUME(got[i] == 0 || in_universe(got[i]));
    ok = ok && got[i]->value.mark == 0 && slot_era(got[i]) == e + i && got[i]->guard_cnt == 1;
    for (int j = 0; j < i; j++) ok = ok && got[j] != got[i];
  }
  for (int i = 0; i < XV_K; i++) ok = ok && slot_era(got[i]) == e + i;      /* earlier allocations were not disturbed by later ones */
  XV_OBL("he.alloc.k_available", ok);
  got[XV_K] = td_alloc_hazard_era(&g_td, e + XV_K);
  XV_OBL("he.alloc.exhausted_throws", xv_threw == XV_EXC_bad_hazard_era_alloc && got[XV_K] == 0);
  XV_CANARY("alloc_k.done");
}
#endif

/* initialize on an arbitrary left-over record: every slot (of every block) ends up on the free chain exactly once */
static void h_initialize(void) {
  havoc_state(0, 0);
  for (int i = 0; i < NSLOT; i++) { XV_ASSUME(SLOT(i)->guard_cnt == 0); g_others[i] = 0; SLOT(i)->value.w = nondet_uptr(); SLOT(i)->value.lp = any_slot_or_null(); SLOT(i)->value.mark = nondet_bool(); }
  size_t act = g_number_of_active_hes;
  g_td.hint = any_slot_or_null();
  cb_initialize(&g_cb, &g_td.hint);
  g_td.control_block = &g_cb; g_cb.last_hazard_era = 0;
  /* expected chain: the record's own K slots, then the blocks from the newest to the oldest, each in address order */
  { unsigned char h = XV_K;
#ifdef XV_DYN
    h = XV_K * (1 + g_nblk);
#endif
    g_height = h;
    for (int i = 0; i < NSLOT; i++) g_pos[i] = 0;
    for (int i = 0; i < XV_K; i++) witness_set(i, h--);
#ifdef XV_DYN
    for (int b = 1; b >= 0; b--) if ((int)g_nblk > b) for (int i = 0; i < XV_K; i++) witness_set((1 + b) * XV_K + i, h--);
#endif
  }
  _Bool ok = 1; const struct hazard_era* p = g_td.hint; unsigned n = 0;
  for (int i = 0; i < XV_K; i++) { ok = ok && p == &g_cb.eras[i] && p->value.mark == 1 && p->guard_cnt == 0; if (ok) p = p->value.lp; n++; }
#ifdef XV_DYN
  for (int b = 1; b >= 0; b--) if ((int)g_nblk > b)
    for (int i = 0; i < XV_K; i++) { ok = ok && p == &g_blk[b].slots[i] && p->value.mark == 1 && p->guard_cnt == 0; if (ok) p = p->value.lp; n++; }
  XV_OBL("he.initialize.all_free", g_number_of_active_hes == act + XV_K * (1 + (size_t)g_nblk) && g_cb.total_number_of_hes == XV_K * (1 + (size_t)g_nblk));
#else
  XV_OBL("he.initialize.all_free", g_number_of_active_hes == act + XV_K);
#endif
  XV_OBL("he.initialize.all_free", ok && p == 0 && !xv_threw && inv_ok(0, 0));
  XV_CANARY("initialize.done");
}

static void h_slot(void) {
  struct hazard_era s; s.guard_cnt = nondet_u64(); s.value.w = nondet_uptr(); s.value.lp = any_slot_or_null(); s.value.mark = nondet_bool();
  mon_unfenced_era_store = 0; mon_last_slot_store_release = 1; xv_clock = 0;
  uint64_t c0 = s.guard_cnt;
  if (nondet_bool()) {
    era_t e = nondet_u64(); XV_ASSUME(e >= 1 && e < ERA_MAX);
    he_set_era(&s, e);
    era_t r = 0; _Bool got = he_try_get_era(&s, &r);
    XV_OBL("he.slot.roundtrip", got && r == e && he_get_era(&s) == e && !he_is_link(&s) && s.guard_cnt == c0);
    XV_CANARY("slot.era");
  } else {
    struct hazard_era* l = any_slot_or_null(); XV_ASSUME(c0 == 0);
    he_set_link(&s, l);
    era_t r = nondet_u64(), r0 = r; _Bool got = he_try_get_era(&s, &r);
    XV_OBL("he.slot.roundtrip", !got && r == r0 && he_is_link(&s) && he_get_link(&s) == l && s.guard_cnt == c0);
    XV_CANARY("slot.link");
  }
  XV_ASSUME(c0 >= 1 && c0 < CNT_MAX);
  XV_OBL("he.slot.roundtrip", he_guards(&s) == c0 && he_add_guard(&s) == c0 + 1 && he_guards(&s) == c0 + 1 && he_release_guard(&s) == c0 && he_release_guard(&s) == c0 - 1 && he_guards(&s) == c0 - 1);
}

#ifdef XV_DYN
/* dynamic strategy: alloc_hazard_era never throws; with an empty free chain a new block is allocated */
static void h_dyn_alloc(void) {
  havoc_state(0, 0);
  XV_ASSUME(g_td.control_block != 0);
  in_req_era = nondet_u64();
  XV_ASSUME(in_req_era >= 1 && in_req_era <= era_clock);
  if (g_cb.last_hazard_era != 0) XV_ASSUME(in_req_era >= slot_era(g_cb.last_hazard_era));
  size_t total0 = g_cb.total_number_of_hes; struct he_block* head0 = g_cb.he_block;
  struct hazard_era* r = td_alloc_hazard_era(&g_td, in_req_era);
  _Bool share = pre_cb.last_hazard_era != 0 && pre_cb.last_era == in_req_era;
  XV_OBL("he.dyn.never_throws", !xv_threw && r != 0 && in_universe(r));
  XV_ASSUME(!xv_threw && in_universe(r));
  XV_OBL("he.alloc.era_matches", r->value.mark == 0 && slot_era(r) == in_req_era);
  if (!share && pre_td.hint == 0) {
    size_t hes = XV_MAX((size_t)XV_K, total0 / 2);
    XV_OBL("he.dyn.new_block", g_new_used && g_new_request == sizeof(struct he_block) + hes * sizeof(struct hazard_era) && hes <= XV_NEWMAX && g_new.hdr.size == hes);
    XV_OBL("he.dyn.new_block", g_cb.total_number_of_hes == total0 + hes && g_number_of_active_hes == pre_active + hes &&
           g_cb.he_block == &g_new.hdr && g_new.hdr.next == head0);
    XV_OBL("he.dyn.new_block", r == &g_new.slots[0] && r->guard_cnt == 1 && g_td.hint == (hes > 1 ? &g_new.slots[1] : (struct hazard_era*)0));
    _Bool old_same = 1; for (int i = 0; i < 3 * XV_K; i++) if (slot_live(i)) old_same = old_same && slot_same(i);
    XV_OBL("he.dyn.new_block", old_same);
    XV_OBL("he.dyn.new_block", XV_IS_RELEASE(mon_blk_order));      /* sync: the initialised block is published by a release store (8) */
    for (int j = 0; j < XV_NEWMAX; j++) witness_set(3 * XV_K + j, (size_t)j < hes && j > 0 ? (unsigned char)(hes - j) : 0);    /* witness for the chain of the new block */
    g_height = (unsigned char)(hes - 1);
    XV_CANARY("dyn.new_block");
  } else {
    XV_OBL("he.dyn.new_block", !g_new_used && g_cb.total_number_of_hes == total0 && g_cb.he_block == head0 && g_number_of_active_hes == pre_active && slots_same_except(r));
    XV_CANARY("dyn.no_new_block");
  }
  XV_OBL("he.guard_ops.others_intact", others_intact(0));
  FOR_SLOT(j, r) g_others[j]++;
  struct inv_res res = inv_eval(0, 0);
  XV_OBL("he.count.exact", res.count_ok);
  XV_OBL("he.guard_ops.preserve_inv", res.rest_ok);
}
void h_dyn(void) {
  in_harness = 4; in_op = nondet_uint();
#if XV_IN_GROUP(0)
  if (in_op == 0) h_dyn_alloc();
#endif
#if XV_IN_GROUP(1)
  if (in_op == 1) h_initialize();
#endif
}
#else
void h_slots(void) {
  in_harness = 1; in_op = nondet_uint();
#if XV_IN_GROUP(0)
  if (in_op == 0) h_alloc();
#endif
#if XV_IN_GROUP(1)
  if (in_op == 1) h_release();
#endif
#if XV_IN_GROUP(2)
  if (in_op == 2) h_initialize();
#endif
#if XV_IN_GROUP(3)
  if (in_op == 3) h_alloc_k();
#endif
#if XV_IN_GROUP(4)
  if (in_op == 4) h_slot();
#endif
}
#endif

#ifndef XV_DYN
/* =====================================================  guard level (SEQ)  ===================================================== */
static void chk_guard_pair(void) { chk_exit(&ga, &gb); XV_OBL("he.guard_ops.holds_slot_iff_protecting", gi1(&ga) && gi1(&gb)); }

/* the slot a guard gives up: count-1, back on the chain head exactly when the count drops to 0 */
static void chk_released(const struct hazard_era* old, _Bool took_new_slot) {
  if (old == 0) return;
  XV_ASSUME(in_universe(old));
  uint64_t c = pre_cnt(old) - 1;
  XV_OBL("he.release.returns_slot", old->guard_cnt == c);
  if (c == 0) XV_OBL("he.release.returns_slot", g_td.hint == old && old->value.mark == 1 && old->value.lp == pre_td.hint);
  else XV_OBL("he.release.returns_slot", old->value.mark == 0 && old->value.w == pre_w(old) && (took_new_slot || g_td.hint == pre_td.hint));
}

static void op_ctor_ptr(void) {
  havoc_guard(&gb, &in_b_he, &in_b_ptr); havoc_state(0, &gb);
  in_a_ptr = nondet_uptr(); ga.ptr = nondet_uptr(); ga.he = any_slot_or_null();    /* raw storage */
  g_ctor_ptr(&ga, in_a_ptr);
  if (MP_get(in_a_ptr) == 0) {
    XV_OBL("he.ctor.protects", !xv_threw && ga.ptr == in_a_ptr && ga.he == 0 && cb_same()); chk_guard_pair(); XV_CANARY("ctor_ptr.null");
  } else if (xv_threw) {
    XV_OBL("he.alloc.exhausted_throws", xv_threw == XV_EXC_bad_hazard_era_alloc && cb_same() && pre_td.hint == 0 && pre_td.control_block != 0);
    chk_exit(0, &gb); XV_CANARY("ctor_ptr.throw");
  } else {
    XV_OBL("he.ctor.protects", ga.ptr == in_a_ptr && ga.he != 0 && ga.he->value.mark == 0 && slot_era(ga.he) == era_clock && era_clock == pre_clock);
    chk_guard_pair(); XV_OBL("he.guard_ops.empty_holds_no_slot", gi2(&ga));
    if (ga.he == gb.he) XV_CANARY("ctor_ptr.shared"); else XV_CANARY("ctor_ptr.fresh");
  }
  XV_OBL("he.guard_ops.operand_frame", guard_eq(&gb, &pre_b));
}

static void op_ctor_copy(void) {
  havoc_guard(&gb, &in_b_he, &in_b_ptr); havoc_state(0, &gb);
  ga.ptr = nondet_uptr(); ga.he = any_slot_or_null();
  g_ctor_copy(&ga, &gb);
  XV_OBL("he.copy.shares", !xv_threw && guard_eq(&ga, &pre_b) && guard_eq(&gb, &pre_b) && g_td.hint == pre_td.hint &&
         g_cb.last_hazard_era == pre_cb.last_hazard_era && g_cb.last_era == pre_cb.last_era);
  if (gb.he) { XV_OBL("he.copy.shares", gb.he->guard_cnt == pre_cnt(gb.he) + 1 && gb.he->value.w == pre_w(gb.he) && slots_same_except(gb.he)); XV_CANARY("copy.shared"); }
  else { XV_OBL("he.copy.shares", cb_same()); XV_CANARY("copy.empty"); }
  chk_guard_pair(); XV_OBL("he.guard_ops.empty_holds_no_slot", gi2(&ga) && gi2(&gb));
}

static void op_ctor_move(void) {
  havoc_guard(&gb, &in_b_he, &in_b_ptr); havoc_state(0, &gb);
  ga.ptr = nondet_uptr(); ga.he = any_slot_or_null();
  g_ctor_move(&ga, &gb);
  XV_OBL("he.move.empties_source", !xv_threw && guard_eq(&ga, &pre_b) && guard_empty(&gb) && cb_same());
  chk_exit(&ga, &gb); XV_OBL("he.guard_ops.holds_slot_iff_protecting", gi1(&ga) && gi2(&ga));
  if (ga.he) XV_CANARY("move.held"); else XV_CANARY("move.empty");
}

static void op_assign_copy(void) {
  havoc_guard(&ga, &in_a_he, &in_a_ptr); havoc_guard(&gb, &in_b_he, &in_b_ptr);
  in_self = nondet_bool();
  if (in_self) {                                           /* self assignment */
    havoc_state(&ga, 0);
    struct guard* r = g_assign_copy(&ga, &ga);
    XV_OBL("he.self_assign.noop", r == &ga && !xv_threw && guard_eq(&ga, &pre_a) && cb_same());
    chk_exit(&ga, 0); XV_CANARY("assign_copy.self");
    return;
  }
  havoc_state(&ga, &gb);
  struct guard* r = g_assign_copy(&ga, &gb);
  XV_OBL("he.copy.shares", r == &ga && !xv_threw && guard_eq(&ga, &pre_b) && guard_eq(&gb, &pre_b));
  if (pre_a.he != pre_b.he) {
    chk_released(pre_a.he, 0);
    if (pre_b.he) XV_OBL("he.copy.shares", pre_b.he->guard_cnt == pre_cnt(pre_b.he) + 1);
    XV_CANARY("assign_copy.other_slot");
  } else { XV_OBL("he.copy.shares", cb_same()); if (pre_a.he) XV_CANARY("assign_copy.same_slot"); }
  chk_guard_pair(); XV_OBL("he.guard_ops.empty_holds_no_slot", gi2(&ga) && gi2(&gb));
}

static void op_assign_move(void) {
  havoc_guard(&ga, &in_a_he, &in_a_ptr); havoc_guard(&gb, &in_b_he, &in_b_ptr);
  in_self = nondet_bool();
  if (in_self) {
    havoc_state(&ga, 0);
    struct guard* r = g_assign_move(&ga, &ga);
    XV_OBL("he.self_assign.noop", r == &ga && !xv_threw && guard_eq(&ga, &pre_a) && cb_same());
    chk_exit(&ga, 0); XV_CANARY("assign_move.self");
    return;
  }
  havoc_state(&ga, &gb);
  struct guard* r = g_assign_move(&ga, &gb);
  XV_OBL("he.move.empties_source", r == &ga && !xv_threw && guard_eq(&ga, &pre_b) && guard_empty(&gb));
  chk_released(pre_a.he, 0);
  if (pre_a.he == 0) XV_OBL("he.move.empties_source", cb_same());
  chk_exit(&ga, &gb);                /* others_intact(&gb): the slot gb handed over to ga still publishes its era */
  XV_OBL("he.guard_ops.holds_slot_iff_protecting", gi1(&ga) && gi2(&ga));
  XV_CANARY("assign_move.other");
}

static void op_reset(void) {
  havoc_guard(&ga, &in_a_he, &in_a_ptr); havoc_guard(&gb, &in_b_he, &in_b_ptr); havoc_state(&ga, &gb);
  _Bool dtor = nondet_bool();
  if (dtor) g_dtor(&ga); else g_reset(&ga);
  XV_OBL("he.reset.releases", !xv_threw && guard_empty(&ga) && guard_eq(&gb, &pre_b) && slots_same_except(pre_a.he));
  chk_released(pre_a.he, 0);
  if (pre_a.he == 0) { XV_OBL("he.reset.releases", cb_same()); XV_CANARY("reset.empty"); }
  else if (g_td.hint == pre_a.he) XV_CANARY("reset.to_zero"); else XV_CANARY("reset.shared");
  if (dtor) { chk_exit(0, &gb); XV_CANARY("reset.dtor"); } else chk_guard_pair();
  /* a second reset changes nothing */
  snapshot();
  g_reset(&ga);
  XV_OBL("he.reset.idempotent", !xv_threw && guard_empty(&ga) && cb_same() && guard_eq(&gb, &pre_b));
}

static void op_swap(void) {
  havoc_guard(&ga, &in_a_he, &in_a_ptr); havoc_guard(&gb, &in_b_he, &in_b_ptr); havoc_state(&ga, &gb);
  g_swap(&ga, &gb);
  XV_OBL("he.swap.exchanges", !xv_threw && guard_eq(&ga, &pre_b) && guard_eq(&gb, &pre_a) && cb_same());
  struct inv_res res = inv_eval(&ga, &gb);
  XV_OBL("he.count.exact", res.count_ok); XV_OBL("he.guard_ops.preserve_inv", res.rest_ok);
  XV_OBL("he.guard_ops.holds_slot_iff_protecting", gi1(&ga) && gi1(&gb) && gi2(&ga) && gi2(&gb));
  XV_CANARY("swap.done");
}

static void op_reclaim(void) {
  havoc_guard(&ga, &in_a_he, &in_a_ptr); havoc_guard(&gb, &in_b_he, &in_b_ptr); havoc_state(&ga, &gb);
  XV_ASSUME(MP_get(ga.ptr) != 0);                    /* precondition of reclaim: the guard holds an object */
  XV_ASSUME(era_clock + 1 < ERA_MAX);
  int d = nondet_int(); struct obj* rl0 = g_td.retire_list; size_t n0 = g_td.number_of_retired_nodes;
  g_reclaim(&ga, d);
  XV_OBL("he.reclaim.retires_then_empty", !xv_threw && guard_empty(&ga) && guard_eq(&gb, &pre_b) && g_obj_word == pre_a.ptr);
  XV_OBL("he.reclaim.retires_then_empty", g_obj.retirement_era == pre_clock && era_clock == pre_clock + 1 && g_obj.deleter == d && g_obj.set_deleter_calls == 1);
  XV_OBL("he.reclaim.retires_then_empty", g_td.retire_list == &g_obj && g_obj.next == rl0 && g_td.number_of_retired_nodes == n0 + 1 &&
         g_scan_calls == ((n0 + 1 >= g_threshold) ? 1 : 0));
  chk_released(pre_a.he, 0);
  chk_guard_pair();
  if (g_scan_calls) XV_CANARY("reclaim.scan"); else XV_CANARY("reclaim.noscan");
}

/* a (re-)acquisition at era `era` needs a slot from the chain: its own slot cannot be kept and nothing can be shared */
static _Bool needs_fresh_slot(era_t era) {
  _Bool own_reusable = pre_a.he != 0 && (pre_era(pre_a.he) == era || pre_cnt(pre_a.he) == 1);
  _Bool share = pre_td.control_block != 0 && pre_cb.last_hazard_era != 0 && pre_cb.last_era == era;
  return !own_reusable && !share;
}

static void op_acquire(void) {
  havoc_guard(&ga, &in_a_he, &in_a_ptr); havoc_guard(&gb, &in_b_he, &in_b_ptr); havoc_state(&ga, &gb);
  in_src = g_src; in_order = nondet_int(); XV_ASSUME(in_order == mo_relaxed || in_order == mo_consume || in_order == mo_acquire || in_order == mo_seq_cst);   /* orders valid for a load */
  g_acquire_seq(&ga, &g_src, in_order);
  XV_OBL("he.guard_ops.operand_frame", guard_eq(&gb, &pre_b) && g_src == in_src && era_clock == pre_clock);
  if (xv_threw) {
    XV_OBL("he.alloc.exhausted_throws", xv_threw == XV_EXC_bad_hazard_era_alloc && needs_fresh_slot(pre_clock) && pre_td.hint == 0 && pre_td.control_block != 0);
    XV_OBL("he.acquire.null_holds_no_slot", MP_get(in_src) != 0);      /* nothing to protect: no slot needed, so no exception either */
    chk_exit(&ga, &gb);
    /* after the throw the guard neither names an object it no longer protects nor a slot it does not count in */
    struct inv_res res = inv_eval(&ga, &gb);
    XV_OBL("he.acquire.exc_safe", gi1(&ga) && res.count_ok);
    XV_CANARY("acquire.throw");
  } else {
    XV_OBL("he.acquire.snapshot", ga.ptr == in_src);
    if (MP_get(in_src) != 0) XV_OBL("he.acquire.era_stable", ga.he != 0 && ga.he->value.mark == 0 && slot_era(ga.he) == era_clock);
    XV_OBL("he.acquire.null_holds_no_slot", gi2(&ga));
    chk_guard_pair();
    if (pre_a.he != 0 && ga.he != pre_a.he) chk_released(pre_a.he, 1);
    if (pre_a.he != 0 && ga.he == pre_a.he && pre_era(pre_a.he) != era_clock) XV_CANARY("acquire.reuse_own");
#if XV_K > 1
    if (pre_a.he != 0 && ga.he != pre_a.he && ga.he != 0) XV_CANARY("acquire.left_shared");
#endif
    if (pre_a.he == 0 && ga.he == gb.he && ga.he != 0) XV_CANARY("acquire.share_last");
    if (in_src == 0) XV_CANARY("acquire.null");
  }
}

static void op_acquire_if_equal(void) {
  havoc_guard(&ga, &in_a_he, &in_a_ptr); havoc_guard(&gb, &in_b_he, &in_b_ptr); havoc_state(&ga, &gb);
  in_src = g_src; in_expected = nondet_uptr(); in_order = nondet_int(); XV_ASSUME(in_order == mo_relaxed || in_order == mo_consume || in_order == mo_acquire || in_order == mo_seq_cst);
  _Bool r = g_acquire_if_equal_seq(&ga, &g_src, in_expected, in_order);
  XV_OBL("he.guard_ops.operand_frame", guard_eq(&gb, &pre_b) && g_src == in_src && era_clock == pre_clock);
  if (xv_threw) {
    XV_OBL("he.alloc.exhausted_throws", xv_threw == XV_EXC_bad_hazard_era_alloc && in_src == in_expected && in_src != 0 && pre_td.hint == 0 && pre_td.control_block != 0 &&
           !(pre_a.he != 0 && pre_cnt(pre_a.he) == 1));
    chk_exit(&ga, &gb);
    struct inv_res res = inv_eval(&ga, &gb);
    XV_OBL("he.acquire_if_equal.exc_safe", gi1(&ga) && res.count_ok);
    XV_CANARY("aie.throw");
  } else {
    XV_OBL("he.acquire_if_equal.iff", r == (in_src == in_expected));
    if (r) {
      XV_OBL("he.acquire_if_equal.iff", ga.ptr == in_expected);
      if (in_src != 0) { XV_OBL("he.acquire.era_stable", ga.he != 0 && ga.he->value.mark == 0 && slot_era(ga.he) == era_clock); XV_CANARY("aie.true"); }
      else XV_CANARY("aie.true_null");
    } else { XV_OBL("he.acquire_if_equal.iff", guard_empty(&ga)); XV_CANARY("aie.false"); }
    if (pre_a.he != 0 && ga.he != pre_a.he) chk_released(pre_a.he, 1);
    chk_guard_pair(); XV_OBL("he.guard_ops.empty_holds_no_slot", gi2(&ga));
  }
}

void h_guards(void) {
  in_harness = 2; in_op = nondet_uint();
#if XV_IN_GROUP(0)
  if (in_op == 0) op_ctor_ptr();
#endif
#if XV_IN_GROUP(1)
  if (in_op == 1) op_ctor_copy();
#endif
#if XV_IN_GROUP(2)
  if (in_op == 2) op_ctor_move();
#endif
#if XV_IN_GROUP(3)
  if (in_op == 3) op_assign_copy();
#endif
#if XV_IN_GROUP(4)
  if (in_op == 4) op_assign_move();
#endif
#if XV_IN_GROUP(5)
  if (in_op == 5) op_reset();
#endif
#if XV_IN_GROUP(6)
  if (in_op == 6) op_swap();
#endif
#if XV_IN_GROUP(7)
  if (in_op == 7) op_reclaim();
#endif
#if XV_IN_GROUP(8)
  if (in_op == 8) op_acquire();
#endif
#if XV_IN_GROUP(9)
  if (in_op == 9) op_acquire_if_equal();
#endif
}

/* the guard's slot published, before the load that produced the result and unchanged since, an era between the construction era of the
 * object incarnation that load saw and the era clock at that load (see the comment at the monitors) */
#define PROTECTS (ga.he != 0 && ga.he->value.mark == 0 && ga.he == mon_last_src_he && slot_era(ga.he) == mon_last_src_slot_era && (!mon_slot_stored || mon_last_slot_store_clk < mon_last_src_clk) && mon_last_src_ctor <= slot_era(ga.he) && slot_era(ga.he) <= mon_last_src_eraclk)
/* =====================================================  guard level (INT)  ===================================================== */
void h_int(void) {
#ifdef XV_INT
  havoc_guard(&ga, &in_a_he, &in_a_ptr); havoc_guard(&gb, &in_b_he, &in_b_ptr); havoc_state(&ga, &gb);
  in_order = nondet_int(); XV_ASSUME(in_order == mo_relaxed || in_order == mo_consume || in_order == mo_acquire || in_order == mo_seq_cst);
  g_clk0 = xv_clock;
  in_harness = 3; in_op = nondet_uint();
#if XV_IN_GROUP(0)
  if (in_op == 0) {
    env_on = 1; g_acquire(&ga, &g_src, in_order); env_on = 0;
    XV_OBL("he.guard_ops.operand_frame", guard_eq(&gb, &pre_b));
    if (xv_threw) {
      chk_exit(&ga, &gb);
      struct inv_res res = inv_eval(&ga, &gb);
      XV_OBL("he.acquire.exc_safe", xv_threw == XV_EXC_bad_hazard_era_alloc && gi1(&ga) && res.count_ok && g_td.hint == 0);
      XV_CANARY("int.acquire.throw");
    } else {
      XV_OBL("he.acquire.snapshot", mon_src_loads >= 1 && mon_last_src_clk >= g_clk0 && ga.ptr == mon_last_src_val);
      if (MP_get(ga.ptr) != 0)
        XV_OBL("he.acquire.era_stable", ga.he != 0 && ga.he->value.mark == 0 && slot_era(ga.he) == mon_last_era_val && mon_last_era_clk > mon_last_src_clk);
      if (MP_get(ga.ptr) != 0) XV_OBL("he.acquire.protects", PROTECTS);
      XV_OBL("he.acquire.sync", XV_IS_ACQUIRE(mon_last_src_order) && mon_last_src_order != mo_consume && !mon_src_load_unfenced);
      chk_guard_pair();
      if (MP_get(ga.ptr) != 0) XV_CANARY("int.acquire.nonnull");
      if (ga.he != pre_a.he) XV_CANARY("int.acquire.new_slot");
    }
  }
#endif
#if XV_IN_GROUP(1)
  if (in_op == 1) {
    in_expected = nondet_uptr();
    env_on = 1; _Bool r = g_acquire_if_equal(&ga, &g_src, in_expected, in_order); env_on = 0;
    XV_OBL("he.guard_ops.operand_frame", guard_eq(&gb, &pre_b));
    if (xv_threw) {
      chk_exit(&ga, &gb);
      struct inv_res res = inv_eval(&ga, &gb);
      XV_OBL("he.acquire_if_equal.exc_safe", xv_threw == XV_EXC_bad_hazard_era_alloc && gi1(&ga) && res.count_ok && g_td.hint == 0);
      XV_CANARY("int.aie.throw");
    } else {
      XV_OBL("he.acquire_if_equal.iff", mon_src_loads >= 1 && mon_last_src_clk >= g_clk0 && r == (mon_last_src_val == in_expected));
      if (r) {
        XV_OBL("he.acquire_if_equal.iff", ga.ptr == in_expected);
        if (in_expected != 0) {
          XV_OBL("he.acquire.era_stable", ga.he != 0 && ga.he->value.mark == 0 && slot_era(ga.he) == mon_last_era_val && mon_last_era_clk > mon_last_src_clk);
          XV_OBL("he.acquire_if_equal.protects", PROTECTS);
          XV_OBL("he.acquire.sync", XV_IS_ACQUIRE(mon_last_src_order) && mon_last_src_order != mo_consume && !mon_src_load_unfenced);
          XV_CANARY("int.aie.true");
        }
      } else {
        XV_OBL("he.acquire_if_equal.iff", guard_empty(&ga));
        if (mon_src_loads >= 2) XV_CANARY("int.aie.false_second"); else XV_CANARY("int.aie.false_first");
      }
      chk_guard_pair(); XV_OBL("he.guard_ops.empty_holds_no_slot", gi2(&ga));
    }
  }
#endif
#endif
}
#endif
