#include "xv.h"
#define XV_INV_ACQ 1
#define XV_HAVOC_ACQ prev_era = 0; he=0; ptr=0
#include "lowered.h"
