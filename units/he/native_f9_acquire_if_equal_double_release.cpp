// F9: hazard_eras guard_ptr::acquire_if_equal (impl/hazard_eras.hpp:142-146) gives up its count in a shared hazard era
// (release_guard) and then allocates; when the allocation throws bad_hazard_era_alloc the guard still names the slot.
// Destroying/resetting the guard releases the slot a second time: the slot becomes free (link) while another guard
// protects an object through it, and that object is reclaimed under the other guard.
// exit 0: behaves correctly, 1: defect reproduced
#include "native_common.hpp"
using E = hen::env<2>;
int main() {
  static bool deadA = false, deadB = false, deadC = false;   // static: objects may be reclaimed during thread tear-down
  E::Foo* B = new E::Foo(&deadB); E::cptr pb{E::mptr(B)};
  E::gptr g3; g3.acquire(pb);                       // slot 0: era e0 (before A exists)
  E::advance_era_without_slot();
  E::Foo* A = new E::Foo(&deadA); E::cptr pa{E::mptr(A)};      // construction_era(A) = e1 > e0
  E::Foo* C = new E::Foo(&deadC); E::cptr pc{E::mptr(C)};
  E::gptr g1; g1.acquire(pa);                       // slot 1: era e1, count 1
  int bad = 0;
  {
    E::gptr g2(g1);                                 // slot 1: count 2
    E::advance_era_without_slot();                  // e2
    bool threw = false;
    try { g2.acquire_if_equal(pc, E::mptr(C)); } catch (const xenium::reclamation::bad_hazard_era_alloc&) { threw = true; }
    printf("acquire_if_equal threw=%d; g2.he=%p g1.he=%p guards(slot)=%llu\n", threw, (void*)g2.he, (void*)g1.he, (unsigned long long)g1.he->guards());
    if (!threw) { printf("no exception - scenario not applicable\n"); return 2; }
    if (g2.he != nullptr) { printf("after the throw g2 still names a hazard era it does not count in\n"); }
  }                                                 // ~g2 -> reset -> release_hazard_era
  printf("after ~g2: g1.get()=%p, guards(g1.he)=%llu, is_link=%d\n", (void*)g1.get(), (unsigned long long)g1.he->guards(), (int)g1.he->is_link());
  if (g1.he->guards() != 1 || g1.he->is_link()) { printf("DEFECT: the hazard era g1 protects A with has been freed\n"); bad = 1; }
  pa.store(nullptr); E::retire(A);                  // A is unlinked and retired while g1 still holds it
  printf("A destroyed while g1.get()==A: %d\n", (int)deadA);
  if (deadA) { printf("DEFECT: object reclaimed while a guard_ptr protects it\n"); bad = 1; }
  if (bad) { g1.he = nullptr; g1.ptr.reset(); }     // avoid a third release during tear-down
  return bad;
}
